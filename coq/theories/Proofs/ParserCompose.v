(* Compositionality of the parser model at a top-level object boundary (needed for the text-level
   clause of C13: tree-level inlining = parsing the textually inlined text).

   Main results (all about the model functions [nw], [caw], [sattrs], [cobj], [parse] themselves)
     nw_app, nw_app_end     the tokenizer on [a ++ b] while / after the token lies inside [a]
     caw_app, caw_app_end, sattrs_app, cobj_app
                            one run of the readers over [a] (complete, newline-terminated) inside
                            [a ++ b]: a braced run (stop = true) is unchanged, the top-level run arrives
                            at the start of [b] in a known state (pending definition, accumulator, next id)
     cobj_shift_ids         reading the same text k lines further down with ids j higher
     cobj_active_none/_err  a pending definition in front of a run that does not need one
     parse_app              (A) parse (a ++ b) = parse a ++ parse b up to ids and line numbers
     parse_app_err          (A) an error while reading b is the error of a ++ b (same kind and token)
     parse_app3, parse_concat   three pieces / any number of pieces
     include_line_inline    (B) "pre ++ content ++ post" and "pre ++ include-line ++ post"
   Conditions (each one shown necessary by an Example in section 9, replayed on the Python)
     on a: parse o a = Ok la; the last character of a is a newline [ends_nl a = true]; the text "#phil"
           does not occur in a [occurs intro a = false] (a directive __END__/__OFF__ would swallow b);
           the last non-blank character of a is not a backslash [lnb a <> Some bs] (it would continue
           the last value, or a trailing comment, into b)
     on b: [value_stops b]: the exact condition - a value that is being collected stops at the start
           of b (stated with [caw] itself).  Textual sufficient conditions: [follow_value_stops]
           ([follow_ok b] of TreeRoundtrip: b is blank or its first value-context token is an unquoted
           word other than ";" and "#"), [comment_value_stops] (b starts with a "# text" line without
           quote, backslash: a "# ..." line directly after a definition is tokenized in value context,
           finding F14), [blank_value_stops] (blank lines in front); and parse o b = Ok lb.
           A quoted word at the start of b continues the last value of a: [boundary_quoted_word_continues_value].
   Comparison: [map erase_obj] (ShowErase): primary ids and line numbers erased, everything else kept
   (names, nesting, order, disabled marks, is_template, merge_names, words with quote styles, ALL
   attributes).
   Future work (statements only, nothing assumed):
     - the precise version: parse (a ++ b) = la ++ map (shift (count_nl a) (next id of a - 1)) lb, where
       shift adds to every id and to every non-zero line (the prefix scopes of dotted names carry the id of
       the object they lead to - it shifts like every other id - and line 0, which stays 0); the proof
       is cobj_shift_ids with the relation "shifted" instead of "equal after erasure";
     - value_stops (p ++ x) from value_stops p and value_stops x for complete p (needs the section
       below relative to an arbitrary start line instead of line 1);
     - the boundary inside a braced run (b inserted before the closing brace of a scope of a). *)
From Coq Require Import List Ascii String Bool Arith ZArith Lia.
From Phil Require Import Base Tokenizer Tree Parser LexProofs QuoteProofs ParserTotal ParserLines ParserLayout
                         ShowErase WordsRoundtrip TreeRoundtrip.
Import ListNotations.
Local Open Scope char_scope.

(* ====================================================================================== *)
(* 1. texts that end with a newline; the last non-blank character; occurrences             *)
(* ====================================================================================== *)

Fixpoint ends_nl (s:str) : bool :=
  match s with [] => false | c :: r => match r with [] => Ascii.eqb c nl | _ => ends_nl r end end.

Lemma ends_nl_cons : forall c s, s <> [] -> ends_nl (c :: s) = ends_nl s.
Proof. intros c [|d s] H; [congruence|reflexivity]. Qed.
Lemma ends_nl_nonnil : forall s, ends_nl s = true -> s <> [].
Proof. intros [|c s] H; [discriminate H|discriminate]. Qed.
Lemma ends_nl_app : forall p r, r <> [] -> ends_nl (p ++ r) = ends_nl r.
Proof.
  induction p as [|c p IH]; intros r Hr; [reflexivity|].
  cbn [app]. rewrite ends_nl_cons; [apply IH; exact Hr|].
  destruct p; [exact Hr|discriminate].
Qed.
Lemma ends_nl_count : forall s, ends_nl s = true -> 1 <= count_nl s.
Proof.
  induction s as [|c s IH]; intros H; [discriminate H|].
  destruct s as [|d s].
  - cbn [ends_nl] in H. cbn [count_nl]. rewrite H. lia.
  - rewrite ends_nl_cons in H by discriminate. specialize (IH H). rewrite count_nl_cons. lia.
Qed.
Lemma ends_nl_mem : forall s, ends_nl s = true -> mem nl s = true.
Proof.
  induction s as [|c s IH]; intros H; [discriminate H|].
  destruct s as [|d s].
  - cbn [ends_nl] in H. cbn [mem]. rewrite Ascii.eqb_sym, H. reflexivity.
  - rewrite ends_nl_cons in H by discriminate.
    change (mem nl (c :: d :: s)) with (Ascii.eqb nl c || mem nl (d :: s)). rewrite (IH H). apply orb_true_r.
Qed.
(* a prefix without newline in front *)
Lemma ends_nl_skip : forall w r, count_nl w = 0 -> ends_nl (w ++ r) = true -> ends_nl r = true.
Proof.
  intros w r Hw H. destruct r as [|d r].
  - rewrite app_nil_r in H. apply ends_nl_count in H. lia.
  - rewrite ends_nl_app in H by discriminate. exact H.
Qed.
(* the character before the rest is no newline *)
Lemma ends_nl_after : forall p c r, Ascii.eqb c nl = false -> ends_nl (p ++ c :: r) = true -> ends_nl r = true.
Proof.
  intros p c r Hc H. rewrite ends_nl_app in H by discriminate.
  destruct r as [|d r]; [cbn [ends_nl] in H; congruence|].
  rewrite ends_nl_cons in H by discriminate. exact H.
Qed.

(* last non-blank character *)
Fixpoint lnb (s:str) : option ascii :=
  match s with
  | [] => None
  | c :: r => match lnb r with Some x => Some x | None => if isspace c then None else Some c end
  end.
Lemma lnb_blank : forall s, forallb isspace s = true -> lnb s = None.
Proof.
  induction s as [|c s IH]; intros H; [reflexivity|]. cbn [forallb] in H. apply andb_prop in H as [H1 H2].
  cbn [lnb]. rewrite (IH H2), H1. reflexivity.
Qed.
Lemma lnb_app : forall p r, lnb (p ++ r) = match lnb r with Some x => Some x | None => lnb p end.
Proof.
  induction p as [|c p IH]; intros r; [cbn [app lnb]; destruct (lnb r); reflexivity|].
  cbn [app lnb]. rewrite IH. destruct (lnb r); reflexivity.
Qed.
Lemma lnb_char_blank : forall p c r, isspace c = false -> forallb isspace r = true -> lnb (p ++ c :: r) = Some c.
Proof.
  intros p c r Hc Hr. rewrite lnb_app. cbn [lnb]. rewrite (lnb_blank r Hr), Hc. reflexivity.
Qed.

(* [occurs x s]: x is a substring of s *)
Fixpoint occurs (x s:str) : bool :=
  prefixb x s || match s with [] => false | _ :: r => occurs x r end.
Lemma prefixb_app_self : forall x q, prefixb x (x ++ q) = true.
Proof. induction x as [|c x IH]; intros q; [reflexivity|]. cbn [app prefixb]. rewrite Ascii.eqb_refl, IH. reflexivity. Qed.
Lemma occurs_app : forall x p q, occurs x (p ++ x ++ q) = true.
Proof.
  intros x p q; induction p as [|c p IH].
  - cbn [app]. destruct (x ++ q) eqn:E; cbn [occurs]; rewrite <- E, prefixb_app_self; reflexivity.
  - cbn [app occurs]. rewrite IH. apply orb_true_r.
Qed.

(* ====================================================================================== *)
(* 2. the tokenizer on a ++ b                                                               *)
(* ====================================================================================== *)

(* ---------- quoted bodies *)
Lemma scan_triple_short : forall q s line, length s < 3 -> exists l, scan true q s line = inr l.
Proof.
  intros q [|x [|y [|z s]]] line H; cbn [length] in H; try lia; cbn [scan scons negb];
    repeat (match goal with |- context [if ?c then _ else _] => destruct c end; cbn [scan scons negb]);
    eexists; reflexivity.
Qed.

Lemma scan_app : forall triple q b s line v r l',
  scan triple q s line = inl (v, r, l') -> scan triple q (s ++ b) line = inl (v, r ++ b, l').
Proof.
  intros triple q b s; remember (length s) as n eqn:Hn; revert s Hn.
  induction n as [n IHn] using lt_wf_ind; intros s Hn line v r l' H.
  destruct s as [|c s]; [discriminate|].
  assert (Hstep : forall x s' line1 v r l', length s' < n ->
            scons x (scan triple q s' line1) = inl (v, r, l') ->
            scons x (scan triple q (s' ++ b) line1) = inl (v, r ++ b, l')).
  { intros x s' line1 v0 r0 l0 Hlt Hs. unfold scons in *.
    destruct (scan triple q s' line1) as [[[v1 r1] l1]|] eqn:E; [|discriminate].
    inversion Hs; subst. rewrite (IHn _ Hlt s' eq_refl _ _ _ _ E). reflexivity. }
  assert (Hlen : length s < n) by (subst n; cbn; lia).
  rewrite <- app_comm_cons. cbn [scan] in H |- *.
  destruct (Ascii.eqb c q) eqn:Ecq.
  - destruct triple; cbn [negb] in H |- *.
    + destruct s as [|q1 [|q2 s']].
      * cbn in H. discriminate H.
      * exfalso. destruct (scan_triple_short q [q1] (bump c line)) as [l Hl]; [cbn; lia|].
        rewrite Hl in H. discriminate H.
      * cbn [app]. destruct (Ascii.eqb q1 q && Ascii.eqb q2 q).
        -- inversion H; subst. reflexivity.
        -- change (q1 :: q2 :: s' ++ b) with ((q1 :: q2 :: s') ++ b). apply Hstep; [exact Hlen|exact H].
    + inversion H; subst. reflexivity.
  - destruct (Ascii.eqb c bs) eqn:Ecb; [|apply Hstep; [exact Hlen|exact H]].
    destruct s as [|d s']; [cbn in H; discriminate H|].
    assert (Hlen' : length s' < n) by (cbn in Hlen; lia).
    cbn [app].
    destruct (Ascii.eqb d bs); [apply Hstep; [exact Hlen'|exact H]|].
    destruct (Ascii.eqb d q); [apply Hstep; [exact Hlen'|exact H]|].
    destruct (Ascii.eqb d nl).
    + apply (IHn _ Hlen' s' eq_refl). exact H.
    + change (d :: s' ++ b) with ((d :: s') ++ b). apply Hstep; [exact Hlen|exact H].
Qed.

(* the consumed part of a quoted body ends with the closing quote character *)
Lemma scan_last : forall triple q s line v r l',
  scan triple q s line = inl (v, r, l') -> exists pre, s = pre ++ q :: r.
Proof.
  intros triple q s; remember (length s) as n eqn:Hn; revert s Hn.
  induction n as [n IHn] using lt_wf_ind; intros s Hn line v r l' H.
  destruct s as [|c s]; [discriminate|].
  assert (Hstep : forall x s' line1 v r l', length s' < n ->
            scons x (scan triple q s' line1) = inl (v, r, l') -> exists pre, s' = pre ++ q :: r).
  { intros x s' line1 v0 r0 l0 Hlt Hs. unfold scons in Hs.
    destruct (scan triple q s' line1) as [[[v1 r1] l1]|] eqn:E; [|discriminate].
    inversion Hs; subst. eapply IHn; [exact Hlt|reflexivity|exact E]. }
  assert (Hlen : length s < n) by (subst n; cbn; lia).
  assert (Hmain : scons c (scan triple q s (bump c line)) = inl (v, r, l') -> exists pre, c :: s = pre ++ q :: r).
  { intros H'. destruct (Hstep _ _ _ _ _ _ Hlen H') as (pre & Hp). exists (c :: pre). cbn; f_equal; exact Hp. }
  cbn [scan] in H.
  destruct (Ascii.eqb c q) eqn:Ecq.
  - apply Ascii.eqb_eq in Ecq. subst c.
    destruct triple; cbn [negb] in H.
    + destruct s as [|q1 [|q2 s']]; try (apply Hmain; exact H).
      destruct (Ascii.eqb q1 q && Ascii.eqb q2 q) eqn:E2; [|apply Hmain; exact H].
      inversion H; subst. apply andb_prop in E2 as [E21 E22]. apply Ascii.eqb_eq in E21, E22. subst.
      exists [q; q]. reflexivity.
    + inversion H; subst. exists []. reflexivity.
  - destruct (Ascii.eqb c bs) eqn:Ecb; [|apply Hmain; exact H].
    destruct s as [|d s']; [apply Hmain; exact H|].
    assert (Hlen' : length s' < n) by (cbn in Hlen; lia).
    assert (H2 : forall x line1, scons x (scan triple q s' line1) = inl (v, r, l') ->
                 exists pre, c :: d :: s' = pre ++ q :: r).
    { intros x line1 H'. destruct (Hstep _ _ _ _ _ _ Hlen' H') as (pre & Hp). exists (c :: d :: pre). cbn; do 2 f_equal; exact Hp. }
    destruct (Ascii.eqb d bs); [eapply H2; exact H|].
    destruct (Ascii.eqb d q); [eapply H2; exact H|].
    destruct (Ascii.eqb d nl); [|apply Hmain; exact H].
    destruct (IHn _ Hlen' s' eq_refl _ _ _ _ H) as (pre & Hp). exists (c :: d :: pre). cbn; do 2 f_equal; exact Hp.
Qed.

Lemma quoted_word_app : forall triple c body b line w r l,
  quoted_word triple c body line = TWord w r l ->
  quoted_word triple c (body ++ b) line = TWord w (r ++ b) l.
Proof.
  intros triple c body b line w r l H. unfold quoted_word in *.
  destruct (scan triple c body line) as [[[v r1] l1]|] eqn:E; [|discriminate].
  rewrite (scan_app _ _ b _ _ _ _ _ E). inversion H; subst. reflexivity.
Qed.
Lemma quoted_word_last : forall triple c body line w r l,
  quoted_word triple c body line = TWord w r l -> exists pre, body = pre ++ c :: r.
Proof.
  intros triple c body line w r l H. unfold quoted_word in H.
  destruct (scan triple c body line) as [[[v r1] l1]|] eqn:E; [|discriminate].
  inversion H; subst. eapply scan_last; exact E.
Qed.
Lemma quoted_word_not_end : forall triple c body line, quoted_word triple c body line <> TEnd.
Proof. intros. unfold quoted_word. destruct (scan triple c body line) as [[[v r] l']|]; discriminate. Qed.

(* ---------- unquoted words *)
Lemma take_app : forall σ b s w r, take σ s = (w, r) -> r <> [] -> take σ (s ++ b) = (w, r ++ b).
Proof.
  intros σ b; induction s as [|c s IH]; intros w r H Hr.
  - cbn in H. inversion H; subst. congruence.
  - cbn [take] in H. rewrite <- app_comm_cons. cbn [take].
    destruct (isspace c); [inversion H; subst; reflexivity|].
    destruct (mem c (single σ)); [inversion H; subst; reflexivity|].
    match type of H with (if ?t then _ else _) = _ => destruct t end; [inversion H; subst; reflexivity|].
    destruct (take σ s) as [w' r'] eqn:E. inversion H; subst.
    rewrite (IH _ _ eq_refl Hr). reflexivity.
Qed.

(* ---------- the meta-comment test *)
Definition meta_ok (σ:settings) : Prop := match meta σ with Some m => mem nl m = false | None => True end.
Lemma meta_ok_s0 : meta_ok s0. Proof. reflexivity. Qed.
Lemma meta_ok_s1 : meta_ok s1. Proof. exact I. Qed.

Lemma prefixb_app_true : forall m s b, prefixb m s = true -> prefixb m (s ++ b) = true.
Proof.
  induction m as [|a m IH]; intros s b H; [reflexivity|].
  destruct s as [|x s]; [discriminate H|]. cbn [app prefixb] in *.
  apply andb_prop in H as [H1 H2]. rewrite H1, (IH _ _ H2). reflexivity.
Qed.
Lemma prefixb_stable : forall m s b, mem nl m = false -> mem nl s = true -> prefixb m (s ++ b) = prefixb m s.
Proof.
  induction m as [|a m IH]; intros s b Hm Hs; [reflexivity|].
  destruct s as [|x s]; [discriminate Hs|]. cbn [app prefixb].
  cbn [mem] in Hm. apply orb_false_iff in Hm as [Ha Hm].
  destruct (Ascii.eqb a x) eqn:E; [|reflexivity]. cbn [andb].
  apply Ascii.eqb_eq in E. subst x. cbn [mem] in Hs. rewrite Ha in Hs. cbn [orb] in Hs.
  apply IH; assumption.
Qed.
Lemma meta_test_stable : forall σ s b, meta_ok σ -> mem nl s = true ->
  match meta σ with None => true | Some m => negb (prefixb m (s ++ b)) end
  = match meta σ with None => true | Some m => negb (prefixb m s) end.
Proof.
  intros σ s b Hm Hs. unfold meta_ok in Hm. destruct (meta σ) as [m|]; [|reflexivity].
  rewrite prefixb_stable by assumption. reflexivity.
Qed.

Lemma nw_true_has_nl : forall σ s line w r l, nw σ true s line = TWord w r l -> mem nl s = true.
Proof.
  intros σ; induction s as [|c s IH]; intros line w r l H; [discriminate H|].
  cbn [nw] in H. cbn [mem]. rewrite Ascii.eqb_sym. destruct (Ascii.eqb c nl); [reflexivity|].
  cbn [negb orb] in *. eapply IH; exact H.
Qed.

(* ---------- a token that ends inside a (its rest is not empty) is the same token in a ++ b *)
Theorem nw_app : forall σ b, meta_ok σ -> forall s ic line w r l,
  nw σ ic s line = TWord w r l -> r <> [] -> nw σ ic (s ++ b) line = TWord w (r ++ b) l.
Proof.
  intros σ b Hm; induction s as [|c s IH]; intros ic line w r l H Hr; [discriminate H|].
  rewrite <- app_comm_cons. cbn [nw] in H |- *.
  destruct ic; [apply IH; assumption|].
  destruct (isspace c); [apply IH; assumption|].
  destruct (mem c (comment σ)) eqn:Ecm; cbn [andb] in H |- *.
  { destruct (match meta σ with None => true | Some m => negb (prefixb m s) end) eqn:Et.
    - rewrite meta_test_stable, Et; [apply IH; assumption|exact Hm|eapply nw_true_has_nl; exact H].
    - assert (Et' : match meta σ with None => true | Some m => negb (prefixb m (s ++ b)) end = false).
      { destruct (meta σ) as [m|]; [|discriminate Et]. apply negb_false_iff in Et.
        rewrite (prefixb_app_true _ _ b Et). reflexivity. }
      rewrite Et'. clear Et Et'.
      destruct (Ascii.eqb c dq || Ascii.eqb c sq).
      + destruct s as [|q1 [|q2 s']].
        * unfold quoted_word in H. cbn [scan] in H. discriminate H.
        * exfalso. unfold quoted_word in H. cbn [scan negb scons] in H.
          destruct (Ascii.eqb q1 c); [inversion H; subst; congruence|].
          destruct (Ascii.eqb q1 bs); discriminate H.
        * cbn [app]. destruct (Ascii.eqb q1 c && Ascii.eqb q2 c).
          -- apply quoted_word_app; exact H.
          -- change (q1 :: q2 :: s' ++ b) with ((q1 :: q2 :: s') ++ b). apply quoted_word_app; exact H.
      + match type of H with (if ?t then _ else _) = _ => destruct t end.
        * destruct (take σ s) as [w0 r0] eqn:E. inversion H; subst.
          rewrite (take_app σ b s _ _ E Hr). reflexivity.
        * inversion H; subst. reflexivity. }
  destruct (Ascii.eqb c dq || Ascii.eqb c sq).
  + destruct s as [|q1 [|q2 s']].
    * unfold quoted_word in H. cbn [scan] in H. discriminate H.
    * exfalso. unfold quoted_word in H. cbn [scan negb scons] in H.
      destruct (Ascii.eqb q1 c); [inversion H; subst; congruence|].
      destruct (Ascii.eqb q1 bs); discriminate H.
    * cbn [app]. destruct (Ascii.eqb q1 c && Ascii.eqb q2 c).
      -- apply quoted_word_app; exact H.
      -- change (q1 :: q2 :: s' ++ b) with ((q1 :: q2 :: s') ++ b). apply quoted_word_app; exact H.
  + match type of H with (if ?t then _ else _) = _ => destruct t end.
    * destruct (take σ s) as [w0 r0] eqn:E. inversion H; subst.
      rewrite (take_app σ b s _ _ E Hr). reflexivity.
    * inversion H; subst. reflexivity.
Qed.

(* ---------- in a newline-terminated text the rest after a token is again newline-terminated *)
Lemma isspace_nl : isspace nl = true. Proof. reflexivity. Qed.
Lemma quote_not_nl : forall c, Ascii.eqb c dq || Ascii.eqb c sq = true -> Ascii.eqb c nl = false.
Proof.
  intros c H. apply orb_prop in H as [H|H]; apply Ascii.eqb_eq in H; subst c; reflexivity.
Qed.

Theorem nw_ends : forall σ s ic line w r l,
  nw σ ic s line = TWord w r l -> ends_nl s = true -> ends_nl r = true.
Proof.
  intros σ; induction s as [|c s IH]; intros ic line w r l H He; [discriminate H|].
  cbn [nw] in H.
  assert (Hrec : forall ic' line', nw σ ic' s line' = TWord w r l -> ends_nl r = true).
  { intros ic' line' H'. eapply IH; [exact H'|]. destruct s as [|d s]; [discriminate H'|].
    rewrite ends_nl_cons in He by discriminate. exact He. }
  destruct ic; [eapply Hrec; exact H|].
  destruct (isspace c) eqn:Es; [eapply Hrec; exact H|].
  match type of H with (if ?t then _ else _) = _ => destruct t end; [eapply Hrec; exact H|].
  assert (Hs : s <> [] /\ ends_nl s = true).
  { destruct s as [|d s].
    - cbn [ends_nl] in He. apply Ascii.eqb_eq in He. subst c. discriminate Es.
    - split; [discriminate|]. rewrite ends_nl_cons in He by discriminate. exact He. }
  destruct Hs as [Hsn Hse].
  destruct (Ascii.eqb c dq || Ascii.eqb c sq) eqn:Eq.
  - pose proof (quote_not_nl c Eq) as Hcn.
    assert (Hq : forall triple body skipped, s = skipped ++ body ->
              quoted_word triple c body (bump c line) = TWord w r l -> ends_nl r = true).
    { intros triple body skipped Hsk Hqw. destruct (quoted_word_last _ _ _ _ _ _ _ Hqw) as (pre & Hp).
      apply (ends_nl_after (skipped ++ pre) c r Hcn). rewrite <- app_assoc, <- Hp, <- Hsk. exact Hse. }
    destruct s as [|q1 [|q2 s']].
    + congruence.
    + eapply (Hq false [q1] []); [reflexivity|exact H].
    + destruct (Ascii.eqb q1 c && Ascii.eqb q2 c) eqn:E2.
      * eapply (Hq true s' [q1; q2]); [reflexivity|exact H].
      * eapply (Hq false (q1 :: q2 :: s') []); [reflexivity|exact H].
  - match type of H with (if ?t then _ else _) = _ => destruct t end.
    + destruct (take σ s) as [w0 r0] eqn:Et. inversion H; subst.
      destruct (take_split _ _ _ _ Et) as [Hsp Hc]. rewrite Hsp in Hse.
      eapply ends_nl_skip; eassumption.
    + inversion H; subst. exact Hse.
Qed.

(* ---------- when a (newline-terminated) holds no further token, reading goes on in b *)
Theorem nw_app_end : forall σ b, meta_ok σ -> forall s ic line, ends_nl s = true ->
  nw σ ic s line = TEnd -> nw σ ic (s ++ b) line = nw σ false b (line + count_nl s).
Proof.
  intros σ b Hm; induction s as [|c s IH]; intros ic line He H; [discriminate He|].
  destruct s as [|d s].
  - cbn [ends_nl] in He. apply Ascii.eqb_eq in He. subst c.
    cbn [app nw]. rewrite Ascii.eqb_refl, isspace_nl. cbn [negb].
    replace (line + count_nl [nl]) with (bump nl line) by (unfold bump; rewrite Ascii.eqb_refl; cbn; lia).
    destruct ic; reflexivity.
  - rewrite ends_nl_cons in He by discriminate.
    set (t := d :: s) in *.
    assert (Hrec : forall ic', nw σ ic' t (bump c line) = TEnd ->
              nw σ ic' (t ++ b) (bump c line) = nw σ false b (line + count_nl (c :: t))).
    { intros ic' H'. rewrite (IH ic' (bump c line) He H'). f_equal. cnt. }
    rewrite <- app_comm_cons. cbn [nw] in H |- *.
    destruct ic; [apply Hrec; exact H|].
    destruct (isspace c); [apply Hrec; exact H|].
    rewrite (meta_test_stable σ t b Hm (ends_nl_mem _ He)).
    match type of H with (if ?t then _ else _) = _ => destruct t end; [apply Hrec; exact H|].
    exfalso. destruct (Ascii.eqb c dq || Ascii.eqb c sq).
    + unfold t in H. destruct s as [|q2 s'].
      * eapply quoted_word_not_end; exact H.
      * destruct (Ascii.eqb d c && Ascii.eqb q2 c); eapply quoted_word_not_end; exact H.
    + match type of H with (if ?t then _ else _) = _ => destruct t end; [|discriminate H].
      destruct (take σ t); discriminate H.
Qed.

(* ====================================================================================== *)
(* 3. the readers over a ++ b, for a fixed complete newline-terminated a                    *)
(* ====================================================================================== *)

Lemma weq_true : forall w s, weq w s = true -> isq w = false /\ wv w = s.
Proof.
  intros w s H. unfold weq in H. apply andb_prop in H as [H1 H2]. apply negb_true_iff in H1.
  split; [exact H1|]. apply TreeRoundtrip.eqs_true. exact H2.
Qed.

(* ====================================================================================== *)
(* 3a. the boundary condition on b                                                          *)
(* ====================================================================================== *)

(* [value_stops b]: a value (collect_assigned_words, already holding at least one word, in or out of
   a trailing comment) whose last word stands on an earlier line and is no lone backslash stops at
   the start of b without taking anything from it, and hands back a position from which the
   structure-context reader sees exactly what it sees at the start of b.  This is the exact condition
   the composition needs; textual sufficient conditions: [follow_value_stops] (b is blank or starts
   with an unquoted token other than ";" and "#"), [comment_value_stops] (b starts with a plain
   "# text" line), [blank_value_stops] (leading blanks in front of either). *)
Definition value_stops (b:str) : Prop :=
  forall f line hc last a0 acc lead,
    S (length b) < f -> wline last < line -> weq last [bs] = false ->
    exists r' l', caw f b line hc last (a0 :: acc) lead = Ok (rev (a0 :: acc), r', l')
                  /\ nw s0 false r' l' = nw s0 false b line.

Lemma follow_value_stops : forall b, follow_ok b -> value_stops b.
Proof.
  intros b Hb f line hc last a0 acc lead Hf Hl Hbs.
  destruct f as [|f]; [lia|]. cbn [caw].
  destruct (Hb line) as [Hbb|(w & r2 & l2 & Hw & Hq & Hsemi & Hhash)].
  - rewrite (nw_all_blank s1 b _ Hbb). exists [], line. split; [reflexivity|].
    rewrite (nw_all_blank s0 b _ Hbb). reflexivity.
  - rewrite Hw, Hq, Hsemi, Hhash, Hbs. cbn [negb orb andb].
    destruct (nw_ge _ _ _ _ _ _ _ Hw) as [Hge _].
    assert (Hd : (wline w =? wline last)%nat = false) by (apply Nat.eqb_neq; lia).
    rewrite Hd. cbn [negb].
    exists b, line. split; [|reflexivity].
    destruct (negb hc && true && (is1 w "{" || is1 w "}" || false || false)); reflexivity.
Qed.

Lemma blank_value_stops : forall p b, forallb isspace p = true -> value_stops b -> value_stops (p ++ b).
Proof.
  intros p b Hp Hb f line hc last a0 acc lead Hf Hl Hbs.
  destruct f as [|f]; [lia|].
  assert (Hnw : forall σ, nw σ false (p ++ b) line = nw σ false b (line + count_nl p)).
  { intros σ. apply nw_skip_blanks. exact Hp. }
  rewrite app_length in Hf.
  destruct (nw s1 false b (line + count_nl p)) as [|w r l|l] eqn:En.
  - cbn [caw]. rewrite (Hnw s1), En. exists [], line. split; [reflexivity|].
    rewrite (Hnw s0). pose proof (nw_end_blank s1 b _ eq_refl En) as Hbb.
    rewrite (nw_all_blank s0 b _ Hbb). reflexivity.
  - destruct (Hb (S f) (line + count_nl p) hc last a0 acc lead ltac:(lia) ltac:(lia) Hbs) as (r' & l' & Hc & Hr).
    destruct (caw_pos_ext f (p ++ b) line b (line + count_nl p) hc last (a0 :: acc) lead (Hnw s1)) as [He|(ws & He1 & He2)].
    { right. rewrite (Hnw s1), En. discriminate. }
    + exists r', l'. rewrite He, (Hnw s0). split; assumption.
    + rewrite Hc in He2. inversion He2; subst. exists (p ++ b), line. split; [exact He1|reflexivity].
  - destruct (Hb (S f) (line + count_nl p) hc last a0 acc lead ltac:(lia) ltac:(lia) Hbs) as (r' & l' & Hc & Hr).
    cbn [caw] in Hc. rewrite En in Hc. discriminate Hc.
Qed.

Lemma delim_not_phil : forall body rest, delim s1 (body ++ [nl]) = true -> prefixb (s_ "phil") (body ++ nl :: rest) = false.
Proof.
  intros [|c body] rest H; [reflexivity|]. cbn [app delim] in H. cbn [app s_ String.list_ascii_of_string prefixb].
  destruct (Ascii.eqb "p" c) eqn:E; [|reflexivity]. apply Ascii.eqb_eq in E. subst c. discriminate H.
Qed.

Lemma comment_value_stops : forall body rest,
  plainb body = true -> delim s1 (body ++ [nl]) = true -> (forall line, next_unquoted rest line = true) ->
  value_stops ("#" :: body ++ nl :: rest).
Proof.
  intros body rest Hp Hd Hnext f line hc last a0 acc lead Hf Hl Hbs.
  assert (Hs0 : nw s0 false ("#" :: body ++ nl :: rest) line = nw s0 false rest (S line)).
  { apply nw_s0_comment; [|apply delim_not_phil; exact Hd].
    clear -Hp. induction body as [|c x IH]; [reflexivity|]. cbn [ParserLayout.plainb forallb] in Hp.
    apply andb_prop in Hp as [Hc Hx]. destruct (ParserLayout.plainc_facts c Hc) as (_ & _ & H3 & _).
    cbn [mem]. rewrite Ascii.eqb_sym, H3. apply IH. exact Hx. }
  destruct hc.
  - destruct f as [|f]; [lia|]. cbn [caw].
    assert (Htok : nw s1 false ("#" :: body ++ nl :: rest) line = TWord (mkword ["#"] QN line) (body ++ nl :: rest) line).
    { apply (ParserLayout.nw_word s1 "#" [] (body ++ nl :: rest) line eq_refl eq_refl eq_refl).
      destruct body as [|c x]; [reflexivity|exact Hd]. }
    rewrite Htok. cbn [negb andb isq wq orb wline]. rewrite Hbs.
    assert (Hd2 : (line =? wline last)%nat = false) by (apply Nat.eqb_neq; lia).
    rewrite Hd2. cbn [negb]. exists ("#" :: body ++ nl :: rest), line. split; reflexivity.
  - destruct (caw_trailing_comment f [] body rest line last a0 acc lead eq_refl eq_refl Hp Hd (Hnext _))
      as (p & Hc & Hpn); [cbn [app]; lia|].
    cbn [app] in Hc. exists p, line. split; [exact Hc|]. rewrite Hpn, Hs0. reflexivity.
Qed.

Section Compose.
  Variable o : oracle.
  Variables a b : str.
  Hypothesis Ha_nl : ends_nl a = true.
  Hypothesis Ha_dir : occurs intro a = false.
  Hypothesis Ha_bs : lnb a <> Some bs.
  Hypothesis Hb : value_stops b.
  Let k := count_nl a.

  (* a reader position inside a: a non-empty suffix of a with the right line number *)
  Definition inpos (s:str) (line:nat) : Prop := s <> [] /\ pos_ok a s line.

  Lemma inpos_start : inpos a 1.
  Proof. split; [apply ends_nl_nonnil; exact Ha_nl|apply pos_ok_start]. Qed.
  Lemma inpos_ends : forall s line, inpos s line -> ends_nl s = true.
  Proof. intros s line (Hs & pre & Ha & _). pose proof Ha_nl as H. rewrite Ha, ends_nl_app in H; assumption. Qed.
  Lemma inpos_line : forall s line, inpos s line -> line + count_nl s = 1 + k.
  Proof. intros s line (_ & pre & Ha & Hl). unfold k. rewrite Ha, Hl. cnt. Qed.
  Lemma inpos_le : forall s line, inpos s line -> line <= k.
  Proof. intros s line H. pose proof (inpos_line _ _ H). pose proof (ends_nl_count _ (inpos_ends _ _ H)). lia. Qed.

  Lemma inpos_nw : forall σ ic s line w r l, meta_ok σ -> inpos s line -> nw σ ic s line = TWord w r l ->
    inpos r l /\ word_placed a w /\ nw σ ic (s ++ b) line = TWord w (r ++ b) l
    /\ line <= wline w /\ wline w <= l /\ length r < length s.
  Proof.
    intros σ ic s line w r l Hm Hp H.
    pose proof (nw_ends _ _ _ _ _ _ _ H (inpos_ends _ _ Hp)) as He.
    pose proof (ends_nl_nonnil _ He) as Hr.
    destruct Hp as (Hs & Hpos).
    destruct (nw_pos a _ _ _ _ _ _ _ Hpos H) as (Hpr & Hw).
    destruct (nw_lines _ _ _ _ _ _ _ H) as (pre & body & _ & Hwl & Hl & _).
    split; [split; assumption|]. split; [exact Hw|]. split; [apply nw_app; assumption|].
    split; [lia|]. split; [rewrite Hwl, Hl; cnt|]. eapply nw_rest_shorter; exact H.
  Qed.

  Lemma inpos_pop : forall s line w r l, inpos s line -> pop s0 s line = Ok (w, r, l) ->
    inpos r l /\ word_placed a w /\ pop s0 (s ++ b) line = Ok (w, r ++ b, l)
    /\ line <= wline w /\ wline w <= l /\ length r < length s.
  Proof.
    intros s line w r l Hp H. unfold pop in *.
    destruct (nw s0 false s line) as [|w1 r1 l1|l1] eqn:En; try discriminate H. inversion H; subst.
    destruct (inpos_nw _ _ _ _ _ _ _ meta_ok_s0 Hp En) as (H1 & H2 & H3 & H4 & H5 & H6).
    rewrite H3. auto 10.
  Qed.
  Lemma inpos_pop_unq : forall s line w r l, inpos s line -> pop_unq s0 s line = Ok (w, r, l) ->
    inpos r l /\ word_placed a w /\ isq w = false /\ pop_unq s0 (s ++ b) line = Ok (w, r ++ b, l)
    /\ line <= wline w /\ wline w <= l /\ length r < length s.
  Proof.
    intros s line w r l Hp H. unfold pop_unq in *.
    destruct (pop s0 s line) as [[[w1 r1] l1]| |] eqn:E; try discriminate H.
    destruct (isq w1) eqn:Eq; [discriminate H|]. inversion H; subst.
    destruct (inpos_pop _ _ _ _ _ Hp E) as (H1 & H2 & H3 & H4 & H5 & H6).
    rewrite H3, Eq. auto 10.
  Qed.

  (* the unquoted word "#phil" is not read anywhere in a *)
  Lemma no_directive : forall w, word_placed a w -> isq w = false -> eqs (wv w) intro = false.
  Proof.
    intros w (pre & body & rest & Ha & _ & (_ & tl & Hb1 & Hb2)) Hq.
    destruct (eqs (wv w) intro) eqn:E; [|reflexivity]. exfalso.
    apply TreeRoundtrip.eqs_true in E. specialize (Hb2 (unq_QN _ Hq)). rewrite (unq_QN _ Hq) in Hb1.
    cbn [qtoken app] in Hb1. subst tl body. rewrite E in Ha.
    pose proof (occurs_app intro pre rest) as Ho. rewrite <- Ha in Ho. congruence.
  Qed.

  (* ---------- collect_assigned_words that stops inside a *)
  Lemma caw_app : forall f s line hc last acc lead ws r l,
    inpos s line -> caw f s line hc last acc lead = Ok (ws, r, l) -> r <> [] ->
    inpos r l /\ line <= l /\ length r <= length s /\ caw f (s ++ b) line hc last acc lead = Ok (ws, r ++ b, l).
  Proof.
    induction f as [|f IH]; intros s line hc last acc lead ws r l Hp H Hr; [discriminate H|].
    cbn [caw] in H |- *.
    assert (Hfin : forall s2 l2, inpos s2 l2 -> line <= l2 -> length s2 <= length s ->
       match acc with [] => E "MissingValue" (str_of_word lead) (wline lead) | _ => Ok (rev acc, s2, l2) end = Ok (ws, r, l) ->
       inpos r l /\ line <= l /\ length r <= length s /\
       match acc with [] => E "MissingValue" (str_of_word lead) (wline lead) | _ => Ok (rev acc, s2 ++ b, l2) end
       = Ok (ws, r ++ b, l)).
    { intros s2 l2 H2 Hle Hlen Hm. destruct acc; [discriminate Hm|]. inversion Hm; subst. auto. }
    destruct (nw s1 false s line) as [|w r1 l1|l1] eqn:En.
    - destruct acc; [discriminate H|]. inversion H; subst. congruence.
    - destruct (inpos_nw _ _ _ _ _ _ _ meta_ok_s1 Hp En) as (Hp1 & _ & Happ & Hw1 & Hw2 & Hlen1).
      rewrite Happ.
      assert (Hrec : forall hc' last' acc', caw f r1 l1 hc' last' acc' lead = Ok (ws, r, l) ->
                inpos r l /\ line <= l /\ length r <= length s /\ caw f (r1 ++ b) l1 hc' last' acc' lead = Ok (ws, r ++ b, l)).
      { intros hc' last' acc' H'. destruct (IH _ _ _ _ _ _ _ _ _ Hp1 H' Hr) as (I1 & I2 & I3 & I4).
        split; [exact I1|]. split; [lia|]. split; [lia|exact I4]. }
      destruct (negb hc && negb (isq w) && (is1 w "{" || is1 w "}" || is1 w ";" || is1 w "#")).
      + destruct (is1 w ";"); [apply Hfin; [exact Hp1|lia|lia|exact H]|].
        destruct (negb (is1 w "#")); [apply Hfin; [exact Hp|lia|lia|exact H]|apply Hrec; exact H].
      + destruct (isq w || weq last [bs]); [apply Hrec; exact H|].
        destruct (negb (wline w =? wline last)%nat); [apply Hfin; [exact Hp|lia|lia|exact H]|apply Hrec; exact H].
    - discriminate H.
  Qed.

  (* ---------- collect_assigned_words that runs to the end of a: in a ++ b it stops at the start of
     b ([value_stops b]) and hands back a position that reads like the start of b *)
  Lemma caw_app_end : forall f s line hc last acc lead ws l,
    inpos s line -> S (length (s ++ b)) < f -> caw f s line hc last acc lead = Ok (ws, [], l) ->
    (forallb isspace s = true -> weq last [bs] = false) -> wline last <= line ->
    exists r' l', caw f (s ++ b) line hc last acc lead = Ok (ws, r', l')
      /\ nw s0 false r' l' = nw s0 false b (1 + k).
  Proof.
    induction f as [|f IH]; intros s line hc last acc lead ws l Hp Hf H Hlast Hll; [discriminate H|].
    cbn [caw] in H.
    destruct (nw s1 false s line) as [|w r1 l1|l1] eqn:En.
    - pose proof (nw_end_blank s1 s line eq_refl En) as Hbl.
      assert (Hnw : forall σ, nw σ false (s ++ b) line = nw σ false b (1 + k)).
      { intros σ. rewrite (nw_skip_blanks σ s b line Hbl), (inpos_line _ _ Hp). reflexivity. }
      destruct acc as [|a0 acc']; [discriminate H|]. inversion H; subst ws l. clear H.
      pose proof (inpos_le _ _ Hp) as Hk. rewrite app_length in Hf.
      destruct (nw s1 false b (1 + k)) as [|w r l|l] eqn:Eb.
      + cbn [caw]. rewrite (Hnw s1), Eb. exists [], line. split; [reflexivity|].
        pose proof (nw_end_blank s1 b _ eq_refl Eb) as Hbb. rewrite (nw_all_blank s0 b _ Hbb). reflexivity.
      + destruct (Hb (S f) (1 + k) hc last a0 acc' lead ltac:(lia) ltac:(lia) (Hlast Hbl)) as (r' & l' & Hc & Hr).
        destruct (caw_pos_ext f (s ++ b) line b (1 + k) hc last (a0 :: acc') lead (Hnw s1)) as [He|(ws & He1 & He2)].
        { right. rewrite (Hnw s1), Eb. discriminate. }
        * exists r', l'. rewrite He. split; assumption.
        * rewrite Hc in He2. inversion He2; subst. exists (s ++ b), line. split; [exact He1|apply Hnw].
      + destruct (Hb (S f) (1 + k) hc last a0 acc' lead ltac:(lia) ltac:(lia) (Hlast Hbl)) as (r' & l' & Hc & Hr).
        cbn [caw] in Hc. rewrite Eb in Hc. discriminate Hc.
    - cbn [caw].
      destruct (inpos_nw _ _ _ _ _ _ _ meta_ok_s1 Hp En) as (Hp1 & _ & Happ & Hw1 & Hw2 & Hlen1).
      rewrite Happ.
      assert (Hwbs : forallb isspace r1 = true -> weq w [bs] = false).
      { intros Hbl. destruct (weq w [bs]) eqn:Ew; [|reflexivity]. exfalso.
        apply weq_true in Ew as [Hq Hv].
        destruct (nw_lines_src _ _ _ _ _ _ _ En) as (pre & body & Hs & _ & _ & (_ & tl & Hb1 & Hb2)).
        specialize (Hb2 (unq_QN _ Hq)). rewrite (unq_QN _ Hq) in Hb1. cbn [qtoken app] in Hb1. subst tl body.
        rewrite Hv in Hs. destruct Hp as (_ & pre0 & Ha & _). apply Ha_bs.
        rewrite Ha, Hs, app_assoc. cbn [app]. apply lnb_char_blank; [reflexivity|exact Hbl]. }
      assert (Hf1 : S (length (r1 ++ b)) < f) by (rewrite app_length in *; lia).
      assert (Hrec : forall hc' acc', caw f r1 l1 hc' w acc' lead = Ok (ws, [], l) ->
                exists r' l', caw f (r1 ++ b) l1 hc' w acc' lead = Ok (ws, r', l')
                  /\ nw s0 false r' l' = nw s0 false b (1 + k)).
      { intros hc' acc' H'. apply (IH _ _ _ _ _ _ _ _ Hp1 Hf1 H' Hwbs Hw2). }
      assert (Hfin : forall (s2:str) (l2:nat), s2 <> [] ->
         match acc with [] => E "MissingValue" (str_of_word lead) (wline lead) | _ => Ok (rev acc, s2, l2) end
         <> Ok (ws, [], l)).
      { intros s2 l2 Hs2 Hm. destruct acc; [discriminate Hm|]. inversion Hm; subst. congruence. }
      destruct (negb hc && negb (isq w) && (is1 w "{" || is1 w "}" || is1 w ";" || is1 w "#")).
      + destruct (is1 w ";"); [exfalso; eapply (Hfin r1 l1); [apply Hp1|exact H]|].
        destruct (negb (is1 w "#")); [exfalso; eapply (Hfin s line); [apply Hp|exact H]|apply Hrec; exact H].
      + destruct (isq w || weq last [bs]); [apply Hrec; exact H|].
        destruct (negb (wline w =? wline last)%nat); [exfalso; eapply (Hfin s line); [apply Hp|exact H]|apply Hrec; exact H].
    - discriminate H.
  Qed.

  (* the two lemmas with the fuel the callers use *)
  Lemma caw_app' : forall s line hc last acc lead ws r l,
    inpos s line -> caw (S (length s)) s line hc last acc lead = Ok (ws, r, l) -> r <> [] ->
    inpos r l /\ line <= l /\ length r <= length s
    /\ caw (S (length (s ++ b))) (s ++ b) line hc last acc lead = Ok (ws, r ++ b, l).
  Proof.
    intros s line hc last acc lead ws r l Hp H Hr.
    apply (caw_fuel_irrelevant _ (length b)) in H; [|discriminate].
    replace (S (length s) + length b) with (S (length (s ++ b))) in H by (rewrite app_length; lia).
    exact (caw_app _ _ _ _ _ _ _ _ _ _ Hp H Hr).
  Qed.
  Lemma caw_app_end' : forall s line hc last acc lead ws l,
    inpos s line -> caw (S (length s)) s line hc last acc lead = Ok (ws, [], l) ->
    (forallb isspace s = true -> weq last [bs] = false) -> wline last <= line ->
    exists r' l', caw (S (length (s ++ b))) (s ++ b) line hc last acc lead = Ok (ws, r', l')
      /\ nw s0 false r' l' = nw s0 false b (1 + k).
  Proof.
    intros s line hc last acc lead ws l Hp H Hl Hll.
    apply (caw_fuel_irrelevant _ (length b)) in H; [|discriminate].
    replace (S (length s) + length b) with (S (length (s ++ b))) in H by (rewrite app_length; lia).
    apply (caw_fuel_irrelevant _ 1) in H; [|discriminate].
    assert (HF : S (length (s ++ b)) < S (length (s ++ b)) + 1) by lia.
    destruct (caw_app_end _ _ _ _ _ _ _ _ _ Hp HF H Hl Hll) as (r' & l' & Hc & Hr).
    exists r', l'. split; [|exact Hr].
    rewrite (caw_fuel_enough (S (length (s ++ b))) (S (length (s ++ b)) + 1)); [exact Hc|lia|lia].
  Qed.

  (* ---------- the scope-attribute loop always stops inside a (at the opening brace) *)
  Lemma sattrs_app : forall f w s line acc sa bw r l,
    inpos s line -> sattrs o f w s line acc = Ok (sa, bw, r, l) ->
    inpos r l /\ line <= l /\ length r <= length s /\ sattrs o f w (s ++ b) line acc = Ok (sa, bw, r ++ b, l).
  Proof.
    induction f as [|f IH]; intros w s line acc sa bw r l Hp H; [discriminate H|].
    cbn [sattrs] in H |- *.
    destruct (eqs (wv w) ["{"]); [inversion H; subst; auto|].
    destruct (strip_bang (wv w)) as [v dis].
    destruct v as [|c an]; [discriminate H|].
    destruct (Ascii.eqb c "." && mems an scope_attr_names); [|discriminate H].
    destruct (pop_unq s0 s line) as [[[eqw r1] l1]| |] eqn:E1; cbn [bind] in H; try discriminate H.
    destruct (inpos_pop_unq _ _ _ _ _ Hp E1) as (Hp1 & _ & _ & Happ1 & Hl1a & Hl1b & Hlen1).
    rewrite Happ1. cbn [bind].
    destruct (expect_eq eqw); cbn [bind] in H |- *; try discriminate H.
    destruct (caw (S (length r1)) r1 l1 false _ [] _) as [[[ws r2] l2]| |] eqn:Ec; cbn [bind] in H; try discriminate H.
    destruct r2 as [|c2 r2'].
    { exfalso. destruct (if dis then Ok acc else _) as [acc'| |]; cbn [bind] in H; try discriminate H.
      all: try (unfold pop_unq, pop in H; cbn [nw bind] in H; discriminate H). }
    destruct (caw_app' _ _ _ _ _ _ _ _ _ Hp1 Ec ltac:(discriminate)) as (Hp2 & Hl2 & Hlen2 & Happ2).
    rewrite Happ2. cbn [bind].
    destruct (if dis then Ok acc else _) as [acc'| |]; cbn [bind] in H |- *; try discriminate H.
    destruct (pop_unq s0 (c2 :: r2') l2) as [[[w2 r3] l3]| |] eqn:E3; cbn [bind] in H; try discriminate H.
    destruct (inpos_pop_unq _ _ _ _ _ Hp2 E3) as (Hp3 & _ & _ & Happ3 & Hl3a & Hl3b & Hlen3).
    rewrite Happ3. cbn [bind].
    destruct (IH _ _ _ _ _ _ _ _ Hp3 H) as (I1 & I2 & I3 & I4).
    split; [exact I1|]. split; [lia|]. split; [lia|exact I4].
  Qed.
  Lemma sattrs_app' : forall w s line acc sa bw r l,
    inpos s line -> sattrs o (S (length s)) w s line acc = Ok (sa, bw, r, l) ->
    inpos r l /\ line <= l /\ length r <= length s
    /\ sattrs o (S (length (s ++ b))) w (s ++ b) line acc = Ok (sa, bw, r ++ b, l).
  Proof.
    intros w s line acc sa bw r l Hp H.
    apply (sattrs_fuel_irrelevant _ _ (length b)) in H; [|discriminate].
    replace (S (length s) + length b) with (S (length (s ++ b))) in H by (rewrite app_length; lia).
    exact (sattrs_app _ _ _ _ _ _ _ _ _ Hp H).
  Qed.

  (* ---------- collect_objects *)
  Definition app_post (f:nat) (s:str) (line nid:nat) (stop:bool) (start:option word) (prev:nat)
             (active:option obj) (acc:list obj) (x:list obj * str * nat * nat) : Prop :=
    let '(objs, r, l, n) := x in
    nid <= n /\
    if stop then inpos r l /\ length r <= length s
                 /\ cobj o f (s ++ b) line nid true start prev active acc = Ok (objs, r ++ b, l, n)
    else exists g prev' active' acc',
           length b < g /\ prev' <= k /\ objs = rev (flushed active' acc')
           /\ cobj_noline (cobj o f (s ++ b) line nid false start prev active acc)
              = cobj_noline (cobj o g b (1 + k) n false start prev' active' acc').

  Lemma app_post_eq : forall f1 s1 line1 nid1 prev1 active1 acc1 f2 s2 line2 nid2 prev2 active2 acc2 stop start x,
    cobj o f1 (s1 ++ b) line1 nid1 stop start prev1 active1 acc1
    = cobj o f2 (s2 ++ b) line2 nid2 stop start prev2 active2 acc2 ->
    nid1 <= nid2 -> length s2 <= length s1 ->
    app_post f2 s2 line2 nid2 stop start prev2 active2 acc2 x ->
    app_post f1 s1 line1 nid1 stop start prev1 active1 acc1 x.
  Proof.
    intros f1 s1 line1 nid1 prev1 active1 acc1 f2 s2 line2 nid2 prev2 active2 acc2 stop start [[[objs r] l] n]
           Heq Hn Hlen (Hle & HP).
    split; [lia|]. destruct stop.
    - destruct HP as (A & B & C). split; [exact A|]. split; [lia|]. rewrite Heq. exact C.
    - destruct HP as (g & p' & a' & c' & A & B & C & D). exists g, p', a', c'. rewrite Heq. auto.
  Qed.

  Lemma def_pos_app : forall (c:bool) r1 l1 r5 l5, inpos r1 l1 ->
    (if c then Ok (r1, l1)
     else do (eqw, r5, l5) <- pop_unq s0 r1 l1 ; do _ <- expect_eq eqw ; Ok (r5, l5)) = Ok (r5, l5) ->
    inpos r5 l5 /\ l1 <= l5 /\ length r5 <= length r1
    /\ (if c then Ok (@pair str nat (r1 ++ b) l1)
        else do (eqw, r5, l5) <- pop_unq s0 (r1 ++ b) l1 ; do _ <- expect_eq eqw ; Ok (r5, l5)) = Ok (r5 ++ b, l5).
  Proof.
    intros c r1 l1 r5 l5 Hp H. destruct c; [inversion H; subst; auto|].
    destruct (pop_unq s0 r1 l1) as [[[eqw r6] l6]| |] eqn:E; cbn [bind] in H; try discriminate H.
    destruct (inpos_pop_unq _ _ _ _ _ Hp E) as (Hp1 & _ & _ & Happ1 & Hl1a & Hl1b & Hlen1).
    rewrite Happ1. cbn [bind]. destruct (expect_eq eqw); cbn [bind] in H |- *; try discriminate H.
    inversion H; subst. split; [exact Hp1|]. split; [lia|]. split; [lia|reflexivity].
  Qed.

  Lemma cobj_app : forall f s line nid stop start prev active acc x,
    inpos s line -> length (s ++ b) < f -> prev <= k ->
    cobj o f s line nid stop start prev active acc = Ok x ->
    app_post f s line nid stop start prev active acc x.
  Proof.
    induction f as [|f IH]; intros s line nid stop start prev active acc x Hp Hf Hprev H; [discriminate H|].
    remember (cobj o (S f) (s ++ b) line nid stop start prev active acc) as G eqn:HG.
    pose proof HG as HG0.
    cbn [cobj] in H, HG.
    change (match active with Some d => d :: acc | None => acc end) with (flushed active acc) in *.
    destruct (nw s0 false s line) as [|lead r1 l1|l1] eqn:En; [| |discriminate H].
    - (* end of a *)
      destruct stop; [destruct start; discriminate H|].
      inversion H; subst x. clear H.
      split; [lia|]. exists (S f), prev, active, acc.
      split; [rewrite app_length in Hf; lia|]. split; [exact Hprev|]. split; [reflexivity|].
      apply cobj_pos_ext_noline.
      rewrite (nw_app_end s0 b meta_ok_s0 s false line (inpos_ends _ _ Hp) En), (inpos_line _ _ Hp). reflexivity.
    - destruct (inpos_nw _ _ _ _ _ _ _ meta_ok_s0 Hp En) as (Hp1 & Hwp & Happ & Hw1 & Hw2 & Hlen1).
      rewrite Happ in HG.
      destruct (isq lead) eqn:Eq; [discriminate H|].
      rewrite (no_directive lead Hwp Eq) in H, HG. cbn [andb] in H, HG.
      destruct (stop && eqs (wv lead) ["}"]) eqn:Eb.
      { apply andb_prop in Eb as [-> _]. inversion H; subst x. clear H.
        split; [lia|]. split; [exact Hp1|]. split; [lia|]. rewrite <- HG0. exact HG. }
      destruct (eqs (wv lead) ["{"]); [discriminate H|].
      destruct (strip_bang (wv lead)) as [lv dis] eqn:Esb.
      destruct (pop s0 r1 l1) as [[[w r2] l2]| |] eqn:E1; cbn [bind] in H; try discriminate H.
      destruct (inpos_pop _ _ _ _ _ Hp1 E1) as (Hp2 & _ & Happ2 & Hl2a & Hl2b & Hlen2).
      rewrite Happ2 in HG. cbn [bind] in HG.
      assert (Hleadk : wline lead <= k) by (pose proof (inpos_le _ _ Hp1); lia).
      rewrite app_length in Hf.
      destruct (negb (isq w) && (eqs (wv w) ["{"] || prefixb ["."] (wv w) || prefixb ["!"; "."] (wv w))).
      { (* a scope *)
        destruct (negb (is_ident lv)); [destruct (eqs lv [";"]); discriminate H|].
        destruct (name_reserved_scp lv); [discriminate H|].
        destruct (sattrs o (S (length r2)) w r2 l2 []) as [[[[sa bw] r3] l3]| |] eqn:E3; cbn [bind] in H; try discriminate H.
        destruct (sattrs_app' _ _ _ _ _ _ _ _ Hp2 E3) as (Hp3 & Hl3 & Hlen3 & Happ3).
        rewrite Happ3 in HG. cbn [bind] in HG.
        destruct (cobj o f r3 l3 (S nid) true (Some bw) 0 None []) as [[[[kids r4] l4] nid4]| |] eqn:E4;
          cbn [bind] in H; try discriminate H.
        assert (Hf3 : length (r3 ++ b) < f) by (rewrite app_length; lia).
        destruct (IH _ _ _ _ _ _ _ _ _ Hp3 Hf3 (Nat.le_0_l k) E4) as (Hn4 & Hp4 & Hlen4 & Happ4).
        rewrite Happ4 in HG. cbn [bind] in HG.
        destruct (prefix_reserved lv); [discriminate H|].
        eapply app_post_eq; [rewrite <- HG0; exact HG|lia|lia|].
        apply IH; [exact Hp4|rewrite app_length; lia|exact Hleadk|exact H]. }
      destruct (negb (prefixb ["."] lv)) eqn:Edot.
      { (* a definition *)
        destruct (negb (is_ident lv)) eqn:Eid; [destruct (eqs lv [";"]); discriminate H|].
        apply negb_false_iff in Eid.
        destruct (if eqs lv include_w then Ok (r1, l1) else _) as [[r5 l5]| |] eqn:E5 in H; cbn [bind] in H; try discriminate H.
        destruct (def_pos_app _ _ _ _ _ Hp1 E5) as (Hp5 & Hl5 & Hlen5 & Happ5).
        rewrite Happ5 in HG. cbn [bind] in HG.
        set (lead' := mkword lv QN (wline lead)) in *.
        destruct (caw (S (length r5)) r5 l5 false lead' [] lead') as [[[ws r6] l6]| |] eqn:E6; cbn [bind] in H; try discriminate H.
        destruct r6 as [|c6 r6'].
        - (* the value runs to the end of a *)
          destruct (caw_app_end' _ _ _ _ _ _ _ _ Hp5 E6) as (r' & l' & Happ6 & Hnw6).
          { intros _. apply ident_weq_bs. exact Eid. }
          { cbn [lead' wline]. lia. }
          rewrite Happ6 in HG. cbn [bind] in HG.
          destruct (name_reserved_def lv); [discriminate H|]. destruct (prefix_reserved lv); [discriminate H|].
          destruct f as [|f']; [discriminate H|].
          cbn [cobj nw] in H. destruct stop; [destruct start; discriminate H|].
          inversion H; subst x. clear H.
          split; [lia|].
          eexists (S f'), (wline lead), (Some _), (flushed active acc).
          split; [lia|]. split; [exact Hleadk|]. split; [reflexivity|].
          rewrite <- HG0, HG. apply cobj_pos_ext_noline. exact Hnw6.
        - destruct (caw_app' _ _ _ _ _ _ _ _ _ Hp5 E6 ltac:(discriminate)) as (Hp6 & Hl6 & Hlen6 & Happ6).
          rewrite Happ6 in HG. cbn [bind] in HG.
          destruct (name_reserved_def lv); [discriminate H|]. destruct (prefix_reserved lv); [discriminate H|].
          eapply app_post_eq; [rewrite <- HG0; exact HG|lia|lia|].
          apply IH; [exact Hp6|rewrite app_length; lia|exact Hleadk|exact H]. }
      (* a definition attribute *)
      apply negb_false_iff in Edot.
      destruct active as [ad|]; [|discriminate H].
      destruct (negb (mems (drop 1 lv) def_attr_names)); [discriminate H|].
      destruct (pop_unq s0 r1 l1) as [[[eqw r5] l5]| |] eqn:E5; cbn [bind] in H; try discriminate H.
      destruct (inpos_pop_unq _ _ _ _ _ Hp1 E5) as (Hp5 & _ & _ & Happ5 & Hl5a & Hl5b & Hlen5).
      rewrite Happ5 in HG. cbn [bind] in HG.
      destruct (expect_eq eqw); cbn [bind] in H, HG; try discriminate H.
      set (lead' := mkword lv QN (wline lead)) in *.
      destruct (caw (S (length r5)) r5 l5 false lead' [] lead') as [[[ws r6] l6]| |] eqn:E6; cbn [bind] in H; try discriminate H.
      destruct r6 as [|c6 r6'].
      + destruct (caw_app_end' _ _ _ _ _ _ _ _ Hp5 E6) as (r' & l' & Happ6 & Hnw6).
        { intros _. unfold weq, lead'. cbn [isq wq wv negb andb].
          destruct lv as [|c0 lv']; [discriminate Edot|]. cbn [prefixb] in Edot. apply andb_prop in Edot as [Ec0 _].
          apply Ascii.eqb_eq in Ec0. subst c0. reflexivity. }
        { cbn [lead' wline]. lia. }
        rewrite Happ6 in HG. cbn [bind] in HG.
        destruct (if dis then Ok ad else _) as [ad'| |]; cbn [bind] in H, HG; try discriminate H.
        destruct f as [|f']; [discriminate H|].
        cbn [cobj nw] in H. destruct stop; [destruct start; discriminate H|].
        inversion H; subst x. clear H.
        split; [lia|].
        eexists (S f'), (wline lead), (Some _), acc.
        split; [lia|]. split; [exact Hleadk|]. split; [reflexivity|].
        rewrite <- HG0, HG. apply cobj_pos_ext_noline. exact Hnw6.
      + destruct (caw_app' _ _ _ _ _ _ _ _ _ Hp5 E6 ltac:(discriminate)) as (Hp6 & Hl6 & Hlen6 & Happ6).
        rewrite Happ6 in HG. cbn [bind] in HG.
        destruct (if dis then Ok ad else _) as [ad'| |]; cbn [bind] in H, HG; try discriminate H.
        eapply app_post_eq; [rewrite <- HG0; exact HG|lia|lia|].
        apply IH; [exact Hp6|rewrite app_length; lia|exact Hleadk|exact H].
  Qed.
End Compose.

(* ====================================================================================== *)
(* 4. the same text read k lines further down, with primary ids j higher                    *)
(* ====================================================================================== *)

Lemma erase_obj_attach : forall n v x, erase_obj (attach n v x) = attach n v (erase_obj x).
Proof.
  intros n v x; induction x as [h ws a0|h ks a0 IH] using obj_ind2; [reflexivity|].
  destruct ks as [|k0 [|k2 ks]]; try reflexivity.
  inversion IH as [|? ? Hk _]; subst. cbn [attach erase_obj map]. rewrite Hk. reflexivity.
Qed.
Lemma erase_obj_wrap : forall comps first x,
  erase_obj (wrap_dotted first comps x) = wrap_dotted first comps (erase_obj x).
Proof.
  induction comps as [|c rest IH]; intros first x; [reflexivity|].
  destruct rest as [|c2 rest].
  - cbn [wrap_dotted]. destruct first; [reflexivity|]. destruct x; reflexivity.
  - change (wrap_dotted first (c :: c2 :: rest) x)
      with (Scp (mkhdr c false 0 (negb first) (opid (ohdr x)) 0) [wrap_dotted false (c2 :: rest) x] []).
    change (wrap_dotted first (c :: c2 :: rest) (erase_obj x))
      with (Scp (mkhdr c false 0 (negb first) (opid (ohdr (erase_obj x))) 0) [wrap_dotted false (c2 :: rest) (erase_obj x)] []).
    cbn [erase_obj map]. rewrite IH. destruct x; reflexivity.
Qed.
Lemma erase_obj_adopt : forall x, erase_obj (adopt x) = adopt (erase_obj x).
Proof.
  intros x. unfold adopt. rewrite erase_obj_wrap.
  replace (oname (ohdr (erase_obj x))) with (oname (ohdr x)) by (destruct x; reflexivity). reflexivity.
Qed.
Lemma map_erase_word_shw : forall k ws, map erase_word (map (shw k) ws) = map erase_word ws.
Proof. intros. rewrite map_map. reflexivity. Qed.

Definition Rcobj2 (k j line:nat) (x' x:list obj * str * nat * nat) : Prop :=
  let '(objs', r', l', n') := x' in let '(objs, r, l, n) := x in
  map erase_obj objs' = map erase_obj objs /\ r' = r /\ l' = l + k /\ n' = n + j /\ line <= l.
Lemma Rcobj2_mono : forall k j line line2 x' x, line <= line2 -> Rcobj2 k j line2 x' x -> Rcobj2 k j line x' x.
Proof.
  intros k j line line2 [[[a' bw'] r'] l'] [[[a0 bw] r] l] Hle (H1 & H2 & H3 & H4 & H5).
  cbn [Rcobj2]. repeat split; try assumption. lia.
Qed.

Lemma cobj_shift_ids : forall o k j f s line nid stop start' start prev' prev active' active acc' acc,
  1 <= line -> rel_prev k line prev' prev \/ not_directive s line ->
  option_map ew start' = option_map ew start ->
  option_map erase_obj active' = option_map erase_obj active ->
  map erase_obj acc' = map erase_obj acc ->
  rrel (Rcobj2 k j line) (cobj o f s (line + k) (nid + j) stop start' prev' active' acc')
                         (cobj o f s line nid stop start prev active acc).
Proof.
  intros o k j; induction f as [|f IH];
    intros s line nid stop start' start prev' prev active' active acc' acc Hline Hprev Hstart Hact Hacc; [reflexivity|].
  cbn [cobj]. rewrite nw_shift.
  change (match active' with Some d => d :: acc' | None => acc' end) with (flushed active' acc').
  change (match active with Some d => d :: acc | None => acc end) with (flushed active acc).
  assert (Hfl : map erase_obj (flushed active' acc') = map erase_obj (flushed active acc)).
  { destruct active' as [a'|], active as [a0|]; cbn [option_map] in Hact; try discriminate; cbn [flushed map].
    - inversion Hact as [Ha]. rewrite Ha, Hacc. reflexivity.
    - exact Hacc. }
  set (nm' := match start' with
              | None => E "MissingBrace" [] 0
              | Some sw => E "NoMatchingBrace" (str_of_word sw) (wline sw) end : res (list obj * str * nat * nat)).
  set (nm := match start with
             | None => E "MissingBrace" [] 0
             | Some sw => E "NoMatchingBrace" (str_of_word sw) (wline sw) end : res (list obj * str * nat * nat)).
  assert (Hnm : rrel (Rcobj2 k j line) nm' nm).
  { unfold nm', nm. destruct start' as [sw'|], start as [sw|]; cbn [option_map] in Hstart; try discriminate.
    - inversion Hstart as [[H1 H2]]. unfold str_of_word. rewrite H1, H2. apply rrel_E.
    - apply rrel_E. }
  assert (Hend : forall (r:str) l n, line <= l ->
            rrel (Rcobj2 k j line) (Ok (rev (flushed active' acc'), r, l + k, n + j)) (Ok (rev (flushed active acc), r, l, n))).
  { intros r l n Hl. cbn [rrel Rcobj2]. rewrite !map_rev, Hfl. auto. }
  destruct (nw s0 false s line) as [|lead r l|l] eqn:En; cbn [sht].
  - destruct stop; [exact Hnm|apply Hend; lia].
  - destruct (nw_ge _ _ _ _ _ _ _ En) as [Hwl Hl].
    change (isq (shw k lead)) with (isq lead). change (str_of_word (shw k lead)) with (str_of_word lead).
    cbn [shw wv wline].
    destruct (isq lead); [apply rrel_E|].
    assert (Htest : eqs (wv lead) intro && negb (wline lead + k =? prev')%nat
                    = eqs (wv lead) intro && negb (wline lead =? prev)%nat).
    { destruct Hprev as [Hp|Hp]; [rewrite (rel_prev_test k line prev' prev (wline lead) Hp Hwl); reflexivity|].
      unfold not_directive in Hp. rewrite En in Hp. rewrite Hp. reflexivity. }
    rewrite Htest. clear Htest.
    destruct (eqs (wv lead) intro && negb (wline lead =? prev)%nat) eqn:Edir.
    { assert (Hprev1 : rel_prev k line prev' prev).
      { destruct Hprev as [Hp|Hp]; [exact Hp|]. unfold not_directive in Hp. rewrite En in Hp.
        rewrite Hp in Edir. discriminate Edir. }
      clear Hprev. rename Hprev1 into Hprev.
      eapply rrel_bind; [apply pop_unq_shift|].
      intros [[w' r2'] l2'] [[w r2] l2] (-> & -> & -> & _ & Hl2). cbn [shw wv wline].
      destruct (eqs (wv w) f_end); [destruct stop; [exact Hnm|apply Hend; lia]|].
      destruct (eqs (wv w) f_on).
      { eapply rrel_mono; [|apply IH; [lia|left; eapply rel_prev_mono; [|exact Hprev]; lia|assumption|assumption|assumption]].
        intros x' x. apply Rcobj2_mono. lia. }
      destruct (negb (eqs (wv w) f_off)); [apply rrel_E|].
      rewrite sfs_shift. destruct (sfs (S (length r2)) r2 l2) as [[r3 l3] fu] eqn:Es. cbn [sh3].
      pose proof (sfs_ge _ _ _ _ _ _ Es) as Hl3.
      assert (Hrec : rrel (Rcobj2 k j line) (cobj o f r3 (l3 + k) (nid + j) stop start' prev' active' acc')
                                           (cobj o f r3 l3 nid stop start prev active acc)).
      { eapply rrel_mono; [|apply IH; [lia|left; eapply rel_prev_mono; [|exact Hprev]; lia|assumption|assumption|assumption]].
        intros x' x. apply Rcobj2_mono. lia. }
      destruct fu as [[|n]|]; try exact Hrec.
      destruct stop; [exact Hnm|apply Hend; lia]. }
    destruct (stop && eqs (wv lead) ["}"]); [apply Hend; lia|].
    destruct (eqs (wv lead) ["{"]); [apply rrel_E|].
    destruct (strip_bang (wv lead)) as [lv dis].
    eapply rrel_bind; [apply pop_shift|].
    intros [[w' r2'] l2'] [[w r2] l2] (-> & -> & -> & _ & Hl2).
    change (isq (shw k w)) with (isq w). cbn [shw wv wline].
    destruct (negb (isq w) && (eqs (wv w) ["{"] || prefixb ["."] (wv w) || prefixb ["!"; "."] (wv w))).
    { destruct (negb (is_ident lv)); [destruct (eqs lv [";"]); apply rrel_E|].
      destruct (name_reserved_scp lv); [apply rrel_E|].
      eapply rrel_bind; [apply (sattrs_shift o k (S (length r2)) w r2 l2 [])|].
      intros [[[sa' bw'] r3'] l3'] [[[sa bw] r3] l3] (-> & -> & -> & -> & Hl3).
      eapply rrel_bind.
      { apply (IH r3 l3 (S nid) true (Some (shw k bw)) (Some bw) 0 0 None None [] []);
          [lia|left; right; lia|reflexivity|reflexivity|reflexivity]. }
      intros [[[kids' r4'] l4'] nid4'] [[[kids r4] l4] nid4] (Hk & -> & -> & -> & Hl4).
      destruct (prefix_reserved lv); [apply rrel_E|].
      eapply rrel_mono; [|apply IH; [lia|left; left; reflexivity|assumption|reflexivity| ]].
      { intros x' x. apply Rcobj2_mono. lia. }
      cbn [map]. rewrite Hfl, !erase_obj_adopt. cbn [erase_obj]. rewrite Hk. reflexivity. }
    destruct (negb (prefixb ["."] lv)).
    { destruct (negb (is_ident lv)); [destruct (eqs lv [";"]); apply rrel_E|].
      eapply rrel_bind with (R := Rpos k l).
      { destruct (eqs lv include_w); [cbn [rrel Rpos]; auto|].
        eapply rrel_bind; [apply pop_unq_shift|].
        intros [[eqw' r5'] l5'] [[eqw r5] l5] (-> & -> & -> & _ & Hl5).
        eapply rrel_bind; [apply expect_eq_shift|]. intros ? ? _. cbn [rrel Rpos]. auto. }
      intros [r5' l5'] [r5 l5] (-> & -> & Hl5).
      eapply rrel_bind;
        [apply (caw_shift_rel k (S (length r5)) r5 l5 false (mkword lv QN (wline lead)) [] (mkword lv QN (wline lead)))|].
      intros [[ws' r6'] l6'] [[ws r6] l6] (-> & -> & -> & Hl6).
      destruct (name_reserved_def lv); [apply rrel_E|].
      destruct (prefix_reserved lv); [apply rrel_E|].
      eapply rrel_mono; [|apply (IH r6 l6 (S nid)); [lia|left; left; reflexivity|assumption| |exact Hfl]].
      { intros x' x. apply Rcobj2_mono. lia. }
      cbn [option_map]. rewrite !erase_obj_adopt. cbn [erase_obj]. rewrite map_erase_word_shw. reflexivity. }
    destruct active' as [ad'|], active as [ad|]; cbn [option_map] in Hact; try discriminate; [|apply rrel_E].
    destruct (negb (mems (drop 1 lv) def_attr_names)); [apply rrel_E|].
    eapply rrel_bind; [apply pop_unq_shift|].
    intros [[eqw' r5'] l5'] [[eqw r5] l5] (-> & -> & -> & _ & Hl5).
    eapply rrel_bind; [apply expect_eq_shift|]. intros ? ? _.
    eapply rrel_bind;
      [apply (caw_shift_rel k (S (length r5)) r5 l5 false (mkword lv QN (wline lead)) [] (mkword lv QN (wline lead)))|].
    intros [[ws' r6'] l6'] [[ws r6] l6] (-> & -> & -> & Hl6).
    eapply rrel_bind with (R := fun a' a0 => erase_obj a' = erase_obj a0).
    { destruct dis; [cbn [rrel]; inversion Hact; reflexivity|].
      eapply rrel_bind; [apply assign_def_attr_words; apply map_ew_shw|]. intros ? av ->.
      cbn [rrel]. rewrite !erase_obj_attach. inversion Hact as [Ha]. rewrite Ha. reflexivity. }
    intros ad2' ad2 Had2.
    eapply rrel_mono; [|apply IH; [lia|left; left; reflexivity|assumption| |assumption]].
    { intros x' x. apply Rcobj2_mono. lia. }
    cbn [option_map]. rewrite Had2. reflexivity.
  - apply rrel_E.
Qed.

(* ====================================================================================== *)
(* 5. a pending definition in front of a run that succeeds without one is simply flushed    *)
(* ====================================================================================== *)

Ltac astep H :=
  match type of H with
  | Ok _ = Ok _ => fail 1
  | bind ?X _ = _ => destruct X eqn:?; cbn [bind] in H |- *
  | match ?X with _ => _ end = _ => destruct X eqn:?
  end; try discriminate H.

Lemma cobj_active_none : forall o f s line nid stop start prev d x,
  cobj o f s line nid stop start prev None [] = Ok x ->
  cobj o f s line nid stop start prev (Some d) [] = pre_res [d] (Ok x).
Proof.
  intros o; induction f as [|f IH]; intros s line nid stop start prev d x H; [discriminate H|].
  cbn [cobj] in H |- *.
  repeat astep H.
  all: try (inversion H; subst; reflexivity).
  all: try (apply IH; exact H).
  - match goal with |- cobj _ _ _ _ _ _ _ _ None [?X; d] = _ =>
      rewrite (cobj_acc_app o f _ _ _ _ _ _ None [X] [d]) end.
    rewrite H. reflexivity.
  - match goal with |- cobj _ _ _ _ _ _ _ _ ?A [d] = _ =>
      rewrite (cobj_acc_app o f _ _ _ _ _ _ A [] [d]) end.
    rewrite H. reflexivity.
Qed.

(* ====================================================================================== *)
(* 6. (A) parse (a ++ b)                                                                    *)
(* ====================================================================================== *)

Lemma parse_cobj : forall o s l, parse o s = Ok l ->
  exists r ln n, cobj o (S (S (length s))) s 1 1 false None 0 None [] = Ok (l, r, ln, n).
Proof.
  intros o s l H. unfold parse in H.
  destruct (cobj o (S (S (length s))) s 1 1 false None 0 None []) as [[[[l0 r] ln] n]| |]; cbn [bind] in H; try discriminate H.
  inversion H; subst. eauto.
Qed.

(* the state in which the run over a arrives at b, and what it does there *)
Lemma cobj_boundary : forall o b g k n prev' active' acc' lb,
  length b < g -> prev' <= k -> 1 <= n ->
  parse o b = Ok lb ->
  exists lb' r ln n', map erase_obj lb' = map erase_obj lb /\
    cobj o g b (1 + k) n false None prev' active' acc' = Ok (rev (flushed active' acc') ++ lb', r, ln, n').
Proof.
  intros o b g k n prev' active' acc' lb Hg Hprev Hn Hpb.
  destruct (parse_cobj _ _ _ Hpb) as (rb & lnb0 & nb & Hcb).
  rewrite (cobj_fuel_enough o g (S (S (length b))) b) by lia.
  assert (Hrp : rel_prev k 1 prev' 0 \/ not_directive b 1) by (left; right; lia).
  pose proof (cobj_shift_ids o k (n - 1) (S (S (length b))) b 1 1 false None None prev' 0 None None [] []
                (le_n 1) Hrp eq_refl eq_refl eq_refl) as Hs.
  rewrite Hcb in Hs. replace (1 + (n - 1)) with n in Hs by lia.
  destruct (cobj o (S (S (length b))) b (1 + k) n false None prev' None []) as [[[[lb' r'] ln'] n']| |] eqn:Ec;
    cbn [rrel Rcobj2] in Hs; try contradiction.
  destruct Hs as (Hlb & -> & -> & -> & _).
  exists lb', rb, (lnb0 + k), (nb + (n - 1)). split; [exact Hlb|].
  rewrite cobj_acc_nil. destruct active' as [d|].
  - rewrite (cobj_active_none _ _ _ _ _ _ _ _ d _ Ec). cbn [pre_res flushed rev]. rewrite <- app_assoc. reflexivity.
  - rewrite Ec. reflexivity.
Qed.

Theorem parse_app : forall o a b la lb,
  parse o a = Ok la -> ends_nl a = true -> occurs intro a = false -> lnb a <> Some bs ->
  value_stops b -> parse o b = Ok lb ->
  exists l, parse o (a ++ b) = Ok l /\ map erase_obj l = map erase_obj (la ++ lb).
Proof.
  intros o a b la lb Hpa Hnl Hdir Hbs Hfol Hpb.
  destruct (parse_cobj _ _ _ Hpa) as (ra & lna & na & Hca).
  apply (cobj_fuel_irrelevant _ _ (length b)) in Hca; [|discriminate].
  replace (S (S (length a)) + length b) with (S (S (length (a ++ b)))) in Hca by (rewrite app_length; lia).
  assert (HF : length (a ++ b) < S (S (length (a ++ b)))) by lia.
  destruct (cobj_app o a b Hnl Hdir Hbs Hfol _ a 1 1 false None 0 None [] _
              (inpos_start a Hnl) HF (Nat.le_0_l _) Hca)
    as (Hn & g & prev' & active' & acc' & Hg & Hprev' & Hla & Heq).
  destruct (cobj_boundary o b g (count_nl a) na prev' active' acc' lb Hg Hprev' Hn Hpb) as (lb' & r & ln & n' & Hlb & Hc).
  rewrite Hc in Heq.
  exists (la ++ lb'). split.
  - rewrite parse_noline, Heq, Hla. reflexivity.
  - rewrite !map_app, Hlb. reflexivity.
Qed.

(* the boundary condition in the vocabulary of TreeRoundtrip *)
Corollary parse_app_follow : forall o a b la lb,
  parse o a = Ok la -> ends_nl a = true -> occurs intro a = false -> lnb a <> Some bs ->
  follow_ok b -> parse o b = Ok lb ->
  exists l, parse o (a ++ b) = Ok l /\ map erase_obj l = map erase_obj (la ++ lb).
Proof. intros. eapply parse_app; try eassumption. apply follow_value_stops. assumption. Qed.

(* ====================================================================================== *)
(* 7. three pieces; the include line                                                        *)
(* ====================================================================================== *)

Lemma prefixb_snoc_nl : forall x s, mem nl x = false -> prefixb x (s ++ [nl]) = true -> prefixb x s = true.
Proof.
  induction x as [|c x IH]; intros s Hm H; [reflexivity|].
  cbn [mem] in Hm. apply orb_false_iff in Hm as [Hc Hm].
  destruct s as [|d s]; cbn [app prefixb] in *.
  - apply andb_prop in H as [H _]. rewrite Ascii.eqb_sym in Hc. congruence.
  - apply andb_prop in H as [H1 H2]. rewrite H1, (IH _ Hm H2). reflexivity.
Qed.
(* an occurrence of a newline-free text cannot straddle the end of a newline-terminated text *)
Lemma occurs_app_nl : forall x a m, mem nl x = false -> ends_nl a = true ->
  occurs x a = false -> occurs x m = false -> occurs x (a ++ m) = false.
Proof.
  intros x a m Hx; induction a as [|c a IH]; intros He Ha Hm; [discriminate He|].
  cbn [occurs] in Ha. apply orb_false_iff in Ha as [Hp Ha].
  change ((c :: a) ++ m) with (c :: a ++ m). cbn [occurs].
  change (c :: a ++ m) with ((c :: a) ++ m).
  rewrite (prefixb_stable x (c :: a) m Hx (ends_nl_mem _ He)), Hp. cbn [orb].
  destruct a as [|d a]; [exact Hm|].
  apply IH; [rewrite ends_nl_cons in He by discriminate; exact He|exact Ha|exact Hm].
Qed.

Theorem parse_app3 : forall o a m c la lm lc,
  parse o a = Ok la -> ends_nl a = true -> occurs intro a = false -> lnb a <> Some bs ->
  parse o m = Ok lm -> ends_nl m = true -> occurs intro m = false -> lnb m <> Some bs -> value_stops m ->
  parse o c = Ok lc -> value_stops c ->
  exists l, parse o (a ++ m ++ c) = Ok l /\ map erase_obj l = map erase_obj (la ++ lm ++ lc).
Proof.
  intros o a m c la lm lc Hpa Ha1 Ha2 Ha3 Hpm Hm1 Hm2 Hm3 Hm4 Hpc Hc.
  destruct (parse_app o a m la lm Hpa Ha1 Ha2 Ha3 Hm4 Hpm) as (l1 & Hp1 & He1).
  assert (Hn : ends_nl (a ++ m) = true) by (rewrite ends_nl_app; [exact Hm1|apply ends_nl_nonnil; exact Hm1]).
  assert (Hd : occurs intro (a ++ m) = false) by (apply occurs_app_nl; auto).
  assert (Hl : lnb (a ++ m) <> Some bs).
  { rewrite lnb_app. destruct (lnb m); [exact Hm3|exact Ha3]. }
  destruct (parse_app o (a ++ m) c l1 lc Hp1 Hn Hd Hl Hc Hpc) as (l & Hp & He).
  exists l. rewrite app_assoc. split; [exact Hp|].
  rewrite He, !map_app, He1, !map_app, app_assoc. reflexivity.
Qed.

(* ---------- the include line *)
Definition incl_line (name:str) : str := s_ "include file " ++ name ++ [nl].
(* a plain file name: one unquoted value-context word (non-empty, no blank, none of "{};", does not
   start with a quote), not "#", not containing "#phil", not ending with a backslash *)
Definition plain_name (name:str) : bool :=
  unq_ok name && negb (eqs name ["#"]) && negb (occurs intro name)
  && match lnb name with Some c => negb (Ascii.eqb c bs) | None => false end.
Definition incl_obj (name:str) (nid line:nat) : obj :=
  Def (mkhdr include_w false 0 false nid line) [mkword (s_ "file") QN line; mkword name QN line] [].

Lemma plain_name_facts : forall name, plain_name name = true ->
  unq_ok name = true /\ eqs name ["#"] = false /\ occurs intro name = false
  /\ (exists c, lnb name = Some c /\ c <> bs) /\ eqs name [bs] = false.
Proof.
  intros name H. unfold plain_name in H.
  apply andb_prop in H as [H H4]. apply andb_prop in H as [H H3]. apply andb_prop in H as [H1 H2].
  apply negb_true_iff in H2, H3.
  assert (H5 : exists c, lnb name = Some c /\ c <> bs).
  { destruct (lnb name) as [c|]; [|discriminate H4]. exists c. split; [reflexivity|].
    intros ->. discriminate H4. }
  repeat split; try assumption.
  destruct H5 as (c & Hc & Hne).
  destruct (eqs name [bs]) eqn:E; [|reflexivity]. apply TreeRoundtrip.eqs_true in E. subst name.
  cbn in Hc. inversion Hc. congruence.
Qed.

Lemma cobj_incl_line : forall o f name line nid start prev active acc, plain_name name = true ->
  cobj o (S (S f)) (incl_line name) line nid false start prev active acc
  = Ok (rev (incl_obj name nid line :: flushed active acc), [], line, S nid).
Proof.
  intros o f name line nid start prev active acc Hn.
  destruct (plain_name_facts name Hn) as (Hu & Hh & _ & _ & Hb).
  set (tl2 := " " :: name ++ [nl]).
  set (tl1 := " " :: s_ "file" ++ tl2).
  assert (Ht : incl_line name = s_ "include" ++ tl1) by reflexivity.
  rewrite Ht.
  assert (Hnw1 : nw s0 false (s_ "include" ++ tl1) line = TWord (mkword (s_ "include") QN line) tl1 line).
  { apply nw_unquoted_s0; reflexivity. }
  assert (Hnw2 : nw s0 false tl1 line = TWord (mkword (s_ "file") QN line) tl2 line).
  { unfold tl1. rewrite nw_sp. apply nw_unquoted_s0; reflexivity. }
  set (lead' := mkword (s_ "include") QN line).
  set (ws := [mkword (s_ "file") QN 0; mkword name QN 0]).
  assert (Hws : words_ok ws = true).
  { unfold words_ok, ws, word_ok. cbn [forallb isq wq wv orb lines_ok count_nl].
    rewrite Hu, Hh, Hb. reflexivity. }
  assert (Hcount : count_nl name = 0) by (apply unq_ok_count_nl; exact Hu).
  assert (Hv : WordsRoundtrip.vtext ws ++ [nl] = tl1).
  { unfold ws, WordsRoundtrip.vtext, tl1, tl2. cbn [flat_map str_of_word quote_str wq wv app s_ String.list_ascii_of_string].
    rewrite app_nil_r. reflexivity. }
  destruct (caw_one_line ws [] line lead' (S (length tl1)) ltac:(discriminate) Hws eq_refl eq_refl) as (s' & Hc & _ & Hs').
  { left. reflexivity. }
  { rewrite Hv. lia. }
  rewrite Hv in Hc.
  assert (He : endline line ws = line).
  { unfold ws. cbn [endline wv]. rewrite Hcount. change (count_nl (s_ "file")) with 0. lia. }
  rewrite He in Hc, Hs'.
  assert (Hr : reline line ws = [mkword (s_ "file") QN line; mkword name QN line]).
  { unfold ws. cbn [reline wv setl wq]. change (count_nl (s_ "file")) with 0. rewrite Nat.add_0_r. reflexivity. }
  rewrite Hr in Hc.
  cbn [cobj]. rewrite Hnw1. cbn [isq wq wv wline].
  change (eqs (s_ "include") intro) with false. cbn [andb].
  change (eqs (s_ "include") ["{"]) with false.
  change (strip_bang (s_ "include")) with (s_ "include", false).
  unfold pop. rewrite Hnw2. cbn [bind isq wq wv negb].
  change (eqs (s_ "file") ["{"] || prefixb ["."] (s_ "file") || prefixb ["!"; "."] (s_ "file")) with false.
  cbn [andb].
  change (prefixb ["."] (s_ "include")) with false. cbn [negb].
  change (is_ident (s_ "include")) with true. cbn [negb].
  change (eqs (s_ "include") include_w) with true. cbn [bind].
  fold lead'. rewrite Hc. cbn [bind].
  change (name_reserved_def (s_ "include")) with false.
  change (prefix_reserved (s_ "include")) with false.
  cbn [cobj]. change (nw s0 false [] (S line)) with TEnd in Hs'. rewrite Hs'.
  reflexivity.
Qed.

Lemma parse_incl_line : forall o name, plain_name name = true ->
  parse o (incl_line name) = Ok [incl_obj name 1 1].
Proof.
  intros o name Hn. unfold parse.
  rewrite (cobj_incl_line o (length (incl_line name)) name 1 1 None 0 None [] Hn). reflexivity.
Qed.

Lemma occurs_snoc_nl : forall x s, mem nl x = false -> x <> [] ->
  occurs x s = false -> occurs x (s ++ [nl]) = false.
Proof.
  intros x s Hx Hne; induction s as [|d s IH]; intros H.
  - destruct x as [|c x]; [congruence|]. cbn [mem] in Hx. apply orb_false_iff in Hx as [Hc _].
    cbn [app occurs prefixb]. rewrite Ascii.eqb_sym, Hc. reflexivity.
  - cbn [occurs] in H. apply orb_false_iff in H as [Hp Ho].
    change ((d :: s) ++ [nl]) with (d :: s ++ [nl]). cbn [occurs]. rewrite (IH Ho), orb_false_r.
    destruct (prefixb x (d :: s ++ [nl])) eqn:E; [|reflexivity].
    change (d :: s ++ [nl]) with ((d :: s) ++ [nl]) in E. rewrite (prefixb_snoc_nl _ _ Hx E) in Hp. discriminate Hp.
Qed.
Lemma occurs_intro_skip : forall p s, forallb (fun c => negb (Ascii.eqb "#" c)) p = true ->
  occurs intro (p ++ s) = occurs intro s.
Proof.
  induction p as [|c p IH]; intros s H; [reflexivity|].
  cbn [forallb] in H. apply andb_prop in H as [Hc Hp]. apply negb_true_iff in Hc.
  cbn [app occurs]. unfold intro at 1. cbn [s_ String.list_ascii_of_string prefixb]. rewrite Hc. cbn [andb orb].
  apply IH. exact Hp.
Qed.

Lemma incl_line_facts : forall name, plain_name name = true ->
  ends_nl (incl_line name) = true /\ occurs intro (incl_line name) = false
  /\ lnb (incl_line name) <> Some bs /\ value_stops (incl_line name).
Proof.
  intros name Hn. destruct (plain_name_facts name Hn) as (Hu & Hh & Ho & (c & Hc & Hcb) & Hb).
  unfold incl_line. split; [|split; [|split]].
  - rewrite app_assoc. rewrite ends_nl_app by discriminate. reflexivity.
  - rewrite occurs_intro_skip by reflexivity. apply occurs_snoc_nl; [reflexivity|discriminate|exact Ho].
  - rewrite !lnb_app. cbn [lnb isspace_nl]. change (isspace nl) with true. cbv iota. rewrite Hc.
    intros E. inversion E. congruence.
  - apply follow_value_stops. intros line. right.
    exists (mkword (s_ "include") QN line), (" " :: s_ "file " ++ name ++ [nl]), line.
    split; [|repeat split].
    apply (nw_unquoted (s_ "include") (" " :: s_ "file " ++ name ++ [nl]) line); reflexivity.
Qed.

(* (B): the text with the content inlined against the text with the include line *)
Theorem include_line_inline : forall o pre name content post lpre lc lpost,
  parse o pre = Ok lpre -> ends_nl pre = true -> occurs intro pre = false -> lnb pre <> Some bs ->
  plain_name name = true ->
  parse o content = Ok lc -> ends_nl content = true -> occurs intro content = false ->
  lnb content <> Some bs -> value_stops content ->
  parse o post = Ok lpost -> value_stops post ->
  (exists l, parse o (pre ++ content ++ post) = Ok l
             /\ map erase_obj l = map erase_obj (lpre ++ lc ++ lpost))
  /\ (exists l, parse o (pre ++ incl_line name ++ post) = Ok l
                /\ map erase_obj l = map erase_obj (lpre ++ [incl_obj name 0 0] ++ lpost)).
Proof.
  intros o pre name content post lpre lc lpost Hp1 Hp2 Hp3 Hp4 Hn Hc1 Hc2 Hc3 Hc4 Hc5 Ho1 Ho2.
  split.
  - eapply parse_app3; eassumption.
  - destruct (incl_line_facts name Hn) as (I1 & I2 & I3 & I4).
    destruct (parse_app3 o pre (incl_line name) post lpre [incl_obj name 1 1] lpost Hp1 Hp2 Hp3 Hp4
                (parse_incl_line o name Hn) I1 I2 I3 I4 Ho1 Ho2) as (l & Hl & He).
    exists l. split; [exact Hl|]. rewrite He, !map_app. reflexivity.
Qed.

(* ====================================================================================== *)
(* 8. errors of b (optional part of (A)): an error while reading b is the error of a ++ b   *)
(* ====================================================================================== *)

Definition k_uda : str := s_ "UnexpectedDefinitionAttribute".

(* a pending definition changes an erroneous run only where the error was "attribute without a
   definition" (the attribute then attaches to the pending definition instead) *)
Lemma cobj_active_err : forall o f s line nid stop start prev d kd t l,
  cobj o f s line nid stop start prev None [] = UErr kd t l -> kd <> k_uda ->
  cobj o f s line nid stop start prev (Some d) [] = UErr kd t l.
Proof.
  intros o; induction f as [|f IH]; intros s line nid stop start prev d kd t l H Hkd; [discriminate H|].
  cbn [cobj] in H |- *.
  repeat astep H.
  all: try exact H.
  all: try (apply IH; assumption).
  all: try (exfalso; inversion H; subst; apply Hkd; reflexivity).
  - match goal with |- cobj _ _ _ _ _ _ _ _ None [?X; d] = _ =>
      rewrite (cobj_acc_app o f _ _ _ _ _ _ None [X] [d]) end.
    rewrite H. reflexivity.
  - match goal with |- cobj _ _ _ _ _ _ _ _ ?A [d] = _ =>
      rewrite (cobj_acc_app o f _ _ _ _ _ _ A [] [d]) end.
    rewrite H. reflexivity.
Qed.

Lemma parse_cobj_err : forall o s kd t l, parse o s = UErr kd t l ->
  cobj o (S (S (length s))) s 1 1 false None 0 None [] = UErr kd t l.
Proof.
  intros o s kd t l H. unfold parse in H.
  destruct (cobj o (S (S (length s))) s 1 1 false None 0 None []) as [[[[l0 r] ln] n]| |]; cbn [bind] in H; try discriminate H.
  inversion H; subst. reflexivity.
Qed.

Theorem parse_app_err : forall o a b la kd t ln,
  parse o a = Ok la -> ends_nl a = true -> occurs intro a = false -> lnb a <> Some bs ->
  value_stops b -> parse o b = UErr kd t ln -> kd <> k_uda ->
  exists ln', parse o (a ++ b) = UErr kd t ln'.
Proof.
  intros o a b la kd t ln Hpa Hnl Hdir Hbs Hfol Hpb Hkd.
  destruct (parse_cobj _ _ _ Hpa) as (ra & lna & na & Hca).
  apply (cobj_fuel_irrelevant _ _ (length b)) in Hca; [|discriminate].
  replace (S (S (length a)) + length b) with (S (S (length (a ++ b)))) in Hca by (rewrite app_length; lia).
  assert (HF : length (a ++ b) < S (S (length (a ++ b)))) by lia.
  destruct (cobj_app o a b Hnl Hdir Hbs Hfol _ a 1 1 false None 0 None [] _
              (inpos_start a Hnl) HF (Nat.le_0_l _) Hca)
    as (Hn & g & prev' & active' & acc' & Hg & Hprev' & Hla & Heq).
  pose proof (parse_cobj_err _ _ _ _ _ Hpb) as Hcb.
  rewrite (cobj_fuel_enough o g (S (S (length b))) b) in Heq by lia.
  assert (Hrp : rel_prev (count_nl a) 1 prev' 0 \/ not_directive b 1) by (left; right; lia).
  pose proof (cobj_shift_ids o (count_nl a) (na - 1) (S (S (length b))) b 1 1 false None None prev' 0 None None [] []
                (le_n 1) Hrp eq_refl eq_refl eq_refl) as Hs.
  rewrite Hcb in Hs. replace (1 + (na - 1)) with na in Hs by lia.
  destruct (cobj o (S (S (length b))) b (1 + count_nl a) na false None prev' None []) as [x|kd' t' ln'|c] eqn:Ec;
    cbn [rrel] in Hs; try contradiction.
  destruct Hs as [-> ->].
  exists ln'. rewrite parse_noline, Heq, cobj_acc_nil.
  destruct active' as [d|].
  - rewrite (cobj_active_err _ _ _ _ _ _ _ _ d _ _ _ Ec Hkd). reflexivity.
  - rewrite Ec. reflexivity.
Qed.

(* ====================================================================================== *)
(* 8b. any number of pieces                                                                 *)
(* ====================================================================================== *)

(* a text that may stand in front of another one *)
Definition complete (t:str) : Prop := ends_nl t = true /\ occurs intro t = false /\ lnb t <> Some bs.
Lemma complete_app : forall a m, complete a -> complete m -> complete (a ++ m).
Proof.
  intros a m (A1 & A2 & A3) (M1 & M2 & M3). split; [|split].
  - rewrite ends_nl_app; [exact M1|apply ends_nl_nonnil; exact M1].
  - apply occurs_app_nl; auto.
  - rewrite lnb_app. destruct (lnb m); [exact M3|exact A3].
Qed.
Lemma incl_line_complete : forall name, plain_name name = true -> complete (incl_line name).
Proof. intros name H. destruct (incl_line_facts name H) as (I1 & I2 & I3 & _). repeat split; assumption. Qed.

Definition ok_list (r:res (list obj)) : list obj := match r with Ok l => l | _ => [] end.
(* a piece that may stand anywhere in a sequence of pieces *)
Definition leaf_ok (o:oracle) (p:str) : Prop := complete p /\ value_stops p /\ exists l, parse o p = Ok l.
Definition parses (o:oracle) (ps:list str) : list obj := List.concat (map (fun p => ok_list (parse o p)) ps).

Lemma parse_nil : forall o, parse o [] = Ok [].
Proof. reflexivity. Qed.

Theorem parse_concat : forall o ps, Forall (leaf_ok o) ps ->
  (ps <> [] -> complete (List.concat ps))
  /\ exists l, parse o (List.concat ps) = Ok l /\ map erase_obj l = map erase_obj (parses o ps).
Proof.
  intros o ps; induction ps as [|p ps IH] using rev_ind; intros H.
  - split; [congruence|]. exists []. split; reflexivity.
  - apply Forall_app in H as [Hps Hp]. inversion Hp as [|? ? (Hc & Hv & lp & Hlp) _]; subst.
    destruct (IH Hps) as (Hcomp & l0 & Hl0 & He0).
    assert (Hcc : List.concat (ps ++ [p]) = List.concat ps ++ p) by (rewrite concat_app; cbn [List.concat]; rewrite app_nil_r; reflexivity).
    assert (Hpp : parses o (ps ++ [p]) = parses o ps ++ lp).
    { unfold parses. rewrite map_app, concat_app. cbn [map List.concat]. rewrite Hlp, app_nil_r. reflexivity. }
    rewrite Hcc, Hpp.
    destruct ps as [|q ps'].
    + cbn [List.concat app]. split; [intros _; exact Hc|]. exists lp. split; [exact Hlp|reflexivity].
    + specialize (Hcomp ltac:(discriminate)). split; [intros _; apply complete_app; assumption|].
      destruct Hcomp as (C1 & C2 & C3).
      destruct (parse_app o _ p l0 lp Hl0 C1 C2 C3 Hv Hlp) as (l & Hl & He).
      exists l. split; [exact Hl|]. rewrite He, !map_app, He0. reflexivity.
Qed.

(* ====================================================================================== *)
(* 9. Examples: every hypothesis is satisfiable on non-trivial texts, and none can be       *)
(*    dropped                                                                               *)
(* ====================================================================================== *)

(* decidable sufficient checks for the two "for every line" conditions *)
Lemma next_starts_follow : forall b, next_starts_object b 0 = true -> follow_ok b.
Proof.
  intros b H line. unfold next_starts_object in H.
  pose proof (nw_shift s1 line b false 0) as Hs. cbn [Nat.add] in Hs.
  destruct (nw s1 false b 0) as [|w r l|l] eqn:E; [| |discriminate H].
  - left. exact (nw_end_blank s1 b 0 eq_refl E).
  - right. cbn [sht] in Hs. exists (shw line w), r, (l + line). split; [exact Hs|].
    apply andb_prop in H as [H H3]. apply andb_prop in H as [H1 H2]. apply negb_true_iff in H1, H2, H3.
    repeat split; assumption.
Qed.
Lemma next_unquoted_any : forall rest, next_unquoted rest 0 = true -> forall line, next_unquoted rest line = true.
Proof.
  intros rest H line. unfold next_unquoted in *.
  pose proof (nw_shift s1 line rest false 0) as Hs. cbn [Nat.add] in Hs. rewrite Hs.
  destruct (nw s1 false rest 0) as [|w r l|l]; cbn [sht]; [reflexivity|exact H|discriminate H].
Qed.

Definition ids_of (l:list obj) : list nat := map (fun x => opid (ohdr x)) l.
Definition lines_of_top (l:list obj) : list nat := map (fun x => oline (ohdr x)) l.

(* ---------- (A) parse_app: a comment, nested scopes, quoted words (one spanning two lines), a
   line continuation, a trailing comment, an attribute, two disabled objects; b: a definition with an
   attribute and a one-line scope *)
Definition ex_a : str := s_ "# leading comment
s {
  x = 1 ""two words"" 'q'   # trailing
  .help = ""about x""
  !t {
    y = a \
        b
  }
}
!z = off
w = ""multi
line""
".
Definition ex_b : str := s_ "u = 3
.help = ""about u""
v { k = ""x"" }
".
Example ex_app_hyps :
  ends_nl ex_a = true /\ occurs intro ex_a = false /\ lnb ex_a <> Some bs /\ follow_ok ex_b
  /\ length (ok_list (parse [] ex_a)) = 3 /\ length (ok_list (parse [] ex_b)) = 2.
Proof.
  split; [vm_compute; reflexivity|]. split; [vm_compute; reflexivity|]. split; [vm_compute; discriminate|].
  split; [apply next_starts_follow; vm_compute; reflexivity|]. split; vm_compute; reflexivity.
Qed.
Example ex_app : exists l, parse [] (ex_a ++ ex_b) = Ok l
  /\ map erase_obj l = map erase_obj (ok_list (parse [] ex_a) ++ ok_list (parse [] ex_b)).
Proof.
  destruct ex_app_hyps as (H1 & H2 & H3 & H4 & _).
  apply parse_app_follow; try assumption; vm_compute; reflexivity.
Qed.
(* the same by evaluation, and what the erasure hides: ids and lines of b's objects move *)
Example ex_app_computed :
  map erase_obj (ok_list (parse [] (ex_a ++ ex_b)))
  = map erase_obj (ok_list (parse [] ex_a) ++ ok_list (parse [] ex_b))
  /\ ids_of (ok_list (parse [] (ex_a ++ ex_b))) = [1; 5; 6; 7; 8]
  /\ ids_of (ok_list (parse [] ex_a) ++ ok_list (parse [] ex_b)) = [1; 5; 6; 1; 2]
  /\ lines_of_top (ok_list (parse [] (ex_a ++ ex_b))) = [2; 10; 11; 13; 15]
  /\ lines_of_top (ok_list (parse [] ex_a) ++ ok_list (parse [] ex_b)) = [2; 10; 11; 1; 3].
Proof. repeat split; vm_compute; reflexivity. Qed.

(* b may start with blank lines and a plain comment line (the comment is then read in value context) *)
Definition ex_b2 : str := s_ "
# a comment line; with {braces} and = signs
u = 3
".
Example ex_app_comment_start : value_stops ex_b2 /\
  exists l, parse [] (ex_a ++ ex_b2) = Ok l
  /\ map erase_obj l = map erase_obj (ok_list (parse [] ex_a) ++ ok_list (parse [] ex_b2)).
Proof.
  assert (Hv : value_stops ex_b2).
  { apply (blank_value_stops [nl]); [reflexivity|].
    apply (comment_value_stops (s_ " a comment line; with {braces} and = signs")); [reflexivity|reflexivity|].
    apply next_unquoted_any. vm_compute. reflexivity. }
  split; [exact Hv|].
  destruct ex_app_hyps as (H1 & H2 & H3 & _).
  apply parse_app; try assumption; vm_compute; reflexivity.
Qed.

(* an error in b is the error of a ++ b *)
Example ex_app_err : exists ln, parse [] (ex_a ++ s_ "u = 3
v { k = 1
") = UErr (s_ "NoMatchingBrace") ["{"] ln.
Proof.
  destruct ex_app_hyps as (H1 & H2 & H3 & _).
  eapply parse_app_err; try eassumption.
  - vm_compute; reflexivity.
  - apply follow_value_stops, next_starts_follow. vm_compute; reflexivity.
  - vm_compute; reflexivity.
  - vm_compute; discriminate.
Qed.

(* ---------- the conditions are necessary.  In each example every OTHER hypothesis of parse_app
   holds and the conclusion fails. *)
Definition dx (ws:list word) : obj := Def (mkhdr ["x"] false 0 false 1 1) ws [].
Definition w1 : word := mkword ["1"] QN 1.
Definition ta : str := s_ "x = 1
".
Definition tb : str := s_ "y = 2
".
Ltac refute := intros (l & Hl & He); vm_compute in Hl; inversion Hl; subst l; vm_compute in He; discriminate He.

(* b starts with a quoted word: in PHIL a quoted word on the next line continues the value *)
Example boundary_quoted_word_continues_value :
  parse [] ta = Ok [dx [w1]]
  /\ parse [] (ta ++ s_ """q""
") = Ok [dx [w1; mkword ["q"] Q2 2]]
  /\ ~ follow_ok (s_ """q""
")
  /\ forall lb, ~ (exists l, parse [] (ta ++ s_ """q""
") = Ok l /\ map erase_obj l = map erase_obj ([dx [w1]] ++ lb)).
Proof.
  split; [vm_compute; reflexivity|]. split; [vm_compute; reflexivity|]. split.
  - intros H. destruct (H 1) as [Hb|(w & r & l & Hw & Hq & _)]; [discriminate Hb|].
    vm_compute in Hw. inversion Hw; subst. discriminate Hq.
  - intros lb (l & Hl & He). vm_compute in Hl. inversion Hl; subst l. cbn [map app erase_obj] in He.
    inversion He as [[Hw Hrest]]. 
Qed.

(* b starts with a "# ..." line holding a quote character: after a definition the comment is read in
   value context and the quote opens a quoted word (finding F14); b alone is fine *)
Example boundary_comment_with_quote :
  parse [] (s_ "# a ""quote
y = 2
") = Ok [Def (mkhdr ["y"] false 0 false 1 2) [mkword ["2"] QN 2] []]
  /\ parse [] (ta ++ s_ "# a ""quote
y = 2
") = UErr (s_ "MissingClosingQuote") [] 4
  /\ ~ value_stops (s_ "# a ""quote
y = 2
").
Proof.
  split; [vm_compute; reflexivity|]. split; [vm_compute; reflexivity|].
  intros Hv.
  destruct (parse_app [] ta (s_ "# a ""quote
y = 2
") [dx [w1]] [Def (mkhdr ["y"] false 0 false 1 2) [mkword ["2"] QN 2] []]) as (l & Hl & _);
    try exact Hv; try (vm_compute; reflexivity); [vm_compute; discriminate|].
  vm_compute in Hl. discriminate Hl.
Qed.

(* a does not end with a newline: the last word of a and the first word of b are one word *)
Example a_must_end_with_newline :
  parse [] (s_ "x = 1") = Ok [dx [w1]] /\ occurs intro (s_ "x = 1") = false /\ lnb (s_ "x = 1") <> Some bs
  /\ follow_ok tb /\ parse [] tb = Ok [Def (mkhdr ["y"] false 0 false 1 1) [mkword ["2"] QN 1] []]
  /\ parse [] (s_ "x = 1" ++ tb) = Ok [dx [mkword ["1"; "y"] QN 1; mkword ["="] QN 1; mkword ["2"] QN 1]]
  /\ ~ (exists l, parse [] (s_ "x = 1" ++ tb) = Ok l
        /\ map erase_obj l = map erase_obj (ok_list (parse [] (s_ "x = 1")) ++ ok_list (parse [] tb))).
Proof.
  split; [vm_compute; reflexivity|]. split; [vm_compute; reflexivity|]. split; [vm_compute; discriminate|].
  split; [apply next_starts_follow; vm_compute; reflexivity|]. split; [vm_compute; reflexivity|].
  split; [vm_compute; reflexivity|]. refute.
Qed.

(* the last non-blank character of a is a backslash: the value goes on into b *)
Example a_must_not_end_with_backslash :
  parse [] (s_ "x = 1 \
") = Ok [dx [w1]] /\ ends_nl (s_ "x = 1 \
") = true /\ occurs intro (s_ "x = 1 \
") = false /\ lnb (s_ "x = 1 \
") = Some bs
  /\ parse [] (s_ "x = 1 \
" ++ tb) = Ok [dx [w1; mkword ["y"] QN 2; mkword ["="] QN 2; mkword ["2"] QN 2]]
  /\ ~ (exists l, parse [] (s_ "x = 1 \
" ++ tb) = Ok l /\ map erase_obj l = map erase_obj ([dx [w1]] ++ ok_list (parse [] tb))).
Proof. repeat split; try (vm_compute; reflexivity). refute. Qed.

(* ... also when the backslash ends a trailing comment: the comment then swallows the first line of b *)
Example a_must_not_end_with_backslash_in_comment :
  parse [] (s_ "x = 1 # c \
") = Ok [dx [w1]]
  /\ parse [] (s_ "x = 1 # c \
" ++ tb) = Ok [dx [w1]].
Proof. split; vm_compute; reflexivity. Qed.

(* a holds a "#phil __END__" directive: b is never read *)
Example a_must_not_hold_a_directive :
  parse [] (s_ "x = 1
#phil __END__
") = Ok [dx [w1]] /\ ends_nl (s_ "x = 1
#phil __END__
") = true /\ occurs intro (s_ "x = 1
#phil __END__
") = true /\ lnb (s_ "x = 1
#phil __END__
") <> Some bs
  /\ parse [] (s_ "x = 1
#phil __END__
" ++ tb) = Ok [dx [w1]]
  /\ ~ (exists l, parse [] (s_ "x = 1
#phil __END__
" ++ tb) = Ok l /\ map erase_obj l = map erase_obj ([dx [w1]] ++ ok_list (parse [] tb))).
Proof. repeat split; try (vm_compute; reflexivity); [vm_compute; discriminate|refute]. Qed.

(* an error of b that does not carry over: an attribute at the start of b attaches to the last
   definition of a (the excluded kind of parse_app_err) *)
Example attribute_error_does_not_carry_over :
  parse [] (s_ ".help = h
") = UErr k_uda (s_ ".help") 1
  /\ parse [] (ta ++ s_ ".help = h
") = Ok [Def (mkhdr ["x"] false 0 false 1 1) [w1] [(s_ "help", AStr ["h"])]].
Proof. split; vm_compute; reflexivity. Qed.

(* ---------- (B) the include line *)
Definition ex_pre : str := s_ "# master file
a {
  b = 1
}
".
Definition ex_content : str := s_ "c = ""from the file"" 2
!d { e = 3 }
".
Definition ex_post : str := s_ "f = 4 # last
".
Definition ex_name : str := s_ "sub/params.phil".

Example ex_incl_hyps :
  plain_name ex_name = true
  /\ (ends_nl ex_pre = true /\ occurs intro ex_pre = false /\ lnb ex_pre <> Some bs)
  /\ (ends_nl ex_content = true /\ occurs intro ex_content = false /\ lnb ex_content <> Some bs /\ follow_ok ex_content)
  /\ follow_ok ex_post.
Proof.
  split; [vm_compute; reflexivity|].
  split; [split; [vm_compute; reflexivity|split; [vm_compute; reflexivity|vm_compute; discriminate]]|].
  split; [|apply next_starts_follow; vm_compute; reflexivity].
  split; [vm_compute; reflexivity|]. split; [vm_compute; reflexivity|]. split; [vm_compute; discriminate|].
  apply next_starts_follow; vm_compute; reflexivity.
Qed.

Example ex_include_line_inline :
  (exists l, parse [] (ex_pre ++ ex_content ++ ex_post) = Ok l
     /\ map erase_obj l = map erase_obj (ok_list (parse [] ex_pre) ++ ok_list (parse [] ex_content) ++ ok_list (parse [] ex_post)))
  /\ (exists l, parse [] (ex_pre ++ incl_line ex_name ++ ex_post) = Ok l
     /\ map erase_obj l = map erase_obj (ok_list (parse [] ex_pre) ++ [incl_obj ex_name 0 0] ++ ok_list (parse [] ex_post))).
Proof.
  destruct ex_incl_hyps as (Hn & (P1 & P2 & P3) & (C1 & C2 & C3 & C4) & Hpost).
  apply include_line_inline; try assumption; try (vm_compute; reflexivity); apply follow_value_stops; assumption.
Qed.
Example ex_include_line_computed :
  incl_line ex_name = s_ "include file sub/params.phil
"
  /\ parse [] (incl_line ex_name) = Ok [incl_obj ex_name 1 1]
  /\ map erase_obj (ok_list (parse [] (ex_pre ++ incl_line ex_name ++ ex_post)))
     = map erase_obj (ok_list (parse [] ex_pre) ++ [incl_obj ex_name 0 0] ++ ok_list (parse [] ex_post))
  /\ map erase_obj (ok_list (parse [] (ex_pre ++ ex_content ++ ex_post)))
     = map erase_obj (ok_list (parse [] ex_pre) ++ ok_list (parse [] ex_content) ++ ok_list (parse [] ex_post))
  /\ length (ok_list (parse [] (ex_pre ++ ex_content ++ ex_post))) = 4.
Proof. repeat split; vm_compute; reflexivity. Qed.

(* a file name that is not plain: a quoted name would still parse, but "#" alone starts a comment *)
Example ex_name_not_plain : plain_name ["#"] = false /\ plain_name (s_ "a b") = false /\ plain_name (s_ "dir\") = false
  /\ parse [] (incl_line ["#"]) = Ok [Def (mkhdr include_w false 0 false 1 1) [mkword (s_ "file") QN 1] []].
Proof. repeat split; vm_compute; reflexivity. Qed.

(* ====================================================================================== *)
(* 10. Assumptions                                                                          *)
(* ====================================================================================== *)
Print Assumptions nw_app.
Print Assumptions nw_app_end.
Print Assumptions cobj_app.
Print Assumptions cobj_shift_ids.
Print Assumptions follow_value_stops.
Print Assumptions blank_value_stops.
Print Assumptions comment_value_stops.
Print Assumptions parse_app.
Print Assumptions parse_app_follow.
Print Assumptions parse_app_err.
Print Assumptions parse_app3.
Print Assumptions parse_incl_line.
Print Assumptions include_line_inline.
Print Assumptions parse_concat.
