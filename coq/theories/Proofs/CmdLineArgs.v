(* Proofs about process_args (argument pre-processing, order), about the target list computed
   from the master tree, and the concrete witnesses of the defects of the unchanged code. *)
From Coq Require Import List Ascii String Bool Arith ZArith Lia.
From Phil Require Import Base Tree CmdLine CmdLineProofs CmdLineChoice.
Import ListNotations.
Local Open Scope Z_scope.

(* ---------- process_args = sequence of per-argument actions *)
Fixpoint sequence {B} (l : list (res B)) : res (list B) :=
  match l with
  | [] => Ok []
  | r :: rest => do x <- r; do xs <- sequence rest; Ok (x :: xs)
  end.

Section Args.
  Context {A : Type}.
  Variable isfile : str -> bool.
  Variable pa : str -> res A.
  Variable collect : bool.

  (* what one argument contributes: nothing, an interpreted argument, or a left-over *)
  Definition handle (arg : str) : res (option (A + str)) :=
    match prep_arg isfile arg with
    | PSkip => Ok None
    | PFlag text => do p <- pa text; Ok (Some (inl p))
    | PFile => Crash (s_ "Unmodelled")
    | PDef text =>
        match pa text with
        | Ok p => Ok (Some (inl p))
        | _ => if collect then Ok (Some (inr arg)) else UErr (s_ "Uninterpretable") arg 0
        end
    | POther => if collect then Ok (Some (inr arg)) else UErr (s_ "Uninterpretable") arg 0
    end.

  Fixpoint lefts (l : list (option (A + str))) : list A :=
    match l with [] => [] | Some (inl p) :: r => p :: lefts r | _ :: r => lefts r end.
  Fixpoint rights (l : list (option (A + str))) : list str :=
    match l with [] => [] | Some (inr a) :: r => a :: rights r | _ :: r => rights r end.

  Theorem process_args_structure : forall args,
    process_args isfile pa collect args =
    do items <- sequence (map handle args); Ok (lefts items, rights items).
  Proof.
    induction args as [|arg r IH]; [reflexivity|].
    cbn [process_args map sequence]. unfold handle at 1, uninterpretable.
    destruct (prep_arg isfile arg) as [|text| |text|]; cbn [bind].
    - rewrite IH. destruct (sequence (map handle r)); reflexivity.
    - destruct (pa text); cbn [bind]; try reflexivity.
      rewrite IH. destruct (sequence (map handle r)); reflexivity.
    - reflexivity.
    - destruct (pa text); cbn [bind].
      + rewrite IH. destruct (sequence (map handle r)); reflexivity.
      + destruct collect; cbn [bind]; [|reflexivity]. rewrite IH. destruct (sequence (map handle r)); reflexivity.
      + destruct collect; cbn [bind]; [|reflexivity]. rewrite IH. destruct (sequence (map handle r)); reflexivity.
    - destruct collect; cbn [bind]; [|reflexivity]. rewrite IH. destruct (sequence (map handle r)); reflexivity.
  Qed.

  (* the text handed to process_arg for an argument, if any *)
  Definition text_of (arg : str) : list str :=
    match prep_arg isfile arg with PFlag t | PDef t => [t] | _ => [] end.

  (* without a custom processor: success means every non-blank argument was a --flag or a
     name=value that process_arg accepted; the result lists process_arg's results for exactly
     those texts, in the order of the arguments; nothing is left over *)
  Theorem process_args_in_order : forall args ps rem,
    collect = false ->
    process_args isfile pa collect args = Ok (ps, rem) ->
    rem = [] /\ Forall2 (fun t p => pa t = Ok p) (flat_map text_of args) ps /\
    Forall (fun arg => match prep_arg isfile arg with PSkip | PFlag _ | PDef _ => True | _ => False end) args.
  Proof.
    intros args ps rem Hc. subst collect. revert ps rem.
    induction args as [|arg r IH]; intros ps rem H; cbn [process_args] in H.
    - inversion H; subst. cbn. auto.
    - cbn [flat_map]. unfold text_of at 1. unfold uninterpretable in H.
      destruct (prep_arg isfile arg) as [|text| |text|] eqn:E; cbn [bind] in H.
      + apply IH in H. destruct H as [H1 [H2 H3]]. split; [exact H1|]. split; [exact H2|].
        constructor; [rewrite E; exact I | exact H3].
      + destruct (pa text) as [p| |] eqn:Ep; cbn [bind] in H; try discriminate.
        destruct (process_args isfile pa false r) as [[ps' rem']| |] eqn:Er; cbn [bind] in H; try discriminate.
        inversion H; subst. destruct (IH ps' rem eq_refl) as [H1 [H2 H3]].
        split; [exact H1|]. split; [cbn; constructor; assumption|]. constructor; [rewrite E; exact I | exact H3].
      + discriminate.
      + destruct (pa text) as [p| |] eqn:Ep; cbn [bind] in H; try discriminate.
        destruct (process_args isfile pa false r) as [[ps' rem']| |] eqn:Er; cbn [bind] in H; try discriminate.
        inversion H; subst. destruct (IH ps' rem eq_refl) as [H1 [H2 H3]].
        split; [exact H1|]. split; [cbn; constructor; assumption|]. constructor; [rewrite E; exact I | exact H3].
      + discriminate.
  Qed.
End Args.

(* ---------- what prep_arg does with "--" arguments *)
Lemma in_sub1 : forall (c : ascii) (w : str), is_sub [c] w <-> In c w.
Proof.
  intros c w. split.
  - intros [p [q ->]]. apply in_or_app. right. left. reflexivity.
  - intro H. apply in_split in H. destruct H as [p [q ->]]. exists p, q. reflexivity.
Qed.

Definition eq_char : ascii := "="%char.

Theorem prep_flag : forall isfile w,
  forallb isspace (s_ "--" ++ w) = false ->
  prep_arg isfile (s_ "--" ++ w) = PFlag (if in_dec ascii_dec eq_char w then w else w ++ s_ " = True").
Proof.
  intros isfile w Hb. unfold prep_arg. rewrite Hb.
  assert (startswith (s_ "--" ++ w) (s_ "--") = true) as -> by (apply startswith_spec; exists w; reflexivity).
  change (drop 2 (s_ "--" ++ w)) with w.
  destruct (pyfind w (s_ "=") <? 0) eqn:E.
  - apply find_neg_spec in E. destruct (in_dec ascii_dec eq_char w) as [Hin|]; [|reflexivity].
    exfalso. apply E. apply in_sub1. exact Hin.
  - pose proof (not_true _ _ (find_neg_spec w (s_ "=")) E) as H.
    destruct (in_dec ascii_dec eq_char w) as [|Hn]; [reflexivity|].
    exfalso. apply H. intro X. apply Hn. apply in_sub1. exact X.
Qed.

Theorem prep_blank : forall isfile arg, forallb isspace arg = true -> prep_arg isfile arg = PSkip.
Proof. intros. unfold prep_arg. rewrite H. reflexivity. Qed.

Theorem prep_def : forall isfile arg,
  forallb isspace arg = false -> startswith arg (s_ "--") = false -> isfile arg = false ->
  prep_arg isfile arg = if in_dec ascii_dec eq_char arg then PDef arg else POther.
Proof.
  intros isfile arg H1 H2 H3. unfold prep_arg. rewrite H1, H2, H3.
  destruct (0 <=? pyfind arg (s_ "=")) eqn:E.
  - destruct (in_dec ascii_dec eq_char arg) as [|Hn]; [reflexivity|]. exfalso.
    apply Z.leb_le in E. assert (~ In eq_char arg -> pyfind arg (s_ "=") = -1) as X.
    { intro. apply pyfind_absent. intro Y. apply in_sub1 in Y. contradiction. }
    rewrite (X Hn) in E. lia.
  - destruct (in_dec ascii_dec eq_char arg) as [Hin|]; [|reflexivity]. exfalso.
    apply Z.leb_gt in E. destruct (pyfind_range arg (s_ "=")) as [Y|Y]; [|lia].
    apply pyfind_absent in Y. apply Y. apply in_sub1. exact Hin.
Qed.

(* ---------- the target list of a master tree *)
(* q is a dotted path contributed by object o when o is met as an active child *)
Inductive contributes : obj -> str -> Prop :=
  | C_def : forall h ws a, eqs (oname h) (s_ "include") = false -> contributes (Def h ws a) (oname h)
  | C_scp : forall h ks a k q, In k ks -> odis (ohdr k) = false -> contributes k q ->
      contributes (Scp h ks a) (oname h ++ dot :: q).

Lemma all_defs_paths : forall o chain pp p,
  In p (map lpath (all_defs chain pp o)) <-> exists q, p = pp ++ q /\ contributes o q.
Proof.
  induction o as [h ws a | h ks a IHks] using obj_ind2; intros chain pp p.
  - cbn [all_defs]. destruct (eqs (oname h) (s_ "include")) eqn:E; cbn.
    + split; [tauto|]. intros [q [_ H]]. inversion H; subst. congruence.
    + split.
      * intros [<-|[]]. exists (oname h). split; [reflexivity | constructor; exact E].
      * intros [q [-> H]]. inversion H; subst. left. reflexivity.
  - cbn [all_defs].
    set (pp' := pp ++ oname h ++ [dot]). set (ch := expert_of a :: chain).
    set (go := fix go (l : list obj) : list loc :=
                 match l with
                 | [] => []
                 | k :: r => (if odis (ohdr k) then [] else all_defs ch pp' k) ++ go r
                 end).
    assert (Hgo : forall l, Forall (fun o => forall chain pp p,
                     In p (map lpath (all_defs chain pp o)) <-> exists q, p = pp ++ q /\ contributes o q) l ->
                   (In p (map lpath (go l)) <->
                    exists k q, In k l /\ odis (ohdr k) = false /\ contributes k q /\ p = pp' ++ q)).
    { induction l as [|k r IHr]; intros HF.
      - cbn. split; [tauto | intros [k [q [[] _]]]].
      - inversion HF as [|? ? Hk Hr]; subst. cbn [go]. rewrite map_app, in_app_iff, (IHr Hr). split.
        + intros [H|[k' [q [H1 [H2 [H3 H4]]]]]].
          * destruct (odis (ohdr k)) eqn:Ed; [destruct H|]. apply Hk in H. destruct H as [q [-> Hc]].
            exists k, q. split; [left; reflexivity | auto].
          * exists k', q. split; [right; exact H1 | auto].
        + intros [k' [q [[<-|H1] [H2 [H3 H4]]]]].
          * left. rewrite H2. apply Hk. exists q. auto.
          * right. exists k', q. auto. }
    rewrite (Hgo ks IHks). split.
    + intros [k [q [H1 [H2 [H3 ->]]]]]. exists (oname h ++ dot :: q). split.
      * unfold pp'. rewrite <- !app_assoc. reflexivity.
      * econstructor; eauto.
    + intros [q [-> H]]. inversion H; subst. exists k, q0. repeat (split; [assumption|]).
      unfold pp'. rewrite <- !app_assoc. reflexivity.
Qed.

(* master.all_definitions(): exactly the dotted paths of the active definitions below the root,
   the root's own name not included; include lines are not parameters *)
Theorem targets_spec : forall h ks a locs p,
  all_definitions (Scp h ks a) = Ok locs ->
  (In p (map lpath locs) <-> exists k, In k ks /\ odis (ohdr k) = false /\ contributes k p).
Proof.
  intros h ks a locs p H. cbn in H. inversion H; subst; clear H.
  rewrite in_map_iff. split.
  - intros [l [<- Hl]]. apply in_flat_map in Hl. destruct Hl as [k [Hk Hl]]. exists k. split; [exact Hk|].
    destruct (odis (ohdr k)) eqn:Ed; [destruct Hl|]. split; [reflexivity|].
    assert (In (lpath l) (map lpath (all_defs [expert_of a] [] k))) as X by (apply in_map; exact Hl).
    apply all_defs_paths in X. destruct X as [q [-> Hc]]. exact Hc.
  - intros [k [Hk [Hd Hc]]].
    assert (In p (map lpath (all_defs [expert_of a] [] k))) as X by (apply all_defs_paths; exists p; auto).
    apply in_map_iff in X. destruct X as [l [<- Hl]]. exists l. split; [reflexivity|].
    apply in_flat_map. exists k. split; [exact Hk|]. rewrite Hd. exact Hl.
Qed.

Lemma master_lists_aligned : forall (locs : list loc),
  length (map recursive_expert_level locs) = length (map lpath locs).
Proof. intros. rewrite !map_length. reflexivity. Qed.

(* ---------- target_locators: every path once, the first occurrence kept *)
Lemma mems_spec : forall x l, mems x l = true <-> In x l.
Proof.
  intros x l. unfold mems. rewrite existsb_exists. split.
  - intros [y [Hy E]]. apply eqs_spec in E. subst. exact Hy.
  - intro H. exists x. split; [exact H | apply eqs_spec; reflexivity].
Qed.

Lemma str_eq_dec : forall a b : str, {a = b} + {a <> b}.
Proof. apply list_eq_dec. apply ascii_dec. Qed.

Lemma dedupe_in : forall l seen p,
  In p (map lpath (dedupe seen l)) <-> In p (map lpath l) /\ ~ In p seen.
Proof.
  induction l as [|x r IH]; intros seen p; cbn [dedupe map].
  - cbn. tauto.
  - destruct (mems (lpath x) seen) eqn:E.
    + apply mems_spec in E. rewrite IH. cbn [In]. split; [tauto|].
      intros [[<-|H] Hn]; [contradiction | tauto].
    + assert (~ In (lpath x) seen) as Hx by (intro X; apply mems_spec in X; congruence).
      cbn [map In]. rewrite IH. cbn [In]. destruct (str_eq_dec (lpath x) p) as [<-|Hne]; tauto.
Qed.

Lemma dedupe_nodup : forall l seen, NoDup (map lpath (dedupe seen l)).
Proof.
  induction l as [|x r IH]; intros seen; cbn [dedupe map]; [constructor|].
  destruct (mems (lpath x) seen); [apply IH|]. cbn [map]. constructor; [|apply IH].
  intro H. apply dedupe_in in H. destruct H as [_ H]. apply H. left. reflexivity.
Qed.

(* the locator kept for a path is its first occurrence (so its expert level is the one used) *)
Lemma dedupe_first : forall pre x post seen,
  ~ In (lpath x) seen -> ~ In (lpath x) (map lpath pre) -> In x (dedupe seen (pre ++ x :: post)).
Proof.
  induction pre as [|y pre IH]; intros x post seen Hs Hp; cbn [app dedupe].
  - destruct (mems (lpath x) seen) eqn:E; [apply mems_spec in E; contradiction | left; reflexivity].
  - cbn [map In] in Hp. destruct (mems (lpath y) seen).
    + apply IH; tauto.
    + right. apply IH; [|tauto]. cbn [In]. intros [E|E]; [apply Hp; left; exact E | contradiction].
Qed.

(* the command-line targets of a master: the dotted paths of its active definitions, each once *)
Theorem target_locators_spec : forall h ks a tl,
  target_locators (Scp h ks a) = Ok tl ->
  NoDup (map lpath tl) /\
  forall p, In p (map lpath tl) <-> exists k, In k ks /\ odis (ohdr k) = false /\ contributes k p.
Proof.
  intros h ks a tl H. unfold target_locators in H.
  destruct (all_definitions (Scp h ks a)) as [locs| |] eqn:E; cbn [bind] in H; try discriminate.
  inversion H; subst tl. split; [apply dedupe_nodup|]. intro p.
  rewrite dedupe_in. rewrite (targets_spec h ks a locs p E). cbn [In]. tauto.
Qed.

(* a name equal to a full path of ANY master addresses that parameter: no duplicate-freeness needed *)
Theorem full_path_addresses : forall home master locs s,
  all_definitions master = Ok locs -> In s (map lpath locs) ->
  exists i, nth_error (map lpath (dedupe [] locs)) i = Some s /\
            decide_for home (map lpath (dedupe [] locs)) (map recursive_expert_level (dedupe [] locs)) s
              = Ok (Chosen i s false) /\
            process_arg_paths home master [s] = ([], EOk [(i, s)]).
Proof.
  intros home master locs s H Hin.
  destruct (full_path_wins home (map lpath (dedupe [] locs)) (map recursive_expert_level (dedupe [] locs)) s)
    as [i [Hi Hd]].
  - apply dedupe_in. cbn [In]. tauto.
  - apply dedupe_nodup.
  - exists i. split; [exact Hi|]. split; [exact Hd|].
    unfold process_arg_paths, target_locators. rewrite H. cbn [bind process_sources]. rewrite Hd. reflexivity.
Qed.

(* ---------- witnesses of former defects of the code (repaired; replayed on the Python by the
   corpus of harness/streams/c14.py) *)
Definition mk_def (n : String.string) (a : attrs) : obj := Def (plain_hdr (s_ n)) [uw (s_ "1")] a.
Definition mk_scp (n : String.string) (ks : list obj) : obj := Scp (plain_hdr (s_ n)) ks [].
Definition lvl (z : Z) : attrs := [(s_ "expert_level", AInt z)].

(* formerly F13: m = 1 .multiple = True, twice: one target, the full path sets it *)
Definition dup_master : obj :=
  mk_scp "" [mk_def "m" [(s_ "multiple", ABool true)]; mk_def "m" [(s_ "multiple", ABool true)]].

Lemma dup_master_full_path :
  (exists locs, all_definitions dup_master = Ok locs /\ map lpath locs = [s_ "m"; s_ "m"]) /\
  (exists tl, target_locators dup_master = Ok tl /\ map lpath tl = [s_ "m"]) /\
  process_arg_paths None dup_master [s_ "m"] = ([], EOk [(0%nat, s_ "m")]).
Proof. split; [eexists; split; reflexivity|]. split; [eexists; split; reflexivity | vm_compute; reflexivity]. Qed.

(* formerly F20: x { b .expert_level=200 }  y { b .expert_level=200 }  z { ab } and the argument b=...:
   z.ab is not a best match and does not compete; x.b and y.b tie *)
Definition outsider_master : obj :=
  mk_scp "" [mk_scp "x" [mk_def "b" (lvl 200)]; mk_scp "y" [mk_def "b" (lvl 200)]; mk_scp "z" [mk_def "ab" []]].

Lemma outsider_refused :
  get_path_score None (s_ "b") (s_ "x.b") = 4 /\ get_path_score None (s_ "b") (s_ "y.b") = 4 /\
  get_path_score None (s_ "b") (s_ "z.ab") = 3 /\
  process_arg_paths None outsider_master [s_ "b"] = ([], EAmbiguous (s_ "b") [s_ "x.b"; s_ "y.b"]).
Proof. vm_compute. auto. Qed.

(* a master without any active definition (formerly a ValueError, repaired in the code by
   max(scores, default=0)): every argument is refused as unknown, at its first definition *)
Definition empty_master : obj := mk_scp "" [Def (with_dis (plain_hdr (s_ "a")) true) [uw (s_ "1")] []].

Lemma empty_master_unknown : forall home master s r,
  all_definitions master = Ok [] ->
  process_arg_paths home master (s :: r) = ([], EUnknown s).
Proof. intros home master s r H. unfold process_arg_paths, target_locators. rewrite H. reflexivity. Qed.

Lemma empty_master_example :
  all_definitions empty_master = Ok [] /\
  process_arg_paths None empty_master [s_ "a"] = ([], EUnknown (s_ "a")).
Proof. vm_compute. auto. Qed.
