(* C19, second half of the first sentence: THE FILTERED TEXT PARSES TO EXACTLY THAT SUB-TREE.
   Composition of  ShowProofs.show_objs_expert_is_prune  (printing with expert level k = printing the
   pruned tree with the filter off)  with the print -> parse theorems of TreeRoundtrip.v
   (parse_as_str_level0_dotted on [dtree_ok], parse_as_str_level3 on [atree_ok]).

   R1  [prune_keeps_dtree_ok], [prune_keeps_atree_ok], [prune_keeps_wf_show], [prune_keeps_experts_ok]:
       pruning stays inside the round-trip domains (it removes objects, and a dotted-prefix scope whose only
       child is removed; headers, words and attributes are untouched).
       [dtree_wf_show]: on [dtree_ok] the printer-side well-formedness [wf_show] is exactly
       "every .expert_level is unset or a number" ([experts_ok]); [wf_show_experts_ok] is the converse.
   R2  attributes level 0, domain [dtree_ok] (dotted names included):
       [filtered_text_parses_to_pruned_tree_level0] (hypotheses dtree_ok + wf_show, every k),
       [filtered_text_parses_level0] (dtree_ok + experts_ok, every filter setting: Some k / None),
       [filtered_text_parses_level0_ok]: NO hypothesis on the expert levels at all - a level that is
       not a number in a visible object makes the printer raise TypeError (as_str is not Ok), one inside a
       hidden sub-tree is never looked at, so "as_str ... = Ok text" is enough;
       [filtered_text_negative_level0], [prunes_negative]: k < 0 keeps the whole tree.
   R3  attributes level 3, domain [atree_ok] (dot-free names, unset / bool / int attributes):
       [filtered_text_parses_to_pruned_tree_level3], [filtered_text_parses_level3].
       The .expert_level attributes are printed and read back: the re-parsed tree carries them.
   R4  [reparsed_levels_agree]: for a tree in [atree_ok] (contained in tree_ok, dtree_ok [], wf_show:
       [atree_ok_tree_ok], [atree_ok_wf_show]; no extra hypothesis is needed because atree_ok only allows an
       unset .deprecated) the trees re-parsed from the level-0 text and from the level-3 text - same filter,
       any two widths, any two oracles - are the same once attributes (and ids / lines) are erased; in fact
       the level-0 tree is the level-3 tree with its attribute lists emptied.
   Not covered (no round-trip theorem exists yet): attribute levels 1 and 2, dotted names at level 3,
   string-valued attributes, deprecated definitions. *)
From Coq Require Import List Ascii String Bool Arith ZArith Lia.
From Phil Require Import Base Tokenizer Tree Parser Show ShowProofs ShowErase WordsRoundtrip TreeRoundtrip.
Import ListNotations.
Local Open Scope char_scope.

(* ====================================================================================== *)
(* 0. the sub-tree that a filter setting shows                                              *)
(* ====================================================================================== *)

(* expert_level = None (absent) shows everything; Some k shows [prunes k] (everything when k < 0) *)
Definition shown (e:option Z) (l:list obj) : list obj :=
  match e with Some k => prunes k l | None => l end.

(* every .expert_level in the tree is unset or a number *)
Fixpoint experts_ok (o:obj) : bool :=
  match o with
  | Def _ _ a => expert_ok a
  | Scp _ ks a => expert_ok a && forallb experts_ok ks
  end.

(* the shape part of wf_show (no test of the attributes) *)
Fixpoint shape_ok (o:obj) : bool :=
  match o with
  | Def _ _ _ => true
  | Scp h ks _ =>
      negb (match oname h with [] => true | _ => false end)
      && (match ks with
          | [c] => true
          | _ => forallb (fun c => negb (omerge (ohdr c))) ks
          end)
      && forallb shape_ok ks
  end.

Lemma hidden_k_negative : forall a k, (k < 0)%Z -> hidden_k a k = false.
Proof.
  intros a k Hk. unfold hidden_k.
  assert (E : (0 <=? k)%Z = false) by (apply Z.leb_gt; exact Hk).
  destruct (get_attr (s_ "expert_level") a); rewrite ?E; reflexivity.
Qed.

Theorem prune_negative : forall k, (k < 0)%Z -> forall o, prune k o = [o].
Proof.
  intros k Hk o. induction o as [h ws a|h ks a IH] using obj_ind2.
  - cbn [prune]. rewrite (hidden_k_negative a k Hk). reflexivity.
  - cbn [prune]. rewrite (hidden_k_negative a k Hk).
    assert (E : flat_map (prune k) ks = ks).
    { induction IH as [|c r Hc Hr IHr]; [reflexivity|]. cbn [flat_map]. rewrite Hc, IHr. reflexivity. }
    rewrite E. destruct ks as [|c r]; [reflexivity|]. cbn [first_merges]. destruct (omerge (ohdr c)); reflexivity.
Qed.

Theorem prunes_negative : forall k, (k < 0)%Z -> forall l, prunes k l = l.
Proof.
  intros k Hk l. unfold prunes. induction l as [|o r IH]; [reflexivity|].
  cbn [flat_map]. rewrite (prune_negative k Hk o), IH. reflexivity.
Qed.

(* ====================================================================================== *)
(* 1. R1: pruning stays inside the domains                                                  *)
(* ====================================================================================== *)

Lemma dtree_ok_merge : forall m o, dtree_ok m o = true -> omerge (ohdr o) = negb (is_nil m).
Proof.
  intros m [h ws a|h ks a] H; cbn [dtree_ok ohdr] in *.
  - apply andb_prop in H as [H _]. apply andb_prop in H as [H _]. apply andb_prop in H as [H _].
    apply leaf_ok_facts in H. apply H.
  - destruct (first_merges ks).
    + apply andb_prop in H as [H _]. apply andb_prop in H as [_ H]. apply eqb_prop in H. exact H.
    + apply andb_prop in H as [H _]. apply leaf_ok_facts in H. apply H.
Qed.

Lemma dtree_ok_name : forall m o, dtree_ok m o = true -> oname (ohdr o) <> [].
Proof.
  intros m [h ws a|h ks a] H; cbn [dtree_ok ohdr] in *.
  - apply andb_prop in H as [H _]. apply andb_prop in H as [H _]. apply andb_prop in H as [H _].
    apply leaf_ok_facts in H. apply H.
  - destruct (first_merges ks).
    + apply andb_prop in H as [H _]. apply andb_prop in H as [H _]. apply andb_prop in H as [H _].
      apply andb_prop in H as [H _]. intros E. rewrite E in H. discriminate H.
    + apply andb_prop in H as [H _]. apply leaf_ok_facts in H. apply H.
Qed.

Lemma dtree_kids_nomerge : forall ks, forallb (dtree_ok []) ks = true ->
  forallb (fun c => negb (omerge (ohdr c))) ks = true.
Proof.
  intros ks H. apply forallb_forall. intros c Hc. rewrite forallb_forall in H.
  rewrite (dtree_ok_merge [] c (H c Hc)). reflexivity.
Qed.

Theorem prune_keeps_dtree_ok : forall k o m, dtree_ok m o = true -> forallb (dtree_ok m) (prune k o) = true.
Proof.
  intros k o. induction o as [h ws a|h ks a IH] using obj_ind2; intros m H.
  - cbn [prune]. destruct (hidden_k a k); [reflexivity|]. cbn [forallb]. rewrite H. reflexivity.
  - cbn [prune]. destruct (hidden_k a k); [reflexivity|].
    cbn [dtree_ok] in H. destruct (first_merges ks) eqn:Efm.
    + (* dotted-prefix scope: its single child survives, or the scope goes with it *)
      apply andb_prop in H as [Hh Hk]. destruct ks as [|c [|c2 r]]; try discriminate Hk.
      inversion IH as [|? ? Hc _]; subst.
      cbn [flat_map]. rewrite app_nil_r.
      specialize (Hc _ Hk).
      destruct (prune_at_most_one k c) as [E|[c' E]]; rewrite E in *; [reflexivity|].
      assert (Hm : first_merges [c'] = true).
      { cbn [first_merges] in *. rewrite (prune_hdr k c c'); [exact Efm|rewrite E; left; reflexivity]. }
      cbn [forallb] in Hc. rewrite andb_true_r in Hc.
      cbn [forallb]. rewrite andb_true_r.
      change (dtree_ok m (Scp h [c'] a))
        with (if first_merges [c'] then
                negb (is_nil (oname h)) && negb (odis h) && (otmpl h =? 0)%Z && Bool.eqb (omerge h) (negb (is_nil m))
                && dtree_ok (m ++ [oname h]) c'
              else leaf_ok m h && forallb (dtree_ok []) [c']).
      rewrite Hm, Hh, Hc. reflexivity.
    + (* scope printed with braces: no surviving child carries merge_names *)
      apply andb_prop in H as [Hh Hks].
      assert (Hfm' : first_merges (flat_map (prune k) ks) = false)
        by (apply first_merges_prunes_false, dtree_kids_nomerge, Hks).
      assert (Hks' : forallb (dtree_ok []) (flat_map (prune k) ks) = true).
      { apply forallb_forall. intros x Hx. apply in_flat_map in Hx as (c & Hc & Hx).
        rewrite Forall_forall in IH. rewrite forallb_forall in Hks.
        specialize (IH c Hc [] (Hks c Hc)). rewrite forallb_forall in IH. exact (IH x Hx). }
      cbn [forallb]. rewrite andb_true_r.
      change (dtree_ok m (Scp h (flat_map (prune k) ks) a))
        with (if first_merges (flat_map (prune k) ks) then
                negb (is_nil (oname h)) && negb (odis h) && (otmpl h =? 0)%Z && Bool.eqb (omerge h) (negb (is_nil m))
                && match flat_map (prune k) ks with [k0] => dtree_ok (m ++ [oname h]) k0 | _ => false end
              else leaf_ok m h && forallb (dtree_ok []) (flat_map (prune k) ks)).
      rewrite Hfm', Hh, Hks'. reflexivity.
Qed.

Theorem prunes_keeps_dtree_ok : forall k l, forallb (dtree_ok []) l = true -> forallb (dtree_ok []) (prunes k l) = true.
Proof.
  intros k l H. unfold prunes. apply forallb_forall. intros x Hx. apply in_flat_map in Hx as (c & Hc & Hx).
  rewrite forallb_forall in H. assert (H' := prune_keeps_dtree_ok k c [] (H c Hc)).
  rewrite forallb_forall in H'. exact (H' x Hx).
Qed.

(* the surviving children of a scope: a single child stays single or disappears, otherwise nobody merges *)
Lemma pruned_kids_shape : forall k ks,
  match ks with [c] => true | _ => forallb (fun c => negb (omerge (ohdr c))) ks end = true ->
  match flat_map (prune k) ks with [c] => true | _ => forallb (fun c => negb (omerge (ohdr c))) (flat_map (prune k) ks) end = true.
Proof.
  intros k ks H. destruct ks as [|c [|c2 r]].
  - reflexivity.
  - cbn [flat_map]. rewrite app_nil_r. destruct (prune_at_most_one k c) as [E|[c' E]]; rewrite E; reflexivity.
  - assert (H' : forallb (fun c => negb (omerge (ohdr c))) (flat_map (prune k) (c :: c2 :: r)) = true).
    { apply forallb_forall. intros x Hx. apply in_flat_map in Hx as (y & Hy & Hx).
      rewrite (prune_hdr _ _ _ Hx). rewrite forallb_forall in H. exact (H y Hy). }
    destruct (flat_map (prune k) (c :: c2 :: r)) as [|x [|y z]]; [reflexivity|reflexivity|exact H'].
Qed.

Theorem prune_keeps_wf_show : forall k o, wf_show o = true -> forallb wf_show (prune k o) = true.
Proof.
  intros k o. induction o as [h ws a|h ks a IH] using obj_ind2; intros H.
  - cbn [prune]. destruct (hidden_k a k); [reflexivity|]. cbn [forallb]. rewrite H. reflexivity.
  - cbn [prune]. destruct (hidden_k a k); [reflexivity|].
    assert (Hscp : wf_show (Scp h (flat_map (prune k) ks) a) = true).
    { cbn [wf_show] in *. apply andb_prop in H as [H Hkids]. apply andb_prop in H as [H Hshape].
      rewrite H, (pruned_kids_shape k ks Hshape). cbn [andb].
      apply forallb_forall. intros x Hx. apply in_flat_map in Hx as (c & Hc & Hx).
      rewrite Forall_forall in IH. rewrite forallb_forall in Hkids.
      specialize (IH c Hc (Hkids c Hc)). rewrite forallb_forall in IH. exact (IH x Hx). }
    destruct (first_merges ks).
    + destruct (flat_map (prune k) ks) eqn:E; [reflexivity|]. cbn [forallb]. rewrite Hscp. reflexivity.
    + cbn [forallb]. rewrite Hscp. reflexivity.
Qed.

Theorem prune_keeps_experts_ok : forall k o, experts_ok o = true -> forallb experts_ok (prune k o) = true.
Proof.
  intros k o. induction o as [h ws a|h ks a IH] using obj_ind2; intros H.
  - cbn [prune]. destruct (hidden_k a k); [reflexivity|]. cbn [forallb]. rewrite H. reflexivity.
  - cbn [prune]. destruct (hidden_k a k); [reflexivity|].
    assert (Hscp : experts_ok (Scp h (flat_map (prune k) ks) a) = true).
    { cbn [experts_ok] in *. apply andb_prop in H as [H Hkids]. rewrite H. cbn [andb].
      apply forallb_forall. intros x Hx. apply in_flat_map in Hx as (c & Hc & Hx).
      rewrite Forall_forall in IH. rewrite forallb_forall in Hkids.
      specialize (IH c Hc (Hkids c Hc)). rewrite forallb_forall in IH. exact (IH x Hx). }
    destruct (first_merges ks).
    + destruct (flat_map (prune k) ks) eqn:E; [reflexivity|]. cbn [forallb]. rewrite Hscp. reflexivity.
    + cbn [forallb]. rewrite Hscp. reflexivity.
Qed.

(* ---------- wf_show = shape + numeric levels; the shape comes with dtree_ok *)
Lemma wf_show_split : forall o, wf_show o = shape_ok o && experts_ok o.
Proof.
  intros o. induction o as [h ws a|h ks a IH] using obj_ind2.
  - reflexivity.
  - cbn [wf_show shape_ok experts_ok].
    assert (E : forallb wf_show ks = forallb shape_ok ks && forallb experts_ok ks).
    { induction IH as [|c r Hc Hr IHr]; [reflexivity|]. cbn [forallb]. rewrite Hc, IHr.
      destruct (shape_ok c), (experts_ok c), (forallb shape_ok r); reflexivity. }
    rewrite E.
    destruct (expert_ok a), (negb (match oname h with [] => true | _ :: _ => false end)),
             (match ks with [c] => true | _ => forallb (fun c => negb (omerge (ohdr c))) ks end),
             (forallb shape_ok ks), (forallb experts_ok ks); reflexivity.
Qed.

Lemma wf_show_experts_ok : forall o, wf_show o = true -> experts_ok o = true.
Proof. intros o H. rewrite wf_show_split in H. apply andb_prop in H. apply H. Qed.

Theorem dtree_shape_ok : forall o m, dtree_ok m o = true -> shape_ok o = true.
Proof.
  intros o. induction o as [h ws a|h ks a IH] using obj_ind2; intros m H; [reflexivity|].
  assert (Hn := dtree_ok_name m _ H). cbn [ohdr] in Hn.
  cbn [shape_ok]. destruct (oname h) as [|n0 nr] eqn:En; [contradiction Hn; reflexivity|]. cbn [negb andb].
  cbn [dtree_ok] in H. destruct (first_merges ks) eqn:Efm.
  - apply andb_prop in H as [_ Hk]. destruct ks as [|c [|c2 r]]; try discriminate Hk.
    inversion IH as [|? ? Hc _]; subst. cbn [forallb andb]. rewrite (Hc _ Hk). reflexivity.
  - apply andb_prop in H as [_ Hks].
    assert (Hs : match ks with [c] => true | _ => forallb (fun c => negb (omerge (ohdr c))) ks end = true).
    { destruct ks as [|c [|c2 r]]; [reflexivity|reflexivity|apply dtree_kids_nomerge, Hks]. }
    rewrite Hs. cbn [andb].
    apply forallb_forall. intros c Hc. rewrite Forall_forall in IH. rewrite forallb_forall in Hks.
    exact (IH c Hc [] (Hks c Hc)).
Qed.

(* on the round-trip domain, wf_show is exactly "levels are unset or numbers" *)
Theorem dtree_wf_show : forall o m, dtree_ok m o = true -> experts_ok o = true -> wf_show o = true.
Proof. intros o m H He. rewrite wf_show_split, (dtree_shape_ok o m H), He. reflexivity. Qed.

Lemma dtrees_wf_show : forall l, forallb (dtree_ok []) l = true -> forallb experts_ok l = true -> forallb wf_show l = true.
Proof.
  intros l H He. apply forallb_forall. intros x Hx. rewrite forallb_forall in H, He.
  exact (dtree_wf_show x [] (H x Hx) (He x Hx)).
Qed.

(* ---------- the level-3 domain *)
Lemma atree_ok_tree_ok : forall o, atree_ok o = true -> tree_ok o = true.
Proof.
  intros o. induction o as [h ws a|h ks a IH] using obj_ind2; intros H; cbn [atree_ok tree_ok] in *.
  - apply andb_prop in H as [H Ha]. apply andb_prop in H as [H Hw]. apply andb_prop in H as [Hh Hn].
    rewrite Hh, Hw, (atree_def_not_deprecated a Ha). destruct ws; [discriminate Hn|reflexivity].
  - apply andb_prop in H as [H Hks]. apply andb_prop in H as [Hh _]. rewrite Hh. cbn [andb].
    apply forallb_forall. intros c Hc. rewrite Forall_forall in IH. rewrite forallb_forall in Hks.
    exact (IH c Hc (Hks c Hc)).
Qed.

Lemma atree_ok_experts_ok : forall o, atree_ok o = true -> experts_ok o = true.
Proof.
  intros o. induction o as [h ws a|h ks a IH] using obj_ind2; intros H; cbn [atree_ok experts_ok] in *.
  - apply andb_prop in H as [_ Ha]. rewrite forallb_forall in Ha.
    assert (Hin : In (s_ "expert_level") def_attr_names) by (unfold def_attr_names; cbn [In]; tauto).
    specialize (Ha _ Hin). unfold expert_ok.
    destruct (get_attr (s_ "expert_level") a); try reflexivity; discriminate Ha.
  - apply andb_prop in H as [H Hks]. apply andb_prop in H as [_ Ha]. rewrite forallb_forall in Ha.
    assert (Hin : In (s_ "expert_level") scope_attr_names) by (unfold scope_attr_names; cbn [In]; tauto).
    specialize (Ha _ Hin).
    assert (He : expert_ok a = true).
    { unfold expert_ok. destruct (get_attr (s_ "expert_level") a); try reflexivity; discriminate Ha. }
    rewrite He. cbn [andb].
    apply forallb_forall. intros c Hc. rewrite Forall_forall in IH. rewrite forallb_forall in Hks.
    exact (IH c Hc (Hks c Hc)).
Qed.

Theorem atree_ok_wf_show : forall o, atree_ok o = true -> wf_show o = true.
Proof.
  intros o H. apply (dtree_wf_show o []); [apply tree_ok_dtree_ok, atree_ok_tree_ok, H|apply atree_ok_experts_ok, H].
Qed.

Theorem prune_keeps_atree_ok : forall k o, atree_ok o = true -> forallb atree_ok (prune k o) = true.
Proof.
  intros k o. induction o as [h ws a|h ks a IH] using obj_ind2; intros H.
  - cbn [prune]. destruct (hidden_k a k); [reflexivity|]. cbn [forallb]. rewrite H. reflexivity.
  - cbn [prune]. destruct (hidden_k a k); [reflexivity|].
    assert (Hscp : atree_ok (Scp h (flat_map (prune k) ks) a) = true).
    { cbn [atree_ok] in *. apply andb_prop in H as [H Hkids]. rewrite H. cbn [andb].
      apply forallb_forall. intros x Hx. apply in_flat_map in Hx as (c & Hc & Hx).
      rewrite Forall_forall in IH. rewrite forallb_forall in Hkids.
      specialize (IH c Hc (Hkids c Hc)). rewrite forallb_forall in IH. exact (IH x Hx). }
    destruct (first_merges ks).
    + destruct (flat_map (prune k) ks) eqn:E; [reflexivity|]. cbn [forallb]. rewrite Hscp. reflexivity.
    + cbn [forallb]. rewrite Hscp. reflexivity.
Qed.

Theorem prunes_keeps_atree_ok : forall k l, forallb atree_ok l = true -> forallb atree_ok (prunes k l) = true.
Proof.
  intros k l H. unfold prunes. apply forallb_forall. intros x Hx. apply in_flat_map in Hx as (c & Hc & Hx).
  rewrite forallb_forall in H. assert (H' := prune_keeps_atree_ok k c (H c Hc)).
  rewrite forallb_forall in H'. exact (H' x Hx).
Qed.

Lemma shown_keeps_dtree_ok : forall e l, forallb (dtree_ok []) l = true -> forallb (dtree_ok []) (shown e l) = true.
Proof. intros [k|] l H; [apply prunes_keeps_dtree_ok, H|exact H]. Qed.
Lemma shown_keeps_atree_ok : forall e l, forallb atree_ok l = true -> forallb atree_ok (shown e l) = true.
Proof. intros [k|] l H; [apply prunes_keeps_atree_ok, H|exact H]. Qed.

(* the filter is printing the shown sub-tree with the filter off, for every filter setting *)
Lemma show_objs_shown : forall e l, forallb wf_show l = true -> forall p level w,
  show_objs l p e level w = show_objs (shown e l) p None level w.
Proof. intros [k|] l H p level w; [apply show_objs_expert_is_prune, H|reflexivity]. Qed.

(* ====================================================================================== *)
(* 2. R2: attributes level 0                                                                *)
(* ====================================================================================== *)

(* the statement as requested: hypotheses of the two composed theorems, every k (k < 0 included) *)
Theorem filtered_text_parses_to_pruned_tree_level0 : forall o l k w text,
  forallb (dtree_ok []) l = true -> forallb wf_show l = true ->
  as_str l [] (Some k) 0 w = Ok text ->
  exists l', parse o text = Ok l' /\ map erase_obj l' = map erase_all (prunes k l).
Proof.
  intros o l k w text Hd Hwf H. unfold as_str in H. rewrite (show_objs_expert_is_prune k l Hwf) in H.
  exact (parse_as_str_level0_dotted o (prunes k l) w text (prunes_keeps_dtree_ok k l Hd) H).
Qed.

(* the same with wf_show reduced to its content on this domain, and for every filter setting *)
Theorem filtered_text_parses_level0 : forall o l e w text,
  forallb (dtree_ok []) l = true -> forallb experts_ok l = true ->
  as_str l [] e 0 w = Ok text ->
  exists l', parse o text = Ok l' /\ map erase_obj l' = map erase_all (shown e l).
Proof.
  intros o l e w text Hd He H. unfold as_str in H. rewrite (show_objs_shown e l (dtrees_wf_show l Hd He)) in H.
  exact (parse_as_str_level0_dotted o (shown e l) w text (shown_keeps_dtree_ok e l Hd) H).
Qed.

(* a negative level: the whole tree, whatever the .expert_level attributes hold *)
Theorem filtered_text_negative_level0 : forall o l k w text, (k < 0)%Z ->
  forallb (dtree_ok []) l = true ->
  as_str l [] (Some k) 0 w = Ok text ->
  exists l', parse o text = Ok l' /\ map erase_obj l' = map erase_all l.
Proof.
  intros o l k w text Hk Hd H. unfold as_str in H. rewrite (show_objs_negative_is_all k Hk) in H.
  exact (parse_as_str_level0_dotted o l w text Hd H).
Qed.

(* ---------- no hypothesis on the levels: a successful print has looked only at numeric levels *)
Lemma hidden_ok_inv : forall a k b, hidden_by_expert a (Some k) = Ok b -> b = hidden_k a k.
Proof.
  intros a k b H. unfold hidden_by_expert, hidden_k in *.
  destruct (get_attr (s_ "expert_level") a); try (injection H as <-; reflexivity);
    destruct (0 <=? k)%Z; try discriminate H; injection H as <-; reflexivity.
Qed.

Lemma show_list_cons_ok : forall c r m p e lv w t, show_list (c :: r) m p e lv w = Ok t ->
  exists x y, show_obj c m p e lv w = Ok x /\ show_list r m p e lv w = Ok y /\ t = x ++ y.
Proof.
  intros c r m p e lv w t H. cbn [show_list] in H.
  destruct (show_obj c m p e lv w) as [x| |]; cbn [bind] in H; try discriminate H.
  destruct (show_list r m p e lv w) as [y| |]; cbn [bind] in H; try discriminate H.
  injection H as <-. exists x, y. repeat split.
Qed.

Theorem show_expert_ok_is_prune : forall k o, shape_ok o = true -> forall merged prefix level width t,
  show_obj o merged prefix (Some k) level width = Ok t ->
  show_list (prune k o) merged prefix None level width = Ok t.
Proof.
  intros k o. induction o as [h ws a|h ks a IH] using obj_ind2; intros Hwf merged prefix level width t H.
  - cbn [prune]. cbn [show_obj] in H. unfold show_def in H.
    destruct ((otmpl h <? 0)%Z && (level <? 2)%Z) eqn:Et.
    + destruct (hidden_k a k); cbn [show_list show_obj]; [exact H|]. unfold show_def. rewrite Et. cbn [bind]. exact H.
    + destruct (py_truthy (get_attr (s_ "deprecated") a) && (level <? 3)%Z) eqn:Ed.
      * destruct (hidden_k a k); cbn [show_list show_obj]; [exact H|]. unfold show_def. rewrite Et, Ed. cbn [bind]. exact H.
      * destruct (hidden_by_expert a (Some k)) as [b| |] eqn:Eh; cbn [bind] in H; try discriminate H.
        apply hidden_ok_inv in Eh. subst b.
        destruct (hidden_k a k); cbn [show_list show_obj]; [exact H|].
        unfold show_def. rewrite Et, Ed, hidden_none. cbn [bind].
        rewrite bind_ok_nil_r. exact H.
  - cbn [shape_ok] in Hwf. apply andb_prop in Hwf as [Hwf Hkids]. apply andb_prop in Hwf as [Hname Hshape].
    assert (Hlist : forall m p t, show_list ks m p (Some k) level width = Ok t ->
                                  show_list (flat_map (prune k) ks) m p None level width = Ok t).
    { clear Hshape H. induction IH as [|c r Hc Hr IHr]; intros m p t0 H0; [exact H0|].
      cbn [forallb] in Hkids. apply andb_prop in Hkids as [Hkc Hkr].
      apply show_list_cons_ok in H0 as (x & y & Hx & Hy & ->).
      cbn [flat_map]. rewrite show_list_app, (Hc Hkc _ _ _ _ _ Hx), (IHr Hkr _ _ _ Hy). reflexivity. }
    rewrite show_obj_scp in H. unfold show_scope_body in H. cbn [prune].
    destruct ((otmpl h <? 0)%Z && (level <? 2)%Z) eqn:Et.
    + destruct (hidden_k a k); [exact H|].
      destruct (first_merges ks).
      * destruct (flat_map (prune k) ks); [exact H|].
        cbn [show_list]. rewrite show_obj_scp. unfold show_scope_body. rewrite Et. exact H.
      * cbn [show_list]. rewrite show_obj_scp. unfold show_scope_body. rewrite Et. exact H.
    + destruct (hidden_by_expert a (Some k)) as [b| |] eqn:Eh; cbn [bind] in H; try discriminate H.
      apply hidden_ok_inv in Eh. subst b.
      destruct (hidden_k a k); [exact H|].
      destruct (oname h) as [|n0 nr] eqn:En; [discriminate Hname|].
      destruct (first_merges ks) eqn:Efm.
      * destruct ks as [|c [|c2 r]]; [discriminate Efm| |].
        -- apply Hlist in H. cbn [flat_map] in *. rewrite app_nil_r in *.
           destruct (prune_at_most_one k c) as [E|[c' E]]; rewrite E in *.
           ++ exact H.
           ++ cbn [show_list]. rewrite show_obj_scp. unfold show_scope_body.
              rewrite Et, hidden_none. cbn [bind]. rewrite En.
              assert (Hm : first_merges [c'] = true).
              { cbn [first_merges] in *. rewrite (prune_hdr k c c'); [exact Efm|rewrite E; left; reflexivity]. }
              rewrite Hm. rewrite bind_ok_nil_r. exact H.
        -- cbn [first_merges] in Efm. cbn [forallb] in Hshape.
           apply andb_prop in Hshape as [Hc _]. rewrite Efm in Hc. discriminate Hc.
      * assert (Hfm' : first_merges (flat_map (prune k) ks) = false).
        { destruct ks as [|c [|c2 r]].
          - reflexivity.
          - cbn [flat_map]. rewrite app_nil_r. cbn [first_merges] in Efm.
            destruct (prune_at_most_one k c) as [E|[c' E]]; rewrite E; [reflexivity|].
            cbn [first_merges]. rewrite (prune_hdr k c c'); [exact Efm|rewrite E; left; reflexivity].
          - apply first_merges_prunes_false. exact Hshape. }
        cbn [show_list]. rewrite show_obj_scp. unfold show_scope_body.
        rewrite Et, hidden_none. cbn [bind]. rewrite En, Hfm'.
        destruct (show_attributes prefix scope_attr_names a level width) as [at_| |]; cbn [bind] in *; try discriminate H.
        destruct (show_list ks [] (prefix ++ s_ "  ") (Some k) level width) as [body| |] eqn:Eb; cbn [bind] in H; try discriminate H.
        rewrite (Hlist _ _ _ Eb). cbn [bind]. rewrite app_nil_r. exact H.
Qed.

Theorem show_objs_expert_ok_is_prune : forall k l, forallb shape_ok l = true -> forall prefix level width t,
  show_objs l prefix (Some k) level width = Ok t ->
  show_objs (prunes k l) prefix None level width = Ok t.
Proof.
  intros k l Hs prefix level width. rewrite !show_objs_list. unfold prunes.
  induction l as [|o r IH]; intros t H; [exact H|].
  cbn [forallb] in Hs. apply andb_prop in Hs as [Ho Hr].
  apply show_list_cons_ok in H as (x & y & Hx & Hy & ->).
  cbn [flat_map]. rewrite show_list_app, (show_expert_ok_is_prune k o Ho _ _ _ _ _ Hx), (IH Hr _ Hy). reflexivity.
Qed.

(* the strongest level-0 statement: the domain of the round-trip theorem and a successful print *)
Theorem filtered_text_parses_level0_ok : forall o l e w text,
  forallb (dtree_ok []) l = true ->
  as_str l [] e 0 w = Ok text ->
  exists l', parse o text = Ok l' /\ map erase_obj l' = map erase_all (shown e l).
Proof.
  intros o l e w text Hd H.
  apply (parse_as_str_level0_dotted o (shown e l) w text (shown_keeps_dtree_ok e l Hd)).
  destruct e as [k|]; [|exact H]. unfold as_str in *. cbn [shown].
  apply show_objs_expert_ok_is_prune; [|exact H].
  apply forallb_forall. intros x Hx. rewrite forallb_forall in Hd. exact (dtree_shape_ok x [] (Hd x Hx)).
Qed.

(* and the second print of the re-parsed tree (filter off) is the filtered text again, byte for byte *)
Theorem filtered_text_fixpoint_level0 : forall o l e w text,
  forallb (dtree_ok []) l = true ->
  as_str l [] e 0 w = Ok text ->
  exists l', parse o text = Ok l'
    /\ map erase_obj l' = map erase_all (shown e l)
    /\ as_str l' [] None 0 w = Ok text.
Proof.
  intros o l e w text Hd H.
  assert (H' : as_str (shown e l) [] None 0 w = Ok text).
  { destruct e as [k|]; [|exact H]. unfold as_str in *. cbn [shown].
    apply show_objs_expert_ok_is_prune; [|exact H].
    apply forallb_forall. intros x Hx. rewrite forallb_forall in Hd. exact (dtree_shape_ok x [] (Hd x Hx)). }
  destruct (print_parse_print_level0_dotted o (shown e l) w text (shown_keeps_dtree_ok e l Hd) H')
    as (l' & Hp & He & Ht & _).
  exists l'. repeat split; assumption.
Qed.

(* ====================================================================================== *)
(* 3. R3: attributes level 3                                                                *)
(* ====================================================================================== *)

Lemma atrees_wf_show : forall l, forallb atree_ok l = true -> forallb wf_show l = true.
Proof.
  intros l H. apply forallb_forall. intros x Hx. rewrite forallb_forall in H. exact (atree_ok_wf_show x (H x Hx)).
Qed.

Theorem filtered_text_parses_to_pruned_tree_level3 : forall o l k w text,
  forallb atree_ok l = true ->
  as_str l [] (Some k) 3 w = Ok text ->
  exists l', parse o text = Ok l' /\ map erase_obj l' = map erase3 (prunes k l).
Proof.
  intros o l k w text Ha H. unfold as_str in H. rewrite (show_objs_expert_is_prune k l (atrees_wf_show l Ha)) in H.
  exact (parse_as_str_level3 o (prunes k l) w text (prunes_keeps_atree_ok k l Ha) H).
Qed.

Theorem filtered_text_parses_level3 : forall o l e w text,
  forallb atree_ok l = true ->
  as_str l [] e 3 w = Ok text ->
  exists l', parse o text = Ok l' /\ map erase_obj l' = map erase3 (shown e l).
Proof.
  intros o l e w text Ha H. unfold as_str in H. rewrite (show_objs_shown e l (atrees_wf_show l Ha)) in H.
  exact (parse_as_str_level3 o (shown e l) w text (shown_keeps_atree_ok e l Ha) H).
Qed.

(* ====================================================================================== *)
(* 4. R4: the trees re-parsed from level 0 and from level 3 agree once attributes are ignored *)
(* ====================================================================================== *)

Lemma map_map_Forall : forall (f g h:obj -> obj) ks, Forall (fun o => f (g o) = h o) ks -> map f (map g ks) = map h ks.
Proof. intros f g h ks H. induction H as [|c r Hc Hr IH]; [reflexivity|]. cbn [map]. rewrite Hc, IH. reflexivity. Qed.

Lemma erase_words_idem : forall ws, map erase_word (map erase_word ws) = map erase_word ws.
Proof. intros ws. rewrite map_map. apply map_ext. intros w. reflexivity. Qed.

Lemma erase_all_erase_obj : forall o, erase_all (erase_obj o) = erase_all o.
Proof.
  intros o. induction o as [h ws a|h ks a IH] using obj_ind2; cbn [erase_obj erase_all].
  - rewrite erase_words_idem. reflexivity.
  - rewrite (map_map_Forall erase_all erase_obj erase_all ks IH). reflexivity.
Qed.
Lemma erase_all_idem : forall o, erase_all (erase_all o) = erase_all o.
Proof.
  intros o. induction o as [h ws a|h ks a IH] using obj_ind2; cbn [erase_all].
  - rewrite erase_words_idem. reflexivity.
  - rewrite (map_map_Forall erase_all erase_all erase_all ks IH). reflexivity.
Qed.
Lemma erase_all_erase3 : forall o, erase_all (erase3 o) = erase_all o.
Proof.
  intros o. induction o as [h ws a|h ks a IH] using obj_ind2; cbn [erase3 erase_all].
  - rewrite erase_words_idem. reflexivity.
  - rewrite (map_map_Forall erase_all erase3 erase_all ks IH). reflexivity.
Qed.
(* a tree without attributes, ids and lines is its own skeleton *)
Lemma erase_obj_erase_all : forall o, erase_obj (erase_all o) = erase_all o.
Proof.
  intros o. induction o as [h ws a|h ks a IH] using obj_ind2; cbn [erase_obj erase_all].
  - rewrite erase_words_idem. reflexivity.
  - rewrite (map_map_Forall erase_obj erase_all erase_all ks IH). reflexivity.
Qed.

Lemma maps_pointwise : forall (f g h:obj -> obj) l, (forall o, f (g o) = h o) -> map f (map g l) = map h l.
Proof. intros f g h l H. rewrite map_map. apply map_ext. exact H. Qed.

Lemma atrees_dtrees : forall l, forallb atree_ok l = true -> forallb (dtree_ok []) l = true.
Proof.
  intros l H. apply forallb_forall. intros x Hx. rewrite forallb_forall in H.
  apply tree_ok_dtree_ok, atree_ok_tree_ok, H, Hx.
Qed.

(* same tree, same filter; the widths and the oracles of the two runs may differ *)
Theorem reparsed_levels_agree : forall o0 o3 l e w0 w3 t0 t3 l0 l3,
  forallb atree_ok l = true ->
  as_str l [] e 0 w0 = Ok t0 -> parse o0 t0 = Ok l0 ->
  as_str l [] e 3 w3 = Ok t3 -> parse o3 t3 = Ok l3 ->
  map erase_obj l0 = map erase_all l3 /\ map erase_all l0 = map erase_all l3.
Proof.
  intros o0 o3 l e w0 w3 t0 t3 l0 l3 Ha H0 P0 H3 P3.
  destruct (filtered_text_parses_level0_ok o0 l e w0 t0 (atrees_dtrees l Ha) H0) as (l0' & P0' & E0).
  destruct (filtered_text_parses_level3 o3 l e w3 t3 Ha H3) as (l3' & P3' & E3).
  rewrite P0 in P0'. injection P0' as <-. rewrite P3 in P3'. injection P3' as <-.
  assert (A3 : map erase_all l3 = map erase_all (shown e l)).
  { rewrite <- (maps_pointwise erase_all erase_obj erase_all l3 erase_all_erase_obj), E3.
    apply maps_pointwise, erase_all_erase3. }
  assert (A0 : map erase_all l0 = map erase_all (shown e l)).
  { rewrite <- (maps_pointwise erase_all erase_obj erase_all l0 erase_all_erase_obj), E0.
    apply maps_pointwise, erase_all_idem. }
  split; [rewrite E0, A3; reflexivity|rewrite A0, A3; reflexivity].
Qed.

(* both prints succeed on the domain, so the theorem is not vacuous for any tree of atree_ok *)
Theorem reparsed_levels_exist : forall o0 o3 l e w0 w3, forallb atree_ok l = true ->
  exists t0 t3 l0 l3,
    as_str l [] e 0 w0 = Ok t0 /\ parse o0 t0 = Ok l0 /\ as_str l [] e 3 w3 = Ok t3 /\ parse o3 t3 = Ok l3.
Proof.
  intros o0 o3 l e w0 w3 Ha.
  assert (Hwf := atrees_wf_show l Ha).
  assert (T0 : exists t0, as_str l [] e 0 w0 = Ok t0).
  { unfold as_str. rewrite (show_objs_shown e l Hwf). eexists.
    apply show_objs_dtxts. apply shown_keeps_dtree_ok, atrees_dtrees, Ha. }
  assert (T3 : exists t3, as_str l [] e 3 w3 = Ok t3).
  { unfold as_str. rewrite (show_objs_shown e l Hwf). eexists.
    apply show_objs_atxts. apply shown_keeps_atree_ok, Ha. }
  destruct T0 as (t0 & H0). destruct T3 as (t3 & H3).
  destruct (filtered_text_parses_level0_ok o0 l e w0 t0 (atrees_dtrees l Ha) H0) as (l0 & P0 & _).
  destruct (filtered_text_parses_level3 o3 l e w3 t3 Ha H3) as (l3 & P3 & _).
  exists t0, t3, l0, l3. repeat split; assumption.
Qed.

Print Assumptions prune_keeps_dtree_ok.
Print Assumptions prune_keeps_atree_ok.
Print Assumptions prune_keeps_wf_show.
Print Assumptions dtree_wf_show.
Print Assumptions atree_ok_wf_show.
Print Assumptions prunes_negative.
Print Assumptions filtered_text_parses_to_pruned_tree_level0.
Print Assumptions filtered_text_parses_level0.
Print Assumptions filtered_text_negative_level0.
Print Assumptions show_objs_expert_ok_is_prune.
Print Assumptions filtered_text_parses_level0_ok.
Print Assumptions filtered_text_fixpoint_level0.
Print Assumptions filtered_text_parses_to_pruned_tree_level3.
Print Assumptions filtered_text_parses_level3.
Print Assumptions reparsed_levels_agree.
Print Assumptions reparsed_levels_exist.

(* ====================================================================================== *)
(* 5. examples                                                                              *)
(* ====================================================================================== *)

(* expert levels on a definition inside a dotted name (s.t.x), on plain definitions (b, c), on scopes (u, h) *)
Definition rp_doc : str := s_ "s.t.x = 1
.expert_level = 3
a.y = 7
b = 2
.expert_level = 2
c = 5
.expert_level = 1
u .expert_level = 1 { v = 3
  w.z = 4
  .expert_level = 2
}
h
.expert_level = 2
{ g = 6 }
".
Definition rp_tree : list obj := match parse [] rp_doc with Ok l => l | _ => [] end.
Definition rp_text (e:option Z) : str := match as_str rp_tree [] e 0 None with Ok t => t | _ => [] end.
Definition rp_parsed (e:option Z) : list obj := match parse [] (rp_text e) with Ok l => l | _ => [] end.

Example rp_tree_in_domain :
  parse [] rp_doc = Ok rp_tree /\ length rp_tree = 6
  /\ forallb (dtree_ok []) rp_tree = true /\ forallb experts_ok rp_tree = true /\ forallb wf_show rp_tree = true.
Proof. vm_compute. repeat split. Qed.

Example rp_filtered_text_k1 : as_str rp_tree [] (Some 1%Z) 0 None = Ok (s_ "a.y = 7
c = 5
u {
  v = 3
}
").
Proof. vm_compute. reflexivity. Qed.

(* print with k = 1 at level 0, parse, compare with the pruned tree; the pruned tree really is smaller:
   s.t.x (with its prefix scopes s and t), b, u.w.z (with its prefix scope w) and h { g } are gone,
   3 of the 6 top-level objects remain *)
Example rp_reparse_k1 :
  parse [] (rp_text (Some 1%Z)) = Ok (rp_parsed (Some 1%Z))
  /\ map erase_obj (rp_parsed (Some 1%Z)) = map erase_all (prunes 1 rp_tree)
  /\ length (prunes 1 rp_tree) = 3
  /\ map erase_all (prunes 1 rp_tree) <> map erase_all rp_tree.
Proof. vm_compute. repeat split. intros H. discriminate H. Qed.

(* k = 2 keeps everything but s.t.x; k = -1 and the absent level keep everything *)
Example rp_reparse_other_levels :
  map erase_obj (rp_parsed (Some 2%Z)) = map erase_all (prunes 2 rp_tree)
  /\ length (prunes 2 rp_tree) = 5
  /\ map erase_obj (rp_parsed (Some (-1)%Z)) = map erase_all rp_tree
  /\ map erase_obj (rp_parsed None) = map erase_all rp_tree.
Proof. vm_compute. repeat split. Qed.

(* a level that is not a number: in a visible object the printer raises TypeError (no text to parse);
   inside a hidden sub-tree it is never looked at and the theorem [filtered_text_parses_level0_ok] applies *)
Definition rp_h (n:string) : hdr := mkhdr (s_ n) false 0 false 0 0.
Definition rp_junk_visible : list obj :=
  [Def (rp_h "x") [mkword (s_ "1") QN 0] [(s_ "expert_level", AStr (s_ "high"))]].
Definition rp_junk_hidden : list obj :=
  [Scp (rp_h "s") [Def (rp_h "x") [mkword (s_ "1") QN 0] [(s_ "expert_level", AStr (s_ "high"))]]
       [(s_ "expert_level", AInt 2)];
   Def (rp_h "y") [mkword (s_ "2") QN 0] []].
Example rp_junk :
  forallb (dtree_ok []) rp_junk_visible = true /\ forallb experts_ok rp_junk_visible = false
  /\ as_str rp_junk_visible [] (Some 1%Z) 0 None = Crash (s_ "TypeError")
  /\ forallb (dtree_ok []) rp_junk_hidden = true /\ forallb experts_ok rp_junk_hidden = false
  /\ as_str rp_junk_hidden [] (Some 1%Z) 0 None = Ok (s_ "y = 2
")
  /\ prunes 1 rp_junk_hidden = [Def (rp_h "y") [mkword (s_ "2") QN 0] []].
Proof. vm_compute. repeat split. Qed.

(* level 3 (dot-free names): the levels are printed and read back *)
Definition rp_doc3 : str := s_ "b = 2
.expert_level = 2
c = 5
.expert_level = 1
u .expert_level = 1 { v = 3
  z = 4
  .expert_level = 2
}
h
.expert_level = 2
{ g = 6 }
".
Definition rp_tree3 : list obj := match parse [] rp_doc3 with Ok l => l | _ => [] end.
Definition rp_text3 (lv:Z) (e:option Z) : str := match as_str rp_tree3 [] e lv None with Ok t => t | _ => [] end.
Definition rp_parsed3 (lv:Z) (e:option Z) : list obj := match parse [] (rp_text3 lv e) with Ok l => l | _ => [] end.

Example rp_level3 :
  parse [] rp_doc3 = Ok rp_tree3 /\ forallb atree_ok rp_tree3 = true
  /\ parse [] (rp_text3 3 (Some 1%Z)) = Ok (rp_parsed3 3 (Some 1%Z))
  /\ map erase_obj (rp_parsed3 3 (Some 1%Z)) = map erase3 (prunes 1 rp_tree3)
  /\ length (prunes 1 rp_tree3) = 2
  /\ map erase_obj (rp_parsed3 0 (Some 1%Z)) = map erase_all (rp_parsed3 3 (Some 1%Z))
  /\ map erase_obj (rp_parsed3 0 (Some 1%Z)) <> map erase_obj (rp_parsed3 3 (Some 1%Z)).
Proof. vm_compute. repeat split. intros H. discriminate H. Qed.
