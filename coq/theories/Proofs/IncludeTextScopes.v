(* C13, text-level clause, second theorem: include lines INSIDE scopes, any nesting depth.  The tree that
   include processing builds equals (up to primary ids and line numbers, [erase_obj]) the parse of
   the text obtained by textually replacing every active include line - at top level or inside
   scopes - with the recursively inlined text of the named file.

   Setting
     seg / stext / text_of   a file's text presented as a segment TREE:
                               SPlain t              a piece of text
                               SIncl ind name        the line  ind "include file " name newline
                               SScope ind dis n body the lines ind [!]n " {" newline, the texts of the body
                                                     segments, ind "}" newline   ([scope_text])
                             (ind: indentation, blanks without newline; text = concatenation)
     ttab, fs_of             a table of such files; [fs_of o tt] is the file-system oracle of the include
                             model (Model/Include.v) in which every file holds [parse o (its text)]
     Flat / FlatF            textual inlining on segment trees: an include line is replaced by the
                             inlined segments of the named file (names resolved against the directory of
                             the including file exactly as the model does; a file is not re-entered while
                             it is being inlined; any depth, diamonds allowed); the body of an enabled
                             scope is inlined in place; a DISABLED scope "!n {" is left as it is (include
                             processing does not look into it, so its include lines are not active)
     good_table              every plain piece is a complete, newline-terminated text ([leaf_ok] of
                             ParserCompose) that parses and holds no enabled "include" at any depth;
                             every include name is a plain word without "$"; every SScope name is an
                             identifier without dot, not reserved, not "include" ([name_ok])
   Results
     cobj_app_through        the boundary inside a braced run: an unbraced run of collect_objects over a
                             complete text a, replayed in front of b inside a run with ANY stop flag and
                             brace word, arrives at the start of b in a state that flushes to the objects
                             of a (cobj_app of ParserCompose covers stop = true runs that END inside a)
     scope_parse             parse ("[!]n {" nl body "}" nl) = [Scp n (kids)], kids = parse body up to
                             ids and lines, for a complete (or empty) body
     inlining_scopes_partial FlatF [] file out -> exists t l, Expands .. [] file t (chk = true and false)
                             /\ parse o (text_of out) = Ok l /\ erase l = erase t
     includes_text_scopes_partial   the same with the MODEL function: includes_file .. file = Ok t
   "_partial": what is still not covered (future work, statements only, nothing assumed)
     - texts not presented as segment trees: a scope that holds an active include line must be laid
       out as header line / body lines / closing-brace line, without attributes on the header and with
       an undotted name (scopes with attributes, dotted names or one-line layout are fine inside plain
       pieces, where they hold no active include); the include line occupies a whole line and its
       name is one unquoted word.  A splitting function text -> segment tree with its correctness
       proof would remove the presentation;
     - "include scope"; include names with "$" (variable substitution). *)
From Coq Require Import List Ascii String Bool Arith ZArith Lia.
From Phil Require Import Base Tokenizer Tree Parser Show Include IncludeSpec IncludeProofs LexProofs QuoteProofs
                         ParserTotal ParserLines ParserLayout ParserShape ShowErase WordsRoundtrip TreeRoundtrip
                         ParserCompose.
From Phil Require IncludeText.
Import ListNotations.
Local Open Scope char_scope.

(* ====================================================================================== *)
(* 1. an unbraced run over a complete text a, replayed inside ANY run over a ++ b           *)
(* ====================================================================================== *)
Section Through.
  Variable o : oracle.
  Variables a b : str.
  Hypothesis Ha_nl : ends_nl a = true.
  Hypothesis Ha_dir : occurs intro a = false.
  Hypothesis Ha_bs : lnb a <> Some bs.
  Hypothesis Hb : value_stops b.
  Let k := count_nl a.

  Definition thr_post (stop':bool) (start':option word) (f:nat) (s:str) (line nid:nat) (prev:nat)
             (active:option obj) (acc:list obj) (x:list obj * str * nat * nat) : Prop :=
    let '(objs, r, l, n) := x in
    nid <= n /\
    exists g prev' active' acc',
      length b < g /\ prev' <= k /\ objs = rev (flushed active' acc')
      /\ cobj_noline (cobj o f (s ++ b) line nid stop' start' prev active acc)
         = cobj_noline (cobj o g b (1 + k) n stop' start' prev' active' acc').

  Lemma thr_post_eq : forall stop' start' f1 s1 line1 nid1 prev1 active1 acc1 f2 s2 line2 nid2 prev2 active2 acc2 x,
    cobj o f1 (s1 ++ b) line1 nid1 stop' start' prev1 active1 acc1
    = cobj o f2 (s2 ++ b) line2 nid2 stop' start' prev2 active2 acc2 ->
    nid1 <= nid2 ->
    thr_post stop' start' f2 s2 line2 nid2 prev2 active2 acc2 x ->
    thr_post stop' start' f1 s1 line1 nid1 prev1 active1 acc1 x.
  Proof.
    intros stop' start' f1 s1 line1 nid1 prev1 active1 acc1 f2 s2 line2 nid2 prev2 active2 acc2 [[[objs r] l] n]
           Heq Hn (Hle & g & p' & a' & c' & A & B & C & D).
    split; [lia|]. exists g, p', a', c'. rewrite Heq. auto.
  Qed.

  Lemma rbrace_not_object : forall (w:word), eqs (wv w) ["}"] = true ->
    strip_bang (wv w) = (["}"], false) /\ is_ident ["}"] = false /\ prefixb ["."] ["}"] = false.
  Proof. intros w H. apply TreeRoundtrip.eqs_true in H. rewrite H. repeat split. Qed.

  Lemma cobj_app_through : forall stop' start' f s line nid start prev active acc x,
    inpos a s line -> length (s ++ b) < f -> prev <= k ->
    cobj o f s line nid false start prev active acc = Ok x ->
    thr_post stop' start' f s line nid prev active acc x.
  Proof.
    intros stop' start'.
    induction f as [|f IH]; intros s line nid start prev active acc x Hp Hf Hprev H; [discriminate H|].
    remember (cobj o (S f) (s ++ b) line nid stop' start' prev active acc) as G eqn:HG.
    pose proof HG as HG0.
    cbn [cobj] in H, HG.
    change (match active with Some d => d :: acc | None => acc end) with (flushed active acc) in *.
    destruct (nw s0 false s line) as [|lead r1 l1|l1] eqn:En; [| |discriminate H].
    - (* end of a *)
      inversion H; subst x. clear H.
      split; [lia|]. exists (S f), prev, active, acc.
      split; [rewrite app_length in Hf; lia|]. split; [exact Hprev|]. split; [reflexivity|].
      apply cobj_pos_ext_noline.
      rewrite (nw_app_end s0 b meta_ok_s0 s false line (inpos_ends a Ha_nl _ _ Hp) En), (inpos_line a _ _ Hp). reflexivity.
    - destruct (inpos_nw a b Ha_nl _ _ _ _ _ _ _ meta_ok_s0 Hp En) as (Hp1 & Hwp & Happ & Hw1 & Hw2 & Hlen1).
      rewrite Happ in HG.
      destruct (isq lead) eqn:Eq; [discriminate H|].
      rewrite (no_directive a Ha_dir lead Hwp Eq) in H, HG. cbn [andb] in H, HG.
      destruct (eqs (wv lead) ["}"]) eqn:Erb.
      { exfalso. destruct (rbrace_not_object lead Erb) as (Hsb & Hid & Hdot).
        destruct (eqs (wv lead) ["{"]); [discriminate H|].
        rewrite Hsb in H.
        destruct (pop s0 r1 l1) as [[[w r2] l2]| |]; cbn [bind] in H; try discriminate H.
        rewrite Hid, Hdot in H. cbn [negb] in H.
        destruct (negb (isq w) && (eqs (wv w) ["{"] || prefixb ["."] (wv w) || prefixb ["!"; "."] (wv w)));
          cbn in H; discriminate H. }
      rewrite andb_false_r in HG.
      destruct (eqs (wv lead) ["{"]); [discriminate H|].
      destruct (strip_bang (wv lead)) as [lv dis] eqn:Esb.
      destruct (pop s0 r1 l1) as [[[w r2] l2]| |] eqn:E1; cbn [bind] in H; try discriminate H.
      destruct (inpos_pop a b Ha_nl _ _ _ _ _ Hp1 E1) as (Hp2 & _ & Happ2 & Hl2a & Hl2b & Hlen2).
      rewrite Happ2 in HG. cbn [bind] in HG.
      assert (Hleadk : wline lead <= k) by (pose proof (inpos_le a Ha_nl _ _ Hp1); unfold k; lia).
      rewrite app_length in Hf.
      destruct (negb (isq w) && (eqs (wv w) ["{"] || prefixb ["."] (wv w) || prefixb ["!"; "."] (wv w))).
      { (* a scope *)
        destruct (negb (is_ident lv)); [destruct (eqs lv [";"]); discriminate H|].
        destruct (name_reserved_scp lv); [discriminate H|].
        destruct (sattrs o (S (length r2)) w r2 l2 []) as [[[[sa bw] r3] l3]| |] eqn:E3; cbn [bind] in H; try discriminate H.
        destruct (sattrs_app' o a b Ha_nl _ _ _ _ _ _ _ _ Hp2 E3) as (Hp3 & Hl3 & Hlen3 & Happ3).
        rewrite Happ3 in HG. cbn [bind] in HG.
        destruct (cobj o f r3 l3 (S nid) true (Some bw) 0 None []) as [[[[kids r4] l4] nid4]| |] eqn:E4;
          cbn [bind] in H; try discriminate H.
        assert (Hf3 : length (r3 ++ b) < f) by (rewrite app_length; lia).
        destruct (cobj_app o a b Ha_nl Ha_dir Ha_bs Hb _ _ _ _ _ _ _ _ _ _ Hp3 Hf3 (Nat.le_0_l _) E4)
          as (Hn4 & Hp4 & Hlen4 & Happ4).
        rewrite Happ4 in HG. cbn [bind] in HG.
        destruct (prefix_reserved lv); [discriminate H|].
        eapply thr_post_eq; [rewrite <- HG0; exact HG|lia|].
        eapply IH; [exact Hp4|rewrite app_length; lia|exact Hleadk|exact H]. }
      destruct (negb (prefixb ["."] lv)) eqn:Edot.
      { (* a definition *)
        destruct (negb (is_ident lv)) eqn:Eid; [destruct (eqs lv [";"]); discriminate H|].
        apply negb_false_iff in Eid.
        destruct (if eqs lv include_w then Ok (r1, l1) else _) as [[r5 l5]| |] eqn:E5 in H; cbn [bind] in H; try discriminate H.
        destruct (def_pos_app a b Ha_nl _ _ _ _ _ Hp1 E5) as (Hp5 & Hl5 & Hlen5 & Happ5).
        rewrite Happ5 in HG. cbn [bind] in HG.
        set (lead' := mkword lv QN (wline lead)) in *.
        destruct (caw (S (length r5)) r5 l5 false lead' [] lead') as [[[ws r6] l6]| |] eqn:E6; cbn [bind] in H; try discriminate H.
        destruct r6 as [|c6 r6'].
        - (* the value runs to the end of a *)
          destruct (caw_app_end' a b Ha_nl Ha_bs Hb _ _ _ _ _ _ _ _ Hp5 E6) as (r' & l' & Happ6 & Hnw6).
          { intros _. apply ident_weq_bs. exact Eid. }
          { cbn [lead' wline]. lia. }
          rewrite Happ6 in HG. cbn [bind] in HG.
          destruct (name_reserved_def lv); [discriminate H|]. destruct (prefix_reserved lv); [discriminate H|].
          destruct f as [|f']; [discriminate H|].
          cbn [cobj nw] in H.
          inversion H; subst x. clear H.
          split; [lia|].
          eexists (S f'), (wline lead), (Some _), (flushed active acc).
          split; [lia|]. split; [exact Hleadk|]. split; [reflexivity|].
          rewrite <- HG0, HG. apply cobj_pos_ext_noline. exact Hnw6.
        - destruct (caw_app' a b Ha_nl _ _ _ _ _ _ _ _ _ Hp5 E6 ltac:(discriminate)) as (Hp6 & Hl6 & Hlen6 & Happ6).
          rewrite Happ6 in HG. cbn [bind] in HG.
          destruct (name_reserved_def lv); [discriminate H|]. destruct (prefix_reserved lv); [discriminate H|].
          eapply thr_post_eq; [rewrite <- HG0; exact HG|lia|].
          eapply IH; [exact Hp6|rewrite app_length; lia|exact Hleadk|exact H]. }
      (* a definition attribute *)
      apply negb_false_iff in Edot.
      destruct active as [ad|]; [|discriminate H].
      destruct (negb (mems (drop 1 lv) def_attr_names)); [discriminate H|].
      destruct (pop_unq s0 r1 l1) as [[[eqw r5] l5]| |] eqn:E5; cbn [bind] in H; try discriminate H.
      destruct (inpos_pop_unq a b Ha_nl _ _ _ _ _ Hp1 E5) as (Hp5 & _ & _ & Happ5 & Hl5a & Hl5b & Hlen5).
      rewrite Happ5 in HG. cbn [bind] in HG.
      destruct (expect_eq eqw); cbn [bind] in H, HG; try discriminate H.
      set (lead' := mkword lv QN (wline lead)) in *.
      destruct (caw (S (length r5)) r5 l5 false lead' [] lead') as [[[ws r6] l6]| |] eqn:E6; cbn [bind] in H; try discriminate H.
      destruct r6 as [|c6 r6'].
      + destruct (caw_app_end' a b Ha_nl Ha_bs Hb _ _ _ _ _ _ _ _ Hp5 E6) as (r' & l' & Happ6 & Hnw6).
        { intros _. unfold weq, lead'. cbn [isq wq wv negb andb].
          destruct lv as [|c0 lv']; [discriminate Edot|]. cbn [prefixb] in Edot. apply andb_prop in Edot as [Ec0 _].
          apply Ascii.eqb_eq in Ec0. subst c0. reflexivity. }
        { cbn [lead' wline]. lia. }
        rewrite Happ6 in HG. cbn [bind] in HG.
        destruct (if dis then Ok ad else _) as [ad'| |]; cbn [bind] in H, HG; try discriminate H.
        destruct f as [|f']; [discriminate H|].
        cbn [cobj nw] in H.
        inversion H; subst x. clear H.
        split; [lia|].
        eexists (S f'), (wline lead), (Some _), acc.
        split; [lia|]. split; [exact Hleadk|]. split; [reflexivity|].
        rewrite <- HG0, HG. apply cobj_pos_ext_noline. exact Hnw6.
      + destruct (caw_app' a b Ha_nl _ _ _ _ _ _ _ _ _ Hp5 E6 ltac:(discriminate)) as (Hp6 & Hl6 & Hlen6 & Happ6).
        rewrite Happ6 in HG. cbn [bind] in HG.
        destruct (if dis then Ok ad else _) as [ad'| |]; cbn [bind] in H, HG; try discriminate H.
        eapply thr_post_eq; [rewrite <- HG0; exact HG|lia|].
        eapply IH; [exact Hp6|rewrite app_length; lia|exact Hleadk|exact H].
  Qed.
End Through.

(* ====================================================================================== *)
(* 2. the text of a scope: "[!]name {" newline body "}" newline                             *)
(* ====================================================================================== *)
Definition scope_text (ind:str) (dis:bool) (n body:str) : str :=
  ind ++ bang dis ++ n ++ " " :: "{" :: nl :: body ++ ind ++ "}" :: [nl].

Lemma space_not_hash : forall c, isspace c = true -> negb (Ascii.eqb "#" c) = true.
Proof. intros [[] [] [] [] [] [] [] []]; vm_compute; intros H; try reflexivity; discriminate H. Qed.
Lemma cont_not_hash : forall c, is_cont c = true -> negb (Ascii.eqb "#" c) = true.
Proof. intros [[] [] [] [] [] [] [] []]; vm_compute; intros H; try reflexivity; discriminate H. Qed.
Lemma forallb_imp : forall {A} (f g:A -> bool) l, (forall x, f x = true -> g x = true) ->
  forallb f l = true -> forallb g l = true.
Proof.
  intros A f g l H; induction l as [|x l IH]; intros Hl; [reflexivity|].
  cbn [forallb] in *. apply andb_prop in Hl as [H1 H2]. rewrite (H _ H1), (IH H2). reflexivity.
Qed.
Lemma ident_no_hash : forall n, is_ident n = true -> forallb (fun c => negb (Ascii.eqb "#" c)) n = true.
Proof.
  intros n H. destruct (ident_shape n H) as (c & n' & -> & Hc & Hn).
  cbn [forallb]. rewrite (cont_not_hash c (is_start_cont c Hc)). cbn [andb].
  apply (forallb_imp is_cont); [exact cont_not_hash|exact Hn].
Qed.
Lemma blank_no_hash : forall p, blank p -> forallb (fun c => negb (Ascii.eqb "#" c)) p = true.
Proof. intros p [H _]. apply (forallb_imp isspace); [exact space_not_hash|exact H]. Qed.

Lemma complete_blank_pre : forall p t, blank p -> complete t -> complete (p ++ t).
Proof.
  intros p t Hp (T1 & T2 & T3). split; [|split].
  - rewrite ends_nl_app; [exact T1|apply ends_nl_nonnil; exact T1].
  - rewrite occurs_intro_skip; [exact T2|apply blank_no_hash; exact Hp].
  - rewrite lnb_app. destruct (lnb t) as [c|] eqn:E; [exact T3|].
    rewrite (lnb_blank p (proj1 Hp)). discriminate.
Qed.

Lemma scope_text_complete : forall ind dis n body, blank ind -> is_ident n = true ->
  body = [] \/ complete body -> complete (scope_text ind dis n body).
Proof.
  intros ind dis n body Hind Hid Hbody. unfold scope_text.
  set (tail := ind ++ "}" :: [nl]).
  assert (Htail : occurs intro tail = false).
  { unfold tail. rewrite occurs_intro_skip; [reflexivity|apply blank_no_hash; exact Hind]. }
  split; [|split].
  - replace (ind ++ bang dis ++ n ++ " " :: "{" :: nl :: body ++ tail)
      with ((ind ++ bang dis ++ n ++ " " :: "{" :: nl :: body ++ ind ++ ["}"]) ++ [nl])
      by (unfold tail; rewrite <- !app_assoc; cbn [app]; rewrite <- !app_assoc; reflexivity).
    rewrite ends_nl_app by discriminate. reflexivity.
  - rewrite occurs_intro_skip by (apply blank_no_hash; exact Hind).
    rewrite occurs_intro_skip by (destruct dis; reflexivity).
    rewrite occurs_intro_skip by (apply ident_no_hash; exact Hid).
    change (" " :: "{" :: nl :: body ++ tail) with ([" "; "{"; nl] ++ body ++ tail).
    rewrite occurs_intro_skip by reflexivity.
    destruct Hbody as [->|(B1 & B2 & B3)]; [exact Htail|].
    apply occurs_app_nl; [reflexivity|exact B1|exact B2|exact Htail].
  - replace (ind ++ bang dis ++ n ++ " " :: "{" :: nl :: body ++ tail)
      with ((ind ++ bang dis ++ n ++ " " :: "{" :: nl :: body ++ ind) ++ "}" :: [nl])
      by (unfold tail; rewrite <- !app_assoc; cbn [app]; rewrite <- !app_assoc; reflexivity).
    rewrite lnb_char_blank; [discriminate|reflexivity|reflexivity].
Qed.

Lemma scope_text_follow : forall ind dis n body, blank ind -> is_ident n = true ->
  follow_ok (scope_text ind dis n body).
Proof.
  intros ind dis n body [Hi _] Hid line. unfold scope_text.
  destruct (lead_unq_ok dis n Hid) as (Hu & Hh).
  rewrite (app_assoc (bang dis) n).
  apply value_ends_unquoted; try assumption. reflexivity.
Qed.

(* the run inside the braces: the body is read as it is read on its own *)
Lemma scope_inner_run : forall o ind body tl lb f,
  blank ind -> body = [] \/ complete body -> parse o body = Ok lb ->
  length (nl :: body ++ ind ++ "}" :: tl) < f ->
  exists kids l4 n4,
    cobj o f (nl :: body ++ ind ++ "}" :: tl) 1 2 true (Some (mkword ["{"] QN 1)) 0 None [] = Ok (kids, tl, l4, n4)
    /\ map erase_obj kids = map erase_obj lb.
Proof.
  intros o ind body tl lb f Hind Hbody Hpb Hf.
  set (b := ind ++ "}" :: tl) in *.
  set (bw := mkword ["{"] QN 1).
  set (F := S (S (length (body ++ b)))).
  assert (Hbase : exists l n, cobj o F (body ++ b) 1 1 true (Some (mkword ["{"] QN 0)) 0 None [] = Ok (lb, tl, l, n)).
  { destruct Hbody as [->|(B1 & B2 & B3)].
    - cbn [app]. rewrite parse_nil in Hpb. inversion Hpb; subst lb.
      unfold F, b. cbn [app]. rewrite cobj_close_brace by exact Hind. eexists _, _. reflexivity.
    - destruct (parse_cobj _ _ _ Hpb) as (rb & lnb0 & nb & Hcb).
      apply (cobj_fuel_irrelevant _ _ (length b)) in Hcb; [|discriminate].
      replace (S (S (length body)) + length b) with F in Hcb by (unfold F; rewrite app_length; lia).
      assert (Hvs : value_stops b) by (apply follow_value_stops, follow_brace; exact Hind).
      destruct (cobj_app_through o body b B1 B2 B3 Hvs true (Some (mkword ["{"] QN 0)) F body 1 1 None 0 None [] _
                  (inpos_start body B1) ltac:(unfold F; lia) (Nat.le_0_l _) Hcb)
        as (Hn & g & prev' & active' & acc' & Hg & Hprev' & Hlb & Heq).
      destruct g as [|g]; [lia|].
      unfold b in Heq at 2. rewrite cobj_close_brace in Heq by exact Hind. rewrite <- Hlb in Heq.
      destruct (cobj o F (body ++ b) 1 1 true (Some (mkword ["{"] QN 0)) 0 None []) as [[[[x1 x2] x3] x4]| |];
        cbn [cobj_noline] in Heq; try discriminate Heq.
      inversion Heq; subst. eexists _, _. reflexivity. }
  destruct Hbase as (l & n & Hbase).
  pose proof (cobj_shift_ids o 1 1 F (body ++ b) 1 1 true (Some bw) (Some (mkword ["{"] QN 0)) 0 0 None None [] []
                (le_n 1) ltac:(left; right; lia) eq_refl eq_refl eq_refl) as Hs.
  rewrite Hbase in Hs. cbn [Nat.add] in Hs.
  destruct (cobj o F (body ++ b) 2 2 true (Some bw) 0 None []) as [[[[kids r'] l'] n']| |] eqn:Ec;
    cbn [rrel Rcobj2] in Hs; try contradiction.
  destruct Hs as (Hk & -> & -> & -> & _).
  exists kids, (l + 1), (n + 1). split; [|exact Hk].
  pose proof (cobj_pos_eq o f F (nl :: body ++ b) 1 (body ++ b) 2 2 true (Some bw) 0 None []
                (nw_nl s0 _ 1) Hf ltac:(unfold F; lia)) as H1.
  cbn [eqres] in H1. rewrite H1. exact Ec.
Qed.

Theorem scope_parse : forall o ind dis n body lb,
  blank ind -> name_ok n = true -> body = [] \/ complete body -> parse o body = Ok lb ->
  exists kids, parse o (scope_text ind dis n body) = Ok [Scp (mkhdr n dis 0 false 1 1) kids []]
               /\ map erase_obj kids = map erase_obj lb.
Proof.
  intros o ind dis n body lb Hind Hn Hbody Hpb.
  set (inner := nl :: body ++ ind ++ "}" :: [nl]).
  assert (HT : scope_text ind dis n body = ind ++ bang dis ++ n ++ " " :: "{" :: inner) by reflexivity.
  set (f := S (length (scope_text ind dis n body))).
  assert (Hlen : length inner < f).
  { unfold f. rewrite HT, !app_length. cbn [length]. lia. }
  destruct (scope_inner_run o ind body [nl] lb f Hind Hbody Hpb Hlen) as (kids & l4 & n4 & Hin & Hk).
  exists kids. split; [|exact Hk].
  unfold parse. fold f. rewrite HT.
  rewrite (cobj_scope_step o f ind dis n inner 1 1 false None 0 None [] kids [nl] l4 n4 Hind Hn Hin).
  unfold f. cbn [cobj]. rewrite (nw_all_blank s0 [nl] l4 eq_refl). cbn [flushed rev app bind]. reflexivity.
Qed.

Lemma scope_leaf_ok : forall o ind dis n body lb,
  blank ind -> name_ok n = true -> body = [] \/ complete body -> parse o body = Ok lb ->
  leaf_ok o (scope_text ind dis n body).
Proof.
  intros o ind dis n body lb Hind Hn Hbody Hpb.
  destruct (name_ok_facts n Hn) as (Hid & _).
  split; [apply scope_text_complete; assumption|].
  split; [apply follow_value_stops, scope_text_follow; assumption|].
  destruct (scope_parse o ind dis n body lb Hind Hn Hbody Hpb) as (kids & Hp & _). eexists. exact Hp.
Qed.

(* the indented include line *)
Lemma incl_ind_parse : forall o ind name, blank ind -> plain_name name = true ->
  parse o (ind ++ incl_line name) = Ok [incl_obj name 1 1].
Proof.
  intros o ind name [Hi Hc] Hn. unfold parse.
  rewrite cobj_skip_blanks; [|exact Hi|right; left; exact Hc].
  rewrite Hc, Nat.add_0_r.
  rewrite (cobj_fuel_enough o _ (S (S (length (incl_line name)))) (incl_line name)) by (rewrite ?app_length; lia).
  rewrite (cobj_incl_line o _ name 1 1 None 0 None [] Hn). reflexivity.
Qed.
Lemma incl_ind_leaf_ok : forall o ind name, blank ind -> plain_name name = true ->
  leaf_ok o (ind ++ incl_line name).
Proof.
  intros o ind name Hind Hn. destruct (incl_line_facts name Hn) as (_ & _ & _ & Hv).
  split; [apply complete_blank_pre; [exact Hind|apply incl_line_complete; exact Hn]|].
  split; [apply blank_value_stops; [exact (proj1 Hind)|exact Hv]|].
  eexists. apply incl_ind_parse; assumption.
Qed.

(* ====================================================================================== *)
(* 3. texts as segment TREES, file tables                                                   *)
(* ====================================================================================== *)
Inductive seg :=
  | SPlain (t:str)
  | SIncl (ind name:str)
  | SScope (ind:str) (dis:bool) (name:str) (body:list seg).

Fixpoint stext (s:seg) : str :=
  match s with
  | SPlain t => t
  | SIncl ind n => ind ++ incl_line n
  | SScope ind dis n body => scope_text ind dis n (List.concat (map stext body))
  end.
Definition text_of (segs:list seg) : str := List.concat (map stext segs).

Lemma seg_ind2 (P:seg -> Prop) :
  (forall t, P (SPlain t)) -> (forall i n, P (SIncl i n)) ->
  (forall i d n body, Forall P body -> P (SScope i d n body)) -> forall s, P s.
Proof.
  intros H1 H2 H3. fix IH 1. intros [t|i n|i d n body]; [apply H1|apply H2|]. apply H3.
  induction body as [|x r IHr]; constructor; [apply IH|exact IHr].
Qed.

Definition ttab := list (str * list seg).
Fixpoint tlookup (t:ttab) (p:str) : option (list seg) :=
  match t with [] => None | (k, v) :: r => if eqs k p then Some v else tlookup r p end.
Definition fs_of (o:oracle) (t:ttab) : fsys :=
  map (fun kv => (fst kv, IncludeText.fent_of o (text_of (snd kv)))) t.

Lemma fs_get_of : forall o t p segs l,
  tlookup t p = Some segs -> parse o (text_of segs) = Ok l -> fs_get (fs_of o t) p = Ok l.
Proof.
  intros o; induction t as [|[k v] t IH]; intros p segs l H Hp; [discriminate H|].
  cbn [tlookup] in H. cbn [fs_of map fs_get fst snd]. destruct (eqs k p).
  - inversion H; subst. unfold IncludeText.fent_of. rewrite Hp. reflexivity.
  - apply (IH _ _ _ H Hp).
Qed.

Lemma parses_cons : forall o p ps, parses o (p :: ps) = ok_list (parse o p) ++ parses o ps.
Proof. reflexivity. Qed.
Lemma parses_app : forall o ps qs, parses o (ps ++ qs) = parses o ps ++ parses o qs.
Proof. intros. unfold parses. rewrite map_app, concat_app. reflexivity. Qed.

(* a sequence of pieces is empty or complete, and parses to the concatenation of the parses *)
Lemma pieces_cases : forall o ps, Forall (leaf_ok o) ps ->
  (List.concat ps = [] \/ complete (List.concat ps))
  /\ exists l, parse o (List.concat ps) = Ok l /\ map erase_obj l = map erase_obj (parses o ps).
Proof.
  intros o ps H. destruct (parse_concat o ps H) as (Hc & Hl). split; [|exact Hl].
  destruct ps as [|p ps]; [left; reflexivity|right; apply Hc; discriminate].
Qed.

Lemma odis_erase : forall x, odis (ohdr (erase_obj x)) = odis (ohdr x).
Proof. intros [h ws a|h ks a]; reflexivity. Qed.

Section Flat.
  Variable o : oracle.
  Variable isc : str -> option str -> option (list obj).
  Variable tt : ttab.
  Variable cwd : str.
  Let fs := fs_of o tt.

  (* textual inlining on segment trees: an include line is replaced by the inlined segments of the
     named file, the body of an enabled scope is inlined in place, a disabled scope is left alone
     (include processing does not look into it) *)
  Inductive Flat : list str -> option str -> list seg -> list seg -> Prop :=
  | F_nil : forall stack rd, Flat stack rd [] []
  | F_plain : forall stack rd t r ps, Flat stack rd r ps -> Flat stack rd (SPlain t :: r) (SPlain t :: ps)
  | F_incl : forall stack rd ind name r ps qs,
      FlatF stack (resolve rd name) ps -> Flat stack rd r qs -> Flat stack rd (SIncl ind name :: r) (ps ++ qs)
  | F_scope : forall stack rd ind n body body' r qs,
      Flat stack rd body body' -> Flat stack rd r qs ->
      Flat stack rd (SScope ind false n body :: r) (SScope ind false n body' :: qs)
  | F_off : forall stack rd ind n body r qs,
      Flat stack rd r qs -> Flat stack rd (SScope ind true n body :: r) (SScope ind true n body :: qs)
  with FlatF : list str -> str -> list seg -> Prop :=
  | F_file : forall stack file segs ps,
      tlookup tt (fs_key (nrm cwd file)) = Some segs ->
      ~ In (nrm cwd file) stack ->
      Flat (stack ++ [nrm cwd file]) (Some (dirname (nrm cwd file))) segs ps -> FlatF stack file ps.
  Scheme Flat_m := Minimality for Flat Sort Prop
    with FlatF_m := Minimality for FlatF Sort Prop.
  Combined Scheme Flat_mut from Flat_m, FlatF_m.

  Inductive good_seg : seg -> Prop :=
  | G_plain : forall t, leaf_ok o t -> forallb IncludeText.noinc (ok_list (parse o t)) = true -> good_seg (SPlain t)
  | G_incl : forall ind n, blank ind -> plain_name n = true -> mem "$" n = false -> good_seg (SIncl ind n)
  | G_scope : forall ind dis n body, blank ind -> name_ok n = true -> Forall good_seg body ->
      good_seg (SScope ind dis n body).
  Definition good_table : Prop := forall key segs, tlookup tt key = Some segs -> Forall good_seg segs.

  Lemma seg_leaf_ok : forall s, good_seg s -> leaf_ok o (stext s).
  Proof.
    induction s as [t|i n|i d n body IH] using seg_ind2; intros Hg; inversion Hg; subst; cbn [stext].
    - assumption.
    - apply incl_ind_leaf_ok; assumption.
    - assert (Hl : Forall (leaf_ok o) (map stext body)).
      { apply Forall_map. rewrite Forall_forall in *. intros x Hx. apply (IH x Hx). auto. }
      destruct (pieces_cases o _ Hl) as (Hc & lb & Hlb & _).
      eapply scope_leaf_ok; eassumption.
  Qed.
  Lemma segs_leaf_ok : forall segs, Forall good_seg segs -> Forall (leaf_ok o) (map stext segs).
  Proof. intros segs H. apply Forall_map. eapply Forall_impl; [|exact H]. exact seg_leaf_ok. Qed.

  Hypothesis Hgood : good_table.
  Variable chk : bool.

  Definition covers (objs:list obj) (segs:list seg) : Prop :=
    map erase_obj objs = map erase_obj (parses o (map stext segs)) /\ forallb IncludeText.tmpl0 objs = true.

  (* split the objects of a sequence of segments after its first segment *)
  Lemma covers_cons : forall objs s r, covers objs (s :: r) ->
    exists p objs', objs = p ++ objs' /\ map erase_obj p = map erase_obj (ok_list (parse o (stext s)))
      /\ forallb IncludeText.tmpl0 p = true /\ covers objs' r.
  Proof.
    intros objs s r [He Ht]. cbn [map] in He. rewrite parses_cons, map_app in He.
    apply map_eq_app in He as (p & objs' & -> & Hp & Hr).
    rewrite forallb_app in Ht. apply andb_prop in Ht as [Ht1 Ht2].
    exists p, objs'. repeat split; assumption.
  Qed.

  Lemma flat_sound :
    (forall stack rd segs out, Flat stack rd segs out -> Forall good_seg segs ->
       forall objs, covers objs segs ->
       Forall (leaf_ok o) (map stext out) /\
       exists t, ExpandsL isc fs cwd chk stack rd objs t
                 /\ map erase_obj t = map erase_obj (parses o (map stext out)))
    /\ (forall stack file out, FlatF stack file out ->
       Forall (leaf_ok o) (map stext out) /\
       exists t, Expands isc fs cwd chk stack file t /\ map erase_obj t = map erase_obj (parses o (map stext out))).
  Proof.
    apply Flat_mut.
    - (* nil *)
      intros stack rd _ objs [He _]. cbn in He. destruct objs; [|discriminate He].
      split; [constructor|]. exists []. split; [constructor|reflexivity].
    - (* a plain piece *)
      intros stack rd t r ps _ IH Hg objs Hc.
      inversion Hg as [|? ? Hgs Hgr]; subst. inversion Hgs as [? Hleaf Hni| |]; subst.
      destruct (covers_cons _ _ _ Hc) as (p & objs' & -> & Hp & Htp & Hc').
      destruct (IH Hgr objs' Hc') as (Hl & t' & HE & He).
      cbn [stext] in Hp.
      split; [cbn [map stext]; constructor; assumption|].
      exists (p ++ t'). split.
      + apply IncludeText.ExpandsL_app; [|exact HE]. apply IncludeText.expandsL_id; [|exact Htp].
        rewrite (IncludeText.forallb_noinc_erase _ _ Hp). exact Hni.
      + cbn [map stext]. rewrite parses_cons, !map_app, He, Hp. reflexivity.
    - (* an include line *)
      intros stack rd ind name r ps qs _ IHF _ IH Hg objs Hc.
      inversion Hg as [|? ? Hgs Hgr]; subst. inversion Hgs as [|? ? Hind Hpn Hd|]; subst.
      destruct (covers_cons _ _ _ Hc) as (p & objs' & -> & Hp & Htp & Hc').
      destruct IHF as (Hlp & tp & HEp & Hep).
      destruct (IH Hgr objs' Hc') as (Hlq & tq & HEq & Heq).
      split; [rewrite map_app; apply Forall_app; split; assumption|].
      cbn [stext] in Hp. rewrite (incl_ind_parse o ind name Hind Hpn) in Hp. cbn [ok_list map] in Hp.
      destruct p as [|i [|i2 p']]; try discriminate Hp. inversion Hp as [Hi]. clear Hp.
      destruct i as [h ws a|h ks a]; [|discriminate Hi]. cbn [erase_obj incl_obj] in Hi.
      assert (Hodis : odis h = false) by (apply (f_equal (fun x => odis (ohdr x))) in Hi; exact Hi).
      assert (Honame : oname h = s_include) by (apply (f_equal (fun x => oname (ohdr x))) in Hi; exact Hi).
      assert (Hws : map erase_word ws = [mkword (s_ "file") QN 0; mkword name QN 0])
        by (apply (f_equal owords) in Hi; exact Hi).
      clear Hi.
      exists (tp ++ tq). split.
      + cbn [app]. apply EL_cons; [|exact HEq].
        eapply EO_file; [| | |exact HEp].
        * exact Hodis.
        * exact Honame.
        * rewrite <- IncludeText.classify_erase, Hws. apply IncludeText.classify_incl. exact Hd.
      + rewrite (map_app stext), parses_app, !map_app, Hep, Heq. reflexivity.
    - (* an enabled scope *)
      intros stack rd ind n body body' r qs _ IHb _ IH Hg objs Hc.
      inversion Hg as [|? ? Hgs Hgr]; subst. inversion Hgs as [| |? ? ? ? Hind Hn Hgb]; subst.
      destruct (covers_cons _ _ _ Hc) as (p & objs' & -> & Hp & Htp & Hc').
      destruct (IH Hgr objs' Hc') as (Hlq & tq & HEq & Heq).
      (* the scope as parsed in its file *)
      destruct (pieces_cases o _ (segs_leaf_ok body Hgb)) as (Hbc & lb & Hlb & Helb).
      destruct (scope_parse o ind false n _ lb Hind Hn Hbc Hlb) as (kids & Hpk & Hkids).
      cbn [stext] in Hp. rewrite Hpk in Hp. cbn [ok_list map] in Hp.
      destruct p as [|x [|x2 p']]; try discriminate Hp. inversion Hp as [Hx]. clear Hp.
      destruct x as [h ws a|h ks a]; [discriminate Hx|]. cbn [erase_obj] in Hx.
      assert (Hh1 : oname h = n) by (apply (f_equal (fun y => oname (ohdr y))) in Hx; exact Hx).
      assert (Hh2 : odis h = false) by (apply (f_equal (fun y => odis (ohdr y))) in Hx; exact Hx).
      assert (Hh4 : omerge h = false) by (apply (f_equal (fun y => omerge (ohdr y))) in Hx; exact Hx).
      assert (Hks : map erase_obj ks = map erase_obj kids) by (apply (f_equal okids) in Hx; exact Hx).
      assert (Ha : a = []) by (apply (f_equal oattrs) in Hx; exact Hx).
      subst a. clear Hx.
      cbn [forallb IncludeText.tmpl0] in Htp. rewrite andb_true_r in Htp. apply andb_prop in Htp as [Ht0 Htk].
      assert (Hcb : covers ks body) by (split; [rewrite Hks, Hkids, Helb; reflexivity|exact Htk]).
      destruct (IHb Hgb ks Hcb) as (Hlb' & tb & HEb & Hetb).
      (* the scope of the inlined text *)
      destruct (pieces_cases o _ Hlb') as (Hbc' & lb' & Hlb2 & Helb').
      destruct (scope_parse o ind false n _ lb' Hind Hn Hbc' Hlb2) as (kids' & Hpk' & Hkids').
      split.
      { cbn [map stext]. constructor; [|exact Hlq]. exact (scope_leaf_ok o ind false n _ lb' Hind Hn Hbc' Hlb2). }
      exists ([Scp (with_tmpl h 0%Z) tb []] ++ tq). split.
      + apply (EL_cons isc fs cwd chk stack rd (Scp h ks []) objs' [Scp (with_tmpl h 0%Z) tb []] tq); [|exact HEq].
        apply EO_scp; [exact Hh2|exact HEb].
      + cbn [map stext]. rewrite parses_cons, Hpk'. cbn [ok_list app map erase_obj]. rewrite Heq. f_equal.
        f_equal.
        * apply Z.eqb_eq in Ht0. unfold erase_hdr. cbn [with_tmpl oname odis otmpl omerge].
          rewrite Hh1, Hh2, Hh4. reflexivity.
        * rewrite Hetb, Hkids', Helb'. reflexivity.
    - (* a disabled scope *)
      intros stack rd ind n body r qs _ IH Hg objs Hc.
      inversion Hg as [|? ? Hgs Hgr]; subst. inversion Hgs as [| |? ? ? ? Hind Hn Hgb]; subst.
      destruct (covers_cons _ _ _ Hc) as (p & objs' & -> & Hp & Htp & Hc').
      destruct (IH Hgr objs' Hc') as (Hlq & tq & HEq & Heq).
      destruct (pieces_cases o _ (segs_leaf_ok body Hgb)) as (Hbc & lb & Hlb & Helb).
      destruct (scope_parse o ind true n _ lb Hind Hn Hbc Hlb) as (kids & Hpk & Hkids).
      split.
      { cbn [map]. constructor; [|exact Hlq]. apply seg_leaf_ok. exact Hgs. }
      assert (Hp0 := Hp).
      cbn [stext] in Hp. rewrite Hpk in Hp. cbn [ok_list map] in Hp.
      destruct p as [|x [|x2 p']]; try discriminate Hp. inversion Hp as [Hx]. clear Hp.
      assert (Hdis : odis (ohdr x) = true).
      { rewrite <- odis_erase, Hx. reflexivity. }
      exists ([x] ++ tq). split.
      + apply (EL_cons isc fs cwd chk stack rd x objs' [x] tq); [|exact HEq]. apply EO_disabled. exact Hdis.
      + cbn [map]. rewrite parses_cons, !map_app, Heq, Hp0. reflexivity.
    - (* a file *)
      intros stack file segs ps Hlook Hnin _ IH.
      pose proof (Hgood _ _ Hlook) as Hg.
      destruct (parse_concat o (map stext segs) (segs_leaf_ok segs Hg)) as (_ & objs & Hobjs & Heobjs).
      pose proof (IncludeText.parse_tmpl0 _ _ _ Hobjs) as Ht0.
      destruct (IH Hg objs (conj Heobjs Ht0)) as (Hl & t & HE & He).
      split; [exact Hl|]. exists t. split; [|exact He].
      eapply Ex_file; [apply (fs_get_of o tt _ segs objs Hlook Hobjs)|intros _; exact Hnin|exact HE].
  Qed.
End Flat.

(* the Expands tree (with or without the cycle test) equals the parse of the inlined text *)
Theorem inlining_scopes_partial : forall o isc tt cwd, good_table o tt ->
  forall file out, FlatF tt cwd [] file out ->
  exists t l, Expands isc (fs_of o tt) cwd true [] file t /\ Expands isc (fs_of o tt) cwd false [] file t
              /\ parse o (text_of out) = Ok l /\ map erase_obj l = map erase_obj t.
Proof.
  intros o isc tt cwd Hg file out HF.
  destruct (proj2 (flat_sound o isc tt cwd Hg true) [] file out HF) as (Hl & t & HE & He).
  destruct (parse_concat o _ Hl) as (_ & l & Hp & Hel).
  exists t, l. split; [exact HE|]. split; [apply (proj1 (Expands_weaken isc (fs_of o tt) cwd)); exact HE|].
  split; [exact Hp|]. rewrite Hel, He. reflexivity.
Qed.

(* ... and that tree is what the model of parse(file_name=.., process_includes=True) returns *)
Theorem includes_text_scopes_partial : forall o isc tt cwd, good_table o tt ->
  forall file out, FlatF tt cwd [] file out ->
  exists t l, includes_file isc (fs_of o tt) cwd file = Ok t
              /\ parse o (text_of out) = Ok l /\ map erase_obj l = map erase_obj t.
Proof.
  intros o isc tt cwd Hg file out HF.
  destruct (inlining_scopes_partial o isc tt cwd Hg file out HF) as (t & l & HE & _ & Hp & He).
  exists t, l. split; [apply includes_complete_entry; exact HE|]. split; assumption.
Qed.

(* ====================================================================================== *)
(* 4. Example: a includes sub/b inside the nested scope s.t and c inside s; b includes ../c  *)
(*    (a diamond); attributes and quoted words in the included files; a disabled scope       *)
(* ====================================================================================== *)
Definition ex_cwd : str := s_ "/elsewhere".
Definition ex_pa : str := s_ "/r/a.phil".
Definition ex_a : list seg :=
  [SPlain (s_ "# master
x = 1
");
   SScope [] false ["s"]
     [SScope (s_ "  ") false ["t"]
        [SIncl (s_ "    ") (s_ "sub/b.phil"); SPlain (s_ "    y = 2
")];
      SIncl (s_ "  ") (s_ "c.phil")];
   SScope [] true (s_ "off") [SIncl (s_ "  ") (s_ "c.phil")]].
Definition ex_b : list seg :=
  [SIncl [] (s_ "../c.phil"); SPlain (s_ "p = ""from b"" 'and more'
.help = ""the p""
q { r = 4 }
")].
Definition ex_c : list seg := [SPlain (s_ "c = 3
.help = ""the c""
")].
Definition ex_tt : ttab := [(s_ "/r/a.phil", ex_a); (s_ "/r/sub/b.phil", ex_b); (s_ "/r/c.phil", ex_c)].

Example ex_text_a : text_of ex_a = s_ "# master
x = 1
s {
  t {
    include file sub/b.phil
    y = 2
  }
  include file c.phil
}
!off {
  include file c.phil
}
".
Proof. vm_compute. reflexivity. Qed.

Definition ex_inlined : str := s_ "# master
x = 1
s {
  t {
c = 3
.help = ""the c""
p = ""from b"" 'and more'
.help = ""the p""
q { r = 4 }
    y = 2
  }
c = 3
.help = ""the c""
}
!off {
  include file c.phil
}
".

Ltac leaf_follow :=
  split; [split; [vm_compute; reflexivity|split; [vm_compute; reflexivity|vm_compute; discriminate]]|];
  split; [apply follow_value_stops, next_starts_follow; vm_compute; reflexivity|];
  eexists; vm_compute; reflexivity.
Ltac leaf_comment body :=
  split; [split; [vm_compute; reflexivity|split; [vm_compute; reflexivity|vm_compute; discriminate]]|];
  split; [|eexists; vm_compute; reflexivity];
  apply (comment_value_stops body); [reflexivity|reflexivity|];
  apply next_unquoted_any; vm_compute; reflexivity.
Ltac gplain tac := apply G_plain; [tac|vm_compute; reflexivity].
Ltac gincl := apply G_incl; [split; reflexivity|vm_compute; reflexivity|vm_compute; reflexivity].
Ltac gscope := apply G_scope; [split; reflexivity|vm_compute; reflexivity|].

Example ex_good : good_table [] ex_tt.
Proof.
  intros key segs H. unfold ex_tt in H. cbn [tlookup] in H.
  destruct (eqs (s_ "/r/a.phil") key); [inversion H; subst; clear H|].
  { apply Forall_cons; [gplain ltac:(leaf_comment (s_ " master"))|].
    apply Forall_cons.
    { gscope. apply Forall_cons.
      { gscope. apply Forall_cons; [gincl|]. apply Forall_cons; [gplain leaf_follow|]. constructor. }
      apply Forall_cons; [gincl|]. constructor. }
    apply Forall_cons; [|constructor].
    gscope. apply Forall_cons; [gincl|]. constructor. }
  destruct (eqs (s_ "/r/sub/b.phil") key); [inversion H; subst; clear H|].
  { apply Forall_cons; [gincl|]. apply Forall_cons; [gplain leaf_follow|]. constructor. }
  destruct (eqs (s_ "/r/c.phil") key); [inversion H; subst; clear H|discriminate H].
  apply Forall_cons; [gplain leaf_follow|]. constructor.
Qed.

Ltac not_in := let H := fresh in intros H; vm_compute in H; repeat (destruct H as [H|H]; [discriminate H|]); exact H.
Ltac ffile := eapply F_file; [vm_compute; reflexivity|not_in|].

Example ex_flat : exists out, FlatF ex_tt ex_cwd [] ex_pa out /\ text_of out = ex_inlined.
Proof.
  eexists. split.
  - ffile. apply F_plain. eapply F_scope.
    { eapply F_scope.
      { eapply F_incl.
        { ffile. eapply F_incl; [ffile; apply F_plain; apply F_nil|]. apply F_plain. apply F_nil. }
        apply F_plain. apply F_nil. }
      eapply F_incl; [ffile; apply F_plain; apply F_nil|]. apply F_nil. }
    apply F_off. apply F_nil.
  - vm_compute. reflexivity.
Qed.

(* the theorem on this table *)
Example ex_includes_text_scopes : exists t l,
  includes_file isc0 (fs_of [] ex_tt) ex_cwd ex_pa = Ok t
  /\ parse [] ex_inlined = Ok l /\ map erase_obj l = map erase_obj t.
Proof.
  destruct ex_flat as (out & HF & Hc). rewrite <- Hc.
  apply (includes_text_scopes_partial [] isc0 ex_tt ex_cwd ex_good ex_pa out HF).
Qed.

(* the same by evaluation, and the shape of the tree: the content of b (with c in front) stands
   inside s.t before y, the content of c after t inside s; the disabled scope keeps its include *)
Fixpoint shape (x:obj) : str :=
  match x with
  | Def h _ a => bang (odis h) ++ oname h ++ (match a with [] => [] | _ => ["'"] end)
  | Scp h ks _ => bang (odis h) ++ oname h ++ "{" :: List.concat (map (fun k => shape k ++ [" "]) ks) ++ ["}"]
  end.
Example ex_includes_text_scopes_computed :
  map erase_obj (ok_list (parse [] ex_inlined))
  = map erase_obj (ok_list (includes_file isc0 (fs_of [] ex_tt) ex_cwd ex_pa))
  /\ map shape (ok_list (includes_file isc0 (fs_of [] ex_tt) ex_cwd ex_pa))
     = [s_ "x"; s_ "s{t{c' p' q{r } y } c' }"; s_ "!off{include }"].
Proof. split; vm_compute; reflexivity. Qed.

(* the small example of the task: one include line between two definitions of a scope *)
Definition ex2_tt : ttab :=
  [(s_ "/r/a.phil", [SScope [] false ["s"] [SPlain (s_ "  x = 1
"); SIncl (s_ "  ") (s_ "b.phil"); SPlain (s_ "  y = 2
")]]);
   (s_ "/r/b.phil", [SPlain (s_ "p = 3
q { r = 4 }
")])].
Example ex2 :
  text_of [SScope [] false ["s"] [SPlain (s_ "  x = 1
"); SIncl (s_ "  ") (s_ "b.phil"); SPlain (s_ "  y = 2
")]] = s_ "s {
  x = 1
  include file b.phil
  y = 2
}
"
  /\ map shape (ok_list (includes_file isc0 (fs_of [] ex2_tt) ex_cwd ex_pa)) = [s_ "s{x p q{r } y }"]
  /\ map erase_obj (ok_list (includes_file isc0 (fs_of [] ex2_tt) ex_cwd ex_pa))
     = map erase_obj (ok_list (parse [] (s_ "s {
  x = 1
p = 3
q { r = 4 }
  y = 2
}
"))).
Proof. repeat split; vm_compute; reflexivity. Qed.

(* the relation of IncludeText.v is the special case without SScope and without indentation; the
   text that was outside it (IncludeText.ex_scope_include_not_covered) is a segment tree here *)
Example ex_scope_include_now_covered :
  stext (SScope [] false ["s"] [SIncl (s_ "  ") (s_ "c.phil")]) = s_ "s {
  include file c.phil
}
"
  /\ good_seg [] (SScope [] false ["s"] [SIncl (s_ "  ") (s_ "c.phil")]).
Proof. split; [vm_compute; reflexivity|]. gscope. apply Forall_cons; [gincl|]. constructor. Qed.

Print Assumptions cobj_app_through.
Print Assumptions scope_parse.
Print Assumptions inlining_scopes_partial.
Print Assumptions includes_text_scopes_partial.
