(* Choice round trips at the level of PyVal, and the leaf facts that plug the per-type theorems into
   the scope-level theorem (definition.format / extract of one typed definition). *)
From Coq Require Import List Ascii String Bool Arith ZArith Lia.
From Phil Require Import Base Tokenizer Tree PyVal ConvText Extract ExtractText ExtractNumLift ExtractChoiceRT ExtractScope ExtractScopeM.
From Phil Require Conv Choice Parser.
Import ListNotations.
Local Open Scope char_scope.

Lemma all_some_strs l : all_some (map str_of_val (map VStr l)) = Some l.
Proof. induction l as [|s l IH]; [reflexivity|]. cbn [map str_of_val all_some]. rewrite IH. reflexivity. Qed.

Section Top.
  Variable pe : str -> option Conv.evr.
  Variable ex : str -> option str.

  Theorem rt_choice opt mw s : wf_alts mw -> In s (anames mw) -> roundtrip pe ex (TyChoice false) opt mw (VStr s).
  Proof.
    intros W I. destruct (choice_roundtrip opt mw s W I) as [ws [A B]]. exists ws. split.
    - cbn [ty_as_words to_choice]. exact A.
    - cbn [ty_from_words]. rewrite B. reflexivity.
  Qed.
  Theorem rt_choice_none opt mw : wf_alts mw -> Choice.mandatory opt = false -> roundtrip pe ex (TyChoice false) opt mw VNone.
  Proof.
    intros W M. destruct (choice_none_roundtrip opt mw W M) as [ws [A B]]. exists ws. split.
    - cbn [ty_as_words to_choice]. exact A.
    - cbn [ty_from_words]. rewrite B. reflexivity.
  Qed.
  Theorem rt_multi_choice opt mw p : wf_alts mw ->
    let l := filter p (anames mw) in
    (l = [] -> Choice.mandatory opt = false) -> roundtrip pe ex (TyChoice true) opt mw (VList (map VStr l)).
  Proof.
    intros W l M. destruct (multi_roundtrip_ordered opt mw p W M) as [ws [A B]]. exists ws. split.
    - cbn [ty_as_words to_choice]. rewrite all_some_strs. cbn [option_map]. exact A.
    - cbn [ty_from_words]. fold l in B. rewrite B. reflexivity.
  Qed.
  (* any selection: the names come back in master order *)
  Theorem rt_multi_choice_any opt mw l : wf_alts mw -> (forall x, In x l -> In x (anames mw)) ->
    let r := filter (fun k => mems k l) (anames mw) in
    (r = [] -> Choice.mandatory opt = false) ->
    exists ws, ty_as_words (TyChoice true) opt mw (VList (map VStr l)) = Ok ws
               /\ ty_from_words pe ex (TyChoice true) opt ws = Ok (VList (map VStr r)).
  Proof.
    intros W S r M. destruct (multi_roundtrip opt mw l W S M) as [ws [A B]]. exists ws. split.
    - cbn [ty_as_words to_choice]. rewrite all_some_strs. cbn [option_map]. exact A.
    - cbn [ty_from_words]. fold r in B. rewrite B. reflexivity.
  Qed.

  Theorem choice_refusals opt mw :
    (forall s, ~ In s (anames mw) -> ty_as_words (TyChoice false) opt mw (VStr s) = UErr (s_ "InvalidChoice") [] 0)
    /\ (Choice.mandatory opt = true -> ty_as_words (TyChoice false) opt mw VNone = UErr (s_ "InvalidChoice") [] 0)
    /\ (forall l x, NoDup (anames mw) -> In x l -> ~ In x (anames mw) ->
          ty_as_words (TyChoice true) opt mw (VList (map VStr l)) = UErr (s_ "InvalidChoice") [] 0).
  Proof.
    repeat split.
    - intros s N. cbn [ty_as_words to_choice]. apply choice_refuses_unknown. exact N.
    - intro M. cbn [ty_as_words to_choice]. apply choice_refuses_none_mandatory. exact M.
    - intros l x N I Nx. cbn [ty_as_words to_choice]. rewrite all_some_strs. cbn [option_map].
      eapply multi_refuses_unknown; eassumption.
  Qed.

  (* ---------- a typed definition as a leaf of the scope theorem *)
  Lemma leaf_of_roundtrip h ws t opt a v :
    get_attr (s_ "type") a = AType t -> get_attr (s_ "optional") a = opt ->
    roundtrip pe ex t opt ws v -> pdom pe ex (Def h ws a) v.
  Proof.
    intros Ty Op [ws' [A B]]. cbn [pdom format_obj]. unfold def_as_words. rewrite Ty, Op, A. cbn [bind].
    eexists. split; [reflexivity|]. cbn [extract_obj]. unfold def_from_words. rewrite Ty, Op. exact B.
  Qed.
  (* a definition without .type behaves as .type = strings *)
  Lemma leaf_untyped h ws a l :
    get_attr (s_ "type") a = ANone -> pdom pe ex (Def h ws a) (VList (map VStr l)).
  Proof.
    intros Ty. destruct (rt_strings pe ex ANone ws l) as [ws' [A B]].
    cbn [pdom format_obj]. unfold def_as_words. rewrite Ty. cbn [ty_as_words] in A. rewrite A. cbn [bind].
    eexists. split; [reflexivity|]. cbn [extract_obj]. unfold def_from_words. rewrite Ty.
    cbn [ty_from_words] in B. exact B.
  Qed.
  Lemma leaf_of_roundtrip_m h ws t opt a v :
    get_attr (s_ "type") a = AType t -> get_attr (s_ "optional") a = opt ->
    roundtrip pe ex t opt ws v -> pdom_m pe ex (Def h ws a) v.
  Proof. exact (leaf_of_roundtrip h ws t opt a v). Qed.
End Top.
