(* C07/C08, list algebra behind the multiple branch of scope.fetch.
   The double loop keeps, per canonical text, the LAST candidate carrying it, in the order of those
   last occurrences ("keep last").  This file: the pure function kl / dd (no model involved),
   its algebra, and the refinement of the (processed_as_str, result_objs) pair of Model/Fetch.v
   to it through a ghost list. *)
From Coq Require Import List Ascii String Bool Arith ZArith Lia.
From Phil Require Import Base Tree Vars Choice Fetch FetchBasics FetchShape.
Import ListNotations.
Local Open Scope char_scope.

Definition pair_t := (str * obj)%type.
Definition pairs := list pair_t.

Definition has_key (t:str) (l:pairs) : bool := existsb (fun p => eqs (fst p) t) l.
Definition rm (t:str) (l:pairs) : pairs := filter (fun p => negb (eqs (fst p) t)) l.
Definition pkeys (l:pairs) : list str := map fst l.

(* one candidate with text t: an earlier entry with the same text is dropped, the new one appended *)
Definition kstep (st:pairs) (p:pair_t) : pairs := rm (fst p) st ++ [p].
Definition kl (st:pairs) (l:pairs) : pairs := fold_left kstep l st.

(* closed form from the empty state: every pair that has no later pair with the same text *)
Fixpoint dd (l:pairs) : pairs :=
  match l with
  | [] => []
  | p :: r => if has_key (fst p) r then dd r else p :: dd r
  end.

Lemma has_key_In : forall t l, has_key t l = true <-> In t (pkeys l).
Proof.
  intros t l. unfold has_key, pkeys. rewrite existsb_exists. split.
  - intros [p [Hp E]]. apply f_eqs_eq in E. subst. apply in_map. exact Hp.
  - intros H. apply in_map_iff in H. destruct H as [p [E Hp]]. exists p. split; [exact Hp|]. subst. apply f_eqs_refl.
Qed.
Lemma has_key_app : forall t a b, has_key t (a ++ b) = has_key t a || has_key t b.
Proof. intros. unfold has_key. apply existsb_app. Qed.

Lemma rm_app : forall t a b, rm t (a ++ b) = rm t a ++ rm t b.
Proof. intros. unfold rm. apply filter_app. Qed.
Lemma rm_none : forall t l, has_key t l = false -> rm t l = l.
Proof.
  intros t l. unfold has_key, rm. induction l as [|p r IH]; intros H; [reflexivity|].
  cbn [existsb] in H. apply orb_false_iff in H. destruct H as [H1 H2]. cbn [filter]. rewrite H1. cbn [negb]. f_equal. apply IH. exact H2.
Qed.
Lemma has_key_rm : forall t u l, has_key t (rm u l) = has_key t l && negb (eqs t u).
Proof.
  intros t u l. unfold has_key, rm. induction l as [|p r IH]; [reflexivity|]. cbn [filter existsb].
  destruct (eqs (fst p) u) eqn:E; cbn [negb existsb].
  - rewrite IH. destruct (eqs (fst p) t) eqn:E2; cbn [orb]; [|reflexivity].
    apply f_eqs_eq in E. apply f_eqs_eq in E2. subst. rewrite f_eqs_refl. cbn. rewrite andb_false_r. reflexivity.
  - rewrite IH. destruct (eqs (fst p) t) eqn:E2; cbn [orb]; [|reflexivity].
    apply f_eqs_eq in E2. subst. rewrite E. reflexivity.
Qed.
Lemma rm_rm_same : forall t l, rm t (rm t l) = rm t l.
Proof. intros. apply rm_none. rewrite has_key_rm, f_eqs_refl. apply andb_false_r. Qed.
Lemma rm_comm : forall t u l, rm t (rm u l) = rm u (rm t l).
Proof.
  intros t u l. unfold rm. induction l as [|p r IH]; [reflexivity|]. cbn [filter].
  destruct (eqs (fst p) u) eqn:E1; destruct (eqs (fst p) t) eqn:E2; cbn [negb filter]; rewrite ?E1, ?E2; cbn [negb]; rewrite IH; reflexivity.
Qed.
Lemma In_rm : forall p t l, In p (rm t l) -> In p l.
Proof. intros p t l H. unfold rm in H. apply filter_In in H. apply H. Qed.

Lemma kl_app : forall st a b, kl st (a ++ b) = kl (kl st a) b.
Proof. intros. unfold kl. apply fold_left_app. Qed.

(* where the elements of the final state come from *)
Lemma In_kl : forall l st p, In p (kl st l) -> In p st \/ In p l.
Proof.
  induction l as [|q r IH]; intros st p H; [left; exact H|].
  cbn in H. apply IH in H. destruct H as [H|H]; [|right; right; exact H].
  unfold kstep in H. apply in_app_or in H. destruct H as [H|[H|[]]].
  - left. eapply In_rm. exact H.
  - right. left. exact H.
Qed.

Lemma NoDup_snoc : forall A (l:list A) x, NoDup l -> ~ In x l -> NoDup (l ++ [x]).
Proof.
  intros A l x H Hx. induction H as [|y l Hy Hl IH]; cbn; [constructor; [intros []|constructor]|].
  constructor.
  - intros Hin. apply in_app_or in Hin. destruct Hin as [Hin|[Hin|[]]]; [exact (Hy Hin)|]. subst. apply Hx. left. reflexivity.
  - apply IH. intros Hin. apply Hx. right. exact Hin.
Qed.

Lemma keys_kstep_nodup : forall st p, NoDup (pkeys st) -> NoDup (pkeys (kstep st p)).
Proof.
  intros st p H. unfold kstep, pkeys. rewrite map_app. cbn.
  assert (Hn : NoDup (map fst (rm (fst p) st))).
  { clear -H. induction st as [|q r IH]; [constructor|]. cbn in *. inversion H as [|x l Hx Hl]; subst.
    destruct (eqs (fst q) (fst p)); cbn; [apply IH; exact Hl|].
    constructor; [|apply IH; exact Hl]. intros Hin. apply Hx.
    apply in_map_iff in Hin. destruct Hin as [y [E Hy]]. apply In_rm in Hy. rewrite <- E. apply in_map. exact Hy. }
  apply NoDup_snoc; [exact Hn|].
  intros Hin. apply has_key_In in Hin. rewrite has_key_rm, f_eqs_refl in Hin. rewrite andb_false_r in Hin. discriminate.
Qed.

(* ------------------------------------------------------------------ the closed form *)
Lemma dd_snoc : forall a p, dd (a ++ [p]) = rm (fst p) (dd a) ++ [p].
Proof.
  induction a as [|q a IH]; intros p.
  - reflexivity.
  - cbn [app dd]. rewrite has_key_app. cbn [has_key existsb]. rewrite orb_false_r.
    destruct (has_key (fst q) a) eqn:Ea; cbn [orb].
    + apply IH.
    + unfold rm at 1. cbn [filter]. fold (rm (fst p) (dd a)).
      rewrite (f_eqs_sym (fst q) (fst p)).
      destruct (eqs (fst p) (fst q)); cbn [negb]; rewrite IH; reflexivity.
Qed.

Lemma kl_dd_gen : forall l a, kl (dd a) l = dd (a ++ l).
Proof.
  induction l as [|p r IH]; intros a.
  - rewrite app_nil_r. reflexivity.
  - cbn [kl fold_left]. change (fold_left kstep r (kstep (dd a) p)) with (kl (kstep (dd a) p) r).
    unfold kstep. rewrite <- dd_snoc. rewrite IH. rewrite <- app_assoc. reflexivity.
Qed.
Lemma kl_dd : forall l, kl [] l = dd l.
Proof. intros l. apply (kl_dd_gen l []). Qed.

Lemma has_key_dd : forall t l, has_key t (dd l) = has_key t l.
Proof.
  intros t l. induction l as [|q r IH]; [reflexivity|]. cbn [dd].
  destruct (has_key (fst q) r) eqn:E.
  - rewrite IH. cbn [has_key existsb]. destruct (eqs (fst q) t) eqn:E2; [|reflexivity].
    apply f_eqs_eq in E2. subst. cbn. exact E.
  - cbn [has_key existsb]. fold (has_key t (dd r)). fold (has_key t r). rewrite IH. reflexivity.
Qed.

Lemma dd_nodup : forall l, NoDup (pkeys (dd l)).
Proof.
  induction l as [|q r IH]; [constructor|]. cbn [dd]. destruct (has_key (fst q) r) eqn:E; [exact IH|].
  cbn. constructor; [|exact IH]. intros H. apply has_key_In in H. rewrite has_key_dd in H. congruence.
Qed.
Lemma dd_id : forall l, NoDup (pkeys l) -> dd l = l.
Proof.
  induction l as [|q r IH]; intros H; [reflexivity|]. cbn in H. inversion H as [|x l' Hx Hl]; subst.
  cbn [dd]. destruct (has_key (fst q) r) eqn:E; [apply has_key_In in E; contradiction|]. f_equal. apply IH. exact Hl.
Qed.
Lemma dd_dd : forall l, dd (dd l) = dd l.
Proof. intros. apply dd_id. apply dd_nodup. Qed.

Lemma dd_app : forall a b,
  dd (a ++ b) = filter (fun p => negb (has_key (fst p) b)) (dd a) ++ dd b.
Proof.
  induction a as [|q a IH]; intros b; [reflexivity|].
  cbn [app dd]. rewrite has_key_app. destruct (has_key (fst q) a) eqn:Ea; cbn [orb]; [apply IH|].
  destruct (has_key (fst q) b) eqn:Eb; cbn [filter]; rewrite Eb; cbn [negb]; rewrite IH; reflexivity.
Qed.

Lemma filter_none : forall A (f:A -> bool) l, (forall x, In x l -> f x = false) -> filter f l = [].
Proof.
  intros A f l. induction l as [|x r IH]; intros H; [reflexivity|]. cbn. rewrite (H x (or_introl eq_refl)).
  apply IH. intros y Hy. apply H. right. exact Hy.
Qed.

Lemma In_dd : forall p l, In p (dd l) -> In p l.
Proof.
  intros p l. induction l as [|q r IH]; intros H; [exact H|]. cbn [dd] in H.
  destruct (has_key (fst q) r); [right; apply IH; exact H|].
  destruct H as [H|H]; [left; exact H|right; apply IH; exact H].
Qed.

(* the earlier part is overridden by a later part that carries all its texts *)
Lemma dd_absorb : forall a b, (forall p, In p a -> has_key (fst p) b = true) -> dd (a ++ b) = dd b.
Proof.
  intros a b H. rewrite dd_app. rewrite filter_none; [reflexivity|].
  intros p Hp. apply In_dd in Hp. rewrite (H p Hp). reflexivity.
Qed.

(* a complete copy of the earlier candidates changes nothing *)
Lemma dd_copy : forall s x, dd (s ++ s ++ x) = dd (s ++ x).
Proof.
  intros s x. apply dd_absorb. intros p Hp. rewrite has_key_app.
  assert (has_key (fst p) s = true); [|rewrite H; reflexivity].
  apply has_key_In. apply in_map. exact Hp.
Qed.
(* feeding the kept candidates back changes nothing *)
Lemma dd_refetch : forall s x, dd (s ++ dd (s ++ x)) = dd (s ++ x).
Proof.
  intros s x. rewrite dd_absorb; [apply dd_dd|].
  intros p Hp. rewrite has_key_dd, has_key_app.
  assert (has_key (fst p) s = true); [|rewrite H; reflexivity].
  apply has_key_In. apply in_map. exact Hp.
Qed.

(* ------------------------------------------------------------------ the ghost list *)
(* result_objs with the text of every slot; processed_as_str maps a text to the index of its slot *)
Definition gl := list (option pair_t).
Fixpoint somesP (g:gl) : pairs :=
  match g with [] => [] | Some p :: r => p :: somesP r | None :: r => somesP r end.
Fixpoint set_noneP (i:nat) (g:gl) : gl :=
  match g, i with
  | [], _ => []
  | _ :: r, 0 => None :: r
  | x :: r, S j => x :: set_noneP j r
  end.
Fixpoint find_idx (t:str) (g:gl) : option nat :=
  match g with
  | [] => None
  | Some p :: r => if eqs (fst p) t then Some 0 else option_map S (find_idx t r)
  | None :: r => option_map S (find_idx t r)
  end.
Definition objs_of (g:gl) : list (option obj) := map (option_map snd) g.

Lemma somesP_app : forall a b, somesP (a ++ b) = somesP a ++ somesP b.
Proof. induction a as [|[p|] a IH]; intros b; cbn; [reflexivity|rewrite IH; reflexivity|apply IH]. Qed.
Lemma somes_objs_of : forall g, somes (objs_of g) = map snd (somesP g).
Proof. induction g as [|[p|] g IH]; cbn; [reflexivity|rewrite <- IH; reflexivity|exact IH]. Qed.
Lemma set_none_objs_of : forall g i, set_none i (objs_of g) = objs_of (set_noneP i g).
Proof. induction g as [|x g IH]; intros [|i]; cbn; try reflexivity. f_equal. apply IH. Qed.
Lemma set_noneP_length : forall g i, length (set_noneP i g) = length g.
Proof. induction g as [|x g IH]; intros [|i]; cbn; try reflexivity. f_equal. apply IH. Qed.
Lemma objs_of_length : forall g, length (objs_of g) = length g.
Proof. intros. unfold objs_of. apply map_length. Qed.

Lemma find_idx_none : forall t g, find_idx t g = None <-> has_key t (somesP g) = false.
Proof.
  intros t g. induction g as [|[p|] g IH]; cbn [find_idx somesP].
  - split; reflexivity.
  - cbn [has_key existsb]. fold (has_key t (somesP g)). destruct (eqs (fst p) t); cbn [orb].
    + split; discriminate.
    + rewrite <- IH. destruct (find_idx t g); cbn; split; congruence.
  - rewrite <- IH. destruct (find_idx t g); cbn; split; congruence.
Qed.

Lemma find_idx_app : forall t a p,
  find_idx t (a ++ [Some p]) =
  match find_idx t a with Some i => Some i | None => if eqs (fst p) t then Some (length a) else None end.
Proof.
  intros t a p. induction a as [|[q|] a IH]; cbn [app find_idx length].
  - destruct (eqs (fst p) t); reflexivity.
  - destruct (eqs (fst q) t); [reflexivity|]. rewrite IH. destruct (find_idx t a); cbn; [reflexivity|].
    destruct (eqs (fst p) t); reflexivity.
  - rewrite IH. destruct (find_idx t a); cbn; [reflexivity|]. destruct (eqs (fst p) t); reflexivity.
Qed.

Lemma find_idx_lt : forall t g i, find_idx t g = Some i -> i < length g.
Proof.
  intros t g. induction g as [|[p|] g IH]; intros i H; cbn in *; [discriminate| |].
  - destruct (eqs (fst p) t); [injection H as E; subst; lia|].
    destruct (find_idx t g) as [j|]; cbn in H; [|discriminate]. injection H as E. subst. specialize (IH j eq_refl). lia.
  - destruct (find_idx t g) as [j|]; cbn in H; [|discriminate]. injection H as E. subst. specialize (IH j eq_refl). lia.
Qed.

(* emptying the slot of text t: t disappears, every other text keeps its index *)
Lemma set_noneP_spec : forall t g i, NoDup (pkeys (somesP g)) -> find_idx t g = Some i ->
  somesP (set_noneP i g) = rm t (somesP g) /\
  forall key, find_idx key (set_noneP i g) = if eqs t key then None else find_idx key g.
Proof.
  intros t g. induction g as [|[p|] g IH]; intros i Hn H; cbn [find_idx] in H; [discriminate| |].
  - cbn [somesP pkeys map] in Hn. inversion Hn as [|x l Hx Hl]; subst.
    destruct (eqs (fst p) t) eqn:E.
    + injection H as Ei. subst i. apply f_eqs_eq in E. subst t. cbn [set_noneP somesP].
      assert (Hk : has_key (fst p) (somesP g) = false).
      { destruct (has_key (fst p) (somesP g)) eqn:E; [|reflexivity]. apply has_key_In in E. contradiction. }
      split.
      * unfold rm. cbn [filter]. rewrite f_eqs_refl. cbn [negb]. symmetry. apply rm_none. exact Hk.
      * intros key. cbn [find_idx]. destruct (eqs (fst p) key) eqn:E2; [|reflexivity].
        apply f_eqs_eq in E2. subst key. apply find_idx_none in Hk. rewrite Hk. reflexivity.
    + destruct (find_idx t g) as [j|] eqn:Ej; cbn in H; [|discriminate]. injection H as Ei. subst i.
      destruct (IH j Hl eq_refl) as [A B]. cbn [set_noneP somesP]. split.
      * unfold rm. cbn [filter]. rewrite E. cbn [negb]. f_equal. exact A.
      * intros key. cbn [find_idx]. rewrite B. destruct (eqs (fst p) key) eqn:E2.
        -- destruct (eqs t key) eqn:E3; [|reflexivity]. apply f_eqs_eq in E2. apply f_eqs_eq in E3. subst.
           rewrite f_eqs_refl in E. discriminate.
        -- destruct (eqs t key); reflexivity.
  - destruct (find_idx t g) as [j|] eqn:Ej; cbn in H; [|discriminate]. injection H as Ei. subst i.
    destruct (IH j Hn eq_refl) as [A B]. cbn [set_noneP somesP]. split; [exact A|].
    intros key. cbn [find_idx]. rewrite B. destruct (eqs t key); reflexivity.
Qed.

(* the refinement relation *)
Record grel (pd:pdict) (robjs:list (option obj)) (g:gl) : Prop := {
  gr_objs : robjs = objs_of g;
  gr_nodup : NoDup (pkeys (somesP g));
  gr_idx : forall key, pget key pd = option_map Some (find_idx key g) }.

Lemma grel_nil : grel [] [] [].
Proof. constructor; [reflexivity|constructor|reflexivity]. Qed.

(* the state update of the double loop for a candidate that is kept (diff = false) *)
Definition pstep (st:pdict * list (option obj)) (x:option pair_t) : pdict * list (option obj) :=
  match x with
  | None => st
  | Some (cs, c) =>
      let '(pd, robjs) := st in
      match pget cs pd with
      | Some None => (pd, robjs)
      | prev =>
          let robjs1 := match prev with Some (Some i) => set_none i robjs | _ => robjs end in
          (pset cs (Some (length robjs1)) pd, robjs1 ++ [Some c])
      end
  end.

Lemma pget_pset : forall k k' v d, pget k' (pset k v d) = if eqs k k' then Some v else pget k' d.
Proof.
  intros k k' v d. destruct (eqs k k') eqn:E.
  - apply f_eqs_eq in E. subst. apply pget_pset_same.
  - apply pget_pset_other. intros Heq. subst. rewrite f_eqs_refl in E. discriminate.
Qed.

Lemma pstep_grel : forall pd robjs g x, grel pd robjs g ->
  exists g', grel (fst (pstep (pd, robjs) x)) (snd (pstep (pd, robjs) x)) g' /\
             somesP g' = match x with None => somesP g | Some p => kstep (somesP g) p end.
Proof.
  intros pd robjs g x [Ho Hn Hi]. destruct x as [[cs c]|]; [|exists g; split; [constructor; assumption|reflexivity]].
  cbn [pstep]. rewrite (Hi cs). destruct (find_idx cs g) as [i|] eqn:Ef; cbn [option_map].
  - destruct (set_noneP_spec cs g i Hn Ef) as [A B].
    exists (set_noneP i g ++ [Some (cs, c)]). cbn [fst snd]. split.
    + constructor.
      * subst robjs. rewrite set_none_objs_of. unfold objs_of. rewrite map_app. reflexivity.
      * rewrite somesP_app, A. cbn [somesP]. apply (keys_kstep_nodup (somesP g) (cs, c)). exact Hn.
      * intros key. rewrite pget_pset. rewrite find_idx_app. rewrite B. cbn [fst].
        subst robjs. rewrite set_none_objs_of, objs_of_length.
        destruct (eqs cs key) eqn:E; [reflexivity|]. rewrite Hi. destruct (find_idx key g); reflexivity.
    + rewrite somesP_app, A. reflexivity.
  - exists (g ++ [Some (cs, c)]). cbn [fst snd]. split.
    + constructor.
      * subst robjs. unfold objs_of. rewrite map_app. reflexivity.
      * rewrite somesP_app. cbn [somesP]. pose proof (keys_kstep_nodup (somesP g) (cs, c) Hn) as K.
        unfold kstep in K. cbn [fst] in K. rewrite rm_none in K; [exact K|]. apply find_idx_none. exact Ef.
      * intros key. rewrite pget_pset. rewrite find_idx_app. cbn [fst]. subst robjs. rewrite objs_of_length.
        rewrite Hi. destruct (find_idx key g) as [j|] eqn:Ej; cbn [option_map].
        -- destruct (eqs cs key) eqn:E; [|reflexivity]. apply f_eqs_eq in E. subst. congruence.
        -- destruct (eqs cs key); reflexivity.
    + rewrite somesP_app. cbn [somesP]. unfold kstep. cbn [fst]. rewrite rm_none; [reflexivity|].
      apply find_idx_none. exact Ef.
Qed.

Lemma fold_pstep_grel : forall el pd robjs g, grel pd robjs g ->
  exists g', grel (fst (fold_left pstep el (pd, robjs))) (snd (fold_left pstep el (pd, robjs))) g' /\
             somesP g' = kl (somesP g) (somesP el).
Proof.
  induction el as [|x el IH]; intros pd robjs g H.
  - exists g. split; [exact H|reflexivity].
  - cbn [fold_left]. destruct (pstep_grel pd robjs g x H) as [g1 [H1 E1]].
    destruct (pstep (pd, robjs) x) as [pd1 robjs1] eqn:Ep. cbn [fst snd] in H1.
    destruct (IH pd1 robjs1 g1 H1) as [g2 [H2 E2]]. exists g2. split; [exact H2|].
    rewrite E2, E1. destruct x as [p|]; reflexivity.
Qed.

(* the processed_as_str table is empty exactly when nothing was kept *)
Lemma grel_pd_nil : forall pd robjs g, grel pd robjs g -> (pd = [] <-> somesP g = []).
Proof.
  intros pd robjs g [Ho Hn Hi]. split; intros H.
  - subst pd. destruct (somesP g) as [|p r] eqn:E; [reflexivity|].
    assert (Hk : has_key (fst p) (somesP g) = true) by (rewrite E; cbn; rewrite f_eqs_refl; reflexivity).
    destruct (find_idx (fst p) g) eqn:Ef; [|apply find_idx_none in Ef; congruence].
    specialize (Hi (fst p)). rewrite Ef in Hi. discriminate.
  - destruct pd as [|[k v] pd]; [reflexivity|]. specialize (Hi k). cbn in Hi. rewrite f_eqs_refl in Hi.
    destruct (find_idx k g) eqn:Ef; [|discriminate].
    assert (has_key k (somesP g) = true).
    { destruct (has_key k (somesP g)) eqn:E; [reflexivity|]. apply find_idx_none in E. congruence. }
    rewrite H in H0. discriminate.
Qed.
