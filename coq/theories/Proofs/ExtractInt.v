(* "%d" % z read back by int(): py_int_of_str (str_of_Z z) = Some z for every integer below
   CPython's 4300-digit limit, and the text facts (no blank, no separator, no bracket, not a keyword)
   that the list converters need. *)
From Coq Require Import List Ascii String Bool Arith ZArith Lia.
From Phil Require Import Base Conv.
Import ListNotations.
Local Open Scope char_scope.
Local Open Scope Z_scope.

(* ---------- digits, least significant first *)
Fixpoint ldigits (fuel:nat) (z:Z) : list Z :=
  match fuel with
  | O => []
  | S f => if z <? 10 then [z] else (z mod 10) :: ldigits f (z / 10)
  end.

Lemma pos_digits_spec : forall fuel z acc,
  pos_digits fuel z acc = map digit_char (rev (ldigits fuel z)) ++ acc.
Proof.
  induction fuel as [|f IH]; intros z acc; cbn [pos_digits ldigits]; [reflexivity|].
  destruct (z <? 10); [reflexivity|].
  rewrite IH. cbn [rev]. rewrite map_app, <- app_assoc. reflexivity.
Qed.

Lemma ldigits_value : forall fuel z, 0 <= z < 10 ^ Z.of_nat fuel -> digits_value (ldigits fuel z) = z.
Proof.
  induction fuel as [|f IH]; intros z H.
  - cbn in *. lia.
  - cbn [ldigits]. destruct (Z.ltb_spec z 10); cbn [digits_value]; [lia|].
    rewrite IH.
    + pose proof (Z.div_mod z 10). lia.
    + rewrite Nat2Z.inj_succ, Z.pow_succ_r in H by lia.
      split; [apply Z.div_pos; lia|]. apply Z.div_lt_upper_bound; lia.
Qed.

Definition isdigit (d:Z) : Prop := 0 <= d <= 9.
Lemma ldigits_digits : forall fuel z, 0 <= z -> Forall isdigit (ldigits fuel z).
Proof.
  induction fuel as [|f IH]; intros z H; cbn [ldigits]; [constructor|].
  destruct (Z.ltb_spec z 10).
  - constructor; [unfold isdigit; lia|constructor].
  - constructor; [unfold isdigit; pose proof (Z.mod_pos_bound z 10); lia|].
    apply IH. apply Z.div_pos; lia.
Qed.

Lemma ldigits_nonempty : forall fuel z, ldigits (S fuel) z <> [].
Proof. intros. cbn [ldigits]. destruct (z <? 10); discriminate. Qed.

Lemma ldigits_length : forall fuel z k, 0 <= z < 10 ^ Z.of_nat (S k) -> (length (ldigits fuel z) <= S k)%nat.
Proof.
  induction fuel as [|f IH]; intros z k H; cbn [ldigits]; [cbn; lia|].
  destruct (Z.ltb_spec z 10); [cbn; lia|].
  cbn [length]. destruct k as [|k].
  - cbn in H. lia.
  - apply le_n_S. apply IH.
    rewrite Nat2Z.inj_succ, Z.pow_succ_r in H by lia.
    split; [apply Z.div_pos; lia|]. apply Z.div_lt_upper_bound; lia.
Qed.

Lemma fuel_enough : forall z, 0 <= z -> z < 10 ^ Z.of_nat (S (Z.to_nat (Z.log2 z))).
Proof.
  intros z H. rewrite Nat2Z.inj_succ, Z2Nat.id by apply Z.log2_nonneg.
  destruct (Z.eq_dec z 0) as [->|N]; [cbn; lia|].
  pose proof (Z.log2_spec z ltac:(lia)) as [_ U].
  eapply Z.lt_le_trans; [exact U|].
  apply Z.pow_le_mono_l. lia.
Qed.

(* ---------- characters *)
Lemma isdigit_cases d : isdigit d -> d = 0 \/ d = 1 \/ d = 2 \/ d = 3 \/ d = 4 \/ d = 5 \/ d = 6 \/ d = 7 \/ d = 8 \/ d = 9.
Proof. unfold isdigit. lia. Qed.
Ltac digit_cases H :=
  apply isdigit_cases in H;
  repeat (destruct H as [H|H]; [subst; vm_compute; try reflexivity; auto|]); subst; vm_compute; try reflexivity; auto.

Lemma digit_of_char d : isdigit d -> digit_of (digit_char d) = Some d.
Proof. intro H. digit_cases H. Qed.

(* the characters of the texts the numeric converters write: digits, the minus sign, None, Auto *)
Definition okc (c:ascii) : bool :=
  negb (isspace c) && negb (Ascii.eqb c ",") && negb (Ascii.eqb c ";") && negb (Ascii.eqb c "(")
  && negb (Ascii.eqb c "[") && negb (int_space c) && Ascii.eqb (lower c) c || Ascii.eqb c "N" || Ascii.eqb c "A".
Definition numc (c:ascii) : bool := mem c (s_ "-0123456789").

Lemma digit_char_numc d : isdigit d -> numc (digit_char d) = true.
Proof. intro H. digit_cases H. Qed.

Lemma numc_cases c : numc c = true ->
  c = "-" \/ c = "0" \/ c = "1" \/ c = "2" \/ c = "3" \/ c = "4" \/ c = "5" \/ c = "6" \/ c = "7" \/ c = "8" \/ c = "9".
Proof.
  unfold numc, s_. cbn [String.list_ascii_of_string mem]. intro H.
  repeat (apply orb_true_iff in H; destruct H as [H|H]; [apply Ascii.eqb_eq in H; auto 12|]).
  discriminate.
Qed.
Ltac numc_cases H :=
  apply numc_cases in H;
  repeat (destruct H as [H|H]; [subst; vm_compute; try reflexivity; auto|]); subst; vm_compute; try reflexivity; auto.

Lemma numc_nospace c : numc c = true -> isspace c = false.      Proof. intro H. numc_cases H. Qed.
Lemma numc_nointspace c : numc c = true -> int_space c = false. Proof. intro H. numc_cases H. Qed.
Lemma numc_lower c : numc c = true -> lower c = c.               Proof. intro H. numc_cases H. Qed.
Lemma numc_sepfix c : numc c = true -> sepfix c = c.             Proof. intro H. numc_cases H. Qed.

(* ---------- the text of an integer *)
Definition digits_text (l:list Z) : str := map digit_char (rev l).

Lemma str_of_Z_nonneg z : 0 <= z -> str_of_Z z = digits_text (ldigits (S (Z.to_nat (Z.log2 z))) z).
Proof.
  intro H. unfold str_of_Z. destruct (Z.ltb_spec z 0); [lia|].
  rewrite pos_digits_spec, app_nil_r. reflexivity.
Qed.
Lemma str_of_Z_neg z : z < 0 -> str_of_Z z = "-" :: digits_text (ldigits (S (Z.to_nat (Z.log2 (- z)))) (- z)).
Proof.
  intro H. unfold str_of_Z. destruct (Z.ltb_spec z 0); [|lia].
  rewrite pos_digits_spec, app_nil_r. reflexivity.
Qed.

Lemma digits_text_numc l : Forall isdigit l -> Forall (fun c => numc c = true) (digits_text l).
Proof.
  intro H. unfold digits_text. apply Forall_forall. intros c Hc. apply in_map_iff in Hc.
  destruct Hc as [d [<- Hd]]. apply digit_char_numc. rewrite Forall_forall in H. apply H. apply in_rev. exact Hd.
Qed.

Lemma str_of_Z_numc z : Forall (fun c => numc c = true) (str_of_Z z).
Proof.
  destruct (Z.ltb_spec z 0).
  - rewrite str_of_Z_neg by assumption. constructor; [reflexivity|].
    apply digits_text_numc, ldigits_digits. lia.
  - rewrite str_of_Z_nonneg by assumption. apply digits_text_numc, ldigits_digits. assumption.
Qed.
Lemma str_of_Z_nonempty z : str_of_Z z <> [].
Proof.
  destruct (Z.ltb_spec z 0).
  - rewrite str_of_Z_neg by assumption. discriminate.
  - rewrite str_of_Z_nonneg by assumption. unfold digits_text.
    intro E. apply map_eq_nil in E. apply (f_equal (@rev Z)) in E. rewrite rev_involutive in E.
    exact (ldigits_nonempty _ _ E).
Qed.

(* ---------- int_scan over a run of digits *)
Lemma int_scan_digits : forall ds rest acc, Forall isdigit ds ->
  int_scan (map digit_char ds ++ rest) acc false = int_scan rest (rev ds ++ acc) false.
Proof.
  induction ds as [|d ds IH]; intros rest acc H; [reflexivity|].
  inversion H as [|? ? Hd Hds]; subst. cbn [map app int_scan].
  rewrite digit_of_char by assumption. rewrite IH by assumption.
  cbn [rev]. rewrite <- app_assoc. reflexivity.
Qed.

Lemma skip_int_space_numc s : (forall c r, s = c :: r -> numc c = true) -> skip_int_space s = s.
Proof.
  destruct s as [|c r]; [reflexivity|]. intro H. cbn [skip_int_space].
  rewrite (numc_nointspace c (H c r eq_refl)). reflexivity.
Qed.

Definition B4300 : Z := 10 ^ 4300.

Lemma parse_digits : forall l, l <> [] -> Forall isdigit l -> (length l <= 4300)%nat ->
  forall neg:bool, (let s2 := digits_text l in
   match s2 with
   | c :: _ =>
       match digit_of c with
       | None => None
       | Some _ =>
           match int_scan s2 [] false with
           | Some (ds, rest) =>
               match skip_int_space rest with
               | [] => if (4300 <? Z.of_nat (length ds))%Z then None
                       else let v := digits_value ds in Some (if neg then (- v)%Z else v)
               | _ => None
               end
           | None => None
           end
       end
   | [] => None
   end) = Some (if neg then - digits_value l else digits_value l).
Proof.
  intros l Hne Hd Hlen neg. cbv zeta.
  assert (Hr : Forall isdigit (rev l)) by (apply Forall_rev; exact Hd).
  unfold digits_text.
  destruct (rev l) as [|d t] eqn:E.
  - apply (f_equal (@rev Z)) in E. rewrite rev_involutive in E. contradiction.
  - cbn [map]. inversion Hr as [|? ? Hd0 Ht]; subst.
    rewrite digit_of_char by assumption.
    change (digit_char d :: map digit_char t) with (map digit_char (d :: t)).
    rewrite <- (app_nil_r (map digit_char (d :: t))).
    rewrite int_scan_digits by (constructor; assumption).
    cbn [int_scan skip_int_space]. rewrite app_nil_r, <- E, rev_involutive.
    destruct (Z.ltb_spec 4300 (Z.of_nat (length l))); [lia|]. reflexivity.
Qed.

Lemma head_numc_not_sign_digit l : l <> [] -> Forall isdigit l ->
  exists d t, digits_text l = digit_char d :: t /\ isdigit d.
Proof.
  intros Hne Hd. unfold digits_text.
  assert (Hr : Forall isdigit (rev l)) by (apply Forall_rev; exact Hd).
  destruct (rev l) as [|d t] eqn:E.
  - apply (f_equal (@rev Z)) in E. rewrite rev_involutive in E. contradiction.
  - inversion Hr; subst. exists d, (map digit_char t). split; [reflexivity|assumption].
Qed.

Lemma digit_char_not_sign d : isdigit d ->
  Ascii.eqb (digit_char d) "-" = false /\ Ascii.eqb (digit_char d) "+" = false /\ int_space (digit_char d) = false.
Proof. intro H. digit_cases H. Qed.

(* the bound is kept symbolic (10 ^ S k) so that no tactic ever computes the 4300-digit number *)
Lemma int_of_str_of_Z_k : forall k z, (S k <= 4300)%nat -> Z.abs z < 10 ^ Z.of_nat (S k) -> py_int_of_str (str_of_Z z) = Some z.
Proof.
  intros k z Hk Hb.
  destruct (Z.ltb_spec z 0) as [Hneg|Hpos].
  - rewrite str_of_Z_neg by assumption.
    set (l := ldigits (S (Z.to_nat (Z.log2 (- z)))) (- z)).
    assert (Hne : l <> []) by apply ldigits_nonempty.
    assert (Hd : Forall isdigit l) by (apply ldigits_digits; lia).
    assert (Hlen : (length l <= 4300)%nat).
    { eapply Nat.le_trans; [|exact Hk]. apply ldigits_length. rewrite Z.abs_neq in Hb by lia. split; [lia|exact Hb]. }
    assert (Hv : digits_value l = - z) by (apply ldigits_value; split; [lia|apply fuel_enough; lia]).
    unfold py_int_of_str. cbn [skip_int_space]. change (int_space "-") with false. cbv iota.
    change (Ascii.eqb "-" "-") with true. cbv iota.
    pose proof (parse_digits l Hne Hd Hlen true) as P. cbv zeta in P. rewrite P. rewrite Hv. f_equal. lia.
  - rewrite str_of_Z_nonneg by assumption.
    set (l := ldigits (S (Z.to_nat (Z.log2 z))) z).
    assert (Hne : l <> []) by apply ldigits_nonempty.
    assert (Hd : Forall isdigit l) by (apply ldigits_digits; lia).
    assert (Hlen : (length l <= 4300)%nat).
    { eapply Nat.le_trans; [|exact Hk]. apply ldigits_length. rewrite Z.abs_eq in Hb by lia. split; [lia|exact Hb]. }
    assert (Hv : digits_value l = z) by (apply ldigits_value; split; [lia|apply fuel_enough; lia]).
    destruct (head_numc_not_sign_digit l Hne Hd) as [d [t [E Hd0]]].
    destruct (digit_char_not_sign d Hd0) as [N1 [N2 N3]].
    pose proof (parse_digits l Hne Hd Hlen false) as P. cbv zeta in P. rewrite E in P. cbv beta iota in P.
    unfold py_int_of_str. rewrite E. cbn [skip_int_space]. rewrite N3, N1, N2.
    rewrite P. rewrite Hv. reflexivity.
Qed.

Theorem int_of_str_of_Z : forall z, Z.abs z < B4300 -> py_int_of_str (str_of_Z z) = Some z.
Proof. intros z H. exact (int_of_str_of_Z_k 4299 z (le_n 4300) H). Qed.

(* ---------- "%d" % z *)
(* 2^14000 <= 10^4300 without computing either number: 2^140 <= 10^43, both sides to the 100th power *)
Lemma pow2_le_pow10 : 2 ^ 14000 <= B4300.
Proof.
  unfold B4300. change 14000 with (140 * 100). change 4300 with (43 * 100).
  rewrite !Z.pow_mul_r by lia. apply Z.pow_le_mono_l. split; [apply Z.pow_nonneg; lia|].
  apply Z.leb_le. vm_compute. reflexivity.
Qed.

(* the integers the correspondence stream generates (up to 10^40) lie far inside the domain *)
Lemma small_lt_B4300 z : Z.abs z < 10 ^ 40 -> Z.abs z < B4300.
Proof.
  intro H. eapply Z.lt_le_trans; [exact H|]. unfold B4300. apply Z.pow_le_mono_r; lia.
Qed.

Lemma not_too_many z : too_many_digits z = false -> Z.abs z < B4300.
Proof.
  unfold too_many_digits. intro H.
  destruct (Z.ltb_spec (Z.log2 (Z.abs z)) 14000) as [L|L].
  - destruct (Z.eq_dec (Z.abs z) 0) as [E|N].
    + rewrite E. unfold B4300. apply Z.pow_pos_nonneg; lia.
    + pose proof (Z.log2_spec (Z.abs z) ltac:(lia)) as [_ U].
      eapply Z.lt_le_trans; [exact U|]. eapply Z.le_trans; [|exact pow2_le_pow10].
      apply Z.pow_le_mono_r; lia.
  - apply Z.leb_gt in H. exact H.
Qed.
Lemma small_not_too_many z : Z.abs z < B4300 -> too_many_digits z = false.
Proof.
  unfold too_many_digits. intro H.
  destruct (Z.log2 (Z.abs z) <? 14000); [reflexivity|]. apply Z.leb_gt. exact H.
Qed.

(* "%d" % z is the decimal text exactly when z is below the digit limit (beyond it the converter writes hex(z)) *)
Theorem fmt_d_int_roundtrip : forall z s, Z.abs z < B4300 -> fmt_d (NInt z) = Ok s -> s = str_of_Z z /\ py_int_of_str s = Some z.
Proof.
  intros z s Hz H. cbn [fmt_d] in H. rewrite (small_not_too_many z Hz) in H. inversion H; subst.
  split; [reflexivity|]. apply int_of_str_of_Z, Hz.
Qed.
