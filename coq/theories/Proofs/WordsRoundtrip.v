(* C01, value words: the words of a definition's value survive printer -> parser.
   Stage 1: an unquoted, lexically safe word is read back as one token (value and structure context).
   Stage 2: collect_assigned_words (caw) on one printed line reads back exactly the words.
   Stage 3: the same for the text produced by show_words at every width (continuation backslash).
   Stage 4: one definition "name = words" through collect_objects / parse. *)
From Coq Require Import List Ascii String Bool Arith ZArith Lia.
From Phil Require Import Base Tokenizer Tree Parser Show QuoteProofs LexProofs.
Import ListNotations.
Local Open Scope char_scope.

(* ====================================================================== *)
(* Stage 1: unquoted words, any settings record whose contiguous set is "any" *)

Definition plainc (σ:settings) (c:ascii) : bool := negb (isspace c) && negb (mem c (single σ)).
Definition tailok (σ:settings) (tl:str) : bool :=
  match tl with [] => true | c :: _ => isspace c || mem c (single σ) end.

Lemma take_plain : forall σ u tl,
  contig σ = [] -> forallb (plainc σ) u = true -> tailok σ tl = true -> take σ (u ++ tl) = (u, tl).
Proof.
  intros σ u tl Hc; induction u as [|c u IH]; intros Hu Ht.
  - cbn [app]. destruct tl as [|c t]; [reflexivity|].
    cbn [tailok] in Ht. cbn [take].
    destruct (isspace c); [reflexivity|]. cbn [orb] in Ht. rewrite Ht. reflexivity.
  - cbn [forallb] in Hu. apply andb_prop in Hu as [Hp Hu]. unfold plainc in Hp.
    apply andb_prop in Hp as [H1 H2]. apply negb_true_iff in H1, H2.
    cbn [app take]. rewrite H1, H2.
    unfold contig_any. rewrite Hc. cbn [negb andb].
    rewrite (IH Hu Ht). reflexivity.
Qed.

Theorem nw_plain : forall σ c u tl line,
  contig σ = [] -> forallb (plainc σ) (c :: u) = true ->
  mem c (comment σ) = false -> Ascii.eqb c dq = false -> Ascii.eqb c sq = false ->
  tailok σ tl = true ->
  nw σ false ((c :: u) ++ tl) line = TWord (mkword (c :: u) QN line) tl line.
Proof.
  intros σ c u tl line Hc Hu Hcm Hd Hs Ht.
  cbn [forallb] in Hu. apply andb_prop in Hu as [Hp Hu]. unfold plainc in Hp.
  apply andb_prop in Hp as [H1 H2]. apply negb_true_iff in H1, H2.
  cbn [app nw]. rewrite H1, Hcm, Hd, Hs, H2. cbn [andb orb negb].
  unfold contig_any. rewrite Hc. rewrite (take_plain σ u tl Hc Hu Ht).
  rewrite (bump_not_nl _ _ (not_space_not_nl _ H1)). reflexivity.
Qed.

(* value context *)
Definition vsingle : str := ["{"; "}"; ";"].
Definition unq_ok (u:str) : bool :=
  match u with [] => false | c :: _ => negb (Ascii.eqb c dq) && negb (Ascii.eqb c sq) end
  && forallb (fun c => negb (isspace c) && negb (mem c vsingle)) u.
Definition tail_ok (tl:str) : bool :=
  match tl with [] => true | c :: _ => isspace c || mem c vsingle end.

Theorem nw_unquoted : forall u tl line,
  unq_ok u = true -> tail_ok tl = true ->
  nw s1 false (u ++ tl) line = TWord (mkword u QN line) tl line.
Proof.
  intros u tl line Hu Ht. unfold unq_ok in Hu. apply andb_prop in Hu as [Hh Hall].
  destruct u as [|c u]; [discriminate|].
  apply andb_prop in Hh as [Hd Hs]. apply negb_true_iff in Hd, Hs.
  apply nw_plain; try assumption; reflexivity.
Qed.

(* structure context: additionally no '=' inside, first character not '#' *)
Definition unq_ok0 (u:str) : bool :=
  match u with [] => false
  | c :: _ => negb (Ascii.eqb c dq) && negb (Ascii.eqb c sq) && negb (Ascii.eqb c "#") end
  && forallb (plainc s0) u.
Theorem nw_unquoted_s0 : forall u tl line,
  unq_ok0 u = true -> tailok s0 tl = true ->
  nw s0 false (u ++ tl) line = TWord (mkword u QN line) tl line.
Proof.
  intros u tl line Hu Ht. unfold unq_ok0 in Hu. apply andb_prop in Hu as [Hh Hall].
  destruct u as [|c u]; [discriminate|].
  apply andb_prop in Hh as [Hh Hc]. apply andb_prop in Hh as [Hd Hs].
  apply negb_true_iff in Hd, Hs, Hc.
  apply nw_plain; try assumption; try reflexivity.
  cbn [s0 comment mem]. rewrite Hc. reflexivity.
Qed.

(* consequences of unq_ok *)
Lemma unq_ok_all : forall u, unq_ok u = true ->
  forallb (fun c => negb (isspace c) && negb (mem c vsingle)) u = true.
Proof. intros u H. unfold unq_ok in H. apply andb_prop in H as [_ H]. exact H. Qed.

Lemma nospace_count_nl : forall (P:ascii -> bool) u,
  (forall c, P c = true -> isspace c = false) -> forallb P u = true -> count_nl u = 0.
Proof.
  intros P u HP; induction u as [|c u IH]; intros H; [reflexivity|].
  cbn [forallb] in H. apply andb_prop in H as [Hc Hu].
  cbn [count_nl]. rewrite (not_space_not_nl _ (HP _ Hc)). rewrite (IH Hu). reflexivity.
Qed.
Lemma unq_ok_count_nl : forall u, unq_ok u = true -> count_nl u = 0.
Proof.
  intros u H. apply (nospace_count_nl _ u) with (2 := unq_ok_all u H).
  intros c Hc. apply andb_prop in Hc as [Hc _]. apply negb_true_iff in Hc. exact Hc.
Qed.

Lemma mem_neq : forall a c l, mem a l = false -> mem c l = true -> Ascii.eqb a c = false.
Proof.
  intros a c l Ha Hc. destruct (Ascii.eqb a c) eqn:E; [|reflexivity].
  apply Ascii.eqb_eq in E; subst a. congruence.
Qed.
Lemma unq_ok_not_single : forall u c, unq_ok u = true -> mem c vsingle = true -> eqs u [c] = false.
Proof.
  intros u c H Hc. pose proof (unq_ok_all u H) as Ha.
  destruct u as [|a u]; [reflexivity|].
  cbn [forallb] in Ha. apply andb_prop in Ha as [Ha _]. apply andb_prop in Ha as [_ Ha].
  apply negb_true_iff in Ha. cbn [eqs]. rewrite (mem_neq _ _ _ Ha Hc). reflexivity.
Qed.

(* one-character shortcuts *)
Lemma nw_sp : forall σ s line, nw σ false (" " :: s) line = nw σ false s line.
Proof. reflexivity. Qed.
Lemma nw_nl : forall σ s line, nw σ false (nl :: s) line = nw σ false s (S line).
Proof. reflexivity. Qed.
Lemma nw_all_blank : forall σ s line, forallb isspace s = true -> nw σ false s line = TEnd.
Proof.
  intros σ s line H. rewrite <- (app_nil_r s). rewrite nw_skip_blanks by exact H. reflexivity.
Qed.

(* ====================================================================== *)
(* single steps of collect_assigned_words, in terms of the token read *)

Lemma caw_step_quoted : forall f s line last acc lead w r l,
  nw s1 false s line = TWord w r l -> isq w = true ->
  caw (S f) s line false last acc lead = caw f r l false w (w :: acc) lead.
Proof. intros f s line last acc lead w r l H Hq. cbn [caw]. rewrite H, Hq. reflexivity. Qed.

Definition not_special (w:word) : Prop :=
  is1 w "{" = false /\ is1 w "}" = false /\ is1 w ";" = false /\ is1 w "#" = false.

Lemma caw_step_after_bs : forall f s line last acc lead w r l,
  nw s1 false s line = TWord w r l -> isq w = false -> not_special w ->
  weq last [bs] = true -> is1 w bs = false ->
  caw (S f) s line false last acc lead = caw f r l false w (w :: acc) lead.
Proof.
  intros f s line last acc lead w r l H Hq (H1 & H2 & H3 & H4) Hl Hb.
  cbn [caw]. rewrite H, Hq, H1, H2, H3, H4, Hl, Hb. reflexivity.
Qed.

Lemma caw_step_same_line : forall f s line last acc lead w r l,
  nw s1 false s line = TWord w r l -> isq w = false -> not_special w ->
  weq last [bs] = false -> wline w = wline last ->
  caw (S f) s line false last acc lead = caw f r l false w (if is1 w bs then acc else w :: acc) lead.
Proof.
  intros f s line last acc lead w r l H Hq (H1 & H2 & H3 & H4) Hl Hline.
  cbn [caw]. rewrite H, Hq, H1, H2, H3, H4, Hl, Hline, Nat.eqb_refl. reflexivity.
Qed.

Lemma caw_stop_other_line : forall f s line last a acc lead w r l,
  nw s1 false s line = TWord w r l -> isq w = false -> is1 w ";" = false -> is1 w "#" = false ->
  weq last [bs] = false -> wline w <> wline last ->
  caw (S f) s line false last (a :: acc) lead = Ok (rev (a :: acc), s, line).
Proof.
  intros f s line last a acc lead w r l H Hq H3 H4 Hl Hline.
  cbn [caw]. rewrite H, Hq, H3, H4, Hl.
  apply Nat.eqb_neq in Hline. rewrite Hline.
  cbn [negb andb orb]. rewrite !orb_false_r.
  destruct (is1 w "{" || is1 w "}"); reflexivity.
Qed.

Lemma caw_stop_end : forall f s line last a acc lead,
  nw s1 false s line = TEnd ->
  caw (S f) s line false last (a :: acc) lead = Ok (rev (a :: acc), [], line).
Proof. intros. cbn [caw]. rewrite H. reflexivity. Qed.

(* ====================================================================== *)
(* the printer's value text, as a function of what follows it *)

Definition brk (w:word) (cur indent:str) (width:Z) : bool :=
  (zlen (cur ++ " " :: str_of_word w) >? width - 2)%Z && (length indent <? length cur)%nat && negb (mem nl cur).

Fixpoint vtail (ws:list word) (cur indent:str) (width:Z) (rest:str) : str :=
  match ws with
  | [] => nl :: rest
  | w :: r =>
      if brk w cur indent width
      then " " :: bs :: nl :: indent ++ " " :: str_of_word w
             ++ vtail r (indent ++ " " :: str_of_word w) indent width rest
      else " " :: str_of_word w ++ vtail r (cur ++ " " :: str_of_word w) indent width rest
  end.

Lemma show_words_vtail : forall ws cur indent width rest,
  show_words ws cur indent width ++ rest = cur ++ vtail ws cur indent width rest.
Proof.
  induction ws as [|w r IH]; intros cur indent width rest.
  - cbn [show_words vtail]. unfold line. rewrite <- app_assoc. reflexivity.
  - cbn [show_words vtail]. fold (brk w cur indent width).
    destruct (brk w cur indent width).
    + unfold line. rewrite <- !app_assoc. rewrite IH. cbn [s_ String.list_ascii_of_string app].
      rewrite <- !app_assoc. reflexivity.
    + rewrite IH. rewrite <- app_assoc. reflexivity.
Qed.

(* line on which each word is read back, and the line on which the value ends *)
Definition setl (w:word) (line:nat) : word := mkword (wv w) (wq w) line.
Fixpoint relw (ws:list word) (cur indent:str) (width:Z) (line:nat) : list word :=
  match ws with
  | [] => []
  | w :: r =>
      if brk w cur indent width
      then setl w (S line) :: relw r (indent ++ " " :: str_of_word w) indent width (S line + count_nl (wv w))
      else setl w line :: relw r (cur ++ " " :: str_of_word w) indent width (line + count_nl (wv w))
  end.
Fixpoint endw (ws:list word) (cur indent:str) (width:Z) (line:nat) : nat :=
  match ws with
  | [] => line
  | w :: r =>
      if brk w cur indent width
      then endw r (indent ++ " " :: str_of_word w) indent width (S line + count_nl (wv w))
      else endw r (cur ++ " " :: str_of_word w) indent width (line + count_nl (wv w))
  end.

Definition noline (w:word) : word := setl w 0.
Lemma relw_noline : forall ws cur indent width line,
  map noline (relw ws cur indent width line) = map noline ws.
Proof.
  induction ws as [|w r IH]; intros; [reflexivity|].
  cbn [relw]. destruct (brk w cur indent width); cbn [map]; rewrite IH; reflexivity.
Qed.

Lemma vtail_head : forall ws cur indent width rest,
  exists c t, vtail ws cur indent width rest = c :: t /\ (c = " " \/ c = nl).
Proof.
  intros [|w r] cur indent width rest; cbn [vtail].
  - eexists _, _; split; [reflexivity|right; reflexivity].
  - destruct (brk w cur indent width); eexists _, _; (split; [reflexivity|left; reflexivity]).
Qed.

(* ====================================================================== *)
(* the domain *)

Definition word_ok (w:word) : bool :=
  isq w || (unq_ok (wv w) && negb (eqs (wv w) [bs]) && negb (eqs (wv w) ["#"])).
(* the line rule of collect_assigned_words: an unquoted word must stand on the line on which the
   previous word starts; prevnl = newlines inside the previous word *)
Fixpoint lines_ok (prevnl:nat) (ws:list word) : bool :=
  match ws with
  | [] => true
  | w :: r => (isq w || (prevnl =? 0)%nat) && lines_ok (count_nl (wv w)) r
  end.
Definition words_ok (ws:list word) : bool := forallb word_ok ws && lines_ok 0 ws.

(* what may follow the value: nothing but blanks, or an unquoted token other than ';' and '#' *)
Definition value_ends (rest:str) (line:nat) : Prop :=
  forallb isspace rest = true \/
  exists w r l, nw s1 false rest line = TWord w r l /\ isq w = false /\ is1 w ";" = false /\ is1 w "#" = false.

(* every word of the domain is read back as one token, whatever blank follows *)
Lemma nw_word : forall w tl line,
  word_ok w = true -> (exists c t, tl = c :: t /\ (c = " " \/ c = nl)) ->
  nw s1 false (str_of_word w ++ tl) line = TWord (setl w line) tl (line + count_nl (wv w)).
Proof.
  intros w tl line Hok (c & t & -> & Hc). unfold word_ok in Hok. unfold str_of_word, setl.
  destruct (isq w) eqn:Eq.
  - apply nw_quoted.
    + intros E. unfold isq in Eq. rewrite E in Eq. discriminate.
    + reflexivity.
    + intros _ _. cbn [prefixb]. rewrite andb_true_r.
      destruct Hc as [-> | ->]; destruct (qchar_cases (wq w)) as [E|E]; rewrite E; reflexivity.
  - cbn [orb] in Hok. apply andb_prop in Hok as [Hok _]. apply andb_prop in Hok as [Hu _].
    unfold isq in Eq. destruct (wq w); try discriminate. cbn [quote_str].
    rewrite (unq_ok_count_nl _ Hu), Nat.add_0_r.
    apply nw_unquoted; [exact Hu|]. destruct Hc as [-> | ->]; reflexivity.
Qed.

Lemma word_ok_unq : forall w, word_ok w = true -> isq w = false ->
  unq_ok (wv w) = true /\ eqs (wv w) [bs] = false /\ eqs (wv w) ["#"] = false.
Proof.
  intros w H Hq. unfold word_ok in H. rewrite Hq in H. cbn [orb] in H.
  apply andb_prop in H as [H H3]. apply andb_prop in H as [H1 H2].
  apply negb_true_iff in H2, H3. auto.
Qed.
Lemma word_ok_not_special : forall w line, word_ok w = true -> isq w = false -> not_special (setl w line).
Proof.
  intros w line H Hq. destruct (word_ok_unq w H Hq) as (Hu & _ & Hh).
  unfold not_special, is1, setl; cbn [wv].
  repeat split; try (apply unq_ok_not_single; [exact Hu|reflexivity]). exact Hh.
Qed.

Lemma word_ok_weq_bs : forall w line, word_ok w = true -> weq (setl w line) [bs] = false.
Proof.
  intros w line H. unfold weq. change (isq (setl w line)) with (isq w). cbn [setl wv].
  destruct (isq w) eqn:Eq; [reflexivity|].
  destruct (word_ok_unq w H Eq) as (_ & Hb & _). rewrite Hb. reflexivity.
Qed.

(* newlines in the printed form = newlines in the word *)
Lemma mem_app : forall c a b, mem c (a ++ b) = mem c a || mem c b.
Proof. intros c a b; induction a as [|x a IH]; cbn [app mem]; [reflexivity|]. rewrite IH, orb_assoc. reflexivity. Qed.
Lemma mem_nl_count : forall s, mem nl s = false -> count_nl s = 0.
Proof.
  induction s as [|c s IH]; intros H; [reflexivity|].
  cbn [mem] in H. apply orb_false_iff in H as [H1 H2]. cbn [count_nl].
  rewrite Ascii.eqb_sym, H1, (IH H2). reflexivity.
Qed.
Lemma mem_nl_escape : forall q s, mem nl (escape q s) = false -> count_nl s = 0.
Proof.
  intros q; induction s as [|c s IH]; intros H; [reflexivity|].
  cbn [escape] in H. cbn [count_nl].
  destruct (Ascii.eqb c bs) eqn:E1.
  - apply Ascii.eqb_eq in E1; subst c. cbn [mem] in H.
    apply orb_false_iff in H as [_ H]. apply orb_false_iff in H as [_ H].
    rewrite (IH H). reflexivity.
  - destruct (Ascii.eqb c q) eqn:E2.
    + apply Ascii.eqb_eq in E2; subst c. cbn [mem] in H.
      apply orb_false_iff in H as [_ H]. apply orb_false_iff in H as [H1 H].
      rewrite Ascii.eqb_sym, H1, (IH H). reflexivity.
    + cbn [mem] in H. apply orb_false_iff in H as [H1 H].
      rewrite Ascii.eqb_sym, H1, (IH H). reflexivity.
Qed.
Lemma mem_nl_word : forall w, mem nl (str_of_word w) = false -> count_nl (wv w) = 0.
Proof.
  intros w H. unfold str_of_word, quote_str in H.
  destruct (wq w); [apply mem_nl_count; exact H| | | |];
    rewrite !mem_app in H; apply orb_false_iff in H as [_ H]; apply orb_false_iff in H as [H _];
    eapply mem_nl_escape; exact H.
Qed.
Lemma mem_nl_cur : forall cur w, mem nl (cur ++ " " :: str_of_word w) = false -> count_nl (wv w) = 0.
Proof.
  intros cur w H. rewrite mem_app in H. apply orb_false_iff in H as [_ H].
  cbn [mem] in H. apply orb_false_iff in H as [_ H]. apply mem_nl_word; exact H.
Qed.

(* ====================================================================== *)
(* Stage 3 (general form): caw on the printer's value text, any width, any state *)

Lemma caw_vtail : forall indent width rest lead,
  forallb isspace indent = true -> count_nl indent = 0 ->
  forall ws fuel cur line last acc prevnl,
  forallb word_ok ws = true ->
  lines_ok prevnl ws = true ->
  (acc <> [] \/ ws <> []) ->
  weq last [bs] = false ->
  line = wline last + prevnl ->
  (mem nl cur = false -> prevnl = 0) ->
  value_ends rest (S (endw ws cur indent width line)) ->
  length (vtail ws cur indent width rest) < fuel ->
  exists s', caw fuel (vtail ws cur indent width rest) line false last acc lead
             = Ok (rev acc ++ relw ws cur indent width line, s', endw ws cur indent width line)
          /\ (s' = nl :: rest \/ s' = [] /\ forallb isspace rest = true)
          /\ nw s0 false s' (endw ws cur indent width line)
             = nw s0 false rest (S (endw ws cur indent width line)).
Proof.
  intros indent width rest lead Hib Hinl.
  induction ws as [|w r IH]; intros fuel cur line last acc prevnl Hok Hlines Hne Hlast Hline Hcur Hend Hlt.
  - cbn [vtail relw endw] in *. rewrite app_nil_r.
    destruct fuel as [|f]; [lia|].
    destruct acc as [|a acc]; [destruct Hne; congruence|].
    destruct Hend as [Hb | (w & r & l & Hnw & Hq & H3 & H4)].
    + exists []. split; [|split].
      * apply caw_stop_end. rewrite nw_nl. apply nw_all_blank; exact Hb.
      * right; split; [reflexivity|exact Hb].
      * rewrite (nw_all_blank s0 rest _ Hb). reflexivity.
    + exists (nl :: rest). split; [|split].
      * eapply caw_stop_other_line; [rewrite nw_nl; exact Hnw|exact Hq|exact H3|exact H4|exact Hlast|].
        destruct (nw_lines _ _ _ _ _ _ _ Hnw) as (pre & body & _ & Hw & _). lia.
      * left; reflexivity.
      * apply nw_nl.
  - cbn [forallb] in Hok. apply andb_prop in Hok as [Hw Hok].
    cbn [lines_ok] in Hlines. apply andb_prop in Hlines as [Hl1 Hlines].
    cbn [vtail relw endw] in *.
    destruct (brk w cur indent width) eqn:Eb.
    + (* the printer breaks the line before w *)
      unfold brk in Eb. apply andb_prop in Eb as [_ Eb]. apply negb_true_iff in Eb.
      specialize (Hcur Eb). subst prevnl. rewrite Nat.add_0_r in Hline.
      set (cur' := indent ++ " " :: str_of_word w) in *.
      set (V := vtail r cur' indent width rest) in *.
      destruct fuel as [|[|f]]; [cbn [length] in Hlt; lia|cbn [length] in Hlt; lia|].
      assert (Hlt' : length V < f).
      { cbn [length] in Hlt. rewrite !app_length in Hlt. cbn [length] in Hlt. rewrite app_length in Hlt. lia. }
      assert (Hn1 : nw s1 false (" " :: bs :: nl :: indent ++ " " :: str_of_word w ++ V) line
                    = TWord (mkword [bs] QN line) (nl :: indent ++ " " :: str_of_word w ++ V) line).
      { rewrite nw_sp. apply (nw_unquoted [bs]); reflexivity. }
      rewrite (caw_step_same_line _ _ _ _ _ _ _ _ _ Hn1 eq_refl
                 (conj eq_refl (conj eq_refl (conj eq_refl eq_refl))) Hlast Hline).
      change (is1 (mkword [bs] QN line) bs) with true. cbv iota.
      assert (Hn2 : nw s1 false (nl :: indent ++ " " :: str_of_word w ++ V) line
                    = TWord (setl w (S line)) V (S line + count_nl (wv w))).
      { rewrite nw_nl, (nw_skip_blanks _ _ _ _ Hib), Hinl, Nat.add_0_r, nw_sp.
        apply nw_word; [exact Hw|apply vtail_head]. }
      assert (Hstep : caw (S f) (nl :: indent ++ " " :: str_of_word w ++ V) line false (mkword [bs] QN line) acc lead
                      = caw f V (S line + count_nl (wv w)) false (setl w (S line)) (setl w (S line) :: acc) lead).
      { destruct (isq w) eqn:Eq.
        - apply (caw_step_quoted _ _ _ _ _ _ _ _ _ Hn2 Eq).
        - assert (Hx : weq (mkword [bs] QN line) [bs] = true) by reflexivity.
          pose proof (word_ok_not_special w (S line) Hw Eq) as Hns.
          destruct (word_ok_unq w Hw Eq) as (_ & Hb & _).
          rewrite (caw_step_after_bs f _ line (mkword [bs] QN line) acc lead _ _ _ Hn2 Eq Hns Hx Hb).
          reflexivity. }
      rewrite Hstep. clear Hstep Hn2. subst V.
      assert (Hne' : setl w (S line) :: acc <> [] \/ r <> []) by (left; discriminate).
      assert (Hl' : S line + count_nl (wv w) = wline (setl w (S line)) + count_nl (wv w)) by reflexivity.
      pose proof (mem_nl_cur indent w) as Hc'. fold cur' in Hc'.
      pose proof (word_ok_weq_bs w (S line) Hw) as Hwq.
      destruct (IH f cur' (S line + count_nl (wv w)) (setl w (S line)) (setl w (S line) :: acc) (count_nl (wv w))
                  Hok Hlines Hne' Hwq Hl' Hc' Hend Hlt') as (s' & Hc & Hs & Hn).
      exists s'. split; [|split]; try assumption.
      rewrite Hc. cbn [rev]. rewrite <- app_assoc. reflexivity.
    + (* w goes on the current line *)
      set (cur' := cur ++ " " :: str_of_word w) in *.
      set (V := vtail r cur' indent width rest) in *.
      destruct fuel as [|f]; [cbn [length] in Hlt; lia|].
      assert (Hlt' : length V < f).
      { cbn [length] in Hlt. rewrite app_length in Hlt. lia. }
      assert (Hn2 : nw s1 false (" " :: str_of_word w ++ V) line
                    = TWord (setl w line) V (line + count_nl (wv w))).
      { rewrite nw_sp. apply nw_word; [exact Hw|apply vtail_head]. }
      assert (Hstep : caw (S f) (" " :: str_of_word w ++ V) line false last acc lead
                      = caw f V (line + count_nl (wv w)) false (setl w line) (setl w line :: acc) lead).
      { destruct (isq w) eqn:Eq.
        - apply (caw_step_quoted _ _ _ _ _ _ _ _ _ Hn2 Eq).
        - cbn [orb] in Hl1. apply Nat.eqb_eq in Hl1. subst prevnl. rewrite Nat.add_0_r in Hline.
          rewrite (caw_step_same_line _ _ _ _ _ _ _ _ _ Hn2 Eq (word_ok_not_special w _ Hw Eq) Hlast Hline).
          destruct (word_ok_unq w Hw Eq) as (_ & Hb & _).
          change (is1 (setl w line) bs) with (eqs (wv w) [bs]). rewrite Hb. reflexivity. }
      rewrite Hstep. clear Hstep Hn2. subst V.
      assert (Hne' : setl w line :: acc <> [] \/ r <> []) by (left; discriminate).
      assert (Hl' : line + count_nl (wv w) = wline (setl w line) + count_nl (wv w)) by reflexivity.
      pose proof (mem_nl_cur cur w) as Hc'. fold cur' in Hc'.
      pose proof (word_ok_weq_bs w line Hw) as Hwq.
      destruct (IH f cur' (line + count_nl (wv w)) (setl w line) (setl w line :: acc) (count_nl (wv w))
                  Hok Hlines Hne' Hwq Hl' Hc' Hend Hlt') as (s' & Hc & Hs & Hn).
      exists s'. split; [|split]; try assumption.
      rewrite Hc. cbn [rev]. rewrite <- app_assoc. reflexivity.
Qed.

(* ---------- what may follow a value *)
Lemma value_ends_blank : forall rest line, forallb isspace rest = true -> value_ends rest line.
Proof. intros; left; assumption. Qed.
Lemma value_ends_unquoted : forall blanks u tl line,
  forallb isspace blanks = true -> unq_ok u = true -> eqs u ["#"] = false -> tail_ok tl = true ->
  value_ends (blanks ++ u ++ tl) line.
Proof.
  intros blanks u tl line Hb Hu Hh Ht. right.
  exists (mkword u QN (line + count_nl blanks)), tl, (line + count_nl blanks).
  rewrite nw_skip_blanks by exact Hb. rewrite nw_unquoted by assumption.
  split; [reflexivity|]. split; [reflexivity|]. unfold is1; cbn [wv]. split; [|exact Hh].
  apply unq_ok_not_single; [exact Hu|reflexivity].
Qed.
Lemma value_ends_brace : forall blanks c tl line,
  forallb isspace blanks = true -> c = "{" \/ c = "}" ->
  value_ends (blanks ++ c :: tl) line.
Proof.
  intros blanks c tl line Hb Hc. right.
  exists (mkword [c] QN (line + count_nl blanks)), tl, (line + count_nl blanks).
  rewrite nw_skip_blanks by exact Hb. destruct Hc as [-> | ->]; repeat split.
Qed.

(* ====================================================================== *)
(* Stage 3: the text of show_words, whatever the width *)

Theorem caw_show_words : forall ws cur indent width rest txt line lead fuel,
  forallb isspace indent = true -> count_nl indent = 0 ->
  ws <> [] -> words_ok ws = true ->
  wline lead = line -> weq lead [bs] = false ->
  show_words ws cur indent width ++ rest = cur ++ txt ->
  value_ends rest (S (endw ws cur indent width line)) ->
  length txt < fuel ->
  exists s', caw fuel txt line false lead [] lead
             = Ok (relw ws cur indent width line, s', endw ws cur indent width line)
          /\ (s' = nl :: rest \/ s' = [] /\ forallb isspace rest = true)
          /\ nw s0 false s' (endw ws cur indent width line)
             = nw s0 false rest (S (endw ws cur indent width line)).
Proof.
  intros ws cur indent width rest txt line lead fuel Hib Hinl Hne Hok Hl Hlead Htxt Hend Hlt.
  rewrite show_words_vtail in Htxt. apply app_inv_head in Htxt. subst txt.
  unfold words_ok in Hok. apply andb_prop in Hok as [Hok Hlines].
  apply (caw_vtail indent width rest lead Hib Hinl ws fuel cur line lead [] 0 Hok Hlines
           (or_intror Hne) Hlead); try assumption.
  - rewrite Nat.add_0_r. symmetry; exact Hl.
  - reflexivity.
Qed.

(* texts and quote styles are exactly those of the printed words *)
Corollary caw_show_words_values : forall ws cur indent width line,
  map noline (relw ws cur indent width line) = map noline ws.
Proof. intros; apply relw_noline. Qed.

(* ====================================================================== *)
(* Stage 2: all words on one line *)

Definition vtext (ws:list word) : str := flat_map (fun w => " " :: str_of_word w) ws.
Fixpoint reline (line:nat) (ws:list word) : list word :=
  match ws with [] => [] | w :: r => setl w line :: reline (line + count_nl (wv w)) r end.
Fixpoint endline (line:nat) (ws:list word) : nat :=
  match ws with [] => line | w :: r => endline (line + count_nl (wv w)) r end.

Lemma brk_nl : forall w cur indent width, mem nl cur = true -> brk w cur indent width = false.
Proof. intros. unfold brk. rewrite H. cbn [negb]. apply andb_false_r. Qed.
Lemma nobreak : forall indent width rest ws cur line, mem nl cur = true ->
  vtail ws cur indent width rest = vtext ws ++ nl :: rest
  /\ relw ws cur indent width line = reline line ws
  /\ endw ws cur indent width line = endline line ws.
Proof.
  intros indent width rest; induction ws as [|w r IH]; intros cur line Hc.
  - repeat split.
  - cbn [vtail relw endw]. rewrite (brk_nl w cur indent width Hc).
    assert (Hc' : mem nl (cur ++ " " :: str_of_word w) = true) by (rewrite mem_app, Hc; reflexivity).
    destruct (IH _ (line + count_nl (wv w)) Hc') as (H1 & H2 & H3).
    rewrite H1, H2, H3. unfold vtext. cbn [flat_map reline endline app]. rewrite <- app_assoc.
    repeat split.
Qed.

Theorem caw_one_line : forall ws rest line lead fuel,
  ws <> [] -> words_ok ws = true ->
  wline lead = line -> weq lead [bs] = false ->
  value_ends rest (S (endline line ws)) ->
  length (vtext ws ++ nl :: rest) < fuel ->
  exists s', caw fuel (vtext ws ++ nl :: rest) line false lead [] lead
             = Ok (reline line ws, s', endline line ws)
          /\ (s' = nl :: rest \/ s' = [] /\ forallb isspace rest = true)
          /\ nw s0 false s' (endline line ws) = nw s0 false rest (S (endline line ws)).
Proof.
  intros ws rest line lead fuel Hne Hok Hl Hlead Hend Hlt.
  destruct (nobreak [] 0%Z rest ws [nl] line eq_refl) as (H1 & H2 & H3).
  rewrite <- H1, <- H2, <- H3 in *.
  unfold words_ok in Hok. apply andb_prop in Hok as [Hok Hlines].
  apply (caw_vtail [] 0%Z rest lead eq_refl eq_refl ws fuel [nl] line lead [] 0 Hok Hlines
           (or_intror Hne) Hlead); try assumption.
  - rewrite Nat.add_0_r. symmetry; exact Hl.
  - discriminate.
Qed.

(* ====================================================================== *)
(* Stage 4: one definition "name = words" through collect_objects and parse *)

Lemma is_cont_plain0 : forall c, is_cont c = true -> plainc s0 c = true.
Proof. intros [[] [] [] [] [] [] [] []]; vm_compute; intros H; try reflexivity; discriminate H. Qed.
Lemma is_start_cont : forall c, is_start c = true -> is_cont c = true.
Proof. intros c H. unfold is_cont. rewrite H. reflexivity. Qed.
Lemma is_start_neq : forall c d, is_start c = true -> is_start d = false -> Ascii.eqb c d = false.
Proof.
  intros c d Hc Hd. destruct (Ascii.eqb c d) eqn:E; [|reflexivity].
  apply Ascii.eqb_eq in E; subst d. congruence.
Qed.
Lemma head_neq : forall c n d t, Ascii.eqb c d = false -> eqs (c :: n) (d :: t) = false.
Proof. intros. cbn [eqs]. rewrite H. reflexivity. Qed.
Lemma forallb_impl : forall {A} (P Q:A -> bool) l,
  (forall x, P x = true -> Q x = true) -> forallb P l = true -> forallb Q l = true.
Proof.
  intros A P Q l H; induction l as [|a l IH]; intros Hl; [reflexivity|].
  cbn [forallb] in *. apply andb_prop in Hl as [H1 H2]. rewrite (H _ H1), (IH H2). reflexivity.
Qed.
Lemma ident_shape : forall n, is_ident n = true ->
  exists c n', n = c :: n' /\ is_start c = true /\ forallb is_cont n' = true.
Proof.
  intros n H. unfold is_ident in H. apply andb_prop in H as [H _].
  destruct n as [|c n']; [discriminate|]. cbn [is_ident1] in H. apply andb_prop in H as [H1 H2].
  exists c, n'; auto.
Qed.
Lemma ident_unq_ok0 : forall n, is_ident n = true -> unq_ok0 n = true.
Proof.
  intros n H. destruct (ident_shape n H) as (c & n' & -> & Hc & Hn).
  unfold unq_ok0.
  rewrite (is_start_neq c dq Hc eq_refl), (is_start_neq c sq Hc eq_refl), (is_start_neq c "#" Hc eq_refl).
  cbn [negb andb forallb]. rewrite (is_cont_plain0 c (is_start_cont c Hc)).
  cbn [andb]. apply (forallb_impl is_cont); [apply is_cont_plain0|exact Hn].
Qed.

Lemma nw_s0_eq : forall s line, nw s0 false ("=" :: s) line = TWord (mkword ["="] QN line) s line.
Proof. reflexivity. Qed.

(* a definition header "name =" : collect_objects hands the rest to collect_assigned_words *)
Lemma cobj_def_step : forall o f n r5 line nid stop start prev active acc,
  is_ident n = true -> eqs n include_w = false ->
  cobj o (S f) (n ++ " " :: "=" :: r5) line nid stop start prev active acc
  = do (ws, r6, l6) <- caw (S (length r5)) r5 line false (mkword n QN line) [] (mkword n QN line) ;
    if name_reserved_def n then E "Reserved" n line else
    if prefix_reserved n then E "Reserved" n 0 else
    cobj o f r6 l6 (S nid) stop start line
         (Some (adopt (Def (mkhdr n false 0 false nid line) ws [])))
         (match active with Some d => d :: acc | None => acc end).
Proof.
  intros o f n r5 line nid stop start prev active acc Hid Hinc.
  pose proof (nw_unquoted_s0 n (" " :: "=" :: r5) line (ident_unq_ok0 n Hid) eq_refl) as Hnw.
  destruct (ident_shape n Hid) as (c & n' & En & Hc & Hn').
  assert (Hintro : eqs n intro = false) by (subst n; apply head_neq, is_start_neq; [exact Hc|reflexivity]).
  assert (Hrb : eqs n ["}"] = false) by (subst n; apply head_neq, is_start_neq; [exact Hc|reflexivity]).
  assert (Hlb : eqs n ["{"] = false) by (subst n; apply head_neq, is_start_neq; [exact Hc|reflexivity]).
  assert (Hbang : strip_bang n = (n, false)).
  { subst n. unfold strip_bang. rewrite (is_start_neq c "!" Hc eq_refl). reflexivity. }
  assert (Hdot : prefixb ["."] n = false).
  { subst n. cbn [prefixb]. rewrite Ascii.eqb_sym, (is_start_neq c "." Hc eq_refl). reflexivity. }
  cbn [cobj]. rewrite Hnw.
  cbn [isq wq wv wline]. rewrite Hintro, Hrb, Hlb, Hbang. cbn [andb].
  rewrite andb_false_r.
  unfold pop_unq, pop. rewrite nw_sp, nw_s0_eq. cbn [bind isq wq wv negb].
  change (eqs ["="] ["{"] || prefixb ["."] ["="] || prefixb ["!"; "."] ["="]) with false.
  cbn [andb]. rewrite Hdot, Hid, Hinc. cbn [negb].
  unfold expect_eq. cbn [wv]. change (eqs ["="] ["="]) with true. cbn [bind].
  reflexivity.
Qed.

Lemma ident_weq_bs : forall n line, is_ident n = true -> weq (mkword n QN line) [bs] = false.
Proof.
  intros n line H. destruct (ident_shape n H) as (c & n' & -> & Hc & _).
  unfold weq. cbn [isq wq wv negb andb]. apply head_neq, is_start_neq; [exact Hc|reflexivity].
Qed.

(* the definition followed by [rest]: collect_objects continues after the value with the
   definition as the active object *)
Theorem cobj_show_def_words : forall o f n ws indent width rest line nid stop start prev active acc,
  is_ident n = true -> eqs n include_w = false ->
  name_reserved_def n = false -> prefix_reserved n = false ->
  forallb isspace indent = true -> count_nl indent = 0 ->
  ws <> [] -> words_ok ws = true ->
  value_ends rest (S (endw ws (n ++ s_ " =") indent width line)) ->
  exists s', (s' = nl :: rest \/ s' = [] /\ forallb isspace rest = true)
    /\ nw s0 false s' (endw ws (n ++ s_ " =") indent width line)
       = nw s0 false rest (S (endw ws (n ++ s_ " =") indent width line))
    /\ cobj o (S f) (show_words ws (n ++ s_ " =") indent width ++ rest) line nid stop start prev active acc
       = cobj o f s' (endw ws (n ++ s_ " =") indent width line) (S nid) stop start line
           (Some (adopt (Def (mkhdr n false 0 false nid line) (relw ws (n ++ s_ " =") indent width line) [])))
           (match active with Some d => d :: acc | None => acc end).
Proof.
  intros o f n ws indent width rest line nid stop start prev active acc
         Hid Hinc Hres Hpre Hib Hinl Hne Hok Hend.
  set (cur := n ++ s_ " =") in *.
  set (V := vtail ws cur indent width rest).
  assert (HT : show_words ws cur indent width ++ rest = n ++ " " :: "=" :: V).
  { rewrite show_words_vtail. unfold cur. rewrite <- app_assoc. reflexivity. }
  destruct (caw_show_words ws cur indent width rest V line (mkword n QN line) (S (length V))
              Hib Hinl Hne Hok eq_refl (ident_weq_bs n line Hid)
              (show_words_vtail ws cur indent width rest) Hend (Nat.lt_succ_diag_r _))
    as (s' & Hc & Hs & Hn).
  exists s'. split; [exact Hs|]. split; [exact Hn|].
  rewrite HT, (cobj_def_step o f n V line nid stop start prev active acc Hid Hinc).
  rewrite Hc. cbn [bind]. rewrite Hres, Hpre. reflexivity.
Qed.

Theorem parse_show_def_words : forall o n ws indent width,
  is_ident n = true -> eqs n include_w = false ->
  name_reserved_def n = false -> prefix_reserved n = false ->
  forallb isspace indent = true -> count_nl indent = 0 ->
  ws <> [] -> words_ok ws = true ->
  parse o (show_words ws (n ++ s_ " =") indent width)
  = Ok [adopt (Def (mkhdr n false 0 false 1 1) (relw ws (n ++ s_ " =") indent width 1) [])].
Proof.
  intros o n ws indent width Hid Hinc Hres Hpre Hib Hinl Hne Hok.
  unfold parse.
  rewrite <- (app_nil_r (show_words ws (n ++ s_ " =") indent width)) at 2.
  destruct (cobj_show_def_words o (S (length (show_words ws (n ++ s_ " =") indent width))) n ws indent width [] 1 1
              false None 0 None [] Hid Hinc Hres Hpre Hib Hinl Hne Hok (value_ends_blank [] _ eq_refl))
    as (s' & _ & Hn & Hc).
  rewrite Hc. cbn [cobj]. rewrite Hn. cbn [nw bind rev app]. reflexivity.
Qed.

(* names without dots: the object is the definition itself *)
Lemma eqs_sym : forall a b, eqs a b = eqs b a.
Proof.
  induction a as [|x a IH]; intros [|y b]; cbn [eqs]; try reflexivity.
  rewrite Ascii.eqb_sym, IH. reflexivity.
Qed.
Lemma splitdot_nodot : forall n, mem "." n = false -> splitdot n = [n].
Proof.
  induction n as [|c n IH]; intros H; [reflexivity|].
  cbn [mem] in H. apply orb_false_iff in H as [H1 H2].
  cbn [splitdot]. rewrite Ascii.eqb_sym, H1, (IH H2). reflexivity.
Qed.
Corollary parse_show_def_words_plain : forall o n ws indent width,
  is_ident n = true -> mem "." n = false -> eqs n include_w = false -> reserved n = false ->
  forallb isspace indent = true -> count_nl indent = 0 ->
  ws <> [] -> words_ok ws = true ->
  parse o (show_words ws (n ++ s_ " =") indent width)
  = Ok [Def (mkhdr n false 0 false 1 1) (relw ws (n ++ s_ " =") indent width 1) []].
Proof.
  intros o n ws indent width Hid Hdot Hinc Hres Hib Hinl Hne Hok.
  pose proof (splitdot_nodot n Hdot) as Hsd.
  rewrite (parse_show_def_words o n ws indent width Hid Hinc); try assumption.
  - unfold adopt. cbn [ohdr oname]. rewrite Hsd. reflexivity.
  - unfold name_reserved_def. rewrite Hres, Hinc, Hsd. cbn [mems existsb]. rewrite eqs_sym, Hinc. reflexivity.
  - unfold prefix_reserved. rewrite Hsd. reflexivity.
Qed.

(* ====================================================================== *)
Print Assumptions nw_unquoted.
Print Assumptions nw_unquoted_s0.
Print Assumptions caw_one_line.
Print Assumptions caw_show_words.
Print Assumptions cobj_show_def_words.
Print Assumptions parse_show_def_words.
Print Assumptions parse_show_def_words_plain.

(* ---------- examples (non-vacuity): quotes, backslashes, a newline inside a word, embedded quote,
   empty literals; wrapped at width 20 and unwrapped at width 1000 *)
Definition ex_ws : list word :=
  [ mkword (s_ "abc") QN 0;
    mkword (s_ "he said ""hi""\ there") Q2 0;
    mkword (s_ "it's") Q1 0;
    mkword (s_ "a""b'c\") QN 0;
    mkword (s_ "multi" ++ nl :: s_ "line\") Q3d 0;
    mkword (s_ "x{};#") Q2 0;
    mkword (s_ "12.5e-3") QN 0;
    mkword [] Q1 0;
    mkword [] Q3s 0;
    mkword (s_ "#not_a_comment") QN 0;
    mkword (s_ "\\") QN 0 ].
Definition ex_cur : str := s_ "name =".
Definition ex_lead : word := mkword (s_ "name") QN 1.
Definition ex_run (width:Z) : res (list word * str * nat) :=
  let txt := drop (length ex_cur) (show_words ex_ws ex_cur (spaces 6) width) in
  caw (S (length txt)) txt 1 false ex_lead [] ex_lead.

Example ex_domain : words_ok ex_ws = true.
Proof. vm_compute. reflexivity. Qed.
Example ex_wrapped_20 :
  ex_run 20 = Ok (relw ex_ws ex_cur (spaces 6) 20 1, [], endw ex_ws ex_cur (spaces 6) 20 1)
  /\ map noline (relw ex_ws ex_cur (spaces 6) 20 1) = ex_ws
  /\ count_nl (show_words ex_ws ex_cur (spaces 6) 20) = 6.
Proof. vm_compute. repeat split. Qed.
Example ex_unwrapped_1000 :
  ex_run 1000 = Ok (reline 1 ex_ws, [], endline 1 ex_ws)
  /\ map noline (reline 1 ex_ws) = ex_ws
  /\ count_nl (show_words ex_ws ex_cur (spaces 6) 1000) = 2.
Proof. vm_compute. repeat split. Qed.
Example ex_parse_20 :
  parse [] (show_words ex_ws ex_cur (spaces 6) 20)
  = Ok [Def (mkhdr (s_ "name") false 0 false 1 1) (relw ex_ws ex_cur (spaces 6) 20 1) []].
Proof. vm_compute. reflexivity. Qed.
Example ex_parse_1000 :
  parse [] (show_words ex_ws ex_cur (spaces 6) 1000)
  = Ok [Def (mkhdr (s_ "name") false 0 false 1 1) (reline 1 ex_ws) []].
Proof. vm_compute. reflexivity. Qed.
(* followed by another definition *)
Example ex_followed :
  value_ends (s_ "b = 1") 5.
Proof. apply (value_ends_unquoted [] (s_ "b") (s_ " = 1")); reflexivity. Qed.

(* ---------- the side conditions are needed *)
(* the line rule: an unquoted word after a quoted word containing a newline is not read back *)
Example ex_line_rule_needed :
  let ws := [mkword ["a"; nl; "b"] Q2 0; mkword ["c"] QN 0] in
  words_ok ws = false /\
  parse [] (show_words ws (s_ "x =") (spaces 3) 79) = UErr (s_ "UnexpectedEnd") [] 0.
Proof. vm_compute. split; reflexivity. Qed.
(* The exclusion of the lone unquoted backslash from word_ok loses nothing: collect_assigned_words
   never yields such a word (repaired parser: a lone backslash is a continuation marker wherever it
   stands), so no parsed tree contains one. *)
Definition not_bs_word (w:word) : Prop := weq w [bs] = false.
Lemma weq_bs_is1 : forall w, weq w [bs] = negb (isq w) && is1 w bs.
Proof. reflexivity. Qed.

Lemma caw_never_yields_backslash_word_acc : forall fuel s line hc last acc lead ws s' l',
  Forall not_bs_word acc ->
  caw fuel s line hc last acc lead = Ok (ws, s', l') -> Forall not_bs_word ws.
Proof.
  induction fuel as [|f IH]; intros s line hc last acc lead ws s' l' Hacc H; [discriminate|].
  cbn [caw] in H.
  assert (Hfin : forall s0' l0',
            match acc with [] => E "MissingValue" (str_of_word lead) (wline lead)
                         | _ => Ok (rev acc, s0', l0') end = Ok (ws, s', l') -> Forall not_bs_word ws).
  { intros s0' l0' Hf. destruct acc as [|a acc']; [discriminate|].
    inversion Hf; subst. change (rev acc' ++ [a]) with (rev (a :: acc')).
    apply Forall_forall. intros x Hx. apply in_rev in Hx.
    revert x Hx. apply Forall_forall. exact Hacc. }
  destruct (nw s1 false s line) as [|w r l|l]; [eapply Hfin; exact H| |discriminate].
  destruct (negb hc && negb (isq w) && (is1 w "{" || is1 w "}" || is1 w ";" || is1 w "#")).
  - destruct (is1 w ";"); [eapply Hfin; exact H|].
    destruct (negb (is1 w "#")); [eapply Hfin; exact H|].
    eapply IH; [exact Hacc|exact H].
  - destruct (isq w || weq last [bs]) eqn:E1.
    + destruct (hc || (negb (isq w) && is1 w bs)) eqn:E2; [eapply IH; [exact Hacc|exact H]|].
      apply orb_false_iff in E2 as [_ E2].
      eapply IH; [|exact H]. constructor; [|exact Hacc]. unfold not_bs_word. rewrite weq_bs_is1. exact E2.
    + destruct (negb (wline w =? wline last)%nat); [eapply Hfin; exact H|].
      destruct (hc || is1 w bs) eqn:E2; [eapply IH; [exact Hacc|exact H]|].
      apply orb_false_iff in E2 as [_ E2].
      eapply IH; [|exact H]. constructor; [|exact Hacc].
      unfold not_bs_word. rewrite weq_bs_is1, E2. apply andb_false_r.
Qed.

Theorem caw_never_yields_backslash_word : forall fuel s line hc last lead ws s' l',
  caw fuel s line hc last [] lead = Ok (ws, s', l') -> Forall not_bs_word ws.
Proof. intros. eapply caw_never_yields_backslash_word_acc; [constructor|exact H]. Qed.
Print Assumptions caw_never_yields_backslash_word.

(* the text whose second backslash used to become a value word is now read as [a; b], the same
   words its printed form "x = a b" yields *)
Example ex_double_backslash_text :
  let src := s_ "x = a \ \ b" in
  let ws := [mkword ["a"] QN 1; mkword ["b"] QN 1] in
  parse [] src = Ok [Def (mkhdr ["x"] false 0 false 1 1) ws []]
  /\ words_ok ws = true
  /\ show_words ws (s_ "x =") (spaces 3) 79 = s_ "x = a b" ++ [nl]
  /\ parse [] (show_words ws (s_ "x =") (spaces 3) 79) = Ok [Def (mkhdr ["x"] false 0 false 1 1) ws []].
Proof. vm_compute. repeat split. Qed.
(* a tree built by hand with a lone unquoted backslash word is outside the domain: it prints as a
   continuation marker *)
Example ex_backslash_word_outside_domain :
  let ws := [mkword ["a"] QN 1; mkword [bs] QN 1; mkword ["b"] QN 1] in
  words_ok ws = false
  /\ parse [] (show_words ws (s_ "x =") (spaces 3) 79)
     = Ok [Def (mkhdr ["x"] false 0 false 1 1) [mkword ["a"] QN 1; mkword ["b"] QN 1] []].
Proof. vm_compute. repeat split. Qed.
