(* C09 at converter level: from_words (as_words v) = v on each type's domain; refusals;
   refutations by witness (F8 strings None, path tilde, single None element, scalar bounds). *)
From Coq Require Import List Ascii String Bool Arith ZArith Lia.
From Phil Require Import Base Tokenizer Tree PyVal ConvText QuoteProofs ExtractInt.
From Phil Require Conv Choice Parser.
Import ListNotations.
Local Open Scope char_scope.

(* format then extract at converter level *)
Definition roundtrip (pe:str -> option Conv.evr) (ex:str -> option str) (t:ty) (opt:aval) (mw:list word) (v:pyval) : Prop :=
  exists ws, ty_as_words t opt mw v = Ok ws /\ ty_from_words pe ex t opt ws = Ok v.

Lemma eqs_refl a : eqs a a = true.
Proof. induction a as [|c a IH]; [reflexivity|]. cbn [eqs]. rewrite Ascii.eqb_refl. exact IH. Qed.
Lemma eqs_eq a b : eqs a b = true -> a = b.
Proof.
  revert b. induction a as [|c a IH]; intros [|d b] H; try discriminate; [reflexivity|].
  cbn [eqs] in H. apply andb_true_iff in H. destruct H as [H1 H2]. apply Ascii.eqb_eq in H1. f_equal; auto.
Qed.
Lemma eqs_neq a b : a <> b -> eqs a b = false.
Proof. intro N. destruct (eqs a b) eqn:E; [apply eqs_eq in E; contradiction|reflexivity]. Qed.

(* ---------------------------------------------------------------- str / key / path *)
Section Text.
  Variable pe : str -> option Conv.evr.
  Variable ex : str -> option str.
  Variable opt : aval.
  Variable mw : list word.

  Lemma rt_str s : roundtrip pe ex TyStr opt mw (VStr s).
  Proof. exists [qw s]. split; reflexivity. Qed.
  Lemma rt_key s : roundtrip pe ex TyKey opt mw (VStr s).
  Proof. exists [qw s]. split; reflexivity. Qed.

  (* os.path.expanduser leaves a text alone (and does not refuse it) unless it starts with a tilde *)
  Definition expanduser_spec : Prop := forall s, prefixb ["~"] s = false -> ex s = Some s.
  Lemma rt_path s : expanduser_spec -> prefixb ["~"] s = false -> roundtrip pe ex TyPath opt mw (VStr s).
  Proof.
    intros H N. exists [qw s]. split; [reflexivity|].
    cbn [ty_from_words]. unfold path_from_words.
    change (str_from_words [qw s]) with (VStr s). cbv iota. rewrite (H s N). reflexivity.
  Qed.
  (* a text starting with a tilde: expanded, or refused with a user error (never an internal error) *)
  Lemma path_tilde_refuted : ex ["~"] <> Some ["~"] ->
    exists ws, ty_as_words TyPath opt mw (VStr ["~"]) = Ok ws /\ ty_from_words pe ex TyPath opt ws <> Ok (VStr ["~"]).
  Proof.
    intro N. exists [qw ["~"]]. split; [reflexivity|].
    cbn [ty_from_words]. unfold path_from_words. change (str_from_words [qw ["~"]]) with (VStr ["~"]). cbv iota.
    destruct (ex ["~"]) as [p|]; [|discriminate]. intro E. inversion E. subst. apply N. reflexivity.
  Qed.
  Lemma path_refusal_is_user_error s : ex s = None ->
    ty_from_words pe ex TyPath opt [qw s] = UErr (s_ "PathRefused") s 0.
  Proof. intro H. cbn [ty_from_words]. unfold path_from_words. change (str_from_words [qw s]) with (VStr s). cbv iota. rewrite H. reflexivity. Qed.

  (* ---------------------------------------------------------------- words *)
  Lemma rt_words ws : Parser.is_plain_none ws = false -> Parser.is_plain_auto ws = false ->
    roundtrip pe ex TyWords opt mw (VWords ws).
  Proof.
    intros N A. exists ws. split; [reflexivity|]. cbn [ty_from_words]. unfold words_from_words. rewrite N, A. reflexivity.
  Qed.

  (* ---------------------------------------------------------------- strings *)
  Lemma strings_words_values l : map wv (map string_word l) = l.
  Proof.
    induction l as [|s l IH]; [reflexivity|]. cbn [map]. rewrite IH. f_equal.
    unfold string_word. destruct (Parser.is_ident s && negb (none_or_auto s)); reflexivity.
  Qed.
  Lemma map_res_strings l : Conv.map_res strings_item (map VStr l) = Ok (map string_word l).
  Proof.
    induction l as [|s l IH]; [reflexivity|]. cbn [map Conv.map_res strings_item bind]. rewrite IH. reflexivity.
  Qed.
  (* an item spelled None / Auto is written quoted: the written words are never the plain None / Auto *)
  Lemma string_word_not_plain s what : (what = s_ "none" \/ what = s_ "auto") ->
    Parser.is_plain what [string_word s] = false.
  Proof.
    intro W. unfold Parser.is_plain, string_word.
    destruct (Parser.is_ident s && negb (none_or_auto s)) eqn:E; [|reflexivity].
    apply andb_true_iff in E. destruct E as [_ E]. apply negb_true_iff in E. unfold none_or_auto in E.
    apply orb_false_iff in E. destruct E as [E1 E2]. cbn [isq uw wq wv negb andb].
    destruct W as [-> | ->]; assumption.
  Qed.
  Lemma strings_not_plain l what : (what = s_ "none" \/ what = s_ "auto") ->
    Parser.is_plain what (map string_word l) = false.
  Proof.
    intros W. destruct l as [|s [|s2 l]]; try reflexivity. cbn [map]. apply string_word_not_plain. exact W.
  Qed.
  Lemma map_vstr_values l : map (fun w => VStr (wv w)) (map string_word l) = map VStr l.
  Proof. rewrite <- (strings_words_values l) at 2. rewrite !map_map. reflexivity. Qed.

  (* every list of strings round-trips *)
  Lemma rt_strings l : roundtrip pe ex TyStrings opt mw (VList (map VStr l)).
  Proof.
    exists (map string_word l). split.
    - cbn [ty_as_words strings_as_words]. apply map_res_strings.
    - cbn [ty_from_words]. unfold strings_from_words, Parser.is_plain_none, Parser.is_plain_auto.
      rewrite (strings_not_plain l (s_ "none")), (strings_not_plain l (s_ "auto")) by auto.
      rewrite map_vstr_values. reflexivity.
  Qed.

  (* ---------------------------------------------------------------- qstr *)
  (* the domain of qstr: texts that are the canonical spelling of their own tokens *)
  Lemma rt_qstr s ws : tokenize_value_literal s = Ok ws -> Parser.join_sp (map str_of_word ws) = s ->
    Parser.is_plain_none ws = false -> Parser.is_plain_auto ws = false ->
    roundtrip pe ex TyQstr opt mw (VStr s).
  Proof.
    intros T J N A. exists ws. split; [exact T|].
    cbn [ty_from_words]. unfold qstr_from_words. rewrite N, A, J. reflexivity.
  Qed.
  (* in particular every quoted rendering of any string (C03) *)
  Lemma rt_qstr_quoted q s : q <> QN -> roundtrip pe ex TyQstr opt mw (VStr (quote_str q s)).
  Proof.
    intro Q. apply (rt_qstr _ [mkword s q 1]).
    - apply value_literal_quoted. exact Q.
    - reflexivity.
    - unfold Parser.is_plain_none, Parser.is_plain. destruct q; try reflexivity. contradiction.
    - unfold Parser.is_plain_auto, Parser.is_plain. destruct q; try reflexivity. contradiction.
  Qed.
  Lemma qstr_blanks_refuted :
    exists s ws, ty_as_words TyQstr opt mw (VStr s) = Ok ws /\ ty_from_words pe ex TyQstr opt ws = Ok (VStr (s_ "a b")) /\ s <> s_ "a b".
  Proof.
    exists (s_ "a  b"), [mkword (s_ "a") QN 1; mkword (s_ "b") QN 1]. repeat split; try reflexivity. discriminate.
  Qed.

  (* ---------------------------------------------------------------- bool *)
  Lemma rt_bool b : roundtrip pe ex TyBool opt mw (VNum (Conv.NBool b)).
  Proof. destruct b; eexists; split; reflexivity. Qed.

  (* ---------------------------------------------------------------- None and Auto *)
  Definition allows_none (t:ty) : bool :=
    match t with
    | TyInt _ _ an => an
    | TyChoice _ | TyOther _ => false       (* choices: see rt_choice_none *)
    | _ => true
    end.
  Definition allows_auto (t:ty) : bool := match t with TyOther _ => false | _ => true end.

  Lemma rt_none t : allows_none t = true -> roundtrip pe ex t opt mw VNone.
  Proof.
    intro H. destruct t; try discriminate; try (eexists; split; reflexivity).
    cbn in H. subst. eexists; split; reflexivity.
  Qed.
  Lemma rt_auto t : allows_auto t = true -> roundtrip pe ex t opt mw VAuto.
  Proof.
    intro H. destruct t; try discriminate; try (eexists; split; reflexivity).
  Qed.
End Text.
