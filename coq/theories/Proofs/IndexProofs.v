(* C20: the index state machine keeps its three copies of the truth coherent.
   fetch / extract / format are abstract here; the hypotheses each lemma needs are named. *)
From Coq Require Import List Ascii String Bool Arith ZArith Lia.
From Phil Require Import Base Tree Index.
Import ListNotations.

(* ---------- strings, dictionary *)
Lemma ix_eqs_refl : forall a, eqs a a = true.
Proof. induction a as [|c a IH]; cbn; [reflexivity|]. rewrite Ascii.eqb_refl, IH. reflexivity. Qed.
Lemma ix_eqs_eq : forall a b, eqs a b = true -> a = b.
Proof.
  induction a as [|c a IH]; destruct b as [|d b]; cbn; intros H; try discriminate; [reflexivity|].
  apply andb_true_iff in H. destruct H as [H1 H2]. apply Ascii.eqb_eq in H1. subst. f_equal. auto.
Qed.
Lemma ix_eqs_neq : forall a b, eqs a b = false -> a <> b.
Proof. intros a b H E. subst. rewrite ix_eqs_refl in H. discriminate. Qed.

Lemma dget_dset : forall d k k' v,
  dget k (dset k' v d) = if eqs k' k then Some v else dget k d.
Proof.
  induction d as [|[k0 v0] d IH]; intros k k' v; cbn.
  - destruct (eqs k' k); reflexivity.
  - destruct (eqs k0 k') eqn:E0.
    + apply ix_eqs_eq in E0. subst k0. cbn. destruct (eqs k' k); reflexivity.
    + cbn. destruct (eqs k0 k) eqn:E1.
      * apply ix_eqs_eq in E1. subst k0. destruct (eqs k' k) eqn:E2; [|reflexivity].
        apply ix_eqs_eq in E2. subst k'. rewrite ix_eqs_refl in E0. discriminate.
      * apply IH.
Qed.

(* ---------- positions *)
(* the object at position ps below w, with the prefix its full path is formed with *)
Fixpoint locate (prefix:str) (w:obj) (ps:pos) {struct ps} : option (obj * str) :=
  match ps with
  | [] => Some (w, prefix)
  | i :: r =>
      match w with
      | Scp _ ks _ =>
          match nth_error ks i with
          | Some k => locate (kid_prefix w (join_path prefix (oname (ohdr w)))) k r
          | None => None
          end
      | Def _ _ _ => None
      end
  end.

Lemma locate_snoc : forall ps prefix w i,
  locate prefix w (ps ++ [i]) =
  match locate prefix w ps with
  | Some (o, pre) =>
      match o with
      | Scp _ ks _ =>
          match nth_error ks i with
          | Some k => Some (k, kid_prefix o (join_path pre (oname (ohdr o))))
          | None => None
          end
      | Def _ _ _ => None
      end
  | None => None
  end.
Proof.
  induction ps as [|j ps IH]; intros prefix w i; cbn [app locate].
  - destruct w as [h ws a|h ks a]; [reflexivity|]. destruct (nth_error ks i); reflexivity.
  - destruct w as [h ws a|h ks a]; [reflexivity|]. destruct (nth_error ks j); [apply IH|reflexivity].
Qed.

Definition objs_of (e:entry) : list (pos * obj) := match e with EOne p o => [(p, o)] | EMany l => l end.

(* every object stored in the dictionary under key k is the object at its recorded position of
   [root], and k is that object's full path *)
Definition good (root:obj) (d:pindex) : Prop :=
  forall k e, dget k d = Some e ->
  forall q o, In (q, o) (objs_of e) ->
  exists pre, locate [] root q = Some (o, pre) /\ join_path pre (oname (ohdr o)) = k.

Lemma good_nil root : good root [].
Proof. intros k e H. discriminate. Qed.

Lemma visit_good : forall root build fp ps o pre st,
  good root (widx st) -> locate [] root ps = Some (o, pre) -> fp = join_path pre (oname (ohdr o)) ->
  good root (widx (visit build fp ps o st)).
Proof.
  intros root build fp ps o pre st G L Efp. unfold visit.
  destruct (mult_is_true o).
  - set (st0 := if build then _ else st).
    assert (E0 : widx st0 = widx st) by (unfold st0; destruct build; [destruct (is_scope o)|]; reflexivity).
    rewrite E0.
    destruct (dget fp (widx st)) as [[p1 o1|l]|] eqn:D; cbn [widx].
    + exact G.
    + intros k e H q o' Hin. rewrite dget_dset in H. destruct (eqs fp k) eqn:Ek.
      * apply ix_eqs_eq in Ek. subst k. inversion H; subst e. cbn [objs_of] in Hin.
        apply in_app_or in Hin. destruct Hin as [Hin|Hin].
        -- apply (G fp (EMany l) D q o'). exact Hin.
        -- destruct Hin as [Hin|[]]. inversion Hin; subst q o'. exists pre. split; [exact L|symmetry; exact Efp].
      * exact (G k e H q o' Hin).
    + intros k e H q o' Hin. rewrite dget_dset in H. destruct (eqs fp k) eqn:Ek.
      * apply ix_eqs_eq in Ek. subst k. inversion H; subst e. cbn [objs_of] in Hin.
        destruct Hin as [Hin|[]]. inversion Hin; subst q o'. exists pre. split; [exact L|symmetry; exact Efp].
      * exact (G k e H q o' Hin).
  - cbn [widx]. intros k e H q o' Hin. rewrite dget_dset in H. destruct (eqs fp k) eqn:Ek.
    + apply ix_eqs_eq in Ek. subst k. inversion H; subst e. cbn [objs_of] in Hin.
      destruct Hin as [Hin|[]]. inversion Hin; subst q o'. exists pre. split; [exact L|symmetry; exact Efp].
    + exact (G k e H q o' Hin).
Qed.

Lemma walk_eq : forall build prefix ps o st,
  walk build prefix ps o st =
  match werr st with
  | Some _ => st
  | None =>
    let fp := join_path prefix (oname (ohdr o)) in
    if skip_obj build o then st else
    let st1 := visit build fp ps o st in
    match werr st1 with
    | Some _ => st1
    | None =>
      if type_missing build o
      then mkw (widx st1) (wms st1) (wmd st1) (Some (s_ "RuntimeError"))
      else
        match o with
        | Def _ _ _ => st1
        | Scp _ ks _ => fold_kids (fun i k s => walk build (kid_prefix o fp) (ps ++ [i]) k s) ks 0%nat st1
        end
    end
  end.
Proof. intros. destruct o; reflexivity. Qed.

Lemma walk_good : forall root build o prefix ps st,
  good root (widx st) -> locate [] root ps = Some (o, prefix) ->
  good root (widx (walk build prefix ps o st)).
Proof.
  intros root build o. induction o as [h ws a|h ks a IH] using obj_ind2; intros prefix ps st G L; rewrite walk_eq.
  - destruct (werr st); [exact G|]. cbv zeta.
    destruct (skip_obj build (Def h ws a)); [exact G|].
    pose proof (visit_good root build _ ps _ prefix st G L eq_refl) as G1.
    destruct (werr (visit build _ ps (Def h ws a) st)); [exact G1|].
    destruct (type_missing build (Def h ws a)); exact G1.
  - destruct (werr st); [exact G|]. cbv zeta.
    destruct (skip_obj build (Scp h ks a)); [exact G|].
    pose proof (visit_good root build _ ps _ prefix st G L eq_refl) as G1.
    set (fp := join_path prefix (oname (ohdr (Scp h ks a)))) in *.
    destruct (werr (visit build fp ps (Scp h ks a) st)); [exact G1|].
    destruct (type_missing build (Scp h ks a)); [exact G1|].
    (* the loop over the children: generalise the start index and the accumulated state *)
    assert (Hloop : forall l i s,
              (forall j k, nth_error l j = Some k -> nth_error ks (i + j) = Some k) ->
              Forall (fun k => forall prefix ps st, good root (widx st) -> locate [] root ps = Some (k, prefix) ->
                                good root (widx (walk build prefix ps k st))) l ->
              good root (widx s) ->
              good root (widx (fold_kids (fun i k s => walk build (kid_prefix (Scp h ks a) fp) (ps ++ [i]) k s) l i s))).
    { induction l as [|k l IHl]; intros i s Hn Hall Gs; cbn [fold_kids]; [exact Gs|].
      inversion Hall as [|? ? Hk Hl]; subst.
      apply IHl.
      - intros j k' Hj. replace (S i + j) with (i + S j) by lia. apply Hn. exact Hj.
      - exact Hl.
      - apply Hk; [exact Gs|]. rewrite locate_snoc, L.
        specialize (Hn 0 k eq_refl). rewrite Nat.add_0_r in Hn. rewrite Hn. reflexivity. }
    apply Hloop; [intros j k Hj; exact Hj|exact IH|exact G1].
Qed.

Theorem index_of_good : forall w, good w (widx (index_of w)).
Proof. intros w. unfold index_of. apply walk_good; [apply good_nil|reflexivity]. Qed.

(* ---------- an exception is sticky *)
Lemma walk_err_sticky : forall build prefix ps o st e, werr st = Some e -> walk build prefix ps o st = st.
Proof. intros. rewrite walk_eq, H. reflexivity. Qed.

Lemma fold_kids_err_sticky : forall f l i st e,
  (forall i k s e, werr s = Some e -> f i k s = s) ->
  werr st = Some e -> @fold_kids wst f l i st = st.
Proof.
  intros f l. induction l as [|k l IH]; intros i st e Hf He; cbn [fold_kids]; [reflexivity|].
  rewrite (Hf i k st e He). eapply IH; eauto.
Qed.

(* ---------- building (set-up) and re-indexing compute the same path index *)
Fixpoint tmpl_okb (o:obj) : bool :=
  Z.leb (-1) (otmpl (ohdr o)) && match o with Def _ _ _ => true | Scp _ ks _ => forallb tmpl_okb ks end.

Lemma visit_same_idx : forall fp ps o st1 st2,
  widx st1 = widx st2 ->
  widx (visit true fp ps o st1) = widx (visit false fp ps o st2)
  /\ (werr (visit true fp ps o st1) = None -> werr (visit false fp ps o st2) = None).
Proof.
  intros fp ps o st1 st2 E. unfold visit.
  destruct (mult_is_true o).
  - set (st0 := if is_scope o then _ else _).
    assert (E0 : widx st0 = widx st2) by (unfold st0; destruct (is_scope o); cbn [widx]; exact E).
    rewrite E0.
    destruct (dget fp (widx st2)) as [[p1 o1|l]|]; cbn [widx werr]; rewrite ?E0; split; auto; discriminate.
  - cbn [widx werr]. rewrite E. split; auto.
Qed.

Definition same_walk (o:obj) : Prop :=
  forall prefix ps st1 st2, tmpl_okb o = true -> widx st1 = widx st2 ->
    werr st1 = None -> werr st2 = None -> werr (walk true prefix ps o st1) = None ->
    widx (walk true prefix ps o st1) = widx (walk false prefix ps o st2)
    /\ werr (walk false prefix ps o st2) = None.

Lemma fold_build_reindex : forall pre ps l j t1 t2,
  Forall same_walk l -> forallb tmpl_okb l = true ->
  widx t1 = widx t2 -> werr t1 = None -> werr t2 = None ->
  werr (fold_kids (fun i k s => walk true pre (ps ++ [i]) k s) l j t1) = None ->
  widx (fold_kids (fun i k s => walk true pre (ps ++ [i]) k s) l j t1)
  = widx (fold_kids (fun i k s => walk false pre (ps ++ [i]) k s) l j t2)
  /\ werr (fold_kids (fun i k s => walk false pre (ps ++ [i]) k s) l j t2) = None.
Proof.
  intros pre ps. induction l as [|k l IHl]; intros j t1 t2 Hall Hok Et W1 W2 Hfin; cbn [fold_kids] in *; [split; assumption|].
  inversion Hall as [|? ? Hk1 Hk2]; subst.
  cbn [forallb] in Hok. apply andb_true_iff in Hok. destruct Hok as [Hka Hkb].
  destruct (werr (walk true pre (ps ++ [j]) k t1)) eqn:Wk.
  - exfalso.
    erewrite fold_kids_err_sticky in Hfin; [rewrite Wk in Hfin; discriminate| |exact Wk].
    intros i0 k0 s0 e0 He0. apply walk_err_sticky with (e:=e0). exact He0.
  - destruct (Hk1 pre (ps ++ [j]) t1 t2 Hka Et W1 W2 Wk) as [Et' W2'].
    apply IHl; assumption.
Qed.

Lemma skip_same : forall o, Z.leb (-1) (otmpl (ohdr o)) = true -> skip_obj true o = skip_obj false o.
Proof.
  intros o Ht. unfold skip_obj. apply Z.leb_le in Ht.
  destruct (Z.eqb_spec (otmpl (ohdr o)) (-1)), (Z.ltb_spec (otmpl (ohdr o)) 0); try reflexivity; lia.
Qed.

Lemma build_reindex_same : forall o, same_walk o.
Proof.
  induction o as [h ws a|h ks a IH] using obj_ind2; intros prefix ps st1 st2 Ht E E1 E2; rewrite !walk_eq, E1, E2; cbv zeta.
  - assert (Hs : skip_obj true (Def h ws a) = skip_obj false (Def h ws a)).
    { apply skip_same. cbn in Ht. apply andb_true_iff in Ht. tauto. }
    rewrite Hs. destruct (skip_obj false (Def h ws a)); [intros _; split; assumption|].
    destruct (visit_same_idx (join_path prefix (oname (ohdr (Def h ws a)))) ps (Def h ws a) st1 st2 E) as [Ei Ee].
    destruct (werr (visit true _ ps (Def h ws a) st1)) eqn:W1; [intros; congruence|].
    rewrite (Ee eq_refl).
    destruct (type_missing true (Def h ws a)); [cbn [werr]; intros; congruence|].
    cbn [type_missing andb]. intros _. split; [exact Ei|apply Ee; reflexivity].
  - assert (Hs : skip_obj true (Scp h ks a) = skip_obj false (Scp h ks a)).
    { apply skip_same. cbn in Ht. apply andb_true_iff in Ht. tauto. }
    rewrite Hs. destruct (skip_obj false (Scp h ks a)); [intros _; split; assumption|].
    set (fp := join_path prefix (oname (ohdr (Scp h ks a)))).
    destruct (visit_same_idx fp ps (Scp h ks a) st1 st2 E) as [Ei Ee].
    destruct (werr (visit true fp ps (Scp h ks a) st1)) eqn:W1; [intros; congruence|].
    rewrite (Ee eq_refl).
    destruct (type_missing true (Scp h ks a)); [cbn [werr]; intros; congruence|].
    cbn [type_missing andb].
    assert (Hk : forallb tmpl_okb ks = true) by (cbn in Ht; apply andb_true_iff in Ht; tauto).
    intros Hfin. apply fold_build_reindex; auto.
Qed.

Theorem build_of_index_of : forall w,
  tmpl_okb w = true -> werr (build_of w) = None ->
  widx (build_of w) = widx (index_of w) /\ werr (index_of w) = None.
Proof. intros w Ht He. unfold build_of, index_of in *. apply build_reindex_same; auto. Qed.

(* ---------- completeness: every object the indexer visits has its full path as a key *)
Definition has_key (k:str) (d:pindex) : Prop := dget k d <> None.

Lemma dset_has_key : forall d k k' v, has_key k d -> has_key k (dset k' v d).
Proof. intros d k k' v H. unfold has_key in *. rewrite dget_dset. destruct (eqs k' k); [discriminate|exact H]. Qed.
Lemma dset_sets_key : forall d k v, has_key k (dset k v d).
Proof. intros d k v. unfold has_key. rewrite dget_dset, ix_eqs_refl. discriminate. Qed.

Lemma visit_mono : forall build fp ps o st k, has_key k (widx st) -> has_key k (widx (visit build fp ps o st)).
Proof.
  intros build fp ps o st k H. unfold visit. destruct (mult_is_true o).
  - set (st0 := if build then _ else st).
    assert (E0 : widx st0 = widx st) by (unfold st0; destruct build; [destruct (is_scope o)|]; reflexivity).
    destruct (dget fp (widx st0)) as [[p1 o1|l]|]; cbn [widx]; rewrite E0; try apply dset_has_key; exact H.
  - cbn [widx]. apply dset_has_key. exact H.
Qed.

Lemma visit_sets : forall build fp ps o st, werr (visit build fp ps o st) = None -> has_key fp (widx (visit build fp ps o st)).
Proof.
  intros build fp ps o st. unfold visit. destruct (mult_is_true o).
  - set (st0 := if build then _ else st).
    destruct (dget fp (widx st0)) as [[p1 o1|l]|]; cbn [widx werr]; intros H; try discriminate; apply dset_sets_key.
  - cbn [widx]. intros _. apply dset_sets_key.
Qed.

Lemma fold_kids_mono : forall (f:nat -> obj -> wst -> wst) k l,
  Forall (fun o => forall i st, has_key k (widx st) -> has_key k (widx (f i o st))) l ->
  forall i st, has_key k (widx st) -> has_key k (widx (fold_kids f l i st)).
Proof.
  intros f k l H. induction H as [|o l Ho Hl IH]; intros i st Hk; cbn [fold_kids]; [exact Hk|].
  apply IH. apply Ho. exact Hk.
Qed.

Lemma walk_mono : forall build o prefix ps st k, has_key k (widx st) -> has_key k (widx (walk build prefix ps o st)).
Proof.
  intros build o. induction o as [h ws a|h ks a IH] using obj_ind2; intros prefix ps st k Hk; rewrite walk_eq.
  - destruct (werr st); [exact Hk|]. cbv zeta. destruct (skip_obj build _); [exact Hk|].
    pose proof (visit_mono build (join_path prefix (oname (ohdr (Def h ws a)))) ps (Def h ws a) st k Hk) as H1.
    destruct (werr (visit build _ ps (Def h ws a) st)); [exact H1|]. destruct (type_missing build _); exact H1.
  - destruct (werr st); [exact Hk|]. cbv zeta. destruct (skip_obj build _); [exact Hk|].
    pose proof (visit_mono build (join_path prefix (oname (ohdr (Scp h ks a)))) ps (Scp h ks a) st k Hk) as H1.
    destruct (werr (visit build _ ps (Scp h ks a) st)); [exact H1|]. destruct (type_missing build _); [exact H1|].
    apply fold_kids_mono; [|exact H1].
    eapply Forall_impl; [|exact IH]. intros o Ho i st' Hk'. apply Ho. exact Hk'.
Qed.

(* the object at position q below w is reached by reindex_phil_objects: no object on the way
   (w included, the object itself included) is a hidden template (is_template < 0) *)
Fixpoint visible (w:obj) (q:pos) {struct q} : bool :=
  negb (skip_obj false w) &&
  match q with
  | [] => true
  | i :: r =>
      match w with
      | Scp _ ks _ => match nth_error ks i with Some k => visible k r | None => false end
      | Def _ _ _ => false
      end
  end.

Lemma walk_err_none_start : forall build prefix ps o st, werr (walk build prefix ps o st) = None -> werr st = None.
Proof.
  intros build prefix ps o st H. destruct (werr st) eqn:E; [|reflexivity].
  rewrite (walk_err_sticky build prefix ps o st s E) in H. congruence.
Qed.

Lemma fold_present : forall (f:nat -> obj -> wst -> wst) key l n k,
  (forall i o s e, werr s = Some e -> f i o s = s) ->
  (forall i o st k', has_key k' (widx st) -> has_key k' (widx (f i o st))) ->
  nth_error l n = Some k ->
  forall j st,
  (forall st', werr (f (j + n) k st') = None -> has_key key (widx (f (j + n) k st'))) ->
  werr (fold_kids f l j st) = None ->
  has_key key (widx (fold_kids f l j st)).
Proof.
  intros f key l. induction l as [|o l IH]; intros n k Hst Hmono Hn j st Hk Hfin; [destruct n; discriminate|].
  cbn [fold_kids] in *. destruct n as [|n]; cbn [nth_error] in Hn.
  - inversion Hn; subst o. rewrite Nat.add_0_r in Hk.
    apply fold_kids_mono.
    + apply Forall_forall. intros x _ i st' H. apply Hmono. exact H.
    + apply Hk. destruct (werr (f j k st)) eqn:E; [|reflexivity].
      rewrite (fold_kids_err_sticky f l (S j) _ s Hst E) in Hfin. congruence.
  - apply (IH n k Hst Hmono Hn (S j)); [|exact Hfin].
    intros st' H. replace (S j + n) with (j + S n) in * by lia. apply Hk. exact H.
Qed.

Theorem walk_present : forall o prefix ps st q o' pre',
  werr (walk false prefix ps o st) = None ->
  visible o q = true -> locate prefix o q = Some (o', pre') ->
  has_key (join_path pre' (oname (ohdr o'))) (widx (walk false prefix ps o st)).
Proof.
  induction o as [h ws a|h ks a IH] using obj_ind2; intros prefix ps st q o' pre' Hfin Hv Hl.
  - pose proof (walk_err_none_start _ _ _ _ _ Hfin) as E0.
    destruct q as [|i r]; [|cbn in Hl; discriminate].
    cbn [locate] in Hl. inversion Hl; subst o' pre'. clear Hl.
    cbn [visible] in Hv. rewrite andb_true_r in Hv. apply negb_true_iff in Hv.
    rewrite walk_eq in *. rewrite E0 in *. cbv zeta in *. rewrite Hv in *.
    pose proof (visit_sets false (join_path prefix (oname (ohdr (Def h ws a)))) ps (Def h ws a) st) as Hs.
    destruct (werr (visit false _ ps (Def h ws a) st)) eqn:W; [congruence|].
    cbn [type_missing andb] in *. apply Hs. reflexivity.
  - pose proof (walk_err_none_start _ _ _ _ _ Hfin) as E0.
    assert (Hv' : skip_obj false (Scp h ks a) = false /\
                  match q with [] => true | i :: r => match nth_error ks i with Some k => visible k r | None => false end end = true).
    { destruct q; cbn [visible] in Hv; apply andb_true_iff in Hv; destruct Hv as [Hv Hq]; apply negb_true_iff in Hv; auto. }
    clear Hv. destruct Hv' as [Hv Hq].
    rewrite walk_eq in *. rewrite E0 in *. cbv zeta in *. rewrite Hv in *.
    set (fp := join_path prefix (oname (ohdr (Scp h ks a)))) in *.
    pose proof (visit_sets false fp ps (Scp h ks a) st) as Hs.
    destruct (werr (visit false fp ps (Scp h ks a) st)) eqn:W; [congruence|].
    cbn [type_missing andb] in *.
    destruct q as [|i r].
    + cbn [locate] in Hl. inversion Hl; subst o' pre'. clear Hl.
      apply fold_kids_mono; [|apply Hs; reflexivity].
      apply Forall_forall. intros x _ j st' H. apply walk_mono. exact H.
    + cbn [locate] in Hl. destruct (nth_error ks i) as [k|] eqn:N; [|discriminate].
      eapply (fold_present _ _ ks i k); [| |exact N| |exact Hfin].
      * intros j o s e He. apply walk_err_sticky with (e:=e). exact He.
      * intros j o st' k' H. apply walk_mono. exact H.
      * intros st' Hk. cbn [Nat.add]. rewrite Forall_forall in IH.
        apply (IH k (nth_error_In _ _ N) _ _ st' r o' pre' Hk Hq Hl).
Qed.

Theorem index_of_present : forall w q o pre,
  werr (index_of w) = None -> visible w q = true -> locate [] w q = Some (o, pre) ->
  has_key (join_path pre (oname (ohdr o))) (widx (index_of w)).
Proof. intros w q o pre He Hv Hl. unfold index_of in *. eapply walk_present; eauto. Qed.

(* with soundness: if no other position of the tree has that full path, the entry holds exactly this object *)
Theorem index_of_unique : forall w q o pre,
  werr (index_of w) = None -> visible w q = true -> locate [] w q = Some (o, pre) ->
  (forall q' o' pre', locate [] w q' = Some (o', pre') ->
     join_path pre' (oname (ohdr o')) = join_path pre (oname (ohdr o)) -> q' = q) ->
  exists e, dget (join_path pre (oname (ohdr o))) (widx (index_of w)) = Some e
            /\ forall q' o', In (q', o') (objs_of e) -> q' = q /\ o' = o.
Proof.
  intros w q o pre He Hv Hl Hu.
  pose proof (index_of_present w q o pre He Hv Hl) as Hk. unfold has_key in Hk.
  destruct (dget (join_path pre (oname (ohdr o))) (widx (index_of w))) as [e|] eqn:D; [|congruence].
  exists e. split; [reflexivity|]. intros q' o' Hin.
  destruct (index_of_good w _ e D q' o' Hin) as [pre'' [L' P']].
  pose proof (Hu q' o' pre'' L' P') as Eq. subst q'. rewrite Hl in L'. inversion L'; subst. split; reflexivity.
Qed.
