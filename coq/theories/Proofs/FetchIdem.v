(* C07: re-fetching a fetch result gives the result back (fetch_scope_refetch / refetch).
   Domain (wfd, "D07"): masters whose active entries carry distinct dot-free names (further master
   occurrences of a .multiple entry allowed; .multiple entries may be nested in .multiple scopes), no
   deprecated definition, definitions with is_template = 0, choice defaults that the choice converter
   maps to themselves, "$"-free; sources "$"-free.
   The canon oracle is abstract; the one hypothesis on it is default_ok for every .multiple entry:
   the instance obtained by fetching the entry against a copy of itself has the canonical text the
   entry reports for itself. *)
From Coq Require Import List Ascii String Bool Arith ZArith Lia.
From Phil Require Import Base Tree Vars Choice ChoiceProofs ChoiceTop Fetch FetchBasics FetchShape FetchDisabled
  FetchIdemLists FetchIdemBase.
Import ListNotations.
Local Open Scope char_scope.

(* ------------------------------------------------------------------ small facts *)
Lemma with_tmpl_id : forall h z, otmpl h = z -> with_tmpl h z = h.
Proof. intros [n d t m p l] z E. cbn in E. subst. reflexivity. Qed.

Lemma strip_obj_def_inv : forall x h ws a, strip_obj x = Def h ws a -> x = Def h ws a.
Proof. intros [h0 ws0 a0|h0 ks0 a0] h ws a H; [exact H|rewrite strip_obj_scp in H; discriminate]. Qed.

Lemma strip_obj_scp_inv : forall x h ks a, strip_obj x = Scp h ks a ->
  exists ks', x = Scp h ks' a /\ strip_objs ks' = ks.
Proof.
  intros [h0 ws0 a0|h0 ks0 a0] h ks a H; [discriminate|]. rewrite strip_obj_scp in H.
  injection H as E1 E2 E3. subst. exists ks0. split; reflexivity.
Qed.

Lemma rmap_fst_ok : forall A B (r:res (A * B)) x, rmap fst r = Ok x -> exists st, r = Ok st /\ fst st = x.
Proof. intros A B r x H. destruct r as [st| |]; cbn in H; try discriminate. injection H as E. exists st. auto. Qed.

Lemma map_snd_pair : forall A (b:bool) (l:list A), map snd (map (pair b) l) = l.
Proof. intros. rewrite map_map. cbn. apply map_id. Qed.

Lemma somesP_map_some : forall l, somesP (map Some l) = l.
Proof. induction l as [|p l IH]; cbn; [reflexivity|rewrite IH; reflexivity]. Qed.

(* ------------------------------------------------------------------ the domain *)
Definition choice_stable (opt:aval) (mws:list word) : Prop :=
  choice_fetch opt mws mws false = Ok mws /\
  forall ws r, choice_fetch opt mws ws false = Ok r -> choice_fetch opt mws r false = Ok r.

Definition def_ok (k:obj) : Prop :=
  match k with
  | Def h mws a =>
      otmpl h = 0%Z /\ odeprecated k = false /\
      match get_attr (s_ "type") a with
      | AType (TyChoice _) => choice_stable (get_attr (s_ "optional") a) mws
      | AType (TyOther p) => (prefixb (s_ "float") p || prefixb (s_ "int") p) = true   (* a modelled converter *)
      | _ => True
      end
  | Scp _ _ _ => True
  end.

Section Idem.
  Variable env : str -> option str.
  Variable canon : obj -> option obj -> res str.

  Notation fsc := (fetch_scope env canon false).

  (* H_default_canonical for the entry k *)
  Definition default_ok (k:obj) : Prop :=
    forall chain, exists c u,
      cand_fetch env canon false k (fsc k chain) (mklsrc [] k []) = Ok (Some c, u) /\
      canon k (Some c) = canon k None.

  (* wfd M : M is a master object of the domain *)
  Inductive wfd : obj -> Prop :=
    | wfd_def : forall h mws a, def_ok (Def h mws a) -> wfd (Def h mws a)
    | wfd_scp : forall h ks a,
        NoDup (map onm (entries ks)) ->
        (forall k, In k (entries ks) ->
           onm k <> [] /\ nodot (onm k) /\
           (omultiple k = true -> default_ok k) /\
           wfd k) ->
        wfd (Scp h ks a).

  (* ---------------------------------------------------------------- definitions *)
  Lemma def_value_refetch : forall h mws a s o, def_ok (Def h mws a) -> words_plain mws -> oplain (lobj s) ->
    def_fetch_value env false h mws a s = Ok (Some o) ->
    forall s', lobj s' = o -> def_fetch_value env false h mws a s' = Ok (Some o).
  Proof.
    intros h mws a s o [Ht [Hdep Hch]] Hm Hs H s' Es'. unfold def_fetch_value in H.
    destruct (lobj s) as [h0 ws0 a0|] eqn:Es; [|discriminate].
    apply oplain_def in Hs. rewrite resolve_plain in H by exact Hs. cbn [bind owords] in H.
    rewrite Hdep in H. cbn [andb] in H.
    assert (Hgen : forall w, words_plain w -> o = dcopy h a w ->
              (match get_attr (s_ "type") a with
               | AType (TyChoice _) => False | AType (TyOther p) => (prefixb (s_ "float") p || prefixb (s_ "int") p) = true
               | _ => True end) ->
              def_fetch_value env false h mws a s' = Ok (Some o)).
    { intros w Hw Eo Hty. unfold def_fetch_value. rewrite Es', Eo. unfold dcopy.
      rewrite resolve_plain by exact Hw. cbn [bind owords]. rewrite Hdep. cbn [andb].
      destruct (get_attr (s_ "type") a) as [| | | | |t]; try reflexivity.
      destruct t; try reflexivity; [contradiction|]. rewrite Hty. reflexivity. }
    destruct (get_attr (s_ "type") a) as [| | | | |t] eqn:Et; try (injection H as E; apply (Hgen ws0 Hs); [symmetry; exact E|exact I]).
    destruct t; try (injection H as E; apply (Hgen ws0 Hs); [symmetry; exact E|exact I]).
    - (* choice *)
      bind_inv H as cw Hcw. injection H as E. subst o.
      unfold def_fetch_value. rewrite Es'. unfold dcopy.
      assert (Hcwp : words_plain cw) by (eapply choice_fetch_plain; [exact Hm|exact Hcw]).
      rewrite resolve_plain by exact Hcwp. cbn [bind owords]. rewrite Hdep. cbn [andb]. rewrite Et.
      destruct Hch as [_ Hst]. rewrite (Hst _ _ Hcw). reflexivity.
    - destruct (prefixb (s_ "float") printed || prefixb (s_ "int") printed) eqn:Ep; [|discriminate].
      injection H as E. apply (Hgen ws0 Hs); [symmetry; exact E|reflexivity].
  Qed.

  (* fetching the master definition against itself gives itself *)
  Lemma def_self_fetch : forall h mws a s', def_ok (Def h mws a) -> words_plain mws ->
    (exists h' a', lobj s' = Def h' mws a') ->
    def_fetch_value env false h mws a s' = Ok (Some (Def h mws a)).
  Proof.
    intros h mws a s' [Ht [Hdep Hch]] Hm [h' [a' Es']]. unfold def_fetch_value. rewrite Es'.
    rewrite resolve_plain by exact Hm. cbn [bind owords]. rewrite Hdep. cbn [andb].
    assert (E : dcopy h a mws = Def h mws a) by (unfold dcopy; rewrite (with_tmpl_id h 0%Z Ht); reflexivity).
    destruct (get_attr (s_ "type") a) as [| | | | |t] eqn:Et; try (rewrite E; reflexivity).
    destruct t; try (rewrite E; reflexivity).
    - destruct Hch as [Hself _]. rewrite Hself. cbn [bind]. rewrite E. reflexivity.
    - rewrite Hch. rewrite E. reflexivity.
  Qed.

  Lemma def_loop_last : forall h mws a ms last ro,
    def_loop env canon false h mws a ms last = Ok ro ->
    (ms = [] /\ ro = last) \/ exists s, In s ms /\ def_fetch_value env false h mws a s = Ok ro.
  Proof.
    intros h mws a ms. induction ms as [|s r IH]; intros last ro H; cbn [def_loop] in H.
    - left. injection H as E. auto.
    - right. bind_inv H as x Hx. destruct (IH _ _ H) as [[E1 E2]|[s' [A B]]].
      + subst. exists s. split; [left; reflexivity|exact Hx].
      + exists s'. split; [right; exact A|exact B].
  Qed.

  Lemma def_fetch_value_some : forall h mws a s ro, odeprecated (Def h mws a) = false ->
    def_fetch_value env false h mws a s = Ok ro -> exists o, ro = Some o.
  Proof.
    intros h mws a s ro Hdep H. unfold def_fetch_value in H. destruct (lobj s); [|discriminate].
    bind_inv H as rws Hrws. rewrite Hdep in H. cbn [andb] in H.
    destruct (get_attr (s_ "type") a) as [| | | | |t]; try (injection H as E; eauto).
    destruct t; try (injection H as E; eauto).
    - bind_inv H as cw Hcw. injection H as E. eauto.
    - destruct (prefixb (s_ "float") printed || prefixb (s_ "int") printed); [injection H as E; eauto|discriminate].
  Qed.

  (* ---------------------------------------------------------------- instances of a multiple entry *)
  Definition rec_idem (rec:list lsrc -> res fout) : Prop :=
    forall comb os u, lplain comb -> rec comb = Ok (os, u) ->
    forall comb', lplain comb' -> lview comb' = strip_objs os -> exists u', rec comb' = Ok (os, u').

  Definition entry_ok (k:obj) : Prop := def_ok k /\ (omultiple k = true -> default_ok k).

  Lemma inst_refetch : forall k rec s c u, def_ok k -> oplain k -> rec_idem rec -> oplain (lobj s) ->
    cand_fetch env canon false k rec s = Ok (Some c, u) ->
    forall s', sl s' = strip_obj c -> oplain (lobj s') -> exists u', cand_fetch env canon false k rec s' = Ok (Some c, u').
  Proof.
    intros k rec s c u Hok Hk Hrec Hs H s' Es' Hs'. destruct k as [h mws a|h ks a]; cbn [cand_fetch] in *.
    - bind_inv H as r Hr. injection H as E _. subst r. unfold def_fetch in *.
      destruct (def_fetch_value_shape env false h mws a s c Hr) as [w [Ec _]].
      assert (El : lobj s' = c).
      { unfold sl in Es'. rewrite Ec in Es'. cbn in Es'. rewrite Ec. apply strip_obj_def_inv. exact Es'. }
      rewrite (def_value_refetch h mws a s c Hok (proj1 (oplain_def h mws a) Hk) Hs Hr s' El). cbn. eauto.
    - bind_inv H as comb Hcomb. bind_inv H as oc Hoc. injection H as E _. subst c.
      cbn [combine] in Hcomb. destruct (is_def (lobj s)) eqn:Ed; [discriminate|]. cbn in Hcomb. injection Hcomb as E. subst comb.
      unfold sl, scopy in Es'. rewrite strip_obj_scp in Es'. apply strip_obj_scp_inv in Es'. destruct Es' as [ks' [El Ek]].
      cbn [combine]. rewrite El. cbn [is_def bind].
      destruct oc as [os u0]. cbn [fst snd] in *.
      destruct (Hrec (src_kids s ++ []) os u0) with (comb' := src_kids s' ++ []) as [u' Hu'].
      + rewrite app_nil_r. apply src_kids_plain1. exact Hs.
      + exact Hoc.
      + rewrite app_nil_r. apply src_kids_plain1. exact Hs'.
      + rewrite app_nil_r, lview_src_kids. unfold sl. rewrite El, strip_obj_scp. cbn. exact Ek.
      + rewrite Hu'. cbn. eauto.
  Qed.

  Lemma cand_fetch_hdr : forall k rec s c u, cand_fetch env canon false k rec s = Ok (Some c, u) ->
    ohdr c = with_tmpl (ohdr k) 0.
  Proof.
    intros k rec s c u H. destruct k as [h mws a|h ks a]; cbn [cand_fetch] in H.
    - bind_inv H as r Hr. injection H as E _. subst r. unfold def_fetch in Hr.
      destruct (def_fetch_value_shape env false h mws a s c Hr) as [w [Ec _]]. subst c. reflexivity.
    - bind_inv H as comb Hcomb. bind_inv H as oc Hoc. injection H as E _. subst c. reflexivity.
  Qed.

  (* ---------------------------------------------------------------- helpers for one master entry *)
  Lemma strip_objs_active : forall l, (forall x, In x l -> odis (ohdr x) = false) -> strip_objs l = map strip_obj l.
  Proof.
    induction l as [|x l IH]; intros H; [reflexivity|]. cbn [strip_objs map].
    rewrite (H x (or_introl eq_refl)). f_equal. apply IH. intros y Hy. apply H. right. exact Hy.
  Qed.

  Lemma same_body_set_hdr : forall k h, same_body (set_hdr k h) k.
  Proof. intros [h0 ws a|h0 ks a] h; cbn; reflexivity. Qed.

  Lemma template_of_nil_iff : forall k pd pd', (pd = [] <-> pd' = []) -> template_of k pd = template_of k pd'.
  Proof.
    intros k pd pd' H. unfold template_of. destruct (mandatory (ooptional k)); [reflexivity|].
    destruct pd as [|x pd]; destruct pd' as [|y pd']; try reflexivity.
    - destruct H as [H _]. specialize (H eq_refl). discriminate.
    - destruct H as [_ H]. specialize (H eq_refl). discriminate.
  Qed.

  Lemma combine_plain : forall ms comb, lplain ms -> combine ms = Ok comb -> lplain comb.
  Proof.
    induction ms as [|s r IH]; intros comb Hm Hcomb.
    - cbn in Hcomb. injection Hcomb as E. subst. intros x [].
    - cbn [combine] in Hcomb. destruct (is_def (lobj s)); [discriminate|]. bind_inv Hcomb as rest Hrest. injection Hcomb as E. subst comb.
      intros x Hx. apply in_app_or in Hx. destruct Hx as [Hx|Hx].
      + eapply src_kids_plain1; [|exact Hx]. apply Hm. left. reflexivity.
      + eapply IH; [|exact Hrest|exact Hx]. intros y Hy. apply Hm. right. exact Hy.
  Qed.

  (* the kept instances, offered again, are kept again with the same texts *)
  Lemma evs_insts : forall k rec mas (ps:pairs) M', def_ok k -> oplain k -> rec_idem rec ->
    (forall p, In p ps -> exists s, oplain (lobj s) /\ ev env canon false k rec mas s = Ok (Some p)) ->
    map sl M' = map strip_obj (map snd ps) -> (forall s, In s M' -> oplain (lobj s)) ->
    evs env canon false k rec mas M' = Ok (map Some ps).
  Proof.
    intros k rec mas ps. induction ps as [|[t c] ps IH]; intros M' Hok Hk Hrec Hor Hv Hp.
    - destruct M'; [reflexivity|discriminate].
    - destruct M' as [|s' r']; [discriminate|]. cbn [map snd] in Hv. injection Hv as Hs' Hr'.
      destruct (Hor (t, c) (or_introl eq_refl)) as [s [Hsp Hev]].
      destruct (ev_some env canon false k rec mas s t c Hev) as [u [Hcf [Hcn [Hne _]]]].
      destruct (inst_refetch k rec s c u Hok Hk Hrec Hsp Hcf s' Hs' (Hp s' (or_introl eq_refl))) as [u' Hu'].
      cbn [evs]. unfold ev at 1. rewrite Hu'. cbn [bind fst]. unfold diff_skip. cbn [andb]. rewrite Hcn. cbn [bind]. rewrite Hne. cbn [bind].
      rewrite (IH r' Hok Hk Hrec); [reflexivity| |exact Hr'|].
      + intros p Hp0. apply Hor. right. exact Hp0.
      + intros x Hx. apply Hp. right. exact Hx.
  Qed.

  Lemma evs_app_ok : forall k rec mas a b el, evs env canon false k rec mas (a ++ b) = Ok el ->
    exists ea eb, evs env canon false k rec mas a = Ok ea /\ evs env canon false k rec mas b = Ok eb /\ el = ea ++ eb.
  Proof.
    intros k rec mas a b el H. rewrite evs_app in H. bind_inv H as ea Hea. bind_inv H as eb Heb.
    injection H as E. exists ea, eb. auto.
  Qed.

  (* ---------------------------------------------------------------- one master entry, fetched again *)
  Lemma fetch_one_refetch : forall allks chain i k rec srcs b u,
    odis (ohdr k) = false -> oplain k -> (forall x, In x allks -> oplain x) ->
    def_ok k ->
    (omultiple k = true -> exists c0 u0, cand_fetch env canon false k rec (mklsrc [] k []) = Ok (Some c0, u0) /\
                                         canon k (Some c0) = canon k None) ->
    rec_ok rec -> rec_plain rec -> rec_idem rec ->
    lplain srcs -> fetch_one env canon false allks chain i k rec srcs = Ok (b, u) ->
    forall srcs', lplain srcs' -> map sl (match_sources (onm k) srcs') = strip_objs b ->
    exists u', fetch_one env canon false allks chain i k rec srcs' = Ok (b, u').
  Proof.
    intros allks chain i k rec srcs b u Hact Hk Hall Hok Hdef Hrok Hrpl Hrid Hp H srcs' Hp' Hv.
    unfold fetch_one in *. unfold onm in Hv.
    destruct (get_attr (s_ "alias") (oattrs k)); try discriminate.
    destruct (oname (ohdr k)) as [|c0 nm] eqn:En; [discriminate|].
    pose proof (match_sources_plain (c0 :: nm) srcs Hp) as Hm.
    pose proof (match_sources_plain (c0 :: nm) srcs' Hp') as Hm'.
    destruct (omultiple k) eqn:Em; cbn [negb] in *.
    - (* ---- multiple *)
      bind_inv H as mas Hmas. bind_inv H as st Hst. destruct st as [[pd robjs] used]. injection H as Eb Eu. subst b. cbn [app] in Hv.
      set (S := self_matching allks chain i (c0 :: nm)) in *.
      set (X := match_sources (c0 :: nm) srcs) in *.
      pose proof (mult_loop_fold env canon false k rec mas Hmas (map (pair true) S ++ map (pair false) X) (fun _ _ => eq_refl) [] [] []) as F.
      rewrite Hst in F. cbn [rmap fst] in F. rewrite map_app, !map_snd_pair in F.
      destruct (evs env canon false k rec mas (S ++ X)) as [el| |] eqn:Eel; cbn [rmap] in F; try discriminate.
      injection F as F.
      destruct (evs_app_ok _ _ _ _ _ _ Eel) as [elS [elX [HelS [HelX Eapp]]]].
      destruct (fold_pstep_grel el [] [] [] grel_nil) as [g [Hg Eg]]. rewrite <- F in Hg. cbn [fst snd] in Hg.
      cbn [somesP] in Eg. rewrite kl_dd in Eg.
      assert (HL : somes robjs = map snd (dd (somesP el))).
      { rewrite (gr_objs _ _ _ Hg), somes_objs_of, Eg. reflexivity. }
      (* origins of the kept pairs *)
      assert (Hor : forall p, In p (dd (somesP el)) -> exists s, oplain (lobj s) /\ ev env canon false k rec mas s = Ok (Some p)).
      { intros p Hp0. apply In_dd in Hp0. destruct (evs_In env canon false k rec mas _ _ _ Eel Hp0) as [s [Hs Hev]].
        exists s. split; [|exact Hev]. apply in_app_or in Hs. destruct Hs as [Hs|Hs].
        - eapply self_matching_plain; eassumption.
        - apply Hm. exact Hs. }
      assert (Hactive : forall x, In x (somes robjs) -> odis (ohdr x) = false).
      { intros x Hx. rewrite HL in Hx. apply in_map_iff in Hx. destruct Hx as [[t c] [E Hx]]. cbn in E. subst x.
        destruct (Hor _ Hx) as [s [_ Hev]]. destruct (ev_some _ _ _ _ _ _ _ _ _ Hev) as [u1 [Hcf _]].
        rewrite (cand_fetch_hdr _ _ _ _ _ Hcf). cbn. exact Hact. }
      (* the matching objects of the second run: the template, then the kept instances *)
      assert (HactT : odis (ohdr (template_of k pd)) = false).
      { unfold template_of. destruct k; cbn; exact Hact. }
      cbn [strip_objs] in Hv. rewrite HactT in Hv. rewrite (strip_objs_active _ Hactive) in Hv.
      destruct (match_sources (c0 :: nm) srcs') as [|sT M'] eqn:EM'; [discriminate|].
      cbn [map] in Hv. injection Hv as HvT HvM.
      (* the template is skipped *)
      assert (HevT : ev env canon false k rec mas sT = Ok None).
      { destruct (Hdef eq_refl) as [cd [ud [Hcd Hcn]]].
        assert (Hsim : ssim sT (mklsrc [] k [])).
        { split; [|split; [apply Hm'; left; reflexivity|exact Hk]]. cbn [lobj].
          eapply same_body_trans; [apply same_body_sym, same_body_strip|]. unfold sl in HvT. rewrite HvT.
          eapply same_body_trans; [apply same_body_strip|]. unfold template_of. apply same_body_set_hdr. }
        pose proof (cand_fetch_ssim env canon false k rec sT _ Hrok Hsim) as R. rewrite Hcd in R.
        destruct (cand_fetch env canon false k rec sT) as [[cT uT]| |] eqn:EcT; cbn in R; try contradiction. subst cT.
        unfold ev. rewrite EcT. cbn [bind fst]. unfold diff_skip. cbn [andb]. rewrite Hcn, Hmas. cbn [bind]. rewrite f_eqs_refl. reflexivity. }
      (* the instances are kept again *)
      assert (HevM : evs env canon false k rec mas M' = Ok (map Some (dd (somesP el)))).
      { apply evs_insts; try assumption.
        - rewrite HvM, HL. reflexivity.
        - intros s Hs. apply Hm'. right. exact Hs. }
      assert (Hel2 : evs env canon false k rec mas (S ++ sT :: M') = Ok (elS ++ None :: map Some (dd (somesP el)))).
      { rewrite evs_app, HelS. cbn [bind evs]. rewrite HevT. cbn [bind]. rewrite HevM. reflexivity. }
      pose proof (mult_loop_fold env canon false k rec mas Hmas (map (pair true) S ++ map (pair false) (sT :: M')) (fun _ _ => eq_refl) [] [] []) as F2.
      rewrite map_app, !map_snd_pair, Hel2 in F2. cbn [rmap] in F2.
      apply rmap_fst_ok in F2. destruct F2 as [[[pd2 robjs2] used2] [Hst2 F2]]. cbn [fst] in F2.
      destruct (fold_pstep_grel (elS ++ None :: map Some (dd (somesP el))) [] [] [] grel_nil) as [g2 [Hg2 Eg2]].
      rewrite <- F2 in Hg2. cbn [fst snd] in Hg2.
      cbn [somesP] in Eg2. rewrite kl_dd, somesP_app in Eg2. cbn [somesP] in Eg2. rewrite somesP_map_some in Eg2.
      assert (Esp : somesP el = somesP elS ++ somesP elX) by (rewrite Eapp; apply somesP_app).
      rewrite Esp in Eg2 at 1. rewrite dd_refetch in Eg2. rewrite <- Esp in Eg2.
      rewrite Hmas. cbn [bind]. rewrite Hst2. cbn [bind]. eexists. f_equal. f_equal. cbn [app]. f_equal.
      + apply template_of_nil_iff. rewrite (grel_pd_nil _ _ _ Hg2), (grel_pd_nil _ _ _ Hg), Eg2, Eg. reflexivity.
      + rewrite (gr_objs _ _ _ Hg2), somes_objs_of, Eg2. symmetry. exact HL.
    - destruct k as [h mws a|h ks a].
      + (* ---- definition *)
        pose proof Hok as [Ht [Hdep Hty]].
        pose proof (proj1 (oplain_def h mws a) Hk) as Hmws.
        bind_inv H as ro Hro. destruct ro as [o|].
        * injection H as Eb Eu. subst b.
          destruct (def_loop_last _ _ _ _ _ _ Hro) as [[_ E]|[s [Hs Hfv]]]; [discriminate|].
          destruct (def_fetch_value_shape env false h mws a s o Hfv) as [w [Eo _]].
          assert (Ho : odis (ohdr o) = false) by (subst o; cbn; exact Hact).
          assert (Hso : strip_obj o = o) by (rewrite Eo; reflexivity).
          cbn [strip_objs] in Hv. rewrite Ho, Hso in Hv.
          destruct (match_sources (c0 :: nm) srcs') as [|s' r'] eqn:EM'; [discriminate|]. destruct r'; [|discriminate].
          cbn [map] in Hv. injection Hv as Hv.
          assert (El : lobj s' = o) by (unfold sl in Hv; rewrite Eo in Hv |- *; apply strip_obj_def_inv; exact Hv).
          cbn [def_loop]. unfold def_fetch.
          rewrite (def_value_refetch h mws a s o Hok Hmws (Hm s Hs) Hfv s' El). cbn. eauto.
        * cbn [negb andb] in H. rewrite Hdep in H. cbn [negb] in H. injection H as Eb Eu. subst b.
          cbn [strip_objs ohdr] in Hv. cbn [ohdr] in Hact. rewrite Hact in Hv. cbn [strip_obj] in Hv.
          destruct (match_sources (c0 :: nm) srcs') as [|s' r'] eqn:EM'; [discriminate|]. destruct r'; [|discriminate].
          cbn [map] in Hv. injection Hv as Hv. unfold sl in Hv. apply strip_obj_def_inv in Hv.
          cbn [def_loop]. unfold def_fetch.
          rewrite (def_self_fetch h mws a s' Hok Hmws); [cbn; eauto|]. exists h, a. exact Hv.
      + (* ---- scope *)
        bind_inv H as comb Hcomb. bind_inv H as oc Hoc. cbn [andb] in H. injection H as Eb Eu. subst b.
        cbn [ohdr] in Hact.
        assert (Hso : strip_objs [scopy h a (fst oc)] = [Scp (with_tmpl h 0) (strip_objs (fst oc)) a]).
        { cbn [strip_objs scopy ohdr with_tmpl odis]. rewrite Hact. reflexivity. }
        rewrite Hso in Hv.
        destruct (match_sources (c0 :: nm) srcs') as [|s' r'] eqn:EM'; [discriminate|]. destruct r'; [|discriminate].
        cbn [map] in Hv. injection Hv as Hv. unfold sl in Hv.
        apply strip_obj_scp_inv in Hv. destruct Hv as [ks' [El Ek]].
        cbn [combine]. rewrite El. cbn [is_def bind].
        destruct oc as [os u0]. cbn [fst snd] in *.
        destruct (Hrid comb os u0) with (comb' := src_kids s' ++ []) as [u' Hu'].
        -- eapply combine_plain; [exact Hm|exact Hcomb].
        -- exact Hoc.
        -- rewrite app_nil_r. apply src_kids_plain1. apply Hm'. left. reflexivity.
        -- rewrite app_nil_r, lview_src_kids. unfold sl. rewrite El, strip_obj_scp. cbn. exact Ek.
        -- rewrite Hu'. cbn. eauto.
  Qed.

  (* ---------------------------------------------------------------- the loop over the master's entries *)
  Lemma shape_blocks_names : forall es w, shape_blocks es w ->
    forall x, In x w -> exists k, In k es /\ onm x = onm k /\ odis (ohdr x) = odis (ohdr k).
  Proof.
    intros es w H. induction H as [|k b ks r Hk Hr IH]; intros x Hx; [destruct Hx|].
    apply in_app_or in Hx. destruct Hx as [Hx|Hx].
    - destruct (shape_block_origin _ _ _ Hk Hx) as [A [_ [_ D]]]. exists k. split; [left; reflexivity|]. split; assumption.
    - destruct (IH x Hx) as [k' [A B]]. exists k'. split; [right; exact A|exact B].
  Qed.

  Lemma mloop_refetch : forall (body body2:nat -> obj -> res fout) (W:list obj) l,
    (forall i k o, In k l -> body i k = Ok o -> shape_block k (fst o)) ->
    forall seen i o pre post,
    mloop body seen i l = Ok o ->
    NoDup (map onm (entries_from seen l)) ->
    (forall k, In k (entries_from seen l) -> onm k <> [] /\ nodot (onm k)) ->
    (forall x, In x (pre ++ post) -> onm x <> [] /\ forall k, In k (entries_from seen l) -> onm x <> onm k) ->
    W = pre ++ fst o ++ post ->
    (forall j k b, In k (entries_from seen l) -> body j k = Ok b -> gview (onm k) W = strip_objs (fst b) ->
                   exists u', body2 j k = Ok (fst b, u')) ->
    exists u', mloop body2 seen i l = Ok (fst o, u').
  Proof.
    intros body body2 W l. induction l as [|k r IH]; intros Hsh seen i o pre post H Hnd Hnm Hpp HW Hstep.
    - cbn in H. injection H as E. subst o. cbn. eauto.
    - cbn [mloop] in H. cbn [entries_from] in Hnd, Hnm, Hpp, Hstep. cbn [mloop].
      assert (Hsh' : forall i k o, In k r -> body i k = Ok o -> shape_block k (fst o))
        by (intros; eapply Hsh; [right; eassumption|eassumption]).
      destruct (mao_step seen k) as [| |seen'] eqn:Es.
      + eapply IH; eassumption.
      + discriminate.
      + bind_inv H as a Ha. bind_inv H as b Hb. injection H as E. subst o. cbn [fst] in *.
        cbn [map] in Hnd. inversion Hnd as [|x l0 Hnin Hnd']; subst x l0.
        assert (Hkact : odis (ohdr k) = false).
        { assert (In k (entries_from seen (k :: r))) by (cbn [entries_from]; rewrite Es; left; reflexivity).
          apply entries_active in H. apply H. }
        destruct (Hnm k (or_introl eq_refl)) as [Hkne Hkdot].
        (* names inside the block of k and inside the rest *)
        assert (Ha_names : forall x, In x (fst a) -> onm x = onm k /\ odis (ohdr x) = false).
        { intros x Hx. destruct (shape_block_origin _ _ _ (Hsh i k a (or_introl eq_refl) Ha) Hx) as [A [_ [_ D]]].
          split; [exact A|]. rewrite D. exact Hkact. }
        assert (Hb_names : forall x, In x (fst b) -> exists k', In k' (entries_from seen' r) /\ onm x = onm k').
        { intros x Hx. pose proof (mloop_shape body r Hsh' seen' (S i) b Hb) as SB.
          destruct (shape_blocks_names _ _ SB x Hx) as [k' [A [B _]]]. eauto. }
        assert (Hgv : gview (onm k) W = strip_objs (fst a)).
        { rewrite HW, !gview_app.
          rewrite (gview_other (onm k) pre Hkdot).
          2:{ intros x Hx. destruct (Hpp x (in_or_app _ _ _ (or_introl Hx))) as [A B]. split; [|exact A].
              apply B. left. reflexivity. }
          rewrite (gview_same (onm k) (fst a) Hkne Ha_names).
          rewrite (gview_other (onm k) (fst b) Hkdot).
          2:{ intros x Hx. destruct (Hb_names x Hx) as [k' [A B]]. rewrite B. split.
              - intros E. apply Hnin. rewrite <- E. apply in_map. exact A.
              - apply Hnm. right. exact A. }
          rewrite (gview_other (onm k) post Hkdot).
          2:{ intros x Hx. destruct (Hpp x (in_or_app _ _ _ (or_intror Hx))) as [A B]. split; [|exact A].
              apply B. left. reflexivity. }
          cbn [app]. rewrite !app_nil_r. reflexivity. }
        destruct (Hstep i k a (or_introl eq_refl) Ha Hgv) as [u1 Hu1].
        destruct (IH Hsh' seen' (S i) b (pre ++ fst a) post Hb Hnd') as [u2 Hu2].
        * intros k' Hk'. apply Hnm. right. exact Hk'.
        * intros x Hx. rewrite <- app_assoc in Hx. apply in_app_or in Hx. destruct Hx as [Hx|Hx].
          -- destruct (Hpp x (in_or_app _ _ _ (or_introl Hx))) as [A B]. split; [exact A|]. intros k' Hk'. apply B. right. exact Hk'.
          -- apply in_app_or in Hx. destruct Hx as [Hx|Hx].
             ++ destruct (Ha_names x Hx) as [A _]. rewrite A. split; [exact Hkne|].
                intros k' Hk' E. apply Hnin. rewrite E. apply in_map. exact Hk'.
             ++ destruct (Hpp x (in_or_app _ _ _ (or_intror Hx))) as [A B]. split; [exact A|]. intros k' Hk'. apply B. right. exact Hk'.
        * rewrite HW. rewrite <- !app_assoc. reflexivity.
        * intros j k' b' Hk' Hb' Hg. apply Hstep; [right; exact Hk'|exact Hb'|exact Hg].
        * rewrite Hu1. cbn [bind]. rewrite Hu2. cbn. eauto.
  Qed.

  Lemma wfd_def_ok : forall k, wfd k -> def_ok k.
  Proof. intros k H. destruct H; [assumption|exact I]. Qed.

  (* ---------------------------------------------------------------- scope.fetch, fetched again *)
  Lemma fetch_scope_refetch : forall M, wfd M -> oplain M -> forall chain, rec_idem (fsc M chain).
  Proof.
    induction M as [h ws a|h ks a IH] using obj_ind2; intros Hwf HM chain comb os u Hp H comb' Hp' Hv.
    - cbn in H. discriminate.
    - inversion Hwf as [|h0 ks0 a0 Hnd Hent]; subst.
      cbn [fetch_scope] in *.
      pose proof (proj1 (oplain_scp h ks a) HM) as Hks.
      rewrite Forall_forall in IH.
      eapply (mloop_refetch _ _ os ks) with (o := (os, u)) (pre := []) (post := []).
      + intros i k o Hk Ho. eapply fetch_one_shape; [|exact Ho]. intros c oc Hoc. eapply fetch_scope_shape. exact Hoc.
      + exact H.
      + exact Hnd.
      + intros k Hk. destruct (Hent k Hk) as [A [B _]]. auto.
      + intros x [].
      + cbn. rewrite app_nil_r. reflexivity.
      + intros j k [bb ub] Hk Hb Hg. cbn [fst] in *.
        destruct (entries_active _ _ _ Hk) as [Hact Hin].
        destruct (Hent k Hk) as [_ [_ [Hmul Hw]]].
        assert (Hkp : oplain k) by (apply Hks; exact Hin).
        assert (Hdf : omultiple k = true -> exists c0 u0,
                  cand_fetch env canon false k (fsc k (ks :: chain)) (mklsrc [] k []) = Ok (Some c0, u0) /\
                  canon k (Some c0) = canon k None).
        { intros Em. destruct (Hmul Em (ks :: chain)) as [c0 [u0 Hc0]]. eauto. }
        apply (fetch_one_refetch ks (ks :: chain) j k (fsc k (ks :: chain)) comb bb ub Hact Hkp Hks
                 (wfd_def_ok _ Hw) Hdf (fetch_scope_view env canon false k (ks :: chain))
                 (fetch_scope_plain env canon false k Hkp (ks :: chain))
                 (IH k Hin Hw Hkp (ks :: chain)) Hp Hb comb' Hp').
        rewrite (match_sources_gview (onm k) comb' os Hv). exact Hg.
  Qed.

  (* ---------------------------------------------------------------- root *)
  Definition master_plain (m:list obj) : Prop := existsb obj_has_dollar m = false.
  Definition D07 (m:list obj) : Prop := wfd (root_scope m) /\ master_plain m.

  Lemma root_plain : forall m, master_plain m -> oplain (root_scope m).
  Proof. intros m H. unfold oplain, root_scope. rewrite has_dollar_scp. exact H. Qed.

  Lemma all_plain_existsb : forall w, (forall x, In x w -> oplain x) -> existsb obj_has_dollar w = false.
  Proof.
    intros w H. destruct (existsb obj_has_dollar w) eqn:E; [|reflexivity].
    apply existsb_exists in E. destruct E as [x [Hx E]]. rewrite (H x Hx) in E. discriminate.
  Qed.

  Theorem refetch : forall m srcs w, D07 m -> srcs_have_dollar srcs = false ->
    fetch env canon false m srcs = Ok w -> fetch env canon false m [w] = Ok w.
  Proof.
    intros m srcs w [Hwf Hmp] Hd H. unfold fetch in *. bind_inv H as oc Hoc. injection H as E. subst w.
    unfold fetch_root in *. destruct oc as [w u]. cbn [fst].
    pose proof (root_plain m Hmp) as HM.
    assert (Hwp : forall x, In x w -> oplain x).
    { intros x Hx. eapply (fetch_scope_plain env canon false (root_scope m) HM [] (root_lsrcs srcs) (w, u)); [|exact Hoc|exact Hx].
      apply lplain_root. exact Hd. }
    destruct (fetch_scope_refetch (root_scope m) Hwf HM [] (root_lsrcs srcs) w u) with (comb' := root_lsrcs [w]) as [u' Hu'].
    - apply lplain_root. exact Hd.
    - exact Hoc.
    - apply lplain_root. unfold srcs_have_dollar. cbn [existsb]. rewrite (all_plain_existsb w Hwp). reflexivity.
    - rewrite lview_root. cbn [flat_map]. apply app_nil_r.
    - rewrite Hu'. reflexivity.
  Qed.

  Lemma fetch_result_plain : forall diff m srcs w, master_plain m -> srcs_have_dollar srcs = false ->
    fetch env canon diff m srcs = Ok w -> srcs_have_dollar [w] = false.
  Proof.
    intros diff m srcs w Hmp Hd H. unfold fetch in H. bind_inv H as oc Hoc. injection H as E. subst w.
    unfold fetch_root in Hoc. unfold srcs_have_dollar. cbn [existsb]. rewrite all_plain_existsb; [reflexivity|].
    intros x Hx. eapply (fetch_scope_plain env canon diff (root_scope m) (root_plain m Hmp) [] (root_lsrcs srcs) oc); [|exact Hoc|exact Hx].
    apply lplain_root. exact Hd.
  Qed.
End Idem.
