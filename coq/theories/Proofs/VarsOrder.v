(* Document order, truncation, and "later objects never influence a resolution" for Model/Vars.v. *)
From Coq Require Import List Ascii String Bool Arith Lia.
From Phil Require Import Base Tree Vars VarsProofs.
Import ListNotations.
Local Open Scope char_scope.

(* ------------------------------------------------------------------ the nested fixpoints as list functions *)
Lemma trunc_obj_scp : forall n h ks a, trunc_obj n (Scp h ks a) = Scp h (trunc_objs n ks) a.
Proof.
  intros n h ks a. cbn [trunc_obj]. f_equal.
  induction ks as [|k r IH]; [reflexivity|]. cbn [trunc_objs]. rewrite <- IH. reflexivity.
Qed.
Lemma pre_ids_scp : forall h ks a, pre_ids (Scp h ks a) = opid h :: pre_ids_l ks.
Proof.
  intros h ks a. cbn [pre_ids]. f_equal; try reflexivity.
Qed.
Lemma find_in_obj_scp : forall id chain h ks a,
  find_in_obj id chain (Scp h ks a) = find_in_list id (ks :: chain) ks.
Proof.
  intros id chain h ks a. cbn [find_in_obj]. generalize (ks :: chain) as c. intros c.
  induction ks as [|k r IH]; [reflexivity|]. cbn [find_in_list]. rewrite <- IH. reflexivity.
Qed.

(* ------------------------------------------------------------------ truncation keeps headers *)
Lemma trunc_hdr : forall n o, ohdr (trunc_obj n o) = ohdr o.
Proof. intros n [h ws a|h ks a]; reflexivity. Qed.
Lemma trunc_is_def : forall n o, is_def (trunc_obj n o) = is_def o.
Proof. intros n [h ws a|h ks a]; reflexivity. Qed.
Lemma trunc_def : forall n o, is_def o = true -> trunc_obj n o = o.
Proof. intros n [h ws a|h ks a] H; [reflexivity|discriminate]. Qed.
Lemma trunc_oid : forall n o, oid (trunc_obj n o) = oid o.
Proof. intros; unfold oid; rewrite trunc_hdr; reflexivity. Qed.
Lemma trunc_onm : forall n o, onm (trunc_obj n o) = onm o.
Proof. intros; unfold onm; rewrite trunc_hdr; reflexivity. Qed.
Lemma trunc_stops : forall n m o, stops m (trunc_obj n o) = stops m o.
Proof. intros; unfold stops; rewrite trunc_oid; reflexivity. Qed.
Lemma trunc_cand : forall n path o, cand path (trunc_obj n o) = cand path o.
Proof. intros n path [h ws a|h ks a]; reflexivity. Qed.
Lemma trunc_live_cand : forall n path o, live_cand path (trunc_obj n o) = live_cand path o.
Proof. intros; unfold live_cand; rewrite trunc_hdr, trunc_cand; reflexivity. Qed.
Lemma trunc_okids : forall n o, okids (trunc_obj n o) = trunc_objs n (okids o).
Proof. intros n [h ws a|h ks a]; [reflexivity|]. rewrite trunc_obj_scp. reflexivity. Qed.

Lemma stops_mono : forall n m o, n <= m -> stops m o = true -> stops n o = true.
Proof.
  intros n m o Hle H. unfold stops in *. apply andb_true_iff in H. destruct H as [H1 H2].
  rewrite H1. apply Nat.leb_le in H2. cbn. apply Nat.leb_le. lia.
Qed.

(* truncating at m and then at n <= m is truncating at n *)
Lemma trunc_trunc_obj : forall n m o, n <= m -> trunc_obj n (trunc_obj m o) = trunc_obj n o.
Proof.
  intros n m o Hle. induction o as [h ws a|h ks a IH] using obj_ind2; [reflexivity|].
  rewrite !trunc_obj_scp. f_equal.
  induction IH as [|k r Hk Hr IHr]; [reflexivity|].
  cbn [trunc_objs]. destruct (stops m k) eqn:Em.
  - rewrite (stops_mono n m k Hle Em). reflexivity.
  - cbn [trunc_objs]. rewrite trunc_stops. destruct (stops n k); [reflexivity|].
    rewrite Hk, IHr. reflexivity.
Qed.
Lemma trunc_trunc_objs : forall n m l, n <= m -> trunc_objs n (trunc_objs m l) = trunc_objs n l.
Proof.
  intros n m l Hle. induction l as [|k r IH]; [reflexivity|].
  cbn [trunc_objs]. destruct (stops m k) eqn:Em.
  - rewrite (stops_mono n m k Hle Em). reflexivity.
  - cbn [trunc_objs]. rewrite trunc_stops. destruct (stops n k); [reflexivity|].
    rewrite trunc_trunc_obj by assumption. rewrite IH. reflexivity.
Qed.

(* everything from the first stopping object on is irrelevant *)
Lemma trunc_objs_app_stop : forall n l1 o l2,
  stops n o = true -> trunc_objs n (l1 ++ o :: l2) = trunc_objs n l1.
Proof.
  intros n l1 o l2 Hs. induction l1 as [|k r IH]; cbn [app trunc_objs]; [rewrite Hs; reflexivity|].
  destruct (stops n k); [reflexivity|]. rewrite IH. reflexivity.
Qed.

(* ------------------------------------------------------------------ lexical_get commutes with truncation *)
Definition tr_found (n:nat) (y:found) : found := (trunc_obj n (fst y), map (trunc_objs n) (snd y)).
Definition rmap (n:nat) (r:res (option found)) : res (option found) :=
  match r with
  | Ok x => Ok (option_map (tr_found n) x)
  | UErr k t l => UErr k t l
  | Crash c => Crash c
  end.

Lemma scan_trunc : forall n stop path l,
  stop <> 0 -> stop <= n ->
  scan stop path (trunc_objs n l) = do cs <- scan stop path l; Ok (map (trunc_obj n) cs).
Proof.
  intros n stop path l Hs Hle. induction l as [|o r IH]; [reflexivity|].
  cbn [trunc_objs scan]. assert (Hs0 : (stop =? 0)%nat = false) by (apply Nat.eqb_neq; exact Hs).
  rewrite Hs0, andb_false_r.
  destruct (stops n o) eqn:En.
  - rewrite (stops_mono stop n o Hle En). reflexivity.
  - cbn [scan]. rewrite trunc_oid, trunc_stops, Hs0, andb_false_r.
    destruct (stops stop o); [reflexivity|].
    rewrite IH. destruct (scan stop path r) as [cs| |]; cbn [bind]; try reflexivity.
    rewrite trunc_live_cand. destruct (live_cand path o); reflexivity.
Qed.

Section LexTrunc.
  Variable n : nat.
  Let T := trunc_objs n.

  Lemma try_cands_trunc : forall rec rec' chain path l,
    (forall c p, rec' (map T c) p = rmap n (rec c p)) ->
    try_cands rec' (map T chain) path (map (trunc_obj n) l) = rmap n (try_cands rec chain path l).
  Proof.
    intros rec rec' chain path l Hrec. induction l as [|o rest IH]; [reflexivity|].
    cbn [map try_cands]. rewrite trunc_onm. destruct (eqs (onm o) path); [reflexivity|].
    rewrite trunc_okids.
    change (trunc_objs n (okids o) :: map T chain) with (map T (okids o :: chain)).
    rewrite Hrec. destruct (rec (okids o :: chain) (drop (length (onm o) + 1) path)) as [[y|]| |];
      cbn [rmap bind option_map]; try reflexivity. exact IH.
  Qed.

  Lemma lex_here_trunc : forall rec rec' stop chain path,
    stop <> 0 -> stop <= n ->
    (forall c p, rec' (map T c) p = rmap n (rec c p)) ->
    lex_here rec' stop (map T chain) path = rmap n (lex_here rec stop chain path).
  Proof.
    intros rec rec' stop chain path Hs Hle Hrec. unfold lex_here.
    destruct chain as [|cur ups]; [reflexivity|]. cbn [map]. unfold T at 1.
    rewrite scan_trunc by assumption.
    destruct (scan stop path cur) as [cs| |]; cbn [bind rmap]; try reflexivity.
    rewrite <- map_rev.
    exact (try_cands_trunc rec rec' (cur :: ups) path (rev cs) Hrec).
  Qed.

  Lemma lex_up_trunc : forall here here' chain,
    (forall c, here' (map T c) = rmap n (here c)) ->
    lex_up here' (map T chain) = rmap n (lex_up here chain).
  Proof.
    intros here here' chain Hh. induction chain as [|cur ups IH]; [reflexivity|].
    cbn [map lex_up]. change (T cur :: map T ups) with (map T (cur :: ups)). rewrite Hh.
    destruct (here (cur :: ups)) as [[y|]| |]; cbn [rmap bind option_map]; try reflexivity. exact IH.
  Qed.

  Lemma root_of_map : forall chain, root_of (map T chain) = map T (root_of chain).
  Proof.
    induction chain as [|c [|c2 r] IH]; [reflexivity|reflexivity|].
    cbn [map root_of] in *. exact IH.
  Qed.

  Lemma lexical_get_trunc : forall f stop chain path su,
    stop <> 0 -> stop <= n ->
    lexical_get f stop (map T chain) path su = rmap n (lexical_get f stop chain path su).
  Proof.
    induction f as [|f IH]; intros stop chain path su Hs Hle; [reflexivity|].
    cbn [lexical_get].
    assert (Hh : forall c p,
      lex_here (fun c0 p0 => lexical_get f stop c0 p0 false) stop (map T c) p =
      rmap n (lex_here (fun c0 p0 => lexical_get f stop c0 p0 false) stop c p)).
    { intros c p. apply lex_here_trunc; try assumption. intros c' p'. apply IH; assumption. }
    destruct (strip_dot path) as [p|].
    - rewrite root_of_map. apply Hh.
    - destruct su; [|apply Hh]. apply lex_up_trunc. intros c. apply Hh.
  Qed.
End LexTrunc.

(* ------------------------------------------------------------------ resolve commutes with truncation *)
Lemma mapM_tl_ext : forall A B (f g:A -> list A -> res B) l, (forall a nx, f a nx = g a nx) -> mapM_tl f l = mapM_tl g l.
Proof.
  intros A B f g l H. induction l as [|a r IH]; [reflexivity|]. cbn [mapM_tl]. rewrite H, IH. reflexivity.
Qed.

Lemma mapM_ext : forall A B (f g:A -> res B) l, (forall a, In a l -> f a = g a) -> mapM f l = mapM g l.
Proof.
  intros A B f g l. induction l as [|a r IH]; intros H; [reflexivity|].
  cbn [mapM]. rewrite (H a (or_introl eq_refl)). rewrite IH by (intros; apply H; right; assumption).
  reflexivity.
Qed.

Section ResolveTrunc.
  Variable env : str -> option str.
  Variable n : nat.
  Variable stop : nat.
  Variables rec rec' : ctx -> obj -> res (list word).
  Hypothesis Hs : stop <> 0.
  Hypothesis Hle : stop <= n.
  Hypothesis Hrec : forall ch o, wf_chain ch -> is_def o = true -> oid o <> 0 -> oid o < stop ->
                               rec' (map (trunc_objs n) ch) o = rec ch o.

  Lemma lookup_var_trunc : forall diff chain w v dt,
    wf_chain chain ->
    lookup_var env rec' diff (map (trunc_objs n) chain) stop w v dt = lookup_var env rec diff chain stop w v dt.
  Proof.
    intros diff chain w v dt Hwf. unfold lookup_var.
    destruct chain as [|c0 cr]; [reflexivity|].
    change (match map (trunc_objs n) (c0 :: cr) with [] => Ok None | _ :: _ => ?x end) with x.
    rewrite lexical_get_trunc by assumption.
    destruct (lexical_get (S (length v)) stop (c0 :: cr) v true) as [[[o ch]|]| |] eqn:E;
      cbn [rmap option_map tr_found fst snd bind]; try reflexivity.
    rewrite trunc_is_def. destruct (is_def o) eqn:Ed; cbn [negb]; [|reflexivity].
    rewrite (trunc_def n o Ed).
    destruct (lexical_get_found_def _ _ _ _ _ _ _ Hwf E) as [Hw Hid]. destruct (Hid Ed) as [H0 Hlt].
    rewrite (Hrec ch o Hw Ed H0 Hlt). reflexivity.
  Qed.

  Lemma following_char_trunc : forall diff chain w nx,
    wf_chain chain ->
    following_char env rec' diff (map (trunc_objs n) chain) stop w nx = following_char env rec diff chain stop w nx.
  Proof.
    intros diff chain w nx Hwf. induction nx as [|f r IH]; [reflexivity|].
    destruct f as [[|c lit]|u]; cbn [following_char]; [exact IH|reflexivity|].
    rewrite lookup_var_trunc by exact Hwf. rewrite IH. reflexivity.
  Qed.

  Lemma dtext_trunc : forall diff chain w v nx,
    wf_chain chain ->
    dtext env rec' diff (map (trunc_objs n) chain) stop w v nx = dtext env rec diff chain stop w v nx.
  Proof.
    intros diff chain w v nx Hwf. unfold dtext. rewrite following_char_trunc by exact Hwf. reflexivity.
  Qed.

  Lemma resolve_words_trunc : forall diff chain ws,
    wf_chain chain ->
    resolve_words env rec' diff (map (trunc_objs n) chain) stop ws = resolve_words env rec diff chain stop ws.
  Proof.
    intros diff chain ws Hwf. induction ws as [|w r IH]; [reflexivity|].
    cbn [resolve_words]. rewrite IH.
    assert (Hw : resolve_word env rec' diff (map (trunc_objs n) chain) stop w = resolve_word env rec diff chain stop w).
    { unfold resolve_word. destruct (quote_eqb (wq w) Q1); [reflexivity|].
      destruct (fragments_of_word w) as [[[force have] frs]| |]; cbn [bind]; try reflexivity.
      erewrite mapM_tl_ext; [reflexivity|].
      intros [lit|v] nx; cbn [frag_result]; [reflexivity|]. rewrite dtext_trunc by exact Hwf.
      rewrite lookup_var_trunc by exact Hwf. reflexivity. }
    rewrite Hw. reflexivity.
  Qed.
End ResolveTrunc.

Lemma resolve_def_trunc : forall env n f diff chain d,
  wf_chain chain -> oid d <> 0 -> oid d <= n ->
  resolve_def env f diff (map (trunc_objs n) chain) d = resolve_def env f diff chain d.
Proof.
  intros env n f. induction f as [|f IH]; intros diff chain d Hwf H0 Hle; [reflexivity|].
  cbn [resolve_def]. apply resolve_words_trunc; try assumption.
  intros ch o Hw Hd Ho Hlt. apply IH; [exact Hw|exact Ho|lia].
Qed.

(* chain level: only the part of the chain visible below the id of d matters *)
Lemma resolve_top_backward_only : forall env diff c c' d,
  wf_chain c -> wf_chain c' -> oid d <> 0 ->
  agree_before (oid d) c c' ->
  resolve_top env diff c d = resolve_top env diff c' d.
Proof.
  intros env diff c c' d Hwf Hwf' H0 Hag. unfold resolve_top, agree_before in *.
  rewrite <- (resolve_def_trunc env (oid d) (S (oid d)) diff c d Hwf H0 (le_n _)).
  rewrite <- (resolve_def_trunc env (oid d) (S (oid d)) diff c' d Hwf' H0 (le_n _)).
  rewrite Hag. reflexivity.
Qed.

(* ------------------------------------------------------------------ document order *)
Lemma ordb_head : forall x l y, ordb (x :: l) = true -> x <> 0 -> In y l -> y <> 0 -> x <= y.
Proof.
  intros x l y H Hx Hin Hy. cbn in H. apply andb_true_iff in H. destruct H as [H _].
  rewrite forallb_forall in H. specialize (H y Hin). unfold id_le in H.
  apply orb_true_iff in H. destruct H as [H|H].
  - apply orb_true_iff in H. destruct H as [H|H]; apply Nat.eqb_eq in H; contradiction.
  - apply Nat.leb_le in H. exact H.
Qed.
Lemma ordb_tail : forall x l, ordb (x :: l) = true -> ordb l = true.
Proof. intros x l H. cbn in H. apply andb_true_iff in H. tauto. Qed.
Lemma ordb_app : forall a b, ordb (a ++ b) = true -> ordb a = true /\ ordb b = true.
Proof.
  induction a as [|x a IH]; intros b H; [split; [reflexivity|exact H]|].
  cbn [app ordb] in *. apply andb_true_iff in H. destruct H as [H1 H2].
  destruct (IH _ H2) as [Ha Hb]. rewrite forallb_app in H1. apply andb_true_iff in H1.
  destruct H1 as [H1 _]. rewrite H1, Ha. auto.
Qed.
Lemma ordb_app_le : forall a b x y,
  ordb (a ++ b) = true -> In x a -> In y b -> x <> 0 -> y <> 0 -> x <= y.
Proof.
  induction a as [|z a IH]; intros b x y H Hx Hy Hx0 Hy0; [destruct Hx|].
  destruct Hx as [->|Hx].
  - eapply ordb_head; eauto. apply in_or_app. right. exact Hy.
  - eapply IH; eauto. eapply ordb_tail; eauto.
Qed.

Lemma find_in_ids : forall id o chain x, find_in_obj id chain o = Some x -> In id (pre_ids o).
Proof.
  intros id o. induction o as [h ws a|h ks a IH] using obj_ind2; intros chain x H.
  - cbn in H. destruct (opid h =? id)%nat eqn:E; [|discriminate]. apply Nat.eqb_eq in E.
    left. exact E.
  - rewrite find_in_obj_scp in H. rewrite pre_ids_scp. right.
    revert H. generalize (ks :: chain). intros c H.
    induction IH as [|k r Hk Hr IHr]; [discriminate|].
    cbn [find_in_list] in H. cbn [pre_ids_l]. apply in_or_app.
    destruct (find_in_obj id c k) eqn:E; [left; eapply Hk; eauto|right; apply IHr; exact H].
Qed.
Lemma find_in_list_ids : forall id l chain x, find_in_list id chain l = Some x -> In id (pre_ids_l l).
Proof.
  intros id l. induction l as [|k r IH]; intros chain x H; [discriminate|].
  cbn [find_in_list] in H. cbn [pre_ids_l]. apply in_or_app.
  destruct (find_in_obj id chain k) eqn:E; [left; eapply find_in_ids; eauto|right; eapply IH; eauto].
Qed.

Lemma pre_ids_head : forall o, exists l, pre_ids o = oid o :: l.
Proof. intros [h ws a|h ks a]; [exists []; reflexivity|]. rewrite pre_ids_scp. eexists; reflexivity. Qed.

(* behind an object that stops the scan for m there is no id below m (in document order) *)
Lemma stops_no_smaller : forall m o r id,
  ordb (pre_ids o ++ pre_ids_l r) = true -> stops m o = true ->
  In id (pre_ids o ++ pre_ids_l r) -> id <> 0 -> m <= id.
Proof.
  intros m o r id Ho Hs Hin H0. unfold stops in Hs. apply andb_true_iff in Hs. destruct Hs as [H1 H2].
  apply negb_true_iff in H1. apply Nat.eqb_neq in H1. apply Nat.leb_le in H2.
  destruct (pre_ids_head o) as [l Hl]. rewrite Hl in *. cbn [app] in *.
  destruct Hin as [<-|Hin]; [exact H2|].
  pose proof (ordb_head _ _ _ Ho H1 Hin H0). lia.
Qed.

Definition fmap (m:nat) (x:option found) : option found :=
  option_map (fun y => (fst y, map (trunc_objs m) (snd y))) x.

(* in a document-ordered tree the definition with id n <> 0 lies in the part that truncation at
   S n keeps, at the same place *)
Lemma find_in_obj_trunc : forall n m, n <> 0 -> n < m -> forall o chain,
  ordb (pre_ids o) = true ->
  find_in_obj n (map (trunc_objs m) chain) (trunc_obj m o) = fmap m (find_in_obj n chain o).
Proof.
  intros n m Hn Hm o. induction o as [h ws a|h ks a IH] using obj_ind2; intros chain Ho.
  - cbn. destruct (opid h =? n)%nat; reflexivity.
  - rewrite trunc_obj_scp, !find_in_obj_scp. rewrite pre_ids_scp in Ho. apply ordb_tail in Ho.
    change (trunc_objs m ks :: map (trunc_objs m) chain) with (map (trunc_objs m) (ks :: chain)).
    generalize (ks :: chain). intros c.
    induction IH as [|k r Hk Hr IHr]; [reflexivity|].
    cbn [pre_ids_l] in Ho. destruct (ordb_app _ _ Ho) as [Hok Hor].
    cbn [trunc_objs]. destruct (stops m k) eqn:Es.
    + destruct (find_in_list n c (k :: r)) as [x|] eqn:E; [|reflexivity].
      exfalso. apply find_in_list_ids in E. cbn [pre_ids_l] in E.
      pose proof (stops_no_smaller m k r n Ho Es E Hn). lia.
    + cbn [find_in_list]. rewrite Hk by exact Hok.
      destruct (find_in_obj n c k) as [x|]; [reflexivity|]. cbn [fmap option_map]. apply IHr. exact Hor.
Qed.

Lemma find_in_list_trunc : forall n m, n <> 0 -> n < m -> forall l chain,
  ordb (pre_ids_l l) = true ->
  find_in_list n (map (trunc_objs m) chain) (trunc_objs m l) = fmap m (find_in_list n chain l).
Proof.
  intros n m Hn Hm l chain. induction l as [|k r IH]; intros Ho; [reflexivity|].
  cbn [pre_ids_l] in Ho. destruct (ordb_app _ _ Ho) as [Hok Hor].
  cbn [trunc_objs]. destruct (stops m k) eqn:Es.
  - destruct (find_in_list n chain (k :: r)) as [x|] eqn:E; [|reflexivity].
    exfalso. apply find_in_list_ids in E. cbn [pre_ids_l] in E.
    pose proof (stops_no_smaller m k r n Ho Es E Hn). lia.
  - cbn [find_in_list]. rewrite find_in_obj_trunc by assumption.
    destruct (find_in_obj n chain k) as [x|]; [reflexivity|]. cbn [fmap option_map]. apply IH. exact Hor.
Qed.

Lemma find_def_trunc : forall t n,
  n <> 0 -> ordb (pre_ids_l t) = true ->
  find_def (trunc_objs (S n) t) n = fmap (S n) (find_def t n).
Proof.
  intros t n Hn Ho. unfold find_def.
  exact (find_in_list_trunc n (S n) Hn (Nat.lt_succ_diag_r n) t [t] Ho).
Qed.

Lemma find_def_zero : forall t, defs_have_ids_l t = true -> find_def t 0 = None.
Proof.
  intros t Hd. destruct (find_def t 0) as [[d ch]|] eqn:E; [|reflexivity].
  exfalso. unfold find_def in E.
  (* the definition found is an object of t with defs_have_ids, so its id is not 0 *)
  assert (G : forall l chain d ch, defs_have_ids_l l = true -> find_in_list 0 chain l = Some (d, ch) -> False).
  { clear. intros l. induction l as [|k r IH]; intros chain d ch Hd H; [discriminate|].
    cbn in Hd. apply andb_true_iff in Hd. destruct Hd as [Hk Hr]. cbn [find_in_list] in H.
    destruct (find_in_obj 0 chain k) as [x|] eqn:E; [|eapply IH; eauto].
    clear IH H. revert chain x E Hk. induction k as [h ws a|h ks a IHk] using obj_ind2; intros chain x E Hk.
    - cbn in *. destruct (opid h =? 0)%nat; discriminate.
    - rewrite find_in_obj_scp in E. rewrite defs_have_ids_kids in Hk.
      revert E. generalize (ks :: chain). intros c E.
      induction IHk as [|k' r' Hk' Hr' IHr']; [discriminate|].
      cbn in Hk. apply andb_true_iff in Hk. destruct Hk as [Hk1 Hk2]. cbn [find_in_list] in E.
      destruct (find_in_obj 0 c k') eqn:E'; [eapply Hk'; eauto|apply IHr'; assumption]. }
  eapply G; eauto.
Qed.

(* tree level: two document-ordered trees that agree on everything up to and including id n
   resolve the definition with id n to the same result *)
Lemma resolve_id_backward_only : forall env diff t t' n,
  doc_ordered t = true -> doc_ordered t' = true ->
  trunc_objs (S n) t = trunc_objs (S n) t' ->
  resolve_id env diff t n = resolve_id env diff t' n.
Proof.
  intros env diff t t' n Hd Hd' Hag.
  unfold doc_ordered in *. apply andb_true_iff in Hd. apply andb_true_iff in Hd'.
  destruct Hd as [Ho Hi]. destruct Hd' as [Ho' Hi'].
  unfold resolve_id.
  destruct (Nat.eq_dec n 0) as [->|Hn].
  { rewrite (find_def_zero t Hi), (find_def_zero t' Hi'). reflexivity. }
  pose proof (find_def_trunc t n Hn Ho) as F. pose proof (find_def_trunc t' n Hn Ho') as F'.
  rewrite Hag in F. rewrite F in F'.
  destruct (find_def t n) as [[d ch]|] eqn:E; destruct (find_def t' n) as [[d' ch']|] eqn:E';
    cbn in F'; try discriminate; [|reflexivity].
  inversion F' as [[Hdd Hcc]]. subst d'.
  destruct (find_def_wf _ _ _ _ Hi E) as [Hw [_ Hid]].
  destruct (find_def_wf _ _ _ _ Hi' E') as [Hw' _].
  apply resolve_top_backward_only; try assumption; [lia|].
  unfold agree_before. rewrite Hid.
  assert (G : forall c:ctx, map (trunc_objs n) c = map (trunc_objs n) (map (trunc_objs (S n)) c)).
  { intros c. rewrite map_map. apply map_ext. intros l. symmetry. apply trunc_trunc_objs. lia. }
  rewrite (G ch), (G ch'). cbn [fst snd] in Hcc. rewrite Hcc. reflexivity.
Qed.

(* ------------------------------------------------------------------ what the order buys *)
(* truncation never keeps an id >= n ... *)
Lemma trunc_ids_below : forall n o id, In id (pre_ids (trunc_obj n o)) -> id = oid o \/ id = 0 \/ id < n.
Proof.
  intros n o. induction o as [h ws a|h ks a IH] using obj_ind2; intros id H.
  - cbn in H. destruct H as [<-|[]]. left; reflexivity.
  - rewrite trunc_obj_scp, pre_ids_scp in H. destruct H as [<-|H]; [left; reflexivity|right].
    induction IH as [|k r Hk Hr IHr]; [destruct H|].
    cbn [trunc_objs] in H. destruct (stops n k) eqn:Es; [destruct H|].
    cbn [pre_ids_l] in H. apply in_app_or in H. destruct H as [H|H]; [|apply IHr; exact H].
    destruct (Hk _ H) as [->|G]; [|exact G].
    unfold stops in Es. apply andb_false_iff in Es. destruct Es as [Es|Es].
    + apply negb_false_iff in Es. apply Nat.eqb_eq in Es. left; exact Es.
    + apply Nat.leb_gt in Es. right; exact Es.
Qed.
Lemma trunc_objs_ids_below : forall n l id, In id (pre_ids_l (trunc_objs n l)) -> id = 0 \/ id < n.
Proof.
  intros n l. induction l as [|k r IH]; intros id H; [destruct H|].
  cbn [trunc_objs] in H. destruct (stops n k) eqn:Es; [destruct H|].
  cbn [pre_ids_l] in H. apply in_app_or in H. destruct H as [H|H]; [|apply IH; exact H].
  destruct (trunc_ids_below _ _ _ H) as [->|G]; [|exact G].
  unfold stops in Es. apply andb_false_iff in Es. destruct Es as [Es|Es].
  - apply negb_false_iff in Es. apply Nat.eqb_eq in Es. left; exact Es.
  - apply Nat.leb_gt in Es. right; exact Es.
Qed.

(* ... and, for ids in document order, loses none below n: this is what lexical_get's
   "stop at the first id >= stop_id" relies on *)
Lemma trunc_keeps_earlier_obj : forall n o id,
  ordb (pre_ids o) = true -> In id (pre_ids o) -> id <> 0 -> id < n -> stops n o = false ->
  In id (pre_ids (trunc_obj n o)).
Proof.
  intros n o. induction o as [h ws a|h ks a IH] using obj_ind2; intros id Ho Hin H0 Hlt Hs; [exact Hin|].
  rewrite trunc_obj_scp, pre_ids_scp. rewrite pre_ids_scp in Hin, Ho.
  destruct Hin as [<-|Hin]; [left; reflexivity|right]. apply ordb_tail in Ho.
  induction IH as [|k r Hk Hr IHr]; [destruct Hin|].
  cbn [pre_ids_l] in Hin, Ho. destruct (ordb_app _ _ Ho) as [Hok Hor].
  cbn [trunc_objs]. destruct (stops n k) eqn:Es.
  - pose proof (stops_no_smaller n k r id Ho Es Hin H0). lia.
  - cbn [pre_ids_l]. apply in_or_app. apply in_app_or in Hin. destruct Hin as [Hin|Hin].
    + left. apply Hk; auto.
    + right. apply IHr; [assumption|assumption|exact Hs].
Qed.
Lemma trunc_keeps_earlier : forall n l id,
  ordb (pre_ids_l l) = true -> In id (pre_ids_l l) -> id <> 0 -> id < n ->
  In id (pre_ids_l (trunc_objs n l)).
Proof.
  intros n l. induction l as [|k r IH]; intros id Ho Hin H0 Hlt; [destruct Hin|].
  cbn [pre_ids_l] in Hin, Ho. destruct (ordb_app _ _ Ho) as [Hok Hor].
  cbn [trunc_objs]. destruct (stops n k) eqn:Es.
  - pose proof (stops_no_smaller n k r id Ho Es Hin H0). lia.
  - cbn [pre_ids_l]. apply in_or_app. apply in_app_or in Hin. destruct Hin as [Hin|Hin].
    + left. apply trunc_keeps_earlier_obj; assumption.
    + right. apply IH; assumption.
Qed.

(* ------------------------------------------------------------------ objects appended behind a definition *)
Lemma stops_later : forall n o, n < oid o -> stops (S n) o = true.
Proof.
  intros n o H. unfold stops.
  replace (oid o =? 0)%nat with false by (symmetry; apply Nat.eqb_neq; lia).
  apply Nat.leb_le. exact H.
Qed.

(* whatever is appended to a document, as long as every object of it carries an id above n,
   changes nothing for the definition with id n: this is the positive form of the clause
   "later definitions are irrelevant" for objects that all carry ids - which, since the prefix
   scopes of dotted names carry the id of the object they lead to (/repo 2398dd1), is every
   parsed document (ParserShape.parse_all_have_ids) *)
Lemma resolve_id_later_appended : forall env diff t later n,
  doc_ordered t = true -> doc_ordered (t ++ later) = true ->
  (forall id, In id (pre_ids_l later) -> n < id) ->
  resolve_id env diff (t ++ later) n = resolve_id env diff t n.
Proof.
  intros env diff t later n Hd Hd' Hl. apply resolve_id_backward_only; try assumption.
  destruct later as [|o l2]; [rewrite app_nil_r; reflexivity|].
  apply trunc_objs_app_stop. apply stops_later. apply Hl.
  cbn [pre_ids_l]. apply in_or_app. left. destruct (pre_ids_head o) as [l Hh]. rewrite Hh. left; reflexivity.
Qed.

(* the same inside a scope: objects appended behind the last child of an enclosing scope *)
Lemma trunc_obj_kids_appended : forall m h ks later a,
  (forall id, In id (pre_ids_l later) -> m <= id /\ id <> 0) ->
  trunc_obj m (Scp h (ks ++ later) a) = trunc_obj m (Scp h ks a).
Proof.
  intros m h ks later a Hl. rewrite !trunc_obj_scp. f_equal.
  destruct later as [|o l2]; [rewrite app_nil_r; reflexivity|].
  apply trunc_objs_app_stop.
  assert (Ho : In (oid o) (pre_ids_l (o :: l2))).
  { cbn [pre_ids_l]. apply in_or_app. left. destruct (pre_ids_head o) as [l Hh]. rewrite Hh. left; reflexivity. }
  destruct (Hl _ Ho) as [H1 H2]. unfold stops.
  replace (oid o =? 0)%nat with false by (symmetry; apply Nat.eqb_neq; exact H2).
  apply Nat.leb_le. exact H1.
Qed.

(* ------------------------------------------------------------------ lead_ids: the same ids as pre_ids *)
Lemma lead_ids_scp : forall h ks a,
  lead_ids (Scp h ks a) =
  match lead_ids_l ks with
  | x :: _ => if (opid h =? x)%nat then lead_ids_l ks else opid h :: lead_ids_l ks
  | [] => [opid h]
  end.
Proof. reflexivity. Qed.

Lemma lead_ids_in : forall o x, In x (lead_ids o) <-> In x (pre_ids o).
Proof.
  intros o. induction o as [h ws a|h ks a IH] using obj_ind2; intros x; [reflexivity|].
  rewrite lead_ids_scp, pre_ids_scp.
  assert (HL : In x (lead_ids_l ks) <-> In x (pre_ids_l ks)).
  { induction IH as [|k r Hk Hr IHr]; [reflexivity|]. cbn [lead_ids_l pre_ids_l].
    rewrite !in_app_iff, Hk, IHr. reflexivity. }
  destruct (lead_ids_l ks) as [|y L] eqn:E.
  - cbn [In]. rewrite <- HL. cbn [In]. reflexivity.
  - destruct (opid h =? y)%nat eqn:Ey.
    + apply Nat.eqb_eq in Ey. subst y. cbn [In] in *. rewrite <- HL. tauto.
    + cbn [In] in *. rewrite <- HL. reflexivity.
Qed.
Lemma lead_ids_l_in : forall l x, In x (lead_ids_l l) <-> In x (pre_ids_l l).
Proof.
  induction l as [|k r IH]; intros x; [reflexivity|]. cbn [lead_ids_l pre_ids_l].
  rewrite !in_app_iff, lead_ids_in, IH. reflexivity.
Qed.
Lemma lead_ids_l_app : forall a b, lead_ids_l (a ++ b) = lead_ids_l a ++ lead_ids_l b.
Proof. induction a as [|k r IH]; intros b; [reflexivity|]. cbn [app lead_ids_l]. rewrite IH, app_assoc. reflexivity. Qed.

(* in a run lo, lo+1, ... everything in a front part is below everything in the rest *)
Lemma seq_split_lt : forall a lo m b x y, seq lo m = a ++ b -> In x a -> In y b -> x < y.
Proof.
  induction a as [|z a IH]; intros lo m b x y E Hx Hy; [destruct Hx|].
  destruct m as [|m]; [discriminate E|]. cbn [seq app] in E. inversion E as [[Ez Er]]. subst z.
  destruct Hx as [<-|Hx].
  - assert (Hin : In y (seq (S lo) m)) by (rewrite Er; apply in_or_app; right; exact Hy).
    apply in_seq in Hin. lia.
  - exact (IH (S lo) m b x y Er Hx Hy).
Qed.

(* when the ids of the whole are exactly 1, 2, ... (what the parser hands out), no side condition on
   the appended objects is left: they cannot but come later *)
Lemma resolve_id_appended_consecutive : forall env diff t later n m,
  doc_ordered t = true -> doc_ordered (t ++ later) = true ->
  lead_ids_l (t ++ later) = seq 1 m ->
  In n (pre_ids_l t) ->
  resolve_id env diff (t ++ later) n = resolve_id env diff t n.
Proof.
  intros env diff t later n m Hd Hd' Hs Hn. apply resolve_id_later_appended; try assumption.
  intros id Hid. rewrite lead_ids_l_app in Hs.
  apply (seq_split_lt (lead_ids_l t) 1 m (lead_ids_l later)); [symmetry; exact Hs| |]; apply lead_ids_l_in; assumption.
Qed.

(* truncation only removes objects *)
Lemma trunc_ids_subset_obj : forall n o id, In id (pre_ids (trunc_obj n o)) -> In id (pre_ids o).
Proof.
  intros n o. induction o as [h ws a|h ks a IH] using obj_ind2; intros id H; [exact H|].
  rewrite trunc_obj_scp, pre_ids_scp in H. rewrite pre_ids_scp. destruct H as [<-|H]; [left; reflexivity|right].
  induction IH as [|k r Hk Hr IHr]; [destruct H|].
  cbn [trunc_objs] in H. destruct (stops n k); [destruct H|].
  cbn [pre_ids_l] in *. apply in_or_app. apply in_app_or in H. destruct H as [H|H]; [left; apply Hk; exact H|right; apply IHr; exact H].
Qed.
Lemma trunc_ids_subset : forall n l id, In id (pre_ids_l (trunc_objs n l)) -> In id (pre_ids_l l).
Proof.
  intros n l. induction l as [|k r IH]; intros id H; [destruct H|].
  cbn [trunc_objs] in H. destruct (stops n k); [destruct H|].
  cbn [pre_ids_l] in *. apply in_or_app. apply in_app_or in H.
  destruct H as [H|H]; [left; eapply trunc_ids_subset_obj; exact H|right; apply IH; exact H].
Qed.

(* for a document in document order all of whose objects carry an id, the truncation at n holds
   exactly the ids below n *)
Lemma trunc_ids_exact : forall n l id,
  ordb (pre_ids_l l) = true -> ~ In 0 (pre_ids_l l) ->
  (In id (pre_ids_l (trunc_objs n l)) <-> In id (pre_ids_l l) /\ id < n).
Proof.
  intros n l id Ho H0. split.
  - intros H. pose proof (trunc_ids_subset n l id H) as Hin. split; [exact Hin|].
    destruct (trunc_objs_ids_below n l id H) as [->|Hlt]; [contradiction|exact Hlt].
  - intros [Hin Hlt]. apply trunc_keeps_earlier; try assumption. intros ->. contradiction.
Qed.
