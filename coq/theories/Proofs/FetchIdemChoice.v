(* C07: the choice condition of the domain (choice_stable, Proofs/FetchIdem.v) holds for every
   well-formed choice master (ChoiceTop.wf_choice_master: names distinct up to case, no name starting
   with "*" once the selection star is removed, none called none/auto) with AT LEAST TWO alternatives
   (choice_stable_wf_any_names; choice_stable_wf is the earlier statement, for names without "+",
   kept for its users).  (With a single alternative it fails: C07_refuted_single_choice.) *)
From Coq Require Import List Ascii String Bool Arith ZArith Lia.
From Phil Require Import Base Tree Choice ChoiceProofs ChoiceTop Fetch FetchIdem.
Import ListNotations.
Local Open Scope char_scope.

Lemma restar_self : forall w, restar (starts_star (wv w)) w = w.
Proof.
  intros [v q l]. unfold restar, unstar. cbn [wv wq wline]. destruct (starts_star v) eqn:E; [|reflexivity].
  destruct v as [|c r]; [discriminate|]. cbn in E. apply Ascii.eqb_eq in E. subst c. reflexivity.
Qed.

Lemma key_restar : forall b w, wf_alt w = true -> key (restar b w) = key w.
Proof.
  intros b w Hw. unfold key, restar. cbn [wv]. destruct b.
  - rewrite unstar_star. reflexivity.
  - rewrite (unstar_fix _ (wf_alt_nostar w Hw)). reflexivity.
Qed.

Lemma starred_restar : forall b w, wf_alt w = true -> starts_star (wv (restar b w)) = b.
Proof.
  intros b w Hw. unfold restar. cbn [wv]. destruct b.
  - reflexivity.
  - apply wf_alt_nostar. exact Hw.
Qed.

Lemma is_plain_two : forall n (ws:list word), 2 <= length ws -> is_plain n ws = false.
Proof. intros n [|a [|b r]] H; cbn in H; try lia. reflexivity. Qed.

Lemma mem_plus_unstar : forall s, mem plus (unstar s) = true -> mem plus s = true.
Proof.
  intros s H. unfold unstar in H. destruct (starts_star s) eqn:E; [|exact H].
  destruct s as [|c r]; [discriminate|]. cbn in *. rewrite H. apply orb_true_r.
Qed.

Section ChoiceStable.
  Variable m : list word.
  Hypothesis Hwf : wf_choice_master m = true.
  Hypothesis Hlen : 2 <= length m.
  Variable b : word -> bool.

  Let r := map (fun w => restar (b w) w) m.

  (* r is never read as the a+b form, also if names contain "+": with a starred word it has a star,
     with none it is the complete list of the alternatives *)
  Lemma r_plus_form : plus_form m r = false.
  Proof.
    destruct (existsb b m) eqn:E.
    - apply qs_not_plus_form. apply existsb_exists in E. destruct E as [w [Hw Bw]].
      apply existsb_exists. exists (restar (b w) w). split; [unfold r; apply in_map_iff; exists w; split; [reflexivity | exact Hw]|].
      rewrite Bw. unfold qs, restar. cbn [wv]. cbn. apply orb_true_r.
    - apply plus_form_full. apply full_list_true_iff. unfold r, alts_of. rewrite map_map.
      apply map_ext_in. intros w Hw. unfold restar. cbn [wv].
      replace (b w) with false; [reflexivity|].
      symmetry. destruct (b w) eqn:Bw; [|reflexivity]. rewrite <- E. symmetry. apply existsb_exists. exists w. split; assumption.
  Qed.

  Lemma nodup_keys_m : nodup_keys (keys m) = true.
  Proof.
    unfold wf_choice_master in Hwf. apply andb_true_iff in Hwf. destruct Hwf as [H _].
    apply andb_true_iff in H. apply H.
  Qed.

  Lemma last_match_none : forall l k, (forall z, In z l -> wf_alt z = true) -> mems k (keys l) = false ->
    last_match k (map (fun w => restar (b w) w) l) = None.
  Proof.
    induction l as [|y l IH]; intros k Hl Hk; [reflexivity|]. cbn [map last_match].
    cbn [keys map] in Hk. rewrite mems_cons in Hk. apply orb_false_iff in Hk. destruct Hk as [H1 H2]. fold (keys l) in H2.
    rewrite (IH k (fun z Hz => Hl z (or_intror Hz)) H2).
    rewrite (key_restar (b y) y (Hl y (or_introl eq_refl))). rewrite eqs_sym. rewrite H1. reflexivity.
  Qed.

  (* the only word of r naming the alternative w is its own image *)
  Lemma last_match_r : forall l, (forall w, In w l -> wf_alt w = true) -> nodup_keys (keys l) = true ->
    forall w, In w l -> last_match (key w) (map (fun w => restar (b w) w) l) = Some (restar (b w) w).
  Proof.
    induction l as [|x l IH]; intros Hl Hn w Hw; [destruct Hw|].
    cbn [map last_match]. cbn [keys map nodup_keys] in Hn. apply andb_true_iff in Hn. destruct Hn as [Hx Hn].
    apply negb_true_iff in Hx. fold (keys l) in Hx.
    rewrite (key_restar (b x) x (Hl x (or_introl eq_refl))).
    destruct Hw as [E|Hw].
    - subst x.
      assert (Hnone : last_match (key w) (map (fun w0 => restar (b w0) w0) l) = None).
      { apply last_match_none; [intros z Hz; apply Hl; right; exact Hz|exact Hx]. }
      rewrite Hnone. rewrite eqs_refl. reflexivity.
    - rewrite (IH (fun z Hz => Hl z (or_intror Hz)) Hn w Hw). reflexivity.
  Qed.

  Lemma refetch_b : forall opt, choice_fetch_x opt m r false = FOk r.
  Proof.
    intros opt.
    assert (Mok : ChoiceTop.master_ok m = true).
    { unfold ChoiceTop.master_ok, is_plain_none, is_plain_auto. rewrite !(is_plain_two _ m Hlen). reflexivity. }
    assert (Hrl : 2 <= length r) by (unfold r; rewrite map_length; exact Hlen).
    assert (Ar : is_plain_auto r = false) by (apply is_plain_two; exact Hrl).
    rewrite (fetch_unfold opt m r false Mok Ar). unfold sel_loop.
    assert (Nr : is_plain_none r = false) by (apply is_plain_two; exact Hrl).
    rewrite Nr. cbn [negb]. rewrite orb_true_r. rewrite r_plus_form.
    assert (L1 : (length r =? 1)%nat = false) by (apply Nat.eqb_neq; lia). rewrite L1.
    pose proof (wf_forall m Hwf) as Halt.
    destruct (normal_pre_ok false false r (init_flags m [])) as [fl' Hfl'].
    { intros p Hp _. unfold r in Hp. apply in_map_iff in Hp. destruct Hp as [w [E Hw]]. subst p.
      rewrite (key_restar (b w) w (Halt w Hw)). apply init_has_master. exact Hw. }
    rewrite Hfl'.
    rewrite (rebuild_spec (fun k => match last_match k r with Some x => starts_star (wv x) | None => false end) m fl').
    - f_equal. unfold r. apply map_ext_in. intros w Hw.
      fold r. unfold r at 1. rewrite (last_match_r m Halt nodup_keys_m w Hw).
      rewrite (starred_restar (b w) w (Halt w Hw)). reflexivity.
    - intros w Hw. rewrite (normal_get false false r (init_flags m []) fl' (key w) (init_has_master m w Hw) Hfl').
      unfold r. rewrite (last_match_r m Halt nodup_keys_m w Hw). unfold flagged. rewrite orb_false_r. reflexivity.
  Qed.
End ChoiceStable.

(* since the repair of choice_converters.fetch (the complete list is not the a+b form) the names
   may contain "+" *)
Theorem choice_stable_wf_any_names : forall opt m, wf_choice_master m = true -> 2 <= length m ->
  choice_stable opt m.
Proof.
  intros opt m Hwf Hlen. split.
  - pose proof (refetch_b m Hwf Hlen (fun w => starts_star (wv w)) opt) as H.
    assert (E : map (fun w => restar (starts_star (wv w)) w) m = m).
    { rewrite <- (map_id m) at 2. apply map_ext. intros w. apply restar_self. }
    cbv beta in H. rewrite E in H. apply fetch_res_ok. exact H.
  - intros ws r H. apply fetch_res_ok in H. destruct (is_plain_auto ws) eqn:A.
    + pose proof (fetch_ok_master_ok _ _ _ _ _ H) as Mok. rewrite (fetch_auto opt m ws false Mok A) in H. inversion H. subst r.
      apply fetch_res_ok. apply fetch_auto; [exact Mok|reflexivity].
    + rewrite (fetch_ok_spec _ _ _ _ _ H A). apply fetch_res_ok.
      exact (refetch_b m Hwf Hlen (fun w => requested (mandatory opt) m ws (key w)) opt).
Qed.

Theorem choice_stable_wf : forall opt m, wf_choice_master m = true -> 2 <= length m ->
  (forall w, In w m -> mem plus (wv w) = false) -> choice_stable opt m.
Proof. intros opt m Hwf Hlen _. apply choice_stable_wf_any_names; assumption. Qed.
