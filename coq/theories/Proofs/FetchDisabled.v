(* C04, the clauses about disabled objects.
   fetch_view: for sources without "$" the result tree depends on the sources only through their
   VIEW - the objects with every disabled object removed, recursively - and neither on positions
   nor on lexical contexts.  Hence disabled source objects are ignored entirely.
   (With "$" the clause also needs variable lookup to skip disabled objects - Vars.scan does since
   the repair of F10 - and is left to the correspondence.) *)
From Coq Require Import List Ascii String Bool Arith ZArith Lia.
From Phil Require Import Base Tree Vars Choice Fetch FetchBasics.
Import ListNotations.
Local Open Scope char_scope.

(* ------------------------------------------------------------------ removing disabled objects *)
Fixpoint strip_obj (o:obj) : obj :=
  match o with
  | Def h ws a => Def h ws a
  | Scp h ks a =>
      Scp h ((fix go (l:list obj) : list obj :=
                match l with
                | [] => []
                | k :: r => if odis (ohdr k) then go r else strip_obj k :: go r
                end) ks) a
  end.
Fixpoint strip_objs (l:list obj) : list obj :=
  match l with
  | [] => []
  | k :: r => if odis (ohdr k) then strip_objs r else strip_obj k :: strip_objs r
  end.

Lemma strip_obj_scp : forall h ks a, strip_obj (Scp h ks a) = Scp h (strip_objs ks) a.
Proof.
  intros h ks a. reflexivity.
Qed.
Lemma strip_obj_hdr : forall o, ohdr (strip_obj o) = ohdr o.
Proof. destruct o; reflexivity. Qed.
Lemma strip_obj_is_def : forall o, is_def (strip_obj o) = is_def o.
Proof. destruct o; reflexivity. Qed.

Lemma strip_obj_idem : forall o, strip_obj (strip_obj o) = strip_obj o.
Proof.
  induction o as [h ws a|h ks a IH] using obj_ind2; [reflexivity|].
  rewrite !strip_obj_scp. f_equal.
  induction IH as [|k r Hk _ IHr]; [reflexivity|].
  cbn [strip_objs]. destruct (odis (ohdr k)) eqn:E; [exact IHr|].
  cbn [strip_objs]. rewrite strip_obj_hdr, E, Hk, IHr. reflexivity.
Qed.
Lemma strip_objs_idem : forall l, strip_objs (strip_objs l) = strip_objs l.
Proof.
  induction l as [|k r IH]; [reflexivity|]. cbn [strip_objs].
  destruct (odis (ohdr k)) eqn:E; [exact IH|].
  cbn [strip_objs]. rewrite strip_obj_hdr, E, strip_obj_idem, IH. reflexivity.
Qed.

(* ------------------------------------------------------------------ the view of a list of located sources *)
Definition sl (s:lsrc) : obj := strip_obj (lobj s).
Definition lview (l:list lsrc) : list obj :=
  flat_map (fun s => if odis (ohdr (lobj s)) then [] else [sl s]) l.

Lemma lview_app : forall a b, lview (a ++ b) = lview a ++ lview b.
Proof. intros. unfold lview. apply flat_map_app. Qed.

Lemma lview_active : forall l, (forall s, In s l -> lactive s = true) -> lview l = map sl l.
Proof.
  induction l as [|s r IH]; intros H; [reflexivity|].
  cbn. assert (E : lactive s = true) by (apply H; left; reflexivity).
  unfold lactive in E. apply negb_true_iff in E. rewrite E. cbn. f_equal.
  apply IH. intros x Hx. apply H. right. exact Hx.
Qed.

Lemma lview_kids_aux : forall p ks0 chain ks i,
  lview (map (fun jk : nat * obj => mklsrc (p ++ [fst jk]) (snd jk) (ks0 :: chain)) (index_from i ks))
  = strip_objs ks.
Proof.
  intros p ks0 chain ks. induction ks as [|k r IH]; intros i; [reflexivity|].
  cbn [index_from map]. unfold lview in *. cbn [flat_map lobj fst snd]. rewrite IH.
  cbn [strip_objs]. destruct (odis (ohdr k)); reflexivity.
Qed.
Lemma lview_kids : forall p ks chain, lview (kids_at p ks chain) = strip_objs ks.
Proof. intros. unfold kids_at. apply lview_kids_aux. Qed.

Lemma lview_src_kids : forall s, lview (src_kids s) = okids (sl s).
Proof.
  intros s. unfold src_kids, sl. destruct (lobj s) as [h ws a|h ks a]; [reflexivity|].
  rewrite lview_kids, strip_obj_scp. reflexivity.
Qed.

Lemma lview_flat_kids : forall ms, lview (flat_map src_kids ms) = flat_map okids (map sl ms).
Proof.
  induction ms as [|s r IH]; [reflexivity|]. cbn [flat_map map]. rewrite lview_app, lview_src_kids, IH. reflexivity.
Qed.

Lemma filter_lactive_view : forall l, map sl (filter lactive l) = lview l.
Proof.
  induction l as [|s r IH]; [reflexivity|]. cbn [filter]. unfold lactive at 1. unfold lview in *. cbn [flat_map].
  destruct (odis (ohdr (lobj s))); cbn [negb]; [exact IH|]. cbn. f_equal. exact IH.
Qed.

(* ------------------------------------------------------------------ get_without_substitution sees the view only *)
Lemma gwsp_view : forall o n p ch p' ch',
  lview (gwsp p ch n o) = lview (gwsp p' ch' n (strip_obj o)).
Proof.
  induction o as [h ws a|h ks a IH] using obj_ind2; intros n p ch p' ch'.
  - cbn. destruct (odis h || negb (eqs (oname h) n)); [reflexivity|]. unfold lview. cbn. reflexivity.
  - rewrite strip_obj_scp. cbn [gwsp]. destruct (odis h) eqn:Eh; [reflexivity|].
    assert (Hin : forall pth j j',
      lview ((fix go (j:nat) (l:list obj) : list lsrc :=
                match l with
                | [] => []
                | k :: r => (if odis (ohdr k) then [] else gwsp (p ++ [j]) (ks :: ch) pth k) ++ go (S j) r
                end) j ks)
      = lview ((fix go (j:nat) (l:list obj) : list lsrc :=
                  match l with
                  | [] => []
                  | k :: r => (if odis (ohdr k) then [] else gwsp (p' ++ [j]) (strip_objs ks :: ch') pth k) ++ go (S j) r
                  end) j' (strip_objs ks))).
    { intros pth. generalize (ks :: ch) as c1. generalize (strip_objs ks :: ch') as c2.
      induction IH as [|k r Hk _ IHr]; intros c2 c1 j j'; [reflexivity|].
      cbn [strip_objs]. destruct (odis (ohdr k)) eqn:Ek.
      - cbn [app]. apply IHr.
      - rewrite strip_obj_hdr, Ek. rewrite !lview_app. f_equal; [apply Hk|apply IHr]. }
    destruct (oname h) as [|c nm].
    + destruct n as [|c n]; [|apply Hin].
      rewrite !lview_kids. symmetry. apply strip_objs_idem.
    + destruct (eqs (c :: nm) n).
      * change (Scp h (strip_objs ks) a) with (strip_obj (Scp h ks a)).
        unfold lview. cbn [flat_map lobj]. rewrite strip_obj_hdr. cbn [ohdr]. rewrite Eh.
        unfold sl. cbn [lobj]. rewrite strip_obj_idem. reflexivity.
      * destruct (prefixb ((c :: nm) ++ ["."]) n); [apply Hin|reflexivity].
Qed.

Lemma match_sources_view : forall n l,
  map sl (match_sources n l) = flat_map (fun o => lview (gwsp [] [] n o)) (lview l).
Proof.
  intros n l. unfold match_sources. rewrite filter_lactive_view.
  induction l as [|s r IH]; [reflexivity|].
  cbn [flat_map]. rewrite lview_app, IH.
  change (lview (s :: r)) with ((if odis (ohdr (lobj s)) then [] else [sl s]) ++ lview r).
  rewrite flat_map_app. f_equal.
  destruct (odis (ohdr (lobj s))); [reflexivity|].
  cbn [flat_map]. rewrite app_nil_r. apply gwsp_view.
Qed.

Lemma match_sources_lview : forall n l l', lview l = lview l' ->
  map sl (match_sources n l) = map sl (match_sources n l').
Proof. intros n l l' H. rewrite !match_sources_view, H. reflexivity. Qed.

Lemma match_sources_active : forall n l s, In s (match_sources n l) -> lactive s = true.
Proof. intros n l s H. unfold match_sources in H. apply filter_In in H. apply H. Qed.

(* ------------------------------------------------------------------ no "$" below *)
Definition lplain (l:list lsrc) : Prop := forall s, In s l -> obj_has_dollar (lobj s) = false.

Lemma has_dollar_scp : forall h ks a, obj_has_dollar (Scp h ks a) = existsb obj_has_dollar ks.
Proof.
  intros h ks a. cbn [obj_has_dollar]. induction ks as [|k r IH]; [reflexivity|]. cbn [existsb]. rewrite IH. reflexivity.
Qed.
Lemma has_dollar_kid : forall h ks a k, obj_has_dollar (Scp h ks a) = false -> In k ks -> obj_has_dollar k = false.
Proof.
  intros h ks a k H Hk. rewrite has_dollar_scp in H. destruct (obj_has_dollar k) eqn:E; [|reflexivity].
  assert (existsb obj_has_dollar ks = true) by (apply existsb_exists; exists k; split; assumption). congruence.
Qed.

Lemma In_index_from : forall A (l:list A) i j x, In (j, x) (index_from i l) -> In x l.
Proof.
  intros A l. induction l as [|a r IH]; intros i j x H; [destruct H|].
  destruct H as [H|H]; [injection H as _ E; subst; left; reflexivity|right; eapply IH; exact H].
Qed.

Lemma kids_at_plain : forall p ks chain s,
  (forall k, In k ks -> obj_has_dollar k = false) -> In s (kids_at p ks chain) -> obj_has_dollar (lobj s) = false.
Proof.
  intros p ks chain s H Hs. unfold kids_at in Hs. apply in_map_iff in Hs. destruct Hs as [[j k] [E Hk]]. subst s.
  cbn. apply H. eapply In_index_from. exact Hk.
Qed.

Lemma gwsp_plain : forall o n p ch s,
  obj_has_dollar o = false -> In s (gwsp p ch n o) -> obj_has_dollar (lobj s) = false.
Proof.
  induction o as [h ws a|h ks a IH] using obj_ind2; intros n p ch s Ho Hs.
  - cbn in Hs. destruct (odis h || negb (eqs (oname h) n)); [destruct Hs|]. destruct Hs as [E|[]]. subst s. exact Ho.
  - cbn [gwsp] in Hs. destruct (odis h); [destruct Hs|].
    assert (Hk : forall k, In k ks -> obj_has_dollar k = false) by (intros; eapply has_dollar_kid; eassumption).
    assert (Hin : forall pth j,
      In s ((fix go (j:nat) (l:list obj) : list lsrc :=
               match l with
               | [] => []
               | k :: r => (if odis (ohdr k) then [] else gwsp (p ++ [j]) (ks :: ch) pth k) ++ go (S j) r
               end) j ks) -> obj_has_dollar (lobj s) = false).
    { intros pth. generalize (ks :: ch) as c1. clear Hs Ho. revert Hk.
      induction IH as [|k r Hk0 _ IHr]; intros Hk c1 j Hs; [destruct Hs|].
      apply in_app_or in Hs. destruct Hs as [Hs|Hs].
      - destruct (odis (ohdr k)); [destruct Hs|]. eapply Hk0; [apply Hk; left; reflexivity|exact Hs].
      - eapply IHr; [intros; apply Hk; right; assumption|exact Hs]. }
    destruct (oname h) as [|c nm].
    + destruct n as [|c n]; [|eapply Hin; exact Hs]. eapply kids_at_plain; eassumption.
    + destruct (eqs (c :: nm) n); [destruct Hs as [E|[]]; subst s; exact Ho|].
      destruct (prefixb ((c :: nm) ++ ["."]) n); [eapply Hin; exact Hs|destruct Hs].
Qed.

Lemma match_sources_plain : forall n l, lplain l -> lplain (match_sources n l).
Proof.
  intros n l H s Hs. unfold match_sources in Hs. apply filter_In in Hs. destruct Hs as [Hs _].
  apply in_flat_map in Hs. destruct Hs as [x [Hx Hs]]. destruct (odis (ohdr (lobj x))); [destruct Hs|].
  eapply gwsp_plain; [apply H; exact Hx|exact Hs].
Qed.

Lemma src_kids_plain : forall ms, lplain ms -> lplain (flat_map src_kids ms).
Proof.
  intros ms H s Hs. apply in_flat_map in Hs. destruct Hs as [x [Hx Hs]]. unfold src_kids in Hs.
  pose proof (H _ Hx) as Hp. destruct (lobj x) as [h ws a|h ks a]; [destruct Hs|].
  eapply kids_at_plain; [|exact Hs]. intros k Hk. eapply has_dollar_kid; eassumption.
Qed.

(* ------------------------------------------------------------------ related outcomes *)
Definition rrel {A B} (P:A -> B -> Prop) (r:res A) (r':res B) : Prop :=
  match r, r' with
  | Ok a, Ok b => P a b
  | UErr k t l, UErr k' t' l' => k = k' /\ t = t' /\ l = l'
  | Crash c, Crash c' => c = c'
  | _, _ => False
  end.

Lemma rrel_bind : forall A B C D (P:A -> B -> Prop) (Q:C -> D -> Prop) r r' f g,
  rrel P r r' -> (forall a b, P a b -> rrel Q (f a) (g b)) -> rrel Q (bind r f) (bind r' g).
Proof.
  intros A B C D P Q r r' f g H Hf. destruct r, r'; cbn in *; try contradiction; auto.
Qed.
Lemma rrel_refl : forall A (P:A -> A -> Prop) r, (forall a, P a a) -> rrel P r r.
Proof. intros A P r H. destruct r; cbn; auto. Qed.
Lemma rrel_eq : forall A B (f:A -> B) r r', rrel (fun a b => f a = f b) r r' -> rmap f r = rmap f r'.
Proof.
  intros A B f r r' H. destruct r, r'; cbn in *; try contradiction; try congruence.
  destruct H as [E1 [E2 E3]]. congruence.
Qed.

Definition same_tree (o o':fout) : Prop := fst o = fst o'.

(* two candidate sources: the same object, or "$"-free objects with the same view *)
Definition srel (s s':lsrc) : Prop :=
  s = s' \/ (sl s = sl s' /\ obj_has_dollar (lobj s) = false /\ obj_has_dollar (lobj s') = false).

Lemma sl_def : forall s s' h ws a, lobj s = Def h ws a -> sl s = sl s' -> lobj s' = Def h ws a.
Proof.
  intros s s' h ws a E H. unfold sl in H. rewrite E in H. cbn in H.
  destruct (lobj s') as [h' ws' a'|h' ks' a']; [cbn in H; congruence|rewrite strip_obj_scp in H; discriminate].
Qed.
Lemma sl_is_def : forall s s', sl s = sl s' -> is_def (lobj s) = is_def (lobj s').
Proof. intros s s' H. unfold sl in H. rewrite <- (strip_obj_is_def (lobj s)), H. apply strip_obj_is_def. Qed.

Section View.
  Variable env : str -> option str.
  Variable canon : obj -> option obj -> res str.
  Variable diff : bool.

  Lemma def_fetch_value_srel : forall dm h mws a s s', srel s s' ->
    def_fetch_value env dm h mws a s = def_fetch_value env dm h mws a s'.
  Proof.
    intros dm h mws a s s' [E|[Hv [Hp Hp']]]; [subst; reflexivity|].
    unfold def_fetch_value. destruct (lobj s) as [h0 ws0 a0|h0 ks0 a0] eqn:Es.
    - rewrite (sl_def _ _ _ _ _ Es Hv).
      rewrite !resolve_plain; [reflexivity| |]; cbn [owords]; apply words_plain_b; cbn in Hp; exact Hp.
    - pose proof (sl_is_def _ _ Hv) as Ed. rewrite Es in Ed. cbn in Ed.
      destruct (lobj s'); [discriminate|reflexivity].
  Qed.

  Lemma def_fetch_srel : forall h mws a s s', srel s s' ->
    def_fetch env canon diff h mws a s = def_fetch env canon diff h mws a s'.
  Proof. intros. unfold def_fetch. rewrite !(def_fetch_value_srel _ _ _ _ s s') by assumption. reflexivity. Qed.

  Lemma def_loop_srel : forall h mws a ms ms' last, Forall2 srel ms ms' ->
    def_loop env canon diff h mws a ms last = def_loop env canon diff h mws a ms' last.
  Proof.
    intros h mws a ms ms' last H. revert last. induction H as [|s s' r r' Hs _ IH]; intros last; [reflexivity|].
    cbn [def_loop]. rewrite (def_fetch_srel _ _ _ s s') by exact Hs.
    destruct (def_fetch env canon diff h mws a s'); cbn; [apply IH|reflexivity|reflexivity].
  Qed.

  (* scope.fetch of the master scope k on two offers with the same view *)
  Definition rec_ok (rec:list lsrc -> res fout) : Prop :=
    forall comb comb', lview comb = lview comb' -> lplain comb -> lplain comb' ->
                       rrel same_tree (rec comb) (rec comb').

  Lemma combine_rel : forall ms ms', map sl ms = map sl ms' ->
    rrel (fun c c' => c = flat_map src_kids ms /\ c' = flat_map src_kids ms') (combine ms) (combine ms').
  Proof.
    induction ms as [|s r IH]; intros [|s' r'] H; try discriminate; [cbn; auto|].
    injection H as Hs Hr. cbn [combine]. rewrite (sl_is_def _ _ Hs).
    destruct (is_def (lobj s')); [cbn; auto|].
    eapply rrel_bind; [apply IH; exact Hr|]. intros c c' [E E']. subst. cbn. auto.
  Qed.

  Lemma cand_fetch_srel : forall k rec s s', rec_ok rec -> srel s s' ->
    rrel (fun cu cu' : option obj * list pos => fst cu = fst cu')
         (cand_fetch env canon diff k rec s) (cand_fetch env canon diff k rec s').
  Proof.
    intros k rec s s' Hrec Hs. destruct Hs as [E|Hs]; [subst; apply rrel_refl; reflexivity|].
    destruct k as [h mws a|h ks a]; cbn [cand_fetch].
    - rewrite (def_fetch_srel _ _ _ s s') by (right; exact Hs).
      destruct (def_fetch env canon diff h mws a s'); cbn; auto.
    - destruct Hs as [Hv [Hp Hp']].
      eapply rrel_bind; [apply (combine_rel [s] [s']); cbn; congruence|].
      intros c c' [E E']. subst.
      eapply rrel_bind.
      + apply Hrec.
        * rewrite !lview_flat_kids. cbn. congruence.
        * apply src_kids_plain. intros x [Ex|[]]. subst. exact Hp.
        * apply src_kids_plain. intros x [Ex|[]]. subst. exact Hp'.
      + intros oc oc' E. cbn. unfold same_tree in E. rewrite E. reflexivity.
  Qed.

  Definition crel (c c':bool * lsrc) : Prop := fst c = fst c' /\ srel (snd c) (snd c').

  Lemma mult_loop_srel : forall k rec mas cands cands', rec_ok rec -> Forall2 crel cands cands' ->
    forall pd robjs used used',
    rrel (fun st st' : pdict * list (option obj) * list pos => fst st = fst st')
         (mult_loop env canon diff k rec mas cands pd robjs used)
         (mult_loop env canon diff k rec mas cands' pd robjs used').
  Proof.
    intros k rec mas cands cands' Hrec H. induction H as [|[fm s] [fm' s'] r r' [Hf Hs] _ IH]; intros pd robjs used used'.
    - cbn. reflexivity.
    - cbn in Hf. subst fm'. cbn [snd] in Hs. cbn [mult_loop].
      eapply rrel_bind; [apply cand_fetch_srel; eassumption|].
      intros [cand u] [cand' u'] E. cbn in E. subst cand'. cbn [fst snd].
      destruct (diff_skip diff k cand); [apply IH|].
      destruct (canon k cand) as [cs| |]; cbn [bind]; [|cbn; auto|cbn; auto].
      destruct (eqs cs mas); [apply IH|].
      destruct (pget cs pd) as [[i|]|]; [|apply IH|]; (destruct (diff && fm); apply IH).
  Qed.

  Lemma Forall2_map_eq : forall A B (f:A -> B) l l', map f l = map f l' -> Forall2 (fun a b => f a = f b) l l'.
  Proof.
    intros A B f l. induction l as [|a r IH]; intros [|b r'] H; try discriminate; constructor.
    - injection H as E _. exact E.
    - injection H as _ E. apply IH. exact E.
  Qed.

  Lemma matching_srel : forall n l l', lview l = lview l' -> lplain l -> lplain l' ->
    Forall2 srel (match_sources n l) (match_sources n l').
  Proof.
    intros n l l' Hv Hp Hp'.
    pose proof (Forall2_map_eq _ _ sl _ _ (match_sources_lview n l l' Hv)) as F.
    pose proof (match_sources_plain n l Hp) as P. pose proof (match_sources_plain n l' Hp') as P'.
    revert P P'. induction F as [|s s' r r' E _ IH]; intros P P'; constructor.
    - right. split; [exact E|]. split; [apply P; left; reflexivity|apply P'; left; reflexivity].
    - apply IH; intros x Hx; [apply P|apply P']; right; exact Hx.
  Qed.

  Lemma Forall2_srel_sl : forall ms ms', Forall2 srel ms ms' -> map sl ms = map sl ms'.
  Proof.
    intros ms ms' H. induction H as [|s s' r r' Hs _ IH]; [reflexivity|]. cbn. f_equal; [|exact IH].
    destruct Hs as [E|[E _]]; [subst; reflexivity|exact E].
  Qed.

  Lemma fetch_one_view : forall allks chain i k rec srcs srcs',
    rec_ok rec -> lview srcs = lview srcs' -> lplain srcs -> lplain srcs' ->
    rrel same_tree (fetch_one env canon diff allks chain i k rec srcs)
                   (fetch_one env canon diff allks chain i k rec srcs').
  Proof.
    intros allks chain i k rec srcs srcs' Hrec Hv Hp Hp'. unfold fetch_one.
    destruct (get_attr (s_ "alias") (oattrs k)); try (cbn; auto).
    destruct (oname (ohdr k)) as [|c0 nm]; [cbn; auto|].
    pose proof (matching_srel (c0 :: nm) _ _ Hv Hp Hp') as Hm.
    destruct (omultiple k); cbn [negb].
    - destruct (canon k None) as [mas| |]; cbn [bind]; [|cbn; auto|cbn; auto].
      eapply rrel_bind.
      + apply mult_loop_srel with (used' := []); [exact Hrec|].
        apply Forall2_app.
        * induction (self_matching allks chain i (c0 :: nm)) as [|x l IHl]; constructor; [|exact IHl].
          split; [reflexivity|left; reflexivity].
        * induction Hm as [|s s' r r' Hs _ IHm]; constructor; [|exact IHm]. split; [reflexivity|exact Hs].
      + intros [[pd robjs] used] [[pd' robjs'] used'] E. cbn in E. injection E as E1 E2. subst. cbn. reflexivity.
    - destruct k as [h mws a|h ks a].
      + rewrite (def_loop_srel _ _ _ _ _ None Hm).
        destruct (def_loop env canon diff h mws a (match_sources (c0 :: nm) srcs') None) as [ro| |]; cbn [bind]; [|cbn; auto|cbn; auto].
        destruct ro; [cbn; reflexivity|]. destruct (negb diff && negb (odeprecated (Def h mws a))); cbn; reflexivity.
      + eapply rrel_bind; [apply combine_rel; apply Forall2_srel_sl; exact Hm|].
        intros c c' [E E']. subst.
        eapply rrel_bind.
        * apply Hrec.
          -- rewrite !lview_flat_kids. rewrite (Forall2_srel_sl _ _ Hm). reflexivity.
          -- apply src_kids_plain. apply match_sources_plain. exact Hp.
          -- apply src_kids_plain. apply match_sources_plain. exact Hp'.
        * intros oc oc' E. unfold same_tree in E. rewrite E.
          destruct (diff && null_objs (fst oc')); cbn; reflexivity.
  Qed.

  Lemma mloop_view : forall (body body':nat -> obj -> res fout) l,
    (forall i k, In k l -> rrel same_tree (body i k) (body' i k)) ->
    forall seen i, rrel same_tree (mloop body seen i l) (mloop body' seen i l).
  Proof.
    intros body body' l. induction l as [|k r IH]; intros Hb seen i; [cbn; reflexivity|].
    cbn [mloop]. destruct (mao_step seen k) as [| |seen'].
    - apply IH. intros; apply Hb; right; assumption.
    - cbn. auto.
    - eapply rrel_bind; [apply Hb; left; reflexivity|]. intros a b E.
      eapply rrel_bind; [apply IH; intros; apply Hb; right; assumption|]. intros a' b' E'.
      unfold same_tree in *. cbn. rewrite E, E'. reflexivity.
  Qed.

  Lemma fetch_scope_view : forall M mchain, rec_ok (fetch_scope env canon diff M mchain).
  Proof.
    induction M as [h ws a|h ks a IH] using obj_ind2; intros mchain srcs srcs' Hv Hp Hp'.
    - cbn. reflexivity.
    - cbn [fetch_scope]. apply mloop_view. intros i k Hk.
      apply fetch_one_view; try assumption. rewrite Forall_forall in IH. apply IH. exact Hk.
  Qed.

  (* ---------------------------------------------------------------- root level *)
  Lemma lview_root : forall srcs, lview (root_lsrcs srcs) = flat_map strip_objs srcs.
  Proof.
    intros srcs. unfold root_lsrcs. generalize 0 as i.
    induction srcs as [|t r IH]; intros i; [reflexivity|].
    cbn [index_from flat_map fst snd]. rewrite lview_app, lview_kids, IH. reflexivity.
  Qed.

  Lemma lplain_root : forall srcs, srcs_have_dollar srcs = false -> lplain (root_lsrcs srcs).
  Proof.
    intros srcs H s Hs. unfold root_lsrcs in Hs. apply in_flat_map in Hs. destruct Hs as [[i t] [Hit Hs]].
    cbn [fst snd] in Hs. eapply kids_at_plain; [|exact Hs]. intros k Hk.
    destruct (obj_has_dollar k) eqn:E; [|reflexivity].
    assert (srcs_have_dollar srcs = true); [|congruence].
    unfold srcs_have_dollar. apply existsb_exists. exists t. split; [eapply In_index_from; exact Hit|].
    apply existsb_exists. exists k. split; assumption.
  Qed.

  (* the tree is a function of the view of the sources *)
  Theorem fetch_view : forall m srcs srcs',
    srcs_have_dollar srcs = false -> srcs_have_dollar srcs' = false ->
    flat_map strip_objs srcs = flat_map strip_objs srcs' ->
    fetch env canon diff m srcs = fetch env canon diff m srcs'.
  Proof.
    intros m srcs srcs' Hd Hd' Hv. unfold fetch.
    change (rmap fst (fetch_root env canon diff m srcs) = rmap fst (fetch_root env canon diff m srcs')).
    apply rrel_eq. unfold fetch_root. apply fetch_scope_view.
    - rewrite !lview_root. exact Hv.
    - apply lplain_root. exact Hd.
    - apply lplain_root. exact Hd'.
  Qed.

  Lemma strip_no_dollar_obj : forall o, obj_has_dollar o = false -> obj_has_dollar (strip_obj o) = false.
  Proof.
    induction o as [h ws a|h ks a IH] using obj_ind2; intros H; [exact H|].
    rewrite strip_obj_scp, has_dollar_scp. rewrite has_dollar_scp in H.
    induction IH as [|k r Hk _ IHr]; [reflexivity|].
    cbn [existsb] in H. apply orb_false_iff in H. destruct H as [H1 H2].
    cbn [strip_objs]. destruct (odis (ohdr k)); [apply IHr; exact H2|].
    cbn [existsb]. rewrite (Hk H1), (IHr H2). reflexivity.
  Qed.
  Lemma strip_no_dollar : forall t, existsb obj_has_dollar t = false -> existsb obj_has_dollar (strip_objs t) = false.
  Proof.
    induction t as [|k r IH]; intros H; [reflexivity|].
    cbn [existsb] in H. apply orb_false_iff in H. destruct H as [H1 H2].
    cbn [strip_objs]. destruct (odis (ohdr k)); [apply IH; exact H2|].
    cbn [existsb]. rewrite (strip_no_dollar_obj _ H1), (IH H2). reflexivity.
  Qed.

  (* C04_disabled_sources_ignored *)
  Theorem disabled_sources_ignored : forall m srcs,
    srcs_have_dollar srcs = false ->
    fetch env canon diff m srcs = fetch env canon diff m (map strip_objs srcs).
  Proof.
    intros m srcs Hd. apply fetch_view.
    - exact Hd.
    - unfold srcs_have_dollar in *. induction srcs as [|t r IH]; [reflexivity|].
      cbn [existsb map] in *. apply orb_false_iff in Hd. destruct Hd as [H1 H2].
      rewrite (strip_no_dollar _ H1), (IH H2). reflexivity.
    - induction srcs as [|t r IH]; [reflexivity|]. cbn [flat_map map]. rewrite strip_objs_idem.
      f_equal. apply IH. unfold srcs_have_dollar in Hd. cbn [existsb] in Hd. apply orb_false_iff in Hd. apply Hd.
  Qed.
End View.
