(* Structural facts about the printer model (C19): the expert-level filter is the same as printing
   the pruned tree; a negative level shows everything; attribute visibility is monotone in the level. *)
From Coq Require Import List Ascii String Bool Arith ZArith Lia.
From Phil Require Import Base Tokenizer Tree Parser Show.
Import ListNotations.
Local Open Scope char_scope.

(* ---------- the children loop of scope.show as a top-level function *)
Fixpoint show_list (l:list obj) (merged:list str) (prefix:str) (expert:option Z) (level:Z) (width:Z) : res str :=
  match l with
  | [] => Ok []
  | k :: r => do x <- show_obj k merged prefix expert level width ;
              do y <- show_list r merged prefix expert level width ; Ok (x ++ y)
  end.

Definition show_scope_body (h:hdr) (ks:list obj) (a:attrs) merged prefix expert level width : res str :=
  if (otmpl h <? 0)%Z && (level <? 2)%Z then Ok [] else
  do hid <- hidden_by_expert a expert ;
  if hid then Ok [] else
  match oname h with
  | [] => match merged with [] => show_list ks [] prefix expert level width | _ => Crash (s_ "AssertionError") end
  | _ =>
    if first_merges ks then show_list ks (merged ++ [oname h]) prefix expert level width
    else
      do at_ <- show_attributes prefix scope_attr_names a level width ;
      let mname := join_with ["."] (merged ++ [oname h]) in
      let head := prefix ++ (if odis h then ["!"] else []) ++ mname in
      let open := match at_ with
                  | [] => line (head ++ s_ " {")
                  | _ => line head ++ at_ ++ line (prefix ++ ["{"]) end in
      do body <- show_list ks [] (prefix ++ s_ "  ") expert level width ;
      Ok (open ++ body ++ line (prefix ++ ["}"]))
  end.

Lemma show_obj_scp : forall h ks a merged prefix expert level width,
  show_obj (Scp h ks a) merged prefix expert level width = show_scope_body h ks a merged prefix expert level width.
Proof.
  intros. cbn [show_obj]. unfold show_scope_body.
  set (go := fix go (l:list obj) (merged:list str) (prefix:str) : res str :=
        match l with
        | [] => Ok []
        | k :: r => do x <- show_obj k merged prefix expert level width ;
                    do y <- go r merged prefix ; Ok (x ++ y)
        end).
  assert (Hgo : forall l m p, go l m p = show_list l m p expert level width).
  { induction l as [|k r IH]; intros m p; [reflexivity|]. cbn [go show_list]. fold go. rewrite IH. reflexivity. }
  destruct ((otmpl h <? 0)%Z && (level <? 2)%Z); [reflexivity|].
  destruct (hidden_by_expert a expert) as [hid| |]; cbn [bind]; try reflexivity.
  destruct hid; [reflexivity|].
  destruct (oname h) eqn:En.
  - destruct merged; [apply Hgo|reflexivity].
  - destruct (first_merges ks); [apply Hgo|].
    destruct (show_attributes prefix scope_attr_names a level width); cbn [bind]; try reflexivity.
    rewrite Hgo. reflexivity.
Qed.

Lemma show_objs_list : forall l prefix expert level width,
  show_objs l prefix expert level width = show_list l [] prefix expert level width.
Proof. induction l as [|k r IH]; intros; [reflexivity|]. cbn [show_objs show_list]. rewrite IH. reflexivity. Qed.

Lemma show_list_app : forall l1 l2 m p e lv w,
  show_list (l1 ++ l2) m p e lv w =
  do x <- show_list l1 m p e lv w ; do y <- show_list l2 m p e lv w ; Ok (x ++ y).
Proof.
  induction l1 as [|k r IH]; intros.
  - cbn [app show_list bind]. destruct (show_list l2 m p e lv w); reflexivity.
  - cbn [app show_list]. rewrite IH.
    destruct (show_obj k m p e lv w); cbn [bind]; try reflexivity.
    destruct (show_list r m p e lv w); cbn [bind]; try reflexivity.
    destruct (show_list l2 m p e lv w); cbn [bind]; try reflexivity.
    rewrite app_assoc. reflexivity.
Qed.

(* ---------- a negative or absent expert level shows everything *)
Lemma hidden_none : forall a, hidden_by_expert a None = Ok false.
Proof. intros a. unfold hidden_by_expert. destruct (get_attr (s_ "expert_level") a); reflexivity. Qed.

Lemma hidden_negative : forall a k, (k < 0)%Z -> hidden_by_expert a (Some k) = Ok false.
Proof.
  intros a k Hk. unfold hidden_by_expert.
  assert (E : (0 <=? k)%Z = false) by (apply Z.leb_gt; exact Hk).
  destruct (get_attr (s_ "expert_level") a); rewrite ?E; reflexivity.
Qed.

Theorem show_negative_is_all : forall k, (k < 0)%Z -> forall o merged prefix level width,
  show_obj o merged prefix (Some k) level width = show_obj o merged prefix None level width.
Proof.
  intros k Hk o. induction o as [h ws a|h ks a IH] using obj_ind2; intros merged prefix level width.
  - cbn [show_obj]. unfold show_def. rewrite hidden_negative, hidden_none by exact Hk. reflexivity.
  - rewrite !show_obj_scp. unfold show_scope_body. rewrite hidden_negative, hidden_none by exact Hk.
    assert (Hl : forall m p, show_list ks m p (Some k) level width = show_list ks m p None level width).
    { induction IH as [|c r Hc Hr IHr]; intros m p; [reflexivity|].
      cbn [show_list]. rewrite Hc, IHr. reflexivity. }
    rewrite !Hl. reflexivity.
Qed.

Theorem show_objs_negative_is_all : forall k, (k < 0)%Z -> forall l prefix level width,
  show_objs l prefix (Some k) level width = show_objs l prefix None level width.
Proof.
  intros k Hk l; induction l as [|o r IH]; intros; [reflexivity|].
  cbn [show_objs]. rewrite (show_negative_is_all k Hk), IH. reflexivity.
Qed.

(* ---------- the expert filter equals printing the pruned tree *)
Definition hidden_k (a:attrs) (k:Z) : bool :=
  match get_attr (s_ "expert_level") a with
  | AInt own => (0 <=? k)%Z && (k <? own)%Z
  | ABool b => (0 <=? k)%Z && (k <? (if b then 1 else 0))%Z
  | _ => false
  end.
(* the attribute is unset or a number (what '.expert_level = <integer expression>' produces) *)
Definition expert_ok (a:attrs) : bool :=
  match get_attr (s_ "expert_level") a with ANone | AInt _ | ABool _ => true | _ => false end.

Lemma hidden_some : forall a k, expert_ok a = true -> hidden_by_expert a (Some k) = Ok (hidden_k a k).
Proof.
  intros a k H. unfold hidden_by_expert, hidden_k, expert_ok in *.
  destruct (get_attr (s_ "expert_level") a); try discriminate; reflexivity.
Qed.

Fixpoint prune (k:Z) (o:obj) : list obj :=
  match o with
  | Def h ws a => if hidden_k a k then [] else [o]
  | Scp h ks a =>
      if hidden_k a k then [] else
      let ks' := flat_map (prune k) ks in
      if first_merges ks then match ks' with [] => [] | _ => [Scp h ks' a] end
      else [Scp h ks' a]
  end.
Definition prunes (k:Z) (l:list obj) : list obj := flat_map (prune k) l.

(* trees as the parser builds them: expert levels are numbers; a scope either is a dotted-name prefix
   (exactly one child, which carries merge_names) or has no child carrying merge_names; names non-empty *)
Fixpoint wf_show (o:obj) : bool :=
  match o with
  | Def h ws a => expert_ok a
  | Scp h ks a =>
      expert_ok a && negb (match oname h with [] => true | _ => false end)
      && (match ks with
          | [c] => true
          | _ => forallb (fun c => negb (omerge (ohdr c))) ks
          end)
      && forallb wf_show ks
  end.

Lemma prune_hdr : forall k o o', In o' (prune k o) -> ohdr o' = ohdr o.
Proof.
  intros k o o' H. destruct o as [h ws a|h ks a]; cbn [prune] in H.
  - destruct (hidden_k a k); [destruct H|]. destruct H as [<-|[]]. reflexivity.
  - destruct (hidden_k a k); [destruct H|].
    destruct (first_merges ks).
    + destruct (flat_map (prune k) ks); [destruct H|]. destruct H as [<-|[]]. reflexivity.
    + destruct H as [<-|[]]. reflexivity.
Qed.

Lemma prune_at_most_one : forall k o, prune k o = [] \/ exists o', prune k o = [o'].
Proof.
  intros k o. destruct o as [h ws a|h ks a]; cbn [prune].
  - destruct (hidden_k a k); [left; reflexivity|right; eexists; reflexivity].
  - destruct (hidden_k a k); [left; reflexivity|].
    destruct (first_merges ks).
    + destruct (flat_map (prune k) ks); [left; reflexivity|right; eexists; reflexivity].
    + right; eexists; reflexivity.
Qed.

Lemma first_merges_prunes_false : forall k ks,
  forallb (fun c => negb (omerge (ohdr c))) ks = true -> first_merges (flat_map (prune k) ks) = false.
Proof.
  intros k ks H. destruct (flat_map (prune k) ks) as [|c' r] eqn:E; [reflexivity|].
  cbn [first_merges].
  assert (Hin : In c' (flat_map (prune k) ks)) by (rewrite E; left; reflexivity).
  apply in_flat_map in Hin as (c & Hc & Hc').
  rewrite (prune_hdr _ _ _ Hc').
  rewrite forallb_forall in H. specialize (H c Hc). destruct (omerge (ohdr c)); [discriminate|reflexivity].
Qed.

Lemma bind_ok_nil_r : forall (r:res str), (do x <- r ; do y <- Ok [] ; Ok (x ++ y)) = r.
Proof. intros [x| |]; cbn [bind]; try reflexivity. rewrite app_nil_r. reflexivity. Qed.

Lemma bind_ok_nil_r' : forall (r:res str), (do x <- r ; Ok (x ++ [])) = r.
Proof. intros [x| |]; cbn [bind]; try reflexivity. rewrite app_nil_r. reflexivity. Qed.
Lemma show_list_single : forall o m p e lv w, show_list [o] m p e lv w = show_obj o m p e lv w.
Proof. intros. cbn [show_list]. apply bind_ok_nil_r. Qed.
Ltac nilr := rewrite ?bind_ok_nil_r, ?bind_ok_nil_r'.

Theorem show_expert_is_prune : forall k o, wf_show o = true -> forall merged prefix level width,
  show_obj o merged prefix (Some k) level width = show_list (prune k o) merged prefix None level width.
Proof.
  intros k o. induction o as [h ws a|h ks a IH] using obj_ind2; intros Hwf merged prefix level width.
  - cbn [wf_show] in Hwf. cbn [prune show_obj]. unfold show_def.
    rewrite (hidden_some _ _ Hwf).
    destruct ((otmpl h <? 0)%Z && (level <? 2)%Z) eqn:Et.
    + destruct (hidden_k a k); cbn [show_list show_obj]; [reflexivity|]. unfold show_def. rewrite Et. reflexivity.
    + destruct (py_truthy (get_attr (s_ "deprecated") a) && (level <? 3)%Z) eqn:Ed.
      * destruct (hidden_k a k); cbn [show_list show_obj]; [reflexivity|]. unfold show_def. rewrite Et, Ed. reflexivity.
      * cbn [bind]. destruct (hidden_k a k); cbn [show_list show_obj]; [reflexivity|].
        unfold show_def. rewrite Et, Ed, hidden_none. cbn [bind].
        nilr; rewrite ?show_list_single; reflexivity.
  - cbn [wf_show] in Hwf. apply andb_prop in Hwf as [Hwf Hkids]. apply andb_prop in Hwf as [Hwf Hshape].
    apply andb_prop in Hwf as [Hexp Hname].
    assert (Hlist : forall m p, show_list ks m p (Some k) level width
                                = show_list (flat_map (prune k) ks) m p None level width).
    { clear Hshape. induction IH as [|c r Hc Hr IHr]; intros m p; [reflexivity|].
      cbn [forallb] in Hkids. apply andb_prop in Hkids as [Hkc Hkr].
      cbn [show_list flat_map]. rewrite show_list_app. rewrite (Hc Hkc), (IHr Hkr). reflexivity. }
    rewrite show_obj_scp. unfold show_scope_body. cbn [prune].
    rewrite (hidden_some _ _ Hexp).
    destruct ((otmpl h <? 0)%Z && (level <? 2)%Z) eqn:Et.
    + destruct (hidden_k a k); [reflexivity|].
      destruct (first_merges ks).
      * destruct (flat_map (prune k) ks); [reflexivity|].
        cbn [show_list]. rewrite show_obj_scp. unfold show_scope_body. rewrite Et. reflexivity.
      * cbn [show_list]. rewrite show_obj_scp. unfold show_scope_body. rewrite Et. reflexivity.
    + cbn [bind]. destruct (hidden_k a k); [reflexivity|].
      destruct (oname h) as [|n0 nr] eqn:En; [discriminate Hname|].
      destruct (first_merges ks) eqn:Efm.
      * (* dotted-name prefix scope: exactly one child *)
        destruct ks as [|c [|c2 r]]; [discriminate Efm| |].
        -- cbn [flat_map] in *. rewrite app_nil_r in *.
           rewrite Hlist.
           destruct (prune_at_most_one k c) as [E|[c' E]]; rewrite E.
           ++ reflexivity.
           ++ cbn [show_list]. rewrite show_obj_scp. unfold show_scope_body.
              rewrite Et, hidden_none. cbn [bind]. rewrite En.
              assert (Hm : first_merges [c'] = true).
              { cbn [first_merges] in *. rewrite (prune_hdr k c c'); [exact Efm|rewrite E; left; reflexivity]. }
              rewrite Hm. nilr; rewrite ?show_list_single; reflexivity.
        -- (* several children: none carries merge_names, contradiction with first_merges *)
           cbn [first_merges] in Efm. cbn [forallb] in Hshape.
           apply andb_prop in Hshape as [Hc _]. rewrite Efm in Hc. discriminate Hc.
      * assert (Hfm' : first_merges (flat_map (prune k) ks) = false).
        { destruct ks as [|c [|c2 r]].
          - reflexivity.
          - cbn [flat_map]. rewrite app_nil_r. cbn [first_merges] in Efm.
            destruct (prune_at_most_one k c) as [E|[c' E]]; rewrite E; [reflexivity|].
            cbn [first_merges]. rewrite (prune_hdr k c c'); [exact Efm|rewrite E; left; reflexivity].
          - apply first_merges_prunes_false. exact Hshape. }
        cbn [show_list]. rewrite show_obj_scp. unfold show_scope_body.
        rewrite Et, hidden_none. cbn [bind]. rewrite En, Hfm'.
        rewrite Hlist. nilr; rewrite ?show_list_single; reflexivity.
Qed.

Theorem show_objs_expert_is_prune : forall k l, forallb wf_show l = true -> forall prefix level width,
  show_objs l prefix (Some k) level width = show_objs (prunes k l) prefix None level width.
Proof.
  intros k l Hwf prefix level width. rewrite !show_objs_list. unfold prunes.
  induction l as [|o r IH]; [reflexivity|].
  cbn [forallb] in Hwf. apply andb_prop in Hwf as [Ho Hr].
  cbn [show_list flat_map]. rewrite show_list_app, (show_expert_is_prune k o Ho), (IH Hr). reflexivity.
Qed.

(* ---------- attribute levels *)
Definition attr_visible (name:str) (v:aval) (level:Z) : bool :=
  negb (eqs name (s_ "deprecated") && negb (py_truthy v))
  && (let isnone := match v with ANone => true | _ => false end in
      ((is_level1_attr name && negb isnone) || (negb isnone && (1 <? level)%Z) || (2 <? level)%Z)
      && negb (eqs name (s_ "alias") && isnone)).

Lemma show_attr_invisible : forall prefix name v level width,
  attr_visible name v level = false -> show_attr prefix name v level width = Ok [].
Proof.
  intros prefix name v level width H. unfold attr_visible in H. unfold show_attr.
  destruct (eqs name (s_ "deprecated") && negb (py_truthy v)); [reflexivity|]. cbn [negb andb] in H.
  match type of H with (?c && _) = false => destruct c end; [|reflexivity].
  cbn [andb] in H. apply Bool.negb_false_iff in H. rewrite H. reflexivity.
Qed.

Lemma attr_visible_monotone : forall name v a b, (a <= b)%Z ->
  attr_visible name v a = true -> attr_visible name v b = true.
Proof.
  intros name v a b Hab H. unfold attr_visible in *.
  apply andb_prop in H as [H1 H2]. rewrite H1. cbn [andb].
  apply andb_prop in H2 as [H2 H3]. rewrite H3, Bool.andb_true_r.
  apply Bool.orb_true_iff in H2 as [H2|H2].
  - apply Bool.orb_true_iff in H2 as [H2|H2].
    + rewrite H2. reflexivity.
    + apply andb_prop in H2 as [H2 H4]. rewrite H2. cbn [andb].
      assert ((1 <? b)%Z = true) by (apply Z.ltb_lt; apply Z.ltb_lt in H4; lia).
      rewrite H. rewrite Bool.orb_true_r. reflexivity.
  - assert ((2 <? b)%Z = true) by (apply Z.ltb_lt; apply Z.ltb_lt in H2; lia).
    rewrite H. rewrite Bool.orb_true_r. reflexivity.
Qed.

Lemma level0_no_attributes : forall prefix names a w, show_attributes prefix names a 0 w = Ok [].
Proof. reflexivity. Qed.

(* level 1 shows only help and alias *)
Lemma level1_only_help_alias : forall name v, attr_visible name v 1 = true -> is_level1_attr name = true.
Proof.
  intros name v H. unfold attr_visible in H. destruct (is_level1_attr name); [reflexivity|].
  change (1 <? 1)%Z with false in H. change (2 <? 1)%Z with false in H.
  destruct (eqs name (s_ "deprecated") && negb (py_truthy v)); [discriminate H|].
  destruct v; cbn in H; discriminate H.
Qed.

(* level 2 shows only attributes that are set *)
Lemma level2_set_attributes : forall name v, attr_visible name v 2 = true -> v <> ANone.
Proof.
  intros name v H Hv. subst v. unfold attr_visible in H.
  change (2 <? 2)%Z with false in H.
  destruct (eqs name (s_ "deprecated")), (is_level1_attr name), (eqs name (s_ "alias")); cbn in H; discriminate H.
Qed.
