(* C13, text-level clause, first theorem: for include lines AT TOP LEVEL of the including files the
   tree that include processing builds equals (up to primary ids and line numbers) the parse of the
   text obtained by textually replacing every include line with the - recursively inlined - text of
   the named file.

   Setting
     seg / text_of        a file's text presented as a sequence of segments: plain pieces of text and
                          top-level lines "include file NAME" (text = concatenation, [text_of])
     ttab, fs_of          a table of such files; [fs_of o tt] is the file-system oracle of the include
                          model (Model/Include.v) in which every file holds [parse o (its text)]
     Flat / FlatF         textual inlining: FlatF stack file ps says that the inlined text of [file] is
                          the concatenation of the leaf pieces ps (names resolved against the directory
                          of the including file exactly as the model does; a file is not re-entered
                          while it is being inlined; any depth, diamonds allowed)
     good_table           every plain piece is a complete, newline-terminated text ([leaf_ok]: conditions
                          of ParserCompose.parse_app) that parses and holds no enabled "include" at
                          any depth; every include name is a plain word without "$"
   Theorems
     inlining_toplevel_partial   FlatF [] file ps -> exists t l, Expands .. [] file t (for chk = true and
                                 chk = false) /\ parse o (concat ps) = Ok l /\ erase l = erase t
     includes_text_toplevel_partial   the same with the MODEL function: includes_file .. file = Ok t
   "_partial": include lines inside scopes are not covered (Expands and the model handle them; the text
   side needs parse_app inside a braced run), nor plain pieces that hold disabled/malformed includes
   beyond what [noinc] allows, nor "include scope".  Future work, in comments only:
     - includes inside scopes: cobj_app with stop = true already carries a braced run across a ++ b;
       what is missing is the boundary state inside the scope (the analogue of cobj_boundary with
       stop = true) and a segment grammar with nesting;
     - dropping the presentation by segments: every text whose top-level include lines are plain has
       such a presentation (a splitting function with its correctness proof). *)
From Coq Require Import List Ascii String Bool Arith ZArith Lia.
From Phil Require Import Base Tokenizer Tree Parser Show Include IncludeSpec IncludeProofs ParserShape ShowErase
                         TreeRoundtrip ParserCompose.
Import ListNotations.
Local Open Scope char_scope.

(* ====================================================================================== *)
(* 1. texts as segments, file tables                                                        *)
(* ====================================================================================== *)
Inductive seg := SPlain (t:str) | SIncl (name:str).
Definition seg_text (s:seg) : str := match s with SPlain t => t | SIncl n => incl_line n end.
Definition text_of (segs:list seg) : str := List.concat (map seg_text segs).

Definition ttab := list (str * list seg).
Fixpoint tlookup (t:ttab) (p:str) : option (list seg) :=
  match t with [] => None | (k, v) :: r => if eqs k p then Some v else tlookup r p end.
Definition fent_of (o:oracle) (text:str) : fent :=
  match parse o text with Ok l => FObjs l | UErr _ _ ln => FBad ln | Crash _ => FBad 0 end.
Definition fs_of (o:oracle) (t:ttab) : fsys := map (fun kv => (fst kv, fent_of o (text_of (snd kv)))) t.

Lemma fs_get_of : forall o t p segs l,
  tlookup t p = Some segs -> parse o (text_of segs) = Ok l -> fs_get (fs_of o t) p = Ok l.
Proof.
  intros o; induction t as [|[k v] t IH]; intros p segs l H Hp; [discriminate H|].
  cbn [tlookup] in H. cbn [fs_of map fs_get fst snd]. destruct (eqs k p).
  - inversion H; subst. unfold fent_of. rewrite Hp. reflexivity.
  - apply (IH _ _ _ H Hp).
Qed.

(* ====================================================================================== *)
(* 2. trees on which include processing is the identity                                     *)
(* ====================================================================================== *)
Fixpoint noinc (x:obj) : bool :=
  match x with
  | Def h _ _ => odis h || negb (eqs (oname h) s_include)
  | Scp h ks _ => odis h || forallb noinc ks
  end.
Fixpoint tmpl0 (x:obj) : bool :=
  match x with
  | Def h _ _ => (otmpl h =? 0)%Z
  | Scp h ks _ => (otmpl h =? 0)%Z && forallb tmpl0 ks
  end.

(* every header the parser builds has is_template = 0 *)
Lemma pshape_tmpl0 : forall x m, pshape m x = true -> tmpl0 x = true.
Proof.
  induction x as [h ws a|h ks a IH] using obj_ind2; intros m H.
  - cbn [pshape] in H. unfold leaf_shape in H. cbn [tmpl0].
    apply andb_prop in H as [H _]. apply andb_prop in H as [_ H]. exact H.
  - cbn [pshape] in H. cbn [tmpl0]. destruct (first_merges ks).
    + apply andb_prop in H as [H H7]. apply andb_prop in H as [H _].
      apply andb_prop in H as [H _]. apply andb_prop in H as [_ H3]. rewrite H3. cbn [andb].
      destruct ks as [|k0 [|k2 r]]; try discriminate H7. apply andb_prop in H7 as [_ H7].
      inversion IH as [|? ? Hk _]; subst. cbn [forallb]. rewrite (Hk _ H7). reflexivity.
    + apply andb_prop in H as [H1 H2]. unfold leaf_shape in H1.
      apply andb_prop in H1 as [H1 _]. apply andb_prop in H1 as [_ H1]. rewrite H1. cbn [andb].
      apply forallb_forall. intros x Hx. rewrite forallb_forall in H2. rewrite Forall_forall in IH.
      exact (IH x Hx [] (H2 x Hx)).
Qed.
Lemma parse_tmpl0 : forall o s l, parse o s = Ok l -> forallb tmpl0 l = true.
Proof.
  intros o s l H. pose proof (parse_merge_shape o s l H) as Hs.
  apply forallb_forall. intros x Hx. rewrite forallb_forall in Hs. exact (pshape_tmpl0 x [] (Hs x Hx)).
Qed.

(* [noinc] does not look at ids, lines, attributes *)
Lemma noinc_erase : forall x, noinc (erase_obj x) = noinc x.
Proof.
  induction x as [h ws a|h ks a IH] using obj_ind2; [reflexivity|].
  cbn [erase_obj noinc erase_hdr odis]. f_equal.
  induction IH as [|k r Hk _ IHr]; [reflexivity|]. cbn [map forallb]. rewrite Hk, IHr. reflexivity.
Qed.
Lemma forallb_noinc_map : forall l, forallb noinc (map erase_obj l) = forallb noinc l.
Proof. induction l as [|x l IH]; [reflexivity|]. cbn [map forallb]. rewrite noinc_erase, IH. reflexivity. Qed.
Lemma forallb_noinc_erase : forall p l, map erase_obj p = map erase_obj l -> forallb noinc p = forallb noinc l.
Proof. intros p l H. rewrite <- (forallb_noinc_map p), <- (forallb_noinc_map l), H. reflexivity. Qed.

Lemma eqs_same : forall x, eqs x x = true.
Proof. induction x as [|c x IH]; [reflexivity|]. cbn [eqs]. rewrite Ascii.eqb_refl, IH. reflexivity. Qed.

(* the include line's words *)
Lemma existsb_dollar_erase : forall ws, existsb has_dollar (map erase_word ws) = existsb has_dollar ws.
Proof. induction ws as [|w ws IH]; [reflexivity|]. cbn [map existsb]. rewrite IH. reflexivity. Qed.
Lemma classify_erase : forall ws, classify (map erase_word ws) = classify ws.
Proof.
  intros ws. unfold classify. rewrite existsb_dollar_erase.
  destruct (existsb has_dollar ws); [reflexivity|].
  destruct ws as [|w0 [|w1 [|w2 [|w3 r]]]]; reflexivity.
Qed.
Lemma classify_incl : forall name ln, mem "$" name = false ->
  classify [mkword (s_ "file") QN ln; mkword name QN ln] = IKFile name.
Proof.
  intros name ln H. unfold classify. cbn [existsb has_dollar wq wv quote_eqb negb andb orb].
  change (mem "$" (s_ "file")) with false. rewrite H. reflexivity.
Qed.

Section Spec.
  Variable isc : str -> option str -> option (list obj).
  Variable fs : fsys.
  Variable cwd : str.
  Variable chk : bool.

  Lemma expands_id : forall x stack rd, noinc x = true -> tmpl0 x = true ->
    ExpandsO isc fs cwd chk stack rd x [x].
  Proof.
    induction x as [h ws a|h ks a IH] using obj_ind2; intros stack rd Hn Ht.
    - cbn [noinc] in Hn. destruct (odis h) eqn:Ed; [apply EO_disabled; exact Ed|].
      cbn [orb] in Hn. apply negb_true_iff in Hn. apply EO_def; [exact Ed|].
      intros E. rewrite E, eqs_same in Hn. discriminate Hn.
    - destruct (odis h) eqn:Ed; [apply EO_disabled; exact Ed|].
      cbn [noinc tmpl0] in Hn, Ht. rewrite Ed in Hn. cbn [orb] in Hn. apply andb_prop in Ht as [Ht0 Htk].
      assert (HL : ExpandsL isc fs cwd chk stack rd ks ks).
      { clear Ed Ht0. induction ks as [|k0 r IHr]; [constructor|].
        inversion IH as [|? ? Hk Hr]; subst. cbn [forallb] in Hn, Htk.
        apply andb_prop in Hn as [Hn1 Hn2]. apply andb_prop in Htk as [Ht1 Ht2].
        change (k0 :: r) with ([k0] ++ r) at 2. apply EL_cons; [apply Hk; assumption|apply IHr; assumption]. }
      assert (Hh : with_tmpl h 0%Z = h).
      { apply Z.eqb_eq in Ht0. destruct h; cbn in *. subst. reflexivity. }
      pose proof (EO_scp isc fs cwd chk stack rd h ks a ks Ed HL) as X. rewrite Hh in X. exact X.
  Qed.
  Lemma expandsL_id : forall l stack rd, forallb noinc l = true -> forallb tmpl0 l = true ->
    ExpandsL isc fs cwd chk stack rd l l.
  Proof.
    induction l as [|x l IH]; intros stack rd Hn Ht; [constructor|].
    cbn [forallb] in Hn, Ht. apply andb_prop in Hn as [Hn1 Hn2]. apply andb_prop in Ht as [Ht1 Ht2].
    change (x :: l) with ([x] ++ l) at 2. apply EL_cons; [apply expands_id; assumption|apply IH; assumption].
  Qed.
  Lemma ExpandsL_app : forall stack rd l1 t1 l2 t2,
    ExpandsL isc fs cwd chk stack rd l1 t1 -> ExpandsL isc fs cwd chk stack rd l2 t2 ->
    ExpandsL isc fs cwd chk stack rd (l1 ++ l2) (t1 ++ t2).
  Proof.
    intros stack rd l1; induction l1 as [|x l1 IH]; intros t1 l2 t2 H1 H2.
    - inversion H1; subst. exact H2.
    - inversion H1; subst. rewrite <- app_assoc. cbn [app]. apply EL_cons; [assumption|]. apply IH; assumption.
  Qed.
End Spec.

(* ====================================================================================== *)
(* 3. textual inlining and the theorem                                                      *)
(* ====================================================================================== *)
Lemma split_parts : forall (g:seg -> list obj) segs objs,
  map erase_obj objs = map erase_obj (List.concat (map g segs)) ->
  exists parts, objs = List.concat parts
    /\ Forall2 (fun p s => map erase_obj p = map erase_obj (g s)) parts segs.
Proof.
  intros g; induction segs as [|s segs IH]; intros objs H.
  - cbn in H. destruct objs; [|discriminate H]. exists []. split; [reflexivity|constructor].
  - cbn [map List.concat] in H. rewrite map_app in H. apply map_eq_app in H as (p1 & rest & -> & Hp1 & Hrest).
    destruct (IH _ Hrest) as (parts & -> & H2). exists (p1 :: parts). split; [reflexivity|]. constructor; assumption.
Qed.
Lemma forallb_concat_parts : forall (f:obj -> bool) parts,
  forallb f (List.concat parts) = true -> Forall (fun p => forallb f p = true) parts.
Proof.
  intros f; induction parts as [|p parts IH]; intros H; [constructor|].
  cbn [List.concat] in H. rewrite forallb_app in H. apply andb_prop in H as [H1 H2]. constructor; auto.
Qed.

Section Flat.
  Variable o : oracle.
  Variable isc : str -> option str -> option (list obj).
  Variable tt : ttab.
  Variable cwd : str.
  Let fs := fs_of o tt.

  Inductive Flat : list str -> option str -> list seg -> list str -> Prop :=
  | F_nil : forall stack rd, Flat stack rd [] []
  | F_plain : forall stack rd t r ps, Flat stack rd r ps -> Flat stack rd (SPlain t :: r) (t :: ps)
  | F_incl : forall stack rd name r ps qs,
      FlatF stack (resolve rd name) ps -> Flat stack rd r qs -> Flat stack rd (SIncl name :: r) (ps ++ qs)
  with FlatF : list str -> str -> list str -> Prop :=
  | F_file : forall stack file segs ps,
      tlookup tt (fs_key (nrm cwd file)) = Some segs ->
      ~ In (nrm cwd file) stack ->
      Flat (stack ++ [nrm cwd file]) (Some (dirname (nrm cwd file))) segs ps -> FlatF stack file ps.
  Scheme Flat_m := Minimality for Flat Sort Prop
    with FlatF_m := Minimality for FlatF Sort Prop.
  Combined Scheme Flat_mut from Flat_m, FlatF_m.

  Definition good_seg (s:seg) : Prop :=
    match s with
    | SPlain t => leaf_ok o t /\ forallb noinc (ok_list (parse o t)) = true
    | SIncl n => plain_name n = true /\ mem "$" n = false
    end.
  Definition good_table : Prop := forall key segs, tlookup tt key = Some segs -> Forall good_seg segs.

  Lemma seg_leaf_ok : forall s, good_seg s -> leaf_ok o (seg_text s).
  Proof.
    intros [t|n]; cbn [good_seg seg_text]; [intros [H _]; exact H|]. intros [Hn _].
    destruct (incl_line_facts n Hn) as (_ & _ & _ & Hv).
    split; [apply incl_line_complete; exact Hn|]. split; [exact Hv|].
    eexists. apply parse_incl_line. exact Hn.
  Qed.

  Hypothesis Hgood : good_table.
  Variable chk : bool.

  Definition part_rel (p:list obj) (s:seg) : Prop :=
    map erase_obj p = map erase_obj (ok_list (parse o (seg_text s))).

  Lemma flat_sound :
    (forall stack rd segs ps, Flat stack rd segs ps -> Forall good_seg segs ->
       forall parts, Forall2 part_rel parts segs -> Forall (fun p => forallb tmpl0 p = true) parts ->
       Forall (leaf_ok o) ps /\
       exists t, ExpandsL isc fs cwd chk stack rd (List.concat parts) t
                 /\ map erase_obj t = map erase_obj (parses o ps))
    /\ (forall stack file ps, FlatF stack file ps ->
       Forall (leaf_ok o) ps /\
       exists t, Expands isc fs cwd chk stack file t /\ map erase_obj t = map erase_obj (parses o ps)).
  Proof.
    apply Flat_mut.
    - intros stack rd _ parts H2 _. inversion H2; subst. split; [constructor|].
      exists []. split; [constructor|reflexivity].
    - intros stack rd t r ps _ IH Hg parts H2 Ht0.
      inversion Hg as [|? ? Hgs Hgr]; subst. cbn [good_seg] in Hgs. destruct Hgs as [Hleaf Hni].
      inversion H2 as [|p ? parts' ? Hp H2']; subst. inversion Ht0 as [|? ? Htp Ht']; subst.
      destruct (IH Hgr parts' H2' Ht') as (Hl & t' & HE & He).
      split; [constructor; assumption|].
      unfold part_rel in Hp. cbn [seg_text] in Hp.
      exists (p ++ t'). split.
      + cbn [List.concat]. apply ExpandsL_app; [|exact HE]. apply expandsL_id; [|exact Htp].
        rewrite (forallb_noinc_erase _ _ Hp). exact Hni.
      + unfold parses in *. cbn [map List.concat]. rewrite !map_app, He, Hp. reflexivity.
    - intros stack rd name r ps qs _ IHF _ IH Hg parts H2 Ht0.
      inversion Hg as [|? ? Hgs Hgr]; subst. cbn [good_seg] in Hgs. destruct Hgs as [Hpn Hd].
      inversion H2 as [|p ? parts' ? Hp H2']; subst. inversion Ht0 as [|? ? Htp Ht']; subst.
      destruct IHF as (Hlp & tp & HEp & Hep).
      destruct (IH Hgr parts' H2' Ht') as (Hlq & tq & HEq & Heq).
      split; [apply Forall_app; split; assumption|].
      unfold part_rel in Hp. cbn [seg_text] in Hp. rewrite (parse_incl_line o name Hpn) in Hp.
      cbn [ok_list map] in Hp.
      destruct p as [|i [|i2 p']]; try discriminate Hp. inversion Hp as [Hi]. clear Hp.
      destruct i as [h ws a|h ks a]; [|discriminate Hi]. cbn [erase_obj incl_obj] in Hi.
      assert (Hodis : odis h = false) by (apply (f_equal (fun x => odis (ohdr x))) in Hi; exact Hi).
      assert (Honame : oname h = s_include) by (apply (f_equal (fun x => oname (ohdr x))) in Hi; exact Hi).
      assert (Hws : map erase_word ws = [mkword (s_ "file") QN 0; mkword name QN 0])
        by (apply (f_equal owords) in Hi; exact Hi).
      clear Hi.
      exists (tp ++ tq). split.
      + cbn [List.concat app]. apply EL_cons; [|exact HEq].
        eapply EO_file; [| | |exact HEp].
        * exact Hodis.
        * exact Honame.
        * rewrite <- classify_erase, Hws. apply classify_incl. exact Hd.
      + unfold parses in *. rewrite (map_app (fun p : str => ok_list (parse o p)) ps qs), concat_app, !map_app, Hep, Heq. reflexivity.
    - intros stack file segs ps Hlook Hnin _ IH.
      pose proof (Hgood _ _ Hlook) as Hg.
      assert (Hleaves : Forall (leaf_ok o) (map seg_text segs)).
      { apply Forall_map. eapply Forall_impl; [|exact Hg]. exact seg_leaf_ok. }
      destruct (parse_concat o (map seg_text segs) Hleaves) as (_ & objs & Hobjs & Heobjs).
      unfold parses in Heobjs. rewrite map_map in Heobjs.
      destruct (split_parts (fun s => ok_list (parse o (seg_text s))) segs objs Heobjs) as (parts & Hparts & H2).
      pose proof (parse_tmpl0 _ _ _ Hobjs) as Ht0. rewrite Hparts in Ht0. apply forallb_concat_parts in Ht0.
      destruct (IH Hg parts H2 Ht0) as (Hl & t & HE & He).
      split; [exact Hl|]. exists t. split; [|exact He].
      eapply Ex_file; [apply (fs_get_of o tt _ segs objs Hlook Hobjs)|intros _; exact Hnin|].
      rewrite Hparts. exact HE.
  Qed.
End Flat.

(* the Expands tree (with or without the cycle test) equals the parse of the inlined text *)
Theorem inlining_toplevel_partial : forall o isc tt cwd, good_table o tt ->
  forall file ps, FlatF tt cwd [] file ps ->
  exists t l, Expands isc (fs_of o tt) cwd true [] file t /\ Expands isc (fs_of o tt) cwd false [] file t
              /\ parse o (List.concat ps) = Ok l /\ map erase_obj l = map erase_obj t.
Proof.
  intros o isc tt cwd Hg file ps HF.
  destruct (proj2 (flat_sound o isc tt cwd Hg true) [] file ps HF) as (Hl & t & HE & He).
  destruct (parse_concat o ps Hl) as (_ & l & Hp & Hel).
  exists t, l. split; [exact HE|]. split; [apply (proj1 (Expands_weaken isc (fs_of o tt) cwd)); exact HE|].
  split; [exact Hp|]. rewrite Hel, He. reflexivity.
Qed.

(* ... and that tree is what the model of parse(file_name=.., process_includes=True) returns *)
Theorem includes_text_toplevel_partial : forall o isc tt cwd, good_table o tt ->
  forall file ps, FlatF tt cwd [] file ps ->
  exists t l, includes_file isc (fs_of o tt) cwd file = Ok t
              /\ parse o (List.concat ps) = Ok l /\ map erase_obj l = map erase_obj t.
Proof.
  intros o isc tt cwd Hg file ps HF.
  destruct (inlining_toplevel_partial o isc tt cwd Hg file ps HF) as (t & l & HE & _ & Hp & He).
  exists t, l. split; [apply includes_complete_entry; exact HE|]. split; assumption.
Qed.

(* ====================================================================================== *)
(* 4. Example: a includes sub/b (first line of b includes ../c) and, as its last line, c     *)
(* ====================================================================================== *)
Definition ex_cwd : str := s_ "/elsewhere".
Definition ex_pa : str := s_ "/r/a.phil".
Definition ex_tt : ttab :=
  [(s_ "/r/a.phil",
    [SPlain (s_ "# master
x = 1
"); SIncl (s_ "sub/b.phil"); SPlain (s_ "y { z = 2 }
"); SIncl (s_ "c.phil")]);
   (s_ "/r/sub/b.phil",
    [SIncl (s_ "../c.phil"); SPlain (s_ "b = ""from b"" 'and more'
!off = 0
")]);
   (s_ "/r/c.phil", [SPlain (s_ "c = 3
.help = ""the c""
")])].

Example ex_texts :
  text_of [SPlain (s_ "# master
x = 1
"); SIncl (s_ "sub/b.phil"); SPlain (s_ "y { z = 2 }
"); SIncl (s_ "c.phil")] = s_ "# master
x = 1
include file sub/b.phil
y { z = 2 }
include file c.phil
".
Proof. vm_compute. reflexivity. Qed.

Ltac leaf_follow :=
  split; [split; [vm_compute; reflexivity|split; [vm_compute; reflexivity|vm_compute; discriminate]]|];
  split; [apply follow_value_stops, next_starts_follow; vm_compute; reflexivity|];
  eexists; vm_compute; reflexivity.

Ltac leaf_comment body :=
  split; [split; [vm_compute; reflexivity|split; [vm_compute; reflexivity|vm_compute; discriminate]]|];
  split; [|eexists; vm_compute; reflexivity];
  apply (comment_value_stops body); [reflexivity|reflexivity|];
  apply next_unquoted_any; vm_compute; reflexivity.
Ltac gplain tac := cbn [good_seg]; split; [tac|vm_compute; reflexivity].
Ltac gincl := cbn [good_seg]; split; vm_compute; reflexivity.

Example ex_good : good_table [] ex_tt.
Proof.
  intros key segs H. unfold ex_tt in H. cbn [tlookup] in H.
  destruct (eqs (s_ "/r/a.phil") key); [inversion H; subst; clear H|].
  { apply Forall_cons; [gplain ltac:(leaf_comment (s_ " master"))|].
    apply Forall_cons; [gincl|]. apply Forall_cons; [gplain leaf_follow|]. apply Forall_cons; [gincl|]. constructor. }
  destruct (eqs (s_ "/r/sub/b.phil") key); [inversion H; subst; clear H|].
  { apply Forall_cons; [gincl|]. apply Forall_cons; [gplain leaf_follow|]. constructor. }
  destruct (eqs (s_ "/r/c.phil") key); [inversion H; subst; clear H|discriminate H].
  apply Forall_cons; [gplain leaf_follow|]. constructor.
Qed.

Definition ex_inlined : str := s_ "# master
x = 1
c = 3
.help = ""the c""
b = ""from b"" 'and more'
!off = 0
y { z = 2 }
c = 3
.help = ""the c""
".

Ltac not_in := let H := fresh in intros H; vm_compute in H; repeat (destruct H as [H|H]; [discriminate H|]); exact H.

Example ex_flat : exists ps, FlatF ex_tt ex_cwd [] ex_pa ps /\ List.concat ps = ex_inlined.
Proof.
  eexists. split.
  - eapply F_file; [vm_compute; reflexivity|not_in|].
    apply F_plain. eapply F_incl.
    { eapply F_file; [vm_compute; reflexivity|not_in|].
      eapply F_incl.
      { eapply F_file; [vm_compute; reflexivity|not_in|]. apply F_plain. apply F_nil. }
      apply F_plain. apply F_nil. }
    apply F_plain. eapply F_incl.
    { eapply F_file; [vm_compute; reflexivity|not_in|]. apply F_plain. apply F_nil. }
    apply F_nil.
  - vm_compute. reflexivity.
Qed.

(* the theorem on this table *)
Example ex_includes_text : exists t l,
  includes_file isc0 (fs_of [] ex_tt) ex_cwd ex_pa = Ok t
  /\ parse [] ex_inlined = Ok l /\ map erase_obj l = map erase_obj t.
Proof.
  destruct ex_flat as (ps & HF & Hc). rewrite <- Hc.
  apply (includes_text_toplevel_partial [] isc0 ex_tt ex_cwd ex_good ex_pa ps HF).
Qed.

(* the same by evaluation: five top-level objects, the c file twice, attributes kept; the ids of the
   two trees differ (the include-processed tree keeps the ids each file was parsed with) *)
Example ex_includes_text_computed :
  map erase_obj (ok_list (parse [] ex_inlined))
  = map erase_obj (ok_list (includes_file isc0 (fs_of [] ex_tt) ex_cwd ex_pa))
  /\ map (fun x => (oname (ohdr x), opid (ohdr x))) (ok_list (includes_file isc0 (fs_of [] ex_tt) ex_cwd ex_pa))
     = [(["x"], 1); (["c"], 1); (["b"], 2); (s_ "off", 3); (["y"], 3); (["c"], 1)]
  /\ map (fun x => (oname (ohdr x), opid (ohdr x))) (ok_list (parse [] ex_inlined))
     = [(["x"], 1); (["c"], 2); (["b"], 3); (s_ "off", 4); (["y"], 5); (["c"], 7)].
Proof. repeat split; vm_compute; reflexivity. Qed.

(* an include line inside a scope is outside this theorem's relation (it is a plain piece that is
   not [noinc]) although the model and Expands handle it *)
Example ex_scope_include_not_covered :
  forallb noinc (ok_list (parse [] (s_ "s {
  include file c.phil
}
"))) = false.
Proof. vm_compute. reflexivity. Qed.

Print Assumptions inlining_toplevel_partial.
Print Assumptions includes_text_toplevel_partial.
