(* C08, groundwork: names of the objects of any fetch result (diff or not), positions of the
   master's entries and "a master with unique sibling names has no further occurrences"
   (self_matching = []), results depend on the sources only through what each entry's name matches,
   and the block-wise analysis of the loop over the master's entries. *)
From Coq Require Import List Ascii String Bool Arith ZArith Lia.
From Phil Require Import Base Tree Vars Choice ChoiceProofs ChoiceTop Fetch FetchBasics FetchShape FetchDisabled
  FetchIdemLists FetchIdemBase FetchIdem FetchIdemCopy.
Import ListNotations.
Local Open Scope char_scope.

(* ------------------------------------------------------------------ every result object carries its entry's name *)
Definition named (k:obj) (x:obj) : Prop := onm x = onm k /\ odis (ohdr x) = odis (ohdr k).

Section Names.
  Variable env : str -> option str.
  Variable canon : obj -> option obj -> res str.
  Variable diff : bool.

  Lemma def_fetch_value_named : forall dm h mws a s o,
    def_fetch_value env dm h mws a s = Ok (Some o) -> named (Def h mws a) o.
  Proof.
    intros dm h mws a s o H. destruct (def_fetch_value_shape env dm h mws a s o H) as [w [E _]]. subst. split; reflexivity.
  Qed.

  Lemma def_fetch_named : forall h mws a s o, def_fetch env canon diff h mws a s = Ok (Some o) -> named (Def h mws a) o.
  Proof.
    intros h mws a s o H. unfold def_fetch in H. destruct diff.
    - bind_inv H as r Hr. bind_inv H as x Hx. bind_inv H as y Hy. destruct (eqs x y); [discriminate|].
      injection H as E. subst. eapply def_fetch_value_named; eassumption.
    - eapply def_fetch_value_named; eassumption.
  Qed.

  Lemma def_loop_named : forall h mws a ms last o,
    (forall x, last = Some x -> named (Def h mws a) x) ->
    def_loop env canon diff h mws a ms last = Ok (Some o) -> named (Def h mws a) o.
  Proof.
    intros h mws a ms. induction ms as [|s r IH]; intros last o Hl H; cbn [def_loop] in H.
    - injection H as E. apply Hl. exact E.
    - bind_inv H as x Hx. eapply IH; [|exact H]. intros y Ey. subst x. eapply def_fetch_named; exact Hx.
  Qed.

  Lemma cand_fetch_named : forall k rec s c u, cand_fetch env canon diff k rec s = Ok (Some c, u) -> named k c.
  Proof.
    intros k rec s c u H. destruct k as [h mws a|h ks a]; cbn [cand_fetch] in H.
    - bind_inv H as r Hr. injection H as E _. subst r. eapply def_fetch_named; exact Hr.
    - bind_inv H as comb Hcomb. bind_inv H as oc Hoc. injection H as E _. subst c. split; reflexivity.
  Qed.

  Lemma mult_loop_named : forall k rec mas cands pd robjs used st,
    (forall c, In (Some c) robjs -> named k c) ->
    mult_loop env canon diff k rec mas cands pd robjs used = Ok st ->
    forall c, In (Some c) (snd (fst st)) -> named k c.
  Proof.
    intros k rec mas cands. induction cands as [|[fm s] r IH]; intros pd robjs used st Hr H.
    - cbn in H. injection H as E. subst. exact Hr.
    - cbn [mult_loop] in H. bind_inv H as cc Hcc. destruct cc as [cand u]. cbn [fst snd] in H.
      destruct (diff_skip diff k cand); [eapply IH; eassumption|].
      bind_inv H as cs Hcs. destruct (eqs cs mas); [eapply IH; eassumption|].
      assert (Hcand : forall c, cand = Some c -> named k c) by (intros c E; subst cand; eapply cand_fetch_named; exact Hcc).
      assert (Hsn : forall i c, In (Some c) (match i with Some (Some j) => set_none j robjs | _ => robjs end) -> named k c).
      { intros i c Hin. apply Hr. destruct i as [[j|]|]; [eapply set_none_In; exact Hin|exact Hin|exact Hin]. }
      assert (Hstep : forall i c, In (Some c) (match i with Some (Some j) => set_none j robjs | _ => robjs end ++ [cand]) -> named k c).
      { intros i c Hin. apply in_app_or in Hin. destruct Hin as [Hin|[Hin|[]]]; [eapply Hsn; exact Hin|apply Hcand; exact Hin]. }
      destruct (pget cs pd) as [[i|]|] eqn:Eg.
      + destruct (diff && fm); (eapply IH; [|exact H]); [apply (Hsn (Some (Some i)))|apply (Hstep (Some (Some i)))].
      + eapply IH; eassumption.
      + destruct (diff && fm); (eapply IH; [|exact H]); [apply (Hsn None)|apply (Hstep None)].
  Qed.

  Lemma fetch_one_named : forall allks chain i k rec srcs o,
    fetch_one env canon diff allks chain i k rec srcs = Ok o -> forall x, In x (fst o) -> named k x.
  Proof.
    intros allks chain i k rec srcs o H. unfold fetch_one in H.
    destruct (get_attr (s_ "alias") (oattrs k)); try discriminate.
    destruct (oname (ohdr k)) as [|c0 nm] eqn:En; [discriminate|].
    destruct (omultiple k) eqn:Em; cbn [negb] in H.
    - bind_inv H as mas Hmas. bind_inv H as st Hst. destruct st as [[pd robjs] used]. injection H as E. subst o. cbn [fst].
      intros x Hx. apply in_app_or in Hx. destruct Hx as [Hx|Hx].
      + destruct diff; [destruct Hx|]. destruct Hx as [Hx|[]]. subst x. unfold template_of. destruct k; split; reflexivity.
      + apply In_somes in Hx. eapply (mult_loop_named k rec mas _ [] [] [] (pd, robjs, used)); [|exact Hst|exact Hx]. intros c [].
    - destruct k as [h mws a|h ks a].
      + bind_inv H as ro Hro. destruct ro as [x0|].
        * injection H as E. subst o. cbn [fst]. intros x [Hx|[]]. subst x.
          eapply def_loop_named; [|exact Hro]. intros y Ey. discriminate.
        * destruct (negb diff && negb (odeprecated (Def h mws a))); injection H as E; subst o; cbn [fst]; intros x Hx; [|destruct Hx].
          destruct Hx as [Hx|[]]. subst. split; reflexivity.
      + bind_inv H as comb Hcomb. bind_inv H as oc Hoc.
        destruct (diff && null_objs (fst oc)); injection H as E; subst o; cbn [fst]; intros x Hx; [destruct Hx|].
        destruct Hx as [Hx|[]]. subst x. split; reflexivity.
  Qed.
End Names.

(* ------------------------------------------------------------------ entries with their positions *)
Fixpoint ientries_from (seen:list obj) (i:nat) (l:list obj) : list (nat * obj) :=
  match l with
  | [] => []
  | k :: r =>
      match mao_step seen k with
      | MSkip => ientries_from seen (S i) r
      | MDup => []
      | MYield seen' => (i, k) :: ientries_from seen' (S i) r
      end
  end.

Lemma ientries_snd : forall l seen i, map snd (ientries_from seen i l) = entries_from seen l.
Proof.
  induction l as [|k r IH]; intros seen i; [reflexivity|]. cbn [ientries_from entries_from].
  destruct (mao_step seen k); [apply IH|reflexivity|cbn; f_equal; apply IH].
Qed.

Lemma ientries_nth : forall l seen i j k, In (j, k) (ientries_from seen i l) -> i <= j /\ nth_error l (j - i) = Some k.
Proof.
  induction l as [|x r IH]; intros seen i j k H; [destruct H|]. cbn [ientries_from] in H.
  destruct (mao_step seen x).
  - destruct (IH _ _ _ _ H) as [A B]. split; [lia|]. replace (j - i) with (S (j - S i)) by lia. exact B.
  - destruct H.
  - destruct H as [E|H].
    + injection E as E1 E2. subst. split; [lia|]. rewrite Nat.sub_diag. reflexivity.
    + destruct (IH _ _ _ _ H) as [A B]. split; [lia|]. replace (j - i) with (S (j - S i)) by lia. exact B.
Qed.

(* active objects at different positions of a scope with unique sibling names carry different names *)
Lemma uniq_positions : forall l i j x y, uniq_names l ->
  nth_error l i = Some x -> nth_error l j = Some y -> i <> j ->
  odis (ohdr x) = false -> odis (ohdr y) = false -> onm x <> onm y.
Proof.
  induction l as [|z l IH]; intros i j x y Hu Hi Hj Hne Hx Hy; [destruct i; discriminate|].
  unfold uniq_names in Hu. cbn [filter] in Hu. unfold mactive at 1 in Hu.
  assert (Hmem : forall n w, nth_error l n = Some w -> odis (ohdr w) = false -> In (onm w) (map (fun k => oname (ohdr k)) (filter mactive l))).
  { intros n w Hn Hw. apply (in_map (fun k => oname (ohdr k))). apply filter_In. split; [eapply nth_error_In; exact Hn|].
    unfold mactive. rewrite Hw. reflexivity. }
  destruct i as [|i]; destruct j as [|j]; cbn in Hi, Hj; try congruence.
  - injection Hi as E. subst z. rewrite Hx in Hu. cbn [negb map] in Hu. inversion Hu as [|a b Hnin _]; subst.
    intros E. apply Hnin. unfold onm in E. rewrite E. eapply Hmem; eassumption.
  - injection Hj as E. subst z. rewrite Hy in Hu. cbn [negb map] in Hu. inversion Hu as [|a b Hnin _]; subst.
    intros E. apply Hnin. unfold onm in E. rewrite <- E. eapply Hmem; eassumption.
  - apply (IH i j); try assumption; [|congruence].
    destruct (odis (ohdr z)); cbn [negb] in Hu; [exact Hu|]. cbn [map] in Hu. inversion Hu. assumption.
Qed.

Lemma index_from_nth : forall A (l:list A) i j x, In (j, x) (index_from i l) -> i <= j /\ nth_error l (j - i) = Some x.
Proof.
  intros A l. induction l as [|a r IH]; intros i j x H; [destruct H|].
  destruct H as [E|H].
  - injection E as E1 E2. subst. split; [lia|]. rewrite Nat.sub_diag. reflexivity.
  - destruct (IH _ _ _ H) as [A0 B]. split; [lia|]. replace (j - i) with (S (j - S i)) by lia. exact B.
Qed.

Lemma gwsp_other : forall n x p chain, nodot n -> onm x <> n -> onm x <> [] -> gwsp p chain n x = [].
Proof.
  intros n x p chain Hn Ho He. unfold onm in *.
  assert (Ee : eqs (oname (ohdr x)) n = false).
  { destruct (eqs (oname (ohdr x)) n) eqn:E; [apply f_eqs_eq in E; contradiction|reflexivity]. }
  destruct x as [h ws a|h ks a]; cbn [ohdr] in *.
  - cbn [gwsp]. rewrite Ee. cbn [negb]. rewrite orb_true_r. reflexivity.
  - cbn [gwsp]. destruct (odis h); [reflexivity|]. destruct (oname h) as [|c nm] eqn:En; [congruence|].
    rewrite Ee. destruct (prefixb ((c :: nm) ++ ["."]) n) eqn:Ep; [|reflexivity].
    apply prefix_dot in Ep. unfold nodot in Hn. congruence.
Qed.

Lemma flat_map_nil_all : forall A B (f:A -> list B) l, (forall x, In x l -> f x = []) -> flat_map f l = [].
Proof.
  intros A B f l. induction l as [|x r IH]; intros H; [reflexivity|]. cbn. rewrite (H x (or_introl eq_refl)).
  apply IH. intros y Hy. apply H. right. exact Hy.
Qed.

(* no further master occurrence: the from_master loop of the multiple branch has nothing to do *)
Lemma self_matching_uniq : forall allks chain i k,
  uniq_names allks -> nth_error allks i = Some k -> odis (ohdr k) = false -> nodot (onm k) ->
  (forall x, In x allks -> odis (ohdr x) = false -> onm x <> []) ->
  self_matching allks chain i (onm k) = [].
Proof.
  intros allks chain i k Hu Hi Hact Hdot Hne. unfold self_matching.
  rewrite flat_map_nil_all; [reflexivity|]. intros [j x] Hjx. cbn [fst snd].
  destruct (Nat.eqb_spec j i) as [Eji|Nji]; [reflexivity|]. cbn [orb].
  destruct (odis (ohdr x)) eqn:Hx; [reflexivity|].
  destruct (index_from_nth _ _ _ _ _ Hjx) as [_ Hn]. rewrite Nat.sub_0_r in Hn.
  apply gwsp_other; [exact Hdot| |].
  - apply (uniq_positions allks j i x k Hu Hn Hi Nji Hx Hact).
  - apply Hne; [eapply nth_error_In; exact Hn|exact Hx].
Qed.

(* ------------------------------------------------------------------ only what the entry's name matches counts *)
Section MatchView.
  Variable env : str -> option str.
  Variable canon : obj -> option obj -> res str.
  Variable diff : bool.

  Lemma fetch_one_mv : forall allks chain i k rec srcs srcs',
    rec_ok rec -> lplain srcs -> lplain srcs' ->
    map sl (match_sources (onm k) srcs) = map sl (match_sources (onm k) srcs') ->
    rrel same_tree (fetch_one env canon diff allks chain i k rec srcs)
                   (fetch_one env canon diff allks chain i k rec srcs').
  Proof.
    intros allks chain i k rec srcs srcs' Hrec Hp Hp' Hv. unfold fetch_one. unfold onm in Hv.
    destruct (get_attr (s_ "alias") (oattrs k)); try (cbn; auto).
    destruct (oname (ohdr k)) as [|c0 nm]; [cbn; auto|].
    pose proof (Forall2_srel_of_views _ _ Hv (match_sources_plain _ _ Hp) (match_sources_plain _ _ Hp')) as Hm.
    destruct (omultiple k); cbn [negb].
    - destruct (canon k None) as [mas| |]; cbn [bind]; [|cbn; auto|cbn; auto].
      eapply rrel_bind.
      + apply mult_loop_srel with (used' := []); [exact Hrec|].
        apply Forall2_app.
        * induction (self_matching allks chain i (c0 :: nm)) as [|x l IHl]; [constructor|]. cbn [map]. constructor; [|exact IHl].
          split; [reflexivity|left; reflexivity].
        * clear Hv. induction Hm as [|s s' r r' Hs _ IHm]; [constructor|]. cbn [map]. constructor; [|exact IHm]. split; [reflexivity|exact Hs].
      + intros [[pd robjs] used] [[pd' robjs'] used'] E. cbn in E. injection E as E1 E2. subst. cbn. reflexivity.
    - destruct k as [h mws a|h ks a].
      + rewrite (def_loop_srel env canon diff _ _ _ _ _ None Hm).
        destruct (def_loop env canon diff h mws a (match_sources (c0 :: nm) srcs') None) as [ro| |]; cbn [bind]; [|cbn; auto|cbn; auto].
        destruct ro; [cbn; reflexivity|]. destruct (negb diff && negb (odeprecated (Def h mws a))); cbn; reflexivity.
      + eapply rrel_bind; [apply combine_rel; exact Hv|].
        intros c c' [E E']. subst.
        eapply rrel_bind.
        * apply Hrec.
          -- rewrite !lview_flat_kids. rewrite Hv. reflexivity.
          -- apply src_kids_plain. apply match_sources_plain. exact Hp.
          -- apply src_kids_plain. apply match_sources_plain. exact Hp'.
        * intros oc oc' E. unfold same_tree in E. rewrite E.
          destruct (diff && null_objs (fst oc')); cbn; reflexivity.
  Qed.
End MatchView.

(* ------------------------------------------------------------------ block-wise analysis of the entries loop *)
(* The source offered to the run is a list W = pre ++ (blocks, one per entry) ++ post; every entry finds
   exactly its own block under its name. *)
Section Blocks.
  Variable X : Type.
  Variable vw : X -> list obj.                 (* the block as it stands among the sources *)
  Variable P : obj -> X -> Prop.               (* what is known about the block of an entry *)
  Variable Q : obj -> X -> list obj -> Prop.   (* what is to be shown of the entry's result block *)
  Variable body : nat -> obj -> res fout.

  Inductive Bl : list obj -> list X -> Prop :=
    | Bl_nil : Bl [] []
    | Bl_cons : forall k x es xs, P k x -> Bl es xs -> Bl (k :: es) (x :: xs).
  Inductive Bl2 : list obj -> list X -> list (list obj) -> Prop :=
    | Bl2_nil : Bl2 [] [] []
    | Bl2_cons : forall k x y es xs ys, Q k x y -> Bl2 es xs ys -> Bl2 (k :: es) (x :: xs) (y :: ys).

  Hypothesis Pnamed : forall k x, P k x -> forall o, In o (vw x) -> named k o.

  Lemma Bl_names : forall es xs, Bl es xs -> forall o, In o (flat_map vw xs) -> exists k, In k es /\ named k o.
  Proof.
    intros es xs H. induction H as [|k x es xs Hp _ IH]; intros o Ho; [destruct Ho|].
    cbn [flat_map] in Ho. apply in_app_or in Ho. destruct Ho as [Ho|Ho].
    - exists k. split; [left; reflexivity|]. eapply Pnamed; eassumption.
    - destruct (IH o Ho) as [k' [A B]]. exists k'. split; [right; exact A|exact B].
  Qed.

  Lemma mloop_an : forall W l seen i xs pre post o,
    Bl (entries_from seen l) xs ->
    NoDup (map onm (entries_from seen l)) ->
    (forall k, In k (entries_from seen l) -> onm k <> [] /\ nodot (onm k)) ->
    (forall x, In x (pre ++ post) -> onm x <> [] /\ forall k, In k (entries_from seen l) -> onm x <> onm k) ->
    W = pre ++ flat_map vw xs ++ post ->
    mloop body seen i l = Ok o ->
    (forall j k x bo, In (j, k) (ientries_from seen i l) -> P k x -> gview (onm k) W = strip_objs (vw x) ->
                      body j k = Ok bo -> Q k x (fst bo)) ->
    exists ys, fst o = List.concat ys /\ Bl2 (entries_from seen l) xs ys.
  Proof.
    intros W l. induction l as [|k r IH]; intros seen i xs pre post o HB Hnd Hnm Hpp HW H Hstep.
    - cbn in H. injection H as E. subst o. cbn [entries_from] in HB. inversion HB; subst. exists []. split; [reflexivity|constructor].
    - cbn [mloop] in H. cbn [entries_from] in HB, Hnd, Hnm, Hpp |- *. cbn [ientries_from] in Hstep.
      destruct (mao_step seen k) as [| |seen'] eqn:Es.
      + eapply IH; eassumption.
      + discriminate.
      + bind_inv H as a Ha. bind_inv H as b Hb. injection H as E. subst o. cbn [fst].
        revert HW. inversion HB as [|k0 x es xs' Hpx HB']; subst. intros HW.
        cbn [map] in Hnd. inversion Hnd as [|x0 l0 Hnin Hnd']; subst x0 l0.
        assert (Hkact : odis (ohdr k) = false).
        { assert (In k (entries_from seen (k :: r))) by (cbn [entries_from]; rewrite Es; left; reflexivity).
          apply entries_active in H. apply H. }
        destruct (Hnm k (or_introl eq_refl)) as [Hkne Hkdot].
        assert (Hx_names : forall o, In o (vw x) -> onm o = onm k /\ odis (ohdr o) = false).
        { intros o Ho. destruct (Pnamed k x Hpx o Ho) as [A B]. split; [exact A|]. rewrite B. exact Hkact. }
        assert (Hgv : gview (onm k) W = strip_objs (vw x)).
        { rewrite HW. cbn [flat_map]. rewrite !gview_app.
          rewrite (gview_other (onm k) pre Hkdot).
          2:{ intros y Hy. destruct (Hpp y (in_or_app _ _ _ (or_introl Hy))) as [A B]. split; [|exact A].
              apply B. left. reflexivity. }
          rewrite (gview_same (onm k) (vw x) Hkne Hx_names).
          rewrite (gview_other (onm k) (flat_map vw xs') Hkdot).
          2:{ intros y Hy. destruct (Bl_names _ _ HB' y Hy) as [k' [A [B _]]]. rewrite B. split.
              - intros E. apply Hnin. rewrite <- E. apply in_map. exact A.
              - apply Hnm. right. exact A. }
          rewrite (gview_other (onm k) post Hkdot).
          2:{ intros y Hy. destruct (Hpp y (in_or_app _ _ _ (or_intror Hy))) as [A B]. split; [|exact A].
              apply B. left. reflexivity. }
          cbn [app]. rewrite !app_nil_r. reflexivity. }
        pose proof (Hstep i k x a (or_introl eq_refl) Hpx Hgv Ha) as Hq.
        destruct (IH seen' (S i) xs' (pre ++ vw x) post b HB' Hnd') as [ys [Eys HB2]].
        * intros k' Hk'. apply Hnm. right. exact Hk'.
        * intros y Hy. rewrite <- app_assoc in Hy. apply in_app_or in Hy. destruct Hy as [Hy|Hy].
          -- destruct (Hpp y (in_or_app _ _ _ (or_introl Hy))) as [A B]. split; [exact A|]. intros k' Hk'. apply B. right. exact Hk'.
          -- apply in_app_or in Hy. destruct Hy as [Hy|Hy].
             ++ destruct (Hx_names y Hy) as [A _]. rewrite A. split; [exact Hkne|].
                intros k' Hk' E. apply Hnin. rewrite E. apply in_map. exact Hk'.
             ++ destruct (Hpp y (in_or_app _ _ _ (or_intror Hy))) as [A B]. split; [exact A|]. intros k' Hk'. apply B. right. exact Hk'.
        * rewrite HW. cbn [flat_map]. rewrite <- !app_assoc. reflexivity.
        * exact Hb.
        * intros j k' x' bo Hin. apply Hstep. right. exact Hin.
        * exists (fst a :: ys). split; [cbn [List.concat]; rewrite Eys; reflexivity|]. constructor; assumption.
  Qed.
End Blocks.
