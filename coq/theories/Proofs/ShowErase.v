(* The printed form is a function of the structural tree only: primary ids and line numbers
   (the fields that differ between an object and its copies / re-parsed forms) never reach the text. *)
From Coq Require Import List Ascii String Bool Arith ZArith Lia.
From Phil Require Import Base Tokenizer Tree Parser Show ShowProofs.
Import ListNotations.
Local Open Scope char_scope.

Definition erase_word (w:word) : word := mkword (wv w) (wq w) 0.
Definition erase_hdr (h:hdr) : hdr := mkhdr (oname h) (odis h) (otmpl h) (omerge h) 0 0.
Fixpoint erase_obj (o:obj) : obj :=
  match o with
  | Def h ws a => Def (erase_hdr h) (map erase_word ws) a
  | Scp h ks a => Scp (erase_hdr h) (map erase_obj ks) a
  end.

Lemma show_words_erase : forall ws cur indent width,
  show_words (map erase_word ws) cur indent width = show_words ws cur indent width.
Proof. induction ws as [|w r IH]; intros; [reflexivity|]. cbn [map show_words]. rewrite !IH. reflexivity. Qed.

Lemma first_merges_erase : forall ks, first_merges (map erase_obj ks) = first_merges ks.
Proof. intros [|k r]; [reflexivity|]. destruct k; reflexivity. Qed.

Theorem show_obj_erase : forall o merged prefix expert level width,
  show_obj (erase_obj o) merged prefix expert level width = show_obj o merged prefix expert level width.
Proof.
  intros o. induction o as [h ws a|h ks a IH] using obj_ind2; intros merged prefix expert level width.
  - cbn [erase_obj show_obj]. unfold show_def. cbn [erase_hdr otmpl odis oname]. rewrite show_words_erase. reflexivity.
  - cbn [erase_obj]. rewrite !show_obj_scp. unfold show_scope_body. cbn [erase_hdr otmpl odis oname].
    rewrite first_merges_erase.
    assert (Hl : forall m p, show_list (map erase_obj ks) m p expert level width = show_list ks m p expert level width).
    { induction IH as [|c r Hc Hr IHr]; intros m p; [reflexivity|]. cbn [map show_list]. rewrite Hc, IHr. reflexivity. }
    rewrite !Hl. reflexivity.
Qed.

Theorem show_objs_erase : forall l prefix expert level width,
  show_objs (map erase_obj l) prefix expert level width = show_objs l prefix expert level width.
Proof.
  induction l as [|o r IH]; intros; [reflexivity|]. cbn [map show_objs]. rewrite show_obj_erase, IH. reflexivity.
Qed.

(* two trees that differ only in ids / line numbers print identically at every level, width and prefix *)
Corollary same_structure_same_text : forall l l' prefix expert level width,
  map erase_obj l = map erase_obj l' ->
  show_objs l prefix expert level width = show_objs l' prefix expert level width.
Proof. intros. rewrite <- (show_objs_erase l), <- (show_objs_erase l'). f_equal. assumption. Qed.
