(* C08, "D contains only parameters whose value differs from the master default":
   every definition of a fetch_diff result has, under its master definition, a canonical text
   different from the master's own, and no scope of the result is empty - for EVERY master, every
   source list, every environment and every canon oracle (only_differences). *)
From Coq Require Import List Ascii String Bool Arith ZArith Lia.
From Phil Require Import Base Tree Vars Choice Fetch FetchBasics FetchShape FetchDisabled
  FetchIdemLists FetchIdemBase FetchDiffBase.
Import ListNotations.
Local Open Scope char_scope.

Section OnlyDiff.
  Variable env : str -> option str.
  Variable canon : obj -> option obj -> res str.

  (* the rendering of o under the master definition k differs from k's own *)
  Definition cdiffers (k o:obj) : Prop :=
    exists x y, canon k (Some o) = Ok x /\ canon k None = Ok y /\ x <> y.

  (* o is an admissible object of a difference against the master objects ks *)
  Fixpoint dok (ks:list obj) (o:obj) {struct o} : Prop :=
    match o with
    | Def _ _ _ => exists k, In k (entries ks) /\ is_def k = true /\ named k o /\ cdiffers k o
    | Scp _ os _ =>
        os <> [] /\
        exists k, In k (entries ks) /\ is_def k = false /\ named k o /\
                  (fix all (l:list obj) : Prop := match l with [] => True | x :: r => dok (okids k) x /\ all r end) os
    end.

  Lemma dok_all : forall ks' os,
    (fix all (l:list obj) : Prop := match l with [] => True | x :: r => dok ks' x /\ all r end) os <-> Forall (dok ks') os.
  Proof.
    intros ks' os. induction os as [|x r IH]; [split; [constructor|intros _; exact I]|]. split.
    - intros [A B]. constructor; [exact A|apply IH; exact B].
    - intros H. inversion H as [|x0 r0 A B]; subst. split; [exact A|apply IH; exact B].
  Qed.

  Lemma dok_scp : forall ks h os a, dok ks (Scp h os a) <->
    os <> [] /\ exists k, In k (entries ks) /\ is_def k = false /\ named k (Scp h os a) /\ Forall (dok (okids k)) os.
  Proof.
    intros ks h os a. cbn [dok]. split; intros [Hne [k [A [B [C D]]]]]; (split; [exact Hne|]); exists k;
      (split; [exact A|]); (split; [exact B|]); (split; [exact C|]); apply dok_all; exact D.
  Qed.

  (* what one entry k may contribute *)
  Definition dentry (k c:obj) : Prop :=
    named k c /\
    match k with
    | Def _ _ _ => is_def c = true /\ cdiffers k c
    | Scp _ _ _ => exists h os a, c = Scp h os a /\ os <> [] /\ Forall (dok (okids k)) os
    end.

  Lemma dentry_dok : forall ks k c, In k (entries ks) -> dentry k c -> dok ks c.
  Proof.
    intros ks k c Hk [Hn H]. destruct k as [hk wk ak|hk kk ak].
    - destruct H as [Hd Hc]. destruct c as [h ws a|h os a]; [|discriminate]. cbn [dok]. exists (Def hk wk ak). auto.
    - destruct H as [h [os [a [E [Hne Hf]]]]]. subst c. apply dok_scp. split; [exact Hne|]. exists (Scp hk kk ak). auto.
  Qed.

  Definition rec_dok (k:obj) (rec:list lsrc -> res fout) : Prop :=
    forall comb oc, rec comb = Ok oc -> Forall (dok (okids k)) (fst oc).

  Lemma def_fetch_diff_differs : forall h mws a s c,
    def_fetch env canon true h mws a s = Ok (Some c) -> cdiffers (Def h mws a) c /\ is_def c = true.
  Proof.
    intros h mws a s c H. unfold def_fetch in H. bind_inv H as r Hr. bind_inv H as x Hx. bind_inv H as y Hy.
    destruct (eqs x y) eqn:E; [discriminate|]. injection H as E'. subst r.
    split.
    - exists x, y. split; [exact Hx|]. split; [exact Hy|]. apply f_eqs_neq. exact E.
    - destruct (def_fetch_value_shape env true h mws a s c Hr) as [w [Ec _]]. subst. reflexivity.
  Qed.

  Lemma cand_fetch_dentry : forall k rec s c u, rec_dok k rec ->
    cand_fetch env canon true k rec s = Ok (Some c, u) -> diff_skip true k (Some c) = false -> dentry k c.
  Proof.
    intros k rec s c u Hrec H Hsk. split; [eapply cand_fetch_named; exact H|].
    destruct k as [h mws a|h ks a]; cbn [cand_fetch] in H.
    - bind_inv H as r Hr. injection H as E _. subst r. destruct (def_fetch_diff_differs _ _ _ _ _ Hr) as [A B]. auto.
    - bind_inv H as comb Hcomb. bind_inv H as oc Hoc. injection H as E _. subst c.
      unfold scopy. eexists. eexists. eexists. split; [reflexivity|]. split.
      + cbn in Hsk. destruct (fst oc); [discriminate|discriminate].
      + apply (Hrec _ _ Hoc).
  Qed.

  Lemma mult_loop_dentry : forall k rec mas cands pd robjs used st, rec_dok k rec ->
    (forall c, In (Some c) robjs -> dentry k c) ->
    mult_loop env canon true k rec mas cands pd robjs used = Ok st ->
    forall c, In (Some c) (snd (fst st)) -> dentry k c.
  Proof.
    intros k rec mas cands. induction cands as [|[fm s] r IH]; intros pd robjs used st Hrec Hr H.
    - cbn in H. injection H as E. subst. exact Hr.
    - cbn [mult_loop] in H. bind_inv H as cc Hcc. destruct cc as [cand u]. cbn [fst snd] in H.
      destruct (diff_skip true k cand) eqn:Esk; [eapply IH; eassumption|].
      bind_inv H as cs Hcs. destruct (eqs cs mas); [eapply IH; eassumption|].
      assert (Hcand : forall c, cand = Some c -> dentry k c).
      { intros c E. subst cand. eapply cand_fetch_dentry; eassumption. }
      assert (Hsn : forall i c, In (Some c) (match i with Some (Some j) => set_none j robjs | _ => robjs end) -> dentry k c).
      { intros i c Hin. apply Hr. destruct i as [[j|]|]; [eapply set_none_In; exact Hin|exact Hin|exact Hin]. }
      assert (Hstep : forall i c, In (Some c) (match i with Some (Some j) => set_none j robjs | _ => robjs end ++ [cand]) -> dentry k c).
      { intros i c Hin. apply in_app_or in Hin. destruct Hin as [Hin|[Hin|[]]]; [eapply Hsn; exact Hin|apply Hcand; exact Hin]. }
      destruct (pget cs pd) as [[i|]|] eqn:Eg.
      + destruct (true && fm); (eapply IH; [exact Hrec| |exact H]); [apply (Hsn (Some (Some i)))|apply (Hstep (Some (Some i)))].
      + eapply IH; eassumption.
      + destruct (true && fm); (eapply IH; [exact Hrec| |exact H]); [apply (Hsn None)|apply (Hstep None)].
  Qed.

  Lemma def_loop_diff : forall h mws a ms last o,
    (forall x, last = Some x -> cdiffers (Def h mws a) x /\ is_def x = true) ->
    def_loop env canon true h mws a ms last = Ok (Some o) -> cdiffers (Def h mws a) o /\ is_def o = true.
  Proof.
    intros h mws a ms. induction ms as [|s r IH]; intros last o Hl H; cbn [def_loop] in H.
    - injection H as E. apply Hl. exact E.
    - bind_inv H as x Hx. eapply IH; [|exact H]. intros y Ey. subst x. eapply def_fetch_diff_differs; exact Hx.
  Qed.

  Lemma fetch_one_dentry : forall allks chain i k rec srcs o, rec_dok k rec ->
    fetch_one env canon true allks chain i k rec srcs = Ok o -> forall c, In c (fst o) -> dentry k c.
  Proof.
    intros allks chain i k rec srcs o Hrec H. pose proof (fetch_one_named env canon true _ _ _ _ _ _ _ H) as Hnamed.
    unfold fetch_one in H.
    destruct (get_attr (s_ "alias") (oattrs k)); try discriminate.
    destruct (oname (ohdr k)) as [|c0 nm] eqn:En; [discriminate|].
    destruct (omultiple k) eqn:Em; cbn [negb] in H.
    - bind_inv H as mas Hmas. bind_inv H as st Hst. destruct st as [[pd robjs] used]. injection H as E. subst o. cbn [fst app].
      intros c Hc. apply In_somes in Hc.
      eapply (mult_loop_dentry k rec mas _ [] [] [] (pd, robjs, used) Hrec); [|exact Hst|exact Hc]. intros x [].
    - destruct k as [h mws a|h ks a].
      + bind_inv H as ro Hro. destruct ro as [x0|].
        * injection H as E. subst o. cbn [fst] in *. intros c [Hc|[]]. subst c.
          split; [apply Hnamed; left; reflexivity|].
          destruct (def_loop_diff h mws a (match_sources (c0 :: nm) srcs) None x0) as [A B]; [intros y Ey; discriminate|exact Hro|]. auto.
        * cbn [negb andb] in H. injection H as E. subst o. intros c [].
      + bind_inv H as comb Hcomb. bind_inv H as oc Hoc. cbn [andb] in H.
        destruct (null_objs (fst oc)) eqn:En0; injection H as E; subst o; cbn [fst] in *; intros c Hc; [destruct Hc|].
        destruct Hc as [Hc|[]]. subst c. split; [apply Hnamed; left; reflexivity|].
        unfold scopy. eexists. eexists. eexists. split; [reflexivity|]. split.
        * destruct (fst oc); [discriminate|discriminate].
        * apply (Hrec _ _ Hoc).
  Qed.

  Lemma mloop_forall : forall (body:nat -> obj -> res fout) (Pr:obj -> Prop) l seen i o,
    (forall j k b, In k (entries_from seen l) -> body j k = Ok b -> Forall Pr (fst b)) ->
    mloop body seen i l = Ok o -> Forall Pr (fst o).
  Proof.
    intros body Pr l. induction l as [|k r IH]; intros seen i o Hb H.
    - cbn in H. injection H as E. subst. constructor.
    - cbn [mloop] in H. cbn [entries_from] in Hb. destruct (mao_step seen k) as [| |seen'].
      + eapply IH; eassumption.
      + discriminate.
      + bind_inv H as a Ha. bind_inv H as b Hb'. injection H as E. subst o. cbn [fst].
        apply Forall_app. split.
        * eapply Hb; [left; reflexivity|exact Ha].
        * eapply IH; [|exact Hb']. intros j k' b' Hk'. apply Hb. right. exact Hk'.
  Qed.

  Lemma fetch_scope_dok : forall M mchain, rec_dok M (fetch_scope env canon true M mchain).
  Proof.
    induction M as [h ws a|h ks a IH] using obj_ind2; intros mchain comb oc H.
    - cbn in H. discriminate.
    - cbn [fetch_scope] in H. cbn [okids]. eapply mloop_forall; [|exact H].
      intros j k b Hk Hb. apply Forall_forall. intros c Hc. apply (dentry_dok ks k c Hk).
      eapply fetch_one_dentry; [|exact Hb|exact Hc].
      rewrite Forall_forall in IH. apply IH. eapply entries_active. exact Hk.
  Qed.

  (* C08_only_differences *)
  Theorem only_differences : forall m srcs d, fetch env canon true m srcs = Ok d -> Forall (dok m) d.
  Proof.
    intros m srcs d H. unfold fetch in H. bind_inv H as oc Hoc. injection H as E. subst d.
    unfold fetch_root in Hoc. exact (fetch_scope_dok (root_scope m) [] _ _ Hoc).
  Qed.
End OnlyDiff.
