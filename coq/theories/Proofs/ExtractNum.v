(* C09 for int and ints: from_words (as_words v) = v, at the level of Conv.v and lifted to PyVal. *)
From Coq Require Import List Ascii String Bool Arith ZArith Lia.
From Phil Require Import Base Conv ConvProofs ExtractInt.
Import ListNotations.
Local Open Scope char_scope.

(* ---------- generic list / string facts *)
Lemma lstrip_id s : (forall c r, s = c :: r -> isspace c = false) -> lstrip s = s.
Proof. destruct s as [|c r]; [reflexivity|]. intro H. cbn [lstrip]. rewrite (H c r eq_refl). reflexivity. Qed.

Lemma strip_id s : Forall (fun c => isspace c = false) s -> strip s = s.
Proof.
  intro H. unfold strip. rewrite (lstrip_id s).
  - rewrite (lstrip_id (rev s)); [apply rev_involutive|].
    intros c r E. apply Forall_rev in H. rewrite E in H. inversion H; assumption.
  - intros c r E. rewrite E in H. inversion H; assumption.
Qed.

Lemma lowers_id s : Forall (fun c => lower c = c) s -> lowers s = s.
Proof. intro H. unfold lowers. induction H as [|c s Hc _ IH]; [reflexivity|]. cbn [map]. rewrite Hc, IH. reflexivity. Qed.

Lemma eqs_refl_c a : eqs a a = true.
Proof. induction a as [|c a IH]; [reflexivity|]. cbn [eqs]. rewrite Ascii.eqb_refl. exact IH. Qed.

Lemma eqs_eq_c a b : eqs a b = true -> a = b.
Proof.
  revert b. induction a as [|c a IH]; intros [|d b] H; try discriminate; [reflexivity|].
  cbn [eqs] in H. apply andb_true_iff in H. destruct H as [H1 H2]. apply Ascii.eqb_eq in H1. f_equal; auto.
Qed.

Lemma eqs_head c r d k : Ascii.eqb c d = false -> eqs (c :: r) (d :: k) = false.
Proof. intro H. cbn [eqs]. rewrite H. reflexivity. Qed.

(* ---------- texts written by the numeric converters: space-free, separator-free, bracket-free *)
Definition tokc (c:ascii) : bool := numc c || mem c (s_ "NoneAut").
Lemma tokc_cases c : tokc c = true ->
  numc c = true \/ c = "N" \/ c = "o" \/ c = "n" \/ c = "e" \/ c = "A" \/ c = "u" \/ c = "t".
Proof.
  unfold tokc. intro H. apply orb_true_iff in H. destruct H as [H|H]; [auto|]. right.
  unfold s_ in H. cbn [String.list_ascii_of_string mem] in H.
  repeat (apply orb_true_iff in H; destruct H as [H|H]; [apply Ascii.eqb_eq in H; auto 10|]). discriminate.
Qed.
Lemma tokc_facts c : tokc c = true ->
  isspace c = false /\ sepfix c = c /\ Ascii.eqb c "(" = false /\ Ascii.eqb c "[" = false.
Proof.
  intro H. apply tokc_cases in H. destruct H as [H|H].
  - apply numc_cases in H. repeat (destruct H as [H|H]; [subst; vm_compute; auto|]). subst; vm_compute; auto.
  - repeat (destruct H as [H|H]; [subst; vm_compute; auto|]). subst; vm_compute; auto.
Qed.
Definition oktext (t:str) : Prop := t <> [] /\ Forall (fun c => tokc c = true) t.

Lemma numc_tokc c : numc c = true -> tokc c = true.
Proof. intro H. unfold tokc. rewrite H. reflexivity. Qed.
Lemma str_of_Z_oktext z : oktext (str_of_Z z).
Proof.
  split; [apply str_of_Z_nonempty|]. eapply Forall_impl; [|apply str_of_Z_numc]. intros c. apply numc_tokc.
Qed.
Lemma none_oktext : oktext (s_ "None").  Proof. split; [discriminate|]. repeat constructor. Qed.
Lemma auto_oktext : oktext (s_ "Auto").  Proof. split; [discriminate|]. repeat constructor. Qed.

(* split_ws (join_sp texts) = texts *)
Lemma split_go_text : forall t rest cur, Forall (fun c => tokc c = true) t ->
  split_go (t ++ rest) cur = split_go rest (rev t ++ cur).
Proof.
  induction t as [|c t IH]; intros rest cur H; [reflexivity|].
  inversion H as [|? ? Hc Ht]; subst. cbn [app split_go].
  destruct (tokc_facts c Hc) as [S _]. rewrite S. rewrite IH by assumption.
  cbn [rev]. rewrite <- app_assoc. reflexivity.
Qed.
Lemma rev_nonempty {A} (t:list A) : t <> [] -> rev t <> [].
Proof. intros N E. apply (f_equal (@rev A)) in E. rewrite rev_involutive in E. contradiction. Qed.

Lemma split_join : forall texts, Forall oktext texts -> split_ws (join_sp texts) = texts.
Proof.
  unfold split_ws. induction texts as [|a r IH]; intro H; [reflexivity|].
  inversion H as [|? ? [Ha Hca] Hr]; subst. cbn [join_sp]. destruct r as [|b r'].
  - rewrite <- (app_nil_r a) at 1. rewrite split_go_text by assumption. cbn [split_go]. rewrite app_nil_r.
    destruct (rev a) eqn:E; [exfalso; exact (rev_nonempty a Ha E)|]. rewrite <- E, rev_involutive. reflexivity.
  - rewrite split_go_text by assumption. rewrite app_nil_r. cbn [split_go]. change (isspace " ") with true. cbv iota.
    destruct (rev a) eqn:E; [exfalso; exact (rev_nonempty a Ha E)|]. rewrite <- E, rev_involutive.
    f_equal. apply IH. exact Hr.
Qed.

Lemma join_tokc_or_space : forall texts, Forall oktext texts ->
  Forall (fun c => tokc c = true \/ c = " ") (join_sp texts).
Proof.
  induction texts as [|a r IH]; intro H; [constructor|].
  inversion H as [|? ? [Ha Hca] Hr]; subst. cbn [join_sp]. destruct r as [|b r'].
  - eapply Forall_impl; [|exact Hca]. auto.
  - apply Forall_app. split; [eapply Forall_impl; [|exact Hca]; auto|].
    constructor; [auto|]. apply IH. exact Hr.
Qed.
Lemma map_sepfix_join texts : Forall oktext texts -> map sepfix (join_sp texts) = join_sp texts.
Proof.
  intro H. pose proof (join_tokc_or_space texts H) as F.
  induction F as [|c s Hc _ IH]; [reflexivity|]. cbn [map]. rewrite IH. f_equal.
  destruct Hc as [Hc| ->]; [apply (tokc_facts c Hc)|reflexivity].
Qed.

Lemma join_head texts : Forall oktext texts -> texts <> [] ->
  exists c r, join_sp texts = c :: r /\ tokc c = true.
Proof.
  intros H N. destruct texts as [|a r]; [contradiction|].
  inversion H as [|? ? [Ha Hca] Hr]; subst. destruct a as [|c a']; [contradiction|].
  inversion Hca; subst. cbn [join_sp]. destruct r; [exists c, a'; auto|].
  eexists c, _. split; [reflexivity|assumption].
Qed.

Lemma strip_pair_nobracket o c fuel s : starts o s = false -> strip_pair o c fuel s = (s, false).
Proof. intro H. destruct fuel; [reflexivity|]. cbn [strip_pair]. rewrite H. reflexivity. Qed.

Lemma unbracket_join texts : Forall oktext texts ->
  unbracket (S (length (join_sp texts))) (join_sp texts) = join_sp texts.
Proof.
  intro H. set (s := join_sp texts). cbn [unbracket].
  assert (S1 : starts "(" s = false /\ starts "[" s = false).
  { destruct texts as [|a r]; [split; reflexivity|].
    destruct (join_head (a :: r) H ltac:(discriminate)) as [c [r' [E Hc]]]. fold s in E. rewrite E. unfold starts.
    destruct (tokc_facts c Hc) as [_ [_ [P B]]]. rewrite Ascii.eqb_sym in P. rewrite Ascii.eqb_sym in B. auto. }
  destruct S1 as [P B]. rewrite (strip_pair_nobracket "(" ")" _ s P).
  rewrite (strip_pair_nobracket "[" "]" _ s B). reflexivity.
Qed.

Lemma list_tokens_join texts : Forall oktext texts -> list_tokens (join_sp texts) = texts.
Proof.
  intro H. unfold list_tokens. rewrite unbracket_join, map_sepfix_join by assumption. apply split_join. exact H.
Qed.

(* ---------- keywords *)
Lemma numc_not_letter c : numc c = true ->
  Ascii.eqb c "t" = false /\ Ascii.eqb c "f" = false /\ Ascii.eqb c "n" = false /\ Ascii.eqb c "a" = false.
Proof. intro H. apply numc_cases in H. repeat (destruct H as [H|H]; [subst; vm_compute; auto|]). subst; vm_compute; auto. Qed.

Lemma int_text_not_keyword z :
  let s := str_of_Z z in
  lowers s = s /\ strip s = s /\ eqs s (s_ "true") = false /\ eqs s (s_ "false") = false
  /\ eqs s none_s = false /\ eqs s auto_s = false.
Proof.
  cbv zeta. pose proof (str_of_Z_numc z) as F. pose proof (str_of_Z_nonempty z) as N.
  split; [apply lowers_id; eapply Forall_impl; [|exact F]; apply numc_lower|].
  split; [apply strip_id; eapply Forall_impl; [|exact F]; apply numc_nospace|].
  destruct (str_of_Z z) as [|c r]; [contradiction|]. inversion F as [|? ? Hc _]; subst.
  destruct (numc_not_letter c Hc) as [T [Fl [Nn A]]].
  repeat split; apply eqs_head; assumption.
Qed.

Section Num.
  Variable pe : str -> option evr.
  Variable fm : num -> option str.

  Lemma nfvs_int z ws : (Z.abs z < B4300)%Z ->
    number_from_value_string pe (SStr (str_of_Z z)) ws = Ok (VNum (NInt z)).
  Proof.
    intro Hb. destruct (int_text_not_keyword z) as [L [S [T [F [N A]]]]].
    unfold number_from_value_string. rewrite L, S. cbn [mems existsb]. rewrite T, F. cbn [orb]. rewrite N, A.
    rewrite (int_of_str_of_Z z Hb). reflexivity.
  Qed.
  Lemma nfvs_none ws : number_from_value_string pe (SStr (s_ "None")) ws = Ok VNone.
  Proof. reflexivity. Qed.
  Lemma nfvs_auto ws : number_from_value_string pe (SStr (s_ "Auto")) ws = Ok VAuto.
  Proof. reflexivity. Qed.

  Lemma str_from_words_int z : str_from_words [uw (str_of_Z z)] = SStr (str_of_Z z).
  Proof.
    destruct (int_text_not_keyword z) as [L [_ [_ [_ [N A]]]]].
    unfold str_from_words, is_plain. cbn [isq uw wq wv negb andb]. rewrite L, N, A. reflexivity.
  Qed.

  Lemma check_value_ok isint lo hi v ows : in_bounds lo hi v -> check_value isint lo hi v ows = Ok tt.
  Proof.
    intros [Hlo Hhi]. unfold check_value.
    destruct lo as [b|]; [rewrite (Hlo b eq_refl)|]; cbn [negb bind];
      (destruct hi as [b'|]; [rewrite (Hhi b' eq_refl)|]; reflexivity).
  Qed.
  Lemma check_size_any lo hi n ows ows' u : check_size lo hi n ows = Ok u -> check_size lo hi n ows' = Ok tt.
  Proof.
    intro H. apply check_size_ok in H. destruct H as [Hlo Hhi]. unfold check_size.
    destruct hi as [m|].
    - specialize (Hhi m eq_refl). destruct (Z.ltb_spec m n); [lia|]. cbn [bind].
      destruct lo as [m'|]; [|reflexivity]. specialize (Hlo m' eq_refl). destruct (Z.ltb_spec n m'); [lia|reflexivity].
    - cbn [bind]. destruct lo as [m'|]; [|reflexivity]. specialize (Hlo m' eq_refl). destruct (Z.ltb_spec n m'); [lia|reflexivity].
  Qed.

  (* ---------- scalar int *)
  (* number_converters_base.as_words checks value_min / value_max before formatting *)
  Lemma int_as_words_inv c z ws : as_words fm (CInt c) (PNum (NInt z)) = Ok ws ->
    in_bounds (vmin c) (vmax c) (NInt z) /\ exists s, fmt_d (NInt z) = Ok s /\ ws = [uw s].
  Proof.
    intro H. cbn [as_words number_conv_as_words value_as_str] in H.
    apply bind_ok in H as (u & Hc & H). apply check_value_bounds in Hc. split; [exact Hc|].
    apply bind_ok in H as (s & Hs & H). inversion H; subst ws. eauto.
  Qed.

  Theorem int_roundtrip c z ws : (Z.abs z < B4300)%Z ->
    as_words fm (CInt c) (PNum (NInt z)) = Ok ws -> from_words pe (CInt c) ws = Ok (PNum (NInt z)).
  Proof.
    intros Hz H. destruct (int_as_words_inv c z ws H) as [Hb [s [Hs ->]]].
    destruct (fmt_d_int_roundtrip z s Hz Hs) as [-> _].
    cbn [from_words]. unfold number_conv_from_words, x_from_words, number_from_words.
    rewrite str_from_words_int, (nfvs_int z _ Hz). cbn [bind x_from_number int_from_number].
    rewrite (check_value_ok true _ _ _ _ Hb). reflexivity.
  Qed.

  (* ---------- ints *)
  (* items an ints value may hold *)
  Definition int_item (v:pyv) : Prop := match v with PNum (NInt _) | PNone | PAuto => True | _ => False end.
  (* integers below the 4300-digit limit are written in decimal *)
  Definition small_item (v:pyv) : Prop := match v with PNum (NInt z) => (Z.abs z < B4300)%Z | _ => True end.
  Definition item_nv (v:pyv) : nv := match v with PNum n => VNum n | PNone => VNone | PAuto => VAuto | PList _ => VOther end.

  Lemma elem_word_spec c v w : int_item v -> small_item v -> elem_as_word fm true c v = Ok w ->
    oktext (wv w) /\ isq w = false
    /\ (forall ws, number_from_value_string pe (SStr (wv w)) ws = Ok (item_nv v))
    /\ (forall ws, conv_elem true c ws (item_nv v) = Ok v)
    /\ (lowers (wv w) = none_s -> v = PNone) /\ (lowers (wv w) = auto_s -> v = PAuto).
  Proof.
    intros I Sm H. unfold elem_as_word in H.
    destruct v as [| |n|l]; try contradiction.
    - (* None *)
      destruct (none_el c) eqn:NE; [|discriminate]. inversion H; subst w.
      repeat split; try apply none_oktext; try reflexivity.
      + intros ws. cbn [item_nv conv_elem]. rewrite NE. reflexivity.
      + discriminate.
    - destruct (auto_el c) eqn:AE; [|discriminate]. inversion H; subst w.
      repeat split; try apply auto_oktext; try reflexivity.
      + intros ws. cbn [item_nv conv_elem]. rewrite AE. reflexivity.
      + discriminate.
    - destruct n as [z| | | | |]; try contradiction. apply bind_ok in H as (u & Hc & H).
      cbn [check_value_py] in Hc. apply check_value_bounds in Hc.
      apply bind_ok in H as (s & Hs & H). inversion H; subst w. cbn [value_as_str] in Hs.
      assert (Hz : (Z.abs z < B4300)%Z) by exact Sm.
      destruct (fmt_d_int_roundtrip z s Hz Hs) as [-> _].
      destruct (int_text_not_keyword z) as [L [_ [_ [_ [N A]]]]].
      cbn [uw wv]. repeat split; try apply str_of_Z_oktext.
      + intros ws. apply nfvs_int. exact Hz.
      + intros ws. cbn [item_nv conv_elem x_from_number int_from_number bind].
        rewrite (check_value_ok true _ _ _ _ Hc). reflexivity.
      + intro E. rewrite L in E. rewrite E in N. unfold none_s in N. rewrite eqs_refl_c in N. discriminate.
      + intro E. rewrite L in E. rewrite E in A. unfold auto_s in A. rewrite eqs_refl_c in A. discriminate.
  Qed.
End Num.

Section Ints.
  Variable pe : str -> option evr.
  Variable fm : num -> option str.

  Lemma items_spec c : forall l ws,
    Forall2 (fun a b => elem_as_word fm true c a = Ok b) l ws -> Forall int_item l -> Forall (small_item) l ->
    Forall oktext (map wv ws)
    /\ (forall ws0, map_res (fun t => number_from_value_string pe (SStr t) ws0) (map wv ws) = Ok (map item_nv l))
    /\ (forall ws0, map_res (conv_elem true c ws0) (map item_nv l) = Ok l).
  Proof.
    induction 1 as [|v w l ws Hvw _ IH]; intros I Sm.
    - repeat split; try constructor; reflexivity.
    - inversion I as [|? ? Iv Il]; subst. inversion Sm as [|? ? Sv Sl]; subst. destruct (IH Il Sl) as [T [N C]].
      destruct (elem_word_spec pe fm c v w Iv Sv Hvw) as [Ok1 [_ [Nf [Ce _]]]].
      repeat split.
      + cbn [map]. constructor; assumption.
      + intro ws0. cbn [map map_res]. rewrite Nf. cbn [bind]. rewrite N. reflexivity.
      + intro ws0. cbn [map map_res]. rewrite Ce. cbn [bind]. rewrite C. reflexivity.
  Qed.

  Theorem ints_roundtrip c l ws :
    Forall int_item l -> Forall (small_item) l -> l <> [PNone] -> l <> [PAuto] ->
    as_words fm (CInts c) (PList l) = Ok ws ->
    from_words pe (CInts c) ws = Ok (PList l).
  Proof.
    intros I Sm NN NA H. cbn [as_words numbers_conv_as_words] in H.
    apply bind_ok in H as (u & Hsz & Hmap). apply map_res_ok in Hmap.
    destruct (items_spec c l ws Hmap I Sm) as [T [N C]].
    (* the words are not the plain None / Auto *)
    assert (P : str_from_words ws = SStr (join_sp (map wv ws))).
    { unfold str_from_words.
      assert (Pl : forall what v0, (lowers what = what) ->
                  (forall v w, elem_as_word fm true c v = Ok w -> int_item v -> small_item v -> lowers (wv w) = what -> v = v0) ->
                  l <> [v0] -> is_plain what ws = false).
      { intros what v0 _ Hw Hl. unfold is_plain. destruct ws as [|w [|w2 ws']]; try reflexivity.
        destruct l as [|v [|v2 l']]; try (inversion Hmap; fail); try (inversion Hmap as [|? ? ? ? ? Hbad]; inversion Hbad; fail).
        assert (Hvw : elem_as_word fm true c v = Ok w) by (inversion Hmap; assumption).
        inversion I as [|? ? Iv _]; subst. inversion Sm as [|? ? Sv _]; subst.
        destruct (eqs (lowers (wv w)) what) eqn:E; [|apply andb_false_r].
        exfalso. apply Hl. f_equal. apply (Hw v w Hvw Iv Sv). apply eqs_eq_c. exact E. }
      rewrite (Pl none_s PNone), (Pl auto_s PAuto); try reflexivity; try assumption.
      - intros v w Hvw Iv Sv E. destruct (elem_word_spec pe fm c v w Iv Sv Hvw) as [_ [_ [_ [_ [_ A]]]]]. auto.
      - intros v w Hvw Iv Sv E. destruct (elem_word_spec pe fm c v w Iv Sv Hvw) as [_ [_ [_ [_ [A _]]]]]. auto. }
    cbn [from_words]. unfold numbers_conv_from_words, numbers_from_words. rewrite P.
    unfold numbers_of_text. rewrite (list_tokens_join _ T), N. cbn [bind].
    rewrite map_length, (check_size_any _ _ _ None (Some ws) u Hsz). cbn [bind]. rewrite C. reflexivity.
  Qed.
End Ints.
