(* Generalities for the proofs about Model/Fetch.v: inversion of the result monad, string
   equality, the link between the position-carrying get_without_substitution and Vars.gws_obj,
   substitution-free sources, the entries of master_active_objects. *)
From Coq Require Import List Ascii String Bool Arith ZArith Lia.
From Phil Require Import Base Tree Vars Choice Fetch.
Import ListNotations.
Local Open Scope char_scope.

(* ------------------------------------------------------------------ the result monad *)
Lemma f_bind_ok : forall A B (r:res A) (k:A -> res B) b,
  bind r k = Ok b -> exists a, r = Ok a /\ k a = Ok b.
Proof. intros A B r k b H. destruct r; cbn in H; try discriminate. eauto. Qed.

(* split one "do x <- r; ..." hypothesis *)
Tactic Notation "bind_inv" hyp(H) "as" ident(a) ident(Ha) :=
  apply f_bind_ok in H; destruct H as [a [Ha H]].

Definition rmap {A B} (f:A -> B) (r:res A) : res B :=
  match r with Ok a => Ok (f a) | UErr k t l => UErr k t l | Crash c => Crash c end.

Lemma rmap_bind : forall A B C (f:B -> C) (r:res A) (k:A -> res B),
  rmap f (bind r k) = bind r (fun a => rmap f (k a)).
Proof. intros. destruct r; reflexivity. Qed.

(* ------------------------------------------------------------------ strings *)
Lemma f_eqs_refl : forall s, eqs s s = true.
Proof. induction s as [|a s IH]; [reflexivity|]. cbn. rewrite Ascii.eqb_refl. exact IH. Qed.
Lemma f_eqs_eq : forall a b, eqs a b = true -> a = b.
Proof.
  induction a as [|x a IH]; intros [|y b] H; try discriminate; [reflexivity|].
  cbn in H. apply andb_true_iff in H. destruct H as [H1 H2].
  apply Ascii.eqb_eq in H1. subst. f_equal. apply IH. exact H2.
Qed.
Lemma f_eqs_neq : forall a b, eqs a b = false -> a <> b.
Proof. intros a b H E. subst. rewrite f_eqs_refl in H. discriminate. Qed.
Lemma f_eqs_sym : forall a b, eqs a b = eqs b a.
Proof.
  intros a b. destruct (eqs a b) eqn:E.
  - apply f_eqs_eq in E. subst. symmetry. apply f_eqs_refl.
  - destruct (eqs b a) eqn:E'; [|reflexivity]. apply f_eqs_eq in E'. subst.
    rewrite f_eqs_refl in E. discriminate.
Qed.

(* ------------------------------------------------------------------ positions *)
Lemma pos_eqb_refl : forall p, pos_eqb p p = true.
Proof. induction p as [|x p IH]; [reflexivity|]. cbn. rewrite Nat.eqb_refl. exact IH. Qed.
Lemma pos_eqb_eq : forall p q, pos_eqb p q = true -> p = q.
Proof.
  induction p as [|x p IH]; intros [|y q] H; try discriminate; [reflexivity|].
  cbn in H. apply andb_true_iff in H. destruct H as [H1 H2].
  apply Nat.eqb_eq in H1. subst. f_equal. apply IH. exact H2.
Qed.
Lemma pos_in_In : forall p l, pos_in p l = true <-> In p l.
Proof.
  intros p l. unfold pos_in. rewrite existsb_exists. split.
  - intros [q [Hq E]]. apply pos_eqb_eq in E. subst. exact Hq.
  - intros H. exists p. split; [exact H|apply pos_eqb_refl].
Qed.
Lemma pos_in_ext : forall p l l', (forall q, In q l <-> In q l') -> pos_in p l = pos_in p l'.
Proof.
  intros p l l' H. destruct (pos_in p l) eqn:E.
  - symmetry. apply pos_in_In. apply H. apply pos_in_In. exact E.
  - destruct (pos_in p l') eqn:E'; [|reflexivity].
    apply pos_in_In in E'. apply H in E'. apply pos_in_In in E'. congruence.
Qed.

(* ------------------------------------------------------------------ gwsp forgets to Vars.gws_obj *)
Definition forget (s:lsrc) : found := (lobj s, lctx s).

Lemma kids_at_forget_aux : forall p (ks0:list obj) chain ks i,
  map (fun jk : nat * obj => forget (mklsrc (p ++ [fst jk]) (snd jk) (ks0 :: chain))) (index_from i ks)
  = map (fun k => (k, ks0 :: chain)) ks.
Proof.
  intros p ks0 chain ks. induction ks as [|k r IH]; intros i; [reflexivity|].
  cbn. f_equal. apply IH.
Qed.
Lemma kids_at_forget : forall p ks chain,
  map forget (kids_at p ks chain) = map (fun k => (k, ks :: chain)) ks.
Proof. intros. unfold kids_at. rewrite map_map. apply kids_at_forget_aux. Qed.

Lemma gwsp_gws : forall o p chain path,
  map forget (gwsp p chain path o) = gws_obj chain path o.
Proof.
  induction o as [h ws a|h ks a IH] using obj_ind2; intros p chain path.
  - cbn. destruct (odis h || negb (eqs (oname h) path)); reflexivity.
  - cbn [gwsp gws_obj]. destruct (odis h); [reflexivity|].
    assert (Hin : forall pth j,
      map forget ((fix go (j:nat) (l:list obj) : list lsrc :=
                     match l with
                     | [] => []
                     | k :: r => (if odis (ohdr k) then [] else gwsp (p ++ [j]) (ks :: chain) pth k) ++ go (S j) r
                     end) j ks)
      = (fix go (l:list obj) : list found :=
           match l with
           | [] => []
           | k :: r => if odis (ohdr k) then go r else gws_obj (ks :: chain) pth k ++ go r
           end) ks).
    { intros pth. generalize ks at 1 3 as ks0. induction IH as [|k r Hk _ IHr]; intros ks0 j; [reflexivity|].
      rewrite map_app. rewrite IHr. destruct (odis (ohdr k)); [reflexivity|].
      rewrite Hk. reflexivity. }
    destruct (oname h) as [|c nm].
    + destruct path as [|c path]; [apply kids_at_forget|apply Hin].
    + destruct (eqs (c :: nm) path); [reflexivity|].
      destruct (prefixb ((c :: nm) ++ ["."]) path); [apply Hin|reflexivity].
Qed.

(* the matching sources of a root source list are Vars.gws_root's, for a non-empty name *)
Lemma filter_forget : forall (l:list lsrc),
  map forget (filter lactive l) = filter (fun oc => negb (odis (ohdr (fst oc)))) (map forget l).
Proof.
  induction l as [|s l IHl]; [reflexivity|]. cbn. unfold lactive at 1.
  destruct (negb (odis (ohdr (lobj s)))); cbn; rewrite IHl; reflexivity.
Qed.
Lemma match_root_aux : forall name p (t0:list obj) r j,
  map forget
    (flat_map (fun s => if odis (ohdr (lobj s)) then [] else gwsp (lpos s) (lctx s) name (lobj s))
       (map (fun jk : nat * obj => mklsrc (p ++ [fst jk]) (snd jk) [t0]) (index_from j r)))
  = flat_map (fun k => if odis (ohdr k) then [] else gws_obj [t0] name k) r.
Proof.
  intros name p t0 r. induction r as [|k r IH]; intros j; [reflexivity|].
  cbn [index_from map flat_map]. rewrite map_app. rewrite IH. f_equal.
  cbn. destruct (odis (ohdr k)); [reflexivity|]. apply gwsp_gws.
Qed.
Lemma match_sources_root : forall t name i, name <> [] ->
  map forget (match_sources name (kids_at [i] t [])) =
  filter (fun oc => negb (odis (ohdr (fst oc)))) (gws_root t name).
Proof.
  intros t name i Hn. unfold match_sources, gws_root. destruct name as [|c name]; [congruence|].
  rewrite filter_forget. f_equal. unfold kids_at. apply match_root_aux.
Qed.

(* ------------------------------------------------------------------ sources without "$" *)
Definition words_plain (ws:list word) : Prop := forall w, In w ws -> mem "$" (wv w) = false.

Lemma f_mem_false_cons : forall c d s, mem c (d :: s) = false -> Ascii.eqb c d = false /\ mem c s = false.
Proof. intros c d s H. cbn in H. apply orb_false_iff in H. exact H. Qed.

Lemma f_frags_no_dollar : forall w s fv have acc,
  mem "$" s = false ->
  frags w (MLit fv) have acc s = Ok (have, rev (flush_lit (fv ++ s) acc)).
Proof.
  intros w s. induction s as [|c r IH]; intros fv have acc Hm.
  - cbn. rewrite app_nil_r. reflexivity.
  - apply f_mem_false_cons in Hm. destruct Hm as [Hc Hr].
    cbn [frags]. rewrite Ascii.eqb_sym in Hc. rewrite Hc. cbn [negb].
    replace (fv ++ c :: r) with ((fv ++ [c]) ++ r) by (rewrite <- app_assoc; reflexivity).
    destruct (Ascii.eqb c bs).
    + destruct r as [|d r'].
      * apply IH. reflexivity.
      * pose proof (f_mem_false_cons _ _ _ Hr) as [Hd _]. rewrite Ascii.eqb_sym in Hd. rewrite Hd.
        apply IH. exact Hr.
    + apply IH. exact Hr.
Qed.

Lemma f_resolve_word_plain : forall env rec diff chain stop w,
  mem "$" (wv w) = false -> resolve_word env rec diff chain stop w = Ok [w].
Proof.
  intros env rec diff chain stop w H. unfold resolve_word.
  destruct (quote_eqb (wq w) Q1); [reflexivity|].
  unfold fragments_of_word. rewrite f_frags_no_dollar by exact H. cbn [app bind].
  destruct (wv w); cbn; reflexivity.
Qed.

Lemma f_resolve_words_plain : forall env rec diff chain stop ws,
  words_plain ws -> resolve_words env rec diff chain stop ws = Ok ws.
Proof.
  intros env rec diff chain stop ws. induction ws as [|w r IH]; intros H; [reflexivity|].
  cbn [resolve_words]. rewrite f_resolve_word_plain by (apply H; left; reflexivity).
  cbn [bind]. rewrite IH by (intros x Hx; apply H; right; exact Hx). reflexivity.
Qed.

(* a definition without "$" resolves to its own words, whatever its context *)
Lemma resolve_plain : forall env diff chain d,
  words_plain (owords d) -> resolve_top env diff chain d = Ok (owords d).
Proof. intros. unfold resolve_top. cbn [resolve_def]. apply f_resolve_words_plain. assumption. Qed.

Lemma words_plain_b : forall ws, existsb word_has_dollar ws = false -> words_plain ws.
Proof.
  intros ws H w Hw. destruct (mem "$" (wv w)) eqn:E; [|reflexivity].
  assert (existsb word_has_dollar ws = true) by (apply existsb_exists; exists w; split; assumption).
  congruence.
Qed.

(* ------------------------------------------------------------------ master_active_objects as a list *)
(* the objects the generator yields; it raises at a duplicate definition (the entries end there) *)
Fixpoint entries_from (seen:list obj) (l:list obj) : list obj :=
  match l with
  | [] => []
  | k :: r =>
      match mao_step seen k with
      | MSkip => entries_from seen r
      | MDup => []
      | MYield seen' => k :: entries_from seen' r
      end
  end.
Definition entries (l:list obj) : list obj := entries_from [] l.

Lemma entries_active : forall l seen k, In k (entries_from seen l) -> odis (ohdr k) = false /\ In k l.
Proof.
  induction l as [|x r IH]; intros seen k H; [destruct H|].
  cbn [entries_from] in H. unfold mao_step in H.
  destruct (odis (ohdr x)) eqn:Ed.
  - destruct (IH _ _ H) as [A B]. split; [exact A|right; exact B].
  - destruct (seen_get (oname (ohdr x)) seen) as [first|].
    + destruct (omultiple first).
      * destruct (IH _ _ H) as [A B]. split; [exact A|right; exact B].
      * destruct (is_def x); [destruct H|].
        destruct H as [H|H]; [subst; split; [exact Ed|left; reflexivity]|].
        destruct (IH _ _ H) as [A B]. split; [exact A|right; exact B].
    + destruct H as [H|H]; [subst; split; [exact Ed|left; reflexivity]|].
      destruct (IH _ _ H) as [A B]. split; [exact A|right; exact B].
Qed.
