(* C18_path: every scope_extract reachable in an extraction reports the dotted path of the fields that
   lead to it.  Two parts: (1) extraction stores every extract under the key that is its own name
   (invariant [named], preserved by __phil_set__ and __phil_join__); (2) on such a value __phil_path__
   of a node reached through the fields p is join "." p. *)
From Coq Require Import List Ascii String Bool Arith ZArith Lia.
From Phil Require Import Base Tokenizer Tree PyVal ConvText Extract ExtractGuard.
From Phil Require Conv Parser Show.
Import ListNotations.
Local Open Scope char_scope.

(* ---------- the invariant *)
(* the names of the extracts at the surface of a value (through lists) *)
Fixpoint tops (v:pyval) : list str :=
  match v with
  | VScope (Ext n _) => [n]
  | VScopeList _ l | VList l => (fix go (l:list pyval) : list str := match l with [] => [] | x :: r => tops x ++ go r end) l
  | _ => []
  end.
Definition entry_named (k:str) (x:pyval) : Prop := Forall (eq k) (tops x).
Definition item_named := entry_named.
Lemma tops_items l : (fix go (l:list pyval) : list str := match l with [] => [] | x :: r => tops x ++ go r end) l = flat_map tops l.
Proof. induction l as [|x r IH]; [reflexivity|]. cbn [flat_map]. rewrite IH. reflexivity. Qed.
Lemma entry_named_items k l : Forall (eq k) (flat_map tops l) <-> Forall (entry_named k) l.
Proof.
  induction l as [|x r IH]; cbn [flat_map]; [split; constructor|]. rewrite Forall_app, IH. split.
  - intros [A B]. constructor; assumption.
  - intro H. inversion H; auto.
Qed.
Lemma entry_named_slist k o l : entry_named k (VScopeList o l) <-> Forall (entry_named k) l.
Proof. unfold entry_named at 1. cbn [tops]. rewrite tops_items. apply entry_named_items. Qed.
Lemma entry_named_list k l : entry_named k (VList l) <-> Forall (entry_named k) l.
Proof. unfold entry_named at 1. cbn [tops]. rewrite tops_items. apply entry_named_items. Qed.
Lemma entry_named_scope k n fs : entry_named k (VScope (Ext n fs)) <-> n = k.
Proof. unfold entry_named. cbn [tops]. split; [intro H; inversion H; auto|intros ->; repeat constructor]. Qed.
Lemma entry_named_flat k x : tops x = [] -> entry_named k x.
Proof. unfold entry_named. intros ->. constructor. Qed.
Fixpoint named (v:pyval) : Prop :=
  match v with
  | VScope (Ext _ fs) =>
      (fix go (l:fields_t) : Prop :=
         match l with [] => True | (k, x) :: r => (k <> [] /\ entry_named k x /\ named x) /\ go r end) fs
  | VScopeList _ l | VList l =>
      (fix go (l:list pyval) : Prop := match l with [] => True | x :: r => named x /\ go r end) l
  | _ => True
  end.
Definition entry_ok (kv:str * pyval) : Prop := fst kv <> [] /\ entry_named (fst kv) (snd kv) /\ named (snd kv).

Lemma named_scope n fs : named (VScope (Ext n fs)) <-> Forall entry_ok fs.
Proof.
  cbn [named]. induction fs as [|[k x] r IH]; [split; auto|].
  split.
  - intros [H1 H2]. constructor; [exact H1|apply IH; exact H2].
  - intro H. inversion H; subst. split; [assumption|apply IH; assumption].
Qed.
Lemma named_items l : (fix go (l:list pyval) : Prop := match l with [] => True | x :: r => named x /\ go r end) l <-> Forall named l.
Proof.
  induction l as [|x r IH]; [split; auto|]. split.
  - intros [H1 H2]. constructor; [exact H1|apply IH; exact H2].
  - intro H. inversion H; subst. split; [assumption|apply IH; assumption].
Qed.
Lemma named_slist o l : named (VScopeList o l) <-> Forall named l.
Proof. cbn [named]. apply named_items. Qed.
Lemma named_list l : named (VList l) <-> Forall named l.
Proof. cbn [named]. apply named_items. Qed.

Lemma entry_ok_intro k x : k <> [] -> entry_named k x -> named x -> entry_ok (k, x).
Proof. intros A B C. split; [exact A|split; [exact B|exact C]]. Qed.

(* fset keeps the invariant *)
Lemma fset_ok k x fs : Forall entry_ok fs -> entry_ok (k, x) -> Forall entry_ok (fset k x fs).
Proof.
  intros F E. induction fs as [|[k' x'] r IH]; cbn [fset]; [constructor; [exact E|constructor]|].
  inversion F as [|? ? Hk Hr]; subst. destruct (eqs k' k) eqn:Q.
  - apply eqs_eq' in Q. subst. constructor; assumption.
  - constructor; [assumption|apply IH; assumption].
Qed.
Lemma fget_ok k x fs : Forall entry_ok fs -> fget k fs = Some x -> entry_ok (k, x).
Proof.
  intros F G. induction fs as [|[k' x'] r IH]; [discriminate|]. inversion F as [|? ? Hk Hr]; subst.
  cbn [fget] in G. destruct (eqs k' k) eqn:Q; [|apply IH; assumption].
  apply eqs_eq' in Q. inversion G; subst. exact Hk.
Qed.

Lemma drop_leading_none_forall (P:pyval -> Prop) l : Forall P l -> Forall P (drop_leading_none l).
Proof.
  intro F. destruct l as [|y [|y2 t]]; [exact F|destruct y; exact F|].
  destruct y; try exact F. cbn [drop_leading_none]. inversion F as [|? ? _ G]; subst. exact G.
Qed.

(* ---------- __phil_join__ keeps it *)
Lemma join_ext_named : forall oe self self',
  named (VScope oe) -> Forall entry_ok self -> join_ext oe self = Ok self' -> Forall entry_ok self'.
Proof.
  intro oe.
  assert (P : forall v, match v with
                        | VScope oe => forall self self', named (VScope oe) -> Forall entry_ok self ->
                                         join_ext oe self = Ok self' -> Forall entry_ok self'
                        | _ => True end).
  { induction v as [| |s|n|l IHl|l|n fs IHf|o l IHl] using pyval_ind2; try exact I.
    intros self self' No. rewrite named_scope in No. cbn [join_ext].
    revert self. induction fs as [|[key ov] r IHr]; intros self Fs H.
    - inversion H; subst. exact Fs.
    - inversion IHf as [|? ? Hov Hr]; subst. inversion No as [|? ? [Kne [Ke Kn]] Nr]; subst.
      cbn [fst snd] in *. specialize (IHr Hr Nr).
      destruct (Parser.reserved key); [apply (IHr self Fs H)|].
      assert (Eov : entry_ok (key, ov)) by (apply entry_ok_intro; assumption).
      destruct (fget key self) as [sv|] eqn:E.
      + pose proof (fget_ok _ _ _ Fs E) as [_ [Se Sn]]. cbn [fst snd] in Se, Sn.
        destruct sv as [| |s|nn|l|l|[n' sf]|o l];
          try (apply (IHr (fset key ov self)); [apply fset_ok; assumption|exact H]).
        * (* self value is an extract *)
          destruct ov as [| |s|nn|l|l|oe'|o l]; try discriminate; try (apply (IHr self Fs H)).
          destruct (join_ext oe' sf) as [sf'| |] eqn:J; try discriminate. cbn [bind] in H.
          apply (IHr (fset key (VScope (Ext n' sf')) self)); [|exact H].
          apply fset_ok; [exact Fs|]. apply entry_ok_intro; [exact Kne|exact Se|].
          apply named_scope. apply (Hov sf sf'); [exact Kn|apply named_scope in Sn; exact Sn|exact J].
        * (* self value is a scope_extract_list *)
          destruct ov as [| |s|nn|l'|l'|oe'|o' l']; try discriminate; [apply (IHr self Fs H)|].
          apply (IHr (fset key (VScopeList o (drop_leading_none (l ++ filter not_none l'))) self)); [|exact H].
          apply fset_ok; [exact Fs|]. apply entry_named_slist in Se. apply entry_named_slist in Ke.
          apply named_slist in Sn. apply named_slist in Kn.
          assert (A1 : Forall (item_named key) (l ++ filter not_none l')).
          { apply Forall_app. split; [exact Se|]. apply Forall_forall. intros y Hy. apply filter_In in Hy.
            rewrite Forall_forall in Ke. apply Ke, Hy. }
          assert (A2 : Forall named (l ++ filter not_none l')).
          { apply Forall_app. split; [exact Sn|]. apply Forall_forall. intros y Hy. apply filter_In in Hy.
            rewrite Forall_forall in Kn. apply Kn, Hy. }
          apply entry_ok_intro; [exact Kne| |].
          -- apply entry_named_slist. apply drop_leading_none_forall. exact A1.
          -- apply named_slist. apply drop_leading_none_forall. exact A2.
      + apply (IHr (fset key ov self)); [apply fset_ok; assumption|exact H]. }
  exact (P (VScope oe)).
Qed.

(* ---------- __phil_set__ keeps it *)
Lemma slist_append_ok k o l v : k <> [] -> entry_named k (VScopeList o l) -> named (VScopeList o l) ->
  entry_named k v -> named v -> entry_ok (k, VScopeList o (l ++ [v])).
Proof.
  intros K Se Sn B A. apply entry_ok_intro; [exact K| |].
  - apply entry_named_slist. apply entry_named_slist in Se. apply Forall_app. split; [exact Se|constructor; [exact B|constructor]].
  - apply named_slist. apply named_slist in Sn. apply Forall_app. split; [exact Sn|constructor; [exact A|constructor]].
Qed.
Lemma list_append_ok k l v : k <> [] -> entry_named k (VList l) -> named (VList l) ->
  entry_named k v -> named v -> entry_ok (k, VList (l ++ [v])).
Proof.
  intros K Se Sn B A. apply entry_ok_intro; [exact K| |].
  - apply entry_named_list. apply entry_named_list in Se. apply Forall_app. split; [exact Se|constructor; [exact B|constructor]].
  - apply named_list. apply named_list in Sn. apply Forall_app. split; [exact Sn|constructor; [exact A|constructor]].
Qed.
Lemma join_entry_ok k n sf oe sf' : k <> [] -> entry_named k (VScope (Ext n sf)) -> named (VScope (Ext n sf)) ->
  named (VScope oe) -> join_ext oe sf = Ok sf' -> entry_ok (k, VScope (Ext n sf')).
Proof.
  intros K Se Sn A J. apply entry_named_scope in Se. subst n.
  apply entry_ok_intro; [exact K|apply entry_named_scope; reflexivity|]. apply named_scope.
  apply (join_ext_named oe sf sf' A); [apply named_scope in Sn; exact Sn|exact J].
Qed.

Ltac fin_entry :=
  first [ eassumption
        | apply slist_append_ok; eassumption
        | apply (slist_append_ok _ _ []); eassumption
        | apply list_append_ok; eassumption
        | eapply join_entry_ok; eassumption ].
Ltac fin_fields :=
  first [ eassumption
        | apply fset_ok; [fin_fields | fin_entry] ].

Lemma phil_set_named fs name opt mult value fs' :
  name <> [] -> Forall entry_ok fs ->
  (forall v, value = Some v -> named v /\ item_named name v /\ entry_named name v /\ (forall o l, v <> VScopeList o l)) ->
  phil_set fs name opt mult value = Ok fs' -> Forall entry_ok fs'.
Proof.
  intros Nn F V. unfold phil_set. destruct (has_dot name); [discriminate|].
  assert (Vn : entry_ok (name, VNone)) by (apply entry_ok_intro; [exact Nn|constructor|exact I]).
  assert (El : entry_ok (name, VScopeList opt [])) by (apply entry_ok_intro; [exact Nn|apply entry_named_slist; constructor|exact I]).
  assert (El1 : entry_named name (VScopeList opt [])) by (apply entry_named_slist; constructor).
  assert (El2 : named (VScopeList opt [])) by exact I.
  unfold getattr. destruct (fget name fs) as [node|] eqn:E.
  - pose proof (fget_ok _ _ _ F E) as [_ [Se Sn]]. cbn [fst snd] in Se, Sn.
    destruct value as [v|].
    + destruct (V v eq_refl) as [A [B [C D]]].
      assert (Ev : entry_ok (name, v)) by (apply entry_ok_intro; assumption).
      destruct node; destruct mult; cbn [negb]; case_split_goal; intro H; inversion H; subst; fin_fields.
    + destruct node; destruct mult; cbn [negb]; case_split_goal; intro H; inversion H; subst; fin_fields.
  - destruct (builtin_attr name); [discriminate|].
    destruct value as [v|].
    + destruct (V v eq_refl) as [A [B [C D]]].
      assert (Ev : entry_ok (name, v)) by (apply entry_ok_intro; assumption).
      destruct mult; cbn [negb]; case_split_goal; intro H; inversion H; subst; fin_fields.
    + destruct mult; cbn [negb]; case_split_goal; intro H; inversion H; subst; fin_fields.
Qed.

(* ---------- extraction establishes it *)
Fixpoint names_nonempty (o:obj) : Prop :=
  match o with
  | Def _ _ _ => True
  | Scp _ ks _ => (fix go (l:list obj) : Prop :=
                     match l with [] => True | k :: r => (oname (ohdr k) <> [] /\ names_nonempty k) /\ go r end) ks
  end.
Lemma names_nonempty_scp h ks a : names_nonempty (Scp h ks a) <-> Forall (fun k => oname (ohdr k) <> [] /\ names_nonempty k) ks.
Proof.
  cbn [names_nonempty]. induction ks as [|k r IH]; [split; auto|]. split.
  - intros [H1 H2]. constructor; [exact H1|apply IH; exact H2].
  - intro H. inversion H; subst. split; [assumption|apply IH; assumption].
Qed.

Section Extraction.
  Variable pe : str -> option Conv.evr.
  Variable ex : str -> option str.

  (* values of definitions hold no extract; they are not scope_extract_lists *)
  Definition flatv (v:pyval) : Prop := named v /\ tops v = [] /\ (forall o l, v <> VScopeList o l).
  Lemma flat_atom v : match v with VNone | VAuto | VStr _ | VNum _ | VWords _ => True | _ => False end -> flatv v.
  Proof. destruct v; try contradiction; intros _; repeat split; try exact I; discriminate. Qed.
  Lemma flat_list l : Forall (fun x => named x /\ tops x = []) l -> flatv (VList l).
  Proof.
    intro F. split; [|split; [|discriminate]].
    - apply named_list. eapply Forall_impl; [|exact F]. intros x [A _]. exact A.
    - cbn [tops]. rewrite tops_items. induction F as [|x r [_ Hx] _ IH]; [reflexivity|]. cbn [flat_map]. rewrite Hx, IH. reflexivity.
  Qed.
  Lemma of_conv_flat : forall x, flatv (of_conv x).
  Proof.
    fix IH 1. intros [| |n|l]; cbn [of_conv]; try (apply flat_atom; exact I).
    apply flat_list. induction l as [|y l IHl]; cbn [map]; constructor; [|exact IHl].
    destruct (IH y) as [A [B _]]. split; assumption.
  Qed.
  Lemma flat_strs {A} (f:A -> str) (l:list A) : flatv (VList (map (fun w => VStr (f w)) l)).
  Proof. apply flat_list. induction l; cbn [map]; constructor; [split; [exact I|reflexivity]|assumption]. Qed.

  Lemma def_value_flat h a ws v : def_from_words pe ex h a ws = Ok v -> flatv v.
  Proof.
    unfold def_from_words. destruct (get_attr (s_ "type") a) as [| |b|z|s|t]; try discriminate.
    - intro H. inversion H; subst. unfold strings_from_words.
      destruct (Parser.is_plain_none ws); [apply flat_atom; exact I|].
      destruct (Parser.is_plain_auto ws); [apply flat_atom; exact I|]. apply flat_strs.
    - destruct t; cbn [ty_from_words cty_of].
      + intro H; inversion H. unfold words_from_words.
        destruct (Parser.is_plain_none ws); [apply flat_atom; exact I|].
        destruct (Parser.is_plain_auto ws); apply flat_atom; exact I.
      + intro H; inversion H. unfold strings_from_words.
        destruct (Parser.is_plain_none ws); [apply flat_atom; exact I|].
        destruct (Parser.is_plain_auto ws); [apply flat_atom; exact I|]. apply flat_strs.
      + intro H; inversion H. unfold str_from_words.
        destruct (Parser.is_plain_none ws); [apply flat_atom; exact I|].
        destruct (Parser.is_plain_auto ws); apply flat_atom; exact I.
      + intro H; inversion H. unfold qstr_from_words.
        destruct (Parser.is_plain_none ws); [apply flat_atom; exact I|].
        destruct (Parser.is_plain_auto ws); apply flat_atom; exact I.
      + unfold path_from_words, str_from_words.
        destruct (Parser.is_plain_none ws); [intro H; inversion H; apply flat_atom; exact I|].
        destruct (Parser.is_plain_auto ws); [intro H; inversion H; apply flat_atom; exact I|].
        destruct (ex _); [intro H; inversion H; apply flat_atom; exact I|].
        destruct ws; cbn [Conv.err_at]; discriminate.
      + intro H; inversion H. unfold str_from_words.
        destruct (Parser.is_plain_none ws); [apply flat_atom; exact I|].
        destruct (Parser.is_plain_auto ws); apply flat_atom; exact I.
      + destruct (Conv.from_words pe Conv.CBool ws); try discriminate. cbn [bind]. intro H; inversion H. apply of_conv_flat.
      + match goal with |- context [Conv.from_words pe ?c ws] => destruct (Conv.from_words pe c ws) end; try discriminate.
        cbn [bind]. intro H; inversion H. apply of_conv_flat.
      + match goal with |- context [Conv.from_words pe ?c ws] => destruct (Conv.from_words pe c ws) end; try discriminate.
        cbn [bind]. intro H; inversion H. apply of_conv_flat.
      + destruct (Choice.choice_from_words multi (get_attr (s_ "optional") a) ws) as [c| |]; try discriminate.
        cbn [bind]. intro H; inversion H. destruct c; cbn [of_choice]; try (apply flat_atom; exact I).
        apply (flat_strs (fun s => s)).
      + discriminate.
  Qed.

  Theorem extract_named : forall t v, names_nonempty t -> extract_obj pe ex t = Ok v ->
    named v /\ (forall h ks a, t = Scp h ks a -> exists fs, v = VScope (Ext (oname h) fs)).
  Proof.
    induction t as [h ws a|h ks a IH] using obj_ind2; intros v Nn H.
    - cbn [extract_obj] in H. destruct (def_value_flat _ _ _ _ H) as [A _]. split; [exact A|]. intros; discriminate.
    - cbn [extract_obj] in H.
      match type of H with bind (?go ks []) _ = _ => set (loop := go) in H end.
      destruct (loop ks []) as [fs0| |] eqn:L; try discriminate. cbn [bind] in H. inversion H; subst v. clear H.
      split; [|intros h' ks' a' E; inversion E; subst; eauto].
      apply named_scope. apply names_nonempty_scp in Nn.
      assert (G : forall l acc out, Forall (fun k => oname (ohdr k) <> [] /\ names_nonempty k) l ->
                  Forall (fun k => forall v, names_nonempty k -> extract_obj pe ex k = Ok v ->
                              named v /\ (forall h ks a, k = Scp h ks a -> exists fs, v = VScope (Ext (oname h) fs))) l ->
                  Forall entry_ok acc -> loop l acc = Ok out -> Forall entry_ok out).
      { induction l as [|k r IHr]; intros acc out Nl Il Fa Hl.
        - cbn in Hl. inversion Hl; subst. exact Fa.
        - cbn [loop] in Hl. fold loop in Hl. inversion Nl as [|? ? [Nk Nnk] Nr]; subst. inversion Il as [|? ? Ik Ir]; subst.
          destruct (otmpl (ohdr k) <? 0)%Z; [apply (IHr acc out Nr Ir Fa Hl)|].
          destruct (if odis (ohdr k) || (0 <? otmpl (ohdr k))%Z then Ok None else do v <- extract_obj pe ex k; Ok (Some v))
            as [value| |] eqn:V; try discriminate. cbn [bind] in Hl.
          destruct (phil_set acc (oname (ohdr k)) (ooptional k) (omultiple k) value) as [acc'| |] eqn:S; try discriminate.
          cbn [bind] in Hl. apply (IHr acc' out Nr Ir); [|exact Hl].
          eapply phil_set_named; [exact Nk|exact Fa| |exact S].
          intros v0 Ev. subst value.
          destruct (odis (ohdr k) || (0 <? otmpl (ohdr k))%Z); [discriminate|].
          destruct (extract_obj pe ex k) as [vk| |] eqn:Ek; try discriminate. cbn [bind] in V. inversion V; subst v0.
          destruct (Ik vk Nnk eq_refl) as [A B]. split; [exact A|].
          destruct k as [hk wsk ak|hk ksk ak].
          + cbn [extract_obj] in Ek. destruct (def_value_flat _ _ _ _ Ek) as [_ [C D]].
            split; [apply entry_named_flat; exact C|]. split; [apply entry_named_flat; exact C|exact D].
          + destruct (B hk ksk ak eq_refl) as [fs' ->]. cbn [ohdr].
            split; [apply entry_named_scope; reflexivity|]. split; [apply entry_named_scope; reflexivity|discriminate]. }
      apply (G ks [] fs0 Nn IH); [constructor|exact L].
  Qed.
End Extraction.

(* ---------- (2) on a named value every node reports the path of the fields that lead to it *)
Lemma join_with_snoc sep path k : path <> [] -> Show.join_with sep (path ++ [k]) = Show.join_with sep path ++ sep ++ k.
Proof.
  induction path as [|a r IH]; [contradiction|]. intros _. destruct r as [|b r'].
  - reflexivity.
  - change ((a :: b :: r') ++ [k]) with (a :: ((b :: r') ++ [k])).
    change (Show.join_with sep (a :: (b :: r') ++ [k])) with (a ++ sep ++ Show.join_with sep ((b :: r') ++ [k])).
    rewrite IH by discriminate. change (Show.join_with sep (a :: b :: r')) with (a ++ sep ++ Show.join_with sep (b :: r')).
    rewrite <- !app_assoc. reflexivity.
Qed.
Lemma join_dot_nonempty path : path <> [] -> Forall (fun k => k <> []) path -> join_dot path <> [].
Proof.
  intros N F. destruct path as [|a r]; [contradiction|]. inversion F as [|? ? Ha _]; subst.
  unfold join_dot. destruct r; cbn [Show.join_with]; [exact Ha|]. destruct a; [contradiction|discriminate].
Qed.

(* what a node at (anc, path) with name n must satisfy for its children to come out right *)
Definition top_ok (anc:list (option str)) (path:list str) (n:str) : Prop :=
  phil_path anc (Some n) None = Ok (Some (join_dot path)) /\ (n = [] <-> path = []).

Lemma child_top_ok anc path n k : top_ok anc path n -> k <> [] -> top_ok (Some n :: anc) (path ++ [k]) k.
Proof.
  intros [P E] K. split.
  - cbn [phil_path nonempty_name]. destruct n as [|c n'].
    + cbn [negb]. destruct E as [E _]. rewrite (E eq_refl). reflexivity.
    + cbn [negb]. rewrite P. cbn [bind app]. f_equal. f_equal.
      assert (Np : path <> []) by (intro X; apply E in X; discriminate).
      unfold join_dot. rewrite (join_with_snoc _ path k Np). reflexivity.
  - split; [intro X; contradiction|]. intro X. destruct path; discriminate.
Qed.

Lemma phil_path_field anc n f q : phil_path anc (Some n) None = Ok (Some q) ->
  (q = [] -> n = []) ->
  phil_path anc (Some n) (Some f) = Ok (Some (match q with [] => f | _ => q ++ "." :: f end)).
Proof.
  destruct anc as [|pn anc']; cbn [phil_path].
  - cbn [path_base]. intros H Q. inversion H; subst. destruct q; reflexivity.
  - destruct (negb (nonempty_name pn)).
    + cbn [path_base]. intros H Q. inversion H; subst. destruct q; reflexivity.
    + destruct (phil_path anc' pn None) as [[p|]| |]; cbn [bind]; try discriminate.
      intros H Q. inversion H; subst. cbn [app]. unfold join_dot. cbn [Show.join_with].
      destruct p; cbn [app]; [reflexivity|]. rewrite <- !app_assoc. reflexivity.
Qed.

Definition node_ok (nd:list (option str) * list str * ext) : Prop :=
  let '(anc, path, e) := nd in
  phil_path anc (Some (ext_name e)) None = Ok (Some (join_dot path))
  /\ (forall f, In f (fkeys (ext_fields e)) ->
       phil_path anc (Some (ext_name e)) (Some f) = Ok (Some (join_dot (path ++ [f]))))
  /\ Forall (fun k => k <> []) path.

Lemma reach_items anc path l :
  (fix go (l:list pyval) : list (list (option str) * list str * ext) :=
     match l with [] => [] | x :: r => reach anc path x ++ go r end) l = flat_map (reach anc path) l.
Proof. induction l as [|x r IH]; [reflexivity|]. cbn [flat_map]. rewrite IH. reflexivity. Qed.

Theorem reach_ok : forall v anc path, named v -> Forall (fun k => k <> []) path ->
  Forall (top_ok anc path) (tops v) -> Forall node_ok (reach anc path v).
Proof.
  induction v as [| |s|n|l IHl|l|n fs IHf|o l IHl] using pyval_ind2; intros anc path Nv Fp T; try constructor.
  - (* plain list *)
    cbn [reach]. rewrite reach_items. apply named_list in Nv. cbn [tops] in T. rewrite tops_items in T.
    induction l as [|x r IHr]; [constructor|]. cbn [flat_map] in *. inversion IHl; subst. inversion Nv; subst.
    apply Forall_app in T. destruct T as [T1 T2]. apply Forall_app. split; auto.
  - (* the node itself *)
    cbn [tops] in T. inversion T as [|? ? [P E] _]; subst. unfold node_ok. cbn [ext_name ext_fields]. split; [exact P|]. split; [|exact Fp].
    intros f Hf. apply named_scope in Nv.
    assert (Kf : f <> []).
    { unfold fkeys in Hf. apply in_map_iff in Hf. destruct Hf as [[k x] [<- Hin]]. rewrite Forall_forall in Nv. apply (Nv _ Hin). }
    rewrite (phil_path_field anc n f _ P).
    + destruct path as [|a r].
      * reflexivity.
      * assert (Np : a :: r <> []) by discriminate. pose proof (join_dot_nonempty _ Np Fp) as Nj.
        unfold join_dot in *. rewrite (join_with_snoc _ _ f Np). destruct (Show.join_with ["."] (a :: r)) eqn:Q; [exfalso; apply Nj; reflexivity|reflexivity].
    + intro Q. apply E. destruct path as [|a r]; [reflexivity|]. exfalso. assert (Np : a :: r <> []) by discriminate. exact (join_dot_nonempty _ Np Fp Q).
  - (* its fields *)
    cbn [tops] in T. inversion T as [|? ? Tn _]; subst. apply named_scope in Nv.
    induction fs as [|[k x] r IHr]; [constructor|].
    inversion IHf as [|? ? Hx Hr]; subst. inversion Nv as [|? ? [Kne [Ke Kn]] Nr]; subst. cbn [fst snd] in *.
    apply Forall_app. split; [|apply IHr; assumption].
    apply Hx; [exact Kn|apply Forall_app; split; [exact Fp|constructor; [exact Kne|constructor]]|].
    unfold entry_named in Ke. eapply Forall_impl; [|exact Ke]. intros a <-. apply child_top_ok; assumption.
  - (* scope_extract_list *)
    cbn [reach]. rewrite reach_items. apply named_slist in Nv. cbn [tops] in T. rewrite tops_items in T.
    induction l as [|x r IHr]; [constructor|]. cbn [flat_map] in *. inversion IHl; subst. inversion Nv; subst.
    apply Forall_app in T. destruct T as [T1 T2]. apply Forall_app. split; auto.
Qed.

(* the AttributeError of a refused assignment / injection at a node spells path.name *)
Lemma refuse_full_path anc path n name :
  phil_path anc (Some n) None = Ok (Some (join_dot path)) -> Forall (fun k => k <> []) path ->
  refuse anc n name = GRefuse (join_dot (path ++ [name])).
Proof.
  intros P F. rewrite (refuse_path anc n name _ P). f_equal. destruct path as [|a r]; [reflexivity|].
  assert (Np : a :: r <> []) by discriminate. pose proof (join_dot_nonempty _ Np F) as Nj.
  unfold join_dot in *. rewrite (join_with_snoc _ _ name Np).
  destruct (Show.join_with ["."] (a :: r)) eqn:Q; [exfalso; apply Nj; reflexivity|reflexivity].
Qed.

Section Paths.
  Variable pe : str -> option Conv.evr.
  Variable ex : str -> option str.

  (* extraction of a root scope (empty name): every node, each element of a multiple scope included,
     reports the dotted path of the fields leading to it, and path.f for each of its fields f *)
  Theorem extract_paths h ks a v :
    oname h = [] -> names_nonempty (Scp h ks a) -> extract_obj pe ex (Scp h ks a) = Ok v ->
    Forall node_ok (reach [] [] v).
  Proof.
    intros Hn Nn H. destruct (extract_named pe ex _ _ Nn H) as [Nv B]. destruct (B h ks a eq_refl) as [fs ->].
    apply reach_ok; [exact Nv|constructor|]. cbn [tops]. constructor; [|constructor].
    rewrite Hn. split; [reflexivity|split; reflexivity].
  Qed.

  (* the guard at every node of an extraction: an undeclared name is refused with the full dotted path,
     by __setattr__ and (for an existing name) by __inject__ *)
  Theorem extract_guard_paths h ks a v :
    oname h = [] -> names_nonempty (Scp h ks a) -> extract_obj pe ex (Scp h ks a) = Ok v ->
    forall anc path e, In (anc, path, e) (reach [] [] v) ->
    forall name x,
      (fget name (ext_fields e) = None -> builtin_attr name = false ->
         setattr anc e name x = GRefuse (join_dot (path ++ [name]))
         /\ exists e', inject anc e name x = GOk e')
      /\ (forall y, fget name (ext_fields e) = Some y ->
           inject anc e name x = GRefuse (join_dot (path ++ [name]))
           /\ exists e', setattr anc e name x = GOk e').
  Proof.
    intros Hn Nn H anc path e Hin name x.
    pose proof (extract_paths h ks a v Hn Nn H) as F. rewrite Forall_forall in F. specialize (F _ Hin).
    destruct e as [n fs]. cbn [node_ok ext_name ext_fields] in *. destruct F as [P [_ Fp]].
    split.
    - intros E B. split.
      + rewrite setattr_missing by assumption. apply refuse_full_path; assumption.
      + eexists. apply (inject_fresh anc n fs name x E B).
    - intros y E. split.
      + rewrite (inject_existing anc n fs name x y E). apply refuse_full_path; assumption.
      + eexists. apply (setattr_field anc n fs name x y E).
  Qed.
End Paths.
