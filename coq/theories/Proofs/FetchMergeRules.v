(* C05, the merging rules as exact descriptions of Model/Fetch.v (every env, every canon oracle):
   scope_blocks     the result objects of a scope are the concatenation of one block per entry of
                    master_active_objects, each block being fetch_one of that entry (any depth)
   def_rule         non-multiple definition: every matching source definition is evaluated in
                    source order, the first failure is the outcome; otherwise the LAST one's value
                    is the result; no match: the master default
   scope_rule       non-multiple scope: the same fetch on the concatenated children of the matching
                    source scopes (this is the recursion that carries def_rule to any depth)
   multiple_rule    multiple entry (diff = false): template (is_template by the optional rule)
                    followed by dedupe_keep_last of the candidates whose canonical text differs
                    from the master's, candidates = further master occurrences, then the sources *)
From Coq Require Import List Ascii String Bool Arith ZArith Lia.
From Phil Require Import Base Tree Vars Choice Fetch FetchBasics FetchShape FetchDisabled.
Import ListNotations.
Local Open Scope char_scope.

(* ------------------------------------------------------------------ dedupe_keep_last *)
Section Dedupe.
  Variable A : Type.
  Definition has_key (k:str) (l:list (str * A)) : bool := existsb (fun x => eqs (fst x) k) l.

  (* an element survives iff no later element carries the same key: survivors stand in the order
     of their (= the key's last) occurrences *)
  Fixpoint dedupe_keep_last (l:list (str * A)) : list (str * A) :=
    match l with
    | [] => []
    | x :: r => if has_key (fst x) r then dedupe_keep_last r else x :: dedupe_keep_last r
    end.

  Lemma has_key_In : forall k l, has_key k l = true <-> In k (map fst l).
  Proof.
    intros k l. unfold has_key. rewrite existsb_exists. split.
    - intros [x [Hx E]]. apply f_eqs_eq in E. subst. apply in_map. exact Hx.
    - intros H. apply in_map_iff in H. destruct H as [x [E Hx]]. exists x. split; [exact Hx|]. subst. apply f_eqs_refl.
  Qed.

  Lemma dedupe_In : forall l x, In x (dedupe_keep_last l) <->
    exists l1 l2, l = l1 ++ x :: l2 /\ has_key (fst x) l2 = false.
  Proof.
    induction l as [|y r IH]; intros x.
    - cbn. split; [tauto|]. intros [l1 [l2 [E _]]]. destruct l1; discriminate.
    - cbn [dedupe_keep_last]. destruct (has_key (fst y) r) eqn:Ey.
      + rewrite IH. split.
        * intros [l1 [l2 [E H]]]. exists (y :: l1), l2. subst. auto.
        * intros [l1 [l2 [E H]]]. destruct l1 as [|z l1]; cbn in E; injection E as E1 E2; subst.
          -- congruence.
          -- exists l1, l2. auto.
      + cbn [In]. rewrite IH. split.
        * intros [E|[l1 [l2 [E H]]]]; [subst; exists [], r; auto|exists (y :: l1), l2; subst; auto].
        * intros [l1 [l2 [E H]]]. destruct l1 as [|z l1]; cbn in E; injection E as E1 E2; subst.
          -- left; reflexivity.
          -- right. exists l1, l2. auto.
  Qed.

  Lemma dedupe_keys_sub : forall l k, In k (map fst (dedupe_keep_last l)) -> In k (map fst l).
  Proof.
    induction l as [|y r IH]; intros k H; [exact H|]. cbn [dedupe_keep_last] in H.
    destruct (has_key (fst y) r); [right; apply IH; exact H|].
    destruct H as [H|H]; [left; exact H|right; apply IH; exact H].
  Qed.

  Lemma dedupe_keys : forall l k, In k (map fst (dedupe_keep_last l)) <-> In k (map fst l).
  Proof.
    intros l k. split; [apply dedupe_keys_sub|].
    induction l as [|y r IH]; intros H; [exact H|]. cbn [dedupe_keep_last].
    destruct H as [H|H].
    - destruct (has_key (fst y) r) eqn:E.
      + apply IH. apply has_key_In. cbn in H. rewrite <- H. exact E.
      + left. exact H.
    - destruct (has_key (fst y) r); [apply IH; exact H|right; apply IH; exact H].
  Qed.

  Lemma dedupe_nodup : forall l, NoDup (map fst (dedupe_keep_last l)).
  Proof.
    induction l as [|y r IH]; [constructor|]. cbn [dedupe_keep_last].
    destruct (has_key (fst y) r) eqn:E; [exact IH|].
    cbn [map]. constructor; [|exact IH]. intros H. apply dedupe_keys_sub in H. apply has_key_In in H. congruence.
  Qed.

  (* the survivors keep their relative order *)
  Inductive subseq : list (str * A) -> list (str * A) -> Prop :=
    | sub_nil : subseq [] []
    | sub_skip : forall x a b, subseq a b -> subseq a (x :: b)
    | sub_keep : forall x a b, subseq a b -> subseq (x :: a) (x :: b).
  Lemma dedupe_subseq : forall l, subseq (dedupe_keep_last l) l.
  Proof.
    induction l as [|y r IH]; [constructor|]. cbn [dedupe_keep_last].
    destruct (has_key (fst y) r); constructor; exact IH.
  Qed.

  Lemma dedupe_nil : forall l, dedupe_keep_last l = [] <-> l = [].
  Proof.
    intros l. split; [|intros; subst; reflexivity].
    destruct l as [|y r]; [reflexivity|]. intros H. exfalso.
    assert (In (fst y) (map fst (dedupe_keep_last (y :: r)))) by (apply dedupe_keys; left; reflexivity).
    rewrite H in H0. destruct H0.
  Qed.
End Dedupe.
Arguments has_key {A}. Arguments dedupe_keep_last {A}. Arguments subseq {A}.

(* ------------------------------------------------------------------ the slots of result_objs *)
(* slot j holds candidate j unless its text occurs again later *)
Fixpoint mark (l:list (str * option obj)) : list (option obj) :=
  match l with
  | [] => []
  | x :: r => (if has_key (fst x) r then None else snd x) :: mark r
  end.
Fixpoint lastidx (k:str) (l:list (str * option obj)) : option nat :=
  match l with
  | [] => None
  | x :: r => match lastidx k r with
              | Some j => Some (S j)
              | None => if eqs (fst x) k then Some 0 else None
              end
  end.

Lemma mark_length : forall l, length (mark l) = length l.
Proof. induction l as [|x r IH]; [reflexivity|]. cbn. rewrite IH. reflexivity. Qed.

Lemma somes_mark : forall l, somes (mark l) = somes (map snd (dedupe_keep_last l)).
Proof.
  induction l as [|x r IH]; [reflexivity|]. cbn [mark dedupe_keep_last].
  destruct (has_key (fst x) r); [exact IH|]. cbn [map]. destruct (snd x); cbn [somes]; rewrite IH; reflexivity.
Qed.

Lemma has_key_app : forall A k (a b:list (str * A)), has_key k (a ++ b) = has_key k a || has_key k b.
Proof. intros. unfold has_key. apply existsb_app. Qed.

Lemma lastidx_none : forall k l, lastidx k l = None <-> has_key k l = false.
Proof.
  intros k l. induction l as [|x r IH]; [cbn; tauto|]. cbn [lastidx]. unfold has_key in *. cbn [existsb].
  destruct (lastidx k r).
  - split; [discriminate|]. intros H. apply orb_false_iff in H. destruct H as [_ H]. apply IH in H. discriminate.
  - destruct (eqs (fst x) k); cbn.
    + split; discriminate.
    + split; [intros _; apply IH; reflexivity|reflexivity].
Qed.

Lemma lastidx_app : forall k key c l,
  lastidx key (l ++ [(k, c)]) = if eqs k key then Some (length l) else lastidx key l.
Proof.
  intros k key c l. induction l as [|x r IH].
  - cbn. destruct (eqs k key); reflexivity.
  - cbn [app lastidx length]. rewrite IH. destruct (eqs k key); [reflexivity|]. reflexivity.
Qed.

Lemma mark_app : forall k c l,
  mark (l ++ [(k, c)]) = (match lastidx k l with Some i => set_none i (mark l) | None => mark l end) ++ [c].
Proof.
  intros k c l. induction l as [|x r IH]; [reflexivity|].
  cbn [app mark lastidx]. rewrite IH, has_key_app. unfold has_key at 2. cbn [existsb fst]. rewrite orb_false_r.
  destruct (lastidx k r) as [j|] eqn:El.
  - cbn [set_none app]. f_equal.
    assert (Hk : has_key k r = true).
    { destruct (has_key k r) eqn:E; [reflexivity|]. apply lastidx_none in E. congruence. }
    destruct (has_key (fst x) r) eqn:E1; [reflexivity|]. cbn [orb].
    destruct (eqs k (fst x)) eqn:E2; [|reflexivity]. apply f_eqs_eq in E2. subst. congruence.
  - rewrite (f_eqs_sym k (fst x)). destruct (eqs (fst x) k) eqn:E2.
    + cbn [set_none app]. rewrite orb_true_r. reflexivity.
    + rewrite orb_false_r. reflexivity.
Qed.

Lemma last_app_one : forall A (l:list A) x d, last (l ++ [x]) d = x.
Proof. intros. apply last_last. Qed.

Section Rules.
  Variable env : str -> option str.
  Variable canon : obj -> option obj -> res str.

  (* ---------------------------------------------------------------- the loop over the entries *)
  Lemma mloop_blocks : forall (body:nat -> obj -> res fout) l seen i o,
    mloop body seen i l = Ok o ->
    exists bs, fst o = List.concat bs /\
               Forall2 (fun k b => exists j u, body j k = Ok (b, u)) (entries_from seen l) bs.
  Proof.
    intros body l. induction l as [|k r IH]; intros seen i o H.
    - cbn in H. injection H as E. subst. exists []. split; [reflexivity|constructor].
    - cbn [mloop] in H. cbn [entries_from]. destruct (mao_step seen k) as [| |seen'].
      + eapply IH. exact H.
      + discriminate.
      + bind_inv H as x Hx. bind_inv H as y Hy. injection H as E. subst o. cbn [fst].
        destruct (IH _ _ _ Hy) as [bs [Eb Fb]]. exists (fst x :: bs). split; [cbn; rewrite Eb; reflexivity|].
        constructor; [|exact Fb]. exists i, (snd x). destruct x; exact Hx.
  Qed.

  Theorem scope_blocks : forall diff h ks a mchain srcs o,
    fetch_scope env canon diff (Scp h ks a) mchain srcs = Ok o ->
    exists bs, fst o = List.concat bs /\
      Forall2 (fun k b => exists i u,
                 fetch_one env canon diff ks (ks :: mchain) i k (fetch_scope env canon diff k (ks :: mchain)) srcs = Ok (b, u))
              (entries ks) bs.
  Proof. intros diff h ks a mchain srcs o H. cbn [fetch_scope] in H. apply mloop_blocks in H. exact H. Qed.

  Theorem fetch_blocks : forall diff m srcs r,
    fetch env canon diff m srcs = Ok r ->
    exists bs, r = List.concat bs /\
      Forall2 (fun k b => exists i u,
                 fetch_one env canon diff m [m] i k (fetch_scope env canon diff k [m]) (root_lsrcs srcs) = Ok (b, u))
              (entries m) bs.
  Proof.
    intros diff m srcs r H. unfold fetch in H. bind_inv H as oc Hoc. injection H as E. subst r.
    unfold fetch_root, root_scope in Hoc. apply scope_blocks in Hoc. exact Hoc.
  Qed.

  (* ---------------------------------------------------------------- non-multiple definitions *)
  Lemma def_loop_snoc : forall diff h mws a front s init,
    def_loop env canon diff h mws a (front ++ [s]) init =
    (do _ <- def_loop env canon diff h mws a front init; def_fetch env canon diff h mws a s).
  Proof.
    intros diff h mws a front s. induction front as [|x r IH]; intros init.
    - cbn. destruct (def_fetch env canon diff h mws a s); reflexivity.
    - cbn [app def_loop]. destruct (def_fetch env canon diff h mws a x); cbn [bind]; [apply IH|reflexivity|reflexivity].
  Qed.

  Lemma def_loop_all_ok : forall diff h mws a ms init x,
    def_loop env canon diff h mws a ms init = Ok x ->
    Forall (fun s => exists y, def_fetch env canon diff h mws a s = Ok y) ms.
  Proof.
    intros diff h mws a ms. induction ms as [|s r IH]; intros init x H; [constructor|].
    cbn [def_loop] in H. bind_inv H as y Hy. constructor; [eauto|eapply IH; exact H].
  Qed.

  (* the first matching definition whose evaluation fails decides the outcome *)
  Lemma def_loop_first_error : forall diff h mws a front s rest init,
    Forall (fun s => exists y, def_fetch env canon diff h mws a s = Ok y) front ->
    (forall y, def_fetch env canon diff h mws a s <> Ok y) ->
    def_loop env canon diff h mws a (front ++ s :: rest) init =
    (do y <- def_fetch env canon diff h mws a s; Ok y).
  Proof.
    intros diff h mws a front s rest. induction front as [|x r IH]; intros init Hf Hs.
    - cbn [app def_loop]. destruct (def_fetch env canon diff h mws a s) as [y| |]; [exfalso; eapply Hs; reflexivity|reflexivity|reflexivity].
    - inversion Hf as [|x0 l [y Hy] Hr]; subst. cbn [app def_loop]. rewrite Hy. cbn [bind]. apply IH; assumption.
  Qed.

  Lemma def_loop_last : forall diff h mws a ms init x,
    def_loop env canon diff h mws a ms init = Ok x ->
    match ms with
    | [] => x = init
    | s0 :: _ => def_fetch env canon diff h mws a (last ms s0) = Ok x
    end.
  Proof.
    intros diff h mws a ms init x H. destruct ms as [|s0 r]; [cbn in H; congruence|].
    destruct (exists_last (l := s0 :: r)) as [front [s E]]; [discriminate|].
    rewrite E in *. rewrite last_app_one. rewrite def_loop_snoc in H. bind_inv H as y Hy. exact H.
  Qed.

  (* what a non-multiple master definition contributes when nothing (or, for a deprecated one,
     nothing different) was given *)
  Definition def_default (diff:bool) (k:obj) : list obj :=
    if negb diff && negb (odeprecated k) then [k] else [].

  Theorem def_rule : forall diff allks chain i h mws a rec srcs o,
    omultiple (Def h mws a) = false ->
    fetch_one env canon diff allks chain i (Def h mws a) rec srcs = Ok o ->
    let ms := match_sources (oname h) srcs in
    Forall (fun s => exists y, def_fetch env canon diff h mws a s = Ok y) ms /\
    match ms with
    | [] => fst o = def_default diff (Def h mws a)
    | s0 :: _ => exists y, def_fetch env canon diff h mws a (last ms s0) = Ok y /\
                           fst o = match y with Some v => [v] | None => def_default diff (Def h mws a) end
    end.
  Proof.
    intros diff allks chain i h mws a rec srcs o Hm H ms. unfold fetch_one in H. cbn [oattrs ohdr] in H.
    destruct (get_attr (s_ "alias") a); try discriminate.
    destruct (oname h) as [|c0 nm] eqn:En; [discriminate|]. rewrite Hm in H. cbn [negb] in H.
    bind_inv H as ro Hro. fold ms in Hro, H.
    split; [eapply def_loop_all_ok; exact Hro|].
    pose proof (def_loop_last _ _ _ _ _ _ _ Hro) as HL.
    assert (Ho : fst o = match ro with Some v => [v] | None => def_default diff (Def h mws a) end).
    { destruct ro as [v|]; [injection H as E; subst; reflexivity|]. unfold def_default.
      destruct (negb diff && negb (odeprecated (Def h mws a))); injection H as E; subst; reflexivity. }
    destruct ms as [|s0 r]; [subst ro; exact Ho|]. exists ro. split; [exact HL|exact Ho].
  Qed.

  Theorem def_rule_error : forall diff allks chain i h mws a rec srcs front s rest,
    omultiple (Def h mws a) = false -> get_attr (s_ "alias") a = ANone -> oname h <> [] ->
    match_sources (oname h) srcs = front ++ s :: rest ->
    Forall (fun s => exists y, def_fetch env canon diff h mws a s = Ok y) front ->
    (forall y, def_fetch env canon diff h mws a s <> Ok y) ->
    fetch_one env canon diff allks chain i (Def h mws a) rec srcs =
    (do y <- def_fetch env canon diff h mws a s; Ok ([], [])).
  Proof.
    intros diff allks chain i h mws a rec srcs front s rest Hm Ha Hn E Hf Hs.
    unfold fetch_one. cbn [oattrs ohdr]. rewrite Ha. destruct (oname h) as [|c0 nm] eqn:En; [congruence|].
    rewrite Hm. cbn [negb]. rewrite E. rewrite def_loop_first_error by assumption.
    destruct (def_fetch env canon diff h mws a s) as [y| |]; [exfalso; eapply Hs; reflexivity|reflexivity|reflexivity].
  Qed.

  (* without diff the value of a definition is the master's header and attributes around the
     words definition.fetch_value computes from the source's words (fetch_value master last) *)
  Lemma def_fetch_nodiff : forall h mws a s,
    def_fetch env canon false h mws a s = def_fetch_value env false h mws a s.
  Proof. reflexivity. Qed.

  (* ---------------------------------------------------------------- non-multiple scopes *)
  Theorem scope_rule : forall diff allks chain i h ks a rec srcs o,
    omultiple (Scp h ks a) = false ->
    fetch_one env canon diff allks chain i (Scp h ks a) rec srcs = Ok o ->
    let ms := match_sources (oname h) srcs in
    Forall (fun s => is_def (lobj s) = false) ms /\
    exists oc, rec (flat_map src_kids ms) = Ok oc /\
               fst o = if diff && null_objs (fst oc) then [] else [scopy h a (fst oc)].
  Proof.
    intros diff allks chain i h ks a rec srcs o Hm H ms. unfold fetch_one in H. cbn [oattrs ohdr] in H.
    destruct (get_attr (s_ "alias") a); try discriminate.
    destruct (oname h) as [|c0 nm] eqn:En; [discriminate|]. rewrite Hm in H. cbn [negb] in H.
    bind_inv H as comb Hc. fold ms in Hc. bind_inv H as oc Hoc.
    assert (Hcomb : Forall (fun s => is_def (lobj s) = false) ms /\ comb = flat_map src_kids ms).
    { clear -Hc. revert comb Hc. induction ms as [|s r IH]; intros comb Hc.
      - cbn in Hc. injection Hc as E. subst. split; [constructor|reflexivity].
      - cbn [combine] in Hc. destruct (is_def (lobj s)) eqn:Ed; [discriminate|]. bind_inv Hc as rest Hr.
        injection Hc as E. subst. destruct (IH _ Hr) as [A B]. subst. split; [constructor; assumption|reflexivity]. }
    destruct Hcomb as [Hall E]. subst comb. split; [exact Hall|]. exists oc. split; [exact Hoc|].
    destruct (diff && null_objs (fst oc)); injection H as E; subst; reflexivity.
  Qed.

  (* ---------------------------------------------------------------- multiple entries *)
  (* the candidates with their canonical texts, evaluated in order *)
  Fixpoint eval_cands (k:obj) (rec:list lsrc -> res fout) (cands:list (bool * lsrc))
    : res (list (str * option obj)) :=
    match cands with
    | [] => Ok []
    | (_, s) :: r =>
        do cc <- cand_fetch env canon false k rec s;
        do cs <- canon k (fst cc);
        do rest <- eval_cands k rec r;
        Ok ((cs, fst cc) :: rest)
    end.

  (* "if candidate_as_str == master_as_str: continue" *)
  Definition differing (mas:str) (l:list (str * option obj)) : list (str * option obj) :=
    filter (fun x => negb (eqs (fst x) mas)) l.

  Definition pd_ok (pre:list (str * option obj)) (pd:pdict) : Prop :=
    forall key, pget key pd = option_map Some (lastidx key pre).

  Lemma pd_ok_nil_iff : forall pre pd, pd_ok pre pd -> (pd = [] <-> pre = []).
  Proof.
    intros pre pd H. split; intros E; subst.
    - destruct pre as [|x r]; [reflexivity|]. exfalso. specialize (H (fst x)). cbn [pget] in H.
      assert (lastidx (fst x) (x :: r) <> None).
      { intros N. apply lastidx_none in N. unfold has_key in N. cbn in N. rewrite f_eqs_refl in N. discriminate. }
      destruct (lastidx (fst x) (x :: r)); [discriminate|congruence].
    - destruct pd as [|[k v] pd]; [reflexivity|]. exfalso. specialize (H k). cbn in H. rewrite f_eqs_refl in H. discriminate.
  Qed.

  Lemma mult_loop_spec : forall k rec mas cands pre pd robjs used,
    pd_ok pre pd -> robjs = mark pre ->
    rmap (fun st : pdict * list (option obj) * list pos =>
            (match fst (fst st) with [] => true | _ => false end, snd (fst st)))
         (mult_loop env canon false k rec mas cands pd robjs used)
    = rmap (fun kl => (match pre ++ differing mas kl with [] => true | _ => false end,
                       mark (pre ++ differing mas kl)))
           (eval_cands k rec cands).
  Proof.
    intros k rec mas cands. induction cands as [|[fm s] r IH]; intros pre pd robjs used Hpd Hr.
    - cbn [mult_loop eval_cands rmap fst snd differing filter]. rewrite app_nil_r. subst robjs. f_equal. f_equal.
      cbn. destruct (pd_ok_nil_iff _ _ Hpd) as [A B]. destruct pd; destruct pre; try reflexivity.
      + discriminate (A eq_refl).
      + discriminate (B eq_refl).
    - cbn [mult_loop eval_cands]. destruct (cand_fetch env canon false k rec s) as [[cand u]| |]; cbn [bind fst snd]; [|reflexivity|reflexivity].
      unfold diff_skip. cbn [andb].
      destruct (canon k cand) as [cs| |]; cbn [bind]; [|reflexivity|reflexivity].
      destruct (eqs cs mas) eqn:Em.
      + rewrite (IH pre pd robjs _ Hpd Hr).
        destruct (eval_cands k rec r) as [kl| |]; cbn [bind rmap]; [|reflexivity|reflexivity].
        unfold differing. cbn [filter fst]. rewrite Em. cbn [negb]. reflexivity.
      + assert (Hg : pget cs pd = option_map Some (lastidx cs pre)) by apply Hpd.
        assert (Hstep : forall used',
          rmap (fun st : pdict * list (option obj) * list pos =>
                  (match fst (fst st) with [] => true | _ => false end, snd (fst st)))
               (mult_loop env canon false k rec mas r
                  (pset cs (Some (length (match lastidx cs pre with Some i => set_none i robjs | None => robjs end))) pd)
                  ((match lastidx cs pre with Some i => set_none i robjs | None => robjs end) ++ [cand]) used')
          = rmap (fun kl => (match (pre ++ [(cs, cand)]) ++ differing mas kl with [] => true | _ => false end,
                             mark ((pre ++ [(cs, cand)]) ++ differing mas kl)))
                 (eval_cands k rec r)).
        { intros used'. apply IH.
          - intros key. rewrite lastidx_app.
            assert (Hlen : length (match lastidx cs pre with Some i => set_none i robjs | None => robjs end) = length pre).
            { subst robjs. destruct (lastidx cs pre); [rewrite set_none_length|]; apply mark_length. }
            rewrite Hlen. destruct (eqs cs key) eqn:Ek.
            + apply f_eqs_eq in Ek. subst key. rewrite pget_pset_same. reflexivity.
            + rewrite pget_pset_other by (apply f_eqs_neq; rewrite f_eqs_sym; exact Ek). apply Hpd.
          - subst robjs. rewrite mark_app. reflexivity. }
        assert (Hfin : rmap (fun kl => (match (pre ++ [(cs, cand)]) ++ differing mas kl with [] => true | _ => false end,
                                        mark ((pre ++ [(cs, cand)]) ++ differing mas kl)))
                            (eval_cands k rec r)
                     = rmap (fun kl => (match pre ++ differing mas kl with [] => true | _ => false end,
                                        mark (pre ++ differing mas kl)))
                            (do rest <- eval_cands k rec r; Ok ((cs, cand) :: rest))).
        { destruct (eval_cands k rec r) as [kl| |]; cbn [bind rmap]; [|reflexivity|reflexivity].
          unfold differing. cbn [filter fst]. rewrite Em. cbn [negb]. rewrite <- app_assoc. reflexivity. }
        rewrite <- Hfin. rewrite Hg. destruct (lastidx cs pre) as [i|]; cbn [option_map]; apply Hstep.
  Qed.

  (* is_template of the template copy, from the list of differing candidates *)
  Definition tmpl_of (k:obj) (l:list (str * option obj)) : obj :=
    set_hdr k (with_tmpl (ohdr k) (if mandatory (ooptional k) then 0%Z else match l with [] => 1%Z | _ => (-1)%Z end)).

  (* the candidates of a multiple entry: further master occurrences, then the sources, in order *)
  Definition candidates (allks:list obj) (chain:ctx) (i:nat) (k:obj) (srcs:list lsrc) : list (bool * lsrc) :=
    map (pair true) (self_matching allks chain i (oname (ohdr k))) ++ map (pair false) (match_sources (oname (ohdr k)) srcs).

  Theorem multiple_rule : forall allks chain i k rec srcs,
    omultiple k = true -> get_attr (s_ "alias") (oattrs k) = ANone -> oname (ohdr k) <> [] ->
    rmap fst (fetch_one env canon false allks chain i k rec srcs) =
    (do mas <- canon k None;
     do kl <- eval_cands k rec (candidates allks chain i k srcs);
     Ok (tmpl_of k (differing mas kl) :: somes (map snd (dedupe_keep_last (differing mas kl))))).
  Proof.
    intros allks chain i k rec srcs Hm Ha Hn. unfold fetch_one. rewrite Ha.
    destruct (oname (ohdr k)) as [|c0 nm] eqn:En; [congruence|]. rewrite Hm. cbn [negb].
    destruct (canon k None) as [mas| |]; cbn [bind rmap]; [|reflexivity|reflexivity].
    pose proof (mult_loop_spec k rec mas (candidates allks chain i k srcs) [] [] [] []) as S.
    unfold candidates in *. rewrite En in *. cbn [app] in S.
    assert (P : pd_ok [] []) by (intros key; reflexivity). specialize (S P eq_refl).
    destruct (mult_loop env canon false k rec mas
                (map (pair true) (self_matching allks chain i (c0 :: nm)) ++ map (pair false) (match_sources (c0 :: nm) srcs)) [] [] [])
      as [[[pd robjs] used]| |];
      destruct (eval_cands k rec
                  (map (pair true) (self_matching allks chain i (c0 :: nm)) ++ map (pair false) (match_sources (c0 :: nm) srcs)))
      as [kl| |]; cbn [rmap bind fst snd] in *; try discriminate; try congruence.
    injection S as S1 S2. subst robjs. rewrite somes_mark. f_equal. f_equal.
    unfold template_of, tmpl_of. f_equal. f_equal. destruct (mandatory (ooptional k)); [reflexivity|].
    destruct pd; destruct (differing mas kl); try discriminate; reflexivity.
  Qed.

  (* a candidate whose canonical text differs from the master's is an object (never the "no value"
     of an unchanged deprecated definition): the instances are exactly the deduplicated candidates *)
  Lemma eval_cands_some : forall k rec mas cands kl x,
    canon k None = Ok mas -> eval_cands k rec cands = Ok kl -> In x (differing mas kl) -> snd x <> None.
  Proof.
    intros k rec mas cands. induction cands as [|[fm s] r IH]; intros kl x Hmas H Hx.
    - cbn in H. injection H as E. subst. destruct Hx.
    - cbn [eval_cands] in H. bind_inv H as cc Hcc. bind_inv H as cs Hcs. bind_inv H as rest Hrest. injection H as E. subst kl.
      unfold differing in Hx. cbn [filter fst] in Hx. destruct (eqs cs mas) eqn:Em; cbn [negb] in Hx.
      + eapply IH; eassumption.
      + destruct Hx as [Hx|Hx]; [|eapply IH; eassumption]. subst x. cbn [snd]. intros N. rewrite N in Hcs.
        rewrite Hmas in Hcs. injection Hcs as E. subst. rewrite f_eqs_refl in Em. discriminate.
  Qed.

  Lemma somes_all_some : forall (l:list (str * option obj)),
    (forall x, In x l -> snd x <> None) -> map Some (somes (map snd l)) = map snd l.
  Proof.
    induction l as [|x r IH]; intros H; [reflexivity|]. cbn [map somes].
    destruct (snd x) as [o|] eqn:E; [|exfalso; eapply H; [left; reflexivity|exact E]].
    cbn [somes map]. f_equal. apply IH. intros y Hy. apply H. right. exact Hy.
  Qed.

  Theorem multiple_instances_exact : forall k rec mas cands kl,
    canon k None = Ok mas -> eval_cands k rec cands = Ok kl ->
    map Some (somes (map snd (dedupe_keep_last (differing mas kl)))) = map snd (dedupe_keep_last (differing mas kl)).
  Proof.
    intros k rec mas cands kl Hmas H. apply somes_all_some. intros x Hx.
    eapply eval_cands_some; [exact Hmas|exact H|].
    apply dedupe_In in Hx. destruct Hx as [l1 [l2 [E _]]]. rewrite E. apply in_or_app. right. left. reflexivity.
  Qed.

  (* is_template of the template copy: 0 exactly when .optional is set and false; otherwise +1
     without instances, -1 with instances (extract skips it in either case) *)
  Theorem template_flag : forall k l,
    otmpl (ohdr (tmpl_of k l)) = 0%Z <-> mandatory (ooptional k) = true.
  Proof.
    intros k l. unfold tmpl_of. destruct k as [h ws a|h ks a]; cbn; destruct (mandatory _); split; intros H; try reflexivity; try discriminate;
      destruct l; discriminate.
  Qed.
End Rules.
