(* C16 for the converter model (Model/Conv.v): which internal errors (Crash) from_words / as_words of
   the bool / int / float / ints / floats converters can end in, and that none occurs on sane input.
   Every call returns: all model functions are structural recursions (the bracket loop's fuel is
   shown sufficient in ConvList.v and has no fuel-exhaustion outcome).

   from_words_crash_kinds (no hypothesis): a Crash of from_words is
     - "AssertionError": bool_from_words on an empty word list (assert len(words) > 0), or
     - "IndexError": words[0].where_str() of an error message on an empty word list, or
     - "OracleMissing": the eval oracle has no answer for some string (harness artefact), or
     - "NotBinary64": an int / ints converter whose value_min / value_max is a finite float of more
       than 4300 integer digits - no binary64 value is (model guard of "%d" % float, see Conv.fmt_d).
   Never: OverflowError / ValueError (round, float(int), "%d", "%.10g"), TypeError, KeyError.

   from_words_total: non-empty word list, total oracle, sane bounds => Ok or UErr, for every
   constructor-argument combination (bounds may be inf / nan / huge ints).

   as_words_crash_kinds / as_words_total: the same for as_words; the only TypeError sites are ill-typed
   values (a list for a scalar type, a number for a list type, a nested list element).  A None / Auto
   list element is written whatever the bounds (the element's bound check follows the None / Auto
   tests since repair 2de8c99; before it, None >= bound raised TypeError), see as_words_none_element_ok. *)
From Coq Require Import List Ascii String Bool Arith ZArith Lia.
From Phil Require Import Base Conv ConvProofs.
Import ListNotations.
Local Open Scope char_scope.

Definition ok_res {A} (r:res A) : Prop := match r with Crash _ => False | _ => True end.

Lemma bind_crash {A B} (r:res A) (f:A -> res B) c :
  bind r f = Crash c -> r = Crash c \/ exists a, r = Ok a /\ f a = Crash c.
Proof. destruct r; cbn; intro H; [right; exists a; auto | discriminate | left; injection H as ->; reflexivity]. Qed.

Lemma map_res_crash {A B} (f:A -> res B) l c :
  map_res f l = Crash c -> exists a, In a l /\ f a = Crash c.
Proof.
  induction l as [|a l IH]; cbn; intro H; [discriminate|].
  apply bind_crash in H as [H|(b & _ & H)]; [exists a; auto|].
  apply bind_crash in H as [H|(bs & _ & H)]; [|discriminate].
  destruct (IH H) as (a' & Hin & Ha). exists a'; auto.
Qed.

Definition c_assert : str := s_ "AssertionError".
Definition c_index : str := s_ "IndexError".
Definition c_oracle : str := s_ "OracleMissing".
Definition c_b64 : str := s_ "NotBinary64".
Definition c_type : str := s_ "TypeError".

(* ---------------------------------------------------------------- sanity of numbers *)
(* a finite float has at most 4300 integer digits (every binary64 value has at most 309) *)
Definition num_sane (n:num) : bool :=
  match n with NFlt m e => negb (too_many_digits (flt_trunc m e)) | _ => true end.
Definition onum_sane (o:option num) : bool := match o with Some n => num_sane n | None => true end.
Definition bounds_sane (t:cty) : bool :=
  match t with
  | CInt c => onum_sane (vmin c) && onum_sane (vmax c)
  | CInts c => onum_sane (lvmin c) && onum_sane (lvmax c)
  | _ => true
  end.

Lemma intlike_sane n : intlike n -> num_sane n = true.
Proof. destruct n; cbn; intro H; try contradiction; reflexivity. Qed.

Lemma fmt_d_ok_crash n c : fmt_d_ok n = Crash c -> c = c_b64 /\ num_sane n = false.
Proof.
  destruct n; cbn; try discriminate. destruct (too_many_digits _); [|discriminate].
  intro H; injection H as <-. auto.
Qed.
Lemma value_fmt_ok_crash isint n c :
  value_fmt_ok isint n = Crash c -> c = c_b64 /\ isint = true /\ num_sane n = false.
Proof.
  unfold value_fmt_ok. destruct isint; [|discriminate]. intro H. apply fmt_d_ok_crash in H as []. auto.
Qed.

(* ---------------------------------------------------------------- error sites *)
Lemma err_at_crash {A} ws k t c : @err_at A ws k t = Crash c -> c = c_index /\ ws = [].
Proof. destruct ws; cbn; [|discriminate]. intro H; injection H as <-. auto. Qed.
Lemma err_at_opt_crash {A} ows k t c :
  @err_at_opt A ows k t = Crash c -> c = c_index /\ ows = Some [].
Proof.
  destruct ows as [ws|]; cbn; [|discriminate]. intro H. apply err_at_crash in H as [-> ->]. auto.
Qed.

Lemma bound_err_crash isint k v b ows c :
  bound_err isint k v b ows = Crash c ->
  (c = c_index /\ ows = Some []) \/
  (c = c_b64 /\ isint = true /\ (num_sane v = false \/ num_sane b = false)).
Proof.
  unfold bound_err. intro H.
  apply bind_crash in H as [H|(? & _ & H)]; [apply value_fmt_ok_crash in H as (-> & -> & E); auto|].
  apply bind_crash in H as [H|(? & _ & H)]; [apply value_fmt_ok_crash in H as (-> & -> & E); auto|].
  apply err_at_opt_crash in H. auto.
Qed.

Lemma check_value_crash isint lo hi v ows c :
  check_value isint lo hi v ows = Crash c ->
  (c = c_index /\ ows = Some []) \/
  (c = c_b64 /\ isint = true /\ (num_sane v = false \/ onum_sane lo = false \/ onum_sane hi = false)).
Proof.
  unfold check_value. intro H. apply bind_crash in H as [H|(? & _ & H)].
  - destruct lo as [b|]; [|discriminate]. destruct (negb _); [|discriminate].
    apply bound_err_crash in H as [H|(-> & -> & [E|E])]; cbn; auto 10.
  - destruct hi as [b|]; [|discriminate]. destruct (negb _); [|discriminate].
    apply bound_err_crash in H as [H|(-> & -> & [E|E])]; cbn; auto 10.
Qed.

Lemma check_size_crash lo hi size ows c :
  check_size lo hi size ows = Crash c -> c = c_index /\ ows = Some [].
Proof.
  unfold check_size. intro H. apply bind_crash in H as [H|(? & _ & H)].
  - destruct hi; [|discriminate]. destruct (_ <? _)%Z; [|discriminate]. eapply err_at_opt_crash; eassumption.
  - destruct lo; [|discriminate]. destruct (_ <? _)%Z; [|discriminate]. eapply err_at_opt_crash; eassumption.
Qed.

Lemma x_from_number_crash isint x ws c : x_from_number isint x ws = Crash c -> c = c_index /\ ws = [].
Proof.
  destruct isint; cbn.
  - destruct x as [| |[z|m e| |neg| |b]|]; cbn; try discriminate; try apply err_at_crash.
    destruct (flt_integral m e); [discriminate | apply err_at_crash].
  - destruct x as [| |[z|m e| |neg| |b]|]; cbn; try discriminate; try apply err_at_crash.
    destruct (float_of_Z z); try discriminate; apply err_at_crash.
Qed.

(* ================================================================ from_words *)
Section FromWords.
  Variable pyeval : str -> option evr.

  Definition fw_crash (t:cty) (ws:list word) (c:str) : Prop :=
    (c = c_assert /\ t = CBool /\ ws = []) \/
    (c = c_index /\ ws = []) \/
    (c = c_oracle /\ exists s, pyeval s = None) \/
    (c = c_b64 /\ bounds_sane t = false).

  (* the three kinds common to the numeric paths; [sane] is the relevant bounds test *)
  Definition nw_crash (sane:bool) (ws:list word) (c:str) : Prop :=
    (c = c_index /\ ws = []) \/ (c = c_oracle /\ exists s, pyeval s = None) \/ (c = c_b64 /\ sane = false).

  Lemma nfvs_crash sane vs ws c : number_from_value_string pyeval vs ws = Crash c -> nw_crash sane ws c.
  Proof.
    unfold number_from_value_string. destruct vs as [| |s]; try discriminate.
    destruct (mems _ _); [intro H; apply err_at_crash in H; left; exact H|].
    destruct (eqs _ none_s); [discriminate|]. destruct (eqs _ auto_s); [discriminate|].
    destruct (py_int_of_str s); [discriminate|].
    destruct (pyeval s) as [[n| | | |]|] eqn:E; try discriminate.
    - intro H; apply err_at_crash in H; left; exact H.
    - intro H; injection H as <-. right; left. split; [reflexivity|eauto].
  Qed.

  Lemma x_from_words_crash sane isint ws c : x_from_words pyeval isint ws = Crash c -> nw_crash sane ws c.
  Proof.
    unfold x_from_words, number_from_words. intro H. apply bind_crash in H as [H|(r & _ & H)].
    - eapply nfvs_crash; eassumption.
    - destruct r as [| |n|]; try discriminate;
        (apply bind_crash in H as [H|(? & _ & H)]; [apply x_from_number_crash in H; left; exact H | discriminate]).
  Qed.

  Lemma check_value_nw isint lo hi v ws c :
    numlike isint v -> check_value isint lo hi v (Some ws) = Crash c ->
    nw_crash (negb isint || (onum_sane lo && onum_sane hi)) ws c.
  Proof.
    intros Hn H. apply check_value_crash in H as [[-> E]|(-> & -> & E)].
    - injection E as ->. left; auto.
    - right; right. split; [reflexivity|]. cbn in Hn. rewrite (intlike_sane v Hn) in E.
      cbn. destruct E as [E|[E|E]]; [discriminate| rewrite E; reflexivity | rewrite E; apply andb_false_r].
  Qed.

  Lemma number_conv_crash isint c ws k :
    number_conv_from_words pyeval isint c ws = Crash k ->
    nw_crash (negb isint || (onum_sane (vmin c) && onum_sane (vmax c))) ws k.
  Proof.
    unfold number_conv_from_words. intro H. apply bind_crash in H as [H|(r & Hr & H)].
    - eapply x_from_words_crash; eassumption.
    - destruct r as [| |n].
      + destruct (allow_none c); discriminate.
      + discriminate.
      + apply bind_crash in H as [H|(? & _ & H)]; [|discriminate].
        eapply check_value_nw; [|eassumption]. eapply x_from_words_numlike; eassumption.
  Qed.

  Lemma conv_elem_crash isint c ws x k :
    conv_elem isint c ws x = Crash k ->
    nw_crash (negb isint || (onum_sane (lvmin c) && onum_sane (lvmax c))) ws k.
  Proof.
    assert (G : forall x', (do n <- x_from_number isint x' ws;
                            do _ <- check_value isint (lvmin c) (lvmax c) n (Some ws); Ok (PNum n)) = Crash k ->
                           nw_crash (negb isint || (onum_sane (lvmin c) && onum_sane (lvmax c))) ws k).
    { intros x' H. apply bind_crash in H as [H|(n & Hn & H)]; [apply x_from_number_crash in H; left; exact H|].
      apply bind_crash in H as [H|(? & _ & H)]; [|discriminate].
      eapply check_value_nw; [|eassumption]. eapply x_from_number_numlike; eassumption. }
    unfold conv_elem. destruct x as [| |n|].
    - destruct (none_el c); [discriminate|]. intro H; apply err_at_crash in H; left; exact H.
    - destruct (auto_el c); [discriminate|]. intro H; apply err_at_crash in H; left; exact H.
    - apply G.
    - apply G.
  Qed.

  Lemma numbers_conv_crash isint c ws k :
    numbers_conv_from_words pyeval isint c ws = Crash k ->
    nw_crash (negb isint || (onum_sane (lvmin c) && onum_sane (lvmax c))) ws k.
  Proof.
    unfold numbers_conv_from_words, numbers_from_words. intro H. apply bind_crash in H as [H|(r & Hr & H)].
    - destruct (str_from_words ws); try discriminate.
      apply bind_crash in H as [H|(? & _ & H)]; [|discriminate].
      unfold numbers_of_text in H. apply map_res_crash in H as (v & _ & H). eapply nfvs_crash; eassumption.
    - destruct r as [| |l]; try discriminate.
      apply bind_crash in H as [H|(? & _ & H)].
      + apply check_size_crash in H as [-> E]. injection E as ->. left; auto.
      + apply bind_crash in H as [H|(? & _ & H)]; [|discriminate].
        apply map_res_crash in H as (x' & _ & H). eapply conv_elem_crash; eassumption.
  Qed.

  Lemma nw_fw sane t ws c : (sane = false -> bounds_sane t = false) -> nw_crash sane ws c -> fw_crash t ws c.
  Proof. intros S [H|[H|[-> E]]]; unfold fw_crash; [right; left; exact H | right; right; left; exact H | right; right; right; auto]. Qed.

  Theorem from_words_crash_kinds t ws c : from_words pyeval t ws = Crash c -> fw_crash t ws c.
  Proof.
    destruct t as [|n|n|l|l]; cbn [from_words]; intro H.
    - left. unfold bool_from_words in H. destruct (str_from_words ws); try discriminate.
      destruct (mems _ falses); [discriminate|]. destruct (mems _ trues); [discriminate|].
      destruct ws; [|discriminate]. injection H as <-. auto.
    - apply number_conv_crash in H. eapply nw_fw; [|eassumption]. cbn. auto.
    - apply number_conv_crash in H. eapply nw_fw; [|eassumption]. cbn. discriminate.
    - apply numbers_conv_crash in H. eapply nw_fw; [|eassumption]. cbn. auto.
    - apply numbers_conv_crash in H. eapply nw_fw; [|eassumption]. cbn. discriminate.
  Qed.

  (* the eval oracle answers every string it is asked *)
  Definition oracle_total : Prop := forall s, pyeval s <> None.

  Theorem from_words_total t ws :
    ws <> [] -> oracle_total -> bounds_sane t = true -> ok_res (from_words pyeval t ws).
  Proof.
    intros Hw Ho Hb. destruct (from_words pyeval t ws) eqn:E; cbn; auto.
    apply from_words_crash_kinds in E as [(_ & _ & W)|[(_ & W)|[(_ & s & W)|(_ & W)]]].
    - contradiction.
    - contradiction.
    - exact (Ho s W).
    - congruence.
  Qed.

  (* float / floats / bool need no hypothesis on the constructor arguments at all *)
  Corollary from_words_total_float t ws :
    match t with CInt _ | CInts _ => False | _ => True end ->
    ws <> [] -> oracle_total -> ok_res (from_words pyeval t ws).
  Proof. intros Ht Hw Ho. apply from_words_total; auto. destruct t; cbn in *; auto; contradiction. Qed.
End FromWords.

(* ================================================================ as_words *)
(* the Python value has the type the converter writes: anything for bool; None / Auto / a number for
   int and float; None / Auto / a list of numbers, None and Auto for ints and floats *)
Definition elem_typed (e:pyv) : bool := match e with PList _ => false | _ => true end.
Definition typed (t:cty) (v:pyv) : bool :=
  match t with
  | CBool => true
  | CInt _ | CFloat _ => match v with PList _ => false | _ => true end
  | CInts _ | CFloats _ =>
      match v with PNum _ => false | PList l => forallb elem_typed l | _ => true end
  end.
Definition pyv_sane (v:pyv) : bool := match v with PNum n => num_sane n | _ => true end.
Definition value_sane (t:cty) (v:pyv) : bool :=
  match t with
  | CInt _ | CInts _ =>
      bounds_sane t && match v with PList l => forallb pyv_sane l | _ => pyv_sane v end
  | _ => true
  end.

Lemma forallb_false_in {A} (p:A -> bool) l a : In a l -> p a = false -> forallb p l = false.
Proof.
  intros Hin Hp. destruct (forallb p l) eqn:E; [|reflexivity].
  rewrite forallb_forall in E. rewrite (E a Hin) in Hp. discriminate.
Qed.

Section AsWords.
  Variable fmt10g : num -> option str.

  Definition aw_crash (t:cty) (v:pyv) (c:str) : Prop :=
    (c = c_type /\ typed t v = false) \/
    (c = c_oracle /\ exists f, fmt10g f = None) \/
    (c = c_b64 /\ value_sane t v = false).

  Lemma fmt_d_crash n c : fmt_d n = Crash c -> c = c_b64 /\ num_sane n = false.
  Proof.
    destruct n; cbn; try discriminate. destruct (too_many_digits _); [|discriminate].
    intro H; injection H as <-. auto.
  Qed.

  Lemma fmt_g_crash n c : fmt_g fmt10g n = Crash c -> c = c_oracle /\ exists f, fmt10g f = None.
  Proof.
    unfold fmt_g. destruct n as [z|m e| |neg| |b].
    - destruct (float_of_Z z) as [f| |]; try discriminate.
      destruct (fmt10g f) eqn:E; [discriminate|]. intro H; injection H as <-. eauto.
    - cbn. destruct (fmt10g _) eqn:E; [discriminate|]. intro H; injection H as <-. eauto.
    - cbn. destruct (fmt10g _) eqn:E; [discriminate|]. intro H; injection H as <-. eauto.
    - cbn. destruct (fmt10g _) eqn:E; [discriminate|]. intro H; injection H as <-. eauto.
    - cbn. destruct (fmt10g _) eqn:E; [discriminate|]. intro H; injection H as <-. eauto.
    - cbn. destruct (fmt10g _) eqn:E; [discriminate|]. intro H; injection H as <-. eauto.
  Qed.

  Lemma value_as_str_crash isint n c :
    value_as_str fmt10g isint n = Crash c ->
    (c = c_oracle /\ exists f, fmt10g f = None) \/ (c = c_b64 /\ isint = true /\ num_sane n = false).
  Proof.
    unfold value_as_str. destruct isint; intro H.
    - apply fmt_d_crash in H as []. auto.
    - apply fmt_g_crash in H. auto.
  Qed.

  Lemma number_conv_as_words_crash isint c v k :
    number_conv_as_words fmt10g isint c v = Crash k ->
    (k = c_type /\ exists l, v = PList l) \/
    (k = c_oracle /\ exists f, fmt10g f = None) \/
    (k = c_b64 /\ isint = true /\
       (pyv_sane v = false \/ onum_sane (vmin c) = false \/ onum_sane (vmax c) = false)).
  Proof.
    unfold number_conv_as_words. intro H. destruct v as [| |n|l]; cbv iota beta in H.
    - revert H. destruct (allow_none c); discriminate.
    - discriminate.
    - apply bind_crash in H. destruct H as [H|(u & _ & H)].
      + apply check_value_crash in H as [[_ E]|(-> & -> & E)]; [discriminate|]. right; right. cbn. auto.
      + apply bind_crash in H. destruct H as [H|(s & _ & H)]; [|discriminate H].
        apply value_as_str_crash in H as [H|(-> & -> & E)]; auto. right; right. cbn. auto.
    - injection H as <-. left. eauto.
  Qed.

  Lemma elem_as_word_crash isint c e k :
    elem_as_word fmt10g isint c e = Crash k ->
    (k = c_type /\ elem_typed e = false) \/
    (k = c_oracle /\ exists f, fmt10g f = None) \/
    (k = c_b64 /\ isint = true /\ (pyv_sane e = false \/ onum_sane (lvmin c) = false \/ onum_sane (lvmax c) = false)).
  Proof.
    unfold elem_as_word, check_value_py, elem_typed. intro H. destruct e as [| |n|l]; cbv iota beta in H.
    - revert H. destruct (none_el c); discriminate.
    - revert H. destruct (auto_el c); discriminate.
    - apply bind_crash in H. destruct H as [H|(u & _ & H)].
      + apply check_value_crash in H as [[_ E]|(-> & -> & E)]; [discriminate|]. right; right. cbn. auto.
      + apply bind_crash in H. destruct H as [H|(s & _ & H)]; [|discriminate H].
        apply value_as_str_crash in H as [H|(-> & -> & E)]; auto. right; right. cbn. auto.
    - injection H as <-. auto.
  Qed.

  Lemma numbers_conv_as_words_crash isint c v k :
    numbers_conv_as_words fmt10g isint c v = Crash k ->
    (k = c_type /\ match v with PNum _ => True | PList l => forallb elem_typed l = false | _ => False end) \/
    (k = c_oracle /\ exists f, fmt10g f = None) \/
    (k = c_b64 /\ isint = true /\
       (onum_sane (lvmin c) && onum_sane (lvmax c) && match v with PList l => forallb pyv_sane l | _ => true end) = false).
  Proof.
    unfold numbers_conv_as_words. destruct v as [| |n|l]; try discriminate.
    - intro H; injection H as <-. auto.
    - intro H. apply bind_crash in H as [H|(? & _ & H)]; [apply check_size_crash in H as [_ E]; discriminate|].
      apply map_res_crash in H as (e & Hin & H).
      apply elem_as_word_crash in H as [[-> E]|[H|(-> & -> & E)]]; auto.
      + left. split; [reflexivity|]. eapply forallb_false_in; eassumption.
      + right; right. split; [reflexivity|]. split; [reflexivity|].
        destruct E as [E|[E|E]].
        * rewrite (forallb_false_in pyv_sane l e Hin E). apply andb_false_r.
        * rewrite E. reflexivity.
        * rewrite E. rewrite andb_false_r. reflexivity.
  Qed.

  Theorem as_words_crash_kinds t v c : as_words fmt10g t v = Crash c -> aw_crash t v c.
  Proof.
    unfold aw_crash. destruct t as [|n|n|l|l]; cbn [as_words typed value_sane bounds_sane]; intro H.
    - unfold bool_as_words in H. destruct v; discriminate.
    - apply number_conv_as_words_crash in H as [(-> & l & ->)|[H|(-> & _ & E)]]; auto.
      right; right. split; [reflexivity|].
      destruct E as [E|[E|E]].
      + destruct v; cbn in *; try discriminate. rewrite E. apply andb_false_r.
      + rewrite E. reflexivity.
      + rewrite E. rewrite andb_false_r. reflexivity.
    - apply number_conv_as_words_crash in H as [(-> & l & ->)|[H|(-> & E & _)]]; auto.
    - apply numbers_conv_as_words_crash in H as [[-> E]|[H|(-> & _ & E)]].
      + left. split; [reflexivity|]. destruct v; try contradiction; auto.
      + right; left; exact H.
      + right; right. split; [reflexivity|].
        destruct v; cbn in *; rewrite ?andb_true_r in E; try rewrite E; try reflexivity; exact E.
    - apply numbers_conv_as_words_crash in H as [[-> E]|[H|(-> & E & _)]].
      + left. split; [reflexivity|]. destruct v; try contradiction; auto.
      + right; left; exact H.
      + discriminate.
  Qed.

  (* the "%.10g" oracle answers for every float *)
  Definition fmt_total : Prop := forall f, fmt10g f <> None.

  Theorem as_words_total t v :
    typed t v = true -> fmt_total -> value_sane t v = true -> ok_res (as_words fmt10g t v).
  Proof.
    intros Ht Ho Hs. destruct (as_words fmt10g t v) eqn:E; cbn; auto.
    apply as_words_crash_kinds in E as [(_ & W)|[(_ & f & W)|(_ & W)]].
    - congruence.
    - exact (Ho f W).
    - congruence.
  Qed.

  (* a legitimate value ([1, None] with allow_none_elements=True, [Auto, 2.5] with allow_auto_elements=True)
     is written also when the converter has a bound (former TypeError, repaired in 2de8c99) *)
  Example as_words_none_element_ok :
    as_words fmt10g (CInts (mklconv None None (Some (NInt 0)) None true false)) (PList [PNum (NInt 1); PNone])
    = Ok [uw (s_ "1"); uw (s_ "None")].
  Proof. reflexivity. Qed.
  Example as_words_none_element_typed :
    typed (CInts (mklconv None None (Some (NInt 0)) None true false)) (PList [PNum (NInt 1); PNone; PAuto]) = true.
  Proof. reflexivity. Qed.
  Example as_words_auto_element_refused :
    as_words fmt10g (CInts (mklconv None None (Some (NInt 0)) None true false)) (PList [PAuto])
    = UErr (s_ "ElementAuto") [] 0.
  Proof. reflexivity. Qed.
End AsWords.

(* non-vacuity: the hypotheses of the totality theorems are satisfiable together *)
Example from_words_total_nonvacuous :
  let pyeval := fun _ : str => Some ERaise in
  oracle_total pyeval /\ bounds_sane (CInts (mklconv (Some 2%Z) None (Some (NInf false)) (Some NNaN) true true)) = true /\
  ok_res (from_words pyeval (CInt (mknconv (Some (NInf false)) (Some (NInt (10 ^ 400))) false)) [uw (s_ "3")]).
Proof. cbv zeta. split; [intros s; discriminate|]. split; [reflexivity|]. vm_compute. exact I. Qed.

Print Assumptions from_words_crash_kinds.
Print Assumptions from_words_total.
Print Assumptions from_words_total_float.
Print Assumptions as_words_crash_kinds.
Print Assumptions as_words_total.
