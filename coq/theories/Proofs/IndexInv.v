(* C20: the invariant of the index state machine, for every operation and every history.
   fetch / extract / format / master are Section variables; every hypothesis on them is named. *)
From Coq Require Import List Ascii String Bool Arith ZArith Lia.
From Phil Require Import Base Tree Index IndexProofs.
Import ListNotations.

Lemma Forall_removelast : forall {A} (P:A -> Prop) l, Forall P l -> Forall P (removelast l).
Proof.
  intros A P l H. induction H as [|x l Hx Hl IH]; cbn; [constructor|].
  destruct l; [constructor|]. constructor; [exact Hx|exact IH].
Qed.

Lemma Forall_last : forall {A} (P:A -> Prop) l d, Forall P l -> l <> [] -> P (last l d).
Proof.
  intros A P l d H. induction H as [|x l Hx Hl IH]; intros Hn; [congruence|].
  cbn. destruct l; [exact Hx|]. apply IH. discriminate.
Qed.

Section Inv.
  Variable py : Type.
  Variable fetch : obj -> list obj -> ores obj.
  Variable extract : obj -> ores py.
  Variable format : obj -> py -> ores obj.
  Variable master : obj.
  (* the python objects on which format-then-extract is the identity (C09's domain) *)
  Variable pyok : py -> Prop.

  Notation state := (state py).
  Notation op := (op py).
  Notation out := (out py).
  Notation step := (step py fetch extract format master).
  Notation step1 := (step1 py fetch extract format master).
  Notation run := (run py fetch extract format master).
  Notation init := (init py fetch extract master).

  (* a stacked state is a (deep) copy of a former working tree: re-indexing it does not raise *)
  Definition reindexable (t:obj) : Prop := werr (index_of t) = None.

  Definition Inv (s:state) : Prop :=
    (dirty s = false -> forall p, params s = Some p -> extract (working s) = OOk p)
    /\ pidx s = widx (index_of (working s))
    /\ Forall reindexable (states s)
    /\ (forall p, params s = Some p -> pyok p)
    /\ werr (index_of (working s)) = None.

  Definition broke (o:out) : Prop := match o with OBroke _ => True | _ => False end.
  (* the operations of the property; the python object given to update_from_python is a round-trip object *)
  Definition op_ok (o:op) : Prop :=
    match o with
    | UpdateFromPython (Some p) => pyok p
    | ResetScope _ | EraseScope _ => False
    | _ => True
    end.

  (* H_fmt (C09): extracting the formatted object gives the object back *)
  Definition H_fmt : Prop := forall p t, pyok p -> format master p = OOk t -> extract t = OOk p.
  (* extraction results are round-trip objects *)
  Definition H_ext_ok : Prop := forall t p, extract t = OOk p -> pyok p.
  (* fetch results carry is_template in {-1,0,1} (common.py assigns nothing else) *)
  Definition H_tmpl : Prop := forall m srcs t, fetch m srcs = OOk t -> tmpl_okb t = true.

  Lemma Inv_mk : forall w p d st idx ms md,
    (d = false -> forall q, p = Some q -> extract w = OOk q) ->
    idx = widx (index_of w) -> Forall reindexable st -> (forall q, p = Some q -> pyok q) ->
    werr (index_of w) = None ->
    Inv (mkst w p d st idx ms md).
  Proof. intros. unfold Inv. cbn. auto. Qed.

  Theorem inv_init : forall s0, H_tmpl -> H_ext_ok -> init = OOk s0 -> Inv s0.
  Proof.
    intros s0 Ht He. unfold Index.init.
    destruct (fetch master []) as [w|e] eqn:F; [|discriminate].
    destruct (werr (build_of w)) eqn:W; [discriminate|].
    destruct (extract w) as [p|e] eqn:X; [|discriminate].
    intros H. inversion H; subst s0. clear H.
    destruct (build_of_index_of w (Ht _ _ _ F) W) as [Ei Ee].
    apply Inv_mk.
    - intros _ q Hq. inversion Hq; subst. exact X.
    - exact Ei.
    - constructor.
    - intros q Hq. inversion Hq; subst. eapply He; eauto.
    - exact Ee.
  Qed.

  (* rebuild_index either raises (OBroke) or continues with the fresh index *)
  Lemma rebuild_then_spec : forall (s:state) k,
    (exists e, rebuild_then py s k = (set_pidx py s (widx (index_of (working s))), OBroke e))
    \/ (werr (index_of (working s)) = None
        /\ rebuild_then py s k = k (set_pidx py s (widx (index_of (working s))))).
  Proof.
    intros s k. unfold rebuild_then. destruct (werr (index_of (working s))) as [e|].
    - left. exists e. reflexivity.
    - right. split; reflexivity.
  Qed.

  Ltac absurd_broke := let Hb := fresh "Hb" in intros Hb; exfalso; apply Hb; exact Logic.I.

  Lemma merge_inv : forall s u only ov,
    Inv s -> ~ broke (snd (merge py fetch master s u only ov)) -> Inv (fst (merge py fetch master s u only ov)).
  Proof.
    intros s u only ov HI. unfold merge.
    set (red := if ov then redundant py s u else []).
    destruct HI as (I1 & I2 & I3 & I4 & I5).
    destruct (fetch master _) as [new|e] eqn:F.
    - destruct (rebuild_then_spec (set_working py s new) (fun s2 => (invalidate py s2, ONone))) as [[e H]|[HW H]]; rewrite H; cbn [fst snd].
      + absurd_broke.
      + intros _. destruct s; cbn in *. apply Inv_mk; auto; intros; discriminate.
    - destruct red; cbn [fst snd].
      + intros _. destruct s; cbn in *. apply Inv_mk; auto.
      + absurd_broke.
  Qed.

  Lemma ufp_tail_inv : forall p s1,
    H_fmt ->
    Forall reindexable (states s1) -> reindexable (working s1) -> params s1 = Some p -> pyok p ->
    ~ broke (snd (ufp_tail py format master p s1)) -> Inv (fst (ufp_tail py format master p s1)).
  Proof.
    intros p s1 Hf Hst Hw Hpar Hp. unfold ufp_tail, push.
    destruct (format master p) as [t|e] eqn:Fm; cbn [fst snd].
    - destruct (rebuild_then_spec (set_working py (set_states py s1 (states s1 ++ [working s1])) t) (fun s3 => (s3, ONone))) as [[e H]|[HW H]];
        rewrite H; cbn [fst snd].
      + absurd_broke.
      + intros _. destruct s1; cbn in *. subst params. apply Inv_mk; auto.
        * intros Hd q Hq. inversion Hq; subst q. eapply Hf; eauto.
        * apply Forall_app. split; [exact Hst|]. constructor; [exact Hw|constructor].
        * intros q Hq. inversion Hq; subst q. exact Hp.
    - absurd_broke.
  Qed.

  Theorem inv_step : forall s o,
    H_fmt -> H_ext_ok ->
    Inv s -> op_ok o -> ~ broke (snd (step true s o)) -> Inv (fst (step true s o)).
  Proof.
    intros s o Hf He HI Hok. pose proof HI as (I1 & I2 & I3 & I4 & I5).
    destruct o as [u only rs|u only ov|upd cls|po| | |i|mc|path|path|path]; cbn [Index.step].
    - (* update *)
      destruct (fetch master [u]); [apply merge_inv; exact HI|intros _; exact HI].
    - apply merge_inv; exact HI.
    - intros _; exact HI.
    - (* update_from_python *)
      destruct po as [p|].
      + cbn in Hok. apply ufp_tail_inv; auto.
      + destruct (params s) as [p|] eqn:P; [|intros _; exact HI].
        apply ufp_tail_inv; auto.
    - (* push *)
      unfold push. cbn [fst snd]. intros _.
      destruct s; cbn in *. apply Inv_mk; auto.
      apply Forall_app. split; [exact I3|]. constructor; [exact I5|constructor].
    - (* pop *)
      destruct (states s) as [|x l] eqn:S; [intros _; exact HI|]. rewrite <- S. rewrite <- S in I3.
      match goal with |- context [rebuild_then py ?s2 ?k] =>
        destruct (rebuild_then_spec s2 k) as [[e H]|[HW H]]; rewrite H; cbn [fst snd] end.
      + absurd_broke.
      + intros _. destruct s; cbn in *. apply Inv_mk; auto; try (intros; discriminate).
        apply Forall_removelast. exact I3.
    - (* set_state *)
      destruct (i <? 0)%Z; [intros _; exact HI|].
      destruct (states s) as [|x l] eqn:S; [intros _; exact HI|]. rewrite <- S. rewrite <- S in I3.
      destruct (nth_error (states s) (Z.to_nat i)) as [t|]; [|intros _; exact HI].
      match goal with |- context [rebuild_then py ?s2 ?k] =>
        destruct (rebuild_then_spec s2 k) as [[e H]|[HW H]]; rewrite H; cbn [fst snd] end.
      + absurd_broke.
      + intros _. destruct s; cbn in *. apply Inv_mk; auto; intros; discriminate.
    - (* get_python_object *)
      destruct mc.
      + destruct (extract (working s)); intros _; exact HI.
      + destruct (dirty s || match params s with None => true | Some _ => false end).
        * destruct (extract (working s)) as [p|e] eqn:X; cbn [fst snd]; intros _; [|exact HI].
          destruct s; cbn in *. apply Inv_mk; auto.
          -- intros _ q Hq. inversion Hq; subst q. exact X.
          -- intros q Hq. inversion Hq; subst q. eapply He; eauto.
        * destruct (params s); intros _; exact HI.
    - intros _; exact HI.
    - destruct Hok.
    - destruct Hok.
  Qed.

  (* ---------- histories *)
  Fixpoint run_ok (ops:list op) (s:state) : Prop :=
    match ops with
    | [] => True
    | o :: r => op_ok o /\ ~ broke (snd (step true s o)) /\ run_ok r (step1 true s o)
    end.

  Theorem reachable_inv : forall ops s,
    H_fmt -> H_ext_ok -> Inv s -> run_ok ops s -> Inv (run true ops s).
  Proof.
    induction ops as [|o r IH]; intros s Hf He HI Hr; cbn; [exact HI|].
    destruct Hr as (Ho & Hb & Hr). apply IH; auto. apply inv_step; auto.
  Qed.

  Theorem reachable_from_init : forall ops s0,
    H_fmt -> H_ext_ok -> H_tmpl -> init = OOk s0 -> run_ok ops s0 -> Inv (run true ops s0).
  Proof. intros. apply reachable_inv; auto. eapply inv_init; eauto. Qed.

  (* ---------- what get_python_object hands out *)
  Definition handout_ok (s:state) (o:out) : Prop :=
    match o with
    | OPy p _ => extract (working s) = OOk p
    | ORefused e => extract (working s) = OErr e
    | _ => False
    end.

  Theorem handout : forall fx s mc,
    Inv s -> working (step1 fx s (GetPy mc)) = working s /\ handout_ok s (snd (step fx s (GetPy mc))).
  Proof.
    intros fx s mc (I1 & I2 & I3 & I4 & I5). unfold Index.step1. cbn [Index.step].
    destruct mc.
    - destruct (extract (working s)) eqn:X; cbn; auto.
    - destruct (dirty s) eqn:D; cbn [orb].
      + destruct (extract (working s)) eqn:X; cbn; auto.
      + destruct (params s) as [p|] eqn:P.
        * cbn. split; [reflexivity|]. apply I1; auto.
        * destruct (extract (working s)) eqn:X; cbn; auto.
  Qed.

  Theorem handout_reachable : forall ops s0 mc,
    H_fmt -> H_ext_ok -> H_tmpl -> init = OOk s0 -> run_ok ops s0 ->
    handout_ok (run true ops s0) (snd (step true (run true ops s0) (GetPy mc))).
  Proof. intros. apply handout. apply reachable_from_init; auto. Qed.

  (* ---------- look-ups return live objects *)
  Theorem lookup_live : forall fx s path e,
    Inv s -> snd (step fx s (GetScopeByName path)) = OEntry (Some e) ->
    forall q o, In (q, o) (objs_of e) ->
    exists pre, locate [] (working s) q = Some (o, pre) /\ join_path pre (oname (ohdr o)) = path.
  Proof.
    intros fx s path e (I1 & I2 & I3 & I4 & I5). cbn [Index.step snd]. intros H. inversion H as [H1]. clear H.
    rewrite I2 in H1. intros q o Hin. exact (index_of_good (working s) path e H1 q o Hin).
  Qed.

  (* completeness: the path of every object reindex_phil_objects reaches is found, and when no other
     position of the working tree has that path, what is found is exactly that object *)
  Theorem lookup_complete : forall fx s q o pre,
    Inv s -> visible (working s) q = true -> locate [] (working s) q = Some (o, pre) ->
    (forall q' o' pre', locate [] (working s) q' = Some (o', pre') ->
       join_path pre' (oname (ohdr o')) = join_path pre (oname (ohdr o)) -> q' = q) ->
    exists e, snd (step fx s (GetScopeByName (join_path pre (oname (ohdr o))))) = OEntry (Some e)
              /\ forall q' o', In (q', o') (objs_of e) -> q' = q /\ o' = o.
  Proof.
    intros fx s q o pre (I1 & I2 & I3 & I4 & I5) Hv Hl Hu. cbn [Index.step snd]. rewrite I2.
    destruct (index_of_unique (working s) q o pre I5 Hv Hl Hu) as [e [D H]].
    exists e. rewrite D. split; [reflexivity|exact H].
  Qed.

  (* ---------- stack discipline *)
  Lemma pop_spec : forall fx s1 l c,
    states s1 = l ++ [c] ->
    working (step1 fx s1 Pop) = c /\ states (step1 fx s1 Pop) = l.
  Proof.
    intros fx s1 l c S. unfold Index.step1. cbn [Index.step].
    destruct (states s1) as [|x r] eqn:E; [destruct l; discriminate|]. rewrite <- E.
    assert (E1 : last (states s1) (working s1) = c) by (rewrite E, S; apply last_last).
    assert (E2 : removelast (states s1) = l) by (rewrite E, S; apply removelast_last).
    match goal with |- context [rebuild_then py ?s2 ?k] =>
      destruct (rebuild_then_spec s2 k) as [[e H]|[HW H]]; rewrite H; cbn [fst snd] end;
      destruct fx; destruct s1; cbn in *; auto.
  Qed.

  Lemma push_spec : forall fx s,
    states (step1 fx s Push) = states s ++ [working s] /\ working (step1 fx s Push) = working s.
  Proof.
    intros fx s. unfold Index.step1. cbn [Index.step]. unfold push. destruct s; cbn. auto.
  Qed.

  (* a history that leaves the stack as it found it and never pops below its starting depth *)
  Inductive balanced (fx:bool) : state -> list op -> state -> Prop :=
    | bal_nil : forall s, balanced fx s [] s
    | bal_keep : forall s o l s',
        states (step1 fx s o) = states s -> balanced fx (step1 fx s o) l s' -> balanced fx s (o :: l) s'
    | bal_nest : forall s o c l1 s1 l2 s',
        states (step1 fx s o) = states s ++ [c] ->
        balanced fx (step1 fx s o) l1 s1 -> balanced fx (step1 fx s1 Pop) l2 s' ->
        balanced fx s (o :: l1 ++ Pop :: l2) s'.

  Lemma balanced_spec : forall fx s l s', balanced fx s l s' -> s' = run fx l s /\ states s' = states s.
  Proof.
    intros fx s l s' H. induction H as [s|s o l s' Hs Hb [IH1 IH2]|s o c l1 s1 l2 s' Hs Hb1 [IH1 IH2] Hb2 [IH3 IH4]].
    - split; reflexivity.
    - split; [cbn; exact IH1|congruence].
    - split.
      + unfold Index.run in *. cbn [fold_left]. rewrite fold_left_app. cbn [fold_left]. rewrite <- IH1. exact IH3.
      + rewrite IH4. rewrite Hs in IH2. destruct (pop_spec fx s1 _ _ IH2) as [_ E]. exact E.
  Qed.

  (* push_state keeps a value copy of the working tree (no library call): no hypothesis on fetch *)
  Theorem pop_restores : forall fx s l s1,
    balanced fx (step1 fx s Push) l s1 ->
    s1 = run fx (Push :: l) s
    /\ working (step1 fx s1 Pop) = working s /\ states (step1 fx s1 Pop) = states s.
  Proof.
    intros fx s l s1 B. destruct (push_spec fx s) as [Hs _].
    destruct (balanced_spec _ _ _ _ B) as [E1 E2]. rewrite Hs in E2.
    split; [exact E1|]. exact (pop_spec fx s1 _ _ E2).
  Qed.

  (* the stack operations never leave the index half-changed in a state satisfying the invariant:
     push_state calls nothing that can raise, and the tree pop_state / set_state re-index is a copy
     of a former working tree *)
  Theorem stack_ops_total : forall fx s,
    Inv s ->
    ~ broke (snd (step fx s Push)) /\ ~ broke (snd (step fx s Pop))
    /\ forall i, ~ broke (snd (step fx s (SetState i))).
  Proof.
    intros fx s (I1 & I2 & I3 & I4 & I5). split; [|split].
    - cbn [Index.step snd]. intros [].
    - cbn [Index.step]. destruct (states s) as [|x l] eqn:S; [intros []|]. rewrite <- S. rewrite <- S in I3.
      assert (Hl : reindexable (last (states s) (working s))).
      { apply Forall_last; [exact I3|]. rewrite S. discriminate. }
      unfold reindexable in Hl. unfold rebuild_then.
      destruct fx; destruct s as [w p d st ix ms md]; cbn [working set_working set_states invalidate states set_pidx] in *.
      all: rewrite Hl; intros [].
    - intros i. cbn [Index.step]. destruct (i <? 0)%Z; [intros []|].
      destruct (states s) as [|x l] eqn:S; [intros []|]. rewrite <- S. rewrite <- S in I3.
      destruct (nth_error (states s) (Z.to_nat i)) as [t|] eqn:N; [|intros []].
      assert (Ht : reindexable t).
      { rewrite Forall_forall in I3. apply I3. eapply nth_error_In. exact N. }
      unfold reindexable in Ht. unfold rebuild_then.
      destruct fx; destruct s as [w p d st ix ms md]; cbn [working set_working invalidate states set_pidx] in *.
      all: rewrite Ht; intros [].
  Qed.

  (* ---------- the same update twice *)
  Lemma merge_ONone : forall s u only ov,
    snd (merge py fetch master s u only ov) = ONone ->
    exists new,
      fetch master [prune (if ov then redundant py s u else []) only (working s); u] = OOk new
      /\ werr (index_of new) = None
      /\ fst (merge py fetch master s u only ov)
         = mkst new None true (states s) (widx (index_of new)) (mscopes s) (mdefs s).
  Proof.
    intros s u only ov. unfold merge.
    destruct (fetch master _) as [new|e] eqn:F.
    - unfold rebuild_then. cbn [working set_working].
      destruct (werr (index_of new)) eqn:W; cbn [fst snd]; [discriminate|].
      intros _. exists new. split; [reflexivity|]. split; [exact W|]. destruct s; reflexivity.
    - destruct (if ov then redundant py s u else []); cbn; discriminate.
  Qed.

  Lemma merge_ok : forall s u only (ov:bool) new,
    fetch master [prune (if ov then redundant py s u else []) only (working s); u] = OOk new ->
    working (fst (merge py fetch master s u only ov)) = new.
  Proof.
    intros s u only ov new F. unfold merge. rewrite F. unfold rebuild_then. cbn [working set_working].
    destruct (werr (index_of new)); destruct s; reflexivity.
  Qed.

  (* H_refetch: fetching the update again on top of its own result (multiples named in u pruned, as
     update does) changes nothing *)
  Definition H_refetch (s:state) (u:obj) (only:option str) (w1:obj) : Prop :=
    fetch master [prune (redundant py s u) only w1; u] = OOk w1.

  Theorem update_twice : forall fx s u only rs,
    snd (step fx s (Update u only rs)) = ONone ->
    H_refetch s u only (working (step1 fx s (Update u only rs))) ->
    working (step1 fx (step1 fx s (Update u only rs)) (Update u only rs)) = working (step1 fx s (Update u only rs)).
  Proof.
    intros fx s u only rs. unfold Index.step1, H_refetch. cbn [Index.step].
    destruct (fetch master [u]) as [v|e] eqn:V; [|cbn; discriminate].
    intros H1. destruct (merge_ONone s u only true H1) as (new & F & W & E).
    rewrite E. cbn [working]. intros R.
    apply merge_ok. cbn [working]. exact R.
  Qed.
End Inv.
