(* C19, re-parse clause with STRING-VALUED ATTRIBUTES and at EVERY attributes level >= 1.
   Domain [stree_ok w p]: dot-free names (hdr_ok), value words in words_ok, and every attribute of the class's
   list unset, or a bool attribute holding a bool, or an int attribute holding an integer (as atree_ok), or a
   string attribute (.help .caption .short_caption .style .alias) holding a string whose double-quoted form
   fits on its line at print width w under the prefix p of the object (children: p ++ two blanks) - the
   printer then writes the value as ONE word (bare when it is an identifier other than none/auto, quoted
   otherwise; a quoted word may contain newlines) and textwrap is not reached.  A wrapped text does not
   re-parse to the same attribute value (runs of blanks / newlines come back as one blank: [wrapped_differs]).
   Results, for every level lvl >= 1, every width, every blank prefix:
     [show_objs_ltxts]      the text is [ltxts lvl w p l] (one line per visible attribute),
     [parse_show_levels]    the text parses, and the tree is [eraseL lvl] of the printed tree: same names,
                            nesting, order, words, and the attributes visible at lvl (class order, set ones),
     [eraseL_2_3]           the trees of level 2 and level 3 are the same tree, attributes included. *)
From Coq Require Import List Ascii String Bool Arith ZArith Lia.
From Phil Require Import Base Tokenizer Tree Parser Show QuoteProofs LexProofs ParserTotal ParserLayout
                         ShowProofs ShowErase WordsRoundtrip TreeRoundtrip ShowReparse.
Import ListNotations.
Local Open Scope char_scope.

(* ====================================================================================== *)
(* 1. the printed word of an attribute value                                                *)
(* ====================================================================================== *)

Definition quoted_needed (s:str) : bool :=
  negb (is_ident s) || eqs (lowers s) (s_ "none") || eqs (lowers s) (s_ "auto").
Definition rw (v:aval) : word :=
  match v with
  | AStr s => mkword s (if quoted_needed s then Q2 else QN) 0
  | _ => vw v
  end.
Definition aline (p n:str) (v:aval) : str := line (p ++ s_ "  ." ++ n ++ s_ " = " ++ str_of_word (rw v)).
Definition alines (lvl:Z) (p:str) (ns:list str) (a:attrs) : str :=
  flat_map (fun n => if attr_visible n (get_attr n a) lvl then aline p n (get_attr n a) else []) ns.

Definition str_fits (w:Z) (p n s:str) : bool :=
  (zlen (p ++ spaces (3 + length n + 3)) + zlen (quote_str Q2 s) <? w)%Z.
Definition aval_fits (w:Z) (p n:str) (v:aval) : bool :=
  match v with AStr s => str_fits w p n s | _ => true end.

Lemma escape_len : forall q s, length s <= length (escape q s).
Proof.
  intros q; induction s as [|c r IH]; [reflexivity|]. cbn [escape].
  destruct (Ascii.eqb c bs); [cbn [length]; lia|]. destruct (Ascii.eqb c q); cbn [length]; lia.
Qed.

Lemma show_attr_line : forall p n v lvl w, aval_fits w p n v = true ->
  show_attr p n v lvl w = Ok (if attr_visible n v lvl then aline p n v else []).
Proof.
  intros p n v lvl w Hfit. destruct (attr_visible n v lvl) eqn:E; [|apply show_attr_invisible; exact E].
  unfold attr_visible in E. cbv zeta in E.
  apply andb_prop in E as [E1 E2]. apply andb_prop in E2 as [E2 E3].
  apply negb_true_iff in E1, E3.
  unfold show_attr. rewrite E1, E2, E3. unfold aline.
  destruct v as [| |b|z|s|t]; try (cbn [rw vw vt str_of_word quote_str wq wv]; rewrite <- !app_assoc; reflexivity).
  cbn [aval_fits] in Hfit. unfold str_fits in Hfit.
  set (indent := p ++ spaces (3 + length n + 3)) in *.
  cbn [rw]. fold (quoted_needed s).
  destruct (quoted_needed s) eqn:Eq.
  - cbn [orb]. rewrite Hfit. cbn [str_of_word wq wv]. rewrite <- !app_assoc. reflexivity.
  - cbn [orb].
    assert (Hs : (zlen indent + zlen s <? w)%Z = true).
    { apply Z.ltb_lt. apply Z.ltb_lt in Hfit. unfold zlen in *. unfold quote_str in Hfit. cbn [qtoken qchar] in Hfit.
      rewrite !app_length in Hfit. cbn [length] in Hfit. pose proof (escape_len dq s). lia. }
    rewrite Hs. cbn [negb]. rewrite Hs. cbn [str_of_word quote_str wq wv]. rewrite <- !app_assoc. reflexivity.
Qed.

Lemma show_attrs_lines : forall p a lvl w ns, forallb (fun n => aval_fits w p n (get_attr n a)) ns = true ->
  show_attrs p ns a lvl w = Ok (alines lvl p ns a).
Proof.
  intros p a lvl w; induction ns as [|n r IH]; intros H; [reflexivity|].
  cbn [forallb] in H. apply andb_prop in H as [H1 H2].
  cbn [show_attrs]. rewrite (show_attr_line p n _ lvl w H1), (IH H2). reflexivity.
Qed.

(* ====================================================================================== *)
(* 2. the domain                                                                            *)
(* ====================================================================================== *)

Definition str_names : list str := [s_ "help"; s_ "caption"; s_ "short_caption"; s_ "style"; s_ "alias"].

Definition sdef_attr_ok (w:Z) (p n:str) (v:aval) : bool :=
  match v with
  | AStr s => mems n str_names && str_fits w p n s
  | _ => def_attr_ok n v
  end.
Definition sscope_attr_ok (w:Z) (p n:str) (v:aval) : bool :=
  match v with
  | AStr s => mems n str_names && str_fits w p n s
  | _ => scope_attr_ok n v
  end.

Fixpoint stree_ok (w:Z) (p:str) (o:obj) : bool :=
  match o with
  | Def h ws a => hdr_ok h && negb (is_nil ws) && words_ok ws
                  && forallb (fun n => sdef_attr_ok w p n (get_attr n a)) def_attr_names
  | Scp h ks a => hdr_ok h && forallb (fun n => sscope_attr_ok w p n (get_attr n a)) scope_attr_names
                  && forallb (stree_ok w (p ++ s_ "  ")) ks
  end.

Lemma sdef_fits : forall w p n v, sdef_attr_ok w p n v = true -> aval_fits w p n v = true.
Proof. intros w p n [] H; try reflexivity. cbn [sdef_attr_ok] in H. apply andb_prop in H. apply H. Qed.
Lemma sscope_fits : forall w p n v, sscope_attr_ok w p n v = true -> aval_fits w p n v = true.
Proof. intros w p n [] H; try reflexivity. cbn [sscope_attr_ok] in H. apply andb_prop in H. apply H. Qed.

(* ---------- the printed word is read back as the value *)
Definition good_def (o:oracle) (a:attrs) (n:str) : Prop :=
  is_ident n = true /\ mems n def_attr_names = true /\
  word_ok (rw (get_attr n a)) = true /\ forall l, assign_def_attr o n [setl (rw (get_attr n a)) l] = Ok (get_attr n a).
Definition good_scope (o:oracle) (a:attrs) (n:str) : Prop :=
  is_ident n = true /\ mems n scope_attr_names = true /\
  word_ok (rw (get_attr n a)) = true /\ forall l, assign_scope_attr o n [setl (rw (get_attr n a)) l] = Ok (get_attr n a).

Lemma bare_word_ok : forall s, quoted_needed s = false -> word_ok (mkword s QN 0) = true.
Proof.
  intros s H. unfold quoted_needed in H. apply orb_false_elim in H as [H _]. apply orb_false_elim in H as [H _].
  apply negb_false_iff in H.
  destruct (lead_unq_ok false s H) as (Hu & Hh). cbn [bang app] in Hu, Hh.
  unfold word_ok. cbn [isq wq wv orb]. rewrite Hu, Hh.
  pose proof (ident_weq_bs' s 0 H) as Hb. unfold weq in Hb. cbn [isq wq wv negb andb] in Hb.
  rewrite Hb. reflexivity.
Qed.

Lemma rw_str_word_ok : forall s, word_ok (rw (AStr s)) = true.
Proof.
  intros s. cbn [rw]. destruct (quoted_needed s) eqn:E; [reflexivity|apply bare_word_ok; exact E].
Qed.

Lemma str_from_rw : forall s l, str_from_words [setl (rw (AStr s)) l] = AStr s.
Proof.
  intros s l. cbn [rw]. unfold setl. cbn [wv wq]. unfold str_from_words, is_plain_none, is_plain_auto, is_plain.
  destruct (quoted_needed s) eqn:E.
  - cbn [isq wq negb andb map wv join_sp]. reflexivity.
  - unfold quoted_needed in E. apply orb_false_elim in E as [E Ea]. apply orb_false_elim in E as [_ En].
    cbn [isq wq negb andb wv]. rewrite En, Ea. cbn [map wv join_sp]. reflexivity.
Qed.

Lemma mems_str_names_def : forall n, mems n str_names = true ->
  (eqs n (s_ "optional") || eqs n (s_ "multiple")) = false /\ eqs n (s_ "type") = false
  /\ (eqs n (s_ "input_size") || eqs n (s_ "expert_level")) = false.
Proof.
  intros n H. unfold mems, str_names in H. cbn [existsb] in H. rewrite orb_false_r in H.
  repeat (apply orb_prop in H as [H|H]; [apply eqs_true in H; subst n; repeat split; reflexivity|]).
  apply eqs_true in H; subst n; repeat split; reflexivity.
Qed.
Lemma mems_str_names_scope : forall n, mems n str_names = true ->
  mems n [s_ "optional"; s_ "multiple"; s_ "disable_add"; s_ "disable_delete"] = false
  /\ eqs n (s_ "expert_level") = false /\ eqs n (s_ "call") = false /\ eqs n (s_ "sequential_format") = false.
Proof.
  intros n H. unfold mems at 1, str_names in H. cbn [existsb] in H. rewrite orb_false_r in H.
  repeat (apply orb_prop in H as [H|H]; [apply eqs_true in H; subst n; repeat split; reflexivity|]).
  apply eqs_true in H; subst n; repeat split; reflexivity.
Qed.

Lemma setl_vw : forall v l, setl (vw v) l = mkword (vt v) QN l.
Proof. reflexivity. Qed.

Lemma none_def_back : forall o n l, assign_def_attr o n [mkword (vt ANone) QN l] = Ok ANone.
Proof.
  intros o n l. unfold assign_def_attr.
  destruct (eqs n (s_ "optional") || eqs n (s_ "multiple")); [reflexivity|].
  destruct (eqs n (s_ "type")); [reflexivity|].
  destruct (eqs n (s_ "input_size") || eqs n (s_ "expert_level")); reflexivity.
Qed.
Lemma none_scope_back : forall o n l, assign_scope_attr o n [mkword (vt ANone) QN l] = Ok ANone.
Proof.
  intros o n l. unfold assign_scope_attr.
  destruct (mems n _); [reflexivity|].
  destruct (eqs n (s_ "expert_level")); [reflexivity|].
  destruct (eqs n (s_ "call")); [reflexivity|].
  destruct (eqs n (s_ "sequential_format")); reflexivity.
Qed.

Lemma sdef_back : forall o w p n v, sdef_attr_ok w p n v = true ->
  word_ok (rw v) = true /\ forall l, assign_def_attr o n [setl (rw v) l] = Ok v.
Proof.
  intros o w p n v H. destruct v as [| |b|z|s|t]; cbn [sdef_attr_ok] in H; try discriminate H.
  - split; [reflexivity|]. intros l. apply none_def_back.
  - assert (Hs : skipb n (ABool b) = false \/ skipb n (ABool b) = true) by (destruct (skipb n (ABool b)); auto).
    assert (Hn : skipb n (ABool b) = false).
    { unfold skipb. cbn [is_none]. rewrite andb_false_r, orb_false_r.
      cbn [def_attr_ok] in H. destruct (mems2 _ _ _ H) as [-> | ->]; reflexivity. }
    destruct (assign_def_attr_back o n (ABool b) 0 H Hn) as (Hw & _). split; [exact Hw|].
    intros l. exact (proj2 (assign_def_attr_back o n (ABool b) l H Hn)).
  - assert (Hn : skipb n (AInt z) = false).
    { unfold skipb. cbn [is_none]. rewrite andb_false_r, orb_false_r.
      cbn [def_attr_ok] in H. apply andb_prop in H as [H _]. destruct (mems2 _ _ _ H) as [-> | ->]; reflexivity. }
    destruct (assign_def_attr_back o n (AInt z) 0 H Hn) as (Hw & _). split; [exact Hw|].
    intros l. exact (proj2 (assign_def_attr_back o n (AInt z) l H Hn)).
  - apply andb_prop in H as [Hm _]. split; [apply rw_str_word_ok|].
    intros l. destruct (mems_str_names_def n Hm) as (E1 & E2 & E3).
    unfold assign_def_attr. rewrite E1, E2, E3. rewrite str_from_rw. reflexivity.
Qed.

Lemma sscope_back : forall o w p n v, sscope_attr_ok w p n v = true ->
  word_ok (rw v) = true /\ forall l, assign_scope_attr o n [setl (rw v) l] = Ok v.
Proof.
  intros o w p n v H. destruct v as [| |b|z|s|t]; cbn [sscope_attr_ok] in H; try discriminate H.
  - split; [reflexivity|]. intros l. apply none_scope_back.
  - assert (Hn : skipb n (ABool b) = false).
    { unfold skipb. cbn [is_none]. rewrite andb_false_r, orb_false_r.
      cbn [scope_attr_ok] in H. unfold mems in H. cbn [existsb] in H. rewrite orb_false_r in H.
      repeat (apply orb_prop in H as [H|H]; [apply eqs_true in H; subst n; reflexivity|]).
      apply eqs_true in H; subst n; reflexivity. }
    destruct (assign_scope_attr_back o n (ABool b) 0 H Hn) as (Hw & _). split; [exact Hw|].
    intros l. exact (proj2 (assign_scope_attr_back o n (ABool b) l H Hn)).
  - assert (Hn : skipb n (AInt z) = false).
    { unfold skipb. cbn [is_none]. rewrite andb_false_r, orb_false_r.
      cbn [scope_attr_ok] in H. apply andb_prop in H as [H _]. apply eqs_true in H. subst n. reflexivity. }
    destruct (assign_scope_attr_back o n (AInt z) 0 H Hn) as (Hw & _). split; [exact Hw|].
    intros l. exact (proj2 (assign_scope_attr_back o n (AInt z) l H Hn)).
  - apply andb_prop in H as [Hm _]. split; [apply rw_str_word_ok|].
    intros l. destruct (mems_str_names_scope n Hm) as (E1 & E2 & E3 & E4).
    unfold assign_scope_attr. rewrite E1, E2, E3, E4. rewrite str_from_rw. reflexivity.
Qed.

Lemma good_defs : forall o w p a, forallb (fun n => sdef_attr_ok w p n (get_attr n a)) def_attr_names = true ->
  Forall (good_def o a) def_attr_names.
Proof.
  intros o w p a H. apply Forall_forall. intros n Hn. rewrite forallb_forall in H. specialize (H n Hn).
  split; [exact (def_names_ident n Hn)|]. split; [exact (in_mems n _ Hn)|]. exact (sdef_back o w p n _ H).
Qed.
Lemma good_scopes : forall o w p a, forallb (fun n => sscope_attr_ok w p n (get_attr n a)) scope_attr_names = true ->
  Forall (good_scope o a) scope_attr_names.
Proof.
  intros o w p a H. apply Forall_forall. intros n Hn. rewrite forallb_forall in H. specialize (H n Hn).
  split; [exact (scope_names_ident n Hn)|]. split; [exact (in_mems n _ Hn)|]. exact (sscope_back o w p n _ H).
Qed.

(* ====================================================================================== *)
(* 3. the parser on one attribute line                                                      *)
(* ====================================================================================== *)

Lemma caw_one_gword : forall x rest line lead,
  word_ok x = true -> wline lead = line -> weq lead [bs] = false ->
  value_ends rest (S (line + count_nl (wv x))) ->
  exists s', caw (S (length (" " :: str_of_word x ++ nl :: rest))) (" " :: str_of_word x ++ nl :: rest) line false lead [] lead
             = Ok ([setl x line], s', line + count_nl (wv x))
    /\ (s' = nl :: rest \/ s' = [] /\ forallb isspace rest = true)
    /\ nw s0 false s' (line + count_nl (wv x)) = nw s0 false rest (S (line + count_nl (wv x))).
Proof.
  intros x rest line lead Hw Hl Hlead Hend.
  assert (Hwok : words_ok [x] = true).
  { unfold words_ok. cbn [forallb lines_ok]. rewrite Hw. cbn [Nat.eqb]. rewrite orb_true_r. reflexivity. }
  assert (Hvt : vtext [x] ++ nl :: rest = " " :: str_of_word x ++ nl :: rest).
  { unfold vtext. cbn [flat_map]. rewrite app_nil_r. reflexivity. }
  destruct (caw_one_line [x] rest line lead (S (length (" " :: str_of_word x ++ nl :: rest))))
    as (s' & Hc & Hs & Hn); try assumption.
  - discriminate.
  - rewrite Hvt. lia.
  - cbn [endline reline] in *. rewrite Hvt in Hc. exists s'. split; [exact Hc|]. split; assumption.
Qed.

Lemma aline_split : forall p n v rest,
  aline p n v ++ rest = (p ++ s_ "  ") ++ "." :: n ++ " " :: "=" :: (" " :: str_of_word (rw v) ++ nl :: rest).
Proof.
  intros. unfold aline, line. rewrite <- !app_assoc. cbn [s_ String.list_ascii_of_string app].
  rewrite <- ?app_assoc. reflexivity.
Qed.

Lemma aline_len : forall p n v, 1 <= length (aline p n v).
Proof. intros. unfold aline, line. rewrite app_length. cbn [length]. lia. Qed.

Lemma cobj_def_aline : forall o p n v rest line,
  blank p -> is_ident n = true -> mems n def_attr_names = true ->
  word_ok (rw v) = true -> (forall l, assign_def_attr o n [setl (rw v) l] = Ok v) ->
  value_ends rest (S (line + count_nl (wv (rw v)))) ->
  exists s', (s' = nl :: rest \/ s' = [] /\ forallb isspace rest = true)
    /\ nw s0 false s' (line + count_nl (wv (rw v))) = nw s0 false rest (S (line + count_nl (wv (rw v))))
    /\ forall f nid stop start prev ad acc,
       cobj o (S f) (aline p n v ++ rest) line nid stop start prev (Some ad) acc
       = cobj o f s' (line + count_nl (wv (rw v))) nid stop start line (Some (attach n v ad)) acc.
Proof.
  intros o p n v rest line Hp Hid Hmem Hw Has Hend.
  destruct (caw_one_gword (rw v) rest line (mkword ("." :: n) QN line) Hw eq_refl eq_refl Hend)
    as (s' & Hc & Hs & Hn).
  exists s'. split; [exact Hs|]. split; [exact Hn|].
  intros f nid stop start prev ad acc.
  rewrite aline_split, (cobj_attr_step o f (p ++ s_ "  ") n _ line nid stop start prev ad acc (blank_p2 p Hp) Hid Hmem).
  rewrite Hc. cbn [bind]. rewrite Has. cbn [bind]. reflexivity.
Qed.

(* ---------- all attribute lines of a definition *)
Definition attach_vis (lvl:Z) (a:attrs) (ns:list str) (d:obj) : obj :=
  fold_left (fun d n => if attr_visible n (get_attr n a) lvl then attach n (get_attr n a) d else d) ns d.
Definition renormL_from (lvl:Z) (a:attrs) (ns:list str) (acc:attrs) : attrs :=
  fold_left (fun acc n => if attr_visible n (get_attr n a) lvl then set_attr n (get_attr n a) acc else acc) ns acc.
(* the attribute list the parser rebuilds from the level-lvl text *)
Definition renormL (lvl:Z) (ns:list str) (a:attrs) : attrs := renormL_from lvl a ns [].

Lemma attach_vis_def : forall lvl a ns h ws x, attach_vis lvl a ns (Def h ws x) = Def h ws (renormL_from lvl a ns x).
Proof.
  intros lvl a; induction ns as [|n r IH]; intros h ws x; [reflexivity|].
  unfold attach_vis, renormL_from in *. cbn [fold_left].
  destruct (attr_visible n (get_attr n a) lvl); [|apply IH]. cbn [attach]. apply IH.
Qed.

Lemma follow_alines : forall lvl p a rest ns, blank p -> Forall (fun n => is_ident n = true) ns ->
  follow_ok rest -> follow_ok (alines lvl p ns a ++ rest).
Proof.
  intros lvl p a rest ns Hp H Hfol. induction H as [|n r Hn Hr IH]; [exact Hfol|].
  unfold alines in *. cbn [flat_map].
  destruct (attr_visible n (get_attr n a) lvl); [|exact IH].
  rewrite <- app_assoc, aline_split. intros line.
  destruct (dot_unq_ok n Hn) as (Hu & Hh).
  change ("." :: n ++ " " :: "=" :: ?X) with (("." :: n) ++ " " :: "=" :: X).
  apply value_ends_unquoted; try assumption; [apply (blank_p2 p Hp)|reflexivity].
Qed.

Lemma cobj_def_alines : forall lvl o a ns, Forall (good_def o a) ns ->
  forall p rest f line nid stop start prev ad acc,
  blank p -> follow_ok rest -> length (alines lvl p ns a ++ rest) < f ->
  exists line' prev', forall g, length rest < g ->
    eqres stop (cobj o f (alines lvl p ns a ++ rest) line nid stop start prev (Some ad) acc)
               (cobj o g rest line' nid stop start prev' (Some (attach_vis lvl a ns ad)) acc).
Proof.
  intros lvl o a ns H. induction H as [|n r Hn Hr IH]; intros p rest f line nid stop start prev ad acc Hp Hfol Hf.
  - exists line, prev. intros g Hg. cbn [alines flat_map app attach_vis fold_left] in *.
    apply cobj_fuel_eq; assumption.
  - destruct Hn as (Hid & Hmem & Hw & Has).
    unfold alines in Hf |- *. cbn [flat_map] in Hf |- *. unfold attach_vis. cbn [fold_left].
    destruct (attr_visible n (get_attr n a) lvl) eqn:Esk.
    + rewrite <- app_assoc in Hf |- *.
      fold (alines lvl p r a) in Hf |- *.
      set (rest1 := alines lvl p r a ++ rest) in *.
      assert (Hids : Forall (fun n => is_ident n = true) r).
      { apply Forall_forall. intros x Hx. rewrite Forall_forall in Hr. apply (Hr x Hx). }
      pose proof (follow_alines lvl p a rest r Hp Hids Hfol) as Hfol1. fold rest1 in Hfol1.
      destruct (cobj_def_aline o p n (get_attr n a) rest1 line Hp Hid Hmem Hw Has (Hfol1 _))
        as (s' & Hs & Hnw & Hc).
      set (L := line + count_nl (wv (rw (get_attr n a)))) in *.
      destruct (IH p rest (S (length rest1)) (S L) nid stop start line (attach n (get_attr n a) ad) acc
                  Hp Hfol (Nat.lt_succ_diag_r _)) as (line' & prev' & Hc2).
      exists line', prev'. intros g Hg.
      set (X := aline p n (get_attr n a) ++ rest1) in *.
      assert (Hlen : length rest1 < length X).
      { unfold X. rewrite app_length. pose proof (aline_len p n (get_attr n a)). lia. }
      rewrite (cobj_fuel_enough o f (S (S (length X))) X) by lia.
      unfold X at 2. rewrite Hc.
      eapply eqres_trans; [|apply (Hc2 g Hg)].
      apply cobj_pos_eq; [exact Hnw| |unfold rest1; lia].
      destruct Hs as [->|[-> _]]; cbn [length]; lia.
    + exact (IH p rest f line nid stop start prev ad acc Hp Hfol Hf).
Qed.

(* ---------- the scope attribute loop *)
Lemma sattrs_alines : forall lvl o a ns, Forall (good_scope o a) ns ->
  forall p n1 v1 tl F line acc,
  blank p -> is_ident n1 = true -> mems n1 scope_attr_names = true ->
  word_ok (rw v1) = true -> (forall l, assign_scope_attr o n1 [setl (rw v1) l] = Ok v1) ->
  length (" " :: "=" :: " " :: str_of_word (rw v1) ++ nl :: alines lvl p ns a ++ p ++ "{" :: tl) < F ->
  exists line',
    sattrs o F (mkword ("." :: n1) QN line)
           (" " :: "=" :: " " :: str_of_word (rw v1) ++ nl :: alines lvl p ns a ++ p ++ "{" :: tl) line acc
    = Ok (renormL_from lvl a ns (set_attr n1 v1 acc), mkword ["{"] QN line', tl, line').
Proof.
  intros lvl o a ns H. induction H as [|n r Hn Hr IH]; intros p n1 v1 tl F line acc Hp Hid1 Hmem1 Hw1 Has1 HF.
  - cbn [alines flat_map app renormL_from fold_left] in *.
    set (next := p ++ "{" :: tl) in *.
    set (L := line + count_nl (wv (rw v1))).
    assert (Hend : value_ends next (S L)) by (apply value_ends_brace; [apply Hp|left; reflexivity]).
    destruct (caw_one_gword (rw v1) next line (mkword ("." :: n1) QN line) Hw1 eq_refl eq_refl Hend)
      as (s' & Hc & Hs & Hnw).
    destruct F as [|[|f]]; [lia|cbn [length] in HF; lia|].
    rewrite (sattrs_step o (S f) n1 _ line acc Hmem1). rewrite Hc. cbn [bind]. rewrite Has1. cbn [bind].
    fold L in Hnw |- *.
    assert (Hpop : pop_unq s0 s' L = Ok (mkword ["{"] QN (S L), tl, S L)).
    { apply pop_unq_word; [|reflexivity]. rewrite Hnw. unfold next.
      destruct Hp as [Hp1 Hp2]. rewrite (nw_skip_blanks s0 p _ _ Hp1), Hp2, Nat.add_0_r. reflexivity. }
    rewrite Hpop. cbn [bind]. exists (S L). apply sattrs_brace. reflexivity.
  - destruct Hn as (Hid & Hmem & Hw & Has).
    unfold alines in HF |- *. cbn [flat_map] in HF |- *. unfold renormL_from. cbn [fold_left].
    destruct (attr_visible n (get_attr n a) lvl) eqn:Esk.
    + fold (alines lvl p r a) in HF |- *.
      rewrite <- app_assoc in HF |- *.
      set (next := aline p n (get_attr n a) ++ alines lvl p r a ++ p ++ "{" :: tl) in *.
      assert (Hnext : next = (p ++ s_ "  ") ++ "." :: n ++ " " :: "=" :: " " :: str_of_word (rw (get_attr n a)) ++ nl :: alines lvl p r a ++ p ++ "{" :: tl).
      { unfold next. apply aline_split. }
      set (L := line + count_nl (wv (rw v1))).
      assert (Hend : value_ends next (S L)).
      { rewrite Hnext. destruct (dot_unq_ok n Hid) as (Hu & Hh).
        change ("." :: n ++ " " :: "=" :: ?X) with (("." :: n) ++ " " :: "=" :: X).
        apply value_ends_unquoted; try assumption; [apply (blank_p2 p Hp)|reflexivity]. }
      destruct (caw_one_gword (rw v1) next line (mkword ("." :: n1) QN line) Hw1 eq_refl eq_refl Hend)
        as (s' & Hc & Hs & Hnw).
      destruct F as [|f]; [lia|].
      rewrite (sattrs_step o f n1 _ line acc Hmem1). rewrite Hc. cbn [bind]. rewrite Has1. cbn [bind].
      fold L in Hnw |- *.
      set (tl2 := " " :: "=" :: " " :: str_of_word (rw (get_attr n a)) ++ nl :: alines lvl p r a ++ p ++ "{" :: tl) in *.
      assert (Hpop : pop_unq s0 s' L = Ok (mkword ("." :: n) QN (S L), tl2, S L)).
      { apply pop_unq_word; [|reflexivity]. rewrite Hnw, Hnext.
        apply (nw_s0_dot (p ++ s_ "  ") n tl2 (S L) (blank_p2 p Hp) Hid). reflexivity. }
      rewrite Hpop. cbn [bind].
      apply (IH p n (get_attr n a) tl f (S L) (set_attr n1 v1 acc) Hp Hid Hmem Hw Has).
      fold tl2.
      assert (H1 : length tl2 < length next).
      { rewrite Hnext. rewrite app_length. cbn [length]. rewrite !app_length. lia. }
      assert (H2 : length next < length (" " :: "=" :: " " :: str_of_word (rw v1) ++ nl :: next)).
      { cbn [length]. rewrite app_length. cbn [length]. lia. }
      lia.
    + exact (IH p n1 v1 tl F line acc Hp Hid1 Hmem1 Hw1 Has1 HF).
Qed.

(* the visible names of a class, in order *)
Definition vis_names (lvl:Z) (a:attrs) (ns:list str) : list str :=
  filter (fun n => attr_visible n (get_attr n a) lvl) ns.

Lemma alines_vis : forall lvl p a ns, alines lvl p ns a = alines lvl p (vis_names lvl a ns) a.
Proof.
  intros lvl p a; induction ns as [|n r IH]; [reflexivity|].
  unfold alines, vis_names in *. cbn [flat_map filter].
  destruct (attr_visible n (get_attr n a) lvl) eqn:E; [|exact IH].
  cbn [flat_map]. rewrite E, IH. reflexivity.
Qed.
Lemma renormL_vis : forall lvl a ns acc, renormL_from lvl a ns acc = renormL_from lvl a (vis_names lvl a ns) acc.
Proof.
  intros lvl a; induction ns as [|n r IH]; intros acc; [reflexivity|].
  unfold renormL_from, vis_names in *. cbn [fold_left filter].
  destruct (attr_visible n (get_attr n a) lvl) eqn:E; [|apply IH].
  cbn [fold_left]. rewrite E. apply IH.
Qed.

(* ====================================================================================== *)
(* 4. the level-lvl text and the comparison                                                 *)
(* ====================================================================================== *)

Definition scope_open (lvl:Z) (p:str) (h:hdr) (a:attrs) : str :=
  match alines lvl p scope_attr_names a with
  | [] => line (p ++ bang (odis h) ++ oname h ++ s_ " {")
  | al => line (p ++ bang (odis h) ++ oname h) ++ al ++ line (p ++ ["{"])
  end.

Fixpoint ltxt (lvl:Z) (w:Z) (p:str) (o:obj) : str :=
  match o with
  | Def h ws a => show_words ws (def_cur p (odis h) (oname h)) (def_indent p (odis h) (oname h)) w
                  ++ alines lvl p def_attr_names a
  | Scp h ks a => scope_open lvl p h a ++ flat_map (ltxt lvl w (p ++ s_ "  ")) ks ++ line (p ++ ["}"])
  end.
Definition ltxts (lvl:Z) (w:Z) (p:str) (l:list obj) : str := flat_map (ltxt lvl w p) l.

(* kept: names, nesting, order, disabled marks, words and the attributes visible at the level, in the class's
   order; erased: ids and lines *)
Fixpoint eraseL (lvl:Z) (o:obj) : obj :=
  match o with
  | Def h ws a => Def (erase_hdr h) (map erase_word ws) (renormL lvl def_attr_names a)
  | Scp h ks a => Scp (erase_hdr h) (map (eraseL lvl) ks) (renormL lvl scope_attr_names a)
  end.

Lemma stree_ok_hdr : forall w p o, stree_ok w p o = true -> hdr_ok (ohdr o) = true.
Proof.
  intros w p [h ws a|h ks a] H; cbn [stree_ok ohdr] in *.
  - apply andb_prop in H as [H _]. apply andb_prop in H as [H _]. apply andb_prop in H as [H _]. exact H.
  - apply andb_prop in H as [H _]. apply andb_prop in H as [H _]. exact H.
Qed.

Lemma sdef_not_deprecated : forall w p a,
  forallb (fun n => sdef_attr_ok w p n (get_attr n a)) def_attr_names = true ->
  py_truthy (get_attr (s_ "deprecated") a) = false.
Proof.
  intros w p a H. rewrite forallb_forall in H.
  assert (Hin : In (s_ "deprecated") def_attr_names) by (unfold def_attr_names; cbn [In]; tauto).
  specialize (H _ Hin). destruct (get_attr (s_ "deprecated") a); try reflexivity; discriminate H.
Qed.

Lemma fits_of_ok : forall (ok:str -> aval -> bool) w p a ns,
  (forall n v, ok n v = true -> aval_fits w p n v = true) ->
  forallb (fun n => ok n (get_attr n a)) ns = true -> forallb (fun n => aval_fits w p n (get_attr n a)) ns = true.
Proof.
  intros ok w p a ns Hs H. apply forallb_forall. intros n Hn. rewrite forallb_forall in H. exact (Hs _ _ (H n Hn)).
Qed.

Lemma show_list_ltxts : forall lvl w p l,
  Forall (fun o => show_obj o [] p None lvl w = Ok (ltxt lvl w p o)) l ->
  show_list l [] p None lvl w = Ok (ltxts lvl w p l).
Proof.
  intros lvl w p l H. induction H as [|o r Ho Hr IH]; [reflexivity|].
  cbn [show_list]. rewrite Ho, IH. reflexivity.
Qed.

Theorem show_obj_ltxt : forall lvl w, (0 <? lvl)%Z = true -> forall o p, stree_ok w p o = true ->
  show_obj o [] p None lvl w = Ok (ltxt lvl w p o).
Proof.
  intros lvl w Hlvl o. induction o as [h ws a|h ks a IH] using obj_ind2; intros p Hok.
  - cbn [stree_ok] in Hok. apply andb_prop in Hok as [Hok Hat]. apply andb_prop in Hok as [Hok _].
    apply andb_prop in Hok as [Hh _].
    destruct (hdr_ok_facts h Hh) as (Hn & Ht & _).
    destruct (name_ok_facts _ Hn) as (_ & Hinc & _).
    cbn [show_obj ltxt]. unfold show_def.
    rewrite Ht, (sdef_not_deprecated w p a Hat), hidden_none, Hinc. cbn [Z.ltb Z.compare andb bind].
    unfold show_attributes.
    assert (Hle : (lvl <=? 0)%Z = false) by (apply Z.leb_gt; apply Z.ltb_lt in Hlvl; lia).
    rewrite Hle.
    rewrite (show_attrs_lines p a lvl w def_attr_names (fits_of_ok (sdef_attr_ok w p) w p a _ (sdef_fits w p) Hat)).
    cbn [bind app join_with]. reflexivity.
  - cbn [stree_ok] in Hok. apply andb_prop in Hok as [Hok Hks]. apply andb_prop in Hok as [Hh Hat].
    destruct (hdr_ok_facts h Hh) as (Hn & Ht & _).
    destruct (name_ok_facts _ Hn) as (Hid & _).
    destruct (ident_shape _ Hid) as (c & n' & En & _).
    assert (Hfm : first_merges ks = false).
    { destruct ks as [|k r]; [reflexivity|]. cbn [first_merges forallb] in *.
      apply andb_prop in Hks as [Hk _]. apply stree_ok_hdr, hdr_ok_facts in Hk. apply Hk. }
    assert (Hkids : Forall (fun o => show_obj o [] (p ++ s_ "  ") None lvl w = Ok (ltxt lvl w (p ++ s_ "  ") o)) ks).
    { clear Hfm. induction IH as [|k r Hk Hr IHr]; constructor.
      - cbn [forallb] in Hks. apply andb_prop in Hks as [Hk' _]. exact (Hk _ Hk').
      - cbn [forallb] in Hks. apply andb_prop in Hks as [_ Hr']. exact (IHr Hr'). }
    rewrite show_obj_scp. unfold show_scope_body.
    rewrite Ht, hidden_none, Hfm. cbn [Z.ltb Z.compare andb bind].
    rewrite En at 1.
    unfold show_attributes.
    assert (Hle : (lvl <=? 0)%Z = false) by (apply Z.leb_gt; apply Z.ltb_lt in Hlvl; lia).
    rewrite Hle.
    rewrite (show_attrs_lines p a lvl w scope_attr_names (fits_of_ok (sscope_attr_ok w p) w p a _ (sscope_fits w p) Hat)).
    cbn [bind app join_with].
    rewrite (show_list_ltxts lvl w (p ++ s_ "  ") ks Hkids). cbn [bind ltxt]. unfold scope_open.
    destruct (alines lvl p scope_attr_names a) as [|c0 al] eqn:Eal.
    + unfold bang, ltxts. rewrite <- !app_assoc. reflexivity.
    + unfold bang, ltxts. rewrite <- !app_assoc. reflexivity.
Qed.

Theorem show_objs_ltxts : forall lvl w l p, (0 <? lvl)%Z = true -> forallb (stree_ok w p) l = true ->
  show_objs l p None lvl w = Ok (ltxts lvl w p l).
Proof.
  intros lvl w l p Hlvl H. rewrite show_objs_list. apply show_list_ltxts.
  apply Forall_forall. intros o Ho. rewrite forallb_forall in H. exact (show_obj_ltxt lvl w Hlvl o p (H o Ho)).
Qed.

Lemma follow_ltxt : forall lvl w p o tl, blank p -> stree_ok w p o = true -> follow_ok (ltxt lvl w p o ++ tl).
Proof.
  intros lvl w p o tl [Hp _] Hok line.
  pose proof (stree_ok_hdr w p o Hok) as Hh. apply hdr_ok_facts in Hh. destruct Hh as (Hn & _).
  apply name_ok_facts in Hn. destruct Hn as (Hid & _).
  destruct (lead_unq_ok (odis (ohdr o)) _ Hid) as (Hu & Hh).
  assert (HT : exists c X, (c = " " \/ c = nl) /\
                 ltxt lvl w p o ++ tl = p ++ (bang (odis (ohdr o)) ++ oname (ohdr o)) ++ c :: X).
  { destruct o as [h ws a|h ks a]; cbn [ltxt ohdr].
    - exists " ". rewrite <- app_assoc, show_words_vtail. unfold def_cur at 1. eexists. split; [left; reflexivity|].
      rewrite <- !app_assoc. cbn [s_ String.list_ascii_of_string app]. reflexivity.
    - unfold scope_open. destruct (alines lvl p scope_attr_names a).
      + exists " ". unfold Show.line. eexists. split; [left; reflexivity|].
        rewrite <- !app_assoc. cbn [s_ String.list_ascii_of_string app]. reflexivity.
      + exists nl. unfold Show.line. eexists. split; [right; reflexivity|].
        rewrite <- !app_assoc. cbn [app]. reflexivity. }
  destruct HT as (c & X & Hc & ->).
  apply value_ends_unquoted; try assumption. destruct Hc as [-> | ->]; reflexivity.
Qed.

Ltac alen := repeat (first [rewrite app_length | progress cbn [length]]).

Definition P4 (lvl:Z) (w:Z) (o:obj) : Prop := forall p, stree_ok w p o = true ->
  forall orc rest f line nid stop start prev active acc,
  blank p -> follow_ok rest -> length (ltxt lvl w p o ++ rest) < f ->
  exists o' line' nid' prev' active' acc',
    flushed active' acc' = o' :: flushed active acc
    /\ erase_obj o' = eraseL lvl o
    /\ forall g, length rest < g ->
       eqres stop (cobj orc f (ltxt lvl w p o ++ rest) line nid stop start prev active acc)
                  (cobj orc g rest line' nid' stop start prev' active' acc').

Definition PL4 (lvl:Z) (w:Z) (l:list obj) : Prop := forall p, forallb (stree_ok w p) l = true ->
  forall orc rest f line nid stop start prev active acc,
  blank p -> follow_ok rest -> length (ltxts lvl w p l ++ rest) < f ->
  exists l' line' nid' prev' active' acc',
    flushed active' acc' = rev l' ++ flushed active acc
    /\ map erase_obj l' = map (eraseL lvl) l
    /\ forall g, length rest < g ->
       eqres stop (cobj orc f (ltxts lvl w p l ++ rest) line nid stop start prev active acc)
                  (cobj orc g rest line' nid' stop start prev' active' acc').

Lemma PL4_of_P4 : forall lvl w l, Forall (P4 lvl w) l -> PL4 lvl w l.
Proof.
  intros lvl w l H. induction H as [|o r Ho Hr IH]; intros p Hok orc rest f line nid stop start prev active acc Hp Hfol Hf.
  - exists [], line, nid, prev, active, acc. split; [reflexivity|]. split; [reflexivity|].
    intros g Hg. cbn [ltxts flat_map app] in *. apply cobj_fuel_eq; assumption.
  - cbn [forallb] in Hok. apply andb_prop in Hok as [Hoo Hor].
    assert (HT : ltxts lvl w p (o :: r) ++ rest = ltxt lvl w p o ++ (ltxts lvl w p r ++ rest)).
    { unfold ltxts. cbn [flat_map]. rewrite <- app_assoc. reflexivity. }
    rewrite HT in *.
    set (rest1 := ltxts lvl w p r ++ rest) in *.
    assert (Hfol1 : follow_ok rest1).
    { unfold rest1. destruct r as [|o2 r2]; [exact Hfol|].
      cbn [forallb] in Hor. apply andb_prop in Hor as [Ho2 _].
      unfold ltxts. cbn [flat_map]. rewrite <- app_assoc. apply follow_ltxt; assumption. }
    destruct (Ho p Hoo orc rest1 f line nid stop start prev active acc Hp Hfol1 Hf)
      as (o' & line1 & nid1 & prev1 & active1 & acc1 & Hfl1 & Her1 & Hc1).
    destruct (IH p Hor orc rest (S (length rest1)) line1 nid1 stop start prev1 active1 acc1 Hp Hfol
                 (Nat.lt_succ_diag_r _))
      as (l' & line2 & nid2 & prev2 & active2 & acc2 & Hfl2 & Her2 & Hc2).
    exists (o' :: l'), line2, nid2, prev2, active2, acc2.
    split; [|split].
    + rewrite Hfl2, Hfl1. cbn [rev]. rewrite <- app_assoc. reflexivity.
    + cbn [map]. rewrite Her1, Her2. reflexivity.
    + intros g Hg. eapply eqres_trans; [apply (Hc1 (S (length rest1))); lia|apply Hc2; exact Hg].
Qed.

Lemma vis_head_visible : forall lvl a ns n1 r, vis_names lvl a ns = n1 :: r ->
  attr_visible n1 (get_attr n1 a) lvl = true /\ In n1 ns /\ (forall x, In x r -> In x ns).
Proof.
  intros lvl a ns n1 r E. unfold vis_names in E.
  assert (H1 : In n1 (filter (fun n => attr_visible n (get_attr n a) lvl) ns)) by (rewrite E; left; reflexivity).
  apply filter_In in H1 as [H1 H2]. split; [exact H2|]. split; [exact H1|].
  intros x Hx. assert (H3 : In x (filter (fun n => attr_visible n (get_attr n a) lvl) ns)) by (rewrite E; right; exact Hx).
  apply filter_In in H3. apply H3.
Qed.

Theorem P4_all : forall lvl w o, P4 lvl w o.
Proof.
  intros lvl w o. induction o as [h ws a|h ks a IH] using obj_ind2;
    intros p Hok orc rest f line nid stop start prev active acc Hp Hfol Hf.
  - (* definition: the value, then the attribute lines *)
    cbn [stree_ok] in Hok. apply andb_prop in Hok as [Hok Hat]. apply andb_prop in Hok as [Hok Hwok].
    apply andb_prop in Hok as [Hh Hne].
    destruct (hdr_ok_facts h Hh) as (Hn & _ & _).
    assert (Hne' : ws <> []) by (destruct ws; [discriminate Hne|discriminate]).
    pose proof (good_defs orc w p a Hat) as Hgood.
    set (n := oname h) in *. set (dis := odis h) in *.
    assert (Hind : blank (def_indent p dis n)) by (apply blank_app; [exact Hp|apply blank_spaces]).
    cbn [ltxt] in *. fold n dis in Hf |- *.
    set (cur := def_cur p dis n) in *. set (indent := def_indent p dis n) in *.
    rewrite <- app_assoc in Hf |- *.
    set (rest1 := alines lvl p def_attr_names a ++ rest) in *.
    assert (Hids : Forall (fun n => is_ident n = true) def_attr_names).
    { apply Forall_forall. exact def_names_ident. }
    pose proof (follow_alines lvl p a rest def_attr_names Hp Hids Hfol) as Hfol1. fold rest1 in Hfol1.
    destruct (cobj_show_def_gen p dis n ws indent w rest1 line Hp Hn Hind Hne' Hwok (Hfol1 _))
      as (s' & Hs & Hnw & Hc).
    fold cur in Hs, Hnw, Hc.
    set (L := endw ws cur indent w line) in *.
    set (d0 := Def (mkhdr n dis 0 false nid line) (relw ws cur indent w line) []) in *.
    destruct (cobj_def_alines lvl orc a def_attr_names Hgood p rest (S (length rest1)) (S L) (S nid) stop start line
                d0 (flushed active acc) Hp Hfol (Nat.lt_succ_diag_r _)) as (line' & prev' & Hc2).
    set (d1 := attach_vis lvl a def_attr_names d0) in *.
    exists d1, line', (S nid), prev', (Some d1), (flushed active acc).
    split; [reflexivity|]. split.
    + unfold d1, d0. rewrite attach_vis_def. cbn [erase_obj eraseL]. unfold n, dis.
      rewrite (erase_hdr_parsed h nid line Hh). fold (renormL lvl def_attr_names a).
      f_equal. exact (relw_noline ws cur indent w line).
    + intros g Hg.
      set (X := show_words ws cur indent w ++ rest1) in *.
      assert (Hlen : length rest1 < length X).
      { unfold X. rewrite show_words_vtail, app_length.
        pose proof (vtail_longer indent w rest1 ws cur). lia. }
      rewrite (cobj_fuel_enough orc f (S (S (length X))) X) by lia.
      unfold X at 2. rewrite Hc.
      eapply eqres_trans; [|apply (Hc2 g Hg)].
      apply cobj_pos_eq; [exact Hnw| |unfold rest1; lia].
      destruct Hs as [->|[-> _]]; cbn [length]; lia.
  - (* scope *)
    cbn [stree_ok] in Hok. apply andb_prop in Hok as [Hok Hks]. apply andb_prop in Hok as [Hh Hat].
    destruct (hdr_ok_facts h Hh) as (Hn & _ & _).
    pose proof (good_scopes orc w p a Hat) as Hgood.
    set (n := oname h) in *. set (dis := odis h) in *.
    set (p2 := p ++ s_ "  ") in *.
    assert (Hp2 : blank p2) by (apply blank_p2; exact Hp).
    set (rest' := p ++ "}" :: nl :: rest).
    set (K := ltxts lvl w p2 ks).
    set (body := nl :: K ++ rest').
    destruct (vis_names lvl a scope_attr_names) as [|n1 r] eqn:Evis.
    + (* no visible attribute: "name {" *)
      assert (Eal : alines lvl p scope_attr_names a = []) by (rewrite alines_vis, Evis; reflexivity).
      assert (Ern : renormL lvl scope_attr_names a = []).
      { unfold renormL. rewrite renormL_vis, Evis. reflexivity. }
      assert (HT : ltxt lvl w p (Scp h ks a) ++ rest = p ++ bang dis ++ n ++ " " :: "{" :: body).
      { cbn [ltxt]. unfold scope_open. rewrite Eal.
        unfold Show.line, body, rest', K, ltxts, p2, n, dis. rewrite <- !app_assoc.
        cbn [s_ String.list_ascii_of_string app]. rewrite <- ?app_assoc. reflexivity. }
      rewrite HT in *.
      set (bw := mkword ["{"] QN line).
      destruct (PL4_of_P4 lvl w ks IH p2 Hks orc rest' (S (length (K ++ rest'))) (S line) (S nid) true (Some bw) 0 None []
                  Hp2 (follow_brace p _ Hp) (Nat.lt_succ_diag_r _))
        as (ks' & line' & nid' & prev' & active' & acc' & Hfl & Her & Hc).
      fold K in Hc. cbn [flushed] in Hfl. rewrite app_nil_r in Hfl.
      set (X := p ++ bang dis ++ n ++ " " :: "{" :: body) in *.
      assert (Hin : cobj orc (S (length X)) body line (S nid) true (Some bw) 0 None []
                    = Ok (ks', nl :: rest, line', nid')).
      { assert (Hb : length body < S (length X)).
        { unfold X. rewrite !app_length. cbn [length]. lia. }
        pose proof (cobj_pos_eq orc (S (length X)) (S (length (K ++ rest'))) body line (K ++ rest') (S line)
                      (S nid) true (Some bw) 0 None [] (nw_nl s0 _ line) Hb (Nat.lt_succ_diag_r _)) as H1.
        cbn [eqres] in H1. rewrite H1.
        specialize (Hc (S (length rest')) (Nat.lt_succ_diag_r _)). cbn [eqres] in Hc. rewrite Hc.
        unfold rest'. rewrite (cobj_close_brace orc _ p (nl :: rest) line' nid' (Some bw) prev' active' acc' Hp).
        rewrite Hfl, rev_involutive. reflexivity. }
      set (sc := Scp (mkhdr n dis 0 false nid line) ks' []).
      exists sc, (S line'), nid', line, None, (sc :: flushed active acc).
      split; [reflexivity|]. split.
      * unfold sc. cbn [erase_obj eraseL]. unfold n, dis. rewrite (erase_hdr_parsed h nid line Hh), Her, Ern. reflexivity.
      * intros g Hg.
        rewrite (cobj_fuel_enough orc f (S (S (length X))) X) by lia.
        unfold X at 2.
        rewrite (cobj_scope_step orc (S (length X)) p dis n body line nid stop start prev active acc
                   ks' (nl :: rest) line' nid' Hp Hn Hin).
        fold sc.
        apply cobj_pos_eq; [apply nw_nl| |exact Hg].
        unfold X, body, rest'. rewrite !app_length. cbn [length]. rewrite !app_length. cbn [length]. lia.
    + (* visible attributes: name, attribute lines, "{" *)
      destruct (vis_head_visible lvl a scope_attr_names n1 r Evis) as (Hv1 & Hin1 & Hinr).
      rewrite Forall_forall in Hgood.
      destruct (Hgood n1 Hin1) as (Hid1 & Hmem1 & Hw1 & Has1).
      assert (Hgr : Forall (good_scope orc a) r).
      { apply Forall_forall. intros x Hx. apply Hgood, Hinr, Hx. }
      set (v1 := get_attr n1 a) in *.
      assert (Eal : alines lvl p scope_attr_names a = aline p n1 v1 ++ alines lvl p r a).
      { rewrite alines_vis, Evis. unfold alines at 1. cbn [flat_map]. fold v1. rewrite Hv1. reflexivity. }
      assert (Ern : renormL lvl scope_attr_names a = renormL_from lvl a r (set_attr n1 v1 [])).
      { unfold renormL. rewrite renormL_vis, Evis. unfold renormL_from at 1. cbn [fold_left]. fold v1. rewrite Hv1.
        reflexivity. }
      set (tl1 := " " :: "=" :: " " :: str_of_word (rw v1) ++ nl :: alines lvl p r a ++ p ++ "{" :: body).
      set (hdrtail := nl :: p2 ++ "." :: n1 ++ tl1).
      assert (HT : ltxt lvl w p (Scp h ks a) ++ rest = p ++ bang dis ++ n ++ hdrtail).
      { cbn [ltxt]. unfold scope_open. rewrite Eal.
        destruct (aline p n1 v1 ++ alines lvl p r a) as [|c0 al0] eqn:E2.
        { apply (f_equal (@List.length ascii)) in E2. rewrite app_length in E2.
          pose proof (aline_len p n1 v1). cbn [length] in E2. lia. }
        rewrite <- E2.
        unfold hdrtail, tl1. rewrite <- (aline_split p n1 v1).
        unfold Show.line, body, rest', K, ltxts, p2, n, dis. rewrite <- !app_assoc.
        cbn [app]. rewrite <- ?app_assoc. reflexivity. }
      rewrite HT in *.
      assert (Hnw1 : nw s0 false hdrtail line = TWord (mkword ("." :: n1) QN (S line)) tl1 (S line)).
      { unfold hdrtail. rewrite nw_nl. apply nw_s0_dot; [exact Hp2|exact Hid1|reflexivity]. }
      destruct (sattrs_alines lvl orc a r Hgr p n1 v1 body (S (length tl1)) (S line) []
                  Hp Hid1 Hmem1 Hw1 Has1 (Nat.lt_succ_diag_r _)) as (lb & Hsat).
      fold tl1 in Hsat. rewrite <- Ern in Hsat.
      set (bw := mkword ["{"] QN lb) in *.
      destruct (PL4_of_P4 lvl w ks IH p2 Hks orc rest' (S (length (K ++ rest'))) (S lb) (S nid) true (Some bw) 0 None []
                  Hp2 (follow_brace p _ Hp) (Nat.lt_succ_diag_r _))
        as (ks' & line' & nid' & prev' & active' & acc' & Hfl & Her & Hc).
      fold K in Hc. cbn [flushed] in Hfl. rewrite app_nil_r in Hfl.
      set (X := p ++ bang dis ++ n ++ hdrtail) in *.
      assert (Hin : cobj orc (S (length X)) body lb (S nid) true (Some bw) 0 None []
                    = Ok (ks', nl :: rest, line', nid')).
      { assert (Hb : length body < S (length X)).
        { unfold X, hdrtail, tl1. alen. lia. }
        pose proof (cobj_pos_eq orc (S (length X)) (S (length (K ++ rest'))) body lb (K ++ rest') (S lb)
                      (S nid) true (Some bw) 0 None [] (nw_nl s0 _ lb) Hb (Nat.lt_succ_diag_r _)) as H1.
        cbn [eqres] in H1. rewrite H1.
        specialize (Hc (S (length rest')) (Nat.lt_succ_diag_r _)). cbn [eqres] in Hc. rewrite Hc.
        unfold rest'. rewrite (cobj_close_brace orc _ p (nl :: rest) line' nid' (Some bw) prev' active' acc' Hp).
        rewrite Hfl, rev_involutive. reflexivity. }
      set (sc := Scp (mkhdr n dis 0 false nid line) ks' (renormL lvl scope_attr_names a)).
      exists sc, (S line'), nid', line, None, (sc :: flushed active acc).
      split; [reflexivity|]. split.
      * unfold sc. cbn [erase_obj eraseL]. unfold n, dis. rewrite (erase_hdr_parsed h nid line Hh), Her. reflexivity.
      * intros g Hg.
        rewrite (cobj_fuel_enough orc f (S (S (length X))) X) by lia.
        unfold X at 2.
        rewrite (cobj_scope_step_attrs orc (S (length X)) p dis n hdrtail line nid stop start prev active acc
                   (mkword ("." :: n1) QN (S line)) tl1 (S line)
                   (renormL lvl scope_attr_names a) bw body lb ks' (nl :: rest) line' nid'
                   Hp Hn eq_refl Hnw1 eq_refl eq_refl Hsat Hin).
        fold sc.
        apply cobj_pos_eq; [apply nw_nl| |exact Hg].
        unfold X, hdrtail, tl1, body, rest'. alen. lia.
Qed.

Theorem PL4_all : forall lvl w l, PL4 lvl w l.
Proof. intros lvl w l. apply PL4_of_P4. apply Forall_forall. intros o _. apply P4_all. Qed.

(* print at attributes level lvl >= 1 -> parse *)
Theorem parse_show_levels : forall lvl o l w p text, (0 <? lvl)%Z = true ->
  forallb (stree_ok w p) l = true -> blank p ->
  show_objs l p None lvl w = Ok text ->
  exists l', parse o text = Ok l' /\ map erase_obj l' = map (eraseL lvl) l.
Proof.
  intros lvl o l w p text0 Hlvl Hok Hp H. rewrite (show_objs_ltxts lvl w l p Hlvl Hok) in H.
  assert (Ht : text0 = ltxts lvl w p l) by congruence. subst text0.
  set (text := ltxts lvl w p l).
  destruct (PL4_all lvl w l p Hok o [] (S (S (length text))) 1 1 false None 0 None [] Hp (follow_blank [] eq_refl))
    as (l' & line' & nid' & prev' & active' & acc' & Hfl & Her & Hc).
  { fold text. rewrite app_nil_r. lia. }
  exists l'. split; [|exact Her].
  specialize (Hc 1 (Nat.lt_succ_diag_r _)). cbn [eqres] in Hc. fold text in Hc. rewrite app_nil_r in Hc.
  rewrite parse_noline, Hc. cbn [cobj nw cobj_noline].
  change (match active' with Some d => d :: acc' | None => acc' end) with (flushed active' acc').
  rewrite Hfl. cbn [flushed]. rewrite app_nil_r, rev_involutive. reflexivity.
Qed.

(* ====================================================================================== *)
(* 5. the expert filter on this domain                                                      *)
(* ====================================================================================== *)

Lemma stree_ok_tree_ok : forall w o p, stree_ok w p o = true -> tree_ok o = true.
Proof.
  intros w o. induction o as [h ws a|h ks a IH] using obj_ind2; intros p H; cbn [stree_ok tree_ok] in *.
  - apply andb_prop in H as [H Ha]. apply andb_prop in H as [H Hw]. apply andb_prop in H as [Hh Hn].
    rewrite Hh, Hw, (sdef_not_deprecated w p a Ha). destruct ws; [discriminate Hn|reflexivity].
  - apply andb_prop in H as [H Hks]. apply andb_prop in H as [Hh _]. rewrite Hh. cbn [andb].
    apply forallb_forall. intros c Hc. rewrite Forall_forall in IH. rewrite forallb_forall in Hks.
    exact (IH c Hc _ (Hks c Hc)).
Qed.

Lemma strees_dtrees : forall w p l, forallb (stree_ok w p) l = true -> forallb (dtree_ok []) l = true.
Proof.
  intros w p l H. apply forallb_forall. intros x Hx. rewrite forallb_forall in H.
  apply tree_ok_dtree_ok, (stree_ok_tree_ok w x p), H, Hx.
Qed.
Lemma strees_shape : forall w p l, forallb (stree_ok w p) l = true -> forallb shape_ok l = true.
Proof.
  intros w p l H. apply forallb_forall. intros x Hx. pose proof (strees_dtrees w p l H) as Hd.
  rewrite forallb_forall in Hd. exact (dtree_shape_ok x [] (Hd x Hx)).
Qed.

Theorem prune_keeps_stree_ok : forall w k o p, stree_ok w p o = true -> forallb (stree_ok w p) (prune k o) = true.
Proof.
  intros w k o. induction o as [h ws a|h ks a IH] using obj_ind2; intros p H.
  - cbn [prune]. destruct (hidden_k a k); [reflexivity|]. cbn [forallb]. rewrite H. reflexivity.
  - cbn [prune]. destruct (hidden_k a k); [reflexivity|].
    assert (Hscp : stree_ok w p (Scp h (flat_map (prune k) ks) a) = true).
    { cbn [stree_ok] in *. apply andb_prop in H as [H Hkids]. rewrite H. cbn [andb].
      apply forallb_forall. intros x Hx. apply in_flat_map in Hx as (c & Hc & Hx).
      rewrite Forall_forall in IH. rewrite forallb_forall in Hkids.
      specialize (IH c Hc _ (Hkids c Hc)). rewrite forallb_forall in IH. exact (IH x Hx). }
    destruct (first_merges ks).
    + destruct (flat_map (prune k) ks) eqn:E; [reflexivity|]. cbn [forallb]. rewrite Hscp. reflexivity.
    + cbn [forallb]. rewrite Hscp. reflexivity.
Qed.

Lemma shown_keeps_stree_ok : forall w p e l, forallb (stree_ok w p) l = true -> forallb (stree_ok w p) (shown e l) = true.
Proof.
  intros w p [k|] l H; [|exact H]. cbn [shown]. unfold prunes.
  apply forallb_forall. intros x Hx. apply in_flat_map in Hx as (c & Hc & Hx).
  rewrite forallb_forall in H. assert (H' := prune_keeps_stree_ok w k c p (H c Hc)).
  rewrite forallb_forall in H'. exact (H' x Hx).
Qed.

Definition width_of (w:option Z) : Z := match w with Some w => w | None => default_width end.

(* THE FILTERED TEXT PARSES TO EXACTLY THE ALLOWED SUB-TREE, at every attributes level >= 1, string-valued
   attributes included; no hypothesis on the filter setting *)
Theorem filtered_text_parses_levels : forall lvl o l e w text, (0 <? lvl)%Z = true ->
  forallb (stree_ok (width_of w) []) l = true ->
  as_str l [] e lvl w = Ok text ->
  exists l', parse o text = Ok l' /\ map erase_obj l' = map (eraseL lvl) (shown e l).
Proof.
  intros lvl o l e w text Hlvl Hok H. unfold as_str in H. fold (width_of w) in H.
  apply (parse_show_levels lvl o (shown e l) (width_of w) [] text Hlvl
           (shown_keeps_stree_ok _ _ e l Hok) blank_nil).
  destruct e as [k|]; [|exact H]. cbn [shown].
  apply show_objs_expert_ok_is_prune; [exact (strees_shape _ _ l Hok)|exact H].
Qed.

Lemma erase_all_eraseL : forall lvl o, erase_all (eraseL lvl o) = erase_all o.
Proof.
  intros lvl o. induction o as [h ws a|h ks a IH] using obj_ind2; cbn [eraseL erase_all].
  - rewrite erase_words_idem. reflexivity.
  - rewrite (map_map_Forall erase_all (eraseL lvl) erase_all ks IH). reflexivity.
Qed.

(* the skeleton (attributes, ids, lines erased) of the tree re-parsed from the level-lvl text, any lvl >= 0 *)
Theorem reparsed_skeleton : forall lvl o l e w text l', (0 <=? lvl)%Z = true ->
  forallb (stree_ok (width_of w) []) l = true ->
  as_str l [] e lvl w = Ok text -> parse o text = Ok l' ->
  map erase_all l' = map erase_all (shown e l).
Proof.
  intros lvl o l e w text l' Hlvl Hok H P.
  destruct (0 <? lvl)%Z eqn:Epos.
  - destruct (filtered_text_parses_levels lvl o l e w text Epos Hok H) as (l2 & P2 & E2).
    rewrite P in P2. injection P2 as <-.
    rewrite <- (maps_pointwise erase_all erase_obj erase_all l' erase_all_erase_obj), E2.
    apply maps_pointwise, erase_all_eraseL.
  - assert (lvl = 0%Z) by (apply Z.leb_le in Hlvl; apply Z.ltb_ge in Epos; lia). subst lvl.
    destruct (filtered_text_parses_level0_ok o l e w text (strees_dtrees _ _ l Hok) H) as (l2 & P2 & E2).
    rewrite P in P2. injection P2 as <-.
    rewrite <- (maps_pointwise erase_all erase_obj erase_all l' erase_all_erase_obj), E2.
    apply maps_pointwise, erase_all_idem.
Qed.

(* THE TREES RE-PARSED FROM ANY TWO ATTRIBUTES LEVELS >= 0 AGREE ONCE ATTRIBUTES ARE IGNORED: same tree, same
   filter; the widths and oracles of the two runs may differ (each string attribute has to fit at the width
   of the run that prints it) *)
Theorem reparsed_any_levels_agree : forall la lb oa ob l e wa wb ta tb l1 l2,
  (0 <=? la)%Z = true -> (0 <=? lb)%Z = true ->
  forallb (stree_ok (width_of wa) []) l = true -> forallb (stree_ok (width_of wb) []) l = true ->
  as_str l [] e la wa = Ok ta -> parse oa ta = Ok l1 ->
  as_str l [] e lb wb = Ok tb -> parse ob tb = Ok l2 ->
  map erase_all l1 = map erase_all l2.
Proof.
  intros la lb oa ob l e wa wb ta tb l1 l2 Ha Hb Hoa Hob H1 P1 H2 P2.
  rewrite (reparsed_skeleton la oa l e wa ta l1 Ha Hoa H1 P1), (reparsed_skeleton lb ob l e wb tb l2 Hb Hob H2 P2).
  reflexivity.
Qed.

Lemma stree_ok_experts_ok : forall w x p, stree_ok w p x = true -> experts_ok x = true.
Proof.
  intros w x. induction x as [h ws a|h ks a IH] using obj_ind2; intros p H; cbn [stree_ok experts_ok] in *.
  - apply andb_prop in H as [_ Ha]. rewrite forallb_forall in Ha.
    assert (Hin : In (s_ "expert_level") def_attr_names) by (unfold def_attr_names; cbn [In]; tauto).
    specialize (Ha _ Hin). unfold expert_ok.
    destruct (get_attr (s_ "expert_level") a); try reflexivity; discriminate Ha.
  - apply andb_prop in H as [H Hks]. apply andb_prop in H as [_ Ha]. rewrite forallb_forall in Ha.
    assert (Hin : In (s_ "expert_level") scope_attr_names) by (unfold scope_attr_names; cbn [In]; tauto).
    specialize (Ha _ Hin).
    assert (He : expert_ok a = true).
    { unfold expert_ok. destruct (get_attr (s_ "expert_level") a); try reflexivity; discriminate Ha. }
    rewrite He. cbn [andb].
    apply forallb_forall. intros c Hc. rewrite Forall_forall in IH. rewrite forallb_forall in Hks.
    exact (IH c Hc _ (Hks c Hc)).
Qed.

(* both prints succeed and parse on the domain *)
Theorem reparsed_levels_defined : forall lvl o l e w, (0 <? lvl)%Z = true ->
  forallb (stree_ok (width_of w) []) l = true ->
  exists text l', as_str l [] e lvl w = Ok text /\ parse o text = Ok l'.
Proof.
  intros lvl o l e w Hlvl Hok.
  assert (T : exists t, as_str l [] e lvl w = Ok t).
  { unfold as_str. fold (width_of w).
    pose proof (show_objs_ltxts lvl (width_of w) (shown e l) [] Hlvl (shown_keeps_stree_ok _ _ e l Hok)) as Hs.
    destruct e as [k|]; [|eexists; exact Hs]. cbn [shown] in Hs.
    assert (Hexp : forallb experts_ok l = true).
    { apply forallb_forall. intros x Hx. rewrite forallb_forall in Hok. exact (stree_ok_experts_ok _ x _ (Hok x Hx)). }
    rewrite (show_objs_expert_is_prune k l (dtrees_wf_show l (strees_dtrees _ _ l Hok) Hexp)).
    eexists. exact Hs. }
  destruct T as (t & Ht).
  destruct (filtered_text_parses_levels lvl o l e w t Hlvl Hok Ht) as (l' & P & _).
  exists t, l'. split; assumption.
Qed.

Print Assumptions parse_show_levels.
Print Assumptions filtered_text_parses_levels.
Print Assumptions reparsed_any_levels_agree.
Print Assumptions reparsed_levels_defined.

(* ====================================================================================== *)
(* 6. level 3 in the terms of TreeRoundtrip.erase3; levels 2 and 3 give the same attributes *)
(* ====================================================================================== *)

Lemma visible3_skipb : forall n v, attr_visible n v 3 = negb (skipb n v).
Proof.
  intros n v. unfold attr_visible, skipb. cbv zeta. change (2 <? 3)%Z with true. rewrite orb_true_r. cbn [andb].
  replace (match v with ANone => true | _ => false end) with (is_none v) by reflexivity.
  rewrite negb_orb. reflexivity.
Qed.

Lemma renormL3_from : forall a ns acc, renormL_from 3 a ns acc = renorm_from a ns acc.
Proof.
  intros a; induction ns as [|n r IH]; intros acc; [reflexivity|].
  unfold renormL_from, renorm_from in *. cbn [fold_left]. rewrite visible3_skipb.
  destruct (skipb n (get_attr n a)); cbn [negb]; apply IH.
Qed.

Lemma eraseL3 : forall o, eraseL 3 o = erase3 o.
Proof.
  intros o. induction o as [h ws a|h ks a IH] using obj_ind2; cbn [eraseL erase3].
  - unfold renormL, renorm. rewrite renormL3_from. reflexivity.
  - unfold renormL, renorm. rewrite renormL3_from. f_equal.
    induction IH as [|c r Hc Hr IHr]; [reflexivity|]. cbn [map]. rewrite Hc, IHr. reflexivity.
Qed.

Theorem filtered_text_parses_level3_strings : forall o l e w text,
  forallb (stree_ok (width_of w) []) l = true ->
  as_str l [] e 3 w = Ok text ->
  exists l', parse o text = Ok l' /\ map erase_obj l' = map erase3 (shown e l).
Proof.
  intros o l e w text Hok H.
  destruct (filtered_text_parses_levels 3 o l e w text eq_refl Hok H) as (l' & P & E).
  exists l'. split; [exact P|]. rewrite E. apply map_ext. exact eraseL3.
Qed.

(* the old domain is inside the new one, at every width and prefix *)
Theorem atree_ok_stree_ok : forall w o p, atree_ok o = true -> stree_ok w p o = true.
Proof.
  intros w o. induction o as [h ws a|h ks a IH] using obj_ind2; intros p H; cbn [atree_ok stree_ok] in *.
  - apply andb_prop in H as [H Ha]. rewrite H. cbn [andb].
    apply forallb_forall. intros n Hn. rewrite forallb_forall in Ha. specialize (Ha n Hn).
    destruct (get_attr n a); try exact Ha; discriminate Ha.
  - apply andb_prop in H as [H Hks]. apply andb_prop in H as [Hh Ha]. rewrite Hh. cbn [andb].
    apply andb_true_intro. split.
    + apply forallb_forall. intros n Hn. rewrite forallb_forall in Ha. specialize (Ha n Hn).
      destruct (get_attr n a); try exact Ha; discriminate Ha.
    + apply forallb_forall. intros c Hc. rewrite Forall_forall in IH. rewrite forallb_forall in Hks.
      exact (IH c Hc _ (Hks c Hc)).
Qed.

Print Assumptions filtered_text_parses_level3_strings.
Print Assumptions atree_ok_stree_ok.

(* ====================================================================================== *)
(* 7. examples                                                                              *)
(* ====================================================================================== *)

Definition sa_h (n:string) : hdr := mkhdr (s_ n) false 0 false 0 0.
(* a scope with a help text; a definition whose help text contains blanks and a quote, a bare .style,
   a help text that reads "None" (has to be quoted), a caption with a newline *)
Definition sa_tree : list obj :=
  [Scp (sa_h "s")
     [Def (sa_h "x") [mkword (s_ "1") QN 0]
        [(s_ "help", AStr (s_ "say ""hi"" there")); (s_ "expert_level", AInt 1); (s_ "style", AStr (s_ "bold"))];
      Def (sa_h "y") [mkword (s_ "2") QN 0]
        [(s_ "help", AStr (s_ "None")); (s_ "caption", AStr (s_ "a
b"))]]
     [(s_ "help", AStr (s_ "scope help")); (s_ "expert_level", AInt 0)]].
Definition sa_text (lvl:Z) (e:option Z) (w:option Z) : str :=
  match as_str sa_tree [] e lvl w with Ok t => t | _ => [] end.
Definition sa_parsed (lvl:Z) (e:option Z) (w:option Z) : list obj :=
  match parse [] (sa_text lvl e w) with Ok l => l | _ => [] end.

Example sa_in_domain : forallb (stree_ok default_width []) sa_tree = true /\ forallb atree_ok sa_tree = false.
Proof. vm_compute. split; reflexivity. Qed.

Example sa_level2_text : as_str sa_tree [] (Some 0%Z) 2 None = Ok (s_ "s
  .help = ""scope help""
  .expert_level = 0
{
  y = 2
    .help = ""None""
    .caption = ""a
b""
}
").
Proof. vm_compute. reflexivity. Qed.

Example sa_roundtrips :
  map erase_obj (sa_parsed 3 None None) = map erase3 sa_tree
  /\ map erase_obj (sa_parsed 2 None None) = map erase3 sa_tree
  /\ map erase_obj (sa_parsed 1 None None) = map (eraseL 1) sa_tree
  /\ map erase_obj (sa_parsed 3 (Some 0%Z) None) = map erase3 (prunes 0 sa_tree)
  /\ map erase_all (sa_parsed 1 (Some 0%Z) None) = map erase_all (sa_parsed 3 (Some 0%Z) None)
  /\ map erase_all (sa_parsed 0 (Some 0%Z) None) = map erase_all (sa_parsed 2 (Some 0%Z) None)
  /\ length (prunes 0 sa_tree) = 1 /\ map erase_all (prunes 0 sa_tree) <> map erase_all sa_tree.
Proof. vm_compute. repeat split. intros H. discriminate H. Qed.

(* outside the domain, 1: a text that is wrapped does not come back as the same attribute value - at width 20
   the caption "a<newline>b" of y is printed through textwrap and re-parses as "a b" *)
Example wrapped_differs :
  forallb (stree_ok 20 []) sa_tree = false
  /\ map erase_obj (sa_parsed 3 None (Some 20%Z)) <> map erase3 sa_tree
  /\ map erase_all (sa_parsed 3 None (Some 20%Z)) = map erase_all sa_tree.
Proof. vm_compute. repeat split. intros H. discriminate H. Qed.

(* outside the domain, 2: a deprecated definition is printed at level 3 only (by design of the printer), so
   the trees re-parsed from level 2 and level 3 differ *)
Definition sa_dep : list obj :=
  [Def (sa_h "x") [mkword (s_ "1") QN 0] [(s_ "deprecated", AStr (s_ "True"))]; Def (sa_h "y") [mkword (s_ "2") QN 0] []].
Example deprecated_levels_differ :
  forallb (stree_ok default_width []) sa_dep = false
  /\ as_str sa_dep [] None 2 None = Ok (s_ "y = 2
")
  /\ as_str sa_dep [] None 3 None = Ok (s_ "# WARNING: deprecated parameter
x = 1
  .help = None
  .caption = None
  .short_caption = None
  .optional = None
  .type = None
  .multiple = None
  .input_size = None
  .style = None
  .expert_level = None
  .deprecated = True
y = 2
  .help = None
  .caption = None
  .short_caption = None
  .optional = None
  .type = None
  .multiple = None
  .input_size = None
  .style = None
  .expert_level = None
").
Proof. vm_compute. repeat split. Qed.

Example deprecated_hidden_at_level2 :
  forallb (stree_ok default_width []) sa_dep = false
  /\ as_str sa_dep [] None 2 None = Ok (s_ "y = 2
").
Proof. vm_compute. split; reflexivity. Qed.

(* ---------- levels 2 and 3 rebuild the same attribute lists: level 3 additionally prints the unset attributes
   as 'None', which the parser reads as 'unset' *)
Lemma vis23 : forall n v, attr_visible n v 3 = true -> attr_visible n v 2 = false -> v = ANone.
Proof.
  intros n v H3 H2. destruct v; [reflexivity|..]; exfalso; unfold attr_visible in *; cbv zeta in *;
    change (1 <? 2)%Z with true in H2; change (2 <? 3)%Z with true in H3;
    cbn [negb andb orb] in *; rewrite ?andb_false_r, ?orb_true_r, ?andb_true_r in *; cbn [negb andb orb] in *;
    rewrite ?andb_true_r in *; congruence.
Qed.

Lemma renormL_23 : forall a ns acc, NoDup ns -> (forall n, In n ns -> del_attr n acc = acc) ->
  renormL_from 2 a ns acc = renormL_from 3 a ns acc.
Proof.
  intros a; induction ns as [|n r IH]; intros acc Hnd Hk; [reflexivity|].
  inversion Hnd as [|? ? Hnin Hnd']; subst.
  unfold renormL_from in *. cbn [fold_left].
  destruct (attr_visible n (get_attr n a) 2) eqn:E2.
  - rewrite (attr_visible_monotone n _ 2 3 ltac:(lia) E2).
    apply IH; [exact Hnd'|]. intros m Hm.
    pose proof (level2_set_attributes n _ E2) as Hne.
    assert (Hs : set_attr n (get_attr n a) acc = (n, get_attr n a) :: acc).
    { unfold set_attr. rewrite (Hk n (or_introl eq_refl)). destruct (get_attr n a); try reflexivity. contradiction Hne; reflexivity. }
    rewrite Hs. cbn [del_attr]. destruct (eqs n m) eqn:Enm.
    + apply eqs_true in Enm. subst m. contradiction.
    + rewrite (Hk m (or_intror Hm)). reflexivity.
  - destruct (attr_visible n (get_attr n a) 3) eqn:E3.
    + rewrite (vis23 n _ E3 E2). cbn [set_attr]. rewrite (Hk n (or_introl eq_refl)).
      apply IH; [exact Hnd'|]. intros m Hm. apply Hk. right. exact Hm.
    + apply IH; [exact Hnd'|]. intros m Hm. apply Hk. right. exact Hm.
Qed.

Lemma nodup_def : NoDup def_attr_names.
Proof. unfold def_attr_names. repeat constructor; cbn [In]; intros H; repeat (destruct H as [H|H]; [discriminate H|]); exact H. Qed.
Lemma nodup_scope : NoDup scope_attr_names.
Proof. unfold scope_attr_names. repeat constructor; cbn [In]; intros H; repeat (destruct H as [H|H]; [discriminate H|]); exact H. Qed.

Theorem eraseL_2_3 : forall o, eraseL 2 o = eraseL 3 o.
Proof.
  intros o. induction o as [h ws a|h ks a IH] using obj_ind2; cbn [eraseL].
  - unfold renormL. rewrite (renormL_23 a def_attr_names [] nodup_def (fun _ _ => eq_refl)). reflexivity.
  - unfold renormL. rewrite (renormL_23 a scope_attr_names [] nodup_scope (fun _ _ => eq_refl)). f_equal.
    induction IH as [|c r Hc Hr IHr]; [reflexivity|]. cbn [map]. rewrite Hc, IHr. reflexivity.
Qed.

Theorem filtered_text_parses_level2_strings : forall o l e w text,
  forallb (stree_ok (width_of w) []) l = true ->
  as_str l [] e 2 w = Ok text ->
  exists l', parse o text = Ok l' /\ map erase_obj l' = map erase3 (shown e l).
Proof.
  intros o l e w text Hok H.
  destruct (filtered_text_parses_levels 2 o l e w text eq_refl Hok H) as (l' & P & E).
  exists l'. split; [exact P|]. rewrite E. apply map_ext. intros x. rewrite eraseL_2_3. apply eraseL3.
Qed.
Print Assumptions eraseL_2_3.
Print Assumptions filtered_text_parses_level2_strings.

(* the unfiltered printer (expert_level absent): C01's statement for string-valued attributes *)
Lemma parse_as_str_level3_strings : forall o l w text,
  forallb (stree_ok (width_of w) []) l = true ->
  as_str l [] None 3 w = Ok text ->
  exists l', parse o text = Ok l' /\ map erase_obj l' = map erase3 l.
Proof. intros o l w text. exact (filtered_text_parses_level3_strings o l None w text). Qed.

Lemma parse_as_str_level2_strings : forall o l w text,
  forallb (stree_ok (width_of w) []) l = true ->
  as_str l [] None 2 w = Ok text ->
  exists l', parse o text = Ok l' /\ map erase_obj l' = map erase3 l.
Proof. intros o l w text. exact (filtered_text_parses_level2_strings o l None w text). Qed.
