(* C07: an extra FIRST source that is "like the master" changes nothing (fetch_scope_mlike).
   mlike covers the three readings of the property's clause:
     - a complete (parsed) copy of the master                      (mlike_copy)
     - the master object itself, with Python's identity skip        (mlike_unself, Model/EntryIdem.unself)
     - the master's own defaults, i.e. the result of fetch m []     (mlike_defaults)
   and, with no other source, "no source = fetching M". *)
From Coq Require Import List Ascii String Bool Arith ZArith Lia.
From Phil Require Import Base Tree Vars Choice ChoiceProofs ChoiceTop Fetch FetchBasics FetchShape FetchDisabled
  FetchIdemLists FetchIdemBase FetchIdem EntryFetch EntryIdem.
Import ListNotations.
Local Open Scope char_scope.

(* what the entry k of the master finds under its own name in the extra first source: [found] *)
Inductive mlike1 : obj -> list obj -> Prop :=
  | ml_def : forall h ws a h' a', omultiple (Def h ws a) = false -> mlike1 (Def h ws a) [Def h' ws a']
  | ml_scp : forall h kids a h' kids' a', omultiple (Scp h kids a) = false -> mlike kids kids' ->
      mlike1 (Scp h kids a) [Scp h' kids' a']
  | ml_mult_copy : forall k k', omultiple k = true -> same_body k' k -> oplain k' -> mlike1 k [k']
  | ml_mult_skip : forall k, omultiple k = true -> mlike1 k []
with mlike : list obj -> list obj -> Prop :=
  | ml_intro : forall ks mc, (forall k, In k (entries ks) -> mlike1 k (gview (onm k) mc)) -> mlike ks mc.

Section Copy.
  Variable env : str -> option str.
  Variable canon : obj -> option obj -> res str.
  Notation fsc := (fetch_scope env canon false).

  Lemma ev_srel : forall k rec mas s s', rec_ok rec -> srel s s' ->
    ev env canon false k rec mas s = ev env canon false k rec mas s'.
  Proof.
    intros k rec mas s s' Hrec Hs. unfold ev.
    pose proof (cand_fetch_srel env canon false k rec s s' Hrec Hs) as R.
    destruct (cand_fetch env canon false k rec s) as [[c u]| |]; destruct (cand_fetch env canon false k rec s') as [[c' u']| |];
      cbn in R; try contradiction.
    - subst c'. reflexivity.
    - destruct R as [A [B C]]. subst. reflexivity.
    - subst. reflexivity.
  Qed.

  Lemma evs_srel : forall k rec mas l l', rec_ok rec -> Forall2 srel l l' ->
    evs env canon false k rec mas l = evs env canon false k rec mas l'.
  Proof.
    intros k rec mas l l' Hrec H. induction H as [|s s' r r' Hs _ IH]; [reflexivity|].
    cbn [evs]. rewrite (ev_srel k rec mas s s' Hrec Hs), IH. reflexivity.
  Qed.

  Lemma fold_pstep_none : forall a b st, fold_left pstep (a ++ None :: b) st = fold_left pstep (a ++ b) st.
  Proof. intros. rewrite !fold_left_app. reflexivity. Qed.

  Lemma Forall2_srel_of_views : forall l l', map sl l = map sl l' -> lplain l -> lplain l' -> Forall2 srel l l'.
  Proof.
    intros l l' H P P'. pose proof (Forall2_map_eq _ _ sl _ _ H) as F. clear H.
    revert P P'. induction F as [|s s' r r' E _ IH]; intros P P'; constructor.
    - right. split; [exact E|]. split; [apply P; left; reflexivity|apply P'; left; reflexivity].
    - apply IH; unfold lplain; intros x Hx; [apply P|apply P']; right; exact Hx.
  Qed.

  (* the multiple branch with an extra candidate (or none) in front of the sources' candidates *)
  Lemma mult_branch_same : forall k rec mas S pre M2 M, canon k None = Ok mas -> rec_ok rec ->
    Forall2 srel M2 M ->
    (forall s, In s pre -> ev env canon false k rec mas s = Ok None) ->
    rmap fst (mult_loop env canon false k rec mas (map (pair true) S ++ map (pair false) (pre ++ M2)) [] [] []) =
    rmap fst (mult_loop env canon false k rec mas (map (pair true) S ++ map (pair false) M) [] [] []).
  Proof.
    intros k rec mas S pre M2 M Hmas Hrec HM Hpre.
    rewrite !(mult_loop_fold env canon false k rec mas Hmas _ (fun _ _ => eq_refl)). rewrite !map_app, !map_snd_pair.
    rewrite !evs_app. rewrite (evs_srel k rec mas M2 M Hrec HM).
    destruct (evs env canon false k rec mas S) as [eS| |]; cbn [bind rmap]; try reflexivity.
    assert (Hp : evs env canon false k rec mas pre = Ok (map (fun _ => None) pre)).
    { clear -Hpre. induction pre as [|s r IH]; [reflexivity|]. cbn [evs map].
      rewrite (Hpre s (or_introl eq_refl)). cbn [bind]. rewrite IH; [reflexivity|]. intros x Hx. apply Hpre. right. exact Hx. }
    rewrite Hp. cbn [bind]. destruct (evs env canon false k rec mas M) as [eM| |]; cbn [bind rmap]; try reflexivity.
    f_equal. clear. rewrite !fold_left_app. f_equal.
    induction pre as [|s r IH]; [reflexivity|]. cbn [map fold_left pstep]. exact IH.
  Qed.

  Definition rec_mlike (k:obj) (rec:list lsrc -> res fout) : Prop :=
    forall mcv comb comb2, mlike (okids k) mcv -> lplain comb -> lplain comb2 ->
      lview comb2 = strip_objs mcv ++ lview comb -> rrel same_tree (rec comb2) (rec comb).

  Lemma def_loop_cons_last : forall h mws a s r l l',
    def_loop env canon false h mws a (s :: r) l = def_loop env canon false h mws a (s :: r) l'.
  Proof. intros. reflexivity. Qed.

  Lemma fetch_one_mlike : forall allks chain i k rec srcs srcs2 found,
    odis (ohdr k) = false -> oplain k -> def_ok k ->
    (omultiple k = true -> exists c0 u0, cand_fetch env canon false k rec (mklsrc [] k []) = Ok (Some c0, u0) /\
                                         canon k (Some c0) = canon k None) ->
    rec_ok rec -> rec_mlike k rec ->
    lplain srcs -> lplain srcs2 -> mlike1 k found ->
    map sl (match_sources (onm k) srcs2) = found ++ map sl (match_sources (onm k) srcs) ->
    rrel same_tree (fetch_one env canon false allks chain i k rec srcs2) (fetch_one env canon false allks chain i k rec srcs).
  Proof.
    intros allks chain i k rec srcs srcs2 found Hact Hk Hok Hdef Hrok Hrml Hp Hp2 Hml Hv.
    unfold fetch_one. unfold onm in Hv.
    destruct (get_attr (s_ "alias") (oattrs k)); try (cbn; auto).
    destruct (oname (ohdr k)) as [|c0 nm] eqn:En; [cbn; auto|].
    pose proof (match_sources_plain (c0 :: nm) srcs Hp) as Hm.
    pose proof (match_sources_plain (c0 :: nm) srcs2 Hp2) as Hm2.
    set (M := match_sources (c0 :: nm) srcs) in *.
    destruct Hml as [h ws a h' a' Emu|h kids a h' kids' a' Emu Hkids|k k' Emu Hsb Hk'p|k Emu].
    - (* non-multiple definition: the first source carries the master's own words *)
      rewrite Emu. cbn [negb].
      destruct (match_sources (c0 :: nm) srcs2) as [|sK M2] eqn:EM2; [discriminate|].
      cbn [app map] in Hv. injection Hv as HvK HvM. unfold sl in HvK. apply strip_obj_def_inv in HvK.
      pose proof (Forall2_srel_of_views M2 M HvM (fun x Hx => Hm2 x (or_intror Hx)) Hm) as HF.
      cbn [def_loop]. unfold def_fetch at 1.
      rewrite (def_self_fetch env h ws a sK Hok (proj1 (oplain_def h ws a) Hk)) by (exists h', a'; exact HvK).
      cbn [bind]. rewrite (def_loop_srel env canon false h ws a M2 M _ HF).
      destruct M as [|s r].
      + cbn [def_loop bind]. destruct Hok as [_ [Hdep _]]. rewrite Hdep. simpl. unfold same_tree. reflexivity.
      + rewrite (def_loop_cons_last h ws a s r (Some (Def h ws a)) None).
        destruct (def_loop env canon false h ws a (s :: r) None) as [ro| |]; cbn [bind]; [|cbn; auto|cbn; auto].
        destruct ro; [simpl; unfold same_tree; reflexivity|]. destruct (odeprecated (Def h ws a)); simpl; unfold same_tree; reflexivity.
    - (* non-multiple scope *)
      rewrite Emu. cbn [negb].
      destruct (match_sources (c0 :: nm) srcs2) as [|sK M2] eqn:EM2; [discriminate|].
      cbn [app map] in Hv. injection Hv as HvK HvM. unfold sl in HvK.
      apply strip_obj_scp_inv in HvK. destruct HvK as [kids0 [ElK Ekids]].
      cbn [combine]. rewrite ElK. cbn [is_def].
      pose proof (combine_rel M2 M HvM) as R.
      destruct (combine M2) as [c2| |]; destruct (combine M) as [c1| |]; cbn in R; try contradiction; cbn [bind]; try exact R.
      destruct R as [E2 E1]. subst c2 c1.
      eapply rrel_bind.
      + apply (Hrml kids').
        * exact Hkids.
        * apply src_kids_plain. exact Hm.
        * intros x Hx. apply in_app_or in Hx. destruct Hx as [Hx|Hx].
          -- eapply src_kids_plain1; [|exact Hx]. apply Hm2. left. reflexivity.
          -- eapply (src_kids_plain M2); [|exact Hx]. intros y Hy. apply Hm2. right. exact Hy.
        * rewrite lview_app, lview_src_kids, !lview_flat_kids. unfold sl at 1. rewrite ElK, strip_obj_scp. cbn [okids].
          rewrite Ekids. rewrite HvM. f_equal.
          rewrite <- Ekids. symmetry. apply strip_objs_idem.
      + intros oc oc' E. unfold same_tree in E. rewrite E. simpl. unfold same_tree. reflexivity.
    - (* multiple: a copy of the entry comes first and is skipped by its text *)
      rewrite Emu. cbn [negb].
      destruct (canon k None) as [mas| |] eqn:Hmas; cbn [bind]; [|cbn; auto|cbn; auto].
      destruct (match_sources (c0 :: nm) srcs2) as [|sK M2] eqn:EM2; [discriminate|].
      cbn [app map] in Hv. injection Hv as HvK HvM.
      pose proof (Forall2_srel_of_views M2 M HvM (fun x Hx => Hm2 x (or_intror Hx)) Hm) as HF.
      assert (HevK : ev env canon false k rec mas sK = Ok None).
      { destruct (Hdef Emu) as [cd [ud [Hcd Hcn]]].
        assert (Hsim : ssim sK (mklsrc [] k [])).
        { split; [|split; [apply Hm2; left; reflexivity|exact Hk]]. cbn [lobj].
          eapply same_body_trans; [apply same_body_sym, same_body_strip|]. unfold sl in HvK. rewrite HvK. exact Hsb. }
        pose proof (cand_fetch_ssim env canon false k rec sK _ Hrok Hsim) as R. rewrite Hcd in R.
        destruct (cand_fetch env canon false k rec sK) as [[cT uT]| |] eqn:EcT; cbn in R; try contradiction. subst cT.
        unfold ev. rewrite EcT. cbn [bind fst]. unfold diff_skip. cbn [andb]. rewrite Hcn. rewrite ?Hmas. cbn [bind]. rewrite f_eqs_refl. reflexivity. }
      pose proof (mult_branch_same k rec mas (self_matching allks chain i (c0 :: nm)) [sK] M2 M Hmas Hrok HF) as B.
      cbn [app] in B. specialize (B (fun s Hs => match Hs with or_introl E => eq_ind _ (fun x => ev env canon false k rec mas x = Ok None) HevK _ E | or_intror F => match F with end end)).
      destruct (mult_loop env canon false k rec mas _ [] [] []) as [[[pd2 r2] u2]| |];
        destruct (mult_loop env canon false k rec mas _ [] [] []) as [[[pd1 r1] u1]| |]; cbn in B; try discriminate.
      + injection B as E1 E2. subst. cbn. reflexivity.
      + injection B as E1 E2 E3. subst. cbn. auto.
      + injection B as E1. subst. cbn. reflexivity.
    - (* multiple: nothing of the entry in the first source (identity skip) *)
      rewrite Emu. cbn [negb].
      destruct (canon k None) as [mas| |] eqn:Hmas; cbn [bind]; [|cbn; auto|cbn; auto].
      cbn [app] in Hv.
      pose proof (Forall2_srel_of_views _ M Hv Hm2 Hm) as HF.
      pose proof (mult_branch_same k rec mas (self_matching allks chain i (c0 :: nm)) [] _ M Hmas Hrok HF) as B.
      cbn [app] in B. specialize (B (fun s Hs => match Hs with end)).
      destruct (mult_loop env canon false k rec mas _ [] [] []) as [[[pd2 r2] u2]| |];
        destruct (mult_loop env canon false k rec mas _ [] [] []) as [[[pd1 r1] u1]| |]; cbn in B; try discriminate.
      + injection B as E1 E2. subst. cbn. reflexivity.
      + injection B as E1 E2 E3. subst. cbn. auto.
      + injection B as E1. subst. cbn. reflexivity.
  Qed.

  (* ---------------------------------------------------------------- the loop and the scope *)
  Lemma mloop_entries_rel : forall (body body':nat -> obj -> res fout) l seen i,
    (forall j k, In k (entries_from seen l) -> rrel same_tree (body j k) (body' j k)) ->
    rrel same_tree (mloop body seen i l) (mloop body' seen i l).
  Proof.
    intros body body' l. induction l as [|k r IH]; intros seen i Hb; [cbn; reflexivity|].
    cbn [mloop]. cbn [entries_from] in Hb. destruct (mao_step seen k) as [| |seen'].
    - apply IH. exact Hb.
    - cbn. auto.
    - eapply rrel_bind; [apply Hb; left; reflexivity|]. intros a b E.
      eapply rrel_bind; [apply IH; intros; apply Hb; right; assumption|]. intros a' b' E'.
      unfold same_tree in *. cbn. rewrite E, E'. reflexivity.
  Qed.

  Lemma fetch_scope_mlike : forall M, wfd env canon M -> oplain M -> forall chain, rec_mlike M (fsc M chain).
  Proof.
    induction M as [h ws a|h ks a IH] using obj_ind2; intros Hwf HM chain mcv comb comb2 Hml Hp Hp2 Hv.
    - cbn. reflexivity.
    - inversion Hwf as [|h0 ks0 a0 Hnd Hent]; subst.
      cbn [okids] in Hml. inversion Hml as [ks0 mc0 Hml1]; subst.
      cbn [fetch_scope]. pose proof (proj1 (oplain_scp h ks a) HM) as Hks. rewrite Forall_forall in IH.
      apply mloop_entries_rel. intros j k Hk.
      destruct (entries_active _ _ _ Hk) as [Hact Hin].
      destruct (Hent k Hk) as [_ [_ [Hmul Hw]]].
      assert (Hkp : oplain k) by (apply Hks; exact Hin).
      apply (fetch_one_mlike ks (ks :: chain) j k (fsc k (ks :: chain)) comb comb2 (gview (onm k) mcv) Hact Hkp (wfd_def_ok env canon _ Hw)).
      + intros Em. destruct (Hmul Em (ks :: chain)) as [c0 [u0 Hc0]]. eauto.
      + apply fetch_scope_view.
      + apply (IH _ Hin Hw Hkp).
      + exact Hp.
      + exact Hp2.
      + apply Hml1. exact Hk.
      + rewrite !match_sources_view, Hv, flat_map_app. reflexivity.
  Qed.

  (* an extra first source that is like the master changes nothing *)
  Theorem first_source_mlike : forall m mc srcs, D07 env canon m -> mlike m mc ->
    existsb obj_has_dollar mc = false -> srcs_have_dollar srcs = false ->
    fetch env canon false m (mc :: srcs) = fetch env canon false m srcs.
  Proof.
    intros m mc srcs [Hwf Hmp] Hml Hmc Hd. unfold fetch.
    change (rmap fst (fetch_root env canon false m (mc :: srcs)) = rmap fst (fetch_root env canon false m srcs)).
    apply rrel_eq. unfold fetch_root.
    apply (fetch_scope_mlike (root_scope m) Hwf (root_plain m Hmp) [] mc).
    - exact Hml.
    - apply lplain_root. exact Hd.
    - apply lplain_root. unfold srcs_have_dollar in *. cbn [existsb]. rewrite Hmc, Hd. reflexivity.
    - rewrite !lview_root. reflexivity.
  Qed.

  (* ---------------------------------------------------------------- instance 1: a complete copy of the master *)
  Lemma gview_other_act : forall n os, nodot n ->
    (forall o, In o os -> odis (ohdr o) = false -> onm o <> n /\ onm o <> []) -> gview n os = [].
  Proof.
    intros n os Hn. induction os as [|o r IH]; intros H; [reflexivity|].
    change (o :: r) with ([o] ++ r). rewrite gview_app.
    rewrite IH by (intros x Hx; apply H; right; exact Hx). rewrite app_nil_r.
    destruct (odis (ohdr o)) eqn:Hd.
    - unfold gview. cbn [strip_objs]. rewrite Hd. reflexivity.
    - destruct (H o (or_introl eq_refl) Hd) as [A B]. apply gview_one_other; assumption.
  Qed.

  Lemma gview_uniq : forall ks k, uniq_names ks -> In k ks -> odis (ohdr k) = false ->
    (forall x, In x ks -> odis (ohdr x) = false -> onm x <> []) -> nodot (onm k) ->
    gview (onm k) ks = [strip_obj k].
  Proof.
    intros ks k Hu Hin Hact Hne Hdot. apply in_split in Hin. destruct Hin as [a [b E]]. subst ks.
    unfold uniq_names in Hu. rewrite filter_app in Hu. cbn [filter] in Hu. unfold mactive at 2 in Hu. rewrite Hact in Hu. cbn [negb] in Hu.
    rewrite map_app in Hu. cbn [map] in Hu. apply NoDup_remove_2 in Hu.
    assert (Hoth : forall x, In x (a ++ b) -> odis (ohdr x) = false -> onm x <> onm k /\ onm x <> []).
    { intros x Hx Hd. split.
      - intros E. apply Hu. fold (onm k). rewrite <- E. rewrite <- map_app, <- filter_app.
        apply (in_map (fun k0 => oname (ohdr k0))). apply filter_In. split; [exact Hx|]. unfold mactive. rewrite Hd. reflexivity.
      - apply Hne; [|exact Hd]. apply in_app_or in Hx. apply in_or_app. destruct Hx as [Hx|Hx]; [left; exact Hx|right; right; exact Hx]. }
    change (k :: b) with ([k] ++ b). rewrite !gview_app.
    rewrite (gview_other_act (onm k) a Hdot) by (intros x Hx; apply Hoth; apply in_or_app; left; exact Hx).
    rewrite (gview_other_act (onm k) b Hdot) by (intros x Hx; apply Hoth; apply in_or_app; right; exact Hx).
    rewrite app_nil_r. cbn [app]. apply gview_one_same; [|reflexivity|exact Hact].
    apply Hne; [apply in_or_app; right; left; reflexivity|exact Hact].
  Qed.

  Lemma gview_strip : forall n mc, gview n (strip_objs mc) = gview n mc.
  Proof. intros. unfold gview. rewrite strip_objs_idem. reflexivity. Qed.

  Lemma mlike_strip : forall ks mc, mlike ks mc -> mlike ks (strip_objs mc).
  Proof. intros ks mc H. inversion H as [ks0 mc0 H1]; subst. constructor. intros k Hk. rewrite gview_strip. apply H1. exact Hk. Qed.

  Lemma wf_obj_kid : forall h ks a k, wf_obj (Scp h ks a) -> In k ks -> odis (ohdr k) = false -> wf_obj k.
  Proof.
    intros h ks a k [_ H] Hin Hd. induction ks as [|x r IH]; [destruct Hin|].
    destruct H as [Hx Hr]. destruct Hin as [E|Hin]; [subst; apply Hx; exact Hd|apply IH; assumption].
  Qed.

  Lemma active_names_nonempty : forall h ks a, wfd env canon (Scp h ks a) -> uniq_names ks ->
    forall x, In x ks -> odis (ohdr x) = false -> onm x <> [] /\ nodot (onm x).
  Proof.
    intros h ks a Hwf Hu x Hx Hd. inversion Hwf as [|h0 ks0 a0 Hnd Hent]; subst.
    assert (In x (entries ks)).
    { rewrite (entries_uniq ks Hu). apply filter_In. split; [exact Hx|]. unfold mactive. rewrite Hd. reflexivity. }
    destruct (Hent x H) as [A [B _]]. auto.
  Qed.

  Lemma mlike_copy : forall M, wfd env canon M -> wf_obj M -> oplain M -> mlike (okids M) (okids M).
  Proof.
    induction M as [h ws a|h ks a IH] using obj_ind2; intros Hwf Hu HM.
    - constructor. intros k [].
    - cbn [okids]. constructor. intros k Hk.
      destruct (entries_active _ _ _ Hk) as [Hact Hin].
      pose proof Hu as [Hun _].
      pose proof (active_names_nonempty _ _ _ Hwf Hun) as Hnames.
      rewrite (gview_uniq ks k Hun Hin Hact (fun x Hx Hd => proj1 (Hnames x Hx Hd)) (proj2 (Hnames k Hin Hact))).
      inversion Hwf as [|h0 ks0 a0 Hnd Hent]; subst. destruct (Hent k Hk) as [_ [_ [_ Hw]]].
      pose proof (proj1 (oplain_scp h ks a) HM k Hin) as Hkp.
      destruct (omultiple k) eqn:Em.
      + apply ml_mult_copy; [exact Em|apply same_body_strip|]. unfold oplain. apply strip_no_dollar_obj. exact Hkp.
      + destruct k as [h' ws' a'|h' kids a'].
        * cbn [strip_obj]. apply ml_def. exact Em.
        * rewrite strip_obj_scp. apply ml_scp; [exact Em|]. apply mlike_strip.
          rewrite Forall_forall in IH. apply (IH _ Hin Hw); [|exact Hkp].
          eapply wf_obj_kid; eassumption.
  Qed.

  (* C07_master_copy: a complete copy of the master as an extra first source *)
  Theorem master_copy : forall m srcs, D07 env canon m -> wf_master m -> srcs_have_dollar srcs = false ->
    fetch env canon false m (m :: srcs) = fetch env canon false m srcs.
  Proof.
    intros m srcs HD Hwf Hd. pose proof HD as [Hw Hmp]. apply first_source_mlike; try assumption.
    apply (mlike_copy (root_scope m) Hw Hwf (root_plain m Hmp)).
  Qed.

  (* C07_empty: no source at all = fetching a copy of the master *)
  Theorem empty_is_master : forall m, D07 env canon m -> wf_master m ->
    fetch env canon false m [] = fetch env canon false m [m].
  Proof. intros m HD Hwf. symmetry. apply master_copy; [exact HD|exact Hwf|reflexivity]. Qed.

  (* ---------------------------------------------------------------- instance 2: the master object itself *)
  Definition upiece (k:obj) : list obj :=
    if odis (ohdr k) then [k] else if omultiple k then [] else [unself_obj k].

  Lemma unself_list_uniq : forall l seen,
    (forall k, In k l -> odis (ohdr k) = false -> seen_get (oname (ohdr k)) seen = None) ->
    uniq_names l -> unself_list unself_obj seen l = flat_map upiece l.
  Proof.
    induction l as [|k r IH]; intros seen Hs Hu; [reflexivity|].
    cbn [unself_list flat_map]. unfold mao_step, upiece at 1. unfold uniq_names in Hu. cbn [filter] in Hu. unfold mactive at 1 in Hu.
    destruct (odis (ohdr k)) eqn:Ed; cbn [negb] in *.
    - cbn [app]. f_equal. apply IH; [intros; apply Hs; [right; assumption|assumption]|exact Hu].
    - rewrite (Hs k (or_introl eq_refl) Ed). f_equal.
      cbn [map] in Hu. inversion Hu as [|x l' Hnin Hnd]; subst.
      apply IH; [|exact Hnd].
      intros k' Hk' Hd'. rewrite seen_get_app_none by (apply Hs; [right; assumption|assumption]).
      cbn. destruct (eqs (oname (ohdr k)) (oname (ohdr k'))) eqn:E; [|reflexivity].
      apply f_eqs_eq in E. exfalso. apply Hnin. rewrite E. apply in_map_iff. exists k'. split; [reflexivity|].
      apply filter_In. split; [exact Hk'|]. unfold mactive. rewrite Hd'. reflexivity.
  Qed.

  Lemma unself_obj_hdr : forall o, ohdr (unself_obj o) = ohdr o.
  Proof. destruct o; reflexivity. Qed.

  Lemma upiece_names : forall x y, In y (upiece x) -> ohdr y = ohdr x.
  Proof.
    intros x y H. unfold upiece in H. destruct (odis (ohdr x)); [destruct H as [E|[]]; subst; reflexivity|].
    destruct (omultiple x); [destruct H|]. destruct H as [E|[]]. subst. apply unself_obj_hdr.
  Qed.

  Lemma gview_unself : forall ks k, uniq_names ks -> In k ks -> odis (ohdr k) = false ->
    (forall x, In x ks -> odis (ohdr x) = false -> onm x <> []) -> nodot (onm k) ->
    gview (onm k) (flat_map upiece ks) = gview (onm k) (upiece k).
  Proof.
    intros ks k Hu Hin Hact Hne Hdot. apply in_split in Hin. destruct Hin as [a [b E]]. subst ks.
    unfold uniq_names in Hu. rewrite filter_app in Hu. cbn [filter] in Hu. unfold mactive at 2 in Hu. rewrite Hact in Hu. cbn [negb] in Hu.
    rewrite map_app in Hu. cbn [map] in Hu. apply NoDup_remove_2 in Hu.
    assert (Hoth : forall l, (forall x, In x l -> In x (a ++ b)) -> gview (onm k) (flat_map upiece l) = []).
    { intros l Hl. apply gview_other_act; [exact Hdot|]. intros y Hy Hd.
      apply in_flat_map in Hy. destruct Hy as [x [Hx Hy]]. apply upiece_names in Hy.
      unfold onm. rewrite Hy. rewrite Hy in Hd. split.
      - intros E. apply Hu. rewrite <- E. rewrite <- map_app, <- filter_app.
        apply (in_map (fun k0 => oname (ohdr k0))). apply filter_In. split; [apply Hl; exact Hx|]. unfold mactive. rewrite Hd. reflexivity.
      - apply (Hne x); [|exact Hd]. specialize (Hl x Hx). apply in_app_or in Hl. apply in_or_app.
        destruct Hl as [Hl|Hl]; [left; exact Hl|right; right; exact Hl]. }
    rewrite flat_map_app. cbn [flat_map]. rewrite !gview_app.
    rewrite (Hoth a) by (intros; apply in_or_app; left; assumption).
    rewrite (Hoth b) by (intros; apply in_or_app; right; assumption).
    rewrite app_nil_r. reflexivity.
  Qed.

  Lemma mlike_unself : forall M, wfd env canon M -> wf_obj M -> oplain M ->
    mlike (okids M) (okids (unself_obj M)).
  Proof.
    induction M as [h ws a|h ks a IH] using obj_ind2; intros Hwf Hu HM.
    - constructor. intros k [].
    - cbn [okids unself_obj]. constructor. intros k Hk.
      destruct (entries_active _ _ _ Hk) as [Hact Hin].
      pose proof Hu as [Hun _].
      pose proof (active_names_nonempty _ _ _ Hwf Hun) as Hnames.
      rewrite (unself_list_uniq ks [] (fun _ _ _ => eq_refl) Hun).
      rewrite (gview_unself ks k Hun Hin Hact (fun x Hx Hd => proj1 (Hnames x Hx Hd)) (proj2 (Hnames k Hin Hact))).
      inversion Hwf as [|h0 ks0 a0 Hnd Hent]; subst. destruct (Hent k Hk) as [Hne [_ [_ Hw]]].
      pose proof (proj1 (oplain_scp h ks a) HM k Hin) as Hkp.
      unfold upiece. rewrite Hact.
      destruct (omultiple k) eqn:Em.
      + apply ml_mult_skip. exact Em.
      + rewrite (gview_one_same (onm k) (unself_obj k) Hne); [|unfold onm; rewrite unself_obj_hdr; reflexivity|rewrite unself_obj_hdr; exact Hact].
        destruct k as [h' ws' a'|h' kids a'].
        * cbn [unself_obj strip_obj]. apply ml_def. exact Em.
        * cbn [unself_obj]. rewrite strip_obj_scp. apply ml_scp; [exact Em|]. apply mlike_strip.
          rewrite Forall_forall in IH. apply (IH _ Hin Hw); [|exact Hkp].
          eapply wf_obj_kid; eassumption.
  Qed.

  Lemma unself_plain : forall o, oplain o -> oplain (unself_obj o).
  Proof.
    induction o as [h ws a|h ks a IH] using obj_ind2; intros H; [exact H|].
    cbn [unself_obj]. apply oplain_scp. pose proof (proj1 (oplain_scp h ks a) H) as Hks.
    generalize (@nil obj) as seen. clear H. induction IH as [|k r Hk _ IHr]; intros seen x Hx; [destruct Hx|].
    cbn [unself_list] in Hx.
    assert (Hr : forall k0, In k0 r -> oplain k0) by (intros; apply Hks; right; assumption).
    destruct (mao_step seen k) as [| |seen'].
    - destruct Hx as [E|Hx]; [subst; apply Hks; left; reflexivity|]. eapply IHr; eassumption.
    - apply Hks. exact Hx.
    - apply in_app_or in Hx. destruct Hx as [Hx|Hx]; [|eapply IHr; eassumption].
      destruct (omultiple k); [destruct Hx|]. destruct Hx as [E|[]]. subst. apply Hk. apply Hks. left. reflexivity.
  Qed.

  (* C07_master_self: the master object itself (identity skip modelled by unself) as an extra first source *)
  Theorem master_self : forall m srcs, D07 env canon m -> wf_master m -> srcs_have_dollar srcs = false ->
    fetch env canon false m (unself m :: srcs) = fetch env canon false m srcs.
  Proof.
    intros m srcs HD Hwf Hd. pose proof HD as [Hw Hmp]. apply first_source_mlike; try assumption.
    - apply (mlike_unself (root_scope m) Hw Hwf (root_plain m Hmp)).
    - pose proof (unself_plain (root_scope m) (root_plain m Hmp)) as P. unfold oplain in P. cbn [unself_obj root_scope] in P.
      rewrite has_dollar_scp in P. exact P.
  Qed.

  (* ---------------------------------------------------------------- histories of re-fetches *)
  (* one cycle: the working parameters are fetched again - alone, after a complete copy of the master,
     or after the master object itself *)
  Inductive cycle (m:list obj) : list obj -> list obj -> Prop :=
    | cy_refetch : forall w w', fetch env canon false m [w] = Ok w' -> cycle m w w'
    | cy_copy : forall w w', fetch env canon false m [m; w] = Ok w' -> cycle m w w'
    | cy_self : forall w w', fetch env canon false m [unself m; w] = Ok w' -> cycle m w w'.
  Inductive cycles (m:list obj) : list obj -> list obj -> Prop :=
    | cys_nil : forall w, cycles m w w
    | cys_cons : forall w w1 w2, cycle m w w1 -> cycles m w1 w2 -> cycles m w w2.

  Theorem history : forall m srcs w w', D07 env canon m -> wf_master m -> srcs_have_dollar srcs = false ->
    fetch env canon false m srcs = Ok w -> cycles m w w' -> w' = w.
  Proof.
    intros m srcs w w' HD Hwf Hd H Hc.
    assert (Hw : fetch env canon false m [w] = Ok w) by (eapply refetch; eassumption).
    assert (Hp : srcs_have_dollar [w] = false) by (eapply fetch_result_plain; [apply HD|exact Hd|exact H]).
    clear H Hd srcs. induction Hc as [w|w w1 w2 Hs _ IH]; [reflexivity|].
    assert (E : w1 = w).
    { destruct Hs as [w w1 Hs|w w1 Hs|w w1 Hs].
      - rewrite Hw in Hs. injection Hs as E. auto.
      - rewrite (master_copy m [w] HD Hwf Hp), Hw in Hs. injection Hs as E. auto.
      - rewrite (master_self m [w] HD Hwf Hp), Hw in Hs. injection Hs as E. auto. }
    subst w1. apply IH; assumption.
  Qed.
End Copy.
