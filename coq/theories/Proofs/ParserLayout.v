(* C02 at the PARSER level: layout freedoms (blank runs, comment lines, terminators) and the
   exactness of the '!' prefix, proved about the parser model functions [caw], [sattrs], [cobj],
   [parse] themselves.
   T1  position extensionality   (the readers look at their position only through the first token)
   T2  fuel irrelevance          (more fuel never changes a result; enough fuel = any larger fuel)
   T3  blank runs / comment lines before any object or value are irrelevant
   T4  newline versus semicolon as terminator of a one-word value
   T5  '!' disables exactly the construct it precedes *)
From Coq Require Import List Ascii String Bool Arith ZArith Lia.
From Phil Require Import Base Tokenizer Tree Parser LexProofs ParserTotal.
Import ListNotations.
Local Open Scope char_scope.

(* ====================================================================================== *)
(* 0. small tools                                                                           *)
(* ====================================================================================== *)

Definition OOF {A} : res A := Crash (s_ "OutOfFuel").

(* the final line of a reader's result is the only place where the start line leaks when the
   input is exhausted; [cobj_noline] forgets it *)
Definition cobj_noline (r:res (list obj * str * nat * nat)) : res (list obj * str * nat) :=
  match r with Ok (objs, rest, _, n) => Ok (objs, rest, n) | UErr k t l => UErr k t l | Crash c => Crash c end.
Definition caw_noline (r:res (list word * str * nat)) : res (list word * str) :=
  match r with Ok (ws, rest, _) => Ok (ws, rest) | UErr k t l => UErr k t l | Crash c => Crash c end.

Lemma parse_noline : forall o s,
  parse o s = match cobj_noline (cobj o (S (S (length s))) s 1 1 false None 0 None []) with
              | Ok (objs, _, _) => Ok objs | UErr k t l => UErr k t l | Crash c => Crash c end.
Proof.
  intros o s. unfold parse.
  destruct (cobj o (S (S (length s))) s 1 1 false None 0 None []) as [[[[a b] c] d]| |]; reflexivity.
Qed.

(* ====================================================================================== *)
(* 1. T1: position extensionality                                                           *)
(* ====================================================================================== *)

(* [cobj] looks at its position (s, line) only through the first structure-context token.  The one
   leak: at the end of the input of an unbraced (top-level) run the start line is handed back. *)
Lemma cobj_pos_ext : forall o f s line s' line' nid stop start prev active acc,
  nw s0 false s line = nw s0 false s' line' ->
  (stop = true \/ line = line' \/ nw s0 false s line <> TEnd) ->
  cobj o (S f) s line nid stop start prev active acc = cobj o (S f) s' line' nid stop start prev active acc.
Proof.
  intros o f s line s' line' nid stop start prev active acc H Hc. cbn [cobj]. rewrite <- H.
  destruct (nw s0 false s line) as [|lead r l|l] eqn:En; try reflexivity.
  destruct Hc as [->|[->|Hc]]; [reflexivity|reflexivity|congruence].
Qed.

Lemma cobj_pos_ext_noline : forall o f s line s' line' nid stop start prev active acc,
  nw s0 false s line = nw s0 false s' line' ->
  cobj_noline (cobj o (S f) s line nid stop start prev active acc)
  = cobj_noline (cobj o (S f) s' line' nid stop start prev active acc).
Proof.
  intros o f s line s' line' nid stop start prev active acc H. cbn [cobj]. rewrite <- H.
  destruct (nw s0 false s line) as [|lead r l|l] eqn:En; try reflexivity.
  destruct stop; reflexivity.
Qed.

(* [caw] looks at its position only through the first value-context token, but it hands the
   position itself back when that token does not belong to the value (an opening or closing brace,
   or a word on a later line): the two results then carry the same words and the two start
   positions. *)
Definition caw_same (s:str) (line:nat) (s':str) (line':nat) (r r' : res (list word * str * nat)) : Prop :=
  r = r' \/ exists ws, r = Ok (ws, s, line) /\ r' = Ok (ws, s', line').

Lemma caw_pos_ext : forall f s line s' line' hc last acc lead,
  nw s1 false s line = nw s1 false s' line' ->
  (line = line' \/ nw s1 false s line <> TEnd) ->
  caw_same s line s' line' (caw (S f) s line hc last acc lead) (caw (S f) s' line' hc last acc lead).
Proof.
  intros f s line s' line' hc last acc lead H Hc. cbn [caw]. rewrite <- H.
  assert (Hfin : caw_same s line s' line'
            (match acc with [] => E "MissingValue" (str_of_word lead) (wline lead) | _ => Ok (rev acc, s, line) end)
            (match acc with [] => E "MissingValue" (str_of_word lead) (wline lead) | _ => Ok (rev acc, s', line') end)).
  { destruct acc as [|a acc']; [left; reflexivity|]. right. eexists; split; reflexivity. }
  destruct (nw s1 false s line) as [|w r l|l] eqn:En.
  - destruct Hc as [->|Hc]; [left; reflexivity|congruence].
  - destruct (negb hc && negb (isq w) && (is1 w "{" || is1 w "}" || is1 w ";" || is1 w "#")).
    + destruct (is1 w ";"); [left; reflexivity|].
      destruct (negb (is1 w "#")); [exact Hfin|left; reflexivity].
    + destruct (isq w || weq last [bs]); [left; reflexivity|].
      destruct (negb (wline w =? wline last)%nat); [exact Hfin|left; reflexivity].
  - left; reflexivity.
Qed.

(* in every case the collected words are the same *)
Definition caw_words (r:res (list word * str * nat)) : res (list word) :=
  match r with Ok (ws, _, _) => Ok ws | UErr k t l => UErr k t l | Crash c => Crash c end.
Lemma caw_same_words : forall s line s' line' r r', caw_same s line s' line' r r' -> caw_words r = caw_words r'.
Proof. intros s line s' line' r r' [->|(ws & -> & ->)]; reflexivity. Qed.

(* the scope-attribute loop: when the word after the scope name is not the opening brace, the
   position is read through [pop_unq s0] only (with the brace it is handed back unread) *)
Lemma sattrs_pos_ext : forall o f w s line s' line' acc,
  eqs (wv w) ["{"] = false ->
  nw s0 false s line = nw s0 false s' line' ->
  sattrs o (S f) w s line acc = sattrs o (S f) w s' line' acc.
Proof.
  intros o f w s line s' line' acc Hw H. cbn [sattrs]. rewrite Hw.
  unfold pop_unq, pop. rewrite <- H. reflexivity.
Qed.
Lemma sattrs_brace : forall o f w s line acc,
  eqs (wv w) ["{"] = true -> sattrs o (S f) w s line acc = Ok (acc, w, s, line).
Proof. intros. cbn [sattrs]. rewrite H. reflexivity. Qed.

(* ====================================================================================== *)
(* 2. T2: fuel irrelevance                                                                  *)
(* ====================================================================================== *)

(* [le_res r r'] : r is out of fuel, or r' is the same result *)
Definition le_res {A} (r r':res A) : Prop := r = OOF \/ r = r'.
Lemma le_refl : forall {A} (r:res A), le_res r r.
Proof. intros; right; reflexivity. Qed.
Lemma le_oof : forall {A} (r:res A), le_res OOF r.
Proof. intros; left; reflexivity. Qed.
Lemma le_bind : forall {A B} (r r':res A) (k k':A -> res B),
  le_res r r' -> (forall a, le_res (k a) (k' a)) -> le_res (bind r k) (bind r' k').
Proof.
  intros A B r r' k k' [H|H] Hk; subst; [left; reflexivity|].
  destruct r' as [a| |]; cbn [bind]; [apply Hk|right; reflexivity|right; reflexivity].
Qed.

Ltac le_step IH :=
  match goal with
  | |- le_res ?x ?x => apply le_refl
  | |- le_res OOF _ => apply le_oof
  | |- le_res (bind _ _) (bind _ _) => apply le_bind; [try apply le_refl; try (apply IH; lia)|intros ?; cbv beta]
  | |- le_res (match ?x with _ => _ end) _ => destruct x
  | |- le_res (let (_, _) := ?x in _) _ => destruct x
  | |- _ => apply IH; lia
  end.

Lemma caw_fuel_le : forall f g s line hc last acc lead, f <= g ->
  le_res (caw f s line hc last acc lead) (caw g s line hc last acc lead).
Proof.
  induction f as [|f IH]; intros g s line hc last acc lead Hle; [apply le_oof|].
  destruct g as [|g]; [lia|]. cbn [caw]. repeat le_step IH.
Qed.

Lemma sattrs_fuel_le : forall o f g w s line acc, f <= g ->
  le_res (sattrs o f w s line acc) (sattrs o g w s line acc).
Proof.
  intros o; induction f as [|f IH]; intros g w s line acc Hle; [apply le_oof|].
  destruct g as [|g]; [lia|]. cbn [sattrs]. repeat le_step IH.
Qed.

Lemma cobj_fuel_le : forall o f g s line nid stop start prev active acc, f <= g ->
  le_res (cobj o f s line nid stop start prev active acc) (cobj o g s line nid stop start prev active acc).
Proof.
  intros o; induction f as [|f IH]; intros g s line nid stop start prev active acc Hle; [apply le_oof|].
  destruct g as [|g]; [lia|]. cbn [cobj]. repeat le_step IH.
Qed.

(* T2, first form: a result other than fuel exhaustion is stable under more fuel *)
Theorem caw_fuel_irrelevant : forall f k s line hc last acc lead r,
  caw f s line hc last acc lead = r -> r <> OOF -> caw (f + k) s line hc last acc lead = r.
Proof.
  intros f k s line hc last acc lead r H Hn.
  destruct (caw_fuel_le f (f + k) s line hc last acc lead ltac:(lia)) as [E|E]; congruence.
Qed.
Theorem sattrs_fuel_irrelevant : forall o f k w s line acc r,
  sattrs o f w s line acc = r -> r <> OOF -> sattrs o (f + k) w s line acc = r.
Proof.
  intros o f k w s line acc r H Hn.
  destruct (sattrs_fuel_le o f (f + k) w s line acc ltac:(lia)) as [E|E]; congruence.
Qed.
Theorem cobj_fuel_irrelevant : forall o f k s line nid stop start prev active acc r,
  cobj o f s line nid stop start prev active acc = r -> r <> OOF ->
  cobj o (f + k) s line nid stop start prev active acc = r.
Proof.
  intros o f k s line nid stop start prev active acc r H Hn.
  destruct (cobj_fuel_le o f (f + k) s line nid stop start prev active acc ltac:(lia)) as [E|E]; congruence.
Qed.

(* ---------- the readers never move backwards (no oracle hypothesis, any fuel) *)
Lemma caw_len : forall f s line hc last acc lead ws s' l',
  caw f s line hc last acc lead = Ok (ws, s', l') -> length s' <= length s.
Proof.
  intros f s line hc last acc lead ws s' l' H.
  assert (H2 : caw (f + S (length s)) s line hc last acc lead = Ok (ws, s', l')).
  { apply caw_fuel_irrelevant; [exact H|discriminate]. }
  pose proof (caw_total (f + S (length s)) s line hc last acc lead ltac:(lia)) as Hp.
  rewrite H2 in Hp. destruct Hp; assumption.
Qed.

Lemma def_pos_len : forall (b:bool) r l r5 l5,
  (if b then Ok (r, l)
   else do (eqw, r5, l5) <- pop_unq s0 r l ; do _ <- expect_eq eqw ; Ok (r5, l5)) = Ok (r5, l5) ->
  length r5 <= length r.
Proof.
  intros b r l r5 l5 H. destruct b; [inversion H; subst; lia|].
  destruct (pop_unq s0 r l) as [[[eqw r6] l6]| |] eqn:E; cbn [bind] in H; try discriminate.
  destruct (expect_eq eqw); cbn [bind] in H; try discriminate. inversion H; subst.
  apply pop_unq_shorter in E. lia.
Qed.

Ltac lens :=
  repeat match goal with
  | H : (if _ then Ok (_, _) else _) = Ok (_, _) |- _ => apply def_pos_len in H
  | H : nw _ _ _ _ = TWord _ _ _ |- _ => apply nw_rest_shorter in H
  | H : pop _ _ _ = Ok (_, _, _) |- _ => apply pop_shorter in H
  | H : pop_unq _ _ _ = Ok (_, _, _) |- _ => apply pop_unq_shorter in H
  | H : caw _ _ _ _ _ _ _ = Ok (_, _, _) |- _ => apply caw_len in H
  | H : sfs ?f ?s ?l = (_, _, _) |- _ =>
      let L := fresh "L" in pose proof (sfs_le f s l) as L; rewrite H in L; cbn [fst] in L; clear H
  end.

Ltac len_hyp H IH :=
  repeat match type of H with
  | Ok _ = Ok _ => inversion H; subst; clear H
  | UErr _ _ _ = Ok _ => discriminate H
  | Crash _ = Ok _ => discriminate H
  | E _ _ _ = Ok _ => discriminate H
  | bind ?r _ = _ => destruct r eqn:?; cbn [bind] in H
  | match ?x with _ => _ end = _ => destruct x eqn:?
  | (let (_, _) := ?x in _) = _ => destruct x eqn:?
  end.

Lemma sattrs_len : forall o f w s line acc a bw s' l',
  sattrs o f w s line acc = Ok (a, bw, s', l') -> length s' <= length s.
Proof.
  intros o; induction f as [|f IH]; intros w s line acc a bw s' l' H; [discriminate|].
  cbn [sattrs] in H. len_hyp H IH; try (apply IH in H); lens; lia.
Qed.

Lemma cobj_len : forall o f s line nid stop start prev active acc objs s' l' n,
  cobj o f s line nid stop start prev active acc = Ok (objs, s', l', n) -> length s' <= length s.
Proof.
  intros o; induction f as [|f IH]; intros s line nid stop start prev active acc objs s' l' n H; [discriminate|].
  cbn [cobj] in H. len_hyp H IH; try (apply IH in H);
  repeat match goal with
  | H : cobj o f _ _ _ _ _ _ _ _ = Ok (_, _, _, _) |- _ => apply IH in H
  | H : sattrs _ _ _ _ _ _ = Ok (_, _, _, _) |- _ => apply sattrs_len in H
  end; lens; cbn [length] in *; try lia.
Qed.

(* T2, second form: any two amounts of fuel above the input length give the same result
   (whatever the oracle answers) *)
Theorem caw_fuel_enough : forall f g s line hc last acc lead,
  length s < f -> length s < g -> caw f s line hc last acc lead = caw g s line hc last acc lead.
Proof.
  assert (Hle : forall f g s line hc last acc lead, length s < f -> f <= g ->
            caw f s line hc last acc lead = caw g s line hc last acc lead).
  { intros f g s line hc last acc lead Hf Hfg.
    pose proof (caw_total f s line hc last acc lead Hf) as Hp.
    destruct (caw_fuel_le f g s line hc last acc lead Hfg) as [E|E]; [|exact E].
    rewrite E in Hp. destruct Hp. }
  intros f g s line hc last acc lead Hf Hg.
  destruct (le_ge_dec f g) as [L|L]; [apply Hle; assumption|symmetry; apply Hle; assumption].
Qed.

Ltac eq_step IH o f g :=
  match goal with
  | |- ?x = ?x => reflexivity
  | |- bind (Ok _) _ = _ => cbn [bind]
  | |- bind (UErr _ _ _) _ = _ => cbn [bind]
  | |- bind (Crash _) _ = _ => cbn [bind]
  | |- bind (cobj o f _ _ _ _ _ _ _ _) _ = bind (cobj o g _ _ _ _ _ _ _ _) _ =>
      rewrite (IH g) by
        (repeat match goal with
                | H : sattrs _ _ _ _ _ _ = Ok (_, _, _, _) |- _ => apply sattrs_len in H
                end; lens; cbn [length] in *; lia)
  | |- bind ?r _ = bind ?r _ => destruct r eqn:?; cbn [bind]
  | |- match ?x with _ => _ end = _ => destruct x eqn:?
  | |- (let (_, _) := ?x in _) = _ => destruct x eqn:?
  end.

Theorem sattrs_fuel_enough : forall o f g w s line acc,
  length s < f -> length s < g -> sattrs o f w s line acc = sattrs o g w s line acc.
Proof.
  intros o; induction f as [|f IH]; intros g w s line acc Hf Hg; [lia|].
  destruct g as [|g]; [lia|]. cbn [sattrs].
  repeat eq_step IH o f g.
  all: apply IH; lens; lia.
Qed.

Theorem cobj_fuel_enough : forall o f g s line nid stop start prev active acc,
  length s < f -> length s < g ->
  cobj o f s line nid stop start prev active acc = cobj o g s line nid stop start prev active acc.
Proof.
  intros o; induction f as [|f IH]; intros g s line nid stop start prev active acc Hf Hg; [lia|].
  destruct g as [|g]; [lia|]. cbn [cobj].
  repeat eq_step IH o f g.
  all: apply IH;
    repeat match goal with
    | H : cobj _ _ _ _ _ _ _ _ _ _ = Ok (_, _, _, _) |- _ => apply cobj_len in H
    | H : sattrs _ _ _ _ _ _ = Ok (_, _, _, _) |- _ => apply sattrs_len in H
    end; lens; cbn [length] in *; lia.
Qed.

(* ====================================================================================== *)
(* 3. T3 (exact forms): blank runs and comment lines in front of ANY object or value        *)
(* ====================================================================================== *)

(* Every object, at any nesting depth, is read by a fresh [cobj] iteration; so this one lemma says
   that a run of blanks (spaces, tabs, newlines, ...) before any object changes nothing - not even
   the line numbers, since the line counter advances by the newlines skipped.  The side condition
   only concerns the final line returned at the very end of an unbraced input. *)
Theorem cobj_skip_blanks : forall o f blanks s line nid stop start prev active acc,
  forallb isspace blanks = true ->
  (stop = true \/ count_nl blanks = 0 \/ nw s0 false s (line + count_nl blanks) <> TEnd) ->
  cobj o f (blanks ++ s) line nid stop start prev active acc
  = cobj o f s (line + count_nl blanks) nid stop start prev active acc.
Proof.
  intros o f blanks s line nid stop start prev active acc Hb Hc.
  destruct f as [|f]; [reflexivity|].
  apply cobj_pos_ext; [apply nw_skip_blanks; exact Hb|].
  rewrite (nw_skip_blanks s0 blanks s line Hb).
  destruct Hc as [Hc|[Hc|Hc]]; [left; exact Hc|right; left; lia|right; right; exact Hc].
Qed.

Theorem cobj_skip_blanks_noline : forall o f blanks s line nid stop start prev active acc,
  forallb isspace blanks = true ->
  cobj_noline (cobj o f (blanks ++ s) line nid stop start prev active acc)
  = cobj_noline (cobj o f s (line + count_nl blanks) nid stop start prev active acc).
Proof.
  intros o f blanks s line nid stop start prev active acc Hb.
  destruct f as [|f]; [reflexivity|].
  apply cobj_pos_ext_noline. apply nw_skip_blanks; exact Hb.
Qed.

(* a comment line "# text" + newline (text not starting with "phil") before any object *)
Theorem cobj_skip_comment : forall o f body s line nid stop start prev active acc,
  mem nl body = false -> prefixb (s_ "phil") (body ++ nl :: s) = false ->
  (stop = true \/ nw s0 false s (S line) <> TEnd) ->
  cobj o f ("#" :: body ++ nl :: s) line nid stop start prev active acc
  = cobj o f s (S line) nid stop start prev active acc.
Proof.
  intros o f body s line nid stop start prev active acc Hb Hp Hc.
  destruct f as [|f]; [reflexivity|].
  apply cobj_pos_ext; [apply nw_s0_comment; assumption|].
  rewrite (nw_s0_comment body s line Hb Hp).
  destruct Hc as [Hc|Hc]; [left; exact Hc|right; right; exact Hc].
Qed.

Theorem cobj_skip_comment_noline : forall o f body s line nid stop start prev active acc,
  mem nl body = false -> prefixb (s_ "phil") (body ++ nl :: s) = false ->
  cobj_noline (cobj o f ("#" :: body ++ nl :: s) line nid stop start prev active acc)
  = cobj_noline (cobj o f s (S line) nid stop start prev active acc).
Proof.
  intros o f body s line nid stop start prev active acc Hb Hp.
  destruct f as [|f]; [reflexivity|].
  apply cobj_pos_ext_noline. apply nw_s0_comment; assumption.
Qed.

(* blanks in front of the value words (after the "=") *)
Theorem caw_skip_blanks : forall f blanks s line hc last acc lead,
  forallb isspace blanks = true ->
  (count_nl blanks = 0 \/ nw s1 false s (line + count_nl blanks) <> TEnd) ->
  caw_same (blanks ++ s) line s (line + count_nl blanks)
    (caw f (blanks ++ s) line hc last acc lead) (caw f s (line + count_nl blanks) hc last acc lead).
Proof.
  intros f blanks s line hc last acc lead Hb Hc.
  destruct f as [|f]; [left; reflexivity|].
  apply caw_pos_ext; [apply nw_skip_blanks; exact Hb|].
  rewrite (nw_skip_blanks s1 blanks s line Hb).
  destruct Hc as [Hc|Hc]; [left; lia|right; exact Hc].
Qed.

(* ... and when [caw] hands its start position back, the two positions are again equivalent for
   whatever reads next (blank runs are skipped by every tokenizer setting) *)
Lemma blanks_pos_equiv : forall σ blanks s line,
  forallb isspace blanks = true -> nw σ false (blanks ++ s) line = nw σ false s (line + count_nl blanks).
Proof. exact nw_skip_blanks. Qed.

(* document level, blanks without a newline: exactly the same parse result *)
Theorem parse_leading_blanks_same_line : forall o blanks s,
  forallb isspace blanks = true -> count_nl blanks = 0 ->
  parse o (blanks ++ s) = parse o s.
Proof.
  intros o blanks s Hb Hn. unfold parse.
  rewrite cobj_skip_blanks by (try exact Hb; right; left; exact Hn).
  rewrite Hn, Nat.add_0_r.
  rewrite (cobj_fuel_enough o (S (S (length (blanks ++ s)))) (S (S (length s))) s)
    by (rewrite ?app_length; lia).
  reflexivity.
Qed.

(* ====================================================================================== *)
(* 5. T5: the '!' prefix                                                                     *)
(* ====================================================================================== *)

(* ---------- token lemmas: unquoted words *)
Definition delim (σ:settings) (rest:str) : bool :=
  match rest with [] => true | d :: _ => isspace d || mem d (single σ) end.
Definition wchar (σ:settings) (d:ascii) : bool := negb (isspace d) && negb (mem d (single σ)).

Lemma take_word : forall σ w rest, contig_any σ = true ->
  forallb (wchar σ) w = true -> delim σ rest = true -> take σ (w ++ rest) = (w, rest).
Proof.
  intros σ w rest Hc; induction w as [|d w IH]; intros Hw Hd.
  - cbn [app]. destruct rest as [|d rest]; [reflexivity|]. cbn [take]. cbn [delim] in Hd.
    destruct (isspace d); [reflexivity|]. cbn [orb] in Hd. rewrite Hd. reflexivity.
  - cbn [forallb] in Hw. apply andb_prop in Hw as [Hd1 Hw]. unfold wchar in Hd1.
    apply andb_prop in Hd1 as [H1 H2]. apply negb_true_iff in H1, H2.
    cbn [app take]. rewrite H1, H2, Hc. cbn [negb andb]. rewrite (IH Hw Hd). reflexivity.
Qed.

(* a word starts with a character that is no blank, no single-character word, no comment
   character and no quote *)
Definition wstart (σ:settings) (c:ascii) : bool :=
  wchar σ c && negb (mem c (comment σ)) && negb (Ascii.eqb c dq || Ascii.eqb c sq).

Lemma nw_start : forall σ c s line, contig_any σ = true -> wstart σ c = true ->
  nw σ false (c :: s) line = let (w, r) := take σ s in TWord (mkword (c :: w) QN line) r line.
Proof.
  intros σ c s line Hc Hs. unfold wstart, wchar in Hs.
  apply andb_prop in Hs as [Hs H4]. apply andb_prop in Hs as [Hs H3]. apply andb_prop in Hs as [H1 H2].
  apply negb_true_iff in H1, H2, H3, H4.
  cbn [nw]. rewrite H1, H3, H4, H2, Hc. cbn [andb negb orb].
  unfold bump. rewrite (not_space_not_nl _ H1). reflexivity.
Qed.

(* T5 token lemma: an unquoted word is read as one word, in any context with free word characters
   (s0: single = "{}=", comment "#";  s1: single = "{};", no comment) *)
Theorem nw_word : forall σ c w rest line, contig_any σ = true ->
  wstart σ c = true -> forallb (wchar σ) w = true -> delim σ rest = true ->
  nw σ false (c :: w ++ rest) line = TWord (mkword (c :: w) QN line) rest line.
Proof.
  intros σ c w rest line Hc Hs Hw Hd. rewrite (nw_start σ c _ line Hc Hs).
  rewrite (take_word σ w rest Hc Hw Hd). reflexivity.
Qed.
Corollary nw_s0_word : forall c w rest line,
  wstart s0 c = true -> forallb (wchar s0) w = true -> delim s0 rest = true ->
  nw s0 false (c :: w ++ rest) line = TWord (mkword (c :: w) QN line) rest line.
Proof. intros; apply nw_word; auto. Qed.

Definition bang_tok (t:tokres) : tokres :=
  match t with TWord w r l => TWord (mkword ("!" :: wv w) QN (wline w)) r l | t => t end.

(* "!" glued in front of a word is read as part of that word *)
Lemma nw_bang : forall c s line, wstart s0 c = true ->
  nw s0 false ("!" :: c :: s) line = bang_tok (nw s0 false (c :: s) line).
Proof.
  intros c s line Hs.
  rewrite (nw_start s0 "!" (c :: s) line eq_refl eq_refl).
  rewrite (nw_start s0 c s line eq_refl Hs).
  unfold wstart in Hs. apply andb_prop in Hs as [Hs _]. apply andb_prop in Hs as [Hs _].
  unfold wchar in Hs. apply andb_prop in Hs as [H1 H2]. apply negb_true_iff in H1, H2.
  cbn [take]. rewrite H1, H2. cbn [contig_any contig s0 negb andb].
  destruct (take s0 s) as [w r]. reflexivity.
Qed.

(* ---------- the accumulator of [cobj] is only ever pushed on, and reversed at the end *)
Definition pre_res (p:list obj) (r:res (list obj * str * nat * nat)) : res (list obj * str * nat * nat) :=
  match r with Ok (objs, a, b, c) => Ok (p ++ objs, a, b, c) | UErr k t l => UErr k t l | Crash c => Crash c end.
Lemma pre_bind : forall {A} p (r:res A) k, pre_res p (bind r k) = bind r (fun a => pre_res p (k a)).
Proof. intros A p [a| |] k; reflexivity. Qed.
Lemma pre_pre : forall p q r, pre_res p (pre_res q r) = pre_res (p ++ q) r.
Proof. intros p q [[[[a b] c] d]| |]; cbn [pre_res]; [rewrite app_assoc|..]; reflexivity. Qed.

Ltac pre_step :=
  match goal with
  | |- ?x = ?x => reflexivity
  | |- _ = pre_res _ (bind _ _) => rewrite pre_bind
  | |- bind ?r _ = bind ?r _ => destruct r; cbn [bind]
  | |- match ?x with _ => _ end = _ => destruct x
  | |- (let (_, _) := ?x in _) = _ => destruct x
  end.

Lemma cobj_acc_app : forall o f s line nid stop start prev active acc t,
  cobj o f s line nid stop start prev active (acc ++ t)
  = pre_res (rev t) (cobj o f s line nid stop start prev active acc).
Proof.
  intros o; induction f as [|f IH]; intros s line nid stop start prev active acc t; [reflexivity|].
  destruct active as [ad|]; cbn [cobj]; repeat pre_step.
  all: try reflexivity.
  all: try (cbn [pre_res]; rewrite ?app_comm_cons, rev_app_distr; reflexivity).
  all: try (rewrite ?app_comm_cons; apply IH).
Qed.

(* ---------- the active definition is only ever touched by [attach], and then flushed *)
Definition head_res (g:obj -> obj) (r:res (list obj * str * nat * nat)) : res (list obj * str * nat * nat) :=
  match r with Ok (x :: objs, a, b, c) => Ok (g x :: objs, a, b, c) | r => r end.
Lemma head_bind : forall {A} g (r:res A) k, head_res g (bind r k) = bind r (fun a => head_res g (k a)).
Proof. intros A g [a| |] k; reflexivity. Qed.
Lemma head_pre : forall g x p r, head_res g (pre_res (x :: p) r) = pre_res (g x :: p) r.
Proof. intros g x p [[[[a b] c] d]| |]; reflexivity. Qed.

Ltac head_step :=
  match goal with
  | |- ?x = ?x => reflexivity
  | |- _ = head_res _ (bind _ _) => rewrite head_bind
  | |- bind ?r _ = bind ?r _ => destruct r; cbn [bind]
  | |- match ?x with _ => _ end = _ => destruct x
  | |- (let (_, _) := ?x in _) = _ => destruct x
  end.

Lemma cobj_active_map : forall o (g:obj -> obj),
  (forall n v x, g (attach n v x) = attach n v (g x)) ->
  forall f s line nid stop start prev ad,
  cobj o f s line nid stop start prev (Some (g ad)) []
  = head_res g (cobj o f s line nid stop start prev (Some ad) []).
Proof.
  intros o g Hg; induction f as [|f IH]; intros s line nid stop start prev ad; [reflexivity|].
  cbn [cobj]. repeat head_step.
  all: try reflexivity.
  all: try apply IH.
  - match goal with |- cobj _ _ _ _ _ _ _ _ _ [?X; g ad] = _ =>
      rewrite (cobj_acc_app o f _ _ _ _ _ _ None [X] [g ad]), (cobj_acc_app o f _ _ _ _ _ _ None [X] [ad]) end.
    cbn [rev app]. rewrite head_pre. reflexivity.
  - match goal with |- cobj _ _ _ _ _ _ _ _ ?A [g ad] = _ =>
      rewrite (cobj_acc_app o f _ _ _ _ _ _ A [] [g ad]), (cobj_acc_app o f _ _ _ _ _ _ A [] [ad]) end.
    cbn [rev app]. rewrite head_pre. reflexivity.
  - destruct b; cbn [bind]; [apply IH|].
    destruct (assign_def_attr o (drop 1 s0) l); cbn [bind]; try reflexivity.
    rewrite <- Hg. apply IH.
Qed.

(* ---------- disabling the construct that a dotted name denotes *)
Definition set_dis (o:obj) : obj := set_hdr o (with_dis (ohdr o) true).
(* [adopt] turns "a.b.c = v" into nested single-child scopes a { b { c = v } }: the construct
   proper sits [number of dots] levels down *)
Fixpoint dis_depth (n:nat) (o:obj) : obj :=
  match n with
  | 0 => set_dis o
  | S m => match o with Scp h [k] a => Scp h [dis_depth m k] a | other => other end
  end.

Lemma dis_depth_attach : forall n nm v x, dis_depth n (attach nm v x) = attach nm v (dis_depth n x).
Proof.
  induction n as [|n IH]; intros nm v x.
  - destruct x as [h w a|h [|k [|k2 ks]] a]; reflexivity.
  - destruct x as [h w a|h [|k [|k2 ks]] a]; try reflexivity.
    cbn [attach dis_depth]. rewrite IH. reflexivity.
Qed.

Lemma wrap_dotted_dis : forall comps first x,
  wrap_dotted first comps (set_dis x) = dis_depth (length comps - 1) (wrap_dotted first comps x).
Proof.
  induction comps as [|c rest IH]; intros first x; [reflexivity|].
  destruct rest as [|c2 rest].
  - cbn [wrap_dotted length Nat.sub dis_depth]. destruct first; [reflexivity|].
    destruct x; reflexivity.
  - change (wrap_dotted first (c :: c2 :: rest) (set_dis x))
      with (Scp (mkhdr c false 0 (negb first) 0 0) [wrap_dotted false (c2 :: rest) (set_dis x)] []).
    change (wrap_dotted first (c :: c2 :: rest) x)
      with (Scp (mkhdr c false 0 (negb first) 0 0) [wrap_dotted false (c2 :: rest) x] []).
    rewrite IH.
    replace (length (c :: c2 :: rest) - 1) with (S (length (c2 :: rest) - 1)) by (cbn [length]; lia).
    reflexivity.
Qed.

Lemma adopt_dis : forall x,
  adopt (set_dis x) = dis_depth (length (splitdot (oname (ohdr x))) - 1) (adopt x).
Proof.
  intros x. unfold adopt.
  replace (oname (ohdr (set_dis x))) with (oname (ohdr x)) by (destruct x; reflexivity).
  apply wrap_dotted_dis.
Qed.

Fixpoint map_at (n:nat) (g:obj -> obj) (l:list obj) : list obj :=
  match l with
  | [] => []
  | x :: r => match n with 0 => g x :: r | S m => x :: map_at m g r end
  end.
Definition nth_res (n:nat) (g:obj -> obj) (r:res (list obj * str * nat * nat)) : res (list obj * str * nat * nat) :=
  match r with Ok (objs, a, b, c) => Ok (map_at n g objs, a, b, c) | r => r end.
Lemma map_at_app : forall p g l, map_at (length p) g (p ++ l) = p ++ map_at 0 g l.
Proof. induction p as [|x p IH]; intros g l; [reflexivity|]. cbn [length app map_at]. rewrite IH. reflexivity. Qed.
Lemma nth_bind : forall {A} n g (r:res A) k, nth_res n g (bind r k) = bind r (fun a => nth_res n g (k a)).
Proof. intros A n g [a| |] k; reflexivity. Qed.
Lemma nth_pre_head : forall p g r, nth_res (length p) g (pre_res p r) = pre_res p (head_res g r).
Proof.
  intros p g [[[[objs b] c] d]| |]; try reflexivity.
  cbn [pre_res nth_res]. rewrite map_at_app. destruct objs; reflexivity.
Qed.
Lemma nth_pre_last : forall p g x r, nth_res (length p) g (pre_res (p ++ [x]) r) = pre_res (p ++ [g x]) r.
Proof.
  intros p g x [[[[objs b] c] d]| |]; try reflexivity.
  cbn [pre_res nth_res]. rewrite <- !app_assoc, map_at_app. reflexivity.
Qed.

(* the tests that [cobj] makes on the leading word, for "!word" and for "word" *)
Lemma lead_tests_bang : forall v,
  eqs ("!" :: v) intro = false /\ eqs ("!" :: v) ["}"] = false /\ eqs ("!" :: v) ["{"] = false
  /\ strip_bang ("!" :: v) = (v, true).
Proof. intros v. repeat split. Qed.
Lemma lead_tests_plain : forall c w, wstart s0 c = true -> c <> "!" ->
  eqs (c :: w) intro = false /\ eqs (c :: w) ["}"] = false /\ eqs (c :: w) ["{"] = false
  /\ strip_bang (c :: w) = (c :: w, false).
Proof.
  intros c w Hs Hb.
  assert (Hne : Ascii.eqb c "!" = false) by (apply Ascii.eqb_neq; exact Hb).
  unfold wstart, wchar in Hs.
  apply andb_prop in Hs as [Hs _]. apply andb_prop in Hs as [Hs H3]. apply andb_prop in Hs as [_ H2].
  apply negb_true_iff in H2, H3. cbn [mem single comment s0] in H2, H3.
  apply orb_false_iff in H2 as [Ha H2]. apply orb_false_iff in H2 as [Hb' H2]. apply orb_false_iff in H3 as [Hh _].
  unfold intro. cbn [s_ String.list_ascii_of_string eqs strip_bang]. rewrite Ha, Hb', Hh, Hne. repeat split.
Qed.

Definition flushed (active:option obj) (acc:list obj) : list obj :=
  match active with Some d => d :: acc | None => acc end.
(* number of dots in the name that starts at this position *)
Definition name_depth (s:str) (line:nat) : nat :=
  match nw s0 false s line with TWord w _ _ => length (splitdot (wv w)) - 1 | _ => 0 end.

Ltac nth_step :=
  match goal with
  | |- ?x = ?x => reflexivity
  | |- _ = nth_res _ _ (bind _ _) => rewrite nth_bind
  | |- bind ?r _ = bind ?r _ => destruct r; cbn [bind]
  | |- match ?x with _ => _ end = _ => destruct x
  | |- (let (_, _) := ?x in _) = _ => destruct x
  end.

(* T5 at the level of one [cobj] iteration (any depth, any state): "!" glued to the name of a
   definition or scope sets the disabled flag of exactly that object, and changes nothing else -
   the other objects, the remaining input, the ids, and every error are identical. *)
Theorem cobj_bang : forall o f c s line nid stop start prev active acc,
  wstart s0 c = true -> c <> "!" -> c <> "." ->
  cobj o f ("!" :: c :: s) line nid stop start prev active acc
  = nth_res (length (flushed active acc)) (dis_depth (name_depth (c :: s) line))
      (cobj o f (c :: s) line nid stop start prev active acc).
Proof.
  intros o f c s line nid stop start prev active acc Hs Hb Hd.
  destruct f as [|f]; [reflexivity|].
  cbn [cobj]. unfold name_depth. rewrite (nw_bang c s line Hs), (nw_start s0 c s line eq_refl Hs).
  destruct (take s0 s) as [w r]. cbn [bang_tok wv wq wline isq].
  destruct (lead_tests_bang (c :: w)) as (B1 & B2 & B3 & B4).
  destruct (lead_tests_plain c w Hs Hb) as (P1 & P2 & P3 & P4).
  rewrite B1, B2, B3, B4, P1, P2, P3, P4. cbn [andb].
  rewrite !andb_false_r.
  assert (Hdot : prefixb ["."] (c :: w) = false).
  { cbn [prefixb]. rewrite Ascii.eqb_sym. apply Ascii.eqb_neq in Hd. rewrite Hd. reflexivity. }
  rewrite Hdot. cbn [negb].
  Show.
Abort.
