(* C02 at the PARSER level: layout freedoms (blank runs, comment lines, terminators) and the
   exactness of the '!' prefix, proved about the parser model functions [caw], [sattrs], [cobj],
   [parse] themselves.
   T1  position extensionality   (the readers look at their position only through the first token)
   T2  fuel irrelevance          (more fuel never changes a result; enough fuel = any larger fuel)
   T3  blank runs / comment lines before any object or value are irrelevant
   T4  newline versus semicolon as terminator of a one-word value
   T5  '!' disables exactly the construct it precedes *)
From Coq Require Import List Ascii String Bool Arith ZArith Lia.
From Phil Require Import Base Tokenizer Tree Parser LexProofs QuoteProofs ParserTotal.
Import ListNotations.
Local Open Scope char_scope.

(* ====================================================================================== *)
(* 0. small tools                                                                           *)
(* ====================================================================================== *)

Definition OOF {A} : res A := Crash (s_ "OutOfFuel").

(* the final line of a reader's result is the only place where the start line leaks when the
   input is exhausted; [cobj_noline] forgets it *)
Definition cobj_noline (r:res (list obj * str * nat * nat)) : res (list obj * str * nat) :=
  match r with Ok (objs, rest, _, n) => Ok (objs, rest, n) | UErr k t l => UErr k t l | Crash c => Crash c end.
Definition caw_noline (r:res (list word * str * nat)) : res (list word * str) :=
  match r with Ok (ws, rest, _) => Ok (ws, rest) | UErr k t l => UErr k t l | Crash c => Crash c end.

Lemma parse_noline : forall o s,
  parse o s = match cobj_noline (cobj o (S (S (length s))) s 1 1 false None 0 None []) with
              | Ok (objs, _, _) => Ok objs | UErr k t l => UErr k t l | Crash c => Crash c end.
Proof.
  intros o s. unfold parse.
  destruct (cobj o (S (S (length s))) s 1 1 false None 0 None []) as [[[[a b] c] d]| |]; reflexivity.
Qed.

(* ====================================================================================== *)
(* 1. T1: position extensionality                                                           *)
(* ====================================================================================== *)

(* [cobj] looks at its position (s, line) only through the first structure-context token.  The one
   leak: at the end of the input of an unbraced (top-level) run the start line is handed back. *)
Lemma cobj_pos_ext : forall o f s line s' line' nid stop start prev active acc,
  nw s0 false s line = nw s0 false s' line' ->
  (stop = true \/ line = line' \/ nw s0 false s line <> TEnd) ->
  cobj o (S f) s line nid stop start prev active acc = cobj o (S f) s' line' nid stop start prev active acc.
Proof.
  intros o f s line s' line' nid stop start prev active acc H Hc. cbn [cobj]. rewrite <- H.
  destruct (nw s0 false s line) as [|lead r l|l] eqn:En; try reflexivity.
  destruct Hc as [->|[->|Hc]]; [reflexivity|reflexivity|congruence].
Qed.

Lemma cobj_pos_ext_noline : forall o f s line s' line' nid stop start prev active acc,
  nw s0 false s line = nw s0 false s' line' ->
  cobj_noline (cobj o (S f) s line nid stop start prev active acc)
  = cobj_noline (cobj o (S f) s' line' nid stop start prev active acc).
Proof.
  intros o f s line s' line' nid stop start prev active acc H. cbn [cobj]. rewrite <- H.
  destruct (nw s0 false s line) as [|lead r l|l] eqn:En; try reflexivity.
  destruct stop; reflexivity.
Qed.

(* [caw] looks at its position only through the first value-context token, but it hands the
   position itself back when that token does not belong to the value (an opening or closing brace,
   or a word on a later line): the two results then carry the same words and the two start
   positions. *)
Definition caw_same (s:str) (line:nat) (s':str) (line':nat) (r r' : res (list word * str * nat)) : Prop :=
  r = r' \/ exists ws, r = Ok (ws, s, line) /\ r' = Ok (ws, s', line').

Lemma caw_pos_ext : forall f s line s' line' hc last acc lead,
  nw s1 false s line = nw s1 false s' line' ->
  (line = line' \/ nw s1 false s line <> TEnd) ->
  caw_same s line s' line' (caw (S f) s line hc last acc lead) (caw (S f) s' line' hc last acc lead).
Proof.
  intros f s line s' line' hc last acc lead H Hc. cbn [caw]. rewrite <- H.
  assert (Hfin : caw_same s line s' line'
            (match acc with [] => E "MissingValue" (str_of_word lead) (wline lead) | _ => Ok (rev acc, s, line) end)
            (match acc with [] => E "MissingValue" (str_of_word lead) (wline lead) | _ => Ok (rev acc, s', line') end)).
  { destruct acc as [|a acc']; [left; reflexivity|]. right. eexists; split; reflexivity. }
  destruct (nw s1 false s line) as [|w r l|l] eqn:En.
  - destruct Hc as [->|Hc]; [left; reflexivity|congruence].
  - destruct (negb hc && negb (isq w) && (is1 w "{" || is1 w "}" || is1 w ";" || is1 w "#")).
    + destruct (is1 w ";"); [left; reflexivity|].
      destruct (negb (is1 w "#")); [exact Hfin|left; reflexivity].
    + destruct (isq w || weq last [bs]); [left; reflexivity|].
      destruct (negb (wline w =? wline last)%nat); [exact Hfin|left; reflexivity].
  - left; reflexivity.
Qed.

(* in every case the collected words are the same *)
Definition caw_words (r:res (list word * str * nat)) : res (list word) :=
  match r with Ok (ws, _, _) => Ok ws | UErr k t l => UErr k t l | Crash c => Crash c end.
Lemma caw_same_words : forall s line s' line' r r', caw_same s line s' line' r r' -> caw_words r = caw_words r'.
Proof. intros s line s' line' r r' [->|(ws & -> & ->)]; reflexivity. Qed.

(* the scope-attribute loop: when the word after the scope name is not the opening brace, the
   position is read through [pop_unq s0] only (with the brace it is handed back unread) *)
Lemma sattrs_pos_ext : forall o f w s line s' line' acc,
  eqs (wv w) ["{"] = false ->
  nw s0 false s line = nw s0 false s' line' ->
  sattrs o (S f) w s line acc = sattrs o (S f) w s' line' acc.
Proof.
  intros o f w s line s' line' acc Hw H. cbn [sattrs]. rewrite Hw.
  unfold pop_unq, pop. rewrite <- H. reflexivity.
Qed.
Lemma sattrs_brace : forall o f w s line acc,
  eqs (wv w) ["{"] = true -> sattrs o (S f) w s line acc = Ok (acc, w, s, line).
Proof. intros. cbn [sattrs]. rewrite H. reflexivity. Qed.

(* ====================================================================================== *)
(* 2. T2: fuel irrelevance                                                                  *)
(* ====================================================================================== *)

(* [le_res r r'] : r is out of fuel, or r' is the same result *)
Definition le_res {A} (r r':res A) : Prop := r = OOF \/ r = r'.
Lemma le_refl : forall {A} (r:res A), le_res r r.
Proof. intros; right; reflexivity. Qed.
Lemma le_oof : forall {A} (r:res A), le_res OOF r.
Proof. intros; left; reflexivity. Qed.
Lemma le_bind : forall {A B} (r r':res A) (k k':A -> res B),
  le_res r r' -> (forall a, le_res (k a) (k' a)) -> le_res (bind r k) (bind r' k').
Proof.
  intros A B r r' k k' [H|H] Hk; subst; [left; reflexivity|].
  destruct r' as [a| |]; cbn [bind]; [apply Hk|right; reflexivity|right; reflexivity].
Qed.

Ltac le_step IH :=
  match goal with
  | |- le_res ?x ?x => apply le_refl
  | |- le_res OOF _ => apply le_oof
  | |- le_res (bind _ _) (bind _ _) => apply le_bind; [try apply le_refl; try (apply IH; lia)|intros ?; cbv beta]
  | |- le_res (match ?x with _ => _ end) _ => destruct x
  | |- le_res (let (_, _) := ?x in _) _ => destruct x
  | |- _ => apply IH; lia
  end.

Lemma caw_fuel_le : forall f g s line hc last acc lead, f <= g ->
  le_res (caw f s line hc last acc lead) (caw g s line hc last acc lead).
Proof.
  induction f as [|f IH]; intros g s line hc last acc lead Hle; [apply le_oof|].
  destruct g as [|g]; [lia|]. cbn [caw]. repeat le_step IH.
Qed.

Lemma sattrs_fuel_le : forall o f g w s line acc, f <= g ->
  le_res (sattrs o f w s line acc) (sattrs o g w s line acc).
Proof.
  intros o; induction f as [|f IH]; intros g w s line acc Hle; [apply le_oof|].
  destruct g as [|g]; [lia|]. cbn [sattrs]. repeat le_step IH.
Qed.

Lemma cobj_fuel_le : forall o f g s line nid stop start prev active acc, f <= g ->
  le_res (cobj o f s line nid stop start prev active acc) (cobj o g s line nid stop start prev active acc).
Proof.
  intros o; induction f as [|f IH]; intros g s line nid stop start prev active acc Hle; [apply le_oof|].
  destruct g as [|g]; [lia|]. cbn [cobj]. repeat le_step IH.
Qed.

(* T2, first form: a result other than fuel exhaustion is stable under more fuel *)
Theorem caw_fuel_irrelevant : forall f k s line hc last acc lead r,
  caw f s line hc last acc lead = r -> r <> OOF -> caw (f + k) s line hc last acc lead = r.
Proof.
  intros f k s line hc last acc lead r H Hn.
  destruct (caw_fuel_le f (f + k) s line hc last acc lead ltac:(lia)) as [E|E]; congruence.
Qed.
Theorem sattrs_fuel_irrelevant : forall o f k w s line acc r,
  sattrs o f w s line acc = r -> r <> OOF -> sattrs o (f + k) w s line acc = r.
Proof.
  intros o f k w s line acc r H Hn.
  destruct (sattrs_fuel_le o f (f + k) w s line acc ltac:(lia)) as [E|E]; congruence.
Qed.
Theorem cobj_fuel_irrelevant : forall o f k s line nid stop start prev active acc r,
  cobj o f s line nid stop start prev active acc = r -> r <> OOF ->
  cobj o (f + k) s line nid stop start prev active acc = r.
Proof.
  intros o f k s line nid stop start prev active acc r H Hn.
  destruct (cobj_fuel_le o f (f + k) s line nid stop start prev active acc ltac:(lia)) as [E|E]; congruence.
Qed.

(* ---------- the readers never move backwards (nothing asked of the oracle, any fuel) *)
Lemma caw_len : forall f s line hc last acc lead ws s' l',
  caw f s line hc last acc lead = Ok (ws, s', l') -> length s' <= length s.
Proof.
  intros f s line hc last acc lead ws s' l' H.
  assert (H2 : caw (f + S (length s)) s line hc last acc lead = Ok (ws, s', l')).
  { apply caw_fuel_irrelevant; [exact H|discriminate]. }
  pose proof (caw_total (f + S (length s)) s line hc last acc lead ltac:(lia)) as Hp.
  rewrite H2 in Hp. destruct Hp; assumption.
Qed.

Lemma def_pos_len : forall (b:bool) r l r5 l5,
  (if b then Ok (r, l)
   else do (eqw, r5, l5) <- pop_unq s0 r l ; do _ <- expect_eq eqw ; Ok (r5, l5)) = Ok (r5, l5) ->
  length r5 <= length r.
Proof.
  intros b r l r5 l5 H. destruct b; [inversion H; subst; lia|].
  destruct (pop_unq s0 r l) as [[[eqw r6] l6]| |] eqn:E; cbn [bind] in H; try discriminate.
  destruct (expect_eq eqw); cbn [bind] in H; try discriminate. inversion H; subst.
  apply pop_unq_shorter in E. lia.
Qed.

Ltac lens :=
  repeat match goal with
  | H : (if _ then Ok (_, _) else _) = Ok (_, _) |- _ => apply def_pos_len in H
  | H : nw _ _ _ _ = TWord _ _ _ |- _ => apply nw_rest_shorter in H
  | H : pop _ _ _ = Ok (_, _, _) |- _ => apply pop_shorter in H
  | H : pop_unq _ _ _ = Ok (_, _, _) |- _ => apply pop_unq_shorter in H
  | H : caw _ _ _ _ _ _ _ = Ok (_, _, _) |- _ => apply caw_len in H
  | H : sfs ?f ?s ?l = (_, _, _) |- _ =>
      let L := fresh "L" in pose proof (sfs_le f s l) as L; rewrite H in L; cbn [fst] in L; clear H
  end.

Ltac len_hyp H IH :=
  repeat match type of H with
  | Ok _ = Ok _ => inversion H; subst; clear H
  | UErr _ _ _ = Ok _ => discriminate H
  | Crash _ = Ok _ => discriminate H
  | E _ _ _ = Ok _ => discriminate H
  | bind ?r _ = _ => destruct r eqn:?; cbn [bind] in H
  | match ?x with _ => _ end = _ => destruct x eqn:?
  | (let (_, _) := ?x in _) = _ => destruct x eqn:?
  end.

Lemma sattrs_len : forall o f w s line acc a bw s' l',
  sattrs o f w s line acc = Ok (a, bw, s', l') -> length s' <= length s.
Proof.
  intros o; induction f as [|f IH]; intros w s line acc a bw s' l' H; [discriminate|].
  cbn [sattrs] in H. len_hyp H IH; try (apply IH in H); lens; lia.
Qed.

Lemma cobj_len : forall o f s line nid stop start prev active acc objs s' l' n,
  cobj o f s line nid stop start prev active acc = Ok (objs, s', l', n) -> length s' <= length s.
Proof.
  intros o; induction f as [|f IH]; intros s line nid stop start prev active acc objs s' l' n H; [discriminate|].
  cbn [cobj] in H. len_hyp H IH; try (apply IH in H);
  repeat match goal with
  | H : cobj o f _ _ _ _ _ _ _ _ = Ok (_, _, _, _) |- _ => apply IH in H
  | H : sattrs _ _ _ _ _ _ = Ok (_, _, _, _) |- _ => apply sattrs_len in H
  end; lens; cbn [length] in *; try lia.
Qed.

(* T2, second form: any two amounts of fuel above the input length give the same result
   (whatever the oracle answers) *)
Theorem caw_fuel_enough : forall f g s line hc last acc lead,
  length s < f -> length s < g -> caw f s line hc last acc lead = caw g s line hc last acc lead.
Proof.
  assert (Hle : forall f g s line hc last acc lead, length s < f -> f <= g ->
            caw f s line hc last acc lead = caw g s line hc last acc lead).
  { intros f g s line hc last acc lead Hf Hfg.
    pose proof (caw_total f s line hc last acc lead Hf) as Hp.
    destruct (caw_fuel_le f g s line hc last acc lead Hfg) as [E|E]; [|exact E].
    rewrite E in Hp. destruct Hp. }
  intros f g s line hc last acc lead Hf Hg.
  destruct (le_ge_dec f g) as [L|L]; [apply Hle; assumption|symmetry; apply Hle; assumption].
Qed.

Ltac eq_step IH o f g :=
  match goal with
  | |- ?x = ?x => reflexivity
  | |- bind (Ok _) _ = _ => cbn [bind]
  | |- bind (UErr _ _ _) _ = _ => cbn [bind]
  | |- bind (Crash _) _ = _ => cbn [bind]
  | |- bind (cobj o f _ _ _ _ _ _ _ _) _ = bind (cobj o g _ _ _ _ _ _ _ _) _ =>
      rewrite (IH g) by
        (repeat match goal with
                | H : sattrs _ _ _ _ _ _ = Ok (_, _, _, _) |- _ => apply sattrs_len in H
                end; lens; cbn [length] in *; lia)
  | |- bind ?r _ = bind ?r _ => destruct r eqn:?; cbn [bind]
  | |- match ?x with _ => _ end = _ => destruct x eqn:?
  | |- (let (_, _) := ?x in _) = _ => destruct x eqn:?
  end.

Theorem sattrs_fuel_enough : forall o f g w s line acc,
  length s < f -> length s < g -> sattrs o f w s line acc = sattrs o g w s line acc.
Proof.
  intros o; induction f as [|f IH]; intros g w s line acc Hf Hg; [lia|].
  destruct g as [|g]; [lia|]. cbn [sattrs].
  repeat eq_step IH o f g.
  all: apply IH; lens; lia.
Qed.

Theorem cobj_fuel_enough : forall o f g s line nid stop start prev active acc,
  length s < f -> length s < g ->
  cobj o f s line nid stop start prev active acc = cobj o g s line nid stop start prev active acc.
Proof.
  intros o; induction f as [|f IH]; intros g s line nid stop start prev active acc Hf Hg; [lia|].
  destruct g as [|g]; [lia|]. cbn [cobj].
  repeat eq_step IH o f g.
  all: apply IH;
    repeat match goal with
    | H : cobj _ _ _ _ _ _ _ _ _ _ = Ok (_, _, _, _) |- _ => apply cobj_len in H
    | H : sattrs _ _ _ _ _ _ = Ok (_, _, _, _) |- _ => apply sattrs_len in H
    end; lens; cbn [length] in *; lia.
Qed.

(* ====================================================================================== *)
(* 3. T3 (exact forms): blank runs and comment lines in front of ANY object or value        *)
(* ====================================================================================== *)

(* Every object, at any nesting depth, is read by a fresh [cobj] iteration; so this one lemma says
   that a run of blanks (spaces, tabs, newlines, ...) before any object changes nothing - not even
   the line numbers, since the line counter advances by the newlines skipped.  The side condition
   only concerns the final line returned at the very end of an unbraced input. *)
Theorem cobj_skip_blanks : forall o f blanks s line nid stop start prev active acc,
  forallb isspace blanks = true ->
  (stop = true \/ count_nl blanks = 0 \/ nw s0 false s (line + count_nl blanks) <> TEnd) ->
  cobj o f (blanks ++ s) line nid stop start prev active acc
  = cobj o f s (line + count_nl blanks) nid stop start prev active acc.
Proof.
  intros o f blanks s line nid stop start prev active acc Hb Hc.
  destruct f as [|f]; [reflexivity|].
  apply cobj_pos_ext; [apply nw_skip_blanks; exact Hb|].
  rewrite (nw_skip_blanks s0 blanks s line Hb).
  destruct Hc as [Hc|[Hc|Hc]]; [left; exact Hc|right; left; lia|right; right; exact Hc].
Qed.

Theorem cobj_skip_blanks_noline : forall o f blanks s line nid stop start prev active acc,
  forallb isspace blanks = true ->
  cobj_noline (cobj o f (blanks ++ s) line nid stop start prev active acc)
  = cobj_noline (cobj o f s (line + count_nl blanks) nid stop start prev active acc).
Proof.
  intros o f blanks s line nid stop start prev active acc Hb.
  destruct f as [|f]; [reflexivity|].
  apply cobj_pos_ext_noline. apply nw_skip_blanks; exact Hb.
Qed.

(* a comment line "# text" + newline (text not starting with "phil") before any object *)
Theorem cobj_skip_comment : forall o f body s line nid stop start prev active acc,
  mem nl body = false -> prefixb (s_ "phil") (body ++ nl :: s) = false ->
  (stop = true \/ nw s0 false s (S line) <> TEnd) ->
  cobj o f ("#" :: body ++ nl :: s) line nid stop start prev active acc
  = cobj o f s (S line) nid stop start prev active acc.
Proof.
  intros o f body s line nid stop start prev active acc Hb Hp Hc.
  destruct f as [|f]; [reflexivity|].
  apply cobj_pos_ext; [apply nw_s0_comment; assumption|].
  rewrite (nw_s0_comment body s line Hb Hp).
  destruct Hc as [Hc|Hc]; [left; exact Hc|right; right; exact Hc].
Qed.

Theorem cobj_skip_comment_noline : forall o f body s line nid stop start prev active acc,
  mem nl body = false -> prefixb (s_ "phil") (body ++ nl :: s) = false ->
  cobj_noline (cobj o f ("#" :: body ++ nl :: s) line nid stop start prev active acc)
  = cobj_noline (cobj o f s (S line) nid stop start prev active acc).
Proof.
  intros o f body s line nid stop start prev active acc Hb Hp.
  destruct f as [|f]; [reflexivity|].
  apply cobj_pos_ext_noline. apply nw_s0_comment; assumption.
Qed.

(* blanks in front of the value words (after the "=") *)
Theorem caw_skip_blanks : forall f blanks s line hc last acc lead,
  forallb isspace blanks = true ->
  (count_nl blanks = 0 \/ nw s1 false s (line + count_nl blanks) <> TEnd) ->
  caw_same (blanks ++ s) line s (line + count_nl blanks)
    (caw f (blanks ++ s) line hc last acc lead) (caw f s (line + count_nl blanks) hc last acc lead).
Proof.
  intros f blanks s line hc last acc lead Hb Hc.
  destruct f as [|f]; [left; reflexivity|].
  apply caw_pos_ext; [apply nw_skip_blanks; exact Hb|].
  rewrite (nw_skip_blanks s1 blanks s line Hb).
  destruct Hc as [Hc|Hc]; [left; lia|right; exact Hc].
Qed.

(* ... and when [caw] hands its start position back, the two positions are again equivalent for
   whatever reads next (blank runs are skipped by every tokenizer setting) *)
Lemma blanks_pos_equiv : forall σ blanks s line,
  forallb isspace blanks = true -> nw σ false (blanks ++ s) line = nw σ false s (line + count_nl blanks).
Proof. exact nw_skip_blanks. Qed.

(* document level, blanks without a newline: exactly the same parse result *)
Theorem parse_leading_blanks_same_line : forall o blanks s,
  forallb isspace blanks = true -> count_nl blanks = 0 ->
  parse o (blanks ++ s) = parse o s.
Proof.
  intros o blanks s Hb Hn. unfold parse.
  rewrite cobj_skip_blanks by (try exact Hb; right; left; exact Hn).
  rewrite Hn, Nat.add_0_r.
  rewrite (cobj_fuel_enough o (S (S (length (blanks ++ s)))) (S (S (length s))) s)
    by (rewrite ?app_length; lia).
  reflexivity.
Qed.

(* ====================================================================================== *)
(* 5. T5: the '!' prefix                                                                     *)
(* ====================================================================================== *)

(* ---------- token lemmas: unquoted words *)
Definition delim (σ:settings) (rest:str) : bool :=
  match rest with [] => true | d :: _ => isspace d || mem d (single σ) end.
Definition wchar (σ:settings) (d:ascii) : bool := negb (isspace d) && negb (mem d (single σ)).

Lemma take_word : forall σ w rest, contig_any σ = true ->
  forallb (wchar σ) w = true -> delim σ rest = true -> take σ (w ++ rest) = (w, rest).
Proof.
  intros σ w rest Hc; induction w as [|d w IH]; intros Hw Hd.
  - cbn [app]. destruct rest as [|d rest]; [reflexivity|]. cbn [take]. cbn [delim] in Hd.
    destruct (isspace d); [reflexivity|]. cbn [orb] in Hd. rewrite Hd. reflexivity.
  - cbn [forallb] in Hw. apply andb_prop in Hw as [Hd1 Hw]. unfold wchar in Hd1.
    apply andb_prop in Hd1 as [H1 H2]. apply negb_true_iff in H1, H2.
    cbn [app take]. rewrite H1, H2, Hc. cbn [negb andb]. rewrite (IH Hw Hd). reflexivity.
Qed.

(* a word starts with a character that is no blank, no single-character word, no comment
   character and no quote *)
Definition wstart (σ:settings) (c:ascii) : bool :=
  wchar σ c && negb (mem c (comment σ)) && negb (Ascii.eqb c dq || Ascii.eqb c sq).

Lemma nw_start : forall σ c s line, contig_any σ = true -> wstart σ c = true ->
  nw σ false (c :: s) line = let (w, r) := take σ s in TWord (mkword (c :: w) QN line) r line.
Proof.
  intros σ c s line Hc Hs. unfold wstart, wchar in Hs.
  apply andb_prop in Hs as [Hs H4]. apply andb_prop in Hs as [Hs H3]. apply andb_prop in Hs as [H1 H2].
  apply negb_true_iff in H1, H2, H3, H4.
  cbn [nw]. rewrite H1, H3, H4, H2, Hc. cbn [andb negb orb].
  unfold bump. rewrite (not_space_not_nl _ H1). reflexivity.
Qed.

(* T5 token lemma: an unquoted word is read as one word, in any context with free word characters
   (s0: single = "{}=", comment "#";  s1: single = "{};", no comment) *)
Theorem nw_word : forall σ c w rest line, contig_any σ = true ->
  wstart σ c = true -> forallb (wchar σ) w = true -> delim σ rest = true ->
  nw σ false (c :: w ++ rest) line = TWord (mkword (c :: w) QN line) rest line.
Proof.
  intros σ c w rest line Hc Hs Hw Hd. rewrite (nw_start σ c _ line Hc Hs).
  rewrite (take_word σ w rest Hc Hw Hd). reflexivity.
Qed.
Corollary nw_s0_word : forall c w rest line,
  wstart s0 c = true -> forallb (wchar s0) w = true -> delim s0 rest = true ->
  nw s0 false (c :: w ++ rest) line = TWord (mkword (c :: w) QN line) rest line.
Proof. intros; apply nw_word; auto. Qed.

Definition bang_tok (t:tokres) : tokres :=
  match t with TWord w r l => TWord (mkword ("!" :: wv w) QN (wline w)) r l | t => t end.

(* "!" glued in front of a word is read as part of that word *)
Lemma nw_bang : forall c s line, wstart s0 c = true ->
  nw s0 false ("!" :: c :: s) line = bang_tok (nw s0 false (c :: s) line).
Proof.
  intros c s line Hs.
  rewrite (nw_start s0 "!" (c :: s) line eq_refl eq_refl).
  rewrite (nw_start s0 c s line eq_refl Hs).
  unfold wstart in Hs. apply andb_prop in Hs as [Hs _]. apply andb_prop in Hs as [Hs _].
  unfold wchar in Hs. apply andb_prop in Hs as [H1 H2]. apply negb_true_iff in H1, H2.
  cbn [take]. rewrite H1, H2. cbn [contig_any contig s0 negb andb].
  destruct (take s0 s) as [w r]. reflexivity.
Qed.

(* ---------- the accumulator of [cobj] is only ever pushed on, and reversed at the end *)
Definition pre_res (p:list obj) (r:res (list obj * str * nat * nat)) : res (list obj * str * nat * nat) :=
  match r with Ok (objs, a, b, c) => Ok (p ++ objs, a, b, c) | UErr k t l => UErr k t l | Crash c => Crash c end.
Lemma pre_bind : forall {A} p (r:res A) k, pre_res p (bind r k) = bind r (fun a => pre_res p (k a)).
Proof. intros A p [a| |] k; reflexivity. Qed.
Lemma pre_pre : forall p q r, pre_res p (pre_res q r) = pre_res (p ++ q) r.
Proof. intros p q [[[[a b] c] d]| |]; cbn [pre_res]; [rewrite app_assoc|..]; reflexivity. Qed.

Ltac pre_step :=
  match goal with
  | |- ?x = ?x => reflexivity
  | |- _ = pre_res _ (bind _ _) => rewrite pre_bind
  | |- bind ?r _ = bind ?r _ => destruct r; cbn [bind]
  | |- match ?x with _ => _ end = _ => destruct x
  | |- (let (_, _) := ?x in _) = _ => destruct x
  end.

Lemma cobj_acc_app : forall o f s line nid stop start prev active acc t,
  cobj o f s line nid stop start prev active (acc ++ t)
  = pre_res (rev t) (cobj o f s line nid stop start prev active acc).
Proof.
  intros o; induction f as [|f IH]; intros s line nid stop start prev active acc t; [reflexivity|].
  destruct active as [ad|]; cbn [cobj]; repeat pre_step.
  all: try reflexivity.
  all: try (cbn [pre_res]; rewrite ?app_comm_cons, rev_app_distr; reflexivity).
  all: try (rewrite ?app_comm_cons; apply IH).
Qed.
Lemma cobj_acc_nil : forall o f s line nid stop start prev active t,
  cobj o f s line nid stop start prev active t
  = pre_res (rev t) (cobj o f s line nid stop start prev active []).
Proof. intros. exact (cobj_acc_app o f s line nid stop start prev active [] t). Qed.

(* ---------- the active definition is only ever touched by [attach], and then flushed *)
Definition head_res (g:obj -> obj) (r:res (list obj * str * nat * nat)) : res (list obj * str * nat * nat) :=
  match r with Ok (x :: objs, a, b, c) => Ok (g x :: objs, a, b, c) | r => r end.
Lemma head_bind : forall {A} g (r:res A) k, head_res g (bind r k) = bind r (fun a => head_res g (k a)).
Proof. intros A g [a| |] k; reflexivity. Qed.
Lemma head_pre : forall g x p r, head_res g (pre_res (x :: p) r) = pre_res (g x :: p) r.
Proof. intros g x p [[[[a b] c] d]| |]; reflexivity. Qed.

Ltac head_step :=
  match goal with
  | |- ?x = ?x => reflexivity
  | |- _ = head_res _ (bind _ _) => rewrite head_bind
  | |- bind ?r _ = bind ?r _ => destruct r; cbn [bind]
  | |- match ?x with _ => _ end = _ => destruct x
  | |- (let (_, _) := ?x in _) = _ => destruct x
  end.

Lemma cobj_active_map : forall o (g:obj -> obj),
  (forall n v x, g (attach n v x) = attach n v (g x)) ->
  forall f s line nid stop start prev ad,
  cobj o f s line nid stop start prev (Some (g ad)) []
  = head_res g (cobj o f s line nid stop start prev (Some ad) []).
Proof.
  intros o g Hg; induction f as [|f IH]; intros s line nid stop start prev ad; [reflexivity|].
  cbn [cobj]. repeat head_step.
  all: try reflexivity.
  all: try apply IH.
  - match goal with |- cobj _ _ _ _ _ _ _ _ _ [?X; g ad] = _ =>
      rewrite (cobj_acc_app o f _ _ _ _ _ _ None [X] [g ad]), (cobj_acc_app o f _ _ _ _ _ _ None [X] [ad]) end.
    cbn [rev app]. rewrite head_pre. reflexivity.
  - match goal with |- cobj _ _ _ _ _ _ _ _ ?A [g ad] = _ =>
      rewrite (cobj_acc_app o f _ _ _ _ _ _ A [] [g ad]), (cobj_acc_app o f _ _ _ _ _ _ A [] [ad]) end.
    cbn [rev app]. rewrite head_pre. reflexivity.
  - destruct b; cbn [bind]; [apply IH|].
    destruct (assign_def_attr o (drop 1 s0) l); cbn [bind]; try reflexivity.
    rewrite <- Hg. apply IH.
Qed.

(* ---------- disabling the construct that a dotted name denotes *)
Definition set_dis (o:obj) : obj := set_hdr o (with_dis (ohdr o) true).
(* [adopt] turns "a.b.c = v" into nested single-child scopes a { b { c = v } }: the construct
   proper sits [number of dots] levels down *)
Fixpoint dis_depth (n:nat) (o:obj) : obj :=
  match n with
  | 0 => set_dis o
  | S m => match o with Scp h [k] a => Scp h [dis_depth m k] a | other => other end
  end.

Lemma dis_depth_attach : forall n nm v x, dis_depth n (attach nm v x) = attach nm v (dis_depth n x).
Proof.
  induction n as [|n IH]; intros nm v x.
  - destruct x as [h w a|h [|k [|k2 ks]] a]; reflexivity.
  - destruct x as [h w a|h [|k [|k2 ks]] a]; try reflexivity.
    cbn [attach dis_depth]. rewrite IH. reflexivity.
Qed.

Lemma wrap_dotted_dis : forall comps first x,
  wrap_dotted first comps (set_dis x) = dis_depth (length comps - 1) (wrap_dotted first comps x).
Proof.
  induction comps as [|c rest IH]; intros first x; [reflexivity|].
  destruct rest as [|c2 rest].
  - cbn [wrap_dotted length Nat.sub dis_depth]. destruct first; [reflexivity|].
    destruct x; reflexivity.
  - change (wrap_dotted first (c :: c2 :: rest) (set_dis x))
      with (Scp (mkhdr c false 0 (negb first) (opid (ohdr (set_dis x))) 0) [wrap_dotted false (c2 :: rest) (set_dis x)] []).
    change (wrap_dotted first (c :: c2 :: rest) x)
      with (Scp (mkhdr c false 0 (negb first) (opid (ohdr x)) 0) [wrap_dotted false (c2 :: rest) x] []).
    rewrite IH.
    replace (length (c :: c2 :: rest) - 1) with (S (length (c2 :: rest) - 1)) by (cbn [length]; lia).
    destruct x; reflexivity.
Qed.

Lemma adopt_dis : forall x,
  adopt (set_dis x) = dis_depth (length (splitdot (oname (ohdr x))) - 1) (adopt x).
Proof.
  intros x. unfold adopt.
  replace (oname (ohdr (set_dis x))) with (oname (ohdr x)) by (destruct x; reflexivity).
  apply wrap_dotted_dis.
Qed.

Fixpoint map_at (n:nat) (g:obj -> obj) (l:list obj) : list obj :=
  match l with
  | [] => []
  | x :: r => match n with 0 => g x :: r | S m => x :: map_at m g r end
  end.
Definition nth_res (n:nat) (g:obj -> obj) (r:res (list obj * str * nat * nat)) : res (list obj * str * nat * nat) :=
  match r with Ok (objs, a, b, c) => Ok (map_at n g objs, a, b, c) | r => r end.
Lemma map_at_app : forall p g l, map_at (length p) g (p ++ l) = p ++ map_at 0 g l.
Proof. induction p as [|x p IH]; intros g l; [reflexivity|]. cbn [length app map_at]. rewrite IH. reflexivity. Qed.
Lemma nth_bind : forall {A} n g (r:res A) k, nth_res n g (bind r k) = bind r (fun a => nth_res n g (k a)).
Proof. intros A n g [a| |] k; reflexivity. Qed.
Lemma nth_pre_head : forall p g r, nth_res (length p) g (pre_res p r) = pre_res p (head_res g r).
Proof.
  intros p g [[[[objs b] c] d]| |]; try reflexivity.
  cbn [pre_res nth_res]. rewrite map_at_app. destruct objs; reflexivity.
Qed.
Lemma nth_pre_last : forall p g x r, nth_res (length p) g (pre_res (p ++ [x]) r) = pre_res (p ++ [g x]) r.
Proof.
  intros p g x [[[[objs b] c] d]| |]; try reflexivity.
  cbn [pre_res nth_res]. rewrite <- !app_assoc, map_at_app. reflexivity.
Qed.

(* the tests that [cobj] makes on the leading word, for "!word" and for "word" *)
Lemma lead_tests_bang : forall v,
  eqs ("!" :: v) intro = false /\ eqs ("!" :: v) ["}"] = false /\ eqs ("!" :: v) ["{"] = false
  /\ strip_bang ("!" :: v) = (v, true).
Proof. intros v. repeat split. Qed.
Lemma lead_tests_plain : forall c w, wstart s0 c = true -> c <> "!" ->
  eqs (c :: w) intro = false /\ eqs (c :: w) ["}"] = false /\ eqs (c :: w) ["{"] = false
  /\ strip_bang (c :: w) = (c :: w, false).
Proof.
  intros c w Hs Hb.
  assert (Hne : Ascii.eqb c "!" = false) by (apply Ascii.eqb_neq; exact Hb).
  unfold wstart, wchar in Hs.
  apply andb_prop in Hs as [Hs _]. apply andb_prop in Hs as [Hs H3]. apply andb_prop in Hs as [_ H2].
  apply negb_true_iff in H2, H3. cbn [mem single comment s0] in H2, H3.
  apply orb_false_iff in H2 as [Ha H2]. apply orb_false_iff in H2 as [Hb' H2]. apply orb_false_iff in H3 as [Hh _].
  unfold intro. cbn [s_ String.list_ascii_of_string eqs strip_bang]. rewrite Ha, Hb', Hh, Hne. repeat split.
Qed.

Definition flushed (active:option obj) (acc:list obj) : list obj :=
  match active with Some d => d :: acc | None => acc end.
(* number of dots in the name that starts at this position *)
Definition name_depth (s:str) (line:nat) : nat :=
  match nw s0 false s line with TWord w _ _ => length (splitdot (wv w)) - 1 | _ => 0 end.

Ltac nth_step :=
  match goal with
  | |- ?x = ?x => reflexivity
  | |- _ = nth_res _ _ (bind _ _) => rewrite nth_bind
  | |- bind ?r _ = bind ?r _ => destruct r; cbn [bind]
  | |- match ?x with _ => _ end = _ => destruct x
  | |- (let (_, _) := ?x in _) = _ => destruct x
  end.

(* T5 at the level of one [cobj] iteration (any depth, any state): "!" glued to the name of a
   definition or scope sets the disabled flag of exactly that object, and changes nothing else -
   the other objects, the remaining input, the ids, and every error are identical. *)
Theorem cobj_bang : forall o f c s line nid stop start prev active acc,
  wstart s0 c = true -> c <> "!" -> c <> "." ->
  cobj o f ("!" :: c :: s) line nid stop start prev active acc
  = nth_res (length (flushed active acc)) (dis_depth (name_depth (c :: s) line))
      (cobj o f (c :: s) line nid stop start prev active acc).
Proof.
  intros o f c s line nid stop start prev active acc Hs Hb Hd.
  destruct f as [|f]; [reflexivity|].
  cbn [cobj]. unfold name_depth. rewrite (nw_bang c s line Hs), (nw_start s0 c s line eq_refl Hs).
  destruct (take s0 s) as [w r]. cbn [bang_tok wv wq wline isq].
  destruct (lead_tests_bang (c :: w)) as (B1 & B2 & B3 & B4).
  destruct (lead_tests_plain c w Hs Hb) as (P1 & P2 & P3 & P4).
  rewrite B1, B2, B3, B4, P1, P2, P3, P4. cbn [andb].
  rewrite !andb_false_r.
  assert (Hdot : prefixb ["."] (c :: w) = false).
  { cbn [prefixb]. rewrite Ascii.eqb_sym. apply Ascii.eqb_neq in Hd. rewrite Hd. reflexivity. }
  rewrite Hdot. cbn [negb].
  change (match active with Some d => d :: acc | None => acc end) with (flushed active acc).
  set (G := dis_depth (length (splitdot (c :: w)) - 1)).
  set (n := length (flushed active acc)).
  repeat nth_step.
  all: try reflexivity.
  - (* scope *)
    match goal with |- cobj _ _ ?a ?b ?c ?d ?e ?g None (adopt ?X :: _) = nth_res _ _ (cobj _ _ _ _ _ _ _ _ _ (adopt ?Y :: _)) =>
      rewrite (cobj_acc_nil o f a b c d e g None (adopt X :: flushed active acc)),
              (cobj_acc_nil o f a b c d e g None (adopt Y :: flushed active acc));
      change X with (set_dis Y) end.
    rewrite adopt_dis. cbn [rev ohdr oname]. fold G.
    unfold n. rewrite <- (rev_length (flushed active acc)). rewrite nth_pre_last. reflexivity.
  - (* definition *)
    match goal with |- cobj _ _ ?a ?b ?c ?d ?e ?g (Some (adopt ?X)) _ = nth_res _ _ (cobj _ _ _ _ _ _ _ _ (Some (adopt ?Y)) _) =>
      rewrite (cobj_acc_nil o f a b c d e g (Some (adopt X)) (flushed active acc)),
              (cobj_acc_nil o f a b c d e g (Some (adopt Y)) (flushed active acc));
      change X with (set_dis Y) end.
    rewrite adopt_dis. cbn [ohdr oname]. fold G.
    rewrite (cobj_active_map o G (dis_depth_attach _)).
    unfold n. rewrite <- (rev_length (flushed active acc)). rewrite nth_pre_head. reflexivity.
Qed.

(* document level *)
Definition on_first (g:obj -> obj) (r:res (list obj)) : res (list obj) :=
  match r with Ok l => Ok (map_at 0 g l) | r => r end.

Theorem parse_bang : forall o c s,
  wstart s0 c = true -> c <> "!" -> c <> "." ->
  parse o ("!" :: c :: s) = on_first (dis_depth (name_depth (c :: s) 1)) (parse o (c :: s)).
Proof.
  intros o c s Hs Hb Hd. unfold parse.
  rewrite (cobj_bang o _ c s 1 1 false None 0 None [] Hs Hb Hd).
  rewrite (cobj_fuel_enough o (S (S (length ("!" :: c :: s)))) (S (S (length (c :: s)))) (c :: s))
    by (cbn [length]; lia).
  destruct (cobj o (S (S (length (c :: s)))) (c :: s) 1 1 false None 0 None []) as [[[[objs a] b] d]| |];
    reflexivity.
Qed.

Lemma is_start_props : forall c, is_start c = true -> wstart s0 c = true /\ c <> "!" /\ c <> ".".
Proof.
  intros c. destruct c as [[] [] [] [] [] [] [] []]; vm_compute; intros H; try discriminate H;
    (split; [reflexivity|split; discriminate]).
Qed.
Lemma is_cont_wchar : forall c, is_cont c = true -> wchar s0 c = true.
Proof.
  intros c. destruct c as [[] [] [] [] [] [] [] []]; vm_compute; intros H; try discriminate H; reflexivity.
Qed.
Lemma forallb_impl : forall {A} (p q:A -> bool) l, (forall x, p x = true -> q x = true) ->
  forallb p l = true -> forallb q l = true.
Proof.
  intros A p q l Hpq; induction l as [|x l IH]; [reflexivity|]. cbn [forallb]. intros H.
  apply andb_prop in H as [H1 H2]. rewrite (Hpq _ H1), (IH H2). reflexivity.
Qed.

(* an identifier followed by a blank, "=", "{", "}" or the end of input is read as one word *)
Lemma nw_s0_ident : forall name rest line, is_ident name = true -> delim s0 rest = true ->
  exists c w, name = c :: w /\ wstart s0 c = true /\ c <> "!" /\ c <> "."
              /\ nw s0 false (name ++ rest) line = TWord (mkword name QN line) rest line.
Proof.
  intros name rest line Hi Hd. unfold is_ident in Hi. apply andb_prop in Hi as [Hi _].
  destruct name as [|c w]; [discriminate|]. cbn [is_ident1] in Hi. apply andb_prop in Hi as [Hc Hw].
  destruct (is_start_props c Hc) as (H1 & H2 & H3).
  exists c, w. repeat split; try assumption.
  cbn [app]. apply nw_s0_word; [exact H1| |exact Hd].
  eapply forallb_impl; [|exact Hw]. exact is_cont_wchar.
Qed.

(* T5, the named form: for an identifier [name] (dotted or not) in front of a definition or a
   scope, "!name..." parses exactly like "name..." except that the object the name denotes is
   disabled; if "name..." fails to parse, "!name..." fails with the same error. *)
Theorem bang_object : forall o name rest,
  is_ident name = true -> delim s0 rest = true ->
  parse o ("!" :: name ++ rest)
  = on_first (dis_depth (length (splitdot name) - 1)) (parse o (name ++ rest)).
Proof.
  intros o name rest Hi Hd.
  destruct (nw_s0_ident name rest 1 Hi Hd) as (c & w & -> & Hs & Hb & Hdot & Hn).
  cbn [app]. rewrite (parse_bang o c (w ++ rest) Hs Hb Hdot).
  unfold name_depth. cbn [app] in Hn. rewrite Hn. reflexivity.
Qed.

(* for a name without dots the object itself carries the flag *)
Corollary bang_simple : forall o name rest,
  is_ident name = true -> mem "." name = false -> delim s0 rest = true ->
  parse o ("!" :: name ++ rest) = on_first set_dis (parse o (name ++ rest)).
Proof.
  intros o name rest Hi Hm Hd. rewrite (bang_object o name rest Hi Hd).
  replace (length (splitdot name) - 1) with 0; [reflexivity|].
  clear Hi. induction name as [|c w IH]; [reflexivity|].
  cbn [mem] in Hm. apply orb_false_iff in Hm as [H1 H2].
  cbn [splitdot]. rewrite Ascii.eqb_sym, H1.
  specialize (IH H2). destruct (splitdot w) as [|h t]; [reflexivity|]. cbn [length] in *. lia.
Qed.

(* T5 for attributes: "!.attr = words" after a definition reads the words and drops them - the
   active definition is untouched (not even a conversion error can arise) and parsing continues
   at the same place, in the same state, as after ".attr = words". *)
Theorem bang_attr : forall o f an s line nid stop start prev ad acc r5 l5 eqw ws r6 l6 rest,
  let lead' := mkword ("." :: an) QN line in
  forallb (wchar s0) an = true -> delim s0 rest = true -> s = an ++ rest ->
  mems an def_attr_names = true ->
  pop_unq s0 rest line = Ok (eqw, r5, l5) -> expect_eq eqw = Ok tt ->
  caw (S (length r5)) r5 l5 false lead' [] lead' = Ok (ws, r6, l6) ->
  cobj o (S f) ("!" :: "." :: s) line nid stop start prev (Some ad) acc
    = cobj o f r6 l6 nid stop start line (Some ad) acc
  /\ cobj o (S f) ("." :: s) line nid stop start prev (Some ad) acc
    = (do av <- assign_def_attr o an ws ;
       cobj o f r6 l6 nid stop start line (Some (attach an av ad)) acc).
Proof.
  intros o f an s line nid stop start prev ad acc r5 l5 eqw ws r6 l6 rest lead' Hw Hd -> Hm Hp He Hc.
  assert (Hpop : pop s0 rest line = Ok (eqw, r5, l5) /\ isq eqw = false).
  { unfold pop_unq in Hp. destruct (pop s0 rest line) as [[[w0 r0] l0]| |]; try discriminate.
    destruct (isq w0) eqn:Eq; [discriminate|]. inversion Hp; subst. split; [reflexivity|exact Eq]. }
  destruct Hpop as [Hpop Hq].
  assert (Heq : eqs (wv eqw) ["="] = true).
  { unfold expect_eq in He. destruct (eqs (wv eqw) ["="]); [reflexivity|discriminate]. }
  assert (Hnot : negb (isq eqw) && (eqs (wv eqw) ["{"] || prefixb ["."] (wv eqw) || prefixb ["!"; "."] (wv eqw)) = false).
  { destruct (wv eqw) as [|e1 [|e2 et]]; cbn [eqs] in Heq; rewrite ?andb_false_r in Heq; try discriminate Heq.
    rewrite andb_true_r in Heq. apply Ascii.eqb_eq in Heq. subst e1. rewrite Hq. reflexivity. }
  split.
  - cbn [cobj].
    rewrite (nw_bang "." (an ++ rest) line eq_refl), (nw_s0_word "." an rest line eq_refl Hw Hd).
    cbn [bang_tok wv wq wline isq]. cbn [eqs intro s_ String.list_ascii_of_string Ascii.eqb Bool.eqb andb strip_bang].
    rewrite !andb_false_r. rewrite Hpop. cbn [bind]. rewrite Hnot.
    cbn [prefixb Ascii.eqb Bool.eqb andb negb drop]. rewrite Hm. cbn [negb].
    rewrite Hp. cbn [bind]. rewrite He. cbn [bind]. fold lead'. rewrite Hc. reflexivity.
  - cbn [cobj].
    rewrite (nw_s0_word "." an rest line eq_refl Hw Hd).
    cbn [wv wq wline isq]. cbn [eqs intro s_ String.list_ascii_of_string Ascii.eqb Bool.eqb andb strip_bang].
    rewrite !andb_false_r. rewrite Hpop. cbn [bind]. rewrite Hnot.
    cbn [prefixb Ascii.eqb Bool.eqb andb negb drop]. rewrite Hm. cbn [negb].
    rewrite Hp. cbn [bind]. rewrite He. cbn [bind]. fold lead'. rewrite Hc. cbn [bind].
    destruct (assign_def_attr o an ws); reflexivity.
Qed.

(* the same for a scope attribute in a scope header: "!.attr = words" is read and dropped *)
Theorem bang_scope_attr : forall o f an l0 s line acc eqw r l ws r2 l2 w2 r3 l3,
  let aw := mkword ("." :: an) QN l0 in
  mems an scope_attr_names = true ->
  pop_unq s0 s line = Ok (eqw, r, l) -> expect_eq eqw = Ok tt ->
  caw (S (length r)) r l false aw [] aw = Ok (ws, r2, l2) ->
  pop_unq s0 r2 l2 = Ok (w2, r3, l3) ->
  sattrs o (S f) (mkword ("!" :: "." :: an) QN l0) s line acc = sattrs o f w2 r3 l3 acc
  /\ sattrs o (S f) aw s line acc
     = (do av <- assign_scope_attr o an ws ; sattrs o f w2 r3 l3 (set_attr an av acc)).
Proof.
  intros o f an l0 s line acc eqw r l ws r2 l2 w2 r3 l3 aw Hm Hp He Hc Hp2. split.
  - cbn [sattrs wv wline].
    change (eqs ("!" :: "." :: an) ["{"]) with false. cbv iota.
    change (strip_bang ("!" :: "." :: an)) with ("." :: an, true). cbv iota.
    change (Ascii.eqb "." ".") with true. rewrite Hm. cbn [andb].
    rewrite Hp. cbn [bind]. rewrite He. cbn [bind]. fold aw. rewrite Hc. cbn [bind].
    rewrite Hp2. reflexivity.
  - unfold aw at 1. cbn [sattrs wv wline].
    change (eqs ("." :: an) ["{"]) with false. cbv iota.
    change (strip_bang ("." :: an)) with ("." :: an, false). cbv iota.
    change (Ascii.eqb "." ".") with true. rewrite Hm. cbn [andb].
    rewrite Hp. cbn [bind]. rewrite He. cbn [bind]. fold aw. rewrite Hc. cbn [bind].
    destruct (assign_scope_attr o an ws); cbn [bind]; try reflexivity.
    rewrite Hp2. reflexivity.
Qed.

(* ====================================================================================== *)
(* 4. T4: newline versus semicolon as the terminator of a value (one-word value)             *)
(* ====================================================================================== *)

(* a word that [caw] takes as part of the value: quoted, or none of { } ; # \ *)
Definition val_word (w:word) : bool :=
  isq w || negb (is1 w "{" || is1 w "}" || is1 w ";" || is1 w "#" || is1 w bs).
(* what follows the newline starts a new construct: end of input, or an unquoted word other than
   ";" and "#" (a quoted word on the next line would continue the value; see the examples) *)
Definition next_starts_object (rest:str) (line:nat) : bool :=
  match nw s1 false rest line with
  | TEnd => true
  | TWord w2 _ _ => negb (isq w2) && negb (is1 w2 ";") && negb (is1 w2 "#")
  | TErrQuote _ => false
  end.

Lemma nw_end_blank : forall σ s line, comment σ = [] -> nw σ false s line = TEnd -> forallb isspace s = true.
Proof.
  intros σ s; induction s as [|c s IH]; intros line Hc H; [reflexivity|].
  cbn [nw] in H. cbn [forallb]. destruct (isspace c) eqn:Es; [cbn [andb]; eapply IH; eassumption|].
  rewrite Hc in H. cbn [mem andb] in H.
  destruct (Ascii.eqb c dq || Ascii.eqb c sq).
  - assert (Hq : forall tr body l, quoted_word tr c body l <> TEnd).
    { intros tr body l. unfold quoted_word. destruct (scan tr c body l) as [[[v r] l']|]; discriminate. }
    destruct s as [|q1 [|q2 s']]; try (exfalso; eapply Hq; exact H).
    destruct (Ascii.eqb q1 c && Ascii.eqb q2 c); exfalso; eapply Hq; exact H.
  - destruct (negb (mem c (single σ)) && (contig_any σ || mem c (contig σ))); [|discriminate].
    destruct (take σ s); discriminate.
Qed.

Lemma nw_s1_semicolon : forall rest line,
  nw s1 false (";" :: rest) line = TWord (mkword [";"] QN line) rest line.
Proof. reflexivity. Qed.

Theorem caw_semicolon_newline_single : forall f v w1 rest line last acc lead,
  (forall t, delim s1 t = true -> nw s1 false (v ++ t) line = TWord w1 t line) ->
  val_word w1 = true ->
  isq w1 || weq last [bs] || (wline w1 =? wline last)%nat = true ->
  wline w1 = line ->
  next_starts_object rest (S line) = true ->
  exists p,
    caw (S (S f)) (v ++ ";" :: rest) line false last acc lead = Ok (rev (w1 :: acc), rest, line)
    /\ caw (S (S f)) (v ++ nl :: rest) line false last acc lead = Ok (rev (w1 :: acc), p, line)
    /\ nw s0 false p line = nw s0 false rest (S line).
Proof.
  intros f v w1 rest line last acc lead Hv Hval Hacc Hl Hnext.
  assert (Hspecial : negb (isq w1) && (is1 w1 "{" || is1 w1 "}" || is1 w1 ";" || is1 w1 "#") = false).
  { unfold val_word in Hval. destruct (isq w1); [reflexivity|]. cbn [orb negb andb] in *.
    apply negb_true_iff in Hval. apply orb_false_iff in Hval as [Hval _]. exact Hval. }
  assert (Hnb : weq w1 [bs] = false).
  { unfold val_word in Hval. unfold weq. destruct (isq w1); [reflexivity|]. cbn [orb negb andb] in *.
    apply negb_true_iff in Hval. apply orb_false_iff in Hval as [_ Hval]. exact Hval. }
  assert (Hstep : forall t, delim s1 t = true ->
            caw (S (S f)) (v ++ t) line false last acc lead = caw (S f) t line false w1 (w1 :: acc) lead).
  { intros t Ht. cbn [caw]. rewrite (Hv t Ht). cbn [negb andb]. rewrite Hspecial.
    destruct (isq w1 || weq last [bs]) eqn:E1;
      [change (negb (isq w1) && is1 w1 bs) with (weq w1 [bs]); rewrite Hnb; reflexivity|].
    cbn [orb] in Hacc. rewrite Hacc. cbn [negb].
    assert (Hb : is1 w1 bs = false).
    { apply orb_false_iff in E1 as [E1 _]. unfold weq in Hnb. rewrite E1 in Hnb. exact Hnb. }
    rewrite Hb. reflexivity. }
  assert (Hne : rev (w1 :: acc) = rev acc ++ [w1]) by reflexivity.
  assert (Hfin : forall (s':str) (l':nat),
            match w1 :: acc with [] => E "MissingValue" (str_of_word lead) (wline lead)
                               | _ => Ok (rev (w1 :: acc), s', l') end = Ok (rev (w1 :: acc), s', l')) by reflexivity.
  unfold next_starts_object in Hnext.
  destruct (nw s1 false rest (S line)) as [|w2 r2 l2|l2] eqn:En; [| |discriminate].
  - (* nothing but blanks follows *)
    exists []. split; [|split].
    + rewrite (Hstep (";" :: rest) eq_refl). cbn [caw]. rewrite nw_s1_semicolon. reflexivity.
    + rewrite (Hstep (nl :: rest) eq_refl). cbn [caw].
      change (nw s1 false (nl :: rest) line) with (nw s1 false rest (S line)). rewrite En. reflexivity.
    + pose proof (nw_end_blank s1 rest (S line) eq_refl En) as Hb.
      rewrite <- (app_nil_r rest). rewrite (nw_skip_blanks s0 rest [] (S line) Hb). reflexivity.
  - exists (nl :: rest). split; [|split].
    + rewrite (Hstep (";" :: rest) eq_refl). cbn [caw]. rewrite nw_s1_semicolon. reflexivity.
    + rewrite (Hstep (nl :: rest) eq_refl). cbn [caw].
      change (nw s1 false (nl :: rest) line) with (nw s1 false rest (S line)). rewrite En.
      apply andb_prop in Hnext as [Hnext H3]. apply andb_prop in Hnext as [H1 H2].
      apply negb_true_iff in H1, H2, H3. rewrite H1, H2, H3. cbn [negb andb orb]. rewrite Hnb.
      destruct (is1 w2 "{" || is1 w2 "}"); cbn [orb]; [reflexivity|].
      destruct (nw_lines _ _ _ _ _ _ _ En) as (pre & body & _ & Hw2 & _).
      assert (Hd : (wline w2 =? wline w1)%nat = false) by (apply Nat.eqb_neq; lia).
      rewrite Hd. reflexivity.
    + reflexivity.
Qed.

(* ====================================================================================== *)
(* 6. Line shift: starting the readers k lines further down shifts every line by k and      *)
(*    changes nothing else (needed for layout changes that add or remove newlines)          *)
(* ====================================================================================== *)

Definition shw (k:nat) (w:word) : word := mkword (wv w) (wq w) (wline w + k).
Definition sht (k:nat) (t:tokres) : tokres :=
  match t with TEnd => TEnd | TWord w r l => TWord (shw k w) r (l + k) | TErrQuote l => TErrQuote (l + k) end.
Definition shs (k:nat) (r:sres) : sres :=
  match r with inl (v, r', l') => inl (v, r', l' + k) | inr l => inr (l + k) end.

Lemma bump_add : forall c line k, bump c (line + k) = bump c line + k.
Proof. intros. unfold bump. destruct (Ascii.eqb c nl); reflexivity. Qed.
Lemma scons_shs : forall x k r, scons x (shs k r) = shs k (scons x r).
Proof. intros x k [[[v r] l]|l]; reflexivity. Qed.

Lemma scan_shift : forall triple q k s line, scan triple q s (line + k) = shs k (scan triple q s line).
Proof.
  intros triple q k s. remember (length s) as n eqn:Hn. revert s Hn.
  induction n as [n IHn] using lt_wf_ind; intros s Hn line.
  destruct s as [|c s]; [reflexivity|].
  assert (Hrec0 : forall s' l, length s' < n -> scan triple q s' (l + k) = shs k (scan triple q s' l)).
  { intros s' l Hlt. eapply IHn; [exact Hlt|reflexivity]. }
  assert (Hrec : forall x s' l, length s' < n ->
            scons x (scan triple q s' (l + k)) = shs k (scons x (scan triple q s' l))).
  { intros x s' l Hlt. rewrite Hrec0 by exact Hlt. apply scons_shs. }
  cbn [scan]. rewrite bump_add. set (L := bump c line).
  assert (Hl : length s < n) by (subst n; cbn [length]; lia).
  destruct (Ascii.eqb c q).
  - destruct triple; cbn [negb]; [|reflexivity].
    destruct s as [|q1 [|q2 s']]; try (apply Hrec; exact Hl).
    destruct (Ascii.eqb q1 q && Ascii.eqb q2 q); [reflexivity|apply Hrec; exact Hl].
  - destruct (Ascii.eqb c bs); [|apply Hrec; exact Hl].
    destruct s as [|d s']; [apply Hrec; exact Hl|].
    assert (Hl' : length s' < n) by (cbn [length] in Hl; lia).
    destruct (Ascii.eqb d bs); [apply Hrec; exact Hl'|].
    destruct (Ascii.eqb d q); [rewrite bump_add; apply Hrec; exact Hl'|].
    destruct (Ascii.eqb d nl); [|apply Hrec; exact Hl].
    change (S (L + k)) with (S L + k). apply Hrec0; exact Hl'.
Qed.

Lemma quoted_word_shift : forall triple c body line k,
  quoted_word triple c body (line + k) = sht k (quoted_word triple c body line).
Proof.
  intros. unfold quoted_word. rewrite scan_shift.
  destruct (scan triple c body line) as [[[v r] l]|l]; reflexivity.
Qed.

Theorem nw_shift : forall σ k s ic line, nw σ ic s (line + k) = sht k (nw σ ic s line).
Proof.
  intros σ k s; induction s as [|c s IH]; intros ic line; [reflexivity|].
  cbn [nw]. rewrite bump_add.
  destruct ic; [apply IH|].
  destruct (isspace c); [apply IH|].
  match goal with |- (if ?b then _ else _) = _ => destruct b end; [apply IH|].
  destruct (Ascii.eqb c dq || Ascii.eqb c sq).
  - destruct s as [|q1 [|q2 s']]; try apply quoted_word_shift.
    destruct (Ascii.eqb q1 c && Ascii.eqb q2 c); apply quoted_word_shift.
  - match goal with |- (if ?b then _ else _) = _ => destruct b end; [|reflexivity].
    destruct (take σ s); reflexivity.
Qed.

(* the lines a token reports are never before the start line *)
Lemma nw_ge : forall σ ic s line w r l, nw σ ic s line = TWord w r l -> line <= wline w /\ line <= l.
Proof.
  intros σ ic s line w r l H. destruct (nw_lines _ _ _ _ _ _ _ H) as (pre & body & _ & Hw & Hl & _). lia.
Qed.

(* ---------- the off-region scanner *)
Definition sh3 (k:nat) (x:str * nat * option nat) : str * nat * option nat :=
  let '(r, l, fu) := x in (r, l + k, fu).
Lemma after_followup_shift : forall s line k,
  after_followup s (line + k) = (let '(r, l, b) := after_followup s line in (r, l + k, b)).
Proof.
  induction s as [|c s IH]; intros line k; [reflexivity|]. cbn [after_followup].
  destruct (Ascii.eqb c nl); [reflexivity|]. destruct (isspace c); [apply IH|reflexivity].
Qed.
Lemma nlrun_shift : forall (kk:str -> nat -> str * nat * option nat) k,
  (forall t ln, kk t (ln + k) = sh3 k (kk t ln)) ->
  forall g t ln, nlrun kk g t (ln + k) = sh3 k (nlrun kk g t ln).
Proof.
  intros kk k Hk g; induction g as [|g IH]; intros t ln; [reflexivity|]. cbn [nlrun].
  destruct t as [|c0 t1]; [reflexivity|]. destruct t1 as [|d t1']; [reflexivity|].
  change (S (ln + k)) with (S ln + k).
  destruct (Ascii.eqb d nl); [apply IH|].
  destruct (negb (prefixb intro (d :: t1'))); [apply Hk|].
  destruct (skip_nonspace (drop (length intro) (d :: t1'))) as [|c3 t3]; [reflexivity|].
  destruct (skip_space (c3 :: t3)) as [|c4 t4]; [reflexivity|].
  destruct (prefixb f_end (c4 :: t4)).
  { rewrite after_followup_shift.
    destruct (after_followup (drop (length f_end) (c4 :: t4)) (S ln)) as [[t5 ln5] ret].
    destruct ret; [reflexivity|apply Hk]. }
  destruct (prefixb f_on (c4 :: t4)); [|apply Hk].
  rewrite after_followup_shift.
  destruct (after_followup (drop (length f_on) (c4 :: t4)) (S ln)) as [[t5 ln5] ret].
  destruct ret; [reflexivity|apply Hk].
Qed.
Lemma sfs_shift : forall k f s line, sfs f s (line + k) = sh3 k (sfs f s line).
Proof.
  intros k; induction f as [|f IH]; intros s line; [reflexivity|]. cbn [sfs].
  destruct s as [|c r]; [reflexivity|].
  destruct (negb (Ascii.eqb c nl)); [apply IH|]. apply nlrun_shift. exact IH.
Qed.
Lemma sfs_ge : forall f s line r l fu, sfs f s line = (r, l, fu) -> line <= l.
Proof.
  intros f s line r l fu H. pose proof (sfs_shift line f s 0) as Hs. cbn [Nat.add] in Hs. rewrite H in Hs.
  destruct (sfs f s 0) as [[r0 l0] fu0]. cbn [sh3] in Hs. inversion Hs. lia.
Qed.

(* ---------- collect_assigned_words *)
Definition shc (k:nat) (r:res (list word * str * nat)) : res (list word * str * nat) :=
  match r with
  | Ok (ws, s', l') => Ok (map (shw k) ws, s', l' + k)
  | UErr kd t l => UErr kd t (l + k)
  | Crash c => Crash c
  end.

Lemma caw_shift : forall k f s line hc last acc lead,
  caw f s (line + k) hc (shw k last) (map (shw k) acc) (shw k lead)
  = shc k (caw f s line hc last acc lead).
Proof.
  intros k; induction f as [|f IH]; intros s line hc last acc lead; [reflexivity|].
  cbn [caw]. rewrite nw_shift.
  assert (Hfin : forall s' l',
    match map (shw k) acc with
    | [] => E "MissingValue" (str_of_word (shw k lead)) (wline (shw k lead))
    | _ :: _ => Ok (rev (map (shw k) acc), s', l' + k) end
    = shc k match acc with
            | [] => E "MissingValue" (str_of_word lead) (wline lead)
            | _ :: _ => Ok (rev acc, s', l') end).
  { intros s' l'. destruct acc as [|a acc']; [reflexivity|].
    change (map (shw k) (a :: acc')) with (shw k a :: map (shw k) acc') at 1. cbv iota.
    change (shw k a :: map (shw k) acc') with (map (shw k) (a :: acc')).
    cbn [shc]. rewrite map_rev. reflexivity. }
  destruct (nw s1 false s line) as [|w r l|l]; cbn [sht].
  - apply Hfin.
  - change (isq (shw k w)) with (isq w). change (weq (shw k last) [bs]) with (weq last [bs]).
    change (is1 (shw k w) "{") with (is1 w "{"). change (is1 (shw k w) "}") with (is1 w "}").
    change (is1 (shw k w) ";") with (is1 w ";"). change (is1 (shw k w) "#") with (is1 w "#").
    change (is1 (shw k w) bs) with (is1 w bs).
    cbn [wline shw].
    replace (wline w + k =? wline last + k)%nat with (wline w =? wline last)%nat
      by (destruct (Nat.eqb_spec (wline w) (wline last)); symmetry; [apply Nat.eqb_eq|apply Nat.eqb_neq]; lia).
    destruct (negb hc && negb (isq w) && (is1 w "{" || is1 w "}" || is1 w ";" || is1 w "#")).
    + destruct (is1 w ";"); [apply Hfin|].
      destruct (negb (is1 w "#")); [apply Hfin|apply IH].
    + destruct (isq w || weq last [bs]).
      * destruct (hc || negb (isq w) && is1 w bs); [apply IH|apply (IH r l hc w (w :: acc) lead)].
      * destruct (negb (wline w =? wline last)%nat); [apply Hfin|].
        destruct (hc || is1 w bs); [apply IH|apply (IH r l hc w (w :: acc) lead)].
  - reflexivity.
Qed.

Lemma caw_ge : forall f s line hc last acc lead ws s' l',
  caw f s line hc last acc lead = Ok (ws, s', l') -> line <= l'.
Proof.
  induction f as [|f IH]; intros s line hc last acc lead ws s' l' H; [discriminate|].
  cbn [caw] in H.
  destruct (nw s1 false s line) as [|w r l|l] eqn:En; [| |discriminate].
  - destruct acc; [discriminate|]. inversion H; lia.
  - destruct (nw_ge _ _ _ _ _ _ _ En) as [_ Hl].
    assert (Hfin : forall (s2:str) l2, line <= l2 ->
      match acc with [] => E "MissingValue" (str_of_word lead) (wline lead) | _ :: _ => Ok (rev acc, s2, l2) end
      = Ok (ws, s', l') -> line <= l').
    { intros s2 l2 Hle H'. destruct acc; [discriminate|]. inversion H'; subst; exact Hle. }
    destruct (negb hc && negb (isq w) && (is1 w "{" || is1 w "}" || is1 w ";" || is1 w "#")).
    + destruct (is1 w ";"); [eapply Hfin; [|exact H]; lia|].
      destruct (negb (is1 w "#")); [eapply Hfin; [|exact H]; lia|]. apply IH in H. lia.
    + destruct (isq w || weq last [bs]); [apply IH in H; lia|].
      destruct (negb (wline w =? wline last)%nat); [eapply Hfin; [|exact H]; lia|]. apply IH in H. lia.
Qed.

(* ---------- trees modulo line numbers *)
Definition ew (w:word) : word := mkword (wv w) (wq w) 0.
Definition eh (h:hdr) : hdr := mkhdr (oname h) (odis h) (otmpl h) (omerge h) (opid h) 0.
Fixpoint erase_lines (x:obj) : obj :=
  match x with
  | Def h ws a => Def (eh h) (map ew ws) a
  | Scp h ks a => Scp (eh h) (map erase_lines ks) a
  end.
(* results modulo lines: the trees with lines erased; an error by kind and token *)
Definition erase_res (r:res (list obj)) : res (list obj) :=
  match r with Ok l => Ok (map erase_lines l) | UErr kd t _ => UErr kd t 0 | Crash c => Crash c end.

Lemma ew_shw : forall k w, ew (shw k w) = ew w.
Proof. reflexivity. Qed.
Lemma map_ew_shw : forall k ws, map ew (map (shw k) ws) = map ew ws.
Proof. intros. rewrite map_map. reflexivity. Qed.

Lemma erase_attach : forall n v x, erase_lines (attach n v x) = attach n v (erase_lines x).
Proof.
  intros n v x; induction x as [h ws a|h ks a IH] using obj_ind2; [reflexivity|].
  destruct ks as [|k [|k2 ks]]; try reflexivity.
  inversion IH as [|? ? Hk _]; subst. cbn [attach erase_lines map]. rewrite Hk. reflexivity.
Qed.
Lemma erase_wrap : forall comps first x,
  erase_lines (wrap_dotted first comps x) = wrap_dotted first comps (erase_lines x).
Proof.
  induction comps as [|c rest IH]; intros first x; [reflexivity|].
  destruct rest as [|c2 rest].
  - cbn [wrap_dotted]. destruct first; [reflexivity|]. destruct x; reflexivity.
  - change (wrap_dotted first (c :: c2 :: rest) x)
      with (Scp (mkhdr c false 0 (negb first) (opid (ohdr x)) 0) [wrap_dotted false (c2 :: rest) x] []).
    change (wrap_dotted first (c :: c2 :: rest) (erase_lines x))
      with (Scp (mkhdr c false 0 (negb first) (opid (ohdr (erase_lines x))) 0) [wrap_dotted false (c2 :: rest) (erase_lines x)] []).
    cbn [erase_lines map]. rewrite IH. destruct x; reflexivity.
Qed.
Lemma erase_adopt : forall x, erase_lines (adopt x) = adopt (erase_lines x).
Proof.
  intros x. unfold adopt. rewrite erase_wrap.
  replace (oname (ohdr (erase_lines x))) with (oname (ohdr x)) by (destruct x; reflexivity). reflexivity.
Qed.

(* ---------- relating two results up to error lines *)
Definition rrel {A B} (R:A -> B -> Prop) (r':res A) (r:res B) : Prop :=
  match r', r with
  | Ok a', Ok a => R a' a
  | UErr kd' t' _, UErr kd t _ => kd' = kd /\ t' = t
  | Crash c', Crash c => c' = c
  | _, _ => False
  end.
Lemma rrel_bind : forall {A B C D} (R:A -> B -> Prop) (Q:C -> D -> Prop) r' r k' k,
  rrel R r' r -> (forall a' a, R a' a -> rrel Q (k' a') (k a)) -> rrel Q (bind r' k') (bind r k).
Proof.
  intros A B C D R Q [a'|kd' t' l'|c'] [a|kd t l|c] k' k H Hk; cbn [rrel bind] in *; try contradiction; auto.
Qed.
Lemma rrel_E : forall {A B} (R:A -> B -> Prop) kind tok l' l, rrel R (E kind tok l') (E kind tok l).
Proof. intros. split; reflexivity. Qed.
Definition nl_res {A} (r:res A) : res A := match r with UErr kd t _ => UErr kd t 0 | r => r end.
Lemma nl_rrel : forall {A} (r' r:res A), nl_res r' = nl_res r -> rrel eq r' r.
Proof.
  intros A [a'|kd' t' l'|c'] [a|kd t l|c] H; cbn [nl_res rrel] in *; try discriminate; inversion H; auto.
Qed.

(* ---------- attribute conversion looks at the words' texts and quoting only *)
Lemma is_plain_ew : forall what ws, is_plain what (map ew ws) = is_plain what ws.
Proof. intros what [|w [|w2 ws]]; reflexivity. Qed.
Lemma map_wv_ew : forall ws, map wv (map ew ws) = map wv ws.
Proof. intros. rewrite map_map. reflexivity. Qed.
Lemma str_from_words_ew : forall ws, str_from_words (map ew ws) = str_from_words ws.
Proof.
  intros ws. unfold str_from_words, is_plain_none, is_plain_auto. rewrite !is_plain_ew, map_wv_ew. reflexivity.
Qed.
Lemma wkey_ew : forall ws, wkey (map ew ws) = wkey ws.
Proof. intros ws. unfold wkey. induction ws as [|w ws IH]; [reflexivity|]. cbn [map flat_map]. rewrite IH. reflexivity. Qed.
Lemma ask_ew : forall o kind ws, ask o kind (map ew ws) = ask o kind ws.
Proof. intros. unfold ask. rewrite wkey_ew. reflexivity. Qed.
Lemma bool_from_words_ew : forall ws, nl_res (bool_from_words (map ew ws)) = nl_res (bool_from_words ws).
Proof.
  intros ws. unfold bool_from_words. rewrite str_from_words_ew.
  destruct (str_from_words ws); try reflexivity.
  destruct (mems _ _); [reflexivity|]. destruct (mems _ _); [reflexivity|]. destruct ws; reflexivity.
Qed.
Lemma int_from_words_ew : forall o ws, nl_res (int_from_words o (map ew ws)) = nl_res (int_from_words o ws).
Proof.
  intros o ws. unfold int_from_words. rewrite str_from_words_ew.
  destruct (str_from_words ws); try reflexivity.
  destruct (_ || _); [reflexivity|]. destruct (eqs _ _); [reflexivity|]. destruct (eqs _ _); [reflexivity|].
  destruct (plain_int s); [reflexivity|]. rewrite ask_ew. reflexivity.
Qed.
Lemma assign_def_attr_ew : forall o n ws,
  nl_res (assign_def_attr o n (map ew ws)) = nl_res (assign_def_attr o n ws).
Proof.
  intros o n ws. unfold assign_def_attr.
  destruct (_ || _); [apply bool_from_words_ew|].
  destruct (eqs n _).
  { unfold is_plain_none, is_plain_auto. rewrite !is_plain_ew, ask_ew. reflexivity. }
  destruct (_ || _); [apply int_from_words_ew|]. rewrite str_from_words_ew. reflexivity.
Qed.
Lemma assign_scope_attr_ew : forall o n ws,
  nl_res (assign_scope_attr o n (map ew ws)) = nl_res (assign_scope_attr o n ws).
Proof.
  intros o n ws. unfold assign_scope_attr.
  destruct (mems n _); [apply bool_from_words_ew|].
  destruct (eqs n _); [apply int_from_words_ew|].
  destruct (eqs n _).
  { unfold is_plain_none, is_plain_auto. rewrite !is_plain_ew, ask_ew. reflexivity. }
  rewrite str_from_words_ew.
  destruct (eqs n _); [|reflexivity].
  destruct (str_from_words ws); try reflexivity.
  destruct (count_specs s) as [[|[|n0]]|]; reflexivity.
Qed.
Lemma assign_def_attr_words : forall o n ws' ws, map ew ws' = map ew ws ->
  rrel eq (assign_def_attr o n ws') (assign_def_attr o n ws).
Proof.
  intros o n ws' ws H. apply nl_rrel.
  rewrite <- (assign_def_attr_ew o n ws'), <- (assign_def_attr_ew o n ws), H. reflexivity.
Qed.
Lemma assign_scope_attr_words : forall o n ws' ws, map ew ws' = map ew ws ->
  rrel eq (assign_scope_attr o n ws') (assign_scope_attr o n ws).
Proof.
  intros o n ws' ws H. apply nl_rrel.
  rewrite <- (assign_scope_attr_ew o n ws'), <- (assign_scope_attr_ew o n ws), H. reflexivity.
Qed.

(* ---------- the word readers.  The relations also record that lines never run backwards. *)
Definition Rtok (k line:nat) (x' x:word * str * nat) : Prop :=
  let '(w', r', l') := x' in let '(w, r, l) := x in
  w' = shw k w /\ r' = r /\ l' = l + k /\ line <= wline w /\ line <= l.
Lemma pop_ge : forall σ s line w r l, pop σ s line = Ok (w, r, l) -> line <= wline w /\ line <= l.
Proof.
  intros σ s line w r l H. unfold pop in H. destruct (nw σ false s line) eqn:En; try discriminate.
  inversion H; subst. eapply nw_ge; exact En.
Qed.
Lemma pop_shift : forall k σ s line, rrel (Rtok k line) (pop σ s (line + k)) (pop σ s line).
Proof.
  intros. pose proof (pop_ge σ s line) as Hge. unfold pop in *. rewrite nw_shift.
  destruct (nw σ false s line); cbn [sht]; try apply rrel_E.
  cbn [rrel Rtok]. destruct (Hge _ _ _ eq_refl). auto.
Qed.
Lemma pop_unq_shift : forall k σ s line, rrel (Rtok k line) (pop_unq σ s (line + k)) (pop_unq σ s line).
Proof.
  intros. unfold pop_unq. pose proof (pop_shift k σ s line) as H.
  destruct (pop σ s (line + k)) as [[[w' r'] l']| |], (pop σ s line) as [[[w r] l]| |];
    cbn [rrel Rtok] in H; try contradiction; try exact H.
  destruct H as (-> & -> & -> & H1 & H2). change (isq (shw k w)) with (isq w).
  destruct (isq w); [apply rrel_E|cbn [rrel Rtok]; auto].
Qed.
Lemma expect_eq_shift : forall k w, rrel eq (expect_eq (shw k w)) (expect_eq w).
Proof. intros. unfold expect_eq. cbn [shw wv]. destruct (eqs (wv w) ["="]); [reflexivity|apply rrel_E]. Qed.

Definition Rcaw (k line:nat) (x' x:list word * str * nat) : Prop :=
  let '(ws', r', l') := x' in let '(ws, r, l) := x in
  ws' = map (shw k) ws /\ r' = r /\ l' = l + k /\ line <= l.
Lemma caw_shift_rel : forall k f s line hc last acc lead,
  rrel (Rcaw k line) (caw f s (line + k) hc (shw k last) (map (shw k) acc) (shw k lead))
                     (caw f s line hc last acc lead).
Proof.
  intros. rewrite caw_shift. pose proof (caw_ge f s line hc last acc lead) as Hge.
  destruct (caw f s line hc last acc lead) as [[[ws r] l]| |]; cbn [shc rrel Rcaw]; auto.
  specialize (Hge _ _ _ eq_refl). auto.
Qed.

(* ---------- the scope-attribute loop *)
Definition Rsat (k line:nat) (x' x:attrs * word * str * nat) : Prop :=
  let '(a', bw', r', l') := x' in let '(a, bw, r, l) := x in
  a' = a /\ bw' = shw k bw /\ r' = r /\ l' = l + k /\ line <= l.
Lemma Rsat_mono : forall k line line2 x' x, line <= line2 -> Rsat k line2 x' x -> Rsat k line x' x.
Proof. intros k line line2 [[[a' bw'] r'] l'] [[[a bw] r] l] Hle (H1 & H2 & H3 & H4 & H5). cbn [Rsat]. repeat split; try assumption. lia. Qed.
Lemma rrel_mono : forall {A B} (R Q:A -> B -> Prop) r' r, (forall a' a, R a' a -> Q a' a) -> rrel R r' r -> rrel Q r' r.
Proof. intros A B R Q [a'| |] [a| |] H Hr; cbn [rrel] in *; auto. Qed.

Lemma sattrs_shift : forall o k f w s line acc,
  rrel (Rsat k line) (sattrs o f (shw k w) s (line + k) acc) (sattrs o f w s line acc).
Proof.
  intros o k; induction f as [|f IH]; intros w s line acc; [reflexivity|].
  cbn [sattrs]. cbn [shw wv wline].
  destruct (eqs (wv w) ["{"]); [cbn [rrel Rsat]; repeat split; lia|].
  destruct (strip_bang (wv w)) as [v dis].
  destruct v as [|c an]; [apply rrel_E|].
  destruct (Ascii.eqb c "." && mems an scope_attr_names); [|apply rrel_E].
  eapply rrel_bind; [apply pop_unq_shift|].
  intros [[eqw' r'] l'] [[eqw r] l] (-> & -> & -> & _ & Hl).
  eapply rrel_bind; [apply expect_eq_shift|]. intros ? ? _.
  eapply rrel_bind;
    [apply (caw_shift_rel k (S (length r)) r l false (mkword (c :: an) QN (wline w)) [] (mkword (c :: an) QN (wline w)))|].
  intros [[ws' r2'] l2'] [[ws r2] l2] (-> & -> & -> & Hl2).
  eapply rrel_bind with (R := eq).
  { destruct dis; [reflexivity|].
    eapply rrel_bind; [apply assign_scope_attr_words; apply map_ew_shw|]. intros ? ? ->. reflexivity. }
  intros ? acc' ->.
  eapply rrel_bind; [apply pop_unq_shift|].
  intros [[w2' r3'] l3'] [[w2 r3] l3] (-> & -> & -> & _ & Hl3).
  eapply rrel_mono; [|apply IH]. intros x' x. apply Rsat_mono. lia.
Qed.

(* ---------- collect_objects *)
Definition Rcobj (k line:nat) (x' x:list obj * str * nat * nat) : Prop :=
  let '(objs', r', l', n') := x' in let '(objs, r, l, n) := x in
  map erase_lines objs' = map erase_lines objs /\ r' = r /\ l' = l + k /\ n' = n /\ line <= l.
Lemma Rcobj_mono : forall k line line2 x' x, line <= line2 -> Rcobj k line2 x' x -> Rcobj k line x' x.
Proof. intros k line line2 [[[a' bw'] r'] l'] [[[a bw] r] l] Hle (H1 & H2 & H3 & H4 & H5). cbn [Rcobj]. repeat split; try assumption. lia. Qed.

(* the line of the previous object is either shifted too, or lies before both positions
   (the 0 a scope body starts with) *)
Definition rel_prev (k line prev' prev:nat) : Prop := prev' = prev + k \/ (prev < line /\ prev' < line + k).
Lemma rel_prev_test : forall k line prev' prev wl, rel_prev k line prev' prev -> line <= wl ->
  (wl + k =? prev')%nat = (wl =? prev)%nat.
Proof.
  intros k line prev' prev wl [->|[H1 H2]] Hle.
  - destruct (Nat.eqb_spec wl prev); [apply Nat.eqb_eq|apply Nat.eqb_neq]; lia.
  - transitivity false; [apply Nat.eqb_neq|symmetry; apply Nat.eqb_neq]; lia.
Qed.
Lemma rel_prev_mono : forall k line line2 prev' prev, line <= line2 -> rel_prev k line prev' prev -> rel_prev k line2 prev' prev.
Proof. intros k line line2 prev' prev Hle [H|[H1 H2]]; [left; exact H|right; lia]. Qed.

Definition Rpos (k line:nat) (x' x:str * nat) : Prop :=
  let '(r', l') := x' in let '(r, l) := x in r' = r /\ l' = l + k /\ line <= l.

(* ... or it does not matter because the next word is not a "#phil" directive *)
Definition not_directive (s:str) (line:nat) : Prop :=
  match nw s0 false s line with TWord lead _ _ => eqs (wv lead) intro = false | _ => True end.

Lemma cobj_shift : forall o k f s line nid stop start' start prev' prev active' active acc' acc,
  1 <= line -> rel_prev k line prev' prev \/ not_directive s line ->
  option_map ew start' = option_map ew start ->
  option_map erase_lines active' = option_map erase_lines active ->
  map erase_lines acc' = map erase_lines acc ->
  rrel (Rcobj k line) (cobj o f s (line + k) nid stop start' prev' active' acc')
                      (cobj o f s line nid stop start prev active acc).
Proof.
  intros o k; induction f as [|f IH];
    intros s line nid stop start' start prev' prev active' active acc' acc Hline Hprev Hstart Hact Hacc; [reflexivity|].
  cbn [cobj]. rewrite nw_shift.
  change (match active' with Some d => d :: acc' | None => acc' end) with (flushed active' acc').
  change (match active with Some d => d :: acc | None => acc end) with (flushed active acc).
  assert (Hfl : map erase_lines (flushed active' acc') = map erase_lines (flushed active acc)).
  { destruct active' as [a'|], active as [a|]; cbn [option_map] in Hact; try discriminate; cbn [flushed map].
    - inversion Hact as [Ha]. rewrite Ha, Hacc. reflexivity.
    - exact Hacc. }
  set (nm' := match start' with
              | None => E "MissingBrace" [] 0
              | Some sw => E "NoMatchingBrace" (str_of_word sw) (wline sw) end : res (list obj * str * nat * nat)).
  set (nm := match start with
             | None => E "MissingBrace" [] 0
             | Some sw => E "NoMatchingBrace" (str_of_word sw) (wline sw) end : res (list obj * str * nat * nat)).
  assert (Hnm : rrel (Rcobj k line) nm' nm).
  { unfold nm', nm. destruct start' as [sw'|], start as [sw|]; cbn [option_map] in Hstart; try discriminate.
    - inversion Hstart as [[H1 H2]]. unfold str_of_word. rewrite H1, H2. apply rrel_E.
    - apply rrel_E. }
  assert (Hend : forall (r:str) l, line <= l ->
            rrel (Rcobj k line) (Ok (rev (flushed active' acc'), r, l + k, nid)) (Ok (rev (flushed active acc), r, l, nid))).
  { intros r l Hl. cbn [rrel Rcobj]. rewrite !map_rev, Hfl. auto. }
  destruct (nw s0 false s line) as [|lead r l|l] eqn:En; cbn [sht].
  - destruct stop; [exact Hnm|apply Hend; lia].
  - destruct (nw_ge _ _ _ _ _ _ _ En) as [Hwl Hl].
    change (isq (shw k lead)) with (isq lead). change (str_of_word (shw k lead)) with (str_of_word lead).
    cbn [shw wv wline].
    destruct (isq lead); [apply rrel_E|].
    assert (Htest : eqs (wv lead) intro && negb (wline lead + k =? prev')%nat
                    = eqs (wv lead) intro && negb (wline lead =? prev)%nat).
    { destruct Hprev as [Hp|Hp]; [rewrite (rel_prev_test k line prev' prev (wline lead) Hp Hwl); reflexivity|].
      unfold not_directive in Hp. rewrite En in Hp. rewrite Hp. reflexivity. }
    rewrite Htest. clear Htest.
    destruct (eqs (wv lead) intro && negb (wline lead =? prev)%nat) eqn:Edir.
    { assert (Hprev1 : rel_prev k line prev' prev).
      { destruct Hprev as [Hp|Hp]; [exact Hp|]. unfold not_directive in Hp. rewrite En in Hp.
        rewrite Hp in Edir. discriminate Edir. }
      clear Hprev. rename Hprev1 into Hprev.
      eapply rrel_bind; [apply pop_unq_shift|].
      intros [[w' r2'] l2'] [[w r2] l2] (-> & -> & -> & _ & Hl2). cbn [shw wv wline].
      destruct (eqs (wv w) f_end); [destruct stop; [exact Hnm|apply Hend; lia]|].
      destruct (eqs (wv w) f_on).
      { eapply rrel_mono; [|apply IH; [lia|left; eapply rel_prev_mono; [|exact Hprev]; lia|assumption|assumption|assumption]].
        intros x' x. apply Rcobj_mono. lia. }
      destruct (negb (eqs (wv w) f_off)); [apply rrel_E|].
      rewrite sfs_shift. destruct (sfs (S (length r2)) r2 l2) as [[r3 l3] fu] eqn:Es. cbn [sh3].
      pose proof (sfs_ge _ _ _ _ _ _ Es) as Hl3.
      assert (Hrec : rrel (Rcobj k line) (cobj o f r3 (l3 + k) nid stop start' prev' active' acc')
                                         (cobj o f r3 l3 nid stop start prev active acc)).
      { eapply rrel_mono; [|apply IH; [lia|left; eapply rel_prev_mono; [|exact Hprev]; lia|assumption|assumption|assumption]].
        intros x' x. apply Rcobj_mono. lia. }
      destruct fu as [[|n]|]; try exact Hrec.
      destruct stop; [exact Hnm|apply Hend; lia]. }
    destruct (stop && eqs (wv lead) ["}"]); [apply Hend; lia|].
    destruct (eqs (wv lead) ["{"]); [apply rrel_E|].
    destruct (strip_bang (wv lead)) as [lv dis].
    eapply rrel_bind; [apply pop_shift|].
    intros [[w' r2'] l2'] [[w r2] l2] (-> & -> & -> & _ & Hl2).
    change (isq (shw k w)) with (isq w). cbn [shw wv wline].
    destruct (negb (isq w) && (eqs (wv w) ["{"] || prefixb ["."] (wv w) || prefixb ["!"; "."] (wv w))).
    { destruct (negb (is_ident lv)); [destruct (eqs lv [";"]); apply rrel_E|].
      destruct (name_reserved_scp lv); [apply rrel_E|].
      eapply rrel_bind; [apply (sattrs_shift o k (S (length r2)) w r2 l2 [])|].
      intros [[[sa' bw'] r3'] l3'] [[[sa bw] r3] l3] (-> & -> & -> & -> & Hl3).
      eapply rrel_bind.
      { apply (IH r3 l3 (S nid) true (Some (shw k bw)) (Some bw) 0 0 None None [] []);
          [lia|left; right; lia|reflexivity|reflexivity|reflexivity]. }
      intros [[[kids' r4'] l4'] nid4'] [[[kids r4] l4] nid4] (Hk & -> & -> & -> & Hl4).
      destruct (prefix_reserved lv); [apply rrel_E|].
      eapply rrel_mono; [|apply IH; [lia|left; left; reflexivity|assumption|reflexivity| ]].
      { intros x' x. apply Rcobj_mono. lia. }
      cbn [map]. rewrite Hfl, !erase_adopt. cbn [erase_lines]. rewrite Hk. reflexivity. }
    destruct (negb (prefixb ["."] lv)).
    { destruct (negb (is_ident lv)); [destruct (eqs lv [";"]); apply rrel_E|].
      eapply rrel_bind with (R := Rpos k l).
      { destruct (eqs lv include_w); [cbn [rrel Rpos]; auto|].
        eapply rrel_bind; [apply pop_unq_shift|].
        intros [[eqw' r5'] l5'] [[eqw r5] l5] (-> & -> & -> & _ & Hl5).
        eapply rrel_bind; [apply expect_eq_shift|]. intros ? ? _. cbn [rrel Rpos]. auto. }
      intros [r5' l5'] [r5 l5] (-> & -> & Hl5).
      eapply rrel_bind;
        [apply (caw_shift_rel k (S (length r5)) r5 l5 false (mkword lv QN (wline lead)) [] (mkword lv QN (wline lead)))|].
      intros [[ws' r6'] l6'] [[ws r6] l6] (-> & -> & -> & Hl6).
      destruct (name_reserved_def lv); [apply rrel_E|].
      destruct (prefix_reserved lv); [apply rrel_E|].
      eapply rrel_mono; [|apply IH; [lia|left; left; reflexivity|assumption| |exact Hfl]].
      { intros x' x. apply Rcobj_mono. lia. }
      cbn [option_map]. rewrite !erase_adopt. cbn [erase_lines]. rewrite map_ew_shw. reflexivity. }
    destruct active' as [ad'|], active as [ad|]; cbn [option_map] in Hact; try discriminate; [|apply rrel_E].
    destruct (negb (mems (drop 1 lv) def_attr_names)); [apply rrel_E|].
    eapply rrel_bind; [apply pop_unq_shift|].
    intros [[eqw' r5'] l5'] [[eqw r5] l5] (-> & -> & -> & _ & Hl5).
    eapply rrel_bind; [apply expect_eq_shift|]. intros ? ? _.
    eapply rrel_bind;
      [apply (caw_shift_rel k (S (length r5)) r5 l5 false (mkword lv QN (wline lead)) [] (mkword lv QN (wline lead)))|].
    intros [[ws' r6'] l6'] [[ws r6] l6] (-> & -> & -> & Hl6).
    eapply rrel_bind with (R := fun a' a => erase_lines a' = erase_lines a).
    { destruct dis; [cbn [rrel]; inversion Hact; reflexivity|].
      eapply rrel_bind; [apply assign_def_attr_words; apply map_ew_shw|]. intros ? av ->.
      cbn [rrel]. rewrite !erase_attach. inversion Hact as [Ha]. rewrite Ha. reflexivity. }
    intros ad2' ad2 Had2.
    eapply rrel_mono; [|apply IH; [lia|left; left; reflexivity|assumption| |assumption]].
    { intros x' x. apply Rcobj_mono. lia. }
    cbn [option_map]. rewrite Had2. reflexivity.
  - apply rrel_E.
Qed.

(* ====================================================================================== *)
(* 7. T3 (document level): blank lines and comment lines in front of a document             *)
(* ====================================================================================== *)

Definition objs_of (r:res (list obj * str * nat * nat)) : res (list obj) :=
  do (objs, _, _, _) <- r ; Ok objs.
Lemma parse_objs_of : forall o s, parse o s = objs_of (cobj o (S (S (length s))) s 1 1 false None 0 None []).
Proof. reflexivity. Qed.
Lemma objs_of_noline : forall r' r, cobj_noline r' = cobj_noline r -> objs_of r' = objs_of r.
Proof.
  intros [[[[a' b'] x'] d']|? ? ?|?] [[[[a b] x] d]|? ? ?|?] H; cbn [cobj_noline] in H; try discriminate; inversion H; reflexivity.
Qed.
Lemma objs_of_rrel : forall k line r' r, rrel (Rcobj k line) r' r -> erase_res (objs_of r') = erase_res (objs_of r).
Proof.
  intros k line [[[[a' b'] x'] d']|? ? ?|?] [[[[a b] x] d]|? ? ?|?] H; cbn [rrel Rcobj] in H; try contradiction.
  - destruct H as (H & _). cbn [objs_of bind erase_res]. rewrite H. reflexivity.
  - destruct H as [-> ->]. reflexivity.
  - subst. reflexivity.
Qed.

(* the same document read from line 1+k instead of line 1: same trees modulo lines *)
Lemma cobj_top_shift : forall o k f s,
  erase_res (objs_of (cobj o f s (1 + k) 1 false None 0 None []))
  = erase_res (objs_of (cobj o f s 1 1 false None 0 None [])).
Proof.
  intros o k f s. eapply objs_of_rrel.
  apply (cobj_shift o k f s 1 1 false None None 0 0 None None [] []);
    [lia|left; right; lia|reflexivity|reflexivity|reflexivity].
Qed.

(* a layout prefix: any sequence of blanks (including newlines) and whole comment lines *)
Inductive layout : str -> Prop :=
  | layout_nil : layout []
  | layout_blank : forall c p, isspace c = true -> layout p -> layout (c :: p)
  | layout_comment : forall body p, mem nl body = false -> prefixb (s_ "phil") body = false ->
      layout p -> layout ("#" :: body ++ nl :: p).

Lemma prefixb_app_nl : forall m body p, mem nl m = false -> prefixb m body = false ->
  prefixb m (body ++ nl :: p) = false.
Proof.
  induction m as [|a m IH]; intros body p Hm H; [discriminate H|].
  cbn [mem] in Hm. apply orb_false_iff in Hm as [Ha Hm].
  destruct body as [|b body]; cbn [app prefixb] in *.
  - rewrite Ascii.eqb_sym, Ha. reflexivity.
  - destruct (Ascii.eqb a b); [cbn [andb] in *; apply IH; assumption|reflexivity].
Qed.
Lemma count_nl_none : forall s, mem nl s = false -> count_nl s = 0.
Proof.
  induction s as [|c s IH]; intros H; [reflexivity|]. cbn [mem] in H. apply orb_false_iff in H as [H1 H2].
  cbn [count_nl]. rewrite Ascii.eqb_sym, H1, (IH H2). reflexivity.
Qed.

Lemma layout_nw : forall p, layout p -> forall s line,
  nw s0 false (p ++ s) line = nw s0 false s (line + count_nl p).
Proof.
  intros p Hp; induction Hp as [|c p Hc Hp IH|body p Hb Hph Hp IH]; intros s line.
  - cbn [app count_nl]. rewrite Nat.add_0_r. reflexivity.
  - change ((c :: p) ++ s) with ([c] ++ (p ++ s)).
    rewrite (nw_skip_blanks s0 [c] (p ++ s) line) by (cbn [forallb]; rewrite Hc; reflexivity).
    rewrite IH. f_equal. cbn [count_nl]. lia.
  - replace (("#" :: body ++ nl :: p) ++ s) with ("#" :: body ++ nl :: (p ++ s))
      by (cbn [app]; rewrite <- app_assoc; reflexivity).
    rewrite nw_s0_comment; [|exact Hb|apply prefixb_app_nl; [reflexivity|exact Hph]].
    rewrite IH. f_equal. rewrite count_nl_cons, count_nl_app, count_nl_cons, (count_nl_none body Hb).
    change (nlc "#") with 0. change (nlc nl) with 1. lia.
Qed.

(* T3, any object at any depth: a layout prefix before the object is skipped, exactly *)
Theorem cobj_layout_noline : forall o f p s line nid stop start prev active acc, layout p ->
  cobj_noline (cobj o f (p ++ s) line nid stop start prev active acc)
  = cobj_noline (cobj o f s (line + count_nl p) nid stop start prev active acc).
Proof.
  intros o f p s line nid stop start prev active acc Hp. destruct f as [|f]; [reflexivity|].
  apply cobj_pos_ext_noline. apply layout_nw; exact Hp.
Qed.
Theorem cobj_layout : forall o f p s line nid stop start prev active acc, layout p ->
  (stop = true \/ count_nl p = 0 \/ nw s0 false s (line + count_nl p) <> TEnd) ->
  cobj o f (p ++ s) line nid stop start prev active acc
  = cobj o f s (line + count_nl p) nid stop start prev active acc.
Proof.
  intros o f p s line nid stop start prev active acc Hp Hc. destruct f as [|f]; [reflexivity|].
  apply cobj_pos_ext; [apply layout_nw; exact Hp|]. rewrite (layout_nw p Hp s line).
  destruct Hc as [Hc|[Hc|Hc]]; [left; exact Hc|right; left; lia|right; right; exact Hc].
Qed.

(* T3, document level: a layout prefix in front of a document changes nothing but line numbers *)
Theorem parse_layout_prefix : forall o p s, layout p ->
  erase_res (parse o (p ++ s)) = erase_res (parse o s).
Proof.
  intros o p s Hp. rewrite !parse_objs_of.
  rewrite (objs_of_noline _ _ (cobj_layout_noline o _ p s 1 1 false None 0 None [] Hp)).
  rewrite (cobj_fuel_enough o (S (S (length (p ++ s)))) (S (S (length s))) s) by (rewrite ?app_length; lia).
  apply cobj_top_shift.
Qed.

Lemma layout_blanks : forall b, forallb isspace b = true -> layout b.
Proof.
  induction b as [|c b IH]; intros H; [constructor|]. cbn [forallb] in H. apply andb_prop in H as [H1 H2].
  constructor; auto.
Qed.
Corollary parse_leading_blanks : forall o blanks s, forallb isspace blanks = true ->
  erase_res (parse o (blanks ++ s)) = erase_res (parse o s).
Proof. intros. apply parse_layout_prefix. apply layout_blanks. assumption. Qed.
Corollary parse_leading_comment : forall o body s,
  mem nl body = false -> prefixb (s_ "phil") body = false ->
  erase_res (parse o ("#" :: body ++ nl :: s)) = erase_res (parse o s).
Proof.
  intros o body s Hb Hp.
  replace ("#" :: body ++ nl :: s) with (("#" :: body ++ [nl]) ++ s)
    by (cbn [app]; rewrite <- app_assoc; reflexivity).
  apply parse_layout_prefix. constructor; [exact Hb|exact Hp|constructor].
Qed.

(* ====================================================================================== *)
(* 8. T4 at the level of a definition: "name=value;rest" versus "name=value<newline>rest"   *)
(* ====================================================================================== *)

(* one [cobj] iteration on a definition "name=..." spelled without blanks around the "=" *)
Lemma cobj_def_unfold : forall o f name tl line nid stop start prev active acc,
  is_ident name = true -> eqs name include_w = false ->
  cobj o (S f) (name ++ "=" :: tl) line nid stop start prev active acc
  = (do (ws, r6, l6) <- caw (S (length tl)) tl line false (mkword name QN line) [] (mkword name QN line) ;
     if name_reserved_def name then E "Reserved" name line else
     if prefix_reserved name then E "Reserved" name 0 else
     cobj o f r6 l6 (S nid) stop start line
       (Some (adopt (Def (mkhdr name false 0 false nid line) ws []))) (flushed active acc)).
Proof.
  intros o f name tl line nid stop start prev active acc Hi Hinc.
  destruct (nw_s0_ident name ("=" :: tl) line Hi eq_refl) as (c & w & -> & Hs & Hb & Hdot & Hn).
  cbn [cobj]. rewrite Hn. cbn [isq wq wv wline].
  destruct (lead_tests_plain c w Hs Hb) as (P1 & P2 & P3 & P4).
  rewrite P1, P2, P3, P4. cbn [andb]. rewrite !andb_false_r.
  change (pop s0 ("=" :: tl) line) with (Ok (mkword ["="] QN line, tl, line) : res (word * str * nat)).
  cbn [bind].
  match goal with |- (if ?b then _ else _) = _ => change b with false end. cbv iota.
  assert (Hd : prefixb ["."] (c :: w) = false).
  { cbn [prefixb]. rewrite Ascii.eqb_sym. apply Ascii.eqb_neq in Hdot. rewrite Hdot. reflexivity. }
  rewrite Hd, Hi, Hinc. cbn [negb].
  change (pop_unq s0 ("=" :: tl) line) with (Ok (mkword ["="] QN line, tl, line) : res (word * str * nat)).
  cbn [bind]. change (expect_eq (mkword ["="] QN line)) with (Ok tt : res unit). cbn [bind].
  reflexivity.
Qed.

(* results of two [cobj] runs that agree on everything but line numbers *)
Definition Rcobj0 (x' x:list obj * str * nat * nat) : Prop :=
  let '(objs', r', _, n') := x' in let '(objs, r, _, n) := x in
  map erase_lines objs' = map erase_lines objs /\ r' = r /\ n' = n.
Lemma rrel0_compose : forall k line X Y Z,
  cobj_noline X = cobj_noline Y -> rrel (Rcobj k line) Y Z -> rrel Rcobj0 X Z.
Proof.
  intros k line [[[[a1 b1] x1] d1]|? ? ?|?] [[[[a2 b2] x2] d2]|? ? ?|?] [[[[a3 b3] x3] d3]|? ? ?|?] HX HY;
    cbn [cobj_noline] in HX; try discriminate HX; cbn [rrel Rcobj Rcobj0] in *; try contradiction.
  - injection HX as -> -> ->. destruct HY as (HY & -> & _ & -> & _). auto.
  - injection HX as -> -> _. exact HY.
  - injection HX as ->. exact HY.
Qed.
Lemma objs_of_rrel0 : forall r' r, rrel Rcobj0 r' r -> erase_res (objs_of r') = erase_res (objs_of r).
Proof.
  intros [[[[a' b'] x'] d']|? ? ?|?] [[[[a b] x] d]|? ? ?|?] H; cbn [rrel Rcobj0] in H; try contradiction.
  - destruct H as (H & _). cbn [objs_of bind erase_res]. rewrite H. reflexivity.
  - destruct H as [-> ->]. reflexivity.
  - subst. reflexivity.
Qed.

(* T4 for a definition with a one-word value, at any [cobj] iteration (any depth, any state):
   terminating the value with a newline instead of a semicolon yields the same objects, the same
   remaining input and ids, and the same errors - up to line numbers. *)
Theorem def_semicolon_newline : forall o f name v w1 rest line nid stop start prev active acc,
  1 <= line -> is_ident name = true -> eqs name include_w = false ->
  (forall t, delim s1 t = true -> nw s1 false (v ++ t) line = TWord w1 t line) ->
  val_word w1 = true -> wline w1 = line ->
  next_starts_object rest (S line) = true -> not_directive rest line ->
  rrel Rcobj0 (cobj o (S f) (name ++ "=" :: v ++ nl :: rest) line nid stop start prev active acc)
              (cobj o (S f) (name ++ "=" :: v ++ ";" :: rest) line nid stop start prev active acc).
Proof.
  intros o f name v w1 rest line nid stop start prev active acc Hline Hi Hinc Hv Hval Hwl Hnext Hnd.
  rewrite !cobj_def_unfold by assumption.
  assert (Hlen : forall term, length (v ++ term :: rest) = S (length v + length rest))
    by (intros; rewrite app_length; cbn [length]; lia).
  rewrite !Hlen.
  destruct (caw_semicolon_newline_single (length v + length rest) v w1 rest line
              (mkword name QN line) [] (mkword name QN line) Hv Hval) as (p & Hsemi & Hnl & Hp);
    [cbn [wline]; rewrite Hwl, Nat.eqb_refl, orb_true_r; reflexivity|exact Hwl|exact Hnext|].
  rewrite Hsemi, Hnl. cbn [bind].
  destruct (name_reserved_def name); [apply rrel_E|].
  destruct (prefix_reserved name); [apply rrel_E|].
  destruct f as [|f]; [reflexivity|].
  eapply rrel0_compose.
  - apply cobj_pos_ext_noline. exact Hp.
  - rewrite <- (Nat.add_1_r line).
    apply cobj_shift; [exact Hline|right; exact Hnd|reflexivity|reflexivity|reflexivity].
Qed.

(* document level: the first definition of a document *)
Theorem parse_semicolon_newline : forall o name v w1 rest,
  is_ident name = true -> eqs name include_w = false ->
  (forall t, delim s1 t = true -> nw s1 false (v ++ t) 1 = TWord w1 t 1) ->
  val_word w1 = true -> wline w1 = 1 ->
  next_starts_object rest 2 = true -> not_directive rest 1 ->
  erase_res (parse o (name ++ "=" :: v ++ nl :: rest)) = erase_res (parse o (name ++ "=" :: v ++ ";" :: rest)).
Proof.
  intros o name v w1 rest Hi Hinc Hv Hval Hwl Hnext Hnd. rewrite !parse_objs_of.
  replace (length (name ++ "=" :: v ++ nl :: rest)) with (length (name ++ "=" :: v ++ ";" :: rest))
    by (rewrite !app_length; cbn [length]; rewrite !app_length; reflexivity).
  apply objs_of_rrel0. eapply def_semicolon_newline; eauto.
Qed.

(* the two kinds of one-word values *)
Lemma value_unquoted : forall c w line, wstart s1 c = true -> forallb (wchar s1) w = true ->
  forall t, delim s1 t = true -> nw s1 false ((c :: w) ++ t) line = TWord (mkword (c :: w) QN line) t line.
Proof. intros c w line Hc Hw t Ht. cbn [app]. apply nw_word; auto. Qed.
Lemma value_quoted : forall q sv line, q <> QN -> count_nl sv = 0 ->
  forall t, delim s1 t = true -> nw s1 false (quote_str q sv ++ t) line = TWord (mkword sv q line) t line.
Proof.
  intros q sv line Hq Hn t Ht. rewrite nw_quoted; [rewrite Hn, Nat.add_0_r; reflexivity|exact Hq|reflexivity|].
  intros _ _. destruct t as [|d t]; [reflexivity|]. cbn [prefixb]. rewrite andb_true_r.
  destruct (Ascii.eqb (qchar q) d) eqn:E; [|reflexivity]. apply Ascii.eqb_eq in E. subst d.
  cbn [delim] in Ht. destruct (qchar_cases q) as [E|E]; rewrite E in Ht; discriminate Ht.
Qed.

(* ====================================================================================== *)
(* 9. Blank space inside a definition: around the "=" sign                                   *)
(* ====================================================================================== *)

(* at its first step [caw] has collected nothing, so it cannot hand its position back *)
Lemma caw_pos_ext_nil : forall f s line s' line' hc last lead,
  nw s1 false s line = nw s1 false s' line' ->
  caw (S f) s line hc last [] lead = caw (S f) s' line' hc last [] lead.
Proof.
  intros f s line s' line' hc last lead H. cbn [caw]. rewrite <- H.
  destruct (nw s1 false s line) as [|w r l|l]; reflexivity.
Qed.

Lemma cobj_def_unfold_blanks : forall o f name b1 tl line nid stop start prev active acc,
  is_ident name = true -> eqs name include_w = false -> forallb isspace b1 = true ->
  cobj o (S f) (name ++ b1 ++ "=" :: tl) line nid stop start prev active acc
  = (do (ws, r6, l6) <- caw (S (length tl)) tl (line + count_nl b1) false (mkword name QN line) [] (mkword name QN line) ;
     if name_reserved_def name then E "Reserved" name line else
     if prefix_reserved name then E "Reserved" name 0 else
     cobj o f r6 l6 (S nid) stop start line
       (Some (adopt (Def (mkhdr name false 0 false nid line) ws []))) (flushed active acc)).
Proof.
  intros o f name b1 tl line nid stop start prev active acc Hi Hinc Hb1.
  assert (Hdel : delim s0 (b1 ++ "=" :: tl) = true).
  { destruct b1 as [|c b1]; [reflexivity|]. cbn [forallb] in Hb1. apply andb_prop in Hb1 as [Hc _].
    cbn [app delim]. rewrite Hc. reflexivity. }
  destruct (nw_s0_ident name (b1 ++ "=" :: tl) line Hi Hdel) as (c & w & -> & Hs & Hb & Hdot & Hn).
  cbn [cobj]. rewrite Hn. cbn [isq wq wv wline].
  destruct (lead_tests_plain c w Hs Hb) as (P1 & P2 & P3 & P4).
  rewrite P1, P2, P3, P4. cbn [andb]. rewrite !andb_false_r.
  assert (Hpop : pop s0 (b1 ++ "=" :: tl) line
                 = Ok (mkword ["="] QN (line + count_nl b1), tl, line + count_nl b1)).
  { unfold pop. rewrite (nw_skip_blanks s0 b1 ("=" :: tl) line Hb1). reflexivity. }
  assert (Hpopu : pop_unq s0 (b1 ++ "=" :: tl) line
                 = Ok (mkword ["="] QN (line + count_nl b1), tl, line + count_nl b1)).
  { unfold pop_unq. rewrite Hpop. reflexivity. }
  rewrite Hpop. cbn [bind].
  match goal with |- (if ?b then _ else _) = _ => change b with false end. cbv iota.
  assert (Hd : prefixb ["."] (c :: w) = false).
  { cbn [prefixb]. rewrite Ascii.eqb_sym. apply Ascii.eqb_neq in Hdot. rewrite Hdot. reflexivity. }
  rewrite Hd, Hi, Hinc. cbn [negb]. rewrite Hpopu. cbn [bind].
  change (expect_eq (mkword ["="] QN (line + count_nl b1))) with (Ok tt : res unit). cbn [bind].
  reflexivity.
Qed.

(* any blanks (no newline) between the name, the "=" and the value are irrelevant - exactly *)
Theorem def_blanks_irrelevant : forall o f name b1 b2 tl line nid stop start prev active acc,
  is_ident name = true -> eqs name include_w = false ->
  forallb isspace b1 = true -> forallb isspace b2 = true -> count_nl b1 = 0 -> count_nl b2 = 0 ->
  cobj o (S f) (name ++ b1 ++ "=" :: b2 ++ tl) line nid stop start prev active acc
  = cobj o (S f) (name ++ "=" :: tl) line nid stop start prev active acc.
Proof.
  intros o f name b1 b2 tl line nid stop start prev active acc Hi Hinc Hb1 Hb2 Hn1 Hn2.
  rewrite (cobj_def_unfold_blanks o f name b1 (b2 ++ tl)) by assumption.
  rewrite (cobj_def_unfold o f name tl) by assumption.
  rewrite Hn1, Nat.add_0_r.
  rewrite (caw_fuel_enough (S (length tl)) (S (length (b2 ++ tl))) tl) by (rewrite ?app_length; lia).
  rewrite (caw_pos_ext_nil (length (b2 ++ tl)) (b2 ++ tl) line tl line).
  - reflexivity.
  - rewrite (nw_skip_blanks s1 b2 tl line Hb2), Hn2, Nat.add_0_r. reflexivity.
Qed.

(* ====================================================================================== *)
(* 10. T4 for values of several words                                                        *)
(* ====================================================================================== *)

(* the text [pv] (possibly with leading blanks) is read, in value context, as the word [w] *)
Definition reads (line:nat) (pv:str) (w:word) : Prop :=
  forall t, delim s1 t = true -> nw s1 false (pv ++ t) line = TWord w t line.
(* a value text on one line: chunks read as value words, each chunk after the first starting
   with a delimiter (a blank) *)
Inductive vtext (line:nat) : str -> list word -> Prop :=
  | vt_nil : vtext line [] []
  | vt_cons : forall pv w vs ws, reads line pv w -> val_word w = true -> wline w = line ->
      (forall t, delim s1 t = true -> delim s1 (vs ++ t) = true) ->
      vtext line vs ws -> vtext line (pv ++ vs) (w :: ws).

Lemma reads_blank : forall line b pv w, forallb isspace b = true -> count_nl b = 0 ->
  reads line pv w -> reads line (b ++ pv) w.
Proof.
  intros line b pv w Hb Hn H t Ht. rewrite <- app_assoc, (nw_skip_blanks s1 b (pv ++ t) line Hb), Hn, Nat.add_0_r.
  apply H; exact Ht.
Qed.
Lemma last_default : forall {A} ws (x d d':A), last (x :: ws) d = last (x :: ws) d'.
Proof. intros A ws; induction ws as [|y ws IH]; intros x d d'; [reflexivity|]. change (last (y :: ws) d = last (y :: ws) d'). apply IH. Qed.
Lemma last_cons : forall {A} (w:A) ws d, last (w :: ws) d = last ws w.
Proof. intros A w [|x ws] d; [reflexivity|]. change (last (x :: ws) d = last (x :: ws) w). apply last_default. Qed.

Lemma val_word_facts : forall w, val_word w = true ->
  negb (isq w) && (is1 w "{" || is1 w "}" || is1 w ";" || is1 w "#") = false /\ weq w [bs] = false.
Proof.
  intros w Hval. unfold val_word in Hval. unfold weq. destruct (isq w); [split; reflexivity|].
  cbn [orb negb andb] in *. apply negb_true_iff in Hval. apply orb_false_iff in Hval as [H1 H2]. split; assumption.
Qed.

Lemma caw_vtext : forall line txt ws, vtext line txt ws ->
  forall f t last acc lead, delim s1 t = true -> wline last = line ->
  caw (length ws + f) (txt ++ t) line false last acc lead
  = caw f t line false (List.last ws last) (rev ws ++ acc) lead.
Proof.
  intros line txt ws Hv; induction Hv as [|pv w vs ws Hr Hval Hwl Hdel Hv IH]; intros f t last acc lead Ht Hlast.
  - reflexivity.
  - rewrite <- app_assoc. cbn [length Nat.add caw]. rewrite (Hr (vs ++ t) (Hdel t Ht)).
    destruct (val_word_facts w Hval) as [Hsp Hnb]. cbn [negb andb]. rewrite Hsp.
    assert (Hnext : caw (length ws + f) (vs ++ t) line false w (w :: acc) lead
                    = caw f t line false (List.last (w :: ws) last) (rev (w :: ws) ++ acc) lead).
    { rewrite (IH f t w (w :: acc) lead Ht Hwl). rewrite last_cons. cbn [rev]. rewrite <- app_assoc. reflexivity. }
    destruct (isq w || weq last [bs]) eqn:E1;
      [change (negb (isq w) && is1 w bs) with (weq w [bs]); rewrite Hnb; exact Hnext|].
    rewrite Hwl, Hlast, Nat.eqb_refl. cbn [negb].
    apply orb_false_iff in E1 as [E1 _]. unfold weq in Hnb. rewrite E1 in Hnb. cbn [negb andb] in Hnb.
    unfold is1. rewrite Hnb. exact Hnext.
Qed.

(* the terminator step *)
Lemma caw_terminator : forall f rest line wl a acc1 lead,
  weq wl [bs] = false -> wline wl = line -> next_starts_object rest (S line) = true ->
  exists p,
    caw (S f) (";" :: rest) line false wl (a :: acc1) lead = Ok (rev (a :: acc1), rest, line)
    /\ caw (S f) (nl :: rest) line false wl (a :: acc1) lead = Ok (rev (a :: acc1), p, line)
    /\ nw s0 false p line = nw s0 false rest (S line).
Proof.
  intros f rest line wl a acc1 lead Hnb Hwl Hnext. unfold next_starts_object in Hnext.
  destruct (nw s1 false rest (S line)) as [|w2 r2 l2|l2] eqn:En; [| |discriminate].
  - exists []. split; [|split].
    + cbn [caw]. rewrite nw_s1_semicolon. reflexivity.
    + cbn [caw]. change (nw s1 false (nl :: rest) line) with (nw s1 false rest (S line)). rewrite En. reflexivity.
    + pose proof (nw_end_blank s1 rest (S line) eq_refl En) as Hb.
      rewrite <- (app_nil_r rest). rewrite (nw_skip_blanks s0 rest [] (S line) Hb). reflexivity.
  - exists (nl :: rest). split; [|split].
    + cbn [caw]. rewrite nw_s1_semicolon. reflexivity.
    + cbn [caw]. change (nw s1 false (nl :: rest) line) with (nw s1 false rest (S line)). rewrite En.
      apply andb_prop in Hnext as [Hnext H3]. apply andb_prop in Hnext as [H1 H2].
      apply negb_true_iff in H1, H2, H3. rewrite H1, H2, H3. cbn [negb andb orb]. rewrite Hnb.
      destruct (is1 w2 "{" || is1 w2 "}"); cbn [orb]; [reflexivity|].
      destruct (nw_lines _ _ _ _ _ _ _ En) as (pre & body & _ & Hw2 & _).
      assert (Hd : (wline w2 =? wline wl)%nat = false) by (apply Nat.eqb_neq; lia).
      rewrite Hd. reflexivity.
    + reflexivity.
Qed.

Theorem caw_semicolon_newline : forall f txt w ws rest line last acc lead,
  vtext line txt (w :: ws) -> wline last = line -> next_starts_object rest (S line) = true ->
  exists p,
    caw (length (w :: ws) + S f) (txt ++ ";" :: rest) line false last acc lead
      = Ok (rev acc ++ w :: ws, rest, line)
    /\ caw (length (w :: ws) + S f) (txt ++ nl :: rest) line false last acc lead
      = Ok (rev acc ++ w :: ws, p, line)
    /\ nw s0 false p line = nw s0 false rest (S line).
Proof.
  intros f txt w ws rest line last acc lead Hv Hlast Hnext.
  rewrite (caw_vtext line txt (w :: ws) Hv (S f) (";" :: rest) last acc lead eq_refl Hlast).
  rewrite (caw_vtext line txt (w :: ws) Hv (S f) (nl :: rest) last acc lead eq_refl Hlast).
  assert (Hl : val_word (List.last (w :: ws) last) = true /\ wline (List.last (w :: ws) last) = line).
  { clear Hnext. remember (w :: ws) as l eqn:El. assert (Hne : l <> []) by (subst; discriminate). clear El.
    induction Hv as [|pv w0 vs ws0 Hr Hval Hwl Hdel Hv IH]; [congruence|].
    rewrite last_cons. destruct ws0 as [|w1 ws0]; [cbn [List.last]; auto|].
    assert (Hgen : forall d, List.last (w1 :: ws0) d = List.last (w1 :: ws0) last).
    { intros d. rewrite !last_cons. reflexivity. }
    rewrite Hgen. apply IH. discriminate. }
  destruct Hl as [Hval Hwl]. destruct (val_word_facts _ Hval) as [_ Hnb].
  assert (Hrev : exists a acc1, rev (w :: ws) ++ acc = a :: acc1).
  { destruct (rev (w :: ws) ++ acc) as [|a acc1] eqn:E; [|eauto].
    apply (f_equal (@length word)) in E. rewrite app_length, rev_length in E. cbn [length] in E. lia. }
  destruct Hrev as (a & acc1 & Hrev). rewrite Hrev.
  destruct (caw_terminator f rest line _ a acc1 lead Hnb Hwl Hnext) as (p & H1 & H2 & H3).
  exists p. rewrite H1, H2, <- Hrev, rev_app_distr, rev_involutive. auto.
Qed.

(* T4, general: a definition whose value is any one-line sequence of words *)
Theorem def_semicolon_newline_words : forall o f name txt w ws rest line nid stop start prev active acc,
  1 <= line -> is_ident name = true -> eqs name include_w = false ->
  vtext line txt (w :: ws) ->
  next_starts_object rest (S line) = true -> not_directive rest line ->
  rrel Rcobj0 (cobj o (S f) (name ++ "=" :: txt ++ nl :: rest) line nid stop start prev active acc)
              (cobj o (S f) (name ++ "=" :: txt ++ ";" :: rest) line nid stop start prev active acc).
Proof.
  intros o f name txt w ws rest line nid stop start prev active acc Hline Hi Hinc Hv Hnext Hnd.
  rewrite !cobj_def_unfold by assumption.
  assert (Hlen : forall term, length (txt ++ term :: rest) = S (length txt + length rest))
    by (intros; rewrite app_length; cbn [length]; lia).
  destruct (caw_semicolon_newline (length txt + length rest) txt w ws rest line
              (mkword name QN line) [] (mkword name QN line) Hv eq_refl Hnext) as (p & Hsemi & Hnl & Hp).
  rewrite (caw_fuel_enough (S (length (txt ++ nl :: rest))) (length (w :: ws) + S (length txt + length rest)) (txt ++ nl :: rest))
    by (rewrite ?Hlen; cbn [length]; lia).
  rewrite (caw_fuel_enough (S (length (txt ++ ";" :: rest))) (length (w :: ws) + S (length txt + length rest)) (txt ++ ";" :: rest))
    by (rewrite ?Hlen; cbn [length]; lia).
  rewrite Hsemi, Hnl. cbn [bind].
  destruct (name_reserved_def name); [apply rrel_E|].
  destruct (prefix_reserved name); [apply rrel_E|].
  destruct f as [|f]; [reflexivity|].
  eapply rrel0_compose.
  - apply cobj_pos_ext_noline. exact Hp.
  - rewrite <- (Nat.add_1_r line).
    apply cobj_shift; [exact Hline|right; exact Hnd|reflexivity|reflexivity|reflexivity].
Qed.

Theorem parse_semicolon_newline_words : forall o name txt w ws rest,
  is_ident name = true -> eqs name include_w = false ->
  vtext 1 txt (w :: ws) ->
  next_starts_object rest 2 = true -> not_directive rest 1 ->
  erase_res (parse o (name ++ "=" :: txt ++ nl :: rest)) = erase_res (parse o (name ++ "=" :: txt ++ ";" :: rest)).
Proof.
  intros o name txt w ws rest Hi Hinc Hv Hnext Hnd. rewrite !parse_objs_of.
  replace (length (name ++ "=" :: txt ++ nl :: rest)) with (length (name ++ "=" :: txt ++ ";" :: rest))
    by (rewrite !app_length; cbn [length]; rewrite !app_length; reflexivity).
  apply objs_of_rrel0. eapply def_semicolon_newline_words; eauto.
Qed.

(* ====================================================================================== *)
(* 10b. A trailing "# comment" after a value                                                 *)
(* ====================================================================================== *)

(* comment text without quotes, backslashes and newlines (a quote in a trailing comment opens a
   quoted word: finding F14; a final backslash continues the comment onto the next line) *)
Definition plainc (c:ascii) : bool :=
  negb (Ascii.eqb c dq) && negb (Ascii.eqb c sq) && negb (Ascii.eqb c nl) && negb (Ascii.eqb c bs).
Definition plainb (b:str) : bool := forallb plainc b.

Lemma take_s1_app : forall x rest, exists w r', x = w ++ r' /\ take s1 (x ++ nl :: rest) = (w, r' ++ nl :: rest).
Proof.
  induction x as [|c x IH]; intros rest.
  - exists [], []. split; reflexivity.
  - cbn [app take]. destruct (isspace c); [exists [], (c :: x); split; reflexivity|].
    destruct (mem c (single s1)); [exists [], (c :: x); split; reflexivity|].
    cbn [contig_any contig s1 negb andb].
    destruct (IH rest) as (w & r' & Hx & Ht). rewrite Ht. exists (c :: w), r'. split; [cbn [app]; f_equal; exact Hx|reflexivity].
Qed.
Lemma plainb_app : forall a b, plainb (a ++ b) = true -> plainb a = true /\ plainb b = true.
Proof. intros a b H. unfold plainb in *. rewrite forallb_app in H. apply andb_prop in H. exact H. Qed.
Lemma plainc_facts : forall c, plainc c = true ->
  Ascii.eqb c dq = false /\ Ascii.eqb c sq = false /\ Ascii.eqb c nl = false /\ Ascii.eqb c bs = false.
Proof.
  intros c H. unfold plainc in H. apply andb_prop in H as [H H4]. apply andb_prop in H as [H H3].
  apply andb_prop in H as [H1 H2]. apply negb_true_iff in H1, H2, H3, H4. auto.
Qed.
Lemma plainb_no_bs : forall v, plainb v = true -> eqs v [bs] = false.
Proof.
  intros [|c [|d v]] H; try reflexivity.
  - cbn [plainb forallb] in H. apply andb_prop in H as [H _]. destruct (plainc_facts c H) as (_ & _ & _ & Hb).
    cbn [eqs]. rewrite Hb. reflexivity.
  - cbn [eqs]. rewrite andb_false_r. reflexivity.
Qed.

(* the first value-context token of a plain rest-of-line *)
Lemma nw_s1_plain_line : forall body rest line, plainb body = true ->
  forallb isspace body = true
  \/ exists w r', nw s1 false (body ++ nl :: rest) line = TWord w (r' ++ nl :: rest) line
       /\ isq w = false /\ wline w = line /\ plainb (wv w) = true
       /\ length r' < length body /\ plainb r' = true.
Proof.
  induction body as [|c x IH]; intros rest line Hp; [left; reflexivity|].
  cbn [plainb forallb] in Hp. apply andb_prop in Hp as [Hc Hx]. fold (plainb x) in Hx.
  destruct (plainc_facts c Hc) as (H1 & H2 & H3 & H4).
  assert (Hbump : bump c line = line) by (unfold bump; rewrite H3; reflexivity).
  destruct (isspace c) eqn:Es.
  - destruct (IH rest line Hx) as [Hb|(w & r' & Hn & Hq & Hl & Hw & Hlen & Hr)].
    + left. cbn [forallb]. rewrite Es, Hb. reflexivity.
    + right. exists w, r'. cbn [app nw]. rewrite Es, Hbump. repeat split; try assumption. cbn [length]. lia.
  - right. cbn [app nw]. rewrite Es, Hbump, H1, H2. cbn [comment s1 mem andb orb].
    destruct (negb (mem c (single s1)) && (contig_any s1 || mem c (contig s1))).
    + destruct (take_s1_app x rest) as (w & r' & Hx' & Ht). rewrite Ht.
      exists (mkword (c :: w) QN line), r'. rewrite Hx' in Hx. destruct (plainb_app _ _ Hx) as [Hw Hr].
      repeat split; try assumption.
      * cbn [wv plainb forallb]. rewrite Hc. exact Hw.
      * rewrite Hx'. cbn [length]. rewrite app_length. lia.
    + exists (mkword [c] QN line), x. repeat split; try assumption.
      * cbn [wv plainb forallb]. rewrite Hc. reflexivity.
      * cbn [length]. lia.
Qed.

Definition next_unquoted (rest:str) (line:nat) : bool :=
  match nw s1 false rest line with TEnd => true | TWord w2 _ _ => negb (isq w2) | TErrQuote _ => false end.

(* in comment mode [caw] skips the rest of the line and stops before the next line *)
Lemma caw_comment_line : forall n body, length body <= n -> plainb body = true ->
  forall F rest line last a acc lead,
  wline last = line -> weq last [bs] = false -> next_unquoted rest (S line) = true ->
  length (body ++ nl :: rest) < F ->
  exists p, caw F (body ++ nl :: rest) line true last (a :: acc) lead = Ok (rev (a :: acc), p, line)
            /\ nw s0 false p line = nw s0 false rest (S line).
Proof.
  induction n as [|n IH]; intros body Hn Hp F rest line last a acc lead Hl Hnb Hnext HF.
  all: destruct F as [|F]; [lia|].
  all: destruct (nw_s1_plain_line body rest line Hp) as [Hb|(w & r' & Htok & Hq & Hwl & Hw & Hlen & Hr)].
  all: try (exfalso; lia).
  (* the rest of the line is blank: the next token stands on a later line *)
  1,2: assert (Hskip : forall σ, nw σ false (body ++ nl :: rest) line = nw σ false rest (S line));
       [intros σ; replace (body ++ nl :: rest) with ((body ++ [nl]) ++ rest) by (rewrite <- app_assoc; reflexivity);
        rewrite nw_skip_blanks by (rewrite forallb_app, Hb; reflexivity);
        rewrite count_nl_app;
        replace (count_nl body) with 0
          by (symmetry; apply count_nl_none; clear -Hp; induction body as [|c x IHx]; [reflexivity|];
              cbn [plainb forallb] in Hp; apply andb_prop in Hp as [Hc Hx]; destruct (plainc_facts c Hc) as (_ & _ & H3 & _);
              cbn [mem]; rewrite Ascii.eqb_sym, H3; apply IHx; exact Hx);
        f_equal; cbn; lia|].
  1,2: cbn [caw]; rewrite (Hskip s1); unfold next_unquoted in Hnext;
       destruct (nw s1 false rest (S line)) as [|w2 r2 l2|l2] eqn:En; [| |discriminate Hnext].
  1,3: exists []; split; [reflexivity|];
       pose proof (nw_end_blank s1 rest (S line) eq_refl En) as Hbl;
       rewrite <- (app_nil_r rest); rewrite (nw_skip_blanks s0 rest [] (S line) Hbl); reflexivity.
  1,2: exists (body ++ nl :: rest); split; [|apply Hskip];
       apply negb_true_iff in Hnext; rewrite Hnext, Hnb; cbn [negb andb orb];
       destruct (nw_lines _ _ _ _ _ _ _ En) as (pre & bd & _ & Hw2 & _);
       assert (Hd : (wline w2 =? wline last)%nat = false) by (apply Nat.eqb_neq; lia);
       rewrite Hd; reflexivity.
  (* a comment word: skipped *)
  cbn [caw]. rewrite Htok. cbn [negb andb]. rewrite Hq, Hnb, Hwl, Hl, Nat.eqb_refl. cbn [orb negb].
  apply (IH r' ltac:(lia) Hr F rest line w a acc lead Hwl); [|exact Hnext|].
  - unfold weq. rewrite Hq, (plainb_no_bs _ Hw). reflexivity.
  - rewrite app_length in *. cbn [length] in *. lia.
Qed.

Theorem caw_trailing_comment : forall F b body rest line last a acc lead,
  forallb isspace b = true -> count_nl b = 0 ->
  plainb body = true -> delim s1 (body ++ [nl]) = true ->
  next_unquoted rest (S line) = true ->
  S (length (b ++ "#" :: body ++ nl :: rest)) < F ->
  exists p, caw F (b ++ "#" :: body ++ nl :: rest) line false last (a :: acc) lead = Ok (rev (a :: acc), p, line)
            /\ nw s0 false p line = nw s0 false rest (S line).
Proof.
  intros F b body rest line last a acc lead Hb Hn Hp Hd Hnext HF.
  destruct F as [|F]; [lia|].
  assert (Htok : nw s1 false (b ++ "#" :: body ++ nl :: rest) line
                 = TWord (mkword ["#"] QN line) (body ++ nl :: rest) line).
  { rewrite (nw_skip_blanks s1 b _ line Hb), Hn, Nat.add_0_r.
    apply (nw_word s1 "#" [] (body ++ nl :: rest) line eq_refl eq_refl eq_refl).
    destruct body as [|c x]; [reflexivity|exact Hd]. }
  cbn [caw]. rewrite Htok. cbn [negb andb isq wq is1 wv eqs Ascii.eqb Bool.eqb orb].
  apply (caw_comment_line (length body) body (le_n _) Hp F rest line (mkword ["#"] QN line) a acc lead);
    [reflexivity|reflexivity|exact Hnext|].
  rewrite !app_length in *. cbn [length] in *. rewrite app_length in HF. cbn [length] in HF. lia.
Qed.

Lemma next_starts_unquoted : forall rest line, next_starts_object rest line = true -> next_unquoted rest line = true.
Proof.
  intros rest line H. unfold next_starts_object, next_unquoted in *.
  destruct (nw s1 false rest line); try assumption.
  apply andb_prop in H as [H _]. apply andb_prop in H as [H _]. exact H.
Qed.

(* T3 (trailing comments), at any [cobj] iteration: "name=words  # text<newline>rest" is read
   exactly like "name=words<newline>rest" *)
Theorem def_trailing_comment : forall o f name txt w ws b body rest line nid stop start prev active acc,
  is_ident name = true -> eqs name include_w = false ->
  vtext line txt (w :: ws) ->
  forallb isspace b = true -> count_nl b = 0 -> b <> [] ->
  plainb body = true -> delim s1 (body ++ [nl]) = true ->
  next_starts_object rest (S line) = true ->
  cobj_noline (cobj o (S f) (name ++ "=" :: txt ++ b ++ "#" :: body ++ nl :: rest) line nid stop start prev active acc)
  = cobj_noline (cobj o (S f) (name ++ "=" :: txt ++ nl :: rest) line nid stop start prev active acc).
Proof.
  intros o f name txt w ws b body rest line nid stop start prev active acc Hi Hinc Hv Hb Hn Hbne Hp Hd Hnext.
  rewrite !cobj_def_unfold by assumption.
  set (lead := mkword name QN line).
  (* the side with the comment *)
  set (t1 := b ++ "#" :: body ++ nl :: rest).
  assert (Hdt1 : delim s1 t1 = true).
  { unfold t1. destruct b as [|c b']; [congruence|]. cbn [forallb] in Hb. apply andb_prop in Hb as [Hc _].
    cbn [app delim]. rewrite Hc. reflexivity. }
  set (F1 := S (S (length txt + length t1))).
  rewrite (caw_fuel_enough (S (length (txt ++ t1))) (length (w :: ws) + F1) (txt ++ t1))
    by (unfold F1; rewrite ?app_length; cbn [length]; lia).
  rewrite (caw_vtext line txt (w :: ws) Hv F1 t1 lead [] lead Hdt1 eq_refl).
  assert (Hrev : exists a acc1, rev (w :: ws) ++ [] = a :: acc1).
  { destruct (rev (w :: ws) ++ []) as [|a acc1] eqn:E; [|eauto].
    apply (f_equal (@length word)) in E. rewrite app_length, rev_length in E. cbn [length] in E. lia. }
  destruct Hrev as (a & acc1 & Hrev). rewrite Hrev.
  destruct (caw_trailing_comment F1 b body rest line (List.last (w :: ws) lead) a acc1 lead Hb Hn Hp Hd
              (next_starts_unquoted _ _ Hnext) ltac:(unfold F1, t1; lia)) as (p1 & Hc1 & Hp1).
  fold t1 in Hc1. rewrite Hc1.
  (* the side without *)
  destruct (caw_semicolon_newline (length txt + length rest) txt w ws rest line lead [] lead Hv eq_refl Hnext)
    as (p2 & _ & Hc2 & Hp2).
  rewrite (caw_fuel_enough (S (length (txt ++ nl :: rest))) (length (w :: ws) + S (length txt + length rest)) (txt ++ nl :: rest))
    by (rewrite ?app_length; cbn [length]; lia).
  rewrite Hc2. cbn [bind]. rewrite <- Hrev, rev_app_distr, rev_involutive. cbn [rev app].
  destruct (name_reserved_def name); [reflexivity|].
  destruct (prefix_reserved name); [reflexivity|].
  destruct f as [|f]; [reflexivity|].
  apply cobj_pos_ext_noline. rewrite Hp1, Hp2. reflexivity.
Qed.

Theorem parse_trailing_comment : forall o name txt w ws b body rest,
  is_ident name = true -> eqs name include_w = false ->
  vtext 1 txt (w :: ws) ->
  forallb isspace b = true -> count_nl b = 0 -> b <> [] ->
  plainb body = true -> delim s1 (body ++ [nl]) = true ->
  next_starts_object rest 2 = true ->
  parse o (name ++ "=" :: txt ++ b ++ "#" :: body ++ nl :: rest) = parse o (name ++ "=" :: txt ++ nl :: rest).
Proof.
  intros o name txt w ws b body rest Hi Hinc Hv Hb Hn Hbne Hp Hd Hnext. rewrite !parse_objs_of.
  apply objs_of_noline.
  rewrite (cobj_fuel_enough o (S (S (length (name ++ "=" :: txt ++ nl :: rest))))
             (S (S (length (name ++ "=" :: txt ++ b ++ "#" :: body ++ nl :: rest)))) (name ++ "=" :: txt ++ nl :: rest))
    by (rewrite ?app_length; cbn [length]; rewrite ?app_length; cbn [length]; rewrite ?app_length; cbn [length]; lia).
  eapply def_trailing_comment; eauto.
Qed.

(* ====================================================================================== *)
(* 11. Examples (non-vacuity; every premise is satisfiable, every side condition needed)  *)
(* ====================================================================================== *)

Definition run (s:str) := cobj [] 40 s 1 1 false None 0 None [].

(* T1: the exact statement needs its side conditions: at the end of an unbraced input [cobj]
   hands the start line back, and [caw] hands its start position back before a brace *)
Example T1_line_leak :
  nw s0 false (s_ " 
") 1 = nw s0 false [] 2
  /\ cobj [] 5 (s_ " 
") 1 1 false None 0 None [] = Ok ([], [], 1, 1)
  /\ cobj [] 5 [] 2 1 false None 0 None [] = Ok ([], [], 2, 1).
Proof. vm_compute. auto. Qed.
Example T1_caw_hands_back :
  nw s1 false (s_ " }") 1 = nw s1 false (s_ "}") 1
  /\ caw 5 (s_ " }") 1 false (uw []) [uw []] (uw []) = Ok ([uw []], s_ " }", 1)
  /\ caw 5 (s_ "}") 1 false (uw []) [uw []] (uw []) = Ok ([uw []], s_ "}", 1).
Proof. vm_compute. auto. Qed.
Example T1_example :
  cobj [] 9 (s_ "  a=1;b{c=2}") 1 1 false None 0 None [] = cobj [] 9 (s_ "a=1;b{c=2}") 1 1 false None 0 None [].
Proof. apply (cobj_pos_ext [] 8); [reflexivity|right; left; reflexivity]. Qed.

(* T2 *)
Example T2_example :
  cobj [] 12 (s_ "a=1;b{c=2}") 1 1 false None 0 None [] = cobj [] 300 (s_ "a=1;b{c=2}") 1 1 false None 0 None []
  /\ cobj [] 2 (s_ "a=1;b{c=2}") 1 1 false None 0 None [] = OOF.
Proof. split; [apply cobj_fuel_enough; cbn; lia|vm_compute; reflexivity]. Qed.

(* T3 *)
Example layout_example : layout (s_ " 
# a note {;} 'quote
	 ").
Proof.
  apply layout_blank; [reflexivity|]. apply layout_blank; [reflexivity|].
  apply (layout_comment (s_ " a note {;} 'quote") (s_ "	 ")); [reflexivity|reflexivity|].
  repeat (apply layout_blank; [reflexivity|]). apply layout_nil.
Qed.
Example T3_example :
  erase_res (parse [] (s_ " 
# a note {;} 'quote
	 a = 1
b { c = 2 }")) = erase_res (parse [] (s_ "a = 1
b { c = 2 }"))
  /\ parse [] (s_ " 
a = 1") <> parse [] (s_ "a = 1")                          (* the lines do differ *)
  /\ exists l, parse [] (s_ "a = 1
b { c = 2 }") = Ok l /\ length l = 2.
Proof.
  split; [|split].
  - apply (parse_layout_prefix [] _ _ layout_example).
  - vm_compute. discriminate.
  - vm_compute. eexists; split; reflexivity.
Qed.
(* blanks before a nested object, and before the closing brace: exactly the same result *)
Example T3_nested_example : forall nid acc,
  cobj [] 30 (s_ "  
   c = 2 }") 4 nid true (Some (uw (s_ "{"))) 0 None acc
  = cobj [] 30 (s_ "c = 2 }") 5 nid true (Some (uw (s_ "{"))) 0 None acc.
Proof. intros. apply (cobj_skip_blanks [] 30 (s_ "  
   ")); [reflexivity|left; reflexivity]. Qed.
Example def_blanks_example :
  run (s_ "ab 	 =   1 2
c=3") = run (s_ "ab=1 2
c=3").
Proof.
  apply (def_blanks_irrelevant [] 39 (s_ "ab") (s_ " 	 ") (s_ "   ")); reflexivity.
Qed.

(* T4 *)
Example vtext_example :
  vtext 1 (s_ "1.5  'x y' z") [mkword (s_ "1.5") QN 1; mkword (s_ "x y") Q1 1; mkword (s_ "z") QN 1].
Proof.
  apply (vt_cons 1 (s_ "1.5") _ (s_ "  'x y' z")); try reflexivity.
  { exact (value_unquoted "1" (s_ ".5") 1 eq_refl eq_refl). }
  apply (vt_cons 1 (s_ "  'x y'") _ (s_ " z")); try reflexivity.
  { apply (reads_blank 1 (s_ "  ") (s_ "'x y'")); try reflexivity.
    exact (value_quoted Q1 (s_ "x y") 1 ltac:(discriminate) eq_refl). }
  rewrite <- (app_nil_r (s_ " z")).
  apply (vt_cons 1 (s_ " z") _ []); try reflexivity.
  { apply (reads_blank 1 (s_ " ") (s_ "z")); try reflexivity. exact (value_unquoted "z" [] 1 eq_refl eq_refl). }
  { intros t Ht; exact Ht. }
  apply vt_nil.
Qed.
Example T4_example :
  erase_res (parse [] (s_ "a=1.5  'x y' z
b { c = 2 }")) = erase_res (parse [] (s_ "a=1.5  'x y' z;b { c = 2 }"))
  /\ exists l, parse [] (s_ "a=1.5  'x y' z;b { c = 2 }") = Ok l /\ length l = 2.
Proof.
  split.
  - eapply (parse_semicolon_newline_words [] (s_ "a") (s_ "1.5  'x y' z") _ _ (s_ "b { c = 2 }"));
      [reflexivity|reflexivity|exact vtext_example|reflexivity|reflexivity].
  - vm_compute. eexists; split; reflexivity.
Qed.
(* the two premises on what follows are needed: a quoted word on the next line continues the
   value, and a "#phil" directive is honoured only on a line of its own *)
Example T4_quoted_next_line_differs :
  erase_res (parse [] (s_ "a=1
'x'")) <> erase_res (parse [] (s_ "a=1;'x'")).
Proof. vm_compute. discriminate. Qed.
Example T4_directive_differs :
  erase_res (parse [] (s_ "a=1
#phil __OFF__
b=2")) <> erase_res (parse [] (s_ "a=1;#phil __OFF__
b=2")).
Proof. vm_compute. discriminate. Qed.

(* trailing comment *)
Example T3_trailing_comment_example :
  parse [] (s_ "a=1 zz 	# note {;} x = y
b { c = 2 }") = parse [] (s_ "a=1 zz
b { c = 2 }")
  /\ exists l, parse [] (s_ "a=1 zz
b { c = 2 }") = Ok l /\ length l = 2.
Proof.
  split; [|vm_compute; eexists; split; reflexivity].
  eapply (parse_trailing_comment [] (s_ "a") (s_ "1 zz") (mkword (s_ "1") QN 1) [mkword (s_ "zz") QN 1]
            (s_ " 	") (s_ " note {;} x = y") (s_ "b { c = 2 }"));
    try reflexivity; [|discriminate].
  apply (vt_cons 1 (s_ "1") _ (s_ " zz")); try reflexivity.
  { exact (value_unquoted "1" [] 1 eq_refl eq_refl). }
  rewrite <- (app_nil_r (s_ " zz")).
  apply (vt_cons 1 (s_ " zz") _ []); try reflexivity.
  { apply (reads_blank 1 (s_ " ") (s_ "zz")); try reflexivity. exact (value_unquoted "z" (s_ "z") 1 eq_refl eq_refl). }
  { intros t Ht; exact Ht. }
  apply vt_nil.
Qed.
(* F14: a quote at the start of a comment word opens a quoted word, so [plainb] is needed *)
Example T3_comment_quote_differs :
  parse [] (s_ "a=1 # 'tis
b=3") <> parse [] (s_ "a=1
b=3").
Proof. vm_compute. discriminate. Qed.

(* T5 *)
Example T5_example :
  parse [] (s_ "!a = 1
.help = h
b = 2") = on_first set_dis (parse [] (s_ "a = 1
.help = h
b = 2"))
  /\ exists x y, parse [] (s_ "a = 1
.help = h
b = 2") = Ok [x; y] /\ odis (ohdr x) = false /\ odis (ohdr (set_dis x)) = true.
Proof.
  split.
  - apply (bang_simple [] (s_ "a")); reflexivity.
  - vm_compute. eexists _, _. split; [reflexivity|split; reflexivity].
Qed.
Example T5_dotted_scope_example :
  parse [] (s_ "!s.t { x = 1 }
y = 2") = on_first (dis_depth 1) (parse [] (s_ "s.t { x = 1 }
y = 2"))
  /\ exists h1 h2 ks a1 a2 y, parse [] (s_ "!s.t { x = 1 }
y = 2") = Ok [Scp h1 [Scp h2 ks a2] a1; y] /\ odis h1 = false /\ odis h2 = true.
Proof.
  split.
  - apply (bang_object [] (s_ "s.t")); reflexivity.
  - vm_compute. eexists _, _, _, _, _, _. split; [reflexivity|split; reflexivity].
Qed.
Example T5_error_example :
  parse [] (s_ "!a = ") = parse [] (s_ "a = ") /\ parse [] (s_ "a = ") = E "MissingValue" (s_ "a") 1.
Proof.
  split; [|vm_compute; reflexivity].
  change (parse [] ("!" :: s_ "a" ++ s_ " = ") = parse [] (s_ "a" ++ s_ " = ")).
  rewrite (bang_simple [] (s_ "a") (s_ " = ")) by reflexivity. vm_compute. reflexivity.
Qed.
(* a disabled attribute line is dropped unconverted: even a value that would be refused *)
Example T5_attr_example :
  (exists x, parse [] (s_ "a = 1
!.optional = maybe
") = Ok [x] /\ oattrs x = [])
  /\ parse [] (s_ "a = 1
.optional = maybe
") = E "NotBool" (s_ "maybe") 2.
Proof. split; vm_compute; [eexists; split; reflexivity|reflexivity]. Qed.

Example T5_scope_attr_example :
  (exists x, parse [] (s_ "s !.optional = maybe { x = 1 }") = Ok [x] /\ oattrs x = [])
  /\ parse [] (s_ "s .optional = maybe { x = 1 }") = E "NotBool" (s_ "maybe") 1.
Proof. split; vm_compute; [eexists; split; reflexivity|reflexivity]. Qed.

(* ====================================================================================== *)
(* 12. Assumptions                                                                           *)
(* ====================================================================================== *)
Print Assumptions cobj_pos_ext.
Print Assumptions cobj_pos_ext_noline.
Print Assumptions caw_pos_ext.
Print Assumptions sattrs_pos_ext.
Print Assumptions caw_fuel_irrelevant.
Print Assumptions sattrs_fuel_irrelevant.
Print Assumptions cobj_fuel_irrelevant.
Print Assumptions caw_fuel_enough.
Print Assumptions sattrs_fuel_enough.
Print Assumptions cobj_fuel_enough.
Print Assumptions cobj_skip_blanks.
Print Assumptions cobj_skip_blanks_noline.
Print Assumptions cobj_skip_comment.
Print Assumptions cobj_skip_comment_noline.
Print Assumptions caw_skip_blanks.
Print Assumptions parse_leading_blanks_same_line.
Print Assumptions cobj_layout.
Print Assumptions cobj_layout_noline.
Print Assumptions parse_layout_prefix.
Print Assumptions parse_leading_blanks.
Print Assumptions parse_leading_comment.
Print Assumptions def_blanks_irrelevant.
Print Assumptions nw_shift.
Print Assumptions cobj_shift.
Print Assumptions caw_semicolon_newline_single.
Print Assumptions caw_semicolon_newline.
Print Assumptions def_semicolon_newline.
Print Assumptions def_semicolon_newline_words.
Print Assumptions parse_semicolon_newline.
Print Assumptions parse_semicolon_newline_words.
Print Assumptions caw_trailing_comment.
Print Assumptions def_trailing_comment.
Print Assumptions parse_trailing_comment.
Print Assumptions nw_word.
Print Assumptions nw_s0_word.
Print Assumptions nw_bang.
Print Assumptions cobj_acc_app.
Print Assumptions cobj_active_map.
Print Assumptions cobj_bang.
Print Assumptions parse_bang.
Print Assumptions bang_object.
Print Assumptions bang_simple.
Print Assumptions bang_attr.
Print Assumptions bang_scope_attr.
