(* C02, global form: a layout grammar [Renders : list obj -> str -> Prop] between an abstract tree and a
   text, and its soundness for the parser model: every text the grammar relates to a tree parses to
   that tree ([renders_sound]); ids, line numbers and attributes are erased on both sides with
   [TreeRoundtrip.erase_all] (kept: names, nesting, order, disabled flags, is_template, merge_names,
   word texts and quote styles).  Hence any two renderings of one tree parse alike
   ([renderings_agree]) - the property's statement for the layout grammar.
   The grammar's constructors are the layout freedoms of stage A:
   - between objects, after "{" and before "}": any [ParserLayout.layout] (blanks, newlines, full-line
     comments "# ..." whose text does not start with "phil");
   - a definition ([RendersDef]) "[!]name", blanks, "=", blanks, the value words ([RendersWords]: quoted
     words by [quote_str], unquoted words verbatim, separated by non-empty blank runs without newline),
     then a terminator ([RendersTerm]): blanks newline | blanks ";" | blanks "#" plain-comment newline |
     blanks and nothing more (only for the last definition before "}" or the end of the input);
   - a scope "[!]name", blanks or newlines (or nothing), "{", the children, layout, "}";
   - names: identifiers the parser accepts ([dhdr_ok]: not reserved, not "include", is_template 0, no
     merge_names on the written object).  A DOTTED name "a.b.x" is allowed: the tree of a written
     object x is [adopt x] - x itself for a dot-free name, the chain a { b { x } } with merge_names
     below the first for a dotted one (exactly the parser's shape).  Modulo merge_names the dotted and
     the braced spelling denote one tree: [renderings_agree_mod_merge].
   Restrictions (each is needed, see the examples in section 12):
   - the value is non-empty and in the domain [WordsRoundtrip.words_ok] (word_ok; and the language's
     line rule: an unquoted word must not follow a quoted word that contains a newline);
   - the layout that follows a NEWLINE-terminated value must be [slayout]: its first comment line is
     "safe" - its text contains no quote and no backslash ([ParserLayout.plainb]), or its "#" is glued to
     a non-delimiter.  In value context a lone "#" switches collect_assigned_words to its word-wise
     comment mode, where a quote opens a quoted word that can swallow the following lines
     ([unsafe_comment_after_value]; replayed on the Python).  After ";", after a trailing comment,
     after "{" or "}" and at the top every comment line is harmless;
   - a trailing comment's "#" is preceded by a blank and followed by a blank, one of "{};" or the
     newline, and its text is plain ([trailing_comment_glued]);
   - no backslash-newline continuation inside a value, no attributes, no include, no #phil directives
     (future work: stage B).
   Section 11 turns the grammar into a generator: concrete syntax trees [cst] with explicit layout
   choices, a decidable validity check [cst_ok] and [cst_renders]; section 13 shows that the printer's
   level-0 output is a rendering ([show_renders]). *)
From Coq Require Import List Ascii String Bool Arith ZArith Lia.
From Phil Require Import Base Tokenizer Tree Parser Show QuoteProofs LexProofs ParserTotal ParserLayout
                         ShowProofs ShowErase WordsRoundtrip TreeRoundtrip.
Import ListNotations.
Local Open Scope char_scope.

(* ====================================================================================== *)
(* 1. tokens                                                                                *)
(* ====================================================================================== *)

Lemma tail_ok_no_quote : forall q tl, tail_ok tl = true -> prefixb [qchar q] tl = false.
Proof.
  intros q [|c tl] H; [reflexivity|]. cbn [prefixb]. rewrite andb_true_r.
  destruct (Ascii.eqb (qchar q) c) eqn:E; [|reflexivity]. apply Ascii.eqb_eq in E. subst c.
  cbn [tail_ok] in H. destruct (qchar_cases q) as [E|E]; rewrite E in H; discriminate H.
Qed.

(* every word of the domain is read back as one token when a delimiter (or nothing) follows *)
Lemma nw_word_gen : forall w tl line, word_ok w = true -> tail_ok tl = true ->
  nw s1 false (str_of_word w ++ tl) line = TWord (setl w line) tl (line + count_nl (wv w)).
Proof.
  intros w tl line Hok Ht. unfold word_ok in Hok. unfold str_of_word, setl.
  destruct (isq w) eqn:Eq.
  - apply nw_quoted.
    + intros E. unfold isq in Eq. rewrite E in Eq. discriminate.
    + reflexivity.
    + intros _ _. apply tail_ok_no_quote; exact Ht.
  - cbn [orb] in Hok. apply andb_prop in Hok as [Hok _]. apply andb_prop in Hok as [Hu _].
    unfold isq in Eq. destruct (wq w); try discriminate. cbn [quote_str].
    rewrite (unq_ok_count_nl _ Hu), Nat.add_0_r.
    apply nw_unquoted; assumption.
Qed.

Lemma blank_tail_ok : forall sep tl, blank sep -> sep <> [] -> tail_ok (sep ++ tl) = true.
Proof.
  intros [|c sep] tl [Hb _] Hne; [congruence|]. cbn [forallb] in Hb. apply andb_prop in Hb as [Hc _].
  cbn [app tail_ok]. rewrite Hc. reflexivity.
Qed.

(* one value word, after any blanks without a newline *)
Lemma caw_word_step : forall f sep w tl line last acc lead prevnl,
  blank sep -> word_ok w = true -> tail_ok tl = true ->
  isq w || (prevnl =? 0)%nat = true -> weq last [bs] = false -> line = wline last + prevnl ->
  caw (S f) (sep ++ str_of_word w ++ tl) line false last acc lead
  = caw f tl (line + count_nl (wv w)) false (setl w line) (setl w line :: acc) lead.
Proof.
  intros f sep w tl line last acc lead prevnl [Hs Hn] Hw Ht Hl Hlast Hline.
  assert (Hnw : nw s1 false (sep ++ str_of_word w ++ tl) line
                = TWord (setl w line) tl (line + count_nl (wv w))).
  { rewrite (nw_skip_blanks s1 sep _ line Hs), Hn, Nat.add_0_r. apply nw_word_gen; assumption. }
  destruct (isq w) eqn:Eq.
  - apply (caw_step_quoted _ _ _ _ _ _ _ _ _ Hnw Eq).
  - cbn [orb] in Hl. apply Nat.eqb_eq in Hl. subst prevnl. rewrite Nat.add_0_r in Hline.
    rewrite (caw_step_same_line _ _ _ _ _ _ _ _ _ Hnw Eq (word_ok_not_special w _ Hw Eq) Hlast Hline).
    destruct (word_ok_unq w Hw Eq) as (_ & Hb & _).
    change (is1 (setl w line) bs) with (eqs (wv w) [bs]). rewrite Hb. reflexivity.
Qed.

(* ====================================================================================== *)
(* 2. value words                                                                           *)
(* ====================================================================================== *)

(* the words after the first: each preceded by a non-empty run of blanks without a newline *)
Inductive RendersWords : list word -> str -> Prop :=
  | rw_nil : RendersWords [] []
  | rw_cons : forall w ws sep tl, blank sep -> sep <> [] -> RendersWords ws tl ->
      RendersWords (w :: ws) (sep ++ str_of_word w ++ tl).

Lemma rw_tail_ok : forall ws txt rest, RendersWords ws txt -> tail_ok rest = true -> tail_ok (txt ++ rest) = true.
Proof.
  intros ws txt rest H Hr. destruct H as [|w ws sep tl Hs Hne _]; [exact Hr|].
  rewrite <- app_assoc. apply blank_tail_ok; assumption.
Qed.

Lemma caw_words : forall ws txt, RendersWords ws txt -> forallb word_ok ws = true ->
  forall f rest line last acc lead prevnl,
  lines_ok prevnl ws = true -> weq last [bs] = false -> line = wline last + prevnl ->
  tail_ok rest = true ->
  exists last' prevnl',
    weq last' [bs] = false /\ endline line ws = wline last' + prevnl'
    /\ caw (length ws + f) (txt ++ rest) line false last acc lead
       = caw f rest (endline line ws) false last' (rev (reline line ws) ++ acc) lead.
Proof.
  intros ws txt H; induction H as [|w ws sep tl Hs Hne Hr IH];
    intros Hok f rest line last acc lead prevnl Hlines Hlast Hline Hrest.
  - exists last, prevnl. repeat split; assumption.
  - cbn [forallb] in Hok. apply andb_prop in Hok as [Hw Hok].
    cbn [lines_ok] in Hlines. apply andb_prop in Hlines as [Hl1 Hlines].
    destruct (IH Hok f rest (line + count_nl (wv w)) (setl w line) (setl w line :: acc) lead (count_nl (wv w))
                Hlines (word_ok_weq_bs w line Hw) eq_refl Hrest) as (last' & prevnl' & H1 & H2 & H3).
    exists last', prevnl'. split; [exact H1|]. split; [exact H2|].
    cbn [length Nat.add reline endline rev]. rewrite <- !app_assoc.
    rewrite (caw_word_step _ sep w (tl ++ rest) line last acc lead prevnl Hs Hw
               (rw_tail_ok ws tl rest Hr Hrest) Hl1 Hlast Hline).
    rewrite H3. reflexivity.
Qed.

Lemma reline_noline : forall ws line, map noline (reline line ws) = map noline ws.
Proof. induction ws as [|w ws IH]; intros line; [reflexivity|]. cbn [reline map]. rewrite IH. reflexivity. Qed.

(* ====================================================================================== *)
(* 3. what may follow: the start of an object, a closing brace, the end of the input        *)
(* ====================================================================================== *)

Definition startc (c:ascii) : bool := is_start c || Ascii.eqb c "!" || Ascii.eqb c "}".
Definition StartsObj (next:str) : Prop := next = [] \/ exists c tl, next = c :: tl /\ startc c = true.
Definition Close (rest:str) : Prop := rest = [] \/ exists tl, rest = "}" :: tl.

Lemma startc_props : forall c, startc c = true ->
  c = "}" \/ (wstart s1 c = true /\ Ascii.eqb c ";" = false /\ Ascii.eqb c "#" = false).
Proof.
  intros c. destruct c as [[] [] [] [] [] [] [] []]; vm_compute; intros H; try discriminate H;
    try (left; reflexivity); right; repeat split.
Qed.

(* in value context such a text starts with an unquoted token other than ";" and a lone "#" *)
Lemma startc_tok : forall c tl line, startc c = true ->
  exists w r, nw s1 false (c :: tl) line = TWord w r line
              /\ isq w = false /\ is1 w ";" = false /\ is1 w "#" = false /\ wline w = line.
Proof.
  intros c tl line H. destruct (startc_props c H) as [->|(Hw & H1 & H2)].
  - exists (mkword ["}"] QN line), tl. repeat split.
  - rewrite (nw_start s1 c tl line eq_refl Hw). destruct (take s1 tl) as [w r].
    exists (mkword (c :: w) QN line), r. unfold is1. cbn [wv eqs]. rewrite H1, H2. repeat split.
Qed.

Lemma close_starts : forall rest, Close rest -> StartsObj rest.
Proof. intros rest [->|(tl & ->)]; [left; reflexivity|right; exists "}", tl; split; reflexivity]. Qed.

Lemma nw_s1_hash : forall x line,
  exists w r, nw s1 false ("#" :: x) line = TWord (mkword ("#" :: w) QN line) r line.
Proof.
  intros x line. rewrite (nw_start s1 "#" x line eq_refl eq_refl). destruct (take s1 x) as [w r].
  exists w, r. reflexivity.
Qed.

(* after any layout, the next value-context token is not a quoted word *)
Lemma layout_unq : forall lay, layout lay -> forall next, StartsObj next ->
  forall line, next_unquoted (lay ++ next) line = true.
Proof.
  intros lay Hl; induction Hl as [|c p Hc Hp IH|body p Hb Hph Hp IH]; intros next Hn line.
  - cbn [app]. unfold next_unquoted. destruct Hn as [->|(c & tl & -> & Hc)]; [reflexivity|].
    destruct (startc_tok c tl line Hc) as (w & r & -> & Hq & _). rewrite Hq. reflexivity.
  - unfold next_unquoted. cbn [app nw]. rewrite Hc. apply IH; exact Hn.
  - unfold next_unquoted. cbn [app].
    destruct (nw_s1_hash ((body ++ nl :: p) ++ next) line) as (w & r & ->). reflexivity.
Qed.

(* ====================================================================================== *)
(* 4. layout after a newline-terminated value                                               *)
(* ====================================================================================== *)

(* [slayout]: a layout whose first comment line is harmless in value context: the "#" is glued to
   the next character (then it is an ordinary unquoted word on a later line), or the comment text
   is plain (no quote, no backslash) *)
Inductive slayout : str -> Prop :=
  | sl_nil : slayout []
  | sl_blank : forall c p, isspace c = true -> slayout p -> slayout (c :: p)
  | sl_comment : forall body p, mem nl body = false -> prefixb (s_ "phil") body = false ->
      plainb body = true \/ delim s1 body = false ->
      layout p -> slayout ("#" :: body ++ nl :: p).

Lemma slayout_layout : forall p, slayout p -> layout p.
Proof. intros p H; induction H; constructor; assumption. Qed.
Lemma layout_blanks_s : forall b, forallb isspace b = true -> slayout b.
Proof.
  induction b as [|c b IH]; intros H; [constructor|]. cbn [forallb] in H. apply andb_prop in H as [H1 H2].
  constructor; auto.
Qed.

Lemma nw_hash_glued : forall d x line, delim s1 (d :: x) = false ->
  exists w r, nw s1 false ("#" :: d :: x) line = TWord (mkword ("#" :: d :: w) QN line) r line.
Proof.
  intros d x line Hd. rewrite (nw_start s1 "#" (d :: x) line eq_refl eq_refl).
  cbn [delim] in Hd. apply orb_false_iff in Hd as [H1 H2].
  cbn [take]. rewrite H1, H2. cbn [contig_any contig s1 negb andb].
  destruct (take s1 x) as [w r]. exists w, r. reflexivity.
Qed.

Lemma caw_stop_slayout : forall lay, slayout lay -> forall next, StartsObj next ->
  forall F pre line last a acc lead prevnl,
  forallb isspace pre = true -> 1 <= count_nl pre ->
  weq last [bs] = false -> line = wline last + prevnl ->
  length (pre ++ lay ++ next) < F ->
  exists s' l', caw F (pre ++ lay ++ next) line false last (a :: acc) lead = Ok (rev (a :: acc), s', l')
    /\ nw s0 false s' l' = nw s0 false (lay ++ next) (line + count_nl pre).
Proof.
  intros lay Hl; induction Hl as [|c p Hc Hp IH|body p Hb Hph Hsafe Hp]; intros next Hn F pre line last a acc lead prevnl
    Hpre Hcnt Hlast Hline HF.
  - (* no layout left: the next object, a closing brace, or the end *)
    destruct F as [|F]; [lia|]. cbn [app] in *.
    destruct Hn as [->|(c & tl & -> & Hc)].
    + exists [], line. split.
      * apply caw_stop_end. rewrite app_nil_r. apply nw_all_blank; exact Hpre.
      * reflexivity.
    + destruct (startc_tok c tl (line + count_nl pre) Hc) as (w & r & Hnw & Hq & H3 & H4 & Hwl).
      exists (pre ++ c :: tl), line. split.
      * eapply caw_stop_other_line; [rewrite (nw_skip_blanks s1 pre _ line Hpre); exact Hnw|
                                     exact Hq|exact H3|exact H4|exact Hlast|]. lia.
      * apply nw_skip_blanks; exact Hpre.
  - (* one more blank *)
    assert (HT : pre ++ (c :: p) ++ next = (pre ++ [c]) ++ p ++ next) by (rewrite <- app_assoc; reflexivity).
    rewrite HT in *.
    destruct (IH next Hn F (pre ++ [c]) line last a acc lead prevnl) as (s' & l' & H1 & H2);
      try assumption.
    { rewrite forallb_app, Hpre. cbn [forallb]. rewrite Hc. reflexivity. }
    { rewrite count_nl_app. lia. }
    exists s', l'. split; [exact H1|]. rewrite H2.
    change ((c :: p) ++ next) with ([c] ++ p ++ next).
    rewrite (nw_skip_blanks s0 [c] (p ++ next) (line + count_nl pre)) by (cbn [forallb]; rewrite Hc; reflexivity).
    rewrite count_nl_app, Nat.add_assoc. reflexivity.
  - (* a comment line *)
    set (L1 := line + count_nl pre).
    set (rest := p ++ next).
    assert (HT : pre ++ ("#" :: body ++ nl :: p) ++ next = pre ++ "#" :: body ++ nl :: rest).
    { unfold rest. cbn [app]. rewrite <- app_assoc. reflexivity. }
    assert (HT2 : ("#" :: body ++ nl :: p) ++ next = "#" :: body ++ nl :: rest).
    { unfold rest. cbn [app]. rewrite <- app_assoc. reflexivity. }
    rewrite HT in *. rewrite HT2. clear HT HT2.
    destruct F as [|F]; [lia|].
    assert (Hs0 : nw s0 false (pre ++ "#" :: body ++ nl :: rest) line = nw s0 false ("#" :: body ++ nl :: rest) L1)
      by (apply nw_skip_blanks; exact Hpre).
    destruct (delim s1 (body ++ nl :: rest)) eqn:Ed.
    + (* a lone "#": comment mode *)
      assert (Hplain : plainb body = true).
      { destruct Hsafe as [H|H]; [exact H|]. destruct body as [|d body']; [discriminate H|].
        cbn [app delim] in Ed. cbn [delim] in H. congruence. }
      assert (Htok : nw s1 false (pre ++ "#" :: body ++ nl :: rest) line
                     = TWord (mkword ["#"] QN L1) (body ++ nl :: rest) L1).
      { rewrite (nw_skip_blanks s1 pre _ line Hpre).
        apply (ParserLayout.nw_word s1 "#" [] (body ++ nl :: rest) L1 eq_refl eq_refl eq_refl Ed). }
      destruct (caw_comment_line (length body) body (le_n _) Hplain F rest L1 (mkword ["#"] QN L1) a acc lead
                  eq_refl eq_refl (layout_unq p Hp next Hn (S L1))) as (p' & Hc & Hp').
      { rewrite !app_length in HF. cbn [length] in HF. rewrite !app_length in HF. cbn [length] in HF.
        rewrite app_length. cbn [length]. lia. }
      exists p', L1. split.
      * cbn [caw]. rewrite Htok. cbn [negb andb isq wq is1 wv eqs Ascii.eqb Bool.eqb orb]. exact Hc.
      * rewrite Hp'. symmetry. apply nw_s0_comment; [exact Hb|].
        apply prefixb_app_nl; [reflexivity|exact Hph].
    + (* "#" glued to a word: an unquoted word on a later line *)
      destruct body as [|d body']; [discriminate Ed|].
      destruct (nw_hash_glued d (body' ++ nl :: rest) L1 Ed) as (w & r & Hnw).
      exists (pre ++ "#" :: (d :: body') ++ nl :: rest), line. split; [|exact Hs0].
      eapply caw_stop_other_line; [rewrite (nw_skip_blanks s1 pre _ line Hpre); exact Hnw|
                                   reflexivity|reflexivity|reflexivity|exact Hlast|].
      cbn [wline]. unfold L1. lia.
Qed.

(* ====================================================================================== *)
(* 5. terminators of a value                                                                *)
(* ====================================================================================== *)

Inductive term := KSemi | KNl | KComment | KEnd.

Inductive RendersTerm : term -> str -> Prop :=
  | rt_semi : forall b, blank b -> RendersTerm KSemi (b ++ [";"])
  | rt_nl : forall b, blank b -> RendersTerm KNl (b ++ [nl])
  | rt_comment : forall b body, blank b -> b <> [] -> plainb body = true -> delim s1 (body ++ [nl]) = true ->
      RendersTerm KComment (b ++ "#" :: body ++ [nl])
  | rt_end : forall b, blank b -> RendersTerm KEnd b.

(* what the text after the terminator must look like *)
Definition FollowOK (k:term) (X:str) : Prop :=
  match k with
  | KSemi => True
  | KNl => exists lay next, X = lay ++ next /\ slayout lay /\ StartsObj next
  | KComment => exists lay next, X = lay ++ next /\ layout lay /\ StartsObj next
  | KEnd => Close X
  end.

Lemma caw_term : forall k t X, RendersTerm k t -> FollowOK k X ->
  forall F line last a acc lead prevnl,
  weq last [bs] = false -> line = wline last + prevnl ->
  S (length (t ++ X)) < F ->
  exists s' l' l2, caw F (t ++ X) line false last (a :: acc) lead = Ok (rev (a :: acc), s', l')
    /\ nw s0 false s' l' = nw s0 false X l2.
Proof.
  intros k t X Ht HX F line last a acc lead prevnl Hlast Hline HF.
  destruct Ht as [b Hb|b Hb|b body Hb Hne Hpl Hd|b Hb].
  - (* ";" *)
    destruct F as [|F]; [lia|]. exists X, line, line. split; [|reflexivity].
    rewrite <- app_assoc. cbn [app caw]. destruct Hb as [Hb Hn].
    rewrite (nw_skip_blanks s1 b _ line Hb), Hn, Nat.add_0_r, nw_s1_semicolon. reflexivity.
  - (* newline *)
    destruct HX as (lay & next & -> & Hl & Hnx). destruct Hb as [Hb Hn].
    assert (HT : (b ++ [nl]) ++ lay ++ next = (b ++ [nl]) ++ lay ++ next) by reflexivity.
    destruct (caw_stop_slayout lay Hl next Hnx F (b ++ [nl]) line last a acc lead prevnl) as (s' & l' & H1 & H2);
      try assumption.
    { rewrite forallb_app, Hb. reflexivity. }
    { rewrite count_nl_app. cbn [count_nl]. rewrite Ascii.eqb_refl. lia. }
    { lia. }
    exists s', l', (line + count_nl (b ++ [nl])). split; assumption.
  - (* trailing comment *)
    destruct HX as (lay & next & -> & Hl & Hnx). destruct Hb as [Hb Hn].
    assert (HT : (b ++ "#" :: body ++ [nl]) ++ lay ++ next = b ++ "#" :: body ++ nl :: lay ++ next).
    { rewrite <- app_assoc. cbn [app]. rewrite <- app_assoc. reflexivity. }
    rewrite HT in *.
    destruct (caw_trailing_comment F b body (lay ++ next) line last a acc lead Hb Hn Hpl Hd
                (layout_unq lay Hl next Hnx (S line)) HF) as (p & H1 & H2).
    exists p, line, (S line). split; assumption.
  - (* nothing: a closing brace or the end of the input follows *)
    destruct F as [|F]; [lia|]. destruct Hb as [Hb Hn].
    destruct HX as [->|(tl & ->)].
    + exists [], line, line. split; [|reflexivity].
      apply caw_stop_end. rewrite app_nil_r. apply nw_all_blank; exact Hb.
    + exists (b ++ "}" :: tl), line, line. split.
      * cbn [caw]. rewrite (nw_skip_blanks s1 b _ line Hb), Hn, Nat.add_0_r. reflexivity.
      * rewrite (nw_skip_blanks s0 b _ line Hb), Hn, Nat.add_0_r. reflexivity.
Qed.

(* ====================================================================================== *)
(* 6. one definition                                                                         *)
(* ====================================================================================== *)

Lemma blank_tailok0 : forall b c tl, blank b -> mem c (single s0) = true -> tailok s0 (b ++ c :: tl) = true.
Proof.
  intros [|d b] c tl [Hb _] Hc; cbn [app tailok].
  - rewrite Hc. apply orb_true_r.
  - cbn [forallb] in Hb. apply andb_prop in Hb as [Hd _]. rewrite Hd. reflexivity.
Qed.

(* a definition header "[!]name", blanks, "=" *)
Lemma cobj_def_head : forall o f dis n b1 r5 line nid stop start prev active acc,
  is_ident n = true -> eqs n include_w = false -> blank b1 ->
  cobj o (S f) (bang dis ++ n ++ b1 ++ "=" :: r5) line nid stop start prev active acc
  = do (ws, r6, l6) <- caw (S (length r5)) r5 line false (mkword n QN line) [] (mkword n QN line) ;
    if name_reserved_def n then E "Reserved" n line else
    if prefix_reserved n then E "Reserved" n 0 else
    cobj o f r6 l6 (S nid) stop start line
         (Some (adopt (Def (mkhdr n dis 0 false nid line) ws [])))
         (flushed active acc).
Proof.
  intros o f dis n b1 r5 line nid stop start prev active acc Hid Hinc Hb1.
  pose proof (nw_s0_lead [] dis n (b1 ++ "=" :: r5) line blank_nil Hid (blank_tailok0 b1 "=" r5 Hb1 eq_refl)) as Hnw.
  cbn [app] in Hnw.
  destruct (lead_tests dis n Hid) as (Hintro & Hrb & Hlb & Hbang & Hdot).
  destruct Hb1 as [Hb Hn].
  assert (Hpop : pop s0 (b1 ++ "=" :: r5) line = Ok (mkword ["="] QN line, r5, line)).
  { unfold pop. rewrite (nw_skip_blanks s0 b1 _ line Hb), Hn, Nat.add_0_r. reflexivity. }
  assert (Hpopu : pop_unq s0 (b1 ++ "=" :: r5) line = Ok (mkword ["="] QN line, r5, line)).
  { unfold pop_unq. rewrite Hpop. reflexivity. }
  cbn [cobj]. rewrite Hnw.
  cbn [isq wq wv wline]. rewrite Hintro, Hrb, Hlb, Hbang. cbn [andb].
  rewrite andb_false_r. rewrite Hpop. cbn [bind isq wq wv negb].
  change (eqs ["="] ["{"] || prefixb ["."] ["="] || prefixb ["!"; "."] ["="]) with false.
  cbn [andb]. rewrite Hdot, Hid, Hinc. cbn [negb]. rewrite Hpopu. cbn [bind].
  unfold expect_eq. cbn [wv]. change (eqs ["="] ["="]) with true. cbn [bind].
  reflexivity.
Qed.

(* header fields of an object as it is WRITTEN: an identifier, possibly dotted ("a.b.x"), that the
   parser accepts (not reserved, not "include"); is_template 0, no merge_names.  The object the
   parser BUILDS for a written object x is [adopt x]: x itself for a dot-free name, the chain of
   single-child scopes a { b { x } } (merge_names set below the first) for a dotted one. *)
Definition dname_ok (isdef:bool) (n:str) : bool :=
  is_ident n && negb (prefix_reserved n)
  && (if isdef then negb (eqs n include_w) && negb (name_reserved_def n) else negb (name_reserved_scp n)).
Definition dhdr_ok (isdef:bool) (h:hdr) : bool := dname_ok isdef (oname h) && (otmpl h =? 0)%Z && negb (omerge h).

Lemma dhdr_ok_facts : forall isdef h, dhdr_ok isdef h = true ->
  is_ident (oname h) = true /\ prefix_reserved (oname h) = false /\ otmpl h = 0%Z /\ omerge h = false
  /\ (if isdef then eqs (oname h) include_w = false /\ name_reserved_def (oname h) = false
      else name_reserved_scp (oname h) = false).
Proof.
  intros isdef h H. unfold dhdr_ok, dname_ok in H.
  apply andb_prop in H as [H H5]. apply andb_prop in H as [H H4]. apply andb_prop in H as [H H3].
  apply andb_prop in H as [H1 H2]. apply negb_true_iff in H2, H5. apply Z.eqb_eq in H4.
  repeat split; try assumption.
  destruct isdef; [apply andb_prop in H3 as [Ha Hb]; apply negb_true_iff in Ha, Hb; split; assumption
                  |apply negb_true_iff in H3; exact H3].
Qed.
Lemma hdr_ok_dhdr : forall isdef h, hdr_ok h = true -> dhdr_ok isdef h = true.
Proof.
  intros isdef h H. destruct (hdr_ok_facts h H) as (Hn & Ht & Hm).
  destruct (name_ok_facts _ Hn) as (Hid & Hinc & _ & Hrd & Hrs & Hpre).
  unfold dhdr_ok, dname_ok. rewrite Hid, Hpre, Ht, Hm. destruct isdef; [rewrite Hinc, Hrd|rewrite Hrs]; reflexivity.
Qed.
Lemma hdr_ok_adopt : forall x, hdr_ok (ohdr x) = true -> adopt x = x.
Proof.
  intros x H. apply adopt_nodot. destruct (hdr_ok_facts _ H) as (Hn & _). apply name_ok_facts in Hn. apply Hn.
Qed.

(* erasure commutes with scope.adopt *)
Lemma erase_all_wrap : forall comps first x,
  erase_all (wrap_dotted first comps x) = wrap_dotted first comps (erase_all x).
Proof.
  induction comps as [|c rest IH]; intros first x; [reflexivity|].
  destruct rest as [|c2 rest].
  - cbn [wrap_dotted]. destruct first; [reflexivity|]. destruct x; reflexivity.
  - change (wrap_dotted first (c :: c2 :: rest) x)
      with (Scp (mkhdr c false 0 (negb first) (opid (ohdr x)) 0) [wrap_dotted false (c2 :: rest) x] []).
    change (wrap_dotted first (c :: c2 :: rest) (erase_all x))
      with (Scp (mkhdr c false 0 (negb first) (opid (ohdr (erase_all x))) 0) [wrap_dotted false (c2 :: rest) (erase_all x)] []).
    cbn [erase_all map]. rewrite IH. destruct x; reflexivity.
Qed.
Lemma erase_all_adopt : forall x, erase_all (adopt x) = adopt (erase_all x).
Proof.
  intros x. unfold adopt. rewrite erase_all_wrap.
  replace (oname (ohdr (erase_all x))) with (oname (ohdr x)) by (destruct x; reflexivity). reflexivity.
Qed.
Lemma erase_hdr_written : forall h nid line, otmpl h = 0%Z -> omerge h = false ->
  erase_hdr (mkhdr (oname h) (odis h) 0 false nid line) = erase_hdr h.
Proof. intros h nid line Ht Hm. unfold erase_hdr. cbn [oname odis otmpl omerge]. rewrite Ht, Hm. reflexivity. Qed.

(* "[!]name", blanks, "=", blanks, first word, further words, terminator *)
Inductive RendersDef : obj -> term -> str -> Prop :=
  | rd : forall h w ws a k b1 b2 wtxt ttxt,
      dhdr_ok true h = true -> words_ok (w :: ws) = true -> blank b1 -> blank b2 ->
      RendersWords ws wtxt -> RendersTerm k ttxt ->
      RendersDef (Def h (w :: ws) a) k
        (bang (odis h) ++ oname h ++ b1 ++ "=" :: b2 ++ str_of_word w ++ wtxt ++ ttxt).

Lemma term_tail_ok : forall k t X, RendersTerm k t -> FollowOK k X -> tail_ok (t ++ X) = true.
Proof.
  intros k t X Ht HX.
  assert (Hgen : forall b c tl, blank b -> isspace c || mem c vsingle = true -> tail_ok (b ++ c :: tl) = true).
  { intros [|d b] c tl [Hb _] Hc; cbn [app tail_ok]; [exact Hc|].
    cbn [forallb] in Hb. apply andb_prop in Hb as [Hd _]. rewrite Hd. reflexivity. }
  destruct Ht as [b Hb|b Hb|b body Hb Hne Hpl Hd|b Hb].
  - rewrite <- app_assoc. apply Hgen; [exact Hb|reflexivity].
  - rewrite <- app_assoc. apply Hgen; [exact Hb|reflexivity].
  - rewrite <- app_assoc. apply blank_tail_ok; assumption.
  - destruct HX as [->|(tl & ->)].
    + rewrite app_nil_r. destruct b as [|d b]; [reflexivity|]. destruct Hb as [Hb _].
      cbn [forallb] in Hb. apply andb_prop in Hb as [Hd _]. cbn [tail_ok]. rewrite Hd. reflexivity.
    + apply Hgen; [exact Hb|reflexivity].
Qed.

Lemma cobj_def_render : forall d k dtext X, RendersDef d k dtext -> FollowOK k X ->
  forall line, exists ws' s' l' l2,
    (forall nid, erase_all (adopt (Def (mkhdr (oname (ohdr d)) (odis (ohdr d)) 0 false nid line) ws' []))
                 = erase_all (adopt d))
    /\ nw s0 false s' l' = nw s0 false X l2
    /\ length s' <= length (dtext ++ X)
    /\ forall o f nid stop start prev active acc,
       cobj o (S f) (dtext ++ X) line nid stop start prev active acc
       = cobj o f s' l' (S nid) stop start line
           (Some (adopt (Def (mkhdr (oname (ohdr d)) (odis (ohdr d)) 0 false nid line) ws' []))) (flushed active acc).
Proof.
  intros d k dtext X Hd HX line.
  destruct Hd as [h w ws a k b1 b2 wtxt ttxt Hh Hwok Hb1 Hb2 Hws Ht].
  destruct (dhdr_ok_facts true h Hh) as (Hid & Hpre & Htm & Hmg & Hinc & Hres).
  set (n := oname h) in *. set (dis := odis h) in *.
  set (lead := mkword n QN line).
  unfold words_ok in Hwok. apply andb_prop in Hwok as [Hok Hlines].
  cbn [forallb] in Hok. apply andb_prop in Hok as [Hw Hok].
  cbn [lines_ok] in Hlines. apply andb_prop in Hlines as [_ Hlines].
  set (r5 := b2 ++ str_of_word w ++ wtxt ++ ttxt ++ X).
  assert (HT : (bang dis ++ n ++ b1 ++ "=" :: b2 ++ str_of_word w ++ wtxt ++ ttxt) ++ X
               = bang dis ++ n ++ b1 ++ "=" :: r5).
  { unfold r5. rewrite <- !app_assoc. cbn [app]. rewrite <- !app_assoc. reflexivity. }
  pose proof (term_tail_ok k ttxt X Ht HX) as Htail.
  (* the words *)
  set (F := S (S (length r5))).
  assert (Hstep1 : caw (S (length ws + F)) r5 line false lead [] lead
                   = caw (length ws + F) (wtxt ++ ttxt ++ X) (line + count_nl (wv w)) false (setl w line) [setl w line] lead).
  { unfold r5. apply (caw_word_step _ b2 w (wtxt ++ ttxt ++ X) line lead [] lead 0 Hb2 Hw);
      [apply (rw_tail_ok ws); assumption|apply orb_true_r|apply ident_weq_bs; exact Hid|cbn [wline lead]; lia]. }
  destruct (caw_words ws wtxt Hws Hok F (ttxt ++ X) (line + count_nl (wv w)) (setl w line) [setl w line] lead
              (count_nl (wv w)) Hlines (word_ok_weq_bs w line Hw) eq_refl Htail)
    as (last' & prevnl' & Hl1 & Hl2 & Hstep2).
  set (L := endline (line + count_nl (wv w)) ws) in *.
  set (acc' := rev (reline (line + count_nl (wv w)) ws) ++ [setl w line]) in *.
  assert (Hacc : exists a0 acc0, acc' = a0 :: acc0).
  { destruct acc' as [|a0 acc0] eqn:E; [|eauto].
    apply (f_equal (@length word)) in E. unfold acc' in E. rewrite app_length in E. cbn [length] in E. lia. }
  destruct Hacc as (a0 & acc0 & Hacc).
  destruct (caw_term k ttxt X Ht HX F L last' a0 acc0 lead prevnl' Hl1 Hl2) as (s' & l' & l2 & Hstep3 & Hpos).
  { unfold F, r5. rewrite !app_length. lia. }
  assert (Hcaw : caw (S (length ws + F)) r5 line false lead [] lead = Ok (rev acc', s', l')).
  { rewrite Hstep1, Hstep2. fold acc'. rewrite Hacc. exact Hstep3. }
  assert (Hcaw' : caw (S (length r5)) r5 line false lead [] lead = Ok (rev acc', s', l')).
  { rewrite <- Hcaw. apply caw_fuel_enough; unfold F; lia. }
  exists (rev acc'), s', l', l2. split; [|split; [exact Hpos|split]].
  - intros nid. rewrite !erase_all_adopt. f_equal.
    cbn [ohdr erase_all]. unfold n, dis. rewrite (erase_hdr_written h nid line Htm Hmg). f_equal.
    unfold acc'. rewrite rev_app_distr, rev_involutive. cbn [rev app map].
    change erase_word with noline. rewrite reline_noline. reflexivity.
  - apply caw_len in Hcaw'. rewrite HT. rewrite !app_length. cbn [length]. lia.
  - intros o f nid stop start prev active acc. cbn [ohdr]. fold n dis. rewrite HT.
    rewrite (cobj_def_head o f dis n b1 r5 line nid stop start prev active acc Hid Hinc Hb1).
    fold lead. rewrite Hcaw'. cbn [bind]. rewrite Hres, Hpre. reflexivity.
Qed.

(* ====================================================================================== *)
(* 7. the layout grammar                                                                     *)
(* ====================================================================================== *)

(* [safe] = the text stands right after a newline-terminated value *)
Definition lay_ok (safe:bool) (lay:str) : Prop := if safe then slayout lay else layout lay.
Definition after (k:term) : bool := match k with KNl => true | _ => false end.

Inductive RendersL : bool -> list obj -> str -> Prop :=
  | rl_nil : forall safe lay, lay_ok safe lay -> RendersL safe [] lay
  | rl_def : forall safe lay d k dtext t ttext,
      lay_ok safe lay -> RendersDef d k dtext -> k <> KEnd -> RendersL (after k) t ttext ->
      RendersL safe (adopt d :: t) (lay ++ dtext ++ ttext)
  | rl_def_end : forall safe lay d dtext,
      lay_ok safe lay -> RendersDef d KEnd dtext -> RendersL safe [adopt d] (lay ++ dtext)
  | rl_scope : forall safe lay h kids a sep ktext t ttext,
      lay_ok safe lay -> dhdr_ok false h = true -> forallb isspace sep = true ->
      RendersL false kids ktext -> RendersL false t ttext ->
      RendersL safe (adopt (Scp h kids a) :: t)
        (lay ++ bang (odis h) ++ oname h ++ sep ++ "{" :: ktext ++ "}" :: ttext).

Definition Renders (t:list obj) (s:str) : Prop := RendersL false t s.

Lemma lay_ok_layout : forall safe lay, lay_ok safe lay -> layout lay.
Proof. intros [] lay H; [apply slayout_layout|]; exact H. Qed.

Lemma name_starts : forall dis n tl, is_ident n = true -> StartsObj (bang dis ++ n ++ tl).
Proof.
  intros dis n tl Hid. destruct (ident_shape n Hid) as (c & n' & -> & Hc & _). right.
  destruct dis; cbn [bang app].
  - exists "!", (c :: n' ++ tl). split; reflexivity.
  - exists c, (n' ++ tl). split; [reflexivity|]. unfold startc. rewrite Hc. reflexivity.
Qed.

Lemma hdr_ok_ident : forall isdef h, dhdr_ok isdef h = true -> is_ident (oname h) = true.
Proof. intros isdef h H. apply dhdr_ok_facts in H. apply H. Qed.

Lemma renders_head : forall safe t text rest, RendersL safe t text -> Close rest ->
  exists lay next, text ++ rest = lay ++ next /\ lay_ok safe lay /\ StartsObj next.
Proof.
  intros safe t text rest H Hc.
  destruct H as [safe lay Hl|safe lay d k dtext t ttext Hl Hd _ _|safe lay d dtext Hl Hd
                |safe lay h kids a sep ktext t ttext Hl Hh _ _ _].
  - exists lay, rest. split; [reflexivity|]. split; [exact Hl|apply close_starts; exact Hc].
  - exists lay, (dtext ++ ttext ++ rest). split; [rewrite <- !app_assoc; reflexivity|]. split; [exact Hl|].
    destruct Hd as [h w ws a k b1 b2 wtxt ttxt Hh _ _ _ _ _]. rewrite <- !app_assoc.
    apply name_starts, (hdr_ok_ident true); exact Hh.
  - exists lay, (dtext ++ rest). split; [rewrite <- !app_assoc; reflexivity|]. split; [exact Hl|].
    destruct Hd as [h w ws a k b1 b2 wtxt ttxt Hh _ _ _ _ _]. rewrite <- !app_assoc.
    apply name_starts, (hdr_ok_ident true); exact Hh.
  - exists lay, (bang (odis h) ++ oname h ++ sep ++ "{" :: ktext ++ "}" :: ttext ++ rest).
    split; [|split; [exact Hl|apply name_starts, (hdr_ok_ident false); exact Hh]].
    rewrite <- !app_assoc. cbn [app]. rewrite <- !app_assoc. reflexivity.
Qed.

Lemma follow_after : forall k t ttext rest, k <> KEnd -> RendersL (after k) t ttext -> Close rest ->
  FollowOK k (ttext ++ rest).
Proof.
  intros k t ttext rest Hk H Hc. destruct k; cbn [FollowOK after] in *; try exact I; try congruence.
  - destruct (renders_head true t ttext rest H Hc) as (lay & next & H1 & H2 & H3). exists lay, next. auto.
  - destruct (renders_head false t ttext rest H Hc) as (lay & next & H1 & H2 & H3). exists lay, next. auto.
Qed.

(* ====================================================================================== *)
(* 8. a scope header                                                                         *)
(* ====================================================================================== *)

Lemma space_tailok0 : forall b c tl, forallb isspace b = true -> mem c (single s0) = true -> tailok s0 (b ++ c :: tl) = true.
Proof.
  intros [|d b] c tl Hb Hc; cbn [app tailok].
  - rewrite Hc. apply orb_true_r.
  - cbn [forallb] in Hb. apply andb_prop in Hb as [Hd _]. rewrite Hd. reflexivity.
Qed.

Lemma cobj_scope_head : forall o f dis n sep body line nid stop start prev active acc kids r4 l4 nid4,
  is_ident n = true -> name_reserved_scp n = false -> prefix_reserved n = false -> forallb isspace sep = true ->
  cobj o f body (line + count_nl sep) (S nid) true (Some (mkword ["{"] QN (line + count_nl sep))) 0 None []
    = Ok (kids, r4, l4, nid4) ->
  cobj o (S f) (bang dis ++ n ++ sep ++ "{" :: body) line nid stop start prev active acc
  = cobj o f r4 l4 nid4 stop start line None
         (adopt (Scp (mkhdr n dis 0 false nid line) kids []) :: flushed active acc).
Proof.
  intros o f dis n sep body line nid stop start prev active acc kids r4 l4 nid4 Hid Hres Hpre Hsep Hin.
  pose proof (nw_s0_lead [] dis n (sep ++ "{" :: body) line blank_nil Hid (space_tailok0 sep "{" body Hsep eq_refl)) as Hnw.
  cbn [app] in Hnw.
  destruct (lead_tests dis n Hid) as (Hintro & Hrb & Hlb & Hbang & Hdot).
  set (l0 := line + count_nl sep) in *.
  assert (Hpop : pop s0 (sep ++ "{" :: body) line = Ok (mkword ["{"] QN l0, body, l0)).
  { unfold pop. rewrite (nw_skip_blanks s0 sep _ line Hsep). reflexivity. }
  cbn [cobj]. rewrite Hnw.
  cbn [isq wq wv wline]. rewrite Hintro, Hrb, Hlb, Hbang. cbn [andb].
  rewrite andb_false_r. rewrite Hpop.
  cbn [bind isq wq wv negb].
  change (eqs ["{"] ["{"]) with true. cbn [orb andb].
  rewrite Hid, Hres. cbn [negb].
  rewrite sattrs_brace by reflexivity. cbn [bind].
  rewrite Hin. cbn [bind]. rewrite Hpre.
  reflexivity.
Qed.

(* ====================================================================================== *)
(* 9. soundness, in any state of collect_objects                                             *)
(* ====================================================================================== *)

Definition SoundL (t:list obj) (text:str) : Prop :=
  forall orc rest f line nid stop start prev active acc,
  Close rest -> length (text ++ rest) < f ->
  exists l' line' nid' prev' active' acc',
    flushed active' acc' = rev l' ++ flushed active acc
    /\ map erase_all l' = map erase_all t
    /\ forall g, length rest < g ->
       eqres stop (cobj orc f (text ++ rest) line nid stop start prev active acc)
                  (cobj orc g rest line' nid' stop start prev' active' acc').

Ltac lens_app := repeat (progress (rewrite ?app_length in *; cbn [length] in * )).

Theorem renders_sound_gen : forall safe t text, RendersL safe t text -> SoundL t text.
Proof.
  intros safe t text H.
  induction H as [safe lay Hl|safe lay d k dtext t ttext Hl Hd Hk Ht IH|safe lay d dtext Hl Hd
                 |safe lay h kids a sep ktext t ttext Hl Hh Hsep Hks IHk Ht IHt];
    intros orc rest f line nid stop start prev active acc Hc Hf.
  - (* nothing but layout *)
    exists [], (line + count_nl lay), nid, prev, active, acc. split; [reflexivity|]. split; [reflexivity|].
    intros g Hg. apply cobj_pos_eq; [apply layout_nw, (lay_ok_layout safe); exact Hl|exact Hf|exact Hg].
  - (* a definition, then more *)
    set (X := ttext ++ rest).
    assert (HT : (lay ++ dtext ++ ttext) ++ rest = lay ++ dtext ++ X) by (unfold X; rewrite <- !app_assoc; reflexivity).
    rewrite HT in *.
    set (line1 := line + count_nl lay).
    destruct (cobj_def_render d k dtext X Hd (follow_after k t ttext rest Hk Ht Hc) line1)
      as (ws' & s' & l1 & l2 & Her & Hpos & Hlen & Hcd).
    set (d' := adopt (Def (mkhdr (oname (ohdr d)) (odis (ohdr d)) 0 false nid line1) ws' [])).
    destruct (IH orc rest (S (length X)) l2 (S nid) stop start line1 (Some d') (flushed active acc) Hc
                (Nat.lt_succ_diag_r _))
      as (l' & line' & nid' & prev' & active' & acc' & Hfl & Hera & Hcc).
    exists (d' :: l'), line', nid', prev', active', acc'. split; [|split].
    + rewrite Hfl. cbn [flushed rev]. rewrite <- app_assoc. reflexivity.
    + cbn [map]. unfold d'. rewrite Her, Hera. reflexivity.
    + intros g Hg.
      eapply eqres_trans.
      { apply (cobj_pos_eq orc f (S (S (length (dtext ++ X)))) (lay ++ dtext ++ X) line (dtext ++ X) line1);
          [apply layout_nw, (lay_ok_layout safe); exact Hl|exact Hf|lia]. }
      rewrite Hcd. fold d'.
      eapply eqres_trans.
      { apply (cobj_pos_eq orc (S (length (dtext ++ X))) (S (length X)) s' l1 X l2); [exact Hpos|lia|lia]. }
      apply Hcc; exact Hg.
  - (* the last definition, ended by a closing brace or the end of the input *)
    assert (HT : (lay ++ dtext) ++ rest = lay ++ dtext ++ rest) by (rewrite <- !app_assoc; reflexivity).
    rewrite HT in *.
    set (line1 := line + count_nl lay).
    destruct (cobj_def_render d KEnd dtext rest Hd Hc line1)
      as (ws' & s' & l1 & l2 & Her & Hpos & Hlen & Hcd).
    set (d' := adopt (Def (mkhdr (oname (ohdr d)) (odis (ohdr d)) 0 false nid line1) ws' [])).
    exists [d'], l2, (S nid), line1, (Some d'), (flushed active acc). split; [reflexivity|]. split.
    + cbn [map]. unfold d'. rewrite Her. reflexivity.
    + intros g Hg.
      eapply eqres_trans.
      { apply (cobj_pos_eq orc f (S (S (length (dtext ++ rest)))) (lay ++ dtext ++ rest) line (dtext ++ rest) line1);
          [apply layout_nw, (lay_ok_layout safe); exact Hl|exact Hf|lia]. }
      rewrite Hcd. fold d'.
      apply cobj_pos_eq; [exact Hpos|lia|exact Hg].
  - (* a scope, then more *)
    destruct (dhdr_ok_facts false h Hh) as (Hid & Hpre & Htm & Hmg & Hres).
    set (n := oname h) in *. set (dis := odis h) in *.
    set (line1 := line + count_nl lay).
    set (l0 := line1 + count_nl sep).
    set (bw := mkword ["{"] QN l0).
    set (Y := ttext ++ rest).
    set (restk := "}" :: Y).
    set (body := ktext ++ restk).
    set (X0 := bang dis ++ n ++ sep ++ "{" :: body).
    assert (HT : (lay ++ bang dis ++ n ++ sep ++ "{" :: ktext ++ "}" :: ttext) ++ rest = lay ++ X0).
    { unfold X0, body, restk, Y. repeat (progress (rewrite <- ?app_assoc; cbn [app])). reflexivity. }
    rewrite HT in *.
    set (F := S (length X0)).
    assert (Hck : Close restk) by (right; exists Y; reflexivity).
    assert (HbF : length body < F).
    { unfold F, X0. lens_app. lia. }
    assert (HYF : length Y < F).
    { unfold F, X0, body, restk. lens_app. lia. }
    destruct (IHk orc restk F l0 (S nid) true (Some bw) 0 None [] Hck HbF)
      as (ks' & lk & nk & pk & ak & acck & Hflk & Herk & Hck2).
    cbn [flushed] in Hflk. rewrite app_nil_r in Hflk.
    assert (Hin : cobj orc F body l0 (S nid) true (Some bw) 0 None [] = Ok (ks', Y, lk, nk)).
    { specialize (Hck2 (S (length restk)) (Nat.lt_succ_diag_r _)). cbn [eqres] in Hck2. fold body in Hck2.
      rewrite Hck2. unfold restk.
      pose proof (cobj_close_brace orc (length ("}" :: Y)) [] Y lk nk (Some bw) pk ak acck blank_nil) as Hcb.
      cbn [app] in Hcb. rewrite Hcb, Hflk, rev_involutive. reflexivity. }
    set (sc := adopt (Scp (mkhdr n dis 0 false nid line1) ks' [])).
    destruct (IHt orc rest F lk nk stop start line1 None (sc :: flushed active acc) Hc HYF)
      as (l' & line' & nid' & prev' & active' & acc' & Hfl & Hera & Hcc).
    exists (sc :: l'), line', nid', prev', active', acc'. split; [|split].
    + rewrite Hfl. cbn [flushed rev]. rewrite <- app_assoc. reflexivity.
    + cbn [map]. unfold sc. rewrite !erase_all_adopt. cbn [erase_all]. unfold n, dis.
      rewrite (erase_hdr_written h nid line1 Htm Hmg), Herk, Hera. reflexivity.
    + intros g Hg.
      eapply eqres_trans.
      { apply (cobj_pos_eq orc f (S F) (lay ++ X0) line X0 line1);
          [apply layout_nw, (lay_ok_layout safe); exact Hl|exact Hf|unfold F; lia]. }
      unfold X0 at 1.
      rewrite (cobj_scope_head orc F dis n sep body line1 nid stop start prev active acc ks' Y lk nk Hid Hres Hpre Hsep Hin).
      fold sc. apply Hcc; exact Hg.
Qed.

(* ====================================================================================== *)
(* 10. the theorems                                                                          *)
(* ====================================================================================== *)

(* every rendering of t parses to t: same names, nesting, order, disabled flags, word texts and
   quote styles (ids, line numbers and attributes erased on both sides; the parsed tree's attribute
   lists are in fact empty and its template / merge flags clear) *)
Theorem renders_sound : forall o t s, Renders t s ->
  exists l, parse o s = Ok l /\ map erase_all l = map erase_all t.
Proof.
  intros o t s H.
  destruct (renders_sound_gen false t s H o [] (S (S (length s))) 1 1 false None 0 None [])
    as (l' & line' & nid' & prev' & active' & acc' & Hfl & Her & Hc).
  { left; reflexivity. }
  { rewrite app_nil_r. lia. }
  exists l'. split; [|exact Her].
  specialize (Hc 1 (Nat.lt_succ_diag_r _)). cbn [eqres] in Hc. rewrite app_nil_r in Hc.
  rewrite parse_noline, Hc. cbn [cobj nw cobj_noline].
  change (match active' with Some d => d :: acc' | None => acc' end) with (flushed active' acc').
  rewrite Hfl. cbn [flushed]. rewrite app_nil_r, rev_involutive. reflexivity.
Qed.

(* the property for the layout grammar: however one abstract tree is laid out, the parser builds the
   same scopes, definitions and words *)
Theorem renderings_agree : forall o t s1 s2, Renders t s1 -> Renders t s2 ->
  exists l1 l2, parse o s1 = Ok l1 /\ parse o s2 = Ok l2 /\ map erase_all l1 = map erase_all l2.
Proof.
  intros o t s1 s2 H1 H2.
  destruct (renders_sound o t s1 H1) as (l1 & Hp1 & He1).
  destruct (renders_sound o t s2 H2) as (l2 & Hp2 & He2).
  exists l1, l2. split; [exact Hp1|]. split; [exact Hp2|]. rewrite He1, He2. reflexivity.
Qed.

Print Assumptions renders_sound.
Print Assumptions renderings_agree.

(* ====================================================================================== *)
(* 11. the grammar as a generator: concrete syntax trees with explicit layout choices        *)
(* ====================================================================================== *)
(* A [cst] is an abstract tree decorated with every layout choice the grammar leaves open; [render]
   spells it out, [tree_of] forgets the choices, and the boolean [cst_ok] decides the side
   conditions.  [cst_renders]: every valid cst is a rendering of its tree - so [Renders] is
   inhabited by construction, and two csts over the same tree give two texts that parse alike. *)

Fixpoint upto_nl (s:str) : str :=
  match s with [] => [] | c :: r => if Ascii.eqb c nl then [] else c :: upto_nl r end.
Fixpoint after_nl (s:str) : option str :=
  match s with [] => None | c :: r => if Ascii.eqb c nl then Some r else after_nl r end.

Lemma split_nl : forall s r, after_nl s = Some r ->
  s = upto_nl s ++ nl :: r /\ mem nl (upto_nl s) = false /\ length r < length s.
Proof.
  induction s as [|c s IH]; intros r H; [discriminate H|]. cbn [after_nl upto_nl] in *.
  destruct (Ascii.eqb c nl) eqn:E.
  - apply Ascii.eqb_eq in E. subst c. inversion H; subst. repeat split. cbn [length]. lia.
  - destruct (IH r H) as (H1 & H2 & H3). split; [cbn [app]; f_equal; exact H1|]. split.
    + cbn [mem]. rewrite Ascii.eqb_sym, E. exact H2.
    + cbn [length]. lia.
Qed.

Fixpoint layb (fuel:nat) (safe:bool) (s:str) : bool :=
  match fuel with 0 => false | S f =>
  match s with
  | [] => true
  | c :: r =>
      if isspace c then layb f safe r
      else if Ascii.eqb c "#" then
        match after_nl r with
        | Some p => let body := upto_nl r in
                    negb (prefixb (s_ "phil") body) && (negb safe || plainb body || negb (delim s1 body))
                    && layb f false p
        | None => false
        end
      else false
  end end.
Definition layoutb (safe:bool) (s:str) : bool := layb (S (length s)) safe s.

Lemma layb_sound : forall f safe s, layb f safe s = true -> lay_ok safe s.
Proof.
  induction f as [|f IH]; intros safe s H; [discriminate H|]. cbn [layb] in H.
  destruct s as [|c r]; [destruct safe; constructor|].
  destruct (isspace c) eqn:Es.
  - apply IH in H. destruct safe; cbn [lay_ok] in *; constructor; assumption.
  - destruct (Ascii.eqb c "#") eqn:Eh; [|discriminate H]. apply Ascii.eqb_eq in Eh. subst c.
    destruct (after_nl r) as [p|] eqn:Ea; [|discriminate H].
    destruct (split_nl r p Ea) as (Hr & Hm & _).
    apply andb_prop in H as [H H3]. apply andb_prop in H as [H1 H2]. apply negb_true_iff in H1.
    apply IH in H3. cbn [lay_ok] in H3. rewrite Hr.
    destruct safe; cbn [lay_ok].
    + apply sl_comment; try assumption. cbn [negb orb] in H2.
      apply orb_prop in H2 as [H2|H2]; [left; exact H2|right; apply negb_true_iff; exact H2].
    + apply layout_comment; assumption.
Qed.
Lemma layoutb_sound : forall safe s, layoutb safe s = true -> lay_ok safe s.
Proof. intros safe s. apply layb_sound. Qed.

Definition blankb (b:str) : bool := forallb isspace b && (count_nl b =? 0)%nat.
Lemma blankb_sound : forall b, blankb b = true -> blank b.
Proof. intros b H. apply andb_prop in H as [H1 H2]. apply Nat.eqb_eq in H2. split; assumption. Qed.

Inductive tk := TkSemi (b:str) | TkNl (b:str) | TkComment (b body:str) | TkEnd (b:str).
Definition tk_kind (t:tk) : term :=
  match t with TkSemi _ => KSemi | TkNl _ => KNl | TkComment _ _ => KComment | TkEnd _ => KEnd end.
Definition render_tk (t:tk) : str :=
  match t with
  | TkSemi b => b ++ [";"] | TkNl b => b ++ [nl]
  | TkComment b body => b ++ "#" :: body ++ [nl] | TkEnd b => b end.
Definition tk_ok (t:tk) : bool :=
  match t with
  | TkSemi b | TkNl b | TkEnd b => blankb b
  | TkComment b body => blankb b && negb (is_nil b) && plainb body && delim s1 (body ++ [nl])
  end.
Definition is_endtk (t:tk) : bool := match t with TkEnd _ => true | _ => false end.

Lemma tk_sound : forall t, tk_ok t = true -> RendersTerm (tk_kind t) (render_tk t).
Proof.
  intros [b|b|b body|b] H; cbn [tk_ok tk_kind render_tk] in *.
  - constructor. apply blankb_sound; exact H.
  - constructor. apply blankb_sound; exact H.
  - apply andb_prop in H as [H H4]. apply andb_prop in H as [H H3]. apply andb_prop in H as [H1 H2].
    constructor; try assumption; [apply blankb_sound; exact H1|]. destruct b; [discriminate H2|discriminate].
  - constructor. apply blankb_sound; exact H.
Qed.

Inductive cst :=
  | CDef (lay:str) (h:hdr) (b1 b2:str) (w:word) (ws:list (str * word)) (t:tk) (a:attrs)
  | CScp (lay:str) (h:hdr) (sep:str) (kids:list cst) (klay:str) (a:attrs).

Section cst_ind2.
  Variable P : cst -> Prop.
  Hypothesis Hdef : forall lay h b1 b2 w ws t a, P (CDef lay h b1 b2 w ws t a).
  Hypothesis Hscp : forall lay h sep kids klay a, Forall P kids -> P (CScp lay h sep kids klay a).
  Fixpoint cst_ind2 (c:cst) : P c :=
    match c with
    | CDef lay h b1 b2 w ws t a => Hdef lay h b1 b2 w ws t a
    | CScp lay h sep kids klay a =>
        Hscp lay h sep kids klay a
          ((fix go (l:list cst) : Forall P l :=
              match l with [] => Forall_nil P | k :: r => Forall_cons k (cst_ind2 k) (go r) end) kids)
    end.
End cst_ind2.

Fixpoint tree_of (c:cst) : obj :=
  match c with
  | CDef _ h _ _ w ws _ a => adopt (Def h (w :: map snd ws) a)
  | CScp _ h _ kids _ a => adopt (Scp h (map tree_of kids) a)
  end.
Definition words_txt (ws:list (str * word)) : str := flat_map (fun p => fst p ++ str_of_word (snd p)) ws.
Fixpoint render (c:cst) : str :=
  match c with
  | CDef lay h b1 b2 w ws t _ =>
      lay ++ bang (odis h) ++ oname h ++ b1 ++ "=" :: b2 ++ str_of_word w ++ words_txt ws ++ render_tk t
  | CScp lay h sep kids klay _ =>
      lay ++ bang (odis h) ++ oname h ++ sep ++ "{" :: flat_map render kids ++ klay ++ ["}"]
  end.
Definition nexts (c:cst) : bool := match c with CDef _ _ _ _ _ _ t _ => after (tk_kind t) | CScp _ _ _ _ _ _ => false end.

Section OKL.
  Variable ok1 : cst -> bool -> bool -> bool.
  Fixpoint oklg (l:list cst) (final:str) (safe:bool) : bool :=
    match l with
    | [] => layoutb safe final
    | k :: r => ok1 k safe (is_nil r && is_nil final) && oklg r final (nexts k)
    end.
End OKL.
(* [endok]: the item is the last of its list and nothing but the closing brace / the end follows *)
Fixpoint ok1 (c:cst) (safe endok:bool) : bool :=
  match c with
  | CDef lay h b1 b2 w ws t _ =>
      layoutb safe lay && dhdr_ok true h && words_ok (w :: map snd ws) && blankb b1 && blankb b2
      && forallb (fun p => blankb (fst p) && negb (is_nil (fst p))) ws && tk_ok t
      && (negb (is_endtk t) || endok)
  | CScp lay h sep kids klay _ =>
      layoutb safe lay && dhdr_ok false h && forallb isspace sep && oklg ok1 kids klay false
  end.
(* a document: the objects and the layout after the last one *)
Definition cst_ok (l:list cst) (final:str) : bool := oklg ok1 l final false.
Definition render_doc (l:list cst) (final:str) : str := flat_map render l ++ final.

Lemma words_txt_renders : forall ws,
  forallb (fun p => blankb (fst p) && negb (is_nil (fst p))) ws = true ->
  RendersWords (map snd ws) (words_txt ws).
Proof.
  induction ws as [|[sep w] ws IH]; intros H; [constructor|].
  cbn [forallb fst] in H. apply andb_prop in H as [H Hr]. apply andb_prop in H as [H1 H2].
  unfold words_txt. cbn [flat_map map fst snd]. rewrite <- app_assoc.
  constructor; [apply blankb_sound; exact H1|destruct sep; [discriminate H2|discriminate]|apply IH; exact Hr].
Qed.

Definition Pc (c:cst) : Prop := forall safe endok t ttext,
  ok1 c safe endok = true -> (endok = true -> t = [] /\ ttext = []) ->
  RendersL (nexts c) t ttext -> RendersL safe (tree_of c :: t) (render c ++ ttext).

Lemma oklg_sound : forall l, Forall Pc l -> forall final safe, oklg ok1 l final safe = true ->
  RendersL safe (map tree_of l) (flat_map render l ++ final).
Proof.
  intros l H; induction H as [|k r Hk Hr IH]; intros final safe Hok; cbn [oklg] in Hok.
  - cbn [map flat_map app]. constructor. apply layoutb_sound; exact Hok.
  - apply andb_prop in Hok as [H1 H2]. cbn [map flat_map]. rewrite <- app_assoc.
    apply (Hk safe (is_nil r && is_nil final)); [exact H1| |apply IH; exact H2].
    intros He. apply andb_prop in He as [E1 E2]. destruct r; [|discriminate E1]. destruct final; [|discriminate E2].
    split; reflexivity.
Qed.

Lemma Pc_all : forall c, Pc c.
Proof.
  intros c; induction c as [lay h b1 b2 w ws t a|lay h sep kids klay a IH] using cst_ind2;
    intros safe endok t0 ttext Hok Hend Ht; cbn [ok1] in Hok.
  - repeat match type of Hok with _ && _ = true => let H := fresh "H" in apply andb_prop in Hok as [Hok H] end.
    assert (Hd : RendersDef (Def h (w :: map snd ws) a) (tk_kind t)
                   (bang (odis h) ++ oname h ++ b1 ++ "=" :: b2 ++ str_of_word w ++ words_txt ws ++ render_tk t)).
    { constructor; try assumption; try (apply blankb_sound; assumption);
        [apply words_txt_renders; assumption|apply tk_sound; assumption]. }
    apply layoutb_sound in Hok.
    cbn [tree_of render nexts] in *.
    destruct (is_endtk t) eqn:Ee.
    + cbn [negb orb] in H. destruct (Hend H) as [-> ->]. rewrite app_nil_r.
      destruct t; try discriminate Ee. apply (rl_def_end safe lay (Def h (w :: map snd ws) a)); assumption.
    + set (dtext := bang (odis h) ++ oname h ++ b1 ++ "=" :: b2 ++ str_of_word w ++ words_txt ws ++ render_tk t) in *.
      replace ((lay ++ dtext) ++ ttext) with (lay ++ dtext ++ ttext) by (rewrite app_assoc; reflexivity).
      apply (rl_def safe lay (Def h (w :: map snd ws) a) (tk_kind t)); try assumption. destruct t; try discriminate Ee; discriminate.
  - repeat match type of Hok with _ && _ = true => let H := fresh "H" in apply andb_prop in Hok as [Hok H] end.
    apply layoutb_sound in Hok.
    pose proof (oklg_sound kids IH klay false H) as Hk.
    cbn [tree_of render nexts] in *.
    replace ((lay ++ bang (odis h) ++ oname h ++ sep ++ "{" :: flat_map render kids ++ klay ++ ["}"]) ++ ttext)
      with (lay ++ bang (odis h) ++ oname h ++ sep ++ "{" :: (flat_map render kids ++ klay) ++ "}" :: ttext).
    + apply rl_scope; assumption.
    + repeat (progress (rewrite <- ?app_assoc; cbn [app])). reflexivity.
Qed.

Theorem cst_renders : forall l final, cst_ok l final = true -> Renders (map tree_of l) (render_doc l final).
Proof.
  intros l final H. apply oklg_sound; [|exact H]. apply Forall_forall. intros c _. apply Pc_all.
Qed.

(* two decorations of one tree: the texts parse to the same tree *)
Corollary cst_agree : forall o l1 f1 l2 f2,
  cst_ok l1 f1 = true -> cst_ok l2 f2 = true -> map tree_of l1 = map tree_of l2 ->
  exists t1 t2, parse o (render_doc l1 f1) = Ok t1 /\ parse o (render_doc l2 f2) = Ok t2
                /\ map erase_all t1 = map erase_all t2 /\ map erase_all t1 = map erase_all (map tree_of l1).
Proof.
  intros o l1 f1 l2 f2 H1 H2 Ht.
  destruct (renders_sound o _ _ (cst_renders l1 f1 H1)) as (t1 & Hp1 & He1).
  destruct (renders_sound o _ _ (cst_renders l2 f2 H2)) as (t2 & Hp2 & He2).
  exists t1, t2. repeat split; try assumption. rewrite He1, He2, Ht. reflexivity.
Qed.
Print Assumptions cst_renders.
Print Assumptions cst_agree.

(* ====================================================================================== *)
(* 12. examples                                                                              *)
(* ====================================================================================== *)

Definition hT (n:string) (dis:bool) : hdr := mkhdr (s_ n) dis 0 false 0 0.
Definition W (v:string) (q:quote) : word := mkword (s_ v) q 0.

(* one abstract tree: a quoted word, a disabled definition, a nested scope *)
Definition ex_t : list obj :=
  [ Def (hT "title" false) [W "Hello world" Q2; W "v2" QN] [];
    Scp (hT "refine" false)
      [ Def (hT "cycles" true) [W "12" QN] [];
        Scp (hT "target" false) [ Def (hT "weight" false) [W "0.5" QN; W "a b" Q1] [] ] [];
        Def (hT "last" false) [W "x" QN] [] ] [];
    Def (hT "tail" false) [W "1" QN] [] ].

(* the printer's layout *)
Definition ex_c1 : list cst :=
  [ CDef [] (hT "title" false) (s_ " ") (s_ " ") (W "Hello world" Q2) [(s_ " ", W "v2" QN)] (TkNl []) [];
    CScp [] (hT "refine" false) (s_ " ")
      [ CDef (nl :: s_ "  ") (hT "cycles" true) (s_ " ") (s_ " ") (W "12" QN) [] (TkNl []) [];
        CScp (s_ "  ") (hT "target" false) (s_ " ")
          [ CDef (nl :: s_ "    ") (hT "weight" false) (s_ " ") (s_ " ") (W "0.5" QN) [(s_ " ", W "a b" Q1)] (TkNl []) [] ]
          (s_ "  ") [];
        CDef (nl :: s_ "  ") (hT "last" false) (s_ " ") (s_ " ") (W "x" QN) [] (TkNl []) [] ]
      [] [];
    CDef [nl] (hT "tail" false) (s_ " ") (s_ " ") (W "1" QN) [] (TkNl []) [] ].
(* a very different layout: leading blank line and comment (with quote characters), no blanks
   around "=", a trailing comment, the brace on the next line, ";" terminators, a whole scope on one
   line closed right after the value, comments after a brace, a blank line, trailing blanks,
   comment lines after a value, the last definition glued to the brace and ended by the end of input *)
Definition ex_c2 : list cst :=
  [ CDef (nl :: s_ "# leading comment ""with 'quotes" ++ [nl; nl]) (hT "title" false) [] []
      (W "Hello world" Q2) [(s_ "    ", W "v2" QN)] (TkComment (s_ "   ") (s_ " trailing note {;} x = y")) [];
    CScp [] (hT "refine" false) [nl]
      [ CDef (s_ " ") (hT "cycles" true) (s_ " ") (s_ " ") (W "12" QN) [] (TkSemi []) [];
        CScp (s_ " ") (hT "target" false) (s_ " ")
          [ CDef (s_ " ") (hT "weight" false) (s_ " ") (s_ "   ") (W "0.5" QN) [(s_ "  ", W "a b" Q1)] (TkEnd (s_ " ")) [] ]
          [] [];
        CDef (s_ " # after a brace: 'any ""text" ++ nl :: s_ "  # another" ++ [nl; nl] ++ s_ "  ") (hT "last" false)
          (s_ "  ") (s_ " ") (W "x" QN) [] (TkNl (s_ " ")) [] ]
      (s_ "  # a plain comment after a value" ++ nl :: s_ "  #'later comments are free ""x" ++ [nl]) [];
    CDef [] (hT "tail" false) (s_ " ") (s_ " ") (W "1" QN) [] (TkEnd []) [] ].

Definition ex_text1 : str := s_
"title = ""Hello world"" v2
refine {
  !cycles = 12
  target {
    weight = 0.5 'a b'
  }
  last = x
}
tail = 1
".
Definition ex_text2 : str := s_
"
# leading comment ""with 'quotes

title=""Hello world""    v2   # trailing note {;} x = y
refine
{ !cycles = 12; target { weight =   0.5  'a b' } # after a brace: 'any ""text
  # another

  last  = x 
  # a plain comment after a value
  #'later comments are free ""x
}tail = 1".

Example ex_same_tree : map tree_of ex_c1 = ex_t /\ map tree_of ex_c2 = ex_t.
Proof. split; reflexivity. Qed.
Example ex_texts : render_doc ex_c1 [] = ex_text1 /\ render_doc ex_c2 [] = ex_text2.
Proof. split; vm_compute; reflexivity. Qed.
Example ex_renders : Renders ex_t ex_text1 /\ Renders ex_t ex_text2.
Proof.
  destruct ex_same_tree as [T1 T2]. destruct ex_texts as [X1 X2].
  split; [rewrite <- T1, <- X1|rewrite <- T2, <- X2]; apply cst_renders; vm_compute; reflexivity.
Qed.
(* both parses computed: same tree after erasure; the raw trees differ (line numbers) *)
Example ex_parses : exists l1 l2,
  parse [] ex_text1 = Ok l1 /\ parse [] ex_text2 = Ok l2
  /\ map erase_all l1 = map erase_all ex_t /\ map erase_all l2 = map erase_all ex_t /\ l1 <> l2.
Proof.
  eexists _, _. split; [vm_compute; reflexivity|]. split; [vm_compute; reflexivity|].
  split; [vm_compute; reflexivity|]. split; [vm_compute; reflexivity|]. vm_compute. discriminate.
Qed.
(* the same from the theorem *)
Example ex_agree : exists l1 l2,
  parse [] ex_text1 = Ok l1 /\ parse [] ex_text2 = Ok l2 /\ map erase_all l1 = map erase_all l2.
Proof. destruct ex_renders as [R1 R2]. exact (renderings_agree [] ex_t _ _ R1 R2). Qed.

(* ---------- the restrictions are needed *)
Definition names (r:res (list obj)) : list str := match r with Ok l => map (fun x => oname (ohdr x)) l | _ => [] end.

(* an arbitrary full-line comment right after a NEWLINE-terminated value is not a layout freedom:
   collect_assigned_words meets the lone "#" in value context, switches to its word-wise comment
   mode, and the quote opens a quoted word that runs over the next lines - here the definition b is
   silently swallowed.  After ";" (or after a trailing comment, a brace, at the top) the same
   comment line is harmless.  ([slayout] keeps such comments out.) *)
Example unsafe_comment_after_value :
  layout (s_ "# 'x
")
  /\ names (parse [] (s_ "a = 1
# 'x
b = 2'
c = 3
")) = [s_ "a"; s_ "c"]
  /\ names (parse [] (s_ "a = 1;
# 'x
b = 2'
c = 3
")) = [s_ "a"; s_ "b"; s_ "c"]
  /\ parse [] (s_ "a = 1
# ""x
b = 2
") = E "MissingClosingQuote" [] 4.
Proof.
  split; [apply (layout_comment (s_ " 'x") []); [reflexivity|reflexivity|constructor]|].
  vm_compute. repeat split.
Qed.
(* a trailing comment needs a blank before the "#" and a delimiter after it: otherwise the "#"
   is part of a value word *)
Example trailing_comment_glued :
  (exists h ws a, parse [] (s_ "a = 1 #c
") = Ok [Def h ws a] /\ map wv ws = [s_ "1"; s_ "#c"])
  /\ (exists h ws a, parse [] (s_ "a = 1# c
") = Ok [Def h ws a] /\ map wv ws = [s_ "1#"; s_ "c"]).
Proof. split; vm_compute; eexists _, _, _; split; reflexivity. Qed.
(* blanks between the words are needed, and a newline is not a blank inside a value *)
Example word_separators_needed :
  (exists h ws a, parse [] (s_ "a = 1'x'") = Ok [Def h ws a] /\ map wv ws = [s_ "1'x'"])
  /\ parse [] (s_ "a = 1
2") = E "UnexpectedEnd" [] 0.
Proof. split; vm_compute; [eexists _, _, _; split; reflexivity|reflexivity]. Qed.

(* ====================================================================================== *)
(* 13. the printer's output is a rendering (when no value is wrapped)                        *)
(* ====================================================================================== *)

Lemma layout_app_blanks : forall a b, layout a -> forallb isspace b = true -> layout (a ++ b).
Proof.
  intros a b H Hb; induction H as [|c p Hc Hp IH|body p Hm Hph Hp IH].
  - apply layout_blanks; exact Hb.
  - cbn [app]. constructor; assumption.
  - replace (("#" :: body ++ nl :: p) ++ b) with ("#" :: body ++ nl :: (p ++ b))
      by (cbn [app]; rewrite <- app_assoc; reflexivity).
    apply layout_comment; assumption.
Qed.
Lemma slayout_app_blanks : forall a b, slayout a -> forallb isspace b = true -> slayout (a ++ b).
Proof.
  intros a b H Hb; induction H as [|c p Hc Hp IH|body p Hm Hph Hs Hp].
  - apply layout_blanks_s; exact Hb.
  - cbn [app]. constructor; assumption.
  - replace (("#" :: body ++ nl :: p) ++ b) with ("#" :: body ++ nl :: (p ++ b))
      by (cbn [app]; rewrite <- app_assoc; reflexivity).
    apply sl_comment; try assumption. apply layout_app_blanks; assumption.
Qed.
Lemma lay_ok_app_blanks : forall safe a b, lay_ok safe a -> forallb isspace b = true -> lay_ok safe (a ++ b).
Proof. intros [] a b; [apply slayout_app_blanks|apply layout_app_blanks]. Qed.
Lemma lay_ok_weaken : forall safe a, lay_ok true a -> lay_ok safe a.
Proof. intros [] a H; [exact H|apply slayout_layout; exact H]. Qed.
Lemma lay_ok_cons : forall safe c a, isspace c = true -> lay_ok safe a -> lay_ok safe (c :: a).
Proof. intros [] c a Hc H; constructor; assumption. Qed.

(* the first layout of a rendering may be weakened, and a blank may be put in front *)
Lemma renders_lead : forall safe t x (f:str -> str),
  (forall lay tl, f (lay ++ tl) = f lay ++ tl) ->
  (forall lay, lay_ok true lay -> lay_ok safe (f lay)) ->
  RendersL true t x -> RendersL safe t (f x).
Proof.
  intros safe t x f Hf Hl H.
  inversion H as [s lay Hlay|s lay d k dtext t' ttext Hlay Hd Hk Ht|s lay d dtext Hlay Hd
                 |s lay h kids a sep ktext t' ttext Hlay Hh Hsep Hks Ht]; subst.
  - constructor. apply Hl; exact Hlay.
  - rewrite Hf. apply rl_def with (k := k); try assumption. apply Hl; exact Hlay.
  - rewrite Hf. apply rl_def_end; try assumption. apply Hl; exact Hlay.
  - rewrite Hf. apply rl_scope; try assumption. apply Hl; exact Hlay.
Qed.
Lemma renders_after_nl : forall t x, RendersL true t x -> RendersL false t (nl :: x).
Proof.
  intros t x H. apply (renders_lead false t x (fun s => nl :: s)); [reflexivity| |exact H].
  intros lay Hlay. apply (lay_ok_cons false); [reflexivity|apply slayout_layout; exact Hlay].
Qed.

(* no continuation line in the printed value *)
Fixpoint nobrk (ws:list word) (cur indent:str) (w:Z) : bool :=
  match ws with
  | [] => true
  | x :: r => negb (brk x cur indent w) && nobrk r (cur ++ " " :: str_of_word x) indent w
  end.
Lemma vtail_nobrk : forall ws cur indent w rest, nobrk ws cur indent w = true ->
  vtail ws cur indent w rest = WordsRoundtrip.vtext ws ++ nl :: rest.
Proof.
  induction ws as [|x r IH]; intros cur indent w rest H; [reflexivity|].
  cbn [nobrk] in H. apply andb_prop in H as [H1 H2]. apply negb_true_iff in H1.
  cbn [vtail]. rewrite H1, (IH _ _ _ _ H2). unfold WordsRoundtrip.vtext. cbn [flat_map app].
  rewrite <- app_assoc. reflexivity.
Qed.
Fixpoint unwrapped (w:Z) (p:str) (o:obj) : bool :=
  match o with
  | Def h ws _ => nobrk ws (def_cur p (odis h) (oname h)) (def_indent p (odis h) (oname h)) w
  | Scp h ks _ => forallb (unwrapped w (p ++ s_ "  ")) ks
  end.

Lemma vtext_renders : forall ws, RendersWords ws (WordsRoundtrip.vtext ws).
Proof.
  induction ws as [|x r IH]; [constructor|]. unfold WordsRoundtrip.vtext. cbn [flat_map].
  change ((" " :: str_of_word x) ++ flat_map (fun w => " " :: str_of_word w) r)
    with ([" "] ++ str_of_word x ++ WordsRoundtrip.vtext r).
  constructor; [split; reflexivity|discriminate|exact IH].
Qed.

Definition PR (w:Z) (o:obj) : Prop := forall p safe pre t ttext,
  tree_ok o = true -> unwrapped w p o = true -> blank p -> lay_ok safe pre ->
  RendersL true t ttext -> RendersL safe (o :: t) (pre ++ txt w p o ++ ttext).

Lemma PRL_of_PR : forall w l, Forall (PR w) l -> forall p safe pre final,
  forallb tree_ok l = true -> forallb (unwrapped w p) l = true -> blank p -> lay_ok safe pre ->
  forallb isspace final = true ->
  RendersL safe l (pre ++ txts w p l ++ final).
Proof.
  intros w l H; induction H as [|o r Ho Hr IH]; intros p safe pre final Hok Hun Hp Hpre Hfin.
  - cbn [txts flat_map app]. constructor. apply lay_ok_app_blanks; assumption.
  - cbn [forallb] in Hok, Hun. apply andb_prop in Hok as [Ho1 Ho2]. apply andb_prop in Hun as [Hu1 Hu2].
    unfold txts. cbn [flat_map]. rewrite <- app_assoc.
    apply Ho; try assumption.
    apply (IH p true [] final Ho2 Hu2 Hp); [constructor|exact Hfin].
Qed.

Theorem PR_all : forall w o, PR w o.
Proof.
  intros w o; induction o as [h ws a|h ks a IH] using obj_ind2; intros p safe pre t ttext Hok Hun Hp Hpre Ht.
  - cbn [tree_ok] in Hok. apply andb_prop in Hok as [Hok Hwok]. apply andb_prop in Hok as [Hok Hne].
    apply andb_prop in Hok as [Hh _].
    destruct ws as [|x r]; [discriminate Hne|].
    cbn [unwrapped] in Hun. cbn [txt].
    set (dis := odis h) in *. set (n := oname h) in *.
    assert (HT : pre ++ show_words (x :: r) (def_cur p dis n) (def_indent p dis n) w ++ ttext
                 = (pre ++ p) ++ (bang dis ++ n ++ [" "] ++ "=" :: [" "] ++ str_of_word x ++ WordsRoundtrip.vtext r ++ ([] ++ [nl])) ++ ttext).
    { rewrite show_words_vtail, (vtail_nobrk _ _ _ _ _ Hun). unfold def_cur, WordsRoundtrip.vtext. cbn [flat_map].
      repeat (progress (rewrite <- ?app_assoc; cbn [app s_ String.list_ascii_of_string])). reflexivity. }
    rewrite HT. rewrite <- (hdr_ok_adopt (Def h (x :: r) a) Hh). apply rl_def with (k := KNl).
    + apply lay_ok_app_blanks; [exact Hpre|apply Hp].
    + unfold dis, n. constructor; try assumption; try (split; reflexivity);
        [apply hdr_ok_dhdr; exact Hh|apply vtext_renders|constructor; split; reflexivity].
    + discriminate.
    + exact Ht.
  - cbn [tree_ok] in Hok. apply andb_prop in Hok as [Hh Hks].
    cbn [unwrapped] in Hun. cbn [txt].
    set (dis := odis h) in *. set (n := oname h) in *.
    set (p2 := p ++ s_ "  ") in *.
    assert (Hp2 : blank p2) by (apply blank_app; [exact Hp|split; reflexivity]).
    assert (HT : pre ++ (line (p ++ bang dis ++ n ++ s_ " {") ++ flat_map (txt w p2) ks ++ line (p ++ ["}"])) ++ ttext
                 = (pre ++ p) ++ bang dis ++ n ++ [" "] ++ "{" :: ([nl] ++ txts w p2 ks ++ p) ++ "}" :: (nl :: ttext)).
    { unfold line, txts. repeat (progress (rewrite <- ?app_assoc; cbn [app s_ String.list_ascii_of_string])). reflexivity. }
    rewrite HT. unfold dis, n. rewrite <- (hdr_ok_adopt (Scp h ks a) Hh). apply rl_scope.
    + apply lay_ok_app_blanks; [exact Hpre|apply Hp].
    + apply hdr_ok_dhdr; exact Hh.
    + reflexivity.
    + apply (PRL_of_PR w ks IH p2 false [nl] p Hks Hun Hp2); [|apply Hp].
      apply (layout_blanks [nl]). reflexivity.
    + apply renders_after_nl; exact Ht.
Qed.

Definition width_of (w:option Z) : Z := match w with Some x => x | None => default_width end.

(* the printer's level-0 text of a tree of the round-trip domain is a rendering of that tree, when
   the width is large enough for every value to stay on its line *)
Theorem show_renders : forall l w text,
  forallb tree_ok l = true -> forallb (unwrapped (width_of w) []) l = true ->
  as_str l [] None 0 w = Ok text -> Renders l text.
Proof.
  intros l w text Hok Hun H. rewrite (as_str_level0_total l w Hok) in H. inversion H; subst text. clear H.
  fold (width_of w).
  pose proof (PRL_of_PR (width_of w) l) as HP.
  specialize (HP ltac:(apply Forall_forall; intros o _; apply PR_all) [] false [] [] Hok Hun blank_nil).
  cbn [app] in HP. rewrite app_nil_r in HP. apply HP; [constructor|reflexivity].
Qed.
Print Assumptions show_renders.

Example ex_show_renders :
  forallb tree_ok ex_t = true /\ forallb (unwrapped default_width []) ex_t = true
  /\ as_str ex_t [] None 0 None = Ok ex_text1.
Proof. vm_compute. repeat split. Qed.
Example ex_show_renders_big :
  forallb (unwrapped 1000 []) ex_tree = true /\ forallb (unwrapped 30 []) ex_tree = false
  /\ exists text, as_str ex_tree [] None 0 (Some 1000%Z) = Ok text /\ Renders ex_tree text.
Proof.
  split; [vm_compute; reflexivity|]. split; [vm_compute; reflexivity|].
  eexists. split; [vm_compute; reflexivity|].
  apply (show_renders ex_tree (Some 1000%Z)); vm_compute; reflexivity.
Qed.

(* ====================================================================================== *)
(* 14. nested braces versus dotted names                                                     *)
(* ====================================================================================== *)
(* A written object with a dotted name "a.b.x" renders the tree [adopt x]: the chain
   a { b { x } } in which the parser marks the objects below the first with merge_names (a hint for
   the printer to write the dotted spelling again).  [renders_sound] therefore already covers the
   dotted spelling exactly (merge_names included).  Modulo that printing hint the dotted and the
   braced spelling denote the same tree: *)
Definition mh (h:hdr) : hdr := mkhdr (oname h) (odis h) (otmpl h) false 0 0.
Fixpoint erase_m (o:obj) : obj :=
  match o with
  | Def h ws _ => Def (mh h) (map erase_word ws) []
  | Scp h ks _ => Scp (mh h) (map erase_m ks) []
  end.

Lemma erase_m_all : forall o, erase_m (erase_all o) = erase_m o.
Proof.
  intros o; induction o as [h ws a|h ks a IH] using obj_ind2.
  - cbn [erase_all erase_m]. rewrite map_map. reflexivity.
  - cbn [erase_all erase_m]. f_equal. rewrite map_map.
    induction IH as [|k r Hk Hr IHr]; [reflexivity|]. cbn [map]. rewrite Hk, IHr. reflexivity.
Qed.
Lemma map_erase_m_all : forall l, map erase_m (map erase_all l) = map erase_m l.
Proof. intros l. rewrite map_map. apply map_ext. exact erase_m_all. Qed.

Theorem renderings_agree_mod_merge : forall o t1 t2 s1 s2,
  Renders t1 s1 -> Renders t2 s2 -> map erase_m t1 = map erase_m t2 ->
  exists l1 l2, parse o s1 = Ok l1 /\ parse o s2 = Ok l2 /\ map erase_m l1 = map erase_m l2.
Proof.
  intros o t1 t2 s1 s2 H1 H2 Ht.
  destruct (renders_sound o t1 s1 H1) as (l1 & Hp1 & He1).
  destruct (renders_sound o t2 s2 H2) as (l2 & Hp2 & He2).
  exists l1, l2. split; [exact Hp1|]. split; [exact Hp2|].
  rewrite <- (map_erase_m_all l1), <- (map_erase_m_all l2), He1, He2, !map_erase_m_all. exact Ht.
Qed.
Print Assumptions renderings_agree_mod_merge.

(* "a.b.x = 1  c.d { !y.z = 'q' }" against the fully braced spelling *)
Definition ex_d1 : list cst :=
  [ CDef [] (hT "a.b.x" false) (s_ " ") (s_ " ") (W "1" QN) [] (TkNl []) [];
    CScp [] (hT "c.d" false) (s_ " ")
      [ CDef (s_ " ") (hT "y.z" true) (s_ " ") (s_ " ") (W "q" Q1) [] (TkEnd (s_ " ")) [] ] [] [] ].
Definition ex_d2 : list cst :=
  [ CScp [] (hT "a" false) (s_ " ")
      [ CScp (s_ " ") (hT "b" false) []
          [ CDef [] (hT "x" false) [] [] (W "1" QN) [] (TkEnd []) [] ] [] [] ] [] [];
    CScp [nl] (hT "c" false) (s_ " ")
      [ CScp (s_ " ") (hT "d" false) (s_ " ")
          [ CScp (s_ " ") (hT "y" false) (s_ " ")
              [ CDef (s_ " ") (hT "z" true) (s_ " ") (s_ " ") (W "q" Q1) [] (TkSemi []) [] ] (s_ " ") [] ]
          (s_ " ") [] ] (s_ " ") [] ].
Example ex_dotted :
  render_doc ex_d1 [] = s_ "a.b.x = 1
c.d { !y.z = 'q' }"
  /\ render_doc ex_d2 [] = s_ "a { b{x=1}}
c { d { y { !z = 'q'; } } }"
  /\ cst_ok ex_d1 [] = true /\ cst_ok ex_d2 [] = true
  /\ map tree_of ex_d1 <> map tree_of ex_d2                      (* merge_names differs *)
  /\ map erase_m (map tree_of ex_d1) = map erase_m (map tree_of ex_d2)
  /\ (exists x, map tree_of ex_d1 =
        [ Scp (mkhdr (s_ "a") false 0 false 0 0) [Scp (mkhdr (s_ "b") false 0 true 0 0)
            [Def (mkhdr (s_ "x") false 0 true 0 0) [W "1" QN] []] []] []; x ]).
Proof. vm_compute. repeat split; try discriminate. eexists; reflexivity. Qed.
Example ex_dotted_agree : exists l1 l2,
  parse [] (render_doc ex_d1 []) = Ok l1 /\ parse [] (render_doc ex_d2 []) = Ok l2
  /\ map erase_m l1 = map erase_m l2.
Proof.
  apply (renderings_agree_mod_merge [] (map tree_of ex_d1) (map tree_of ex_d2));
    [apply cst_renders; vm_compute; reflexivity|apply cst_renders; vm_compute; reflexivity|vm_compute; reflexivity].
Qed.
(* computed: the parser's tree for the dotted text is the rendered tree, merge_names included *)
Example ex_dotted_parse : exists l1,
  parse [] (render_doc ex_d1 []) = Ok l1 /\ map erase_all l1 = map erase_all (map tree_of ex_d1).
Proof. eexists. split; vm_compute; reflexivity. Qed.

(* ====================================================================================== *)
(* 15. assumptions of the top-level theorems                                                 *)
(* ====================================================================================== *)
Print Assumptions renders_sound_gen.
Print Assumptions renders_sound.
Print Assumptions renderings_agree.
Print Assumptions renderings_agree_mod_merge.
Print Assumptions cst_renders.
Print Assumptions cst_agree.
Print Assumptions show_renders.
