(* Concrete file systems showing that the hypotheses of the C13 theorems are satisfiable and
   that the conclusions are what one expects (all by computation). *)
From Coq Require Import List Ascii String Bool Arith ZArith Lia.
From Phil Require Import Base Tree Include IncludeSpec IncludeProofs.
Import ListNotations.

Definition inc (name:String.string) : obj :=
  Def (plain_hdr s_include) [uw (s_ "file"); uw (s_ name)] [].
Definition dfn (name v:String.string) : obj := Def (plain_hdr (s_ name)) [uw (s_ v)] [].
Definition scp (name:String.string) (kids:list obj) : obj := Scp (plain_hdr (s_ name)) kids [].

Definition cwd_x : str := s_ "/elsewhere".
Definition pa : str := s_ "/r/a.phil".
Definition pb : str := s_ "/r/sub/b.phil".
Definition pc : str := s_ "/r/sub/deep/c.phil".

(* a includes b twice (top level, and inside a scope under another spelling); b includes c *)
Definition fs_dia : fsys :=
  [(pa, FObjs [dfn "x" "1"; inc "sub/b.phil"; scp "s" [inc "./sub/../sub//b.phil"; dfn "y" "2"]]);
   (pb, FObjs [dfn "b" "2"; inc "deep/c.phil"]);
   (pc, FObjs [dfn "c" "3"])].

(* a -> b -> c -> a *)
Definition fs_cyc : fsys :=
  [(pa, FObjs [dfn "x" "1"; inc "sub/b.phil"]);
   (pb, FObjs [dfn "b" "2"; inc "deep/c.phil"]);
   (pc, FObjs [dfn "c" "3"; inc "../../a.phil"])].

Lemma ex_dia_result :
  includes_file isc0 fs_dia cwd_x pa =
  Ok [dfn "x" "1"; dfn "b" "2"; dfn "c" "3"; scp "s" [dfn "b" "2"; dfn "c" "3"; dfn "y" "2"]].
Proof. vm_compute. reflexivity. Qed.

Lemma ex_cyc_result :
  includes_file isc0 fs_cyc cwd_x pa =
  UErr k_cycle (s_ "/r/a.phil, /r/sub/b.phil, /r/sub/deep/c.phil, /r/a.phil") 0.
Proof. vm_compute. reflexivity. Qed.

(* a relative root name is looked up from the current directory *)
Lemma ex_rel_root :
  includes_file isc0 fs_dia (s_ "/r/sub") (s_ "../a.phil") = includes_file isc0 fs_dia cwd_x pa.
Proof. vm_compute. reflexivity. Qed.

Ltac edge_inv E :=
  let objs := fresh "objs" in let x := fresh "x" in
  let G := fresh "G" in let I := fresh "I" in let M := fresh "M" in
  destruct E as [objs [x [G [I M]]]];
  vm_compute in G; try discriminate G; inversion G; subst objs; clear G;
  vm_compute in I;
  repeat (destruct I as [I|I]; [subst x; vm_compute in M|]); try destruct I.

Lemma ex_dia_edges : forall n m, n = pa \/ n = pb \/ n = pc -> edge fs_dia cwd_x n m ->
  (n = pa /\ m = pb) \/ (n = pb /\ m = pc).
Proof.
  intros n m K E.
  destruct K as [K|[K|K]].
  - subst n. edge_inv E; left; split; auto.
  - subst n. edge_inv E; right; split; auto.
  - subst n. edge_inv E.
Qed.

Lemma ex_dia_acyclic : acyclic_from fs_dia cwd_x (nrm cwd_x pa).
Proof.
  change (nrm cwd_x pa) with pa.
  intros c CH.
  destruct c as [|m c]. repeat constructor; intros [].
  change (edge fs_dia cwd_x pa m /\ chain fs_dia cwd_x (m :: c)) in CH. destruct CH as [E CH].
  apply ex_dia_edges in E; auto. destruct E as [[_ E]|[E _]]; [subst m|vm_compute in E; discriminate].
  destruct c as [|m c].
  { constructor. intros [H|[]]. vm_compute in H. discriminate. repeat constructor; intros []. }
  change (edge fs_dia cwd_x pb m /\ chain fs_dia cwd_x (m :: c)) in CH. destruct CH as [E CH].
  apply ex_dia_edges in E; auto. destruct E as [[E _]|[_ E]]; [vm_compute in E; discriminate|subst m].
  destruct c as [|m c].
  { constructor. intros [H|[H|[]]]; vm_compute in H; discriminate.
    constructor. intros [H|[]]; vm_compute in H; discriminate.
    repeat constructor; intros []. }
  change (edge fs_dia cwd_x pc m /\ chain fs_dia cwd_x (m :: c)) in CH. destruct CH as [E CH].
  apply ex_dia_edges in E; auto. destruct E as [[E _]|[E _]]; vm_compute in E; discriminate.
Qed.

Lemma ex_cyc_cyclic : cyclic_from fs_cyc cwd_x (nrm cwd_x pa).
Proof.
  exists [pb; pc; pa]. split.
  - change (nrm cwd_x pa) with pa.
    repeat split.
    + exists [dfn "x" "1"; inc "sub/b.phil"], (s_ "sub/b.phil"). vm_compute. auto.
    + exists [dfn "b" "2"; inc "deep/c.phil"], (s_ "deep/c.phil"). vm_compute. auto.
    + exists [dfn "c" "3"; inc "../../a.phil"], (s_ "../../a.phil"). vm_compute. auto.
  - change (nrm cwd_x pa) with pa. intro H. inversion H; subst. apply H2. cbn. auto.
Qed.

Lemma ex_cyc_clean : forall n, reach fs_cyc cwd_x (nrm cwd_x pa) n -> clean isc0 fs_cyc n.
Proof.
  change (nrm cwd_x pa) with pa. intros n R.
  assert (K: n = pa \/ n = pb \/ n = pc).
  { induction R; auto.
    destruct IHR as [K|[K|K]]; subst n; edge_inv H; auto. }
  destruct K as [K|[K|K]]; subst n; eexists; eexists; split; vm_compute; reflexivity.
Qed.

(* "//r/sub/b.phil" is the file /r/sub/b.phil under another name: the stack holds names, so the
   cycle a -> b -> a is noticed one round later, and the report says so *)
Definition fs_ds : fsys :=
  [(pa, FObjs [inc "//r/sub/b.phil"]); (pb, FObjs [inc "../a.phil"])].
Lemma ex_dslash :
  includes_file isc0 fs_ds cwd_x pa =
  UErr k_cycle (s_ "/r/a.phil, //r/sub/b.phil, //r/a.phil, //r/sub/b.phil") 0.
Proof. vm_compute. reflexivity. Qed.
