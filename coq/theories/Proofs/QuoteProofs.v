(* C03: quoting then tokenizing returns exactly the string. *)
From Coq Require Import List Ascii String Bool Arith Lia.
From Phil Require Import Base Tokenizer.
Import ListNotations.
Local Open Scope char_scope.

Definition is_triple (q:quote) : bool := match q with Q3s | Q3d => true | _ => false end.
Definition closing (triple:bool) (q:ascii) : str := if triple then [q;q;q] else [q].

Lemma bump_not_nl c line : Ascii.eqb c nl = false -> bump c line = line.
Proof. unfold bump; intros ->; reflexivity. Qed.

Lemma scan_escape : forall triple q s rest line,
  Ascii.eqb q bs = false -> Ascii.eqb q nl = false ->
  scan triple q (escape q s ++ closing triple q ++ rest) line = inl (s, rest, line + count_nl s).
Proof.
  intros triple q s rest line Hqb Hqn.
  assert (Hbq : Ascii.eqb bs q = false) by (rewrite Ascii.eqb_sym; exact Hqb).
  assert (Hbn : Ascii.eqb bs nl = false) by reflexivity.
  revert line; induction s as [|c s IH]; intros line.
  - cbn [escape app count_nl]. rewrite Nat.add_0_r.
    destruct triple; cbn [closing app scan]; rewrite !Ascii.eqb_refl, (bump_not_nl _ _ Hqn); reflexivity.
  - cbn [escape count_nl].
    destruct (Ascii.eqb c bs) eqn:Ecb.
    + apply Ascii.eqb_eq in Ecb; subst c.
      cbn [app scan]. rewrite Hbq, !Ascii.eqb_refl. rewrite (bump_not_nl _ _ Hbn).
      rewrite IH. unfold scons. rewrite Hbn. f_equal.
    + destruct (Ascii.eqb c q) eqn:Ecq.
      * apply Ascii.eqb_eq in Ecq; subst c.
        cbn [app scan]. rewrite Hbq, !Ascii.eqb_refl, Hqb. rewrite (bump_not_nl _ _ Hbn), (bump_not_nl _ _ Hqn).
        rewrite IH. unfold scons. rewrite Hqn. f_equal.
      * cbn [app scan]. rewrite Ecq, Ecb. rewrite IH. unfold scons, bump.
        destruct (Ascii.eqb c nl); f_equal; f_equal; lia.
Qed.

(* first character of an escaped non-empty string is never the quote character *)
Lemma escape_head_not_q : forall q c s tl,
  Ascii.eqb q bs = false -> exists d r, escape q (c :: s) ++ tl = d :: r /\ Ascii.eqb d q = false.
Proof.
  intros q c s tl Hqb. cbn [escape].
  destruct (Ascii.eqb c bs) eqn:E1.
  - eexists _, _; split; [reflexivity|]. rewrite Ascii.eqb_sym; exact Hqb.
  - destruct (Ascii.eqb c q) eqn:E2.
    + eexists _, _; split; [reflexivity|]. rewrite Ascii.eqb_sym; exact Hqb.
    + eexists _, _; split; [reflexivity|]. exact E2.
Qed.

Lemma qchar_cases q : qchar q = dq \/ qchar q = sq.
Proof. destruct q; cbn; auto. Qed.

Theorem nw_quoted : forall σ q s rest line,
  q <> QN ->
  mem (qchar q) (comment σ) = false ->
  (is_triple q = false -> s = [] -> prefixb [qchar q] rest = false) ->
  nw σ false (quote_str q s ++ rest) line = TWord (mkword s q line) rest (line + count_nl s).
Proof.
  intros σ q s rest line Hq Hc Hopen.
  set (c := qchar q).
  assert (Hcb : Ascii.eqb c bs = false) by (destruct (qchar_cases q) as [E|E]; unfold c; rewrite E; reflexivity).
  assert (Hcn : Ascii.eqb c nl = false) by (destruct (qchar_cases q) as [E|E]; unfold c; rewrite E; reflexivity).
  assert (Hsp : isspace c = false) by (destruct (qchar_cases q) as [E|E]; unfold c; rewrite E; reflexivity).
  assert (Hdq : (Ascii.eqb c dq || Ascii.eqb c sq) = true) by (destruct (qchar_cases q) as [E|E]; unfold c; rewrite E; reflexivity).
  destruct (is_triple q) eqn:Et.
  - (* triple styles *)
    assert (Hs : quote_str q s ++ rest = c :: c :: c :: (escape c s ++ closing true c ++ rest)).
    { destruct q; try discriminate; try congruence; cbn [quote_str qtoken qchar closing app] in *;
        rewrite <- !app_assoc; reflexivity. }
    rewrite Hs. cbn [nw]. rewrite Hsp. fold c in Hc. rewrite Hc. cbn [andb]. rewrite Hdq.
    rewrite !Ascii.eqb_refl. cbn [andb]. unfold quoted_word.
    rewrite (bump_not_nl _ _ Hcn). rewrite scan_escape by assumption.
    f_equal. f_equal. destruct q; try discriminate; reflexivity.
  - assert (Hs : quote_str q s ++ rest = c :: (escape c s ++ closing false c ++ rest)).
    { destruct q; try discriminate; try congruence; cbn [quote_str qtoken qchar closing app] in *;
        rewrite <- !app_assoc; reflexivity. }
    rewrite Hs. cbn [nw]. rewrite Hsp. fold c in Hc. rewrite Hc. cbn [andb]. rewrite Hdq.
    rewrite (bump_not_nl _ _ Hcn).
    assert (Hgoal : quoted_word false c (escape c s ++ closing false c ++ rest) line
                    = TWord (mkword s q line) rest (line + count_nl s)).
    { unfold quoted_word. rewrite scan_escape by assumption.
      f_equal. f_equal. destruct q; try discriminate; try congruence; reflexivity. }
    destruct s as [|a s].
    + cbn [escape app closing].
      specialize (Hopen eq_refl eq_refl). fold c in Hopen.
      cbn [escape app closing] in Hgoal.
      destruct rest as [|r1 rest']; [exact Hgoal|].
      cbn [prefixb] in Hopen; rewrite Bool.andb_true_r in Hopen; rewrite Ascii.eqb_sym in Hopen.
      rewrite Ascii.eqb_refl. cbn [andb]. rewrite Hopen. exact Hgoal.
    + destruct (escape_head_not_q c a s (closing false c ++ rest) Hcb) as (d & r & Hdr & Hd).
      rewrite Hdr in *.
      destruct r as [|r2 r']; [exact Hgoal|].
      rewrite Hd. cbn [andb]. exact Hgoal.
Qed.

Theorem value_literal_quoted : forall q s,
  q <> QN -> tokenize_value_literal (quote_str q s) = Ok [mkword s q 1].
Proof.
  intros q s Hq. unfold tokenize_value_literal, tokenize.
  assert (Hlen : exists n, length (quote_str q s) = S (S n)).
  { destruct q; try congruence; cbn [quote_str qtoken app length]; rewrite ?app_length; cbn [length];
      eexists; try reflexivity; rewrite Nat.add_succ_r; reflexivity. }
  destruct Hlen as (n & Hn). rewrite Hn.
  cbn [all_words].
  rewrite <- (app_nil_r (quote_str q s)).
  rewrite nw_quoted; [| exact Hq | reflexivity | intros _ _; reflexivity ].
  cbn [nw bind]. reflexivity.
Qed.

(* value context inside a document: the settings used by collect_assigned_words (s1) and by the
   structure level (s0); whatever follows, as long as an empty single-quoted literal is not
   directly followed by the same quote character. *)
Theorem value_context_quoted : forall q s rest line,
  q <> QN ->
  (is_triple q = false -> s = [] -> prefixb [qchar q] rest = false) ->
  nw s1 false (quote_str q s ++ rest) line = TWord (mkword s q line) rest (line + count_nl s)
  /\ nw s0 false (quote_str q s ++ rest) line = TWord (mkword s q line) rest (line + count_nl s).
Proof.
  intros q s rest line Hq Ho. split; apply nw_quoted; try assumption.
  - reflexivity.
  - destruct (qchar_cases q) as [E|E]; rewrite E; reflexivity.
Qed.

Theorem str_of_word_is_quote_str : forall s q, str_of_word (mkword s q 0) = quote_str q s.
Proof. reflexivity. Qed.
