(* C07/C08, groundwork over Model/Fetch.v:
   - the double loop of the multiple branch as "evaluate every candidate, then keep last" (mult_loop_fold)
   - candidates that differ only in header / positions / disabled content give the same result (ssim)
   - which objects of a result list a master entry's name matches (gview)
   - results of "$"-free runs are "$"-free *)
From Coq Require Import List Ascii String Bool Arith ZArith Lia.
From Phil Require Import Base Tree Vars Choice ChoiceProofs ChoiceTop Fetch FetchBasics FetchShape FetchDisabled FetchIdemLists.
Import ListNotations.
Local Open Scope char_scope.

Section Base.
  Variable env : str -> option str.
  Variable canon : obj -> option obj -> res str.
  Variable diff : bool.

  (* ---------------------------------------------------------------- one candidate of the double loop *)
  (* None: the candidate is skipped (diff mode: nothing differs; or its text equals the master's);
     Some (text, candidate): it is kept *)
  Definition ev (k:obj) (rec:list lsrc -> res fout) (mas:str) (s:lsrc) : res (option pair_t) :=
    do cc <- cand_fetch env canon diff k rec s;
    if diff_skip diff k (fst cc) then Ok None
    else
      do cs <- canon k (fst cc);
      if eqs cs mas then Ok None
      else match fst cc with Some c => Ok (Some (cs, c)) | None => Ok None end.

  Fixpoint evs (k:obj) (rec:list lsrc -> res fout) (mas:str) (l:list lsrc) : res gl :=
    match l with
    | [] => Ok []
    | s :: r => do x <- ev k rec mas s; do xs <- evs k rec mas r; Ok (x :: xs)
    end.

  Lemma evs_app : forall k rec mas a b,
    evs k rec mas (a ++ b) = do x <- evs k rec mas a; do y <- evs k rec mas b; Ok (x ++ y).
  Proof.
    intros k rec mas a b. induction a as [|s a IH]; cbn [app evs].
    - cbn. destruct (evs k rec mas b); reflexivity.
    - destruct (ev k rec mas s); cbn [bind]; [|reflexivity|reflexivity]. rewrite IH.
      destruct (evs k rec mas a); cbn [bind]; [|reflexivity|reflexivity].
      destruct (evs k rec mas b); reflexivity.
  Qed.

  (* the double loop = evaluate the candidates in order, then fold the pure update; in diff mode for
     candidate lists without master-provided candidates (their "-1" markers are not covered) *)
  Lemma mult_loop_fold : forall k rec mas, canon k None = Ok mas ->
    forall cands, (forall fs, In fs cands -> diff && fst fs = false) ->
    forall pd robjs used,
    rmap fst (mult_loop env canon diff k rec mas cands pd robjs used) =
    rmap (fun el => fold_left pstep el (pd, robjs)) (evs k rec mas (map snd cands)).
  Proof.
    intros k rec mas Hmas cands. induction cands as [|[fm s] r IH]; intros Hfl pd robjs used.
    - reflexivity.
    - assert (Hfl' : forall fs, In fs r -> diff && fst fs = false) by (intros; apply Hfl; right; assumption).
      pose proof (Hfl (fm, s) (or_introl eq_refl)) as Hfm. cbn [fst] in Hfm.
      cbn [mult_loop map snd evs]. unfold ev.
      destruct (cand_fetch env canon diff k rec s) as [cc| |]; cbn [bind]; [|reflexivity|reflexivity].
      destruct (diff_skip diff k (fst cc)) eqn:Eds.
      { cbn [bind]. rewrite (IH Hfl'). destruct (evs k rec mas (map snd r)); reflexivity. }
      destruct (canon k (fst cc)) as [cs| |] eqn:Ec; cbn [bind]; [|reflexivity|reflexivity].
      destruct (eqs cs mas) eqn:Em.
      + cbn [bind]. rewrite (IH Hfl'). destruct (evs k rec mas (map snd r)); reflexivity.
      + destruct (fst cc) as [c|] eqn:Ecc.
        2:{ rewrite Hmas in Ec. injection Ec as E. subst. rewrite f_eqs_refl in Em. discriminate. }
        cbn [bind]. rewrite Hfm.
        destruct (pget cs pd) as [[i|]|] eqn:Eg; rewrite (IH Hfl'); destruct (evs k rec mas (map snd r)); cbn; rewrite ?Eg; reflexivity.
  Qed.

  (* what a kept pair says about its origin *)
  Lemma ev_some : forall k rec mas s t c, ev k rec mas s = Ok (Some (t, c)) ->
    exists u, cand_fetch env canon diff k rec s = Ok (Some c, u) /\ canon k (Some c) = Ok t /\ eqs t mas = false
              /\ diff_skip diff k (Some c) = false.
  Proof.
    intros k rec mas s t c H. unfold ev in H. bind_inv H as cc Hcc.
    destruct (diff_skip diff k (fst cc)) eqn:Eds; [discriminate|]. bind_inv H as cs Hcs.
    destruct (eqs cs mas) eqn:Em; [discriminate|]. destruct cc as [[c0|] u]; cbn [fst] in *; [|discriminate].
    injection H as E1 E2. subst. exists u. auto.
  Qed.
  Lemma evs_In : forall k rec mas l el p, evs k rec mas l = Ok el -> In p (somesP el) ->
    exists s, In s l /\ ev k rec mas s = Ok (Some p).
  Proof.
    intros k rec mas l. induction l as [|s l IH]; intros el p H Hp; cbn [evs] in H.
    - injection H as E. subst. destruct Hp.
    - bind_inv H as x Hx. bind_inv H as xs Hxs. injection H as E. subst el.
      destruct x as [q|]; cbn [somesP] in Hp.
      + destruct Hp as [Hp|Hp]; [subst; exists s; split; [left; reflexivity|exact Hx]|].
        destruct (IH _ _ Hxs Hp) as [s' [A B]]. exists s'. split; [right; exact A|exact B].
      + destruct (IH _ _ Hxs Hp) as [s' [A B]]. exists s'. split; [right; exact A|exact B].
  Qed.
End Base.

(* ------------------------------------------------------------------ candidates with the same body *)
(* same words (definitions) / same view of the children (scopes); headers, attributes, positions,
   contexts and disabled content may differ *)
Definition same_body (o o':obj) : Prop :=
  match o, o' with
  | Def _ ws _, Def _ ws' _ => ws = ws'
  | Scp _ ks _, Scp _ ks' _ => strip_objs ks = strip_objs ks'
  | _, _ => False
  end.
Definition oplain (o:obj) : Prop := obj_has_dollar o = false.
Definition ssim (s s':lsrc) : Prop := same_body (lobj s) (lobj s') /\ oplain (lobj s) /\ oplain (lobj s').

Lemma same_body_refl : forall o, same_body o o.
Proof. destruct o; cbn; reflexivity. Qed.
Lemma same_body_sym : forall o o', same_body o o' -> same_body o' o.
Proof. intros [h ws a|h ks a] [h' ws' a'|h' ks' a'] H; cbn in *; auto. Qed.
Lemma same_body_trans : forall a b c, same_body a b -> same_body b c -> same_body a c.
Proof. intros [? ? ?|? ? ?] [? ? ?|? ? ?] [? ? ?|? ? ?] H1 H2; cbn in *; try contradiction; congruence. Qed.
Lemma same_body_strip : forall o, same_body (strip_obj o) o.
Proof. destruct o as [h ws a|h ks a]; [reflexivity|]. rewrite strip_obj_scp. cbn. apply strip_objs_idem. Qed.
Lemma sl_same_body : forall s s', sl s = sl s' -> same_body (lobj s) (lobj s').
Proof.
  intros s s' H. unfold sl in H. eapply same_body_trans; [apply same_body_sym, same_body_strip|].
  rewrite H. apply same_body_strip.
Qed.
Lemma same_body_is_def : forall o o', same_body o o' -> is_def o = is_def o'.
Proof. intros [? ? ?|? ? ?] [? ? ?|? ? ?] H; cbn in *; try contradiction; reflexivity. Qed.

Lemma src_kids_plain1 : forall x, oplain (lobj x) -> lplain (src_kids x).
Proof.
  intros x Hx. pose proof (src_kids_plain [x]) as P. cbn [flat_map] in P. rewrite app_nil_r in P.
  apply P. intros y [E|[]]. subst. exact Hx.
Qed.

Section Sim.
  Variable env : str -> option str.
  Variable canon : obj -> option obj -> res str.
  Variable diff : bool.

  Lemma def_fetch_value_ssim : forall dm h mws a s s', ssim s s' ->
    def_fetch_value env dm h mws a s = def_fetch_value env dm h mws a s'.
  Proof.
    intros dm h mws a s s' [Hb [Hp Hp']]. unfold def_fetch_value.
    destruct (lobj s) as [h0 ws0 a0|h0 ks0 a0] eqn:Es; destruct (lobj s') as [h1 ws1 a1|h1 ks1 a1] eqn:Es'; cbn in Hb; try contradiction.
    - subst ws1. rewrite !resolve_plain; [reflexivity| |]; cbn [owords]; apply words_plain_b; [exact Hp'|exact Hp].
    - reflexivity.
  Qed.

  Lemma def_fetch_ssim : forall h mws a s s', ssim s s' ->
    def_fetch env canon diff h mws a s = def_fetch env canon diff h mws a s'.
  Proof. intros. unfold def_fetch. rewrite !(def_fetch_value_ssim _ _ _ _ s s') by assumption. reflexivity. Qed.

  Lemma src_kids_ssim : forall s s', ssim s s' -> lview (src_kids s) = lview (src_kids s').
  Proof.
    intros s s' [Hb _]. rewrite !lview_src_kids. unfold sl.
    destruct (lobj s) as [? ? ?|? ks ?]; destruct (lobj s') as [? ? ?|? ks' ?]; cbn in Hb; try contradiction; [reflexivity|].
    rewrite !strip_obj_scp. cbn. exact Hb.
  Qed.

  Lemma cand_fetch_ssim : forall k rec s s', rec_ok rec -> ssim s s' ->
    rrel (fun cu cu' : option obj * list pos => fst cu = fst cu')
         (cand_fetch env canon diff k rec s) (cand_fetch env canon diff k rec s').
  Proof.
    intros k rec s s' Hrec Hs. destruct k as [h mws a|h ks a]; cbn [cand_fetch].
    - rewrite (def_fetch_ssim _ _ _ s s') by exact Hs.
      destruct (def_fetch env canon diff h mws a s'); cbn; auto.
    - pose proof Hs as [Hb [Hp Hp']]. cbn [combine].
      rewrite (same_body_is_def _ _ Hb). destruct (is_def (lobj s')); [cbn; auto|]. cbn [bind].
      rewrite !app_nil_r. eapply rrel_bind.
      + apply Hrec.
        * apply src_kids_ssim. exact Hs.
        * apply src_kids_plain1. exact Hp.
        * apply src_kids_plain1. exact Hp'.
      + intros oc oc' E. cbn. unfold same_tree in E. rewrite E. reflexivity.
  Qed.
End Sim.

(* ------------------------------------------------------------------ which result objects a name matches *)
Definition onm (o:obj) : str := oname (ohdr o).
Definition nodot (n:str) : Prop := mem "." n = false.

(* the view of source.get(name) over an object list [os] (positions and contexts forgotten) *)
Definition gview (n:str) (os:list obj) : list obj :=
  flat_map (fun o => lview (gwsp [] [] n o)) (strip_objs os).

Lemma strip_objs_app : forall a b, strip_objs (a ++ b) = strip_objs a ++ strip_objs b.
Proof.
  induction a as [|k a IH]; intros b; [reflexivity|]. cbn [app strip_objs].
  destruct (odis (ohdr k)); [apply IH|]. cbn. rewrite IH. reflexivity.
Qed.

Lemma match_sources_gview : forall n l os, lview l = strip_objs os ->
  map sl (match_sources n l) = gview n os.
Proof. intros n l os H. rewrite match_sources_view, H. reflexivity. Qed.

Lemma gview_app : forall n a b, gview n (a ++ b) = gview n a ++ gview n b.
Proof. intros. unfold gview. rewrite strip_objs_app. apply flat_map_app. Qed.

Lemma prefix_dot : forall a n, prefixb (a ++ ["."]) n = true -> mem "." n = true.
Proof.
  induction a as [|c a IH]; intros n H.
  - destruct n as [|d n]; [discriminate|]. cbn in H. rewrite andb_true_r in H. cbn. rewrite H. reflexivity.
  - destruct n as [|d n]; [discriminate|]. cbn in H. apply andb_true_iff in H. destruct H as [_ H].
    cbn. rewrite (IH _ H). apply orb_true_r.
Qed.

(* an active object named n is matched by n, as itself *)
Lemma gview_one_same : forall n o, n <> [] -> onm o = n -> odis (ohdr o) = false -> gview n [o] = [strip_obj o].
Proof.
  intros n o Hn Ho Hd. unfold gview. cbn [strip_objs]. rewrite Hd. cbn [flat_map]. rewrite app_nil_r.
  unfold onm in Ho. destruct o as [h ws a|h ks a]; cbn [ohdr] in *.
  - cbn [strip_obj gwsp]. rewrite Hd, Ho, f_eqs_refl. cbn [orb negb]. unfold lview. cbn [flat_map lobj ohdr].
    rewrite Hd. reflexivity.
  - rewrite strip_obj_scp. cbn [gwsp]. rewrite Hd. rewrite Ho. destruct n as [|c n]; [congruence|].
    rewrite f_eqs_refl. unfold lview. cbn [flat_map lobj ohdr]. rewrite Hd. cbn.
    unfold sl. cbn [lobj app]. f_equal. apply (strip_obj_idem (Scp h ks a)).
Qed.

(* an object with another (non-empty) name is not matched by a name without dots *)
Lemma gview_one_other : forall n o, nodot n -> onm o <> n -> onm o <> [] -> gview n [o] = [].
Proof.
  intros n o Hn Ho He. unfold gview. cbn [strip_objs]. destruct (odis (ohdr o)) eqn:Hd; [reflexivity|].
  cbn [flat_map]. rewrite app_nil_r. unfold onm in *.
  assert (Ee : eqs (oname (ohdr o)) n = false).
  { destruct (eqs (oname (ohdr o)) n) eqn:E; [apply f_eqs_eq in E; contradiction|reflexivity]. }
  destruct o as [h ws a|h ks a]; cbn [ohdr] in *.
  - cbn [strip_obj gwsp]. rewrite Hd, Ee. reflexivity.
  - rewrite strip_obj_scp. cbn [gwsp]. rewrite Hd. destruct (oname h) as [|c nm] eqn:En; [congruence|].
    rewrite Ee. destruct (prefixb ((c :: nm) ++ ["."]) n) eqn:Ep; [|reflexivity].
    apply prefix_dot in Ep. unfold nodot in Hn. congruence.
Qed.

Lemma gview_same : forall n os, n <> [] -> (forall o, In o os -> onm o = n /\ odis (ohdr o) = false) ->
  gview n os = strip_objs os.
Proof.
  intros n os Hn. induction os as [|o r IH]; intros H; [reflexivity|].
  change (o :: r) with ([o] ++ r). rewrite gview_app, strip_objs_app.
  destruct (H o (or_introl eq_refl)) as [A B]. rewrite (gview_one_same n o Hn A B).
  cbn [strip_objs]. rewrite B. f_equal. apply IH. intros x Hx. apply H. right. exact Hx.
Qed.

Lemma gview_other : forall n os, nodot n -> (forall o, In o os -> onm o <> n /\ onm o <> []) -> gview n os = [].
Proof.
  intros n os Hn. induction os as [|o r IH]; intros H; [reflexivity|].
  change (o :: r) with ([o] ++ r). rewrite gview_app.
  destruct (H o (or_introl eq_refl)) as [A B]. rewrite (gview_one_other n o Hn A B).
  apply IH. intros x Hx. apply H. right. exact Hx.
Qed.

(* ------------------------------------------------------------------ "$"-free runs give "$"-free results *)
Lemma oplain_scp : forall h ks a, oplain (Scp h ks a) <-> (forall k, In k ks -> oplain k).
Proof.
  intros h ks a. unfold oplain. rewrite has_dollar_scp. split.
  - intros H k Hk. destruct (obj_has_dollar k) eqn:E; [|reflexivity].
    assert (existsb obj_has_dollar ks = true) by (apply existsb_exists; exists k; split; assumption). congruence.
  - intros H. destruct (existsb obj_has_dollar ks) eqn:E; [|reflexivity].
    apply existsb_exists in E. destruct E as [k [Hk E]]. rewrite (H k Hk) in E. discriminate.
Qed.
Lemma oplain_def : forall h ws a, oplain (Def h ws a) <-> words_plain ws.
Proof.
  intros h ws a. unfold oplain. cbn [obj_has_dollar]. split; [apply words_plain_b|].
  intros H. destruct (existsb word_has_dollar ws) eqn:E; [|reflexivity].
  apply existsb_exists in E. destruct E as [w [Hw E]]. unfold word_has_dollar in E. rewrite (H w Hw) in E. discriminate.
Qed.
Lemma oplain_set_hdr : forall o h, oplain o -> oplain (set_hdr o h).
Proof. intros [h0 ws a|h0 ks a] h H; exact H. Qed.

Lemma mem_unstar : forall c s, mem c (unstar s) = true -> mem c s = true.
Proof.
  intros c s H. unfold unstar in H. destruct (starts_star s) eqn:E; [|exact H].
  destruct s as [|d s]; [discriminate|]. cbn in *. rewrite H. apply orb_true_r.
Qed.

Lemma choice_fetch_plain : forall opt m src ign r, words_plain m ->
  choice_fetch opt m src ign = Ok r -> words_plain r.
Proof.
  intros opt m src ign r Hm H. destruct (alternatives_kept opt m src ign r H) as [A B].
  destruct (is_plain_auto src) eqn:Ea.
  - rewrite (A eq_refl). intros w [E|[]]. subst. reflexivity.
  - destruct (B eq_refl) as [_ [_ [_ [F _]]]]. clear -F Hm.
    induction F as [|x y l l' Hxy _ IH]; intros w Hw; [destruct Hw|].
    destruct Hw as [E|Hw].
    + subst w. assert (Hy : mem "$" (wv y) = false) by (apply Hm; left; reflexivity).
      destruct (mem "$" (wv x)) eqn:Ex; [|reflexivity]. exfalso.
      destruct Hxy as [E|E]; rewrite E in Ex.
      * apply mem_unstar in Ex. congruence.
      * cbn in Ex. apply mem_unstar in Ex. congruence.
    + apply IH; [|exact Hw]. intros z Hz. apply Hm. right. exact Hz.
Qed.

Section Plain.
  Variable env : str -> option str.
  Variable canon : obj -> option obj -> res str.
  Variable diff : bool.

  Lemma def_fetch_value_plain : forall dm h mws a s o, words_plain mws -> oplain (lobj s) ->
    def_fetch_value env dm h mws a s = Ok (Some o) -> oplain o.
  Proof.
    intros dm h mws a s o Hm Hs H. unfold def_fetch_value in H.
    destruct (lobj s) as [h0 ws0 a0|] eqn:Es; [|discriminate].
    apply oplain_def in Hs. rewrite resolve_plain in H by exact Hs. cbn [bind owords] in H.
    destruct (odeprecated (Def h mws a) && sval_eqb (strings_from_words ws0) (strings_from_words mws)); [discriminate|].
    destruct (get_attr (s_ "type") a) as [| | | | |t]; try (injection H as E; subst; apply oplain_def; exact Hs).
    destruct t; try (injection H as E; subst; apply oplain_def; exact Hs).
    - bind_inv H as cw Hcw. injection H as E. subst. apply oplain_def. eapply choice_fetch_plain; [exact Hm|exact Hcw].
    - destruct (prefixb (s_ "float") printed || prefixb (s_ "int") printed); [|discriminate].
      injection H as E. subst. apply oplain_def. exact Hs.
  Qed.

  Lemma def_fetch_plain : forall h mws a s o, words_plain mws -> oplain (lobj s) ->
    def_fetch env canon diff h mws a s = Ok (Some o) -> oplain o.
  Proof.
    intros h mws a s o Hm Hs H. unfold def_fetch in H. destruct diff.
    - bind_inv H as r Hr. bind_inv H as x Hx. bind_inv H as y Hy. destruct (eqs x y); [discriminate|].
      injection H as E. subst. eapply def_fetch_value_plain; eassumption.
    - eapply def_fetch_value_plain; eassumption.
  Qed.

  Lemma def_loop_plain : forall h mws a ms last o, words_plain mws -> lplain ms ->
    (forall x, last = Some x -> oplain x) ->
    def_loop env canon diff h mws a ms last = Ok (Some o) -> oplain o.
  Proof.
    intros h mws a ms. induction ms as [|s r IH]; intros last o Hm Hp Hl H; cbn [def_loop] in H.
    - injection H as E. apply Hl. exact E.
    - bind_inv H as x Hx. eapply IH; [exact Hm| | |exact H].
      + intros y Hy. apply Hp. right. exact Hy.
      + intros y Ey. subst x. eapply def_fetch_plain; [exact Hm| |exact Hx]. apply Hp. left. reflexivity.
  Qed.

  Definition rec_plain (rec:list lsrc -> res fout) : Prop :=
    forall comb oc, lplain comb -> rec comb = Ok oc -> forall x, In x (fst oc) -> oplain x.

  Lemma cand_fetch_plain : forall k rec s c u, oplain k -> rec_plain rec -> oplain (lobj s) ->
    cand_fetch env canon diff k rec s = Ok (Some c, u) -> oplain c.
  Proof.
    intros k rec s c u Hk Hrec Hs H. destruct k as [h mws a|h ks a]; cbn [cand_fetch] in H.
    - bind_inv H as r Hr. injection H as E _. subst r. eapply def_fetch_plain; [apply (proj1 (oplain_def h mws a)); exact Hk|exact Hs|exact Hr].
    - bind_inv H as comb Hcomb. bind_inv H as oc Hoc. injection H as E _. subst c.
      cbn [combine] in Hcomb. destruct (is_def (lobj s)); [discriminate|]. cbn in Hcomb. injection Hcomb as E. subst comb.
      unfold scopy. apply oplain_scp. eapply Hrec; [|exact Hoc]. rewrite app_nil_r. apply src_kids_plain1. exact Hs.
  Qed.

  Lemma mult_loop_plain : forall k rec mas cands pd robjs used st, oplain k -> rec_plain rec ->
    (forall fs, In fs cands -> oplain (lobj (snd fs))) ->
    (forall c, In (Some c) robjs -> oplain c) ->
    mult_loop env canon diff k rec mas cands pd robjs used = Ok st ->
    forall c, In (Some c) (snd (fst st)) -> oplain c.
  Proof.
    intros k rec mas cands. induction cands as [|[fm s] r IH]; intros pd robjs used st Hk Hrec Hc Hr H.
    - cbn in H. injection H as E. subst. exact Hr.
    - cbn [mult_loop] in H. bind_inv H as cc Hcc. destruct cc as [cand u]. cbn [fst snd] in H.
      assert (Hr' : forall fs, In fs r -> oplain (lobj (snd fs))) by (intros; apply Hc; right; assumption).
      destruct (diff_skip diff k cand); [eapply IH; eassumption|].
      bind_inv H as cs Hcs. destruct (eqs cs mas); [eapply IH; eassumption|].
      assert (Hcand : forall c, cand = Some c -> oplain c).
      { intros c E. subst cand. eapply cand_fetch_plain; [exact Hk|exact Hrec| |exact Hcc]. apply (Hc (fm, s)). left. reflexivity. }
      assert (Hstep : forall i, (forall c, In (Some c) (match i with Some (Some j) => set_none j robjs | _ => robjs end ++ [cand]) -> oplain c)).
      { intros i c Hin. apply in_app_or in Hin. destruct Hin as [Hin|[Hin|[]]]; [|apply Hcand; exact Hin].
        apply Hr. destruct i as [[j|]|]; [eapply set_none_In; exact Hin|exact Hin|exact Hin]. }
      assert (Hsn : forall i c, In (Some c) (match i with Some (Some j) => set_none j robjs | _ => robjs end) -> oplain c).
      { intros i c Hin. apply Hr. destruct i as [[j|]|]; [eapply set_none_In; exact Hin|exact Hin|exact Hin]. }
      destruct (pget cs pd) as [[i|]|] eqn:Eg.
      + destruct (diff && fm); (eapply IH; [exact Hk|exact Hrec|exact Hr'| |exact H]); [apply (Hsn (Some (Some i)))|apply (Hstep (Some (Some i)))].
      + eapply IH; eassumption.
      + destruct (diff && fm); (eapply IH; [exact Hk|exact Hrec|exact Hr'| |exact H]); [apply (Hsn None)|apply (Hstep None)].
  Qed.

  Lemma self_matching_plain : forall allks chain i n s, (forall k, In k allks -> oplain k) ->
    In s (self_matching allks chain i n) -> oplain (lobj s).
  Proof.
    intros allks chain i n s H Hs. unfold self_matching in Hs. apply filter_In in Hs. destruct Hs as [Hs _].
    apply in_flat_map in Hs. destruct Hs as [[j k] [Hjk Hs]]. cbn [fst snd] in Hs.
    destruct ((j =? i)%nat || odis (ohdr k)); [destruct Hs|].
    eapply gwsp_plain; [|exact Hs]. apply H. eapply In_index_from. exact Hjk.
  Qed.

  Lemma In_somes_opt : forall (l:list (option obj)) c, In c (somes l) -> In (Some c) l.
  Proof. intros l c H. apply In_somes. exact H. Qed.

  Lemma fetch_one_plain : forall allks chain i k rec srcs o,
    (forall x, In x allks -> oplain x) -> oplain k -> rec_plain rec -> lplain srcs ->
    fetch_one env canon diff allks chain i k rec srcs = Ok o -> forall x, In x (fst o) -> oplain x.
  Proof.
    intros allks chain i k rec srcs o Hall Hk Hrec Hp H. unfold fetch_one in H.
    destruct (get_attr (s_ "alias") (oattrs k)); try discriminate.
    destruct (oname (ohdr k)) as [|c0 nm] eqn:En; [discriminate|].
    pose proof (match_sources_plain (c0 :: nm) srcs Hp) as Hm.
    destruct (omultiple k) eqn:Em; cbn [negb] in H.
    - bind_inv H as mas Hmas. bind_inv H as st Hst. destruct st as [[pd robjs] used]. injection H as E. subst o. cbn [fst].
      intros x Hx. apply in_app_or in Hx. destruct Hx as [Hx|Hx].
      + destruct diff; [destruct Hx|]. destruct Hx as [Hx|[]]. subst x. unfold template_of. apply oplain_set_hdr. exact Hk.
      + apply In_somes in Hx.
        eapply (mult_loop_plain k rec mas _ [] [] [] (pd, robjs, used) Hk Hrec); [| |exact Hst|exact Hx].
        * intros fs Hfs. apply in_app_or in Hfs. destruct Hfs as [Hfs|Hfs]; apply in_map_iff in Hfs; destruct Hfs as [s [E Hs]]; subst fs; cbn [snd].
          -- eapply self_matching_plain; eassumption.
          -- apply Hm. exact Hs.
        * intros c [].
    - destruct k as [h mws a|h ks a].
      + bind_inv H as ro Hro. destruct ro as [x0|].
        * injection H as E. subst o. cbn [fst]. intros x [Hx|[]]. subst x.
          eapply def_loop_plain; [apply (proj1 (oplain_def h mws a)); exact Hk|exact Hm| |exact Hro]. intros y Ey. discriminate.
        * destruct (negb diff && negb (odeprecated (Def h mws a))); injection H as E; subst o; cbn [fst]; intros x Hx; [|destruct Hx].
          destruct Hx as [Hx|[]]. subst. exact Hk.
      + bind_inv H as comb Hcomb. bind_inv H as oc Hoc.
        assert (Hcp : lplain comb).
        { clear -Hcomb Hm. revert comb Hcomb Hm. induction (match_sources (c0 :: nm) srcs) as [|s r IH]; intros comb Hcomb Hm.
          - cbn in Hcomb. injection Hcomb as E. subst. intros x [].
          - cbn [combine] in Hcomb. destruct (is_def (lobj s)); [discriminate|]. bind_inv Hcomb as rest Hrest. injection Hcomb as E. subst comb.
            intros x Hx. apply in_app_or in Hx. destruct Hx as [Hx|Hx].
            + eapply src_kids_plain1; [|exact Hx]. apply Hm. left. reflexivity.
            + eapply IH; [exact Hrest| |exact Hx]. intros y Hy. apply Hm. right. exact Hy. }
        destruct (diff && null_objs (fst oc)); injection H as E; subst o; cbn [fst]; intros x Hx; [destruct Hx|].
        destruct Hx as [Hx|[]]. subst x. unfold scopy. apply oplain_scp. eapply Hrec; eassumption.
  Qed.

  Lemma mloop_plain : forall (body:nat -> obj -> res fout) l,
    (forall i k o, In k l -> body i k = Ok o -> forall x, In x (fst o) -> oplain x) ->
    forall seen i o, mloop body seen i l = Ok o -> forall x, In x (fst o) -> oplain x.
  Proof.
    intros body l. induction l as [|k r IH]; intros Hb seen i o H.
    - cbn in H. injection H as E. subst. intros x [].
    - cbn [mloop] in H.
      assert (Hr : forall i k o, In k r -> body i k = Ok o -> forall x, In x (fst o) -> oplain x)
        by (intros; eapply Hb; [right; eassumption|eassumption|eassumption]).
      destruct (mao_step seen k) as [| |seen'].
      + eapply IH; eassumption.
      + discriminate.
      + bind_inv H as a Ha. bind_inv H as b Hb'. injection H as E. subst o. cbn [fst].
        intros x Hx. apply in_app_or in Hx. destruct Hx as [Hx|Hx].
        * eapply Hb; [left; reflexivity|exact Ha|exact Hx].
        * eapply IH; eassumption.
  Qed.

  Lemma fetch_scope_plain : forall M, oplain M -> forall mchain, rec_plain (fetch_scope env canon diff M mchain).
  Proof.
    induction M as [h ws a|h ks a IH] using obj_ind2; intros HM mchain comb oc Hp H.
    - cbn in H. discriminate.
    - cbn [fetch_scope] in H. pose proof (proj1 (oplain_scp h ks a) HM) as Hks.
      eapply mloop_plain; [|exact H].
      intros i k o Hk Ho. eapply fetch_one_plain; [exact Hks|apply Hks; exact Hk| |exact Hp|exact Ho].
      rewrite Forall_forall in IH. apply IH; [exact Hk|apply Hks; exact Hk].
  Qed.
End Plain.
