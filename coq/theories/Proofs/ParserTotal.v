(* C16 for the parser model: parse never ends in an internal error unless one of the three
   oracle functions (.type construction, eval-based integer, .call proxy) does, and the fuel
   the entry point passes is never exhausted (every call returns). *)
From Coq Require Import List Ascii String Bool Arith ZArith Lia.
From Phil Require Import Base Tokenizer Tree Parser LexProofs.
Import ListNotations.
Local Open Scope char_scope.

Definition ok_res {A} (r:res A) : Prop := match r with Crash _ => False | _ => True end.
Definition oracle_ok (o:oracle) : Prop := Forall (fun kv => ok_res (snd kv)) o.

Lemma olookup_ok : forall o k r, oracle_ok o -> olookup k o = Some r -> ok_res r.
Proof.
  induction o as [|[k' v] o IH]; intros k r Ho H; [discriminate|].
  cbn [olookup] in H. inversion Ho; subst. destruct (eqs k k').
  - inversion H; subst. assumption.
  - eapply IH; eassumption.
Qed.
Lemma ask_ok : forall o kind ws, oracle_ok o -> ok_res (ask o kind ws).
Proof.
  intros o kind ws Ho. unfold ask. destruct (olookup (kind :: wkey ws) o) eqn:E; [|exact I].
  eapply olookup_ok; eassumption.
Qed.

Lemma str_from_words_cases : forall ws, str_from_words ws = ANone \/ str_from_words ws = AAuto \/ exists v, str_from_words ws = AStr v.
Proof. intros ws. unfold str_from_words. destruct (is_plain_none ws); [auto|]. destruct (is_plain_auto ws); [auto|]. right; right; eexists; reflexivity. Qed.

Lemma bool_from_words_ok : forall ws, ws <> [] -> ok_res (bool_from_words ws).
Proof.
  intros ws Hne. unfold bool_from_words.
  destruct (str_from_words_cases ws) as [E|[E|[v E]]]; rewrite E; try exact I.
  destruct (mems _ _); [exact I|]. destruct (mems _ _); [exact I|].
  destruct ws; [congruence|exact I].
Qed.
Lemma int_from_words_ok : forall o ws, oracle_ok o -> ok_res (int_from_words o ws).
Proof.
  intros o ws Ho. unfold int_from_words.
  destruct (str_from_words_cases ws) as [E|[E|[v E]]]; rewrite E; try exact I.
  destruct (_ || _); [exact I|]. destruct (eqs _ _); [exact I|]. destruct (eqs _ _); [exact I|].
  destruct (plain_int v); [exact I|]. apply ask_ok; exact Ho.
Qed.
Lemma assign_def_attr_ok : forall o n ws, oracle_ok o -> ws <> [] -> ok_res (assign_def_attr o n ws).
Proof.
  intros o n ws Ho Hne. unfold assign_def_attr.
  destruct (_ || _); [apply bool_from_words_ok; exact Hne|].
  destruct (eqs n _).
  - destruct (is_plain_none ws); [exact I|]. destruct (is_plain_auto ws); [exact I|]. apply ask_ok; exact Ho.
  - destruct (_ || _); [apply int_from_words_ok; exact Ho|exact I].
Qed.
Lemma assign_scope_attr_ok : forall o n ws, oracle_ok o -> ws <> [] -> ok_res (assign_scope_attr o n ws).
Proof.
  intros o n ws Ho Hne. unfold assign_scope_attr.
  destruct (mems n _); [apply bool_from_words_ok; exact Hne|].
  destruct (eqs n _); [apply int_from_words_ok; exact Ho|].
  destruct (eqs n _).
  - destruct (is_plain_none ws); [exact I|]. destruct (is_plain_auto ws); [exact I|]. apply ask_ok; exact Ho.
  - destruct (eqs n _); [|exact I].
    destruct (str_from_words_cases ws) as [E|[E|[v E]]]; rewrite E; try exact I.
    destruct (count_specs v) as [[|[|n0]]|]; exact I.
Qed.

(* ---------- progress of the token readers *)
Lemma pop_shorter : forall σ s line w r l, pop σ s line = Ok (w, r, l) -> length r < length s.
Proof.
  intros σ s line w r l H. unfold pop in H. destruct (nw σ false s line) eqn:E; try discriminate.
  inversion H; subst. eapply nw_rest_shorter; exact E.
Qed.
Lemma pop_ok : forall σ s line, ok_res (pop σ s line).
Proof. intros. unfold pop. destruct (nw σ false s line); exact I. Qed.
Lemma pop_unq_shorter : forall σ s line w r l, pop_unq σ s line = Ok (w, r, l) -> length r < length s.
Proof.
  intros σ s line w r l H. unfold pop_unq in H. destruct (pop σ s line) as [[[w0 r0] l0]| |] eqn:E; try discriminate.
  destruct (isq w0); [discriminate|]. inversion H; subst. eapply pop_shorter; exact E.
Qed.
Lemma pop_unq_ok : forall σ s line, ok_res (pop_unq σ s line).
Proof.
  intros. unfold pop_unq. pose proof (pop_ok σ s line) as H. destruct (pop σ s line) as [[[w0 r0] l0]| |]; try exact I.
  - destruct (isq w0); exact I.
  - exact H.
Qed.

Definition caw_post (s:str) (r:res (list word * str * nat)) : Prop :=
  match r with
  | Crash _ => False
  | Ok (ws, s', _) => length s' <= length s /\ ws <> []
  | UErr _ _ _ => True end.

Lemma caw_total : forall fuel s line hc last acc lead, length s < fuel ->
  caw_post s (caw fuel s line hc last acc lead).
Proof.
  induction fuel as [|f IH]; intros s line hc last acc lead Hlt; [lia|].
  cbn [caw].
  assert (Hfin : forall s' l', length s' <= length s ->
            caw_post s (match acc with [] => E "MissingValue" (str_of_word lead) (wline lead) | _ => Ok (rev acc, s', l') end)).
  { intros s' l' Hs. destruct acc as [|a acc']; [exact I|]. split; [exact Hs|].
    intros Hc. apply (f_equal (@length word)) in Hc. rewrite rev_length in Hc. discriminate Hc. }
  destruct (nw s1 false s line) as [|w r l|l] eqn:En.
  - apply (Hfin [] line). cbn; lia.
  - pose proof (nw_rest_shorter _ _ _ _ _ _ _ En) as Hr.
    assert (Hrec : forall hc' last' acc', caw_post s (caw f r l hc' last' acc' lead)).
    { intros hc' last' acc'. specialize (IH r l hc' last' acc' lead ltac:(lia)). unfold caw_post in *.
      destruct (caw f r l hc' last' acc' lead) as [[[ws s'] l']| |]; try exact IH. destruct IH; split; [lia|assumption]. }
    destruct (negb hc && negb (isq w) && (is1 w "{" || is1 w "}" || is1 w ";" || is1 w "#")).
    + destruct (is1 w ";"); [apply Hfin; lia|].
      destruct (negb (is1 w "#")); [apply Hfin; lia|apply Hrec].
    + destruct (isq w || weq last [bs]); [apply Hrec|].
      destruct (negb (wline w =? wline last)%nat); [apply Hfin; lia|apply Hrec].
  - exact I.
Qed.

(* ---------- the off-region scanner never moves backwards *)
Lemma drop_le : forall {A} n (l:list A), length (drop n l) <= length l.
Proof. induction n as [|n IH]; intros [|a l]; cbn [drop length]; try lia. specialize (IH l). lia. Qed.
Lemma skip_nonspace_le : forall s, length (skip_nonspace s) <= length s.
Proof. induction s as [|c s IH]; cbn [skip_nonspace length]; [lia|]. destruct (isspace c); cbn [length]; lia. Qed.
Lemma skip_space_le : forall s, length (skip_space s) <= length s.
Proof. induction s as [|c s IH]; cbn [skip_space length]; [lia|]. destruct (isspace c && negb (Ascii.eqb c nl)); cbn [length]; lia. Qed.
Lemma after_followup_le : forall s line r l b, after_followup s line = (r, l, b) -> length r <= length s.
Proof.
  induction s as [|c s IH]; intros line r l b H; cbn [after_followup] in H.
  - inversion H; subst; cbn; lia.
  - destruct (Ascii.eqb c nl); [inversion H; subst; cbn; lia|].
    destruct (isspace c); [specialize (IH _ _ _ _ H); cbn; lia|inversion H; subst; cbn; lia].
Qed.

Lemma nlrun_le : forall (k:str -> nat -> str * nat * option nat),
  (forall t ln, length (fst (fst (k t ln))) <= length t) ->
  forall g t ln, length (fst (fst (nlrun k g t ln))) <= length t.
Proof.
  intros k Hk g; induction g as [|g IH]; intros t ln; cbn [nlrun]; [cbn; lia|].
  destruct t as [|c0 t1]; [cbn; lia|].
  destruct t1 as [|d t1']; [cbn; lia|].
  destruct (Ascii.eqb d nl).
  - specialize (IH (d :: t1') (S ln)). cbn [length] in *. lia.
  - destruct (negb (prefixb intro (d :: t1'))).
    + specialize (Hk (drop 1 (d :: t1')) (S ln)). pose proof (drop_le 1 (d :: t1')). cbn [length] in *. lia.
    + set (t2 := drop (length intro) (d :: t1')).
      assert (H2 : length t2 <= length (d :: t1')) by apply drop_le.
      pose proof (skip_nonspace_le t2) as H3.
      destruct (skip_nonspace t2) as [|c3 t3'] eqn:E3; [cbn; lia|].
      pose proof (skip_space_le (c3 :: t3')) as H4.
      destruct (skip_space (c3 :: t3')) as [|c4 t4'] eqn:E4; [cbn; lia|].
      destruct (prefixb f_end (c4 :: t4')).
      * destruct (after_followup (drop (length f_end) (c4 :: t4')) (S ln)) as [[t5 ln5] ret] eqn:E5.
        pose proof (after_followup_le _ _ _ _ _ E5) as H5. pose proof (drop_le (length f_end) (c4 :: t4')) as H6.
        destruct ret; [cbn [fst length] in *; lia|]. specialize (Hk t5 ln5). cbn [length] in *. lia.
      * destruct (prefixb f_on (c4 :: t4')).
        -- destruct (after_followup (drop (length f_on) (c4 :: t4')) (S ln)) as [[t5 ln5] ret] eqn:E5.
           pose proof (after_followup_le _ _ _ _ _ E5) as H5. pose proof (drop_le (length f_on) (c4 :: t4')) as H6.
           destruct ret; [cbn [fst length] in *; lia|]. specialize (Hk t5 ln5). cbn [length] in *. lia.
        -- specialize (Hk (c4 :: t4') (S ln)). cbn [length] in *. lia.
Qed.

Lemma sfs_le : forall fuel s line, length (fst (fst (sfs fuel s line))) <= length s.
Proof.
  induction fuel as [|f IH]; intros s line; cbn [sfs]; [cbn; lia|].
  destruct s as [|c r]; [cbn; lia|].
  destruct (negb (Ascii.eqb c nl)).
  - specialize (IH r line). cbn [length]. lia.
  - apply nlrun_le. exact IH.
Qed.

(* ---------- scope attribute loop *)
Definition sattrs_post (s:str) (r:res (attrs * word * str * nat)) : Prop :=
  match r with Crash _ => False | Ok (_, _, s', _) => length s' <= length s | UErr _ _ _ => True end.

Lemma expect_eq_ok : forall w, ok_res (expect_eq w).
Proof. intros w. unfold expect_eq. destruct (eqs (wv w) ["="]); exact I. Qed.

Lemma sattrs_total : forall o, oracle_ok o -> forall fuel w s line acc, length s < fuel ->
  sattrs_post s (sattrs o fuel w s line acc).
Proof.
  intros o Ho. induction fuel as [|f IH]; intros w s line acc Hlt; [lia|].
  cbn [sattrs].
  destruct (eqs (wv w) ["{"]); [cbn; lia|].
  destruct (strip_bang (wv w)) as [v dis].
  destruct v as [|c an]; [exact I|].
  destruct (Ascii.eqb c "." && mems an scope_attr_names); [|exact I].
  pose proof (pop_unq_ok s0 s line) as Hp.
  destruct (pop_unq s0 s line) as [[[eqw r] l]| |] eqn:E1; cbn [bind]; try exact I; [|exact Hp].
  pose proof (pop_unq_shorter _ _ _ _ _ _ E1) as Hr.
  pose proof (expect_eq_ok eqw) as He.
  destruct (expect_eq eqw) as [u| |]; cbn [bind]; try exact I; [|exact He].
  pose proof (caw_total (S (length r)) r l false (mkword (c :: an) QN (wline w)) [] (mkword (c :: an) QN (wline w)) ltac:(lia)) as Hc.
  destruct (caw (S (length r)) r l false _ [] _) as [[[ws r2] l2]| |]; cbn [bind]; try exact I; [|exact Hc].
  destruct Hc as [Hr2 Hws].
  assert (Hacc : ok_res (if dis then Ok acc else do av <- assign_scope_attr o an ws ; Ok (set_attr an av acc))).
  { destruct dis; [exact I|]. pose proof (assign_scope_attr_ok o an ws Ho Hws) as Ha.
    destruct (assign_scope_attr o an ws); cbn [bind]; try exact I. exact Ha. }
  destruct (if dis then Ok acc else _) as [acc'| |]; cbn [bind]; try exact I; [|exact Hacc].
  pose proof (pop_unq_ok s0 r2 l2) as Hp2.
  destruct (pop_unq s0 r2 l2) as [[[w2 r3] l3]| |] eqn:E2; cbn [bind]; try exact I; [|exact Hp2].
  pose proof (pop_unq_shorter _ _ _ _ _ _ E2) as Hr3.
  specialize (IH w2 r3 l3 acc' ltac:(lia)). unfold sattrs_post in *.
  destruct (sattrs o f w2 r3 l3 acc') as [[[[a bw] s'] l']| |]; try exact IH. lia.
Qed.

(* ---------- collect_objects *)
Definition cobj_post (s:str) (r:res (list obj * str * nat * nat)) : Prop :=
  match r with Crash _ => False | Ok (_, s', _, _) => length s' <= length s | UErr _ _ _ => True end.

Lemma cobj_post_mono : forall s s' r, length s' <= length s -> cobj_post s' r -> cobj_post s r.
Proof. intros s s' [[[[a b] c] d]| |] H; cbn; try tauto. lia. Qed.

Lemma cobj_total : forall o, oracle_ok o -> forall fuel s line nid stop start prev active acc,
  length s < fuel -> cobj_post s (cobj o fuel s line nid stop start prev active acc).
Proof.
  intros o Ho. induction fuel as [|f IH]; intros s line nid stop start prev active acc Hlt; [lia|].
  cbn [cobj].
  set (nomatch := match start with
                  | None => E "MissingBrace" [] 0
                  | Some sw => E "NoMatchingBrace" (str_of_word sw) (wline sw) end : res (list obj * str * nat * nat)).
  assert (Hnm : cobj_post s nomatch) by (unfold nomatch; destruct start; exact I).
  assert (Hrec : forall s' line' nid' stop' start' prev' active' acc', length s' < length s ->
             cobj_post s (cobj o f s' line' nid' stop' start' prev' active' acc')).
  { intros. eapply cobj_post_mono; [|apply IH]; lia. }
  destruct (nw s0 false s line) as [|lead r l|l] eqn:En; [destruct stop; [exact Hnm|cbn; lia]| |exact I].
  pose proof (nw_rest_shorter _ _ _ _ _ _ _ En) as Hr.
  destruct (isq lead); [exact I|].
  destruct (eqs (wv lead) intro && negb (wline lead =? prev)%nat).
  { pose proof (pop_unq_ok s0 r l) as Hp.
    destruct (pop_unq s0 r l) as [[[w r2] l2]| |] eqn:E1; cbn [bind]; try exact I; [|exact Hp].
    pose proof (pop_unq_shorter _ _ _ _ _ _ E1) as Hr2.
    destruct (eqs (wv w) f_end); [destruct stop; [exact Hnm|cbn; lia]|].
    destruct (eqs (wv w) f_on); [apply Hrec; lia|].
    destruct (negb (eqs (wv w) f_off)); [exact I|].
    pose proof (sfs_le (S (length r2)) r2 l2) as Hs.
    destruct (sfs (S (length r2)) r2 l2) as [[r3 l3] fu]. cbn [fst] in Hs.
    destruct fu as [[|n]|]; try (apply Hrec; lia).
    destruct stop; [exact Hnm|cbn; lia]. }
  destruct (stop && eqs (wv lead) ["}"]); [cbn; lia|].
  destruct (eqs (wv lead) ["{"]); [exact I|].
  destruct (strip_bang (wv lead)) as [lv dis].
  pose proof (pop_ok s0 r l) as Hp.
  destruct (pop s0 r l) as [[[w r2] l2]| |] eqn:E1; cbn [bind]; try exact I; [|exact Hp].
  pose proof (pop_shorter _ _ _ _ _ _ E1) as Hr2.
  destruct (negb (isq w) && (eqs (wv w) ["{"] || prefixb ["."] (wv w) || prefixb ["!"; "."] (wv w))).
  { destruct (negb (is_ident lv)); [destruct (eqs lv [";"]); exact I|].
    destruct (name_reserved_scp lv); [exact I|].
    pose proof (sattrs_total o Ho (S (length r2)) w r2 l2 [] ltac:(lia)) as Hsa.
    destruct (sattrs o (S (length r2)) w r2 l2 []) as [[[[sa bw] r3] l3]| |]; cbn [bind]; try exact I; [|exact Hsa].
    cbn in Hsa.
    pose proof (IH r3 l3 (S nid) true (Some bw) 0%nat None [] ltac:(lia)) as Hk.
    destruct (cobj o f r3 l3 (S nid) true (Some bw) 0%nat None []) as [[[[kids r4] l4] nid4]| |]; cbn [bind]; try exact I; [|exact Hk].
    cbn in Hk.
    destruct (prefix_reserved lv); [exact I|]. apply Hrec; lia. }
  destruct (negb (prefixb ["."] lv)).
  { destruct (negb (is_ident lv)); [destruct (eqs lv [";"]); exact I|].
    assert (Hpos : match (if eqs lv include_w then Ok (r, l)
                          else do (eqw, r5, l5) <- pop_unq s0 r l ; do _ <- expect_eq eqw ; Ok (r5, l5)) with
                   | Crash _ => False | Ok (r5, _) => length r5 <= length r | UErr _ _ _ => True end).
    { destruct (eqs lv include_w); [lia|].
      pose proof (pop_unq_ok s0 r l) as Hq.
      destruct (pop_unq s0 r l) as [[[eqw r5] l5]| |] eqn:E2; cbn [bind]; try exact I; [|exact Hq].
      pose proof (pop_unq_shorter _ _ _ _ _ _ E2). pose proof (expect_eq_ok eqw) as He.
      destruct (expect_eq eqw); cbn [bind]; try exact I; [lia|exact He]. }
    destruct (if eqs lv include_w then Ok (r, l) else _) as [[r5 l5]| |]; cbn [bind]; try exact I; [|exact Hpos].
    pose proof (caw_total (S (length r5)) r5 l5 false (mkword lv QN (wline lead)) [] (mkword lv QN (wline lead)) ltac:(lia)) as Hc.
    destruct (caw (S (length r5)) r5 l5 false _ [] _) as [[[ws r6] l6]| |]; cbn [bind]; try exact I; [|exact Hc].
    destruct Hc as [Hr6 _].
    destruct (name_reserved_def lv); [exact I|]. destruct (prefix_reserved lv); [exact I|].
    apply Hrec; lia. }
  destruct active as [ad|]; [|exact I].
  destruct (negb (mems (drop 1 lv) def_attr_names)); [exact I|].
  pose proof (pop_unq_ok s0 r l) as Hq.
  destruct (pop_unq s0 r l) as [[[eqw r5] l5]| |] eqn:E2; cbn [bind]; try exact I; [|exact Hq].
  pose proof (pop_unq_shorter _ _ _ _ _ _ E2) as Hr5. pose proof (expect_eq_ok eqw) as He.
  destruct (expect_eq eqw); cbn [bind]; try exact I; [|exact He].
  pose proof (caw_total (S (length r5)) r5 l5 false (mkword lv QN (wline lead)) [] (mkword lv QN (wline lead)) ltac:(lia)) as Hc.
  destruct (caw (S (length r5)) r5 l5 false _ [] _) as [[[ws r6] l6]| |]; cbn [bind]; try exact I; [|exact Hc].
  destruct Hc as [Hr6 Hws].
  assert (Had : ok_res (if dis then Ok ad else do av <- assign_def_attr o (drop 1 lv) ws ; Ok (attach (drop 1 lv) av ad))).
  { destruct dis; [exact I|]. pose proof (assign_def_attr_ok o (drop 1 lv) ws Ho Hws) as Ha.
    destruct (assign_def_attr o (drop 1 lv) ws); cbn [bind]; try exact I. exact Ha. }
  destruct (if dis then Ok ad else _) as [ad'| |]; cbn [bind]; try exact I; [|exact Had].
  apply Hrec; lia.
Qed.

Theorem parse_total : forall o s, oracle_ok o -> ok_res (parse o s).
Proof.
  intros o s Ho. unfold parse.
  pose proof (cobj_total o Ho (S (S (length s))) s 1 1 false None 0 None [] ltac:(lia)) as H.
  destruct (cobj o (S (S (length s))) s 1 1 false None 0 None []) as [[[[a b] c] d]| |]; cbn [bind]; try exact I. exact H.
Qed.

(* with an empty oracle table (no .type / .call / expression-valued integer attribute is ever
   answered) parse has no internal error at all *)
Corollary parse_total_no_oracle : forall s, ok_res (parse [] s).
Proof. intros s. apply parse_total. constructor. Qed.
