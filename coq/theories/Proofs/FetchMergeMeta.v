(* C05, metamorphic part - the three rewrites as instances of FetchMergeObs.fetch_obs:
   split      one source document cut in two at a top-level boundary
   spelling   merge flags, primary ids, where-lines, is_template and attributes of source objects are
              invisible (skel); a dotted name is, up to these, the chain of single-child scopes
   interleave two adjacent source objects with unrelated names swapped, at top level or inside any
              (named) source scope *)
From Coq Require Import List Ascii String Bool Arith ZArith Lia.
From Phil Require Import Base Tree Vars Choice Parser Fetch FetchBasics FetchDisabled FetchMergeObs.
Import ListNotations.
Local Open Scope char_scope.

(* ------------------------------------------------------------------ the skeleton of a source object *)
(* what a fetch can see of a source object: names, disabled flags, words (with quotes and lines),
   nesting and order *)
Definition skel_hdr (h:hdr) : hdr := mkhdr (oname h) (odis h) 0 false 0 0.
Fixpoint skel (o:obj) : obj :=
  match o with
  | Def h ws _ => Def (skel_hdr h) ws []
  | Scp h ks _ => Scp (skel_hdr h) (map skel ks) []
  end.

Lemma skel_hdr_inj : forall h h', skel_hdr h = skel_hdr h' -> oname h = oname h' /\ odis h = odis h'.
Proof. intros h h' H. unfold skel_hdr in H. injection H as H1 H2. auto. Qed.

Lemma skel_def_inv : forall h ws a h' ws' a', skel (Def h ws a) = skel (Def h' ws' a') ->
  (oname h = oname h' /\ odis h = odis h') /\ ws = ws'.
Proof. intros h ws a h' ws' a' H. cbn [skel] in H. split; [apply skel_hdr_inj|]; congruence. Qed.
Lemma skel_scp_inv : forall h ks a h' ks' a', skel (Scp h ks a) = skel (Scp h' ks' a') ->
  (oname h = oname h' /\ odis h = odis h') /\ map skel ks = map skel ks'.
Proof. intros h ks a h' ks' a' H. cbn [skel] in H. split; [apply skel_hdr_inj|]; congruence. Qed.

Lemma skel_dis : forall o o', skel o = skel o' -> odis (ohdr o) = odis (ohdr o').
Proof.
  intros o o' H. destruct o, o'; try discriminate; [apply skel_def_inv in H|apply skel_scp_inv in H]; apply H.
Qed.

(* related and equally active *)
Definition oeqd (o o':obj) : Prop := oeq o o' /\ odis (ohdr o) = odis (ohdr o').

Lemma filter_oeqd : forall l l', Forall2 oeqd l l' -> Forall2 oeq (filter oactive l) (filter oactive l').
Proof.
  intros l l' H. induction H as [|o o' r r' [Ho Hd] _ IH]; [constructor|].
  cbn [filter]. assert (E : oactive o = oactive o') by (unfold oactive; rewrite Hd; reflexivity). rewrite E.
  destruct (oactive o'); [constructor; assumption|exact IH].
Qed.

Lemma Forall2_flat : forall A B (R:B -> B -> Prop) (f g:A -> list B) l l',
  Forall2 (fun a a' => Forall2 R (f a) (g a')) l l' -> Forall2 R (flat_map f l) (flat_map g l').
Proof.
  intros A B R f g l l' H. induction H as [|a a' r r' Ha _ IH]; [constructor|].
  cbn [flat_map]. apply Forall2_app; assumption.
Qed.

Lemma skel_obs : forall o o', skel o = skel o' ->
  oeq o o' /\ forall n, Forall2 oeqd (gw n o) (gw n o').
Proof.
  induction o as [h ws a|h ks a IH] using obj_ind2; intros o' H.
  - destruct o' as [h' ws' a'|h' ks' a']; [|discriminate]. apply skel_def_inv in H. destruct H as [[Hn Hd] Hw]. subst ws'.
    split; [constructor|].
    intros n. cbn [gw]. rewrite Hn, Hd. destruct (odis h' || negb (eqs (oname h') n)); [constructor|].
    constructor; [|constructor]. split; [constructor|exact Hd].
  - destruct o' as [h' ws' a'|h' ks' a']; [discriminate|]. apply skel_scp_inv in H. destruct H as [[Hn Hd] Hk].
    assert (Hks : Forall2 (fun k k' => skel k = skel k' /\ (oeq k k' /\ forall n, Forall2 oeqd (gw n k) (gw n k'))) ks ks').
    { clear Hn Hd. revert ks' Hk. induction IH as [|k r Hk0 _ IHr]; intros [|k' r'] Hk; try discriminate; constructor.
      - injection Hk as E _. split; [exact E|apply Hk0; exact E].
      - injection Hk as _ E. apply IHr. exact E. }
    assert (Hin : forall n, Forall2 oeqd (gwk n ks) (gwk n ks')).
    { intros n. unfold gwk. apply Forall2_flat.
      clear -Hks. induction Hks as [|k k' r r' [Es [_ Hg]] _ IHr]; constructor; [|exact IHr].
      rewrite (skel_dis _ _ Es). destruct (odis (ohdr k')); [constructor|apply Hg]. }
    assert (Hraw : Forall2 oeqd ks ks').
    { clear -Hks. induction Hks as [|k k' r r' [Es [Ho _]] _ IHr]; constructor; [|exact IHr].
      split; [exact Ho|apply skel_dis; exact Es]. }
    assert (Ho : oeq (Scp h ks a) (Scp h' ks' a')).
    { constructor. intros n. unfold omatch. apply filter_oeqd. apply Hin. }
    split; [exact Ho|].
    intros n. cbn [gw]. rewrite Hn, Hd. destruct (odis h') eqn:Ed'; [constructor|].
    destruct (oname h') as [|c nm].
    + destruct n as [|c n]; [exact Hraw|apply Hin].
    + destruct (eqs (c :: nm) n); [constructor; [split; [exact Ho|cbn; congruence]|constructor]|].
      destruct (prefixb ((c :: nm) ++ ["."]) n); [apply Hin|constructor].
Qed.

Lemma oeq_refl : forall o, oeq o o.
Proof. intros o. apply skel_obs. reflexivity. Qed.
Lemma Forall2_oeq_refl : forall l, Forall2 oeq l l.
Proof. induction l; constructor; [apply oeq_refl|assumption]. Qed.
Lemma leq_refl : forall l, leq l l.
Proof. intros l n. apply Forall2_oeq_refl. Qed.

Lemma skel_leq : forall l l', map skel l = map skel l' -> leq l l'.
Proof.
  intros l l' H n. unfold omatch. apply filter_oeqd. unfold gwk. apply Forall2_flat.
  revert l' H. induction l as [|k r IH]; intros [|k' r'] H; try discriminate; constructor.
  - injection H as E _. rewrite (skel_dis _ _ E). destruct (odis (ohdr k')); [constructor|]. apply skel_obs. exact E.
  - injection H as _ E. apply IH. exact E.
Qed.

(* "$" is a matter of the words, which the skeleton keeps *)
Lemma skel_dollar : forall o o', skel o = skel o' -> obj_has_dollar o = obj_has_dollar o'.
Proof.
  induction o as [h ws a|h ks a IH] using obj_ind2; intros o' H.
  - destruct o' as [h' ws' a'|]; [|discriminate]. apply skel_def_inv in H. destruct H as [_ Hw]. subst. reflexivity.
  - destruct o' as [|h' ks' a']; [discriminate|]. apply skel_scp_inv in H. destruct H as [_ Hk].
    rewrite !has_dollar_scp. revert ks' Hk. induction IH as [|k r Hk0 _ IHr]; intros [|k' r'] Hk; try discriminate; [reflexivity|].
    injection Hk as E1 E2. cbn [existsb]. rewrite (Hk0 _ E1), (IHr _ E2). reflexivity.
Qed.
Lemma skel_dollar_list : forall l l', map skel l = map skel l' -> existsb obj_has_dollar l = existsb obj_has_dollar l'.
Proof.
  induction l as [|k r IH]; intros [|k' r'] H; try discriminate; [reflexivity|].
  injection H as E1 E2. cbn [existsb]. rewrite (skel_dollar _ _ E1), (IH _ E2). reflexivity.
Qed.
Lemma skel_dollar_srcs : forall s s', map (map skel) s = map (map skel) s' -> srcs_have_dollar s = srcs_have_dollar s'.
Proof.
  unfold srcs_have_dollar. induction s as [|t r IH]; intros [|t' r'] H; try discriminate; [reflexivity|].
  injection H as E1 E2. cbn [existsb]. rewrite (skel_dollar_list _ _ E1), (IH _ E2). reflexivity.
Qed.

Lemma concat_skel : forall s s', map (map skel) s = map (map skel) s' -> map skel (List.concat s) = map skel (List.concat s').
Proof.
  induction s as [|t r IH]; intros [|t' r'] H; try discriminate; [reflexivity|].
  injection H as E1 E2. cbn [List.concat]. rewrite !map_app, E1, (IH _ E2). reflexivity.
Qed.

Section Meta.
  Variable env : str -> option str.
  Variable canon : obj -> option obj -> res str.
  Variable diff : bool.

  (* ---------------------------------------------------------------- split *)
  Lemma concat_split : forall (xs ys:list (list obj)) a b,
    List.concat (xs ++ [a ++ b] ++ ys) = List.concat (xs ++ [a; b] ++ ys).
  Proof. intros. rewrite !concat_app. cbn [List.concat app]. rewrite !app_assoc. reflexivity. Qed.

  Lemma dollar_split : forall (xs ys:list (list obj)) a b,
    srcs_have_dollar (xs ++ [a ++ b] ++ ys) = srcs_have_dollar (xs ++ [a; b] ++ ys).
  Proof.
    intros. unfold srcs_have_dollar. rewrite !existsb_app. cbn [existsb app]. rewrite existsb_app.
    rewrite !orb_false_r. rewrite <- !orb_assoc. reflexivity.
  Qed.

  Theorem fetch_split : forall m xs a b ys,
    srcs_have_dollar (xs ++ [a ++ b] ++ ys) = false ->
    fetch env canon diff m (xs ++ [a ++ b] ++ ys) = fetch env canon diff m (xs ++ [a; b] ++ ys).
  Proof.
    intros m xs a b ys H. apply fetch_obs; [exact H|rewrite <- dollar_split; exact H|].
    rewrite concat_split. apply leq_refl.
  Qed.

  (* ---------------------------------------------------------------- spelling *)
  (* the result depends on "$"-free sources only through their skeletons, document by document
     (and by fetch_split not even on the documents' boundaries) *)
  Theorem fetch_skel : forall m srcs srcs',
    srcs_have_dollar srcs = false -> map (map skel) srcs = map (map skel) srcs' ->
    fetch env canon diff m srcs = fetch env canon diff m srcs'.
  Proof.
    intros m srcs srcs' Hd H. apply fetch_obs; [exact Hd|rewrite <- (skel_dollar_srcs _ _ H); exact Hd|].
    apply skel_leq. apply concat_skel. exact H.
  Qed.
End Meta.

(* erase_layout: clear the merge flag, the primary id and the where-line of every source object *)
Definition erase_hdr (h:hdr) : hdr := mkhdr (oname h) (odis h) (otmpl h) false 0 0.
Fixpoint erase_layout (o:obj) : obj :=
  match o with
  | Def h ws a => Def (erase_hdr h) ws a
  | Scp h ks a => Scp (erase_hdr h) (map erase_layout ks) a
  end.

Lemma skel_erase : forall o, skel (erase_layout o) = skel o.
Proof.
  induction o as [h ws a|h ks a IH] using obj_ind2; [reflexivity|].
  cbn [erase_layout skel]. f_equal. rewrite map_map.
  induction IH as [|k r Hk _ IHr]; [reflexivity|]. cbn [map]. rewrite Hk, IHr. reflexivity.
Qed.

Theorem fetch_erase_layout : forall env canon diff m srcs,
  srcs_have_dollar srcs = false ->
  fetch env canon diff m srcs = fetch env canon diff m (map (map erase_layout) srcs).
Proof.
  intros env canon diff m srcs H. apply fetch_skel; [exact H|].
  rewrite map_map. apply map_ext. intros t. rewrite map_map. apply map_ext. intros o. symmetry. apply skel_erase.
Qed.

(* a dotted name as the parser builds it (Parser.wrap_dotted: line-less prefix scopes carrying the id of the object, merge
   flags from the second component on, the object renamed to the last component) against the same
   path written with braces: scopes with arbitrary ids and lines, each with the single child *)
Fixpoint braces (hs:list hdr) (o:obj) : obj :=
  match hs with
  | [] => o
  | h :: r => Scp h [braces r o] []
  end.
Definition prefix_hdr_ok (h:hdr) : Prop := odis h = false /\ otmpl h = 0%Z.
Definition renamed (o:obj) (n:str) : obj := set_hdr o (with_name (ohdr o) n).

Lemma erase_renamed_merge : forall o n,
  erase_layout (set_hdr o (with_merge (with_name (ohdr o) n) true)) = erase_layout (renamed o n).
Proof. intros [h ws a|h ks a] n; reflexivity. Qed.

Lemma dotted_is_braces_aux : forall hs o last first,
  hs <> [] \/ first = false -> Forall prefix_hdr_ok hs ->
  erase_layout (wrap_dotted first (map oname hs ++ [last]) o) = erase_layout (braces hs (renamed o last)).
Proof.
  induction hs as [|h r IH]; intros o last first Hne Hok.
  - destruct Hne as [Hne|Hne]; [congruence|]. subst first. cbn. apply erase_renamed_merge.
  - inversion Hok as [|x l [Hd Ht] Hr]; subst. cbn [map app wrap_dotted braces].
    destruct (map oname r ++ [last]) as [|c rest] eqn:E; [destruct (map oname r); discriminate|].
    rewrite <- E. cbn [erase_layout map]. f_equal.
    + unfold erase_hdr. cbn. rewrite Hd, Ht. reflexivity.
    + f_equal. apply IH; [right; reflexivity|exact Hr].
Qed.

Theorem dotted_is_braces : forall h hs o last,
  Forall prefix_hdr_ok (h :: hs) ->
  erase_layout (wrap_dotted true (map oname (h :: hs) ++ [last]) o) = erase_layout (braces (h :: hs) (renamed o last)).
Proof. intros. apply dotted_is_braces_aux; [left; discriminate|assumption]. Qed.

Lemma skel_of_erase_eq : forall o o', erase_layout o = erase_layout o' -> skel o = skel o'.
Proof. intros o o' H. rewrite <- (skel_erase o), <- (skel_erase o'), H. reflexivity. Qed.

(* hence: one source object written dotted or with braces, anywhere at top level of any source *)
Theorem fetch_dotted : forall env canon diff m S1 xs ys S2 h hs o last,
  Forall prefix_hdr_ok (h :: hs) ->
  srcs_have_dollar (S1 ++ [xs ++ wrap_dotted true (map oname (h :: hs) ++ [last]) o :: ys] ++ S2) = false ->
  fetch env canon diff m (S1 ++ [xs ++ wrap_dotted true (map oname (h :: hs) ++ [last]) o :: ys] ++ S2)
  = fetch env canon diff m (S1 ++ [xs ++ braces (h :: hs) (renamed o last) :: ys] ++ S2).
Proof.
  intros env canon diff m S1 xs ys S2 h hs o last Hok Hd. apply fetch_skel; [exact Hd|].
  rewrite !map_app. f_equal. cbn [map app]. f_equal. rewrite !map_app. f_equal. cbn [map]. f_equal.
  apply skel_of_erase_eq. apply dotted_is_braces. exact Hok.
Qed.

(* ------------------------------------------------------------------ interleave *)
(* unrelated names: non-empty, different, neither a dotted prefix of the other *)
Definition unrelated (a b:obj) : Prop :=
  let na := oname (ohdr a) in
  let nb := oname (ohdr b) in
  na <> [] /\ nb <> [] /\ na <> nb /\ prefixb (na ++ ["."]) nb = false /\ prefixb (nb ++ ["."]) na = false.

Lemma gw_hit : forall o n c nm, oname (ohdr o) = c :: nm -> gw n o <> [] ->
  eqs (c :: nm) n = true \/ prefixb ((c :: nm) ++ ["."]) n = true.
Proof.
  intros [h ws a|h ks a] n c nm E H; cbn [ohdr] in E; cbn [gw] in H.
  - rewrite E in H. destruct (eqs (c :: nm) n); [left; reflexivity|].
    rewrite orb_true_r in H. congruence.
  - destruct (odis h); [congruence|]. rewrite E in H.
    destruct (eqs (c :: nm) n); [left; reflexivity|].
    destruct (prefixb ((c :: nm) ++ ["."]) n); [right; reflexivity|congruence].
Qed.

Lemma prefix_both : forall p q n, prefixb p n = true -> prefixb q n = true -> prefixb p q = true \/ prefixb q p = true.
Proof.
  induction p as [|x p IH]; intros q n Hp Hq; [left; reflexivity|].
  destruct q as [|y q]; [right; reflexivity|].
  destruct n as [|z n]; [discriminate|]. cbn in *.
  apply andb_true_iff in Hp. destruct Hp as [Hx Hp]. apply andb_true_iff in Hq. destruct Hq as [Hy Hq].
  apply Ascii.eqb_eq in Hx. apply Ascii.eqb_eq in Hy. subst. rewrite Ascii.eqb_refl. cbn.
  eapply IH; eassumption.
Qed.

Lemma prefix_dot : forall a b, prefixb (a ++ ["."]) (b ++ ["."]) = true -> a = b \/ prefixb (a ++ ["."]) b = true.
Proof.
  induction a as [|x a IH]; intros [|y b] H.
  - left; reflexivity.
  - right. cbn in *. apply andb_true_iff in H. destruct H as [H _]. rewrite H. reflexivity.
  - cbn in H. apply andb_true_iff in H. destruct H as [_ H]. destruct a; discriminate.
  - cbn in H. apply andb_true_iff in H. destruct H as [Hx H]. apply Ascii.eqb_eq in Hx. subst.
    destruct (IH _ H) as [E|E]; [left; congruence|right]. cbn. rewrite Ascii.eqb_refl. exact E.
Qed.

Lemma prefix_refl_app : forall p s, prefixb p (p ++ s) = true.
Proof. induction p as [|x p IH]; intros s; [reflexivity|]. cbn. rewrite Ascii.eqb_refl. apply IH. Qed.

Lemma prefix_trans_app : forall p q s, prefixb p q = true -> prefixb p (q ++ s) = true.
Proof.
  induction p as [|x p IH]; intros q s H; [reflexivity|]. destruct q as [|y q]; [discriminate|].
  cbn in *. apply andb_true_iff in H. destruct H as [H1 H2]. rewrite H1. cbn. apply IH. exact H2.
Qed.

Lemma unrelated_one_hit : forall a b n, unrelated a b -> gw n a = [] \/ gw n b = [].
Proof.
  intros a b n [Ha [Hb [Hne [Hab Hba]]]].
  destruct (gw n a) as [|x l] eqn:Ea; [left; reflexivity|]. right.
  destruct (gw n b) as [|y l'] eqn:Eb; [reflexivity|]. exfalso.
  destruct (oname (ohdr a)) as [|ca na] eqn:Na; [congruence|].
  destruct (oname (ohdr b)) as [|cb nb] eqn:Nb; [congruence|].
  assert (H1 : gw n a <> []) by (rewrite Ea; discriminate).
  assert (H2 : gw n b <> []) by (rewrite Eb; discriminate).
  destruct (gw_hit _ _ _ _ Na H1) as [A|A]; destruct (gw_hit _ _ _ _ Nb H2) as [B|B].
  - apply f_eqs_eq in A. apply f_eqs_eq in B. congruence.
  - apply f_eqs_eq in A. subst n. congruence.
  - apply f_eqs_eq in B. subst n. congruence.
  - destruct (prefix_both _ _ _ A B) as [P|P]; apply prefix_dot in P; destruct P as [P|P]; congruence.
Qed.

Inductive swap1 : list obj -> list obj -> Prop :=
  | swap_here : forall xs a b ys, unrelated a b -> swap1 (xs ++ a :: b :: ys) (xs ++ b :: a :: ys)
  | swap_in : forall xs h ks ks' at_ ys, oname h <> [] -> swap1 ks ks' ->
      swap1 (xs ++ Scp h ks at_ :: ys) (xs ++ Scp h ks' at_ :: ys).

Lemma omatch_cons : forall n k r, omatch n (k :: r) = filter oactive (if odis (ohdr k) then [] else gw n k) ++ omatch n r.
Proof. intros. change (k :: r) with ([k] ++ r). rewrite omatch_app. f_equal. unfold omatch, gwk. cbn. rewrite app_nil_r. reflexivity. Qed.

Lemma swap1_leq : forall l l', swap1 l l' -> leq l l'.
Proof.
  intros l l' H. induction H as [xs a b ys Hu|xs h ks ks' at_ ys Hn Hs IH]; intros n.
  - rewrite !omatch_app. apply Forall2_app; [apply Forall2_oeq_refl|].
    rewrite !omatch_cons. rewrite !app_assoc.
    apply Forall2_app; [|apply Forall2_oeq_refl].
    destruct (unrelated_one_hit a b n Hu) as [E|E]; rewrite E;
      destruct (odis (ohdr a)); destruct (odis (ohdr b)); cbn [filter app]; rewrite ?app_nil_r; apply Forall2_oeq_refl.
  - rewrite !omatch_app. apply Forall2_app; [apply Forall2_oeq_refl|].
    rewrite !omatch_cons. apply Forall2_app; [|apply Forall2_oeq_refl].
    cbn [ohdr]. destruct (odis h) eqn:Ed; [constructor|].
    cbn [gw]. rewrite Ed. destruct (oname h) as [|c nm]; [congruence|].
    destruct (eqs (c :: nm) n).
    + cbn [filter]. unfold oactive. cbn [ohdr]. rewrite Ed. cbn [negb].
      constructor; [|constructor]. constructor. exact IH.
    + destruct (prefixb ((c :: nm) ++ ["."]) n); [|constructor].
      apply IH.
Qed.

Lemma swap1_dollar : forall l l', swap1 l l' -> existsb obj_has_dollar l = existsb obj_has_dollar l'.
Proof.
  intros l l' H. induction H as [xs a b ys Hu|xs h ks ks' at_ ys Hn Hs IH].
  - rewrite !existsb_app. cbn [existsb]. f_equal. rewrite !orb_assoc. f_equal. apply orb_comm.
  - rewrite !existsb_app. cbn [existsb]. rewrite !has_dollar_scp, IH. reflexivity.
Qed.

(* swapping two adjacent unrelated objects, at top level of a source or inside any of its scopes *)
Theorem fetch_interleave : forall env canon diff m S1 t t' S2,
  swap1 t t' -> srcs_have_dollar (S1 ++ [t] ++ S2) = false ->
  fetch env canon diff m (S1 ++ [t] ++ S2) = fetch env canon diff m (S1 ++ [t'] ++ S2).
Proof.
  intros env canon diff m S1 t t' S2 Hs Hd. apply fetch_obs; [exact Hd| |].
  - unfold srcs_have_dollar in *. rewrite existsb_app in *. cbn [existsb app] in *.
    rewrite <- (swap1_dollar _ _ Hs). exact Hd.
  - rewrite !concat_app. cbn [List.concat]. apply leq_app; [apply leq_refl|].
    apply leq_app; [|apply leq_refl]. rewrite !app_nil_r. apply swap1_leq. exact Hs.
Qed.

Theorem fetch_interleave_top : forall env canon diff m S1 xs a b ys S2,
  unrelated a b -> srcs_have_dollar (S1 ++ [xs ++ a :: b :: ys] ++ S2) = false ->
  fetch env canon diff m (S1 ++ [xs ++ a :: b :: ys] ++ S2) = fetch env canon diff m (S1 ++ [xs ++ b :: a :: ys] ++ S2).
Proof. intros. apply fetch_interleave; [constructor; assumption|assumption]. Qed.
