(* C18: the guard (__setattr__), __inject__, and "every declared parameter is an attribute". *)
From Coq Require Import List Ascii String Bool Arith ZArith Lia.
From Phil Require Import Base Tokenizer Tree PyVal ConvText Extract.
From Phil Require Conv Parser.
Import ListNotations.
Local Open Scope char_scope.

Lemma eqs_refl' a : eqs a a = true.
Proof. induction a as [|c a IH]; [reflexivity|]. cbn [eqs]. rewrite Ascii.eqb_refl. exact IH. Qed.
Lemma eqs_eq' a b : eqs a b = true -> a = b.
Proof.
  revert b. induction a as [|c a IH]; intros [|d b] H; try discriminate; [reflexivity|].
  cbn [eqs] in H. apply andb_true_iff in H. destruct H as [H1 H2]. apply Ascii.eqb_eq in H1. f_equal; auto.
Qed.
Lemma eqs_neq' a b : a <> b -> eqs a b = false.
Proof. intro N. destruct (eqs a b) eqn:E; [apply eqs_eq' in E; contradiction|reflexivity]. Qed.

(* ---------- the dict *)
Lemma fget_fset_same k v fs : fget k (fset k v fs) = Some v.
Proof.
  induction fs as [|[k' v'] fs IH]; cbn [fset fget]; [rewrite eqs_refl'; reflexivity|].
  destruct (eqs k' k) eqn:E; cbn [fget]; rewrite E; [reflexivity|exact IH].
Qed.
Lemma fget_fset_other k k' v fs : k' <> k -> fget k (fset k' v fs) = fget k fs.
Proof.
  intro N. induction fs as [|[k2 v2] fs IH]; cbn [fset fget].
  - rewrite (eqs_neq' k' k N). reflexivity.
  - destruct (eqs k2 k') eqn:E; cbn [fget].
    + apply eqs_eq' in E. subst k2. rewrite (eqs_neq' k' k N). reflexivity.
    + rewrite IH. reflexivity.
Qed.
Lemma fget_in_keys k fs : (exists v, fget k fs = Some v) <-> In k (fkeys fs).
Proof.
  induction fs as [|[k' v'] fs IH]; cbn [fget fkeys map In fst].
  - split; [intros [v H]; discriminate|contradiction].
  - destruct (eqs k' k) eqn:E.
    + apply eqs_eq' in E. subst. split; [auto|eauto].
    + split.
      * intros H. right. apply IH. exact H.
      * intros [H|H]; [subst; rewrite eqs_refl' in E; discriminate|apply IH; exact H].
Qed.
Lemma fset_keys x k v fs : In x (fkeys (fset k v fs)) <-> x = k \/ In x (fkeys fs).
Proof.
  induction fs as [|[k' v'] fs IH]; cbn [fset fkeys map In fst].
  - split; [intros [H|[]]; auto|intros [H|[]]; auto].
  - destruct (eqs k' k) eqn:E; cbn [fkeys map In fst].
    + apply eqs_eq' in E. subst. split; [intros [H|H]; auto|intros [H|[H|H]]; auto].
    + fold (fkeys (fset k v fs)). rewrite IH. fold (fkeys fs). tauto.
Qed.

(* ---------- __setattr__ : C18_guard *)
Theorem setattr_field anc n fs name v x :
  fget name fs = Some x -> setattr anc (Ext n fs) name v = GOk (Ext n (fset name v fs)).
Proof. intro H. unfold setattr, getattr. rewrite H. reflexivity. Qed.

Theorem setattr_missing anc n fs name v :
  fget name fs = None -> builtin_attr name = false -> setattr anc (Ext n fs) name v = refuse anc n name.
Proof. intros H B. unfold setattr, getattr. rewrite H, B. reflexivity. Qed.

(* the refusal spells the node's path, a dot, the name - or the bare name at the root *)
Theorem refuse_path anc n name p :
  phil_path anc (Some n) None = Ok (Some p) ->
  refuse anc n name = GRefuse (match p with [] => name | _ => p ++ "." :: name end).
Proof. intro H. unfold refuse, err_path. rewrite H. cbn [bind]. destruct p; reflexivity. Qed.

(* for names that are not attributes of the class: assignment succeeds iff the name is a field *)
Theorem setattr_iff anc e name v : builtin_attr name = false ->
  ((exists e', setattr anc e name v = GOk e') <-> In name (fkeys (ext_fields e))).
Proof.
  intro B. destruct e as [n fs]. cbn [ext_fields]. rewrite <- fget_in_keys. split.
  - intros [e' H]. unfold setattr, getattr in H. destruct (fget name fs) as [x|] eqn:E; [eauto|].
    rewrite B in H. unfold refuse in H. destruct (err_path anc n name); discriminate.
  - intros [x H]. eexists. eapply setattr_field. exact H.
Qed.
(* attributes of the class and the bookkeeping entries are found by getattr: never refused *)
Theorem setattr_builtin_not_refused anc n fs name v p : builtin_attr name = true -> setattr anc (Ext n fs) name v <> GRefuse p.
Proof.
  intros B H. unfold setattr, getattr in H. destruct (fget name fs); [discriminate|]. rewrite B in H.
  unfold set_builtin in H. destruct (eqs name (s_ "__phil_name__")); [destruct v; discriminate|].
  destruct (mems name bookkeeping || special_attr name); discriminate.
Qed.

(* ---------- __inject__ : C18_inject_once *)
Theorem inject_fresh anc n fs name v :
  fget name fs = None -> builtin_attr name = false ->
  inject anc (Ext n fs) name v = GOk (Ext n (fset name v fs))
  /\ fget name (fset name v fs) = Some v
  /\ (forall v', inject anc (Ext n (fset name v fs)) name v' = refuse anc n name)
  /\ (forall v', setattr anc (Ext n (fset name v fs)) name v' = GOk (Ext n (fset name v' (fset name v fs)))).
Proof.
  intros H B. repeat split.
  - unfold inject, getattr. rewrite H, B. reflexivity.
  - apply fget_fset_same.
  - intro v'. unfold inject, getattr. rewrite fget_fset_same. reflexivity.
  - intro v'. eapply setattr_field. apply fget_fset_same.
Qed.
Theorem inject_existing anc n fs name v x :
  fget name fs = Some x -> inject anc (Ext n fs) name v = refuse anc n name.
Proof. intro H. unfold inject, getattr. rewrite H. reflexivity. Qed.
Theorem inject_keeps_others (fs:fields_t) name v k : k <> name ->
  fget k (fset name v fs) = fget k fs.
Proof. intro N. apply fget_fset_other. congruence. Qed.

(* ---------- keys only grow *)
Lemma join_ext_keys : forall oe self self', join_ext oe self = Ok self' -> incl (fkeys self) (fkeys self').
Proof.
  intro oe.
  assert (P : forall v, match v with
                        | VScope oe => forall self self', join_ext oe self = Ok self' -> incl (fkeys self) (fkeys self')
                        | _ => True end).
  { induction v as [| |s|n|l IHl|l|n fs IHf|o l IHl] using pyval_ind2; try exact I.
    intros self self' H. cbn [join_ext] in H.
    revert self H. induction fs as [|[key ov] r IHr]; intros self H.
    - inversion H. apply incl_refl.
    - inversion IHf as [|? ? Hov Hr]; subst. specialize (IHr Hr).
      destruct (Parser.reserved key); [apply IHr; exact H|].
      assert (G : forall x, incl (fkeys self) (fkeys (fset key x self))) by (intros x y Hy; apply fset_keys; auto).
      destruct (fget key self) as [sv|] eqn:E.
      + destruct sv as [| |s|nn|l|l|[n' sf]|o l];
          try (eapply incl_tran; [apply (G ov)|apply IHr; exact H]).
        * (* extract *)
          destruct ov as [| |s|nn|l|l|oe'|o l]; try discriminate;
            try (apply IHr; exact H).
          destruct (join_ext oe' sf) as [sf'| |] eqn:J; try discriminate. cbn [bind] in H.
          eapply incl_tran; [apply (G (VScope (Ext n' sf')))|apply IHr; exact H].
        * destruct ov; try discriminate; [apply IHr; exact H|]. eapply incl_tran; [apply G|apply IHr; exact H].
      + eapply incl_tran; [apply (G ov)|apply IHr; exact H]. }
  exact (P (VScope oe)).
Qed.

Ltac case_split_goal :=
  repeat (cbv beta iota;
          match goal with
          | |- (match ?x with _ => _ end = _) -> _ => destruct x eqn:?
          | |- (bind ?x _ = _) -> _ => destruct x eqn:?; cbn [bind]
          end); try discriminate.

Lemma phil_set_keys fs name opt mult value fs' :
  phil_set fs name opt mult value = Ok fs' -> incl (fkeys fs) (fkeys fs') /\ In name (fkeys fs').
Proof.
  unfold phil_set. destruct (has_dot name); [discriminate|].
  assert (G : forall x fs0, incl (fkeys fs) (fkeys fs0) ->
                incl (fkeys fs) (fkeys (fset name x fs0)) /\ In name (fkeys (fset name x fs0))).
  { intros x fs0 I. split; [intros y Hy; apply fset_keys; right; apply I; exact Hy|apply fset_keys; auto]. }
  assert (G0 : forall x, incl (fkeys fs) (fkeys (fset name x fs)) /\ In name (fkeys (fset name x fs))).
  { intro x. apply G. apply incl_refl. }
  assert (K : forall node, fget name fs = Some node -> incl (fkeys fs) (fkeys fs) /\ In name (fkeys fs)).
  { intros node E. split; [apply incl_refl|apply fget_in_keys; eauto]. }
  unfold getattr. destruct (fget name fs) as [node|] eqn:E; [destruct node|destruct (builtin_attr name); [discriminate|]];
    destruct mult; cbn [negb]; case_split_goal; intro H; inversion H; subst;
    first [apply G0 | (eapply K; reflexivity) | apply G; apply G0].
Qed.

Section Declared.
  Variable pe : str -> option Conv.evr.
  Variable ex : str -> option str.

  (* every object of a scope that is not a hidden template (is_template < 0) gives the extracted node an attribute of
     its name - a disabled object or a visible template too (value None, or an empty list for .multiple) *)
  Theorem declared_are_fields h ks a n fs :
    extract_obj pe ex (Scp h ks a) = Ok (VScope (Ext n fs)) ->
    forall k, In k ks -> (0 <= otmpl (ohdr k))%Z -> In (oname (ohdr k)) (fkeys fs).
  Proof.
    cbn [extract_obj]. intro H.
    match type of H with bind (?go ks []) _ = _ => set (loop := go) in H end.
    destruct (loop ks []) as [fs0| |] eqn:L; try discriminate. cbn [bind] in H. inversion H; subst n fs0. clear H.
    assert (G : forall l acc out, loop l acc = Ok out ->
              incl (fkeys acc) (fkeys out) /\ forall k, In k l -> (0 <= otmpl (ohdr k))%Z -> In (oname (ohdr k)) (fkeys out)).
    { induction l as [|k r IH]; intros acc out Hl.
      - cbn in Hl. inversion Hl. split; [apply incl_refl|contradiction].
      - cbn [loop] in Hl. fold loop in Hl.
        destruct (Z.ltb_spec (otmpl (ohdr k)) 0) as [Neg|Pos].
        + destruct (IH _ _ Hl) as [I1 I2]. split; [exact I1|]. intros k' [->|Hk'] T; [lia|auto].
        + destruct (if odis (ohdr k) || (0 <? otmpl (ohdr k))%Z then Ok None else do v <- extract_obj pe ex k; Ok (Some v))
            as [value| |] eqn:V; try discriminate. cbn [bind] in Hl.
          destruct (phil_set acc (oname (ohdr k)) (ooptional k) (omultiple k) value) as [acc'| |] eqn:S; try discriminate.
          cbn [bind] in Hl. destruct (IH _ _ Hl) as [I1 I2]. destruct (phil_set_keys _ _ _ _ _ _ S) as [S1 S2].
          split; [eapply incl_tran; eauto|]. intros k' [->|Hk'] T; [apply I1; exact S2|auto]. }
    apply (G ks [] fs L).
  Qed.

  Corollary declared_assignable h ks a e anc v :
    extract_obj pe ex (Scp h ks a) = Ok (VScope e) ->
    forall k, In k ks -> (0 <= otmpl (ohdr k))%Z -> exists e', setattr anc e (oname (ohdr k)) v = GOk e'.
  Proof.
    intros H k Hk T. destruct e as [n fs]. pose proof (declared_are_fields _ _ _ _ _ H k Hk T) as I.
    apply fget_in_keys in I. destruct I as [x Hx]. eexists. eapply setattr_field. exact Hx.
  Qed.
End Declared.
